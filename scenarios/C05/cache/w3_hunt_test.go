package cache

import (
	"encoding/json"
	"sort"
	"testing"

	"github.com/ovn-org/libovsdb/model"
	"github.com/ovn-org/libovsdb/ovsdb"
	"github.com/stretchr/testify/require"
)

// Property C05: looking rows up through an index returns exactly the rows a
// scan of the cache returns for the same values.

type huntPort struct {
	UUID        string            `ovsdb:"_uuid"`
	Name        string            `ovsdb:"name"`
	ExternalIDs map[string]string `ovsdb:"external_ids"`
	Counters    map[string]int    `ovsdb:"counters"`
}

const huntPortSchema = `{"name": "DB", "tables": {"Port": {
  "columns": {
    "name": {"type": "string"},
    "external_ids": {"type": {"key": "string", "value": "string", "min": 0, "max": "unlimited"}},
    "counters": {"type": {"key": "string", "value": "integer", "min": 0, "max": "unlimited"}}
  }}}}`

func huntPortCache(t *testing.T, indexes ...model.ClientIndex) *TableCache {
	var schema ovsdb.DatabaseSchema
	require.NoError(t, json.Unmarshal([]byte(huntPortSchema), &schema))
	db, err := model.NewClientDBModel("DB", map[string]model.Model{"Port": &huntPort{}})
	require.NoError(t, err)
	db.SetIndexes(map[string][]model.ClientIndex{"Port": indexes})
	dbModel, errs := model.NewDatabaseModel(schema, db)
	require.Empty(t, errs)
	tc, err := NewTableCache(dbModel, nil, nil)
	require.NoError(t, err)
	return tc
}

func huntUUIDs(rows map[string]model.Model) []string {
	uuids := []string{}
	for uuid := range rows {
		uuids = append(uuids, uuid)
	}
	sort.Strings(uuids)
	return uuids
}

// scanPorts is the full scan the index lookup is compared with
func scanPorts(rc *RowCache, match func(*huntPort) bool) []string {
	uuids := []string{}
	for uuid, row := range rc.Rows() {
		if match(row.(*huntPort)) {
			uuids = append(uuids, uuid)
		}
	}
	sort.Strings(uuids)
	return uuids
}

// A client index on a key of a map column: the rows that do not have the key
// at all are indexed under the zero value of the map's value type, so they are
// returned when looking up the rows whose key holds that value ("" or 0).
func TestHuntClientIndexOnMapKeyReturnsRowsWithoutTheKey(t *testing.T) {
	tc := huntPortCache(t,
		model.ClientIndex{Columns: []model.ColumnKey{{Column: "external_ids", Key: "owner"}}},
		model.ClientIndex{Columns: []model.ColumnKey{{Column: "counters", Key: "drops"}}},
	)
	// one notification with four new rows
	owner := func(v string) ovsdb.OvsMap {
		m, err := ovsdb.NewOvsMap(map[string]string{"owner": v})
		require.NoError(t, err)
		return m
	}
	other, err := ovsdb.NewOvsMap(map[string]string{"other": "x"})
	require.NoError(t, err)
	drops0, err := ovsdb.NewOvsMap(map[string]int{"drops": 0})
	require.NoError(t, err)
	require.NoError(t, tc.Populate2(ovsdb.TableUpdates2{"Port": {
		"p-owner-empty": {Insert: &ovsdb.Row{"name": "p1", "external_ids": owner("")}},
		"p-owner-x":     {Insert: &ovsdb.Row{"name": "p2", "external_ids": owner("x")}},
		"p-no-owner":    {Insert: &ovsdb.Row{"name": "p3", "external_ids": other}},
		"p-no-map":      {Insert: &ovsdb.Row{"name": "p4", "counters": drops0}},
	}}))
	rc := tc.Table("Port")

	// rows whose external_ids:owner is ""
	got, err := rc.RowsByModels([]model.Model{&huntPort{ExternalIDs: map[string]string{"owner": ""}}})
	require.NoError(t, err)
	want := scanPorts(rc, func(p *huntPort) bool {
		v, ok := p.ExternalIDs["owner"]
		return ok && v == ""
	})
	if g := huntUUIDs(got); !equalStringsW3(g, want) {
		t.Errorf("rows with external_ids:owner == \"\": a scan of the cache finds %v, the lookup through the client index external_ids|owner returns %v (rows that have no such key)", want, g)
	}

	// rows whose counters:drops is 0
	got, err = rc.RowsByModels([]model.Model{&huntPort{Counters: map[string]int{"drops": 0}}})
	require.NoError(t, err)
	want = scanPorts(rc, func(p *huntPort) bool {
		v, ok := p.Counters["drops"]
		return ok && v == 0
	})
	if g := huntUUIDs(got); !equalStringsW3(g, want) {
		t.Errorf("rows with counters:drops == 0: a scan of the cache finds %v, the lookup through the client index counters|drops returns %v (rows that have no such key)", want, g)
	}

	// the same through Index(): the entry for "" leads to rows that have no value for the key
	index, err := rc.Index("external_ids|owner")
	require.NoError(t, err)
	for _, uuid := range index[""] {
		if _, ok := rc.Row(uuid).(*huntPort).ExternalIDs["owner"]; !ok {
			t.Errorf("Index(external_ids|owner)[\"\"] leads to row %s, which has no key owner in external_ids", uuid)
		}
	}
}

// A notification removes the indexed key from a row: the index entry of the
// old value stays and keeps leading to the changed row.
func TestHuntClientIndexOnMapKeyKeepsEntryWhenKeyIsRemoved(t *testing.T) {
	tc := huntPortCache(t, model.ClientIndex{Columns: []model.ColumnKey{{Column: "external_ids", Key: "owner"}}})
	ownerEmpty, err := ovsdb.NewOvsMap(map[string]string{"owner": ""})
	require.NoError(t, err)
	require.NoError(t, tc.Populate2(ovsdb.TableUpdates2{"Port": {
		"p1": {Insert: &ovsdb.Row{"name": "p1", "external_ids": ownerEmpty}},
	}}))
	// the difference of a map column removes the pairs it holds unchanged
	require.NoError(t, tc.Populate2(ovsdb.TableUpdates2{"Port": {
		"p1": {Modify: &ovsdb.Row{"external_ids": ownerEmpty}},
	}}))
	rc := tc.Table("Port")
	require.Empty(t, rc.Row("p1").(*huntPort).ExternalIDs, "the key was removed from the row")

	got, err := rc.RowsByModels([]model.Model{&huntPort{ExternalIDs: map[string]string{"owner": ""}}})
	require.NoError(t, err)
	want := scanPorts(rc, func(p *huntPort) bool {
		v, ok := p.ExternalIDs["owner"]
		return ok && v == ""
	})
	if g := huntUUIDs(got); !equalStringsW3(g, want) {
		t.Errorf("after external_ids:owner was removed from p1: a scan of the cache finds %v rows with external_ids:owner == \"\", the lookup through the client index returns %v (the changed row)", want, g)
	}
}

func equalStringsW3(a, b []string) bool {
	if len(a) != len(b) {
		return false
	}
	for i := range a {
		if a[i] != b[i] {
			return false
		}
	}
	return true
}

type huntTwoIndexes struct {
	UUID string `ovsdb:"_uuid"`
	Name string `ovsdb:"name"`
	Tag  string `ovsdb:"tag"`
}

// Get / RowByModel: a model that names a row that does not exist is looked up
// through the next schema index with the default value of its unset field and
// a row holding other values is returned.
func TestHuntRowByModelFallsThroughToDefaultValueOfNextIndex(t *testing.T) {
	var schema ovsdb.DatabaseSchema
	require.NoError(t, json.Unmarshal([]byte(`{"name": "DB", "tables": {"T": {
	  "indexes": [["name"], ["tag"]],
	  "columns": {"name": {"type": "string"}, "tag": {"type": "string"}}}}}`), &schema))
	db, err := model.NewClientDBModel("DB", map[string]model.Model{"T": &huntTwoIndexes{}})
	require.NoError(t, err)
	dbModel, errs := model.NewDatabaseModel(schema, db)
	require.Empty(t, errs)
	tc, err := NewTableCache(dbModel, nil, nil)
	require.NoError(t, err)
	require.NoError(t, tc.Populate2(ovsdb.TableUpdates2{"T": {
		"u1": {Insert: &ovsdb.Row{"name": "one"}},
		"u2": {Insert: &ovsdb.Row{"name": "two", "tag": "t2"}},
	}}))
	rc := tc.Table("T")
	uuid, row, err := rc.RowByModel(&huntTwoIndexes{Name: "three"})
	require.NoError(t, err)
	if row != nil {
		t.Errorf("RowByModel(name=three): no row of the cache is named three, but row %s %+v was returned", uuid, row)
	}
}
