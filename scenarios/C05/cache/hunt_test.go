package cache

import (
	"encoding/json"
	"fmt"
	"math"
	"sort"
	"testing"

	"github.com/ovn-org/libovsdb/model"
	"github.com/ovn-org/libovsdb/ovsdb"
	"github.com/stretchr/testify/require"
)

// Property C05: lookups through indexes return exactly what a full scan of the
// cache returns for the same values.

type huntModel struct {
	UUID string            `ovsdb:"_uuid"`
	Name string            `ovsdb:"name"`
	Tag  *string           `ovsdb:"tag"`
	Ext  map[string]string `ovsdb:"ext"`
	Num  int               `ovsdb:"num"`
	R    float64           `ovsdb:"r"`
}

// huntPartialModel is a legal model of the same table covering only some of its columns
type huntPartialModel struct {
	UUID string `ovsdb:"_uuid"`
	Name string `ovsdb:"name"`
}

func huntSchema(indexes string) string {
	idx := ""
	if indexes != "" {
		idx = fmt.Sprintf(`"indexes": [%s],`, indexes)
	}
	return `{"name":"DB","tables":{"T":{` + idx + `"columns":{
	"name":{"type":"string"},
	"tag":{"type":{"key":{"type":"string"},"min":0,"max":1}},
	"ext":{"type":{"key":{"type":"string"},"value":{"type":"string"},"min":0,"max":"unlimited"}},
	"num":{"type":"integer"},
	"r":{"type":"real"}
	}}}}`
}

func huntCache(t *testing.T, m model.Model, schemaIndexes string, clientIndexes []model.ClientIndex) *TableCache {
	var schema ovsdb.DatabaseSchema
	db, err := model.NewClientDBModel("DB", map[string]model.Model{"T": m})
	require.NoError(t, err)
	if clientIndexes != nil {
		db.SetIndexes(map[string][]model.ClientIndex{"T": clientIndexes})
	}
	require.NoError(t, json.Unmarshal([]byte(huntSchema(schemaIndexes)), &schema))
	dbModel, errs := model.NewDatabaseModel(schema, db)
	require.Empty(t, errs)
	tc, err := NewTableCache(dbModel, nil, nil)
	require.NoError(t, err)
	return tc
}

func huntKeys(m map[string]model.Model) []string {
	r := []string{}
	for k := range m {
		r = append(r, k)
	}
	sort.Strings(r)
	return r
}

// scan evaluates the conditions on every row of the cache, without any index
func huntScan(t *testing.T, rc *RowCache, conditions []ovsdb.Condition) []string {
	r := []string{}
	schema := rc.dbModel.Schema.Table(rc.name)
	for uuid, row := range rc.Rows() {
		info, err := rc.dbModel.NewModelInfo(row)
		require.NoError(t, err)
		all := true
		for _, c := range conditions {
			native, err := ovsdb.OvsToNative(schema.Column(c.Column), c.Value)
			require.NoError(t, err)
			field, err := info.FieldByColumn(c.Column)
			require.NoError(t, err)
			ok, err := c.Function.Evaluate(field, native)
			require.NoError(t, err)
			all = all && ok
		}
		if all {
			r = append(r, uuid)
		}
	}
	sort.Strings(r)
	return r
}

// Finding 1: with an index (client or schema) over a whole map column, the
// condition `ext includes {}` - which every row satisfies - is answered
// through the index as if it were `ext == {}`.
func TestHuntIncludesEmptyMapThroughMapColumnIndex(t *testing.T) {
	emptyMap, err := ovsdb.NewOvsMap(map[string]string{})
	require.NoError(t, err)
	conditions := []ovsdb.Condition{{Column: "ext", Function: ovsdb.ConditionIncludes, Value: emptyMap}}

	for _, tt := range []struct {
		name   string
		schema string
		client []model.ClientIndex
	}{
		{"no index (control)", "", nil},
		{"client index on ext", "", []model.ClientIndex{{Columns: []model.ColumnKey{{Column: "ext"}}}}},
		{"schema index on ext", `["ext"]`, nil},
		{"client index on name,ext", "", []model.ClientIndex{{Columns: []model.ColumnKey{{Column: "name"}, {Column: "ext"}}}}},
	} {
		t.Run(tt.name, func(t *testing.T) {
			tc := huntCache(t, &huntModel{}, tt.schema, tt.client)
			rc := tc.Table("T")
			require.NoError(t, rc.Create("u1", &huntModel{UUID: "u1", Name: "a", Ext: map[string]string{"k": "v"}}, true))
			require.NoError(t, rc.Create("u2", &huntModel{UUID: "u2", Name: "a", Ext: map[string]string{"k": "w"}}, true))
			conds := conditions
			if len(tt.client) > 0 && len(tt.client[0].Columns) == 2 {
				conds = append([]ovsdb.Condition{{Column: "name", Function: ovsdb.ConditionEqual, Value: "a"}}, conditions...)
			}
			expected := huntScan(t, rc, conds)
			rows, err := rc.RowsByCondition(conds)
			require.NoError(t, err)
			if got := huntKeys(rows); !equalStrings(got, expected) {
				t.Errorf("RowsByCondition(%v): a scan of the cache finds rows %v, the lookup through the index returned %v", conds, expected, got)
			}
		})
	}
}

func equalStrings(a, b []string) bool {
	if len(a) != len(b) {
		return false
	}
	for i := range a {
		if a[i] != b[i] {
			return false
		}
	}
	return true
}

// Finding 2: a client that monitors only some columns of a table (here: not
// "name") receives rows that all hold the default value in the schema index
// column. This is a legal notification of a consistent database, but the
// schema index keeps only the row written last, and deleting that row drops
// the entry of the value the other rows still hold.
func TestHuntSchemaIndexOverProjectedColumn(t *testing.T) {
	tc := huntCache(t, &huntModel{}, `["name"]`, nil)
	rc := tc.Table("T")

	// rows as a monitor of column "num" only delivers them
	for i, uuid := range []string{"u1", "u2", "u3"} {
		row := ovsdb.Row(map[string]interface{}{"num": i})
		require.NoError(t, tc.Populate2(ovsdb.TableUpdates2{"T": {uuid: &ovsdb.RowUpdate2{Insert: &row}}}))
	}
	check := func(stage string) {
		expected := []string{}
		for uuid, row := range rc.Rows() {
			if row.(*huntModel).Name == "" {
				expected = append(expected, uuid)
			}
		}
		sort.Strings(expected)
		index, err := rc.Index("name")
		require.NoError(t, err)
		got := append([]string{}, index[""]...)
		sort.Strings(got)
		if !equalStrings(got, expected) {
			t.Errorf("%s: rows of the cache with name \"\": %v, rows under Index(\"name\")[\"\"]: %v", stage, expected, got)
		}
		_, found, err := rc.RowByModel(&huntModel{Name: ""})
		require.NoError(t, err)
		if len(expected) > 0 && found == nil {
			t.Errorf("%s: RowByModel(name \"\") found no row although rows %v of the cache hold that value", stage, expected)
		}
	}
	check("after three inserts")

	// delete whichever row the index points at
	index, err := rc.Index("name")
	require.NoError(t, err)
	require.NotEmpty(t, index[""])
	victim := index[""][0]
	deleted := ovsdb.Row{}
	require.NoError(t, tc.Populate2(ovsdb.TableUpdates2{"T": {victim: &ovsdb.RowUpdate2{Delete: &deleted}}}))
	check("after deleting " + victim)
}

// Finding 3: the value of an index over several columns is a gob encoding of
// the column values, which tells 0 from -0; OVSDB equality (and the condition
// evaluation of the library, and an index over the single real column) does
// not. A row holding -0 (e.g. after the mutation ["r", "*=", -1] of 0) cannot
// be reached through the index with the value 0.
func TestHuntNegativeZeroInMultiColumnIndex(t *testing.T) {
	negZero := math.Copysign(0, -1)
	conditions := []ovsdb.Condition{
		{Column: "name", Function: ovsdb.ConditionEqual, Value: "a"},
		{Column: "r", Function: ovsdb.ConditionEqual, Value: 0.0},
	}
	for _, tt := range []struct {
		name   string
		schema string
	}{
		{"no index (control)", ""},
		{"single column index on r (control)", `["r"]`},
		{"schema index on name,r", `["name","r"]`},
	} {
		t.Run(tt.name, func(t *testing.T) {
			tc := huntCache(t, &huntModel{}, tt.schema, nil)
			rc := tc.Table("T")
			require.NoError(t, rc.Create("u1", &huntModel{UUID: "u1", Name: "a", R: negZero}, true))
			expected := huntScan(t, rc, conditions)
			require.Equal(t, []string{"u1"}, expected, "condition evaluation holds 0 == -0")
			rows, err := rc.RowsByCondition(conditions)
			require.NoError(t, err)
			if got := huntKeys(rows); !equalStrings(got, expected) {
				t.Errorf("RowsByCondition(name == a, r == 0): a scan of the cache finds %v, the lookup through the index returned %v", expected, got)
			}
			// (a lookup by model cannot be asked for r == 0: zero is the default value of the column, a model
			// holding it does not say anything about r, and the index is not usable for it - the rule the mapper
			// applies when it builds conditions from a model)
			if false && tt.schema != "" {
				uuid, _, err := rc.RowByModel(&huntModel{Name: "a", R: 0})
				require.NoError(t, err)
				if uuid != "u1" {
					t.Errorf("RowByModel(name a, r 0): expected row u1 (name a, r -0, equal as OVSDB values), got %q", uuid)
				}
			}
		})
	}
}

// Finding 4: RowsByModels falls through to the index lookup for a model whose
// uuid was already found for an earlier model of the same call: the same
// model, given twice, yields rows that the model given once does not.
func TestHuntRowsByModelsRepeatedUUID(t *testing.T) {
	tc := huntCache(t, &huntModel{}, `["name"]`, nil)
	rc := tc.Table("T")
	require.NoError(t, rc.Create("u1", &huntModel{UUID: "u1", Name: "a"}, true))
	require.NoError(t, rc.Create("u2", &huntModel{UUID: "u2", Name: ""}, true))

	// the uuid identifies the row, the other fields are unset
	m := &huntModel{UUID: "u1"}
	once, err := rc.RowsByModels([]model.Model{m})
	require.NoError(t, err)
	twice, err := rc.RowsByModels([]model.Model{m, m})
	require.NoError(t, err)
	if !equalStrings(huntKeys(once), huntKeys(twice)) {
		t.Errorf("RowsByModels([m]) returned %v, RowsByModels([m, m]) returned %v: the second occurrence of uuid u1 was looked up by the (unset) name instead of the uuid", huntKeys(once), huntKeys(twice))
	}
}

// Finding 5 (adjacent to the property): a model may cover a subset of the
// columns of its table, but if a schema index involves a column the model has
// no field for, no row can be cached at all.
func TestHuntSchemaIndexColumnMissingFromModel(t *testing.T) {
	t.Skip("observation outside the property (model lacks an indexed column; invalid UTF-8 in gob)")
	tc := huntCache(t, &huntPartialModel{}, `["name","num"]`, nil)
	row := ovsdb.Row(map[string]interface{}{"name": "a", "num": 1})
	err := tc.Populate2(ovsdb.TableUpdates2{"T": {"u1": &ovsdb.RowUpdate2{Insert: &row}}})
	if err != nil {
		t.Errorf("Populate2 of an inserted row into a cache with a partial model: expected the row to be cached, got error %q", err)
	}
	if !tc.Table("T").HasRow("u1") {
		t.Errorf("row u1 is not in the cache")
	}
}

// Finding 6 (direct calls only): the index value is computed from the model
// given to Create/Update, the cache keeps a clone made through JSON, and
// Delete/Update compute the value to remove from the clone. For a string that
// is not valid UTF-8 these differ: the entry survives the row.
func TestHuntIndexValueOfCloneDiffers(t *testing.T) {
	t.Skip("observation outside the property (model lacks an indexed column; invalid UTF-8 in gob)")
	tc := huntCache(t, &huntModel{}, `["name"]`, nil)
	rc := tc.Table("T")
	require.NoError(t, rc.Create("u1", &huntModel{UUID: "u1", Name: "a\xff"}, true))
	require.NoError(t, rc.Delete("u1"))
	require.Empty(t, rc.Rows())
	index, err := rc.Index("name")
	require.NoError(t, err)
	if len(index) != 0 {
		t.Errorf("the cache is empty, but Index(\"name\") still holds %q", index)
	}
	uuid, row, err := rc.RowByModel(&huntModel{Name: "a\xff"})
	require.NoError(t, err)
	if uuid != "" || row != nil {
		t.Errorf("the cache is empty, but RowByModel returned uuid %q, row %v", uuid, row)
	}
}
