package client

import (
	"context"
	"encoding/json"
	"sort"
	"testing"

	"github.com/ovn-org/libovsdb/cache"
	"github.com/ovn-org/libovsdb/model"
	"github.com/ovn-org/libovsdb/ovsdb"
	"github.com/stretchr/testify/require"
)

type huntPort struct {
	UUID        string            `ovsdb:"_uuid"`
	Name        string            `ovsdb:"name"`
	ExternalIDs map[string]string `ovsdb:"external_ids"`
}

// Property C05 through the client API: Where(model).List on a client index
// over a map key returns exactly the rows a scan of the cache finds for the
// same value. Rows that do not have the key are returned as well (and
// Where(model).Delete() addresses them by uuid).
func TestHuntWhereOnMapKeyIndexSelectsRowsWithoutTheKey(t *testing.T) {
	var schema ovsdb.DatabaseSchema
	require.NoError(t, json.Unmarshal([]byte(`{"name": "DB", "tables": {"Port": {
	  "columns": {
	    "name": {"type": "string"},
	    "external_ids": {"type": {"key": "string", "value": "string", "min": 0, "max": "unlimited"}}
	  }}}}`), &schema))
	db, err := model.NewClientDBModel("DB", map[string]model.Model{"Port": &huntPort{}})
	require.NoError(t, err)
	db.SetIndexes(map[string][]model.ClientIndex{"Port": {{Columns: []model.ColumnKey{{Column: "external_ids", Key: "owner"}}}}})
	dbModel, errs := model.NewDatabaseModel(schema, db)
	require.Empty(t, errs)
	tc, err := cache.NewTableCache(dbModel, nil, nil)
	require.NoError(t, err)

	ownerEmpty, err := ovsdb.NewOvsMap(map[string]string{"owner": ""})
	require.NoError(t, err)
	ownerX, err := ovsdb.NewOvsMap(map[string]string{"owner": "x"})
	require.NoError(t, err)
	other, err := ovsdb.NewOvsMap(map[string]string{"other": "y"})
	require.NoError(t, err)
	require.NoError(t, tc.Populate2(ovsdb.TableUpdates2{"Port": {
		"aaaaaaaa-0000-4000-8000-000000000001": {Insert: &ovsdb.Row{"name": "owner-empty", "external_ids": ownerEmpty}},
		"aaaaaaaa-0000-4000-8000-000000000002": {Insert: &ovsdb.Row{"name": "owner-x", "external_ids": ownerX}},
		"aaaaaaaa-0000-4000-8000-000000000003": {Insert: &ovsdb.Row{"name": "no-owner", "external_ids": other}},
		"aaaaaaaa-0000-4000-8000-000000000004": {Insert: &ovsdb.Row{"name": "no-external-ids"}},
	}}))

	a := newAPI(tc, &discardLogger)
	probe := &huntPort{ExternalIDs: map[string]string{"owner": ""}}

	// the scan
	var all []huntPort
	require.NoError(t, a.List(context.Background(), &all))
	want := []string{}
	for _, p := range all {
		if v, ok := p.ExternalIDs["owner"]; ok && v == "" {
			want = append(want, p.Name)
		}
	}
	sort.Strings(want)

	var found []huntPort
	require.NoError(t, a.Where(probe).List(context.Background(), &found))
	got := []string{}
	for _, p := range found {
		got = append(got, p.Name)
	}
	sort.Strings(got)
	if len(got) != len(want) {
		t.Errorf("ports with external_ids:owner == \"\": a scan of the cache finds %v, Where(model).List returns %v", want, got)
	}

	ops, err := a.Where(probe).Delete()
	require.NoError(t, err)
	if len(ops) != len(want) {
		t.Errorf("Where(external_ids:owner == \"\").Delete() must address the %d row(s) %v, it produced %d delete operations: %+v", len(want), want, len(ops), ops)
	}
}

type huntTwoIndexes struct {
	UUID string `ovsdb:"_uuid"`
	Name string `ovsdb:"name"`
	Tag  string `ovsdb:"tag"`
}

// Get with a model naming a row that is not in the cache: the lookup goes on
// to the next schema index with the default value of the unset field and a
// row that does not hold the given value is returned instead of ErrNotFound.
func TestHuntGetReturnsRowNotHoldingTheGivenValue(t *testing.T) {
	var schema ovsdb.DatabaseSchema
	require.NoError(t, json.Unmarshal([]byte(`{"name": "DB", "tables": {"T": {
	  "indexes": [["name"], ["tag"]],
	  "columns": {"name": {"type": "string"}, "tag": {"type": "string"}}}}}`), &schema))
	db, err := model.NewClientDBModel("DB", map[string]model.Model{"T": &huntTwoIndexes{}})
	require.NoError(t, err)
	dbModel, errs := model.NewDatabaseModel(schema, db)
	require.Empty(t, errs)
	tc, err := cache.NewTableCache(dbModel, nil, nil)
	require.NoError(t, err)
	require.NoError(t, tc.Populate2(ovsdb.TableUpdates2{"T": {
		"aaaaaaaa-0000-4000-8000-000000000001": {Insert: &ovsdb.Row{"name": "one"}},
		"aaaaaaaa-0000-4000-8000-000000000002": {Insert: &ovsdb.Row{"name": "two", "tag": "t2"}},
	}}))
	a := newAPI(tc, &discardLogger)
	m := &huntTwoIndexes{Name: "three"}
	err = a.Get(context.Background(), m)
	if err != ErrNotFound {
		t.Errorf("Get(name=three): no row of the cache is named three, expected ErrNotFound, got err=%v and row %+v", err, m)
	}
}
