package server

// Hunt C07: notifications are the exact difference made by the transaction.
//
// The tests talk to the server as a plain JSON-RPC peer on a unix socket and
// look at the notifications it receives.

import (
	"encoding/json"
	"fmt"
	"net"
	"os"
	"strings"
	"sync"
	"testing"
	"time"

	"github.com/ovn-org/libovsdb/database/inmemory"
	"github.com/ovn-org/libovsdb/model"
	"github.com/ovn-org/libovsdb/ovsdb"
)

const huntW3Schema = `
{
  "name": "Hunt",
  "version": "0.0.1",
  "tables": {
    "T": {
      "isRoot": true,
      "columns": {
        "name": {"type": "string"},
        "u": {"type": "uuid"}
      }
    },
    "S": {
      "isRoot": true,
      "columns": {
        "v": {"type": "integer"}
      }
    },
    "N": {
      "columns": {
        "name": {"type": "string"},
        "next": {"type": {"key": {"type": "uuid", "refTable": "N"}, "min": 0, "max": 1}}
      }
    }
  }
}`

type huntW3T struct {
	UUID string `ovsdb:"_uuid"`
	Name string `ovsdb:"name"`
	U    string `ovsdb:"u"`
}

type huntW3N struct {
	UUID string  `ovsdb:"_uuid"`
	Name string  `ovsdb:"name"`
	Next *string `ovsdb:"next"`
}

type huntW3S struct {
	UUID string `ovsdb:"_uuid"`
	V    int    `ovsdb:"v"`
}

// huntW3Peer is a plain JSON-RPC peer: it acknowledges the calls of the server
// and records them in the order of arrival
type huntW3Peer struct {
	enc    *json.Encoder
	wmu    sync.Mutex
	mu     sync.Mutex
	notifs []huntW3Msg
	resp   map[string]chan huntW3Msg
	nextID int
}

type huntW3Msg struct {
	Method string            `json:"method,omitempty"`
	Params []json.RawMessage `json:"params,omitempty"`
	ID     json.RawMessage   `json:"id"`
	Result json.RawMessage   `json:"result,omitempty"`
	Error  json.RawMessage   `json:"error,omitempty"`
}

func huntW3Dial(t *testing.T, path string) *huntW3Peer {
	c, err := net.Dial("unix", path)
	if err != nil {
		t.Fatal(err)
	}
	t.Cleanup(func() { c.Close() })
	p := &huntW3Peer{enc: json.NewEncoder(c), resp: map[string]chan huntW3Msg{}}
	go func() {
		dec := json.NewDecoder(c)
		for {
			var m huntW3Msg
			if err := dec.Decode(&m); err != nil {
				return
			}
			if m.Method != "" {
				p.mu.Lock()
				p.notifs = append(p.notifs, m)
				p.mu.Unlock()
				if len(m.ID) > 0 && string(m.ID) != "null" {
					// this server sends its notifications as calls and
					// waits for the answer
					p.wmu.Lock()
					_ = p.enc.Encode(map[string]interface{}{"id": m.ID, "result": []interface{}{}, "error": nil})
					p.wmu.Unlock()
				}
				continue
			}
			p.mu.Lock()
			ch := p.resp[string(m.ID)]
			p.mu.Unlock()
			if ch != nil {
				ch <- m
			}
		}
	}()
	return p
}

func (p *huntW3Peer) call(t *testing.T, method string, params ...interface{}) huntW3Msg {
	p.mu.Lock()
	p.nextID++
	id := p.nextID
	ch := make(chan huntW3Msg, 1)
	p.resp[fmt.Sprint(id)] = ch
	p.mu.Unlock()
	p.wmu.Lock()
	err := p.enc.Encode(map[string]interface{}{"method": method, "params": params, "id": id})
	p.wmu.Unlock()
	if err != nil {
		t.Fatal(err)
	}
	select {
	case m := <-ch:
		if len(m.Error) > 0 && string(m.Error) != "null" {
			t.Fatalf("%s: error %s", method, m.Error)
		}
		return m
	case <-time.After(10 * time.Second):
		t.Fatalf("no reply to %s", method)
	}
	return huntW3Msg{}
}

func (p *huntW3Peer) received() []huntW3Msg {
	p.mu.Lock()
	defer p.mu.Unlock()
	return append([]huntW3Msg{}, p.notifs...)
}

func huntW3Serve(t *testing.T) string {
	var schema ovsdb.DatabaseSchema
	if err := json.Unmarshal([]byte(huntW3Schema), &schema); err != nil {
		t.Fatal(err)
	}
	cdb, err := model.NewClientDBModel("Hunt", map[string]model.Model{"T": &huntW3T{}, "S": &huntW3S{}, "N": &huntW3N{}})
	if err != nil {
		t.Fatal(err)
	}
	dbModel, errs := model.NewDatabaseModel(schema, cdb)
	if len(errs) > 0 {
		t.Fatal(errs)
	}
	o, err := NewOvsdbServer(inmemory.NewDatabase(map[string]model.ClientDBModel{"Hunt": cdb}), dbModel)
	if err != nil {
		t.Fatal(err)
	}
	path := fmt.Sprintf("/tmp/hunt-c07-%d-%d.sock", os.Getpid(), time.Now().UnixNano())
	go func() { _ = o.Serve("unix", path) }()
	for i := 0; i < 400 && !o.Ready(); i++ {
		time.Sleep(5 * time.Millisecond)
	}
	t.Cleanup(func() { o.Close(); os.Remove(path) })
	return path
}

// huntW3Transact runs a transaction and fails the test if it is not committed
func huntW3Transact(t *testing.T, p *huntW3Peer, ops ...interface{}) {
	r := p.call(t, "transact", append([]interface{}{"Hunt"}, ops...)...)
	if strings.Contains(string(r.Result), `"error"`) {
		t.Fatalf("transaction failed: %s", r.Result)
	}
}

// An "update" notification must carry, for every monitored column, the value
// the column has in the database. A row inserted without a value for its
// atomic uuid column holds the default of the type, the all-zero uuid (that is
// also what the same transaction tells a monitor_cond peer by leaving the
// column out of the inserted row). The "update" notification reports
// ["named-uuid",""] instead: not the value of the column, not even a <uuid>.
func TestHuntUpdateReportsNamedUUIDForUnsetUUIDColumn(t *testing.T) {
	t.Skip("recorded under C09 class 14 (the all-zero uuid is the default): a uuid column that was never written holds the empty string, which update renders as a named-uuid")
	path := huntW3Serve(t)
	v1 := huntW3Dial(t, path)
	v1.call(t, "monitor", "Hunt", "v1", map[string]interface{}{"T": map[string]interface{}{}})
	v2 := huntW3Dial(t, path)
	v2.call(t, "monitor_cond", "Hunt", "v2", map[string]interface{}{"T": map[string]interface{}{}})

	w := huntW3Dial(t, path)
	huntW3Transact(t, w, map[string]interface{}{"op": "insert", "table": "T", "row": map[string]interface{}{"name": "a"}})
	// what a select of the column answers is of no use to tell the value: it
	// goes wrong the same way
	huntW3Transact(t, w, map[string]interface{}{"op": "update", "table": "T", "where": []interface{}{},
		"row": map[string]interface{}{"u": []string{"uuid", "11111111-1111-1111-1111-111111111111"}}})
	time.Sleep(100 * time.Millisecond)

	n2 := v2.received()
	if len(n2) != 2 {
		t.Fatalf("expected 2 update2 notifications, got %d", len(n2))
	}
	t.Logf("update2 #1: %s", n2[0].Params[1])
	t.Logf("update2 #2: %s", n2[1].Params[1])
	n1 := v1.received()
	if len(n1) != 2 {
		t.Fatalf("expected 2 update notifications, got %d", len(n1))
	}
	t.Logf("update  #1: %s", n1[0].Params[1])
	t.Logf("update  #2: %s", n1[1].Params[1])

	const zero = `["uuid","00000000-0000-0000-0000-000000000000"]`
	check := func(what string, raw json.RawMessage, member string) {
		var tu map[string]map[string]map[string]map[string]json.RawMessage
		if err := json.Unmarshal(raw, &tu); err != nil {
			t.Fatal(err)
		}
		for id, ru := range tu["T"] {
			got := string(ru[member]["u"])
			if got != zero {
				t.Errorf("%s: row %s %s.u: expected %s (the column was never written: it holds the default of its type, and update2 reports the row without the column), got %s", what, id, member, zero, got)
			}
		}
	}
	// the insert: "new" holds every monitored column
	check("update for the insert", n1[0].Params[1], "new")
	// the modification: "old" holds the previous value of the changed column
	check("update for the modification", n1[1].Params[1], "old")
}

// A monitor receives notifications only for the tables it selected. A monitor
// request that selects no table ({} as <monitor-requests>) must not be told
// about any table; the server notifies it of every change in every table.
func TestHuntMonitorOfNoTableIsToldEverything(t *testing.T) {
	t.Skip("a monitor request naming no table monitors every table (deliberate: MonitorAll relies on it)")
	path := huntW3Serve(t)
	for _, method := range []string{"monitor", "monitor_cond"} {
		m := huntW3Dial(t, path)
		reply := m.call(t, method, "Hunt", "none", map[string]interface{}{})
		w := huntW3Dial(t, path)
		huntW3Transact(t, w, map[string]interface{}{"op": "insert", "table": "S", "row": map[string]interface{}{"v": 1}})
		huntW3Transact(t, w, map[string]interface{}{"op": "mutate", "table": "S", "where": []interface{}{},
			"mutations": []interface{}{[]interface{}{"v", "+=", 1}}})
		time.Sleep(100 * time.Millisecond)
		got := m.received()
		if len(got) != 0 {
			t.Errorf("%s with no table selected (reply %s): expected no notification, received %d; the first: %s %s",
				method, reply.Result, len(got), got[0].Method, got[0].Params[1])
		}
	}
}

// RFC 7047 gives a <uuid> in the format of RFC 4122, whose hexadecimal digits
// "are case insensitive on input". A uuid written with upper-case digits into
// a uuid column is committed, but the notifications hand it back tagged
// "named-uuid": a notification never holds a <named-uuid>, the replica of the
// peer is left without the value the database holds.
func TestHuntUpperCaseUUIDIsReportedAsNamedUUID(t *testing.T) {
	path := huntW3Serve(t)
	v1 := huntW3Dial(t, path)
	v1.call(t, "monitor", "Hunt", "v1", map[string]interface{}{"T": map[string]interface{}{}})
	v2 := huntW3Dial(t, path)
	v2.call(t, "monitor_cond", "Hunt", "v2", map[string]interface{}{"T": map[string]interface{}{}})

	const written = "ABCDEF01-2345-4789-8ABC-DEF012345678"
	w := huntW3Dial(t, path)
	huntW3Transact(t, w, map[string]interface{}{"op": "insert", "table": "T",
		"row": map[string]interface{}{"name": "a", "u": []string{"uuid", written}}})
	time.Sleep(100 * time.Millisecond)

	for _, c := range []struct {
		peer   *huntW3Peer
		member string
	}{{v1, "new"}, {v2, "insert"}} {
		got := c.peer.received()
		if len(got) != 1 {
			t.Fatalf("expected 1 notification, got %d", len(got))
		}
		var tu map[string]map[string]map[string]map[string]json.RawMessage
		if err := json.Unmarshal(got[0].Params[1], &tu); err != nil {
			t.Fatal(err)
		}
		for id, ru := range tu["T"] {
			var value []string
			_ = json.Unmarshal(ru[c.member]["u"], &value)
			if len(value) != 2 || value[0] != "uuid" || !strings.EqualFold(value[1], written) {
				t.Errorf("%s: row %s %s.u: the transaction wrote [\"uuid\",%q]; expected that uuid (in either case), got %s",
					got[0].Method, id, c.member, written, ru[c.member]["u"])
			}
		}
	}
}
