package server

import (
	"fmt"
	"math/rand"
	"os"
	"strconv"
	"testing"
)

func TestHuntFuzz(t *testing.T) {
	seeds := 30
	if s := os.Getenv("HUNT_SEEDS"); s != "" {
		seeds, _ = strconv.Atoi(s)
	}
	base := 0
	if s := os.Getenv("HUNT_BASE"); s != "" {
		base, _ = strconv.Atoi(s)
	}
	seen := map[string]bool{}
	for seed := base; seed < base+seeds; seed++ {
		huntRun(t, int64(seed), seen)
	}
}

func huntRun(t *testing.T, seed int64, seen map[string]bool) {
	e := newHuntEnv(t)
	defer e.close()
	g := &huntGen{r: rand.New(rand.NewSource(seed)), e: e}
	var monitors []*huntMonitor
	conns := []*huntConn{e.connect(), e.connect()}
	methods := []string{"monitor", "monitor_cond", "monitor_cond_since"}
	for i := 0; i < 8; i++ {
		m, _ := e.register(conns[i%2], fmt.Sprintf("m%d", i), methods[i%3], g.monitorRequest())
		monitors = append(monitors, m)
	}
	pre, preRaw := e.snapshotRaw()
	for i := 0; i < 40; i++ {
		g.cur = pre
		ops := g.transaction()
		res := e.transact(e.ctl, ops...)
		post, postRaw := e.snapshotRaw()
		failed := huntFailed(res)
		notes := append(conns[0].take(), conns[1].take()...)
		if os.Getenv("HUNT_V") != "" {
			t.Logf("seed %d txn %d: %q notes=%d rows T=%d U=%d C=%d", seed, i, failed, len(notes), len(post["T"]), len(post["U"]), len(post["C"]))
		}
		if failed != "" {
			if len(notes) > 0 {
				t.Errorf("seed %d txn %d failed (%s) but %d notifications", seed, i, failed, len(notes))
			}
			pre, preRaw = post, postRaw
			continue
		}
		shown := false
		for _, m := range monitors {
			for _, p := range e.check(m, notes, pre, post, preRaw, postRaw) {
				if !shown {
					t.Errorf("seed %d txn %d ops %s", seed, i, huntOpsJSON(ops))
					shown = true
				}
				t.Errorf("seed %d txn %d monitor %s:\n  PROBLEM %s", seed, i, m.desc, p)
			}
		}
		pre, preRaw = post, postRaw
	}
}
