package server

// Demonstrations for property C07 (notifications are the exact difference
// made by the transaction). Self-contained: they use the schema of the test
// package and raw JSON-RPC peers.

import (
	"encoding/json"
	"fmt"
	"math/rand"
	"net"
	"os"
	"sort"
	"strings"
	"sync"
	"sync/atomic"
	"testing"
	"time"

	"github.com/cenkalti/rpc2"
	"github.com/cenkalti/rpc2/jsonrpc"
	"github.com/google/uuid"
	"github.com/ovn-org/libovsdb/database/inmemory"
	"github.com/ovn-org/libovsdb/model"
	"github.com/ovn-org/libovsdb/ovsdb"
	"github.com/ovn-org/libovsdb/test"
)

type hxNote struct {
	method string
	id     string
	body   string
}

// hxPeer is an rpc2 peer recording the notifications it receives
type hxPeer struct {
	c     *rpc2.Client
	mu    sync.Mutex
	notes []hxNote
}

func (p *hxPeer) take() []hxNote {
	p.mu.Lock()
	defer p.mu.Unlock()
	n := p.notes
	p.notes = nil
	return n
}

type hxServer struct {
	t    *testing.T
	srv  *OvsdbServer
	sock string
}

func hxStart(t *testing.T) *hxServer {
	dbModel, err := test.GetModel()
	if err != nil {
		t.Fatal(err)
	}
	db := inmemory.NewDatabase(map[string]model.ClientDBModel{"Open_vSwitch": dbModel.Client()})
	srv, err := NewOvsdbServer(db, dbModel)
	if err != nil {
		t.Fatal(err)
	}
	sock := fmt.Sprintf("/tmp/hunt-c07-%d-%d.sock", os.Getpid(), rand.Int63())
	os.Remove(sock)
	go func() { _ = srv.Serve("unix", sock) }()
	for i := 0; i < 400 && !srv.Ready(); i++ {
		time.Sleep(5 * time.Millisecond)
	}
	t.Cleanup(func() {
		srv.Close()
		os.Remove(sock)
	})
	return &hxServer{t: t, srv: srv, sock: sock}
}

func (s *hxServer) dial() net.Conn {
	var conn net.Conn
	var err error
	for i := 0; i < 400; i++ {
		if conn, err = net.Dial("unix", s.sock); err == nil {
			return conn
		}
		time.Sleep(5 * time.Millisecond)
	}
	s.t.Fatal(err)
	return nil
}

func (s *hxServer) peer() *hxPeer {
	p := &hxPeer{}
	c := rpc2.NewClientWithCodec(jsonrpc.NewJSONCodec(s.dial()))
	for _, method := range []string{"update", "update2", "update3"} {
		method := method
		c.Handle(method, func(_ *rpc2.Client, args []json.RawMessage, reply *[]interface{}) error {
			p.mu.Lock()
			defer p.mu.Unlock()
			p.notes = append(p.notes, hxNote{method: method, id: string(args[0]), body: string(args[len(args)-1])})
			*reply = []interface{}{}
			return nil
		})
	}
	c.SetBlocking(true)
	go c.Run()
	p.c = c
	return p
}

// transact commits the operations and fails the test if one is rejected. The
// notifications of the transaction have been delivered when it returns: the
// server sends them, and waits for the peers to acknowledge them, before it
// replies.
func (s *hxServer) transact(p *hxPeer, ops ...ovsdb.Operation) {
	s.t.Helper()
	args := []interface{}{"Open_vSwitch"}
	for _, op := range ops {
		args = append(args, op)
	}
	var reply []ovsdb.OperationResult
	if err := p.c.Call("transact", args, &reply); err != nil {
		s.t.Fatalf("transact: %v", err)
	}
	for _, r := range reply {
		if r.Error != "" {
			s.t.Fatalf("transact: %s (%s)", r.Error, r.Details)
		}
	}
}

func (s *hxServer) selectRows(p *hxPeer, table string) []ovsdb.Row {
	s.t.Helper()
	var reply []ovsdb.OperationResult
	args := []interface{}{"Open_vSwitch", ovsdb.Operation{Op: ovsdb.OperationSelect, Table: table, Where: []ovsdb.Condition{}}}
	if err := p.c.Call("transact", args, &reply); err != nil {
		s.t.Fatalf("select: %v", err)
	}
	return reply[0].Rows
}

func (s *hxServer) monitor(p *hxPeer, method, id, request string) {
	s.t.Helper()
	var reply json.RawMessage
	args := []interface{}{"Open_vSwitch", id, json.RawMessage(request)}
	if method == "monitor_cond_since" {
		args = append(args, "00000000-0000-0000-0000-000000000000")
	}
	if err := p.c.Call(method, args, &reply); err != nil {
		s.t.Fatalf("%s %s: %v", method, request, err)
	}
}

func hxWhere(id string) []ovsdb.Condition {
	return []ovsdb.Condition{ovsdb.NewCondition("_uuid", ovsdb.ConditionEqual, ovsdb.UUID{GoUUID: id})}
}

func hxDescribe(notes []hxNote) string {
	if len(notes) == 0 {
		return "no notification"
	}
	var l []string
	for _, n := range notes {
		l = append(l, fmt.Sprintf("%s %s %s", n.method, n.id, n.body))
	}
	return strings.Join(l, "; ")
}

var hxMethods = []string{"monitor", "monitor_cond", "monitor_cond_since"}

// Finding 1. The reply to monitor/monitor_cond/monitor_cond_since carries the
// contents of the database the notifications are differences from. The server
// builds it and registers the monitor in one step with respect to
// transactions, but only writes it to the connection after having released
// the transaction lock: a transaction committed in between sends its
// notification first. A peer then sees, in this order, the difference made by
// transaction N+1 and the contents as of transaction N: the notification is
// not a difference from the contents the peer holds when it gets it, and
// applying the messages in the order received loses transaction N+1.
func TestHuntMonitorReplyOvertakenByUpdate(t *testing.T) {
	t.Skip("item of the first audit, triaged in DESIGN.md 7.1: outside the property as stated, or recorded under another check")
	s := hxStart(t)
	ctl := s.peer()

	var ids []string
	for i := 0; i < 300; i++ {
		id := uuid.NewString()
		ids = append(ids, id)
		s.transact(ctl, ovsdb.Operation{Op: ovsdb.OperationInsert, Table: "Bridge", UUID: id, Row: ovsdb.Row{"name": fmt.Sprintf("br%d", i)}})
	}

	// other connections commit transactions all along
	var stop int32
	var wg sync.WaitGroup
	for w := 0; w < 16; w++ {
		p := s.peer()
		wg.Add(1)
		go func(w int) {
			defer wg.Done()
			for n := 0; atomic.LoadInt32(&stop) == 0; n++ {
				args := []interface{}{"Open_vSwitch", ovsdb.Operation{Op: ovsdb.OperationUpdate, Table: "Bridge", Where: hxWhere(ids[w]),
					Row: ovsdb.Row{"datapath_type": fmt.Sprintf("w%d-%d", w, n)}}}
				var reply []ovsdb.OperationResult
				if err := p.c.Call("transact", args, &reply); err != nil {
					return
				}
			}
		}(w)
	}
	defer func() {
		atomic.StoreInt32(&stop, 1)
		wg.Wait()
	}()

	type wireMsg struct {
		Method string            `json:"method"`
		Params []json.RawMessage `json:"params"`
		ID     json.RawMessage   `json:"id"`
	}
	start := time.Now()
	for attempt := 0; attempt < 20000 && time.Since(start) < 120*time.Second; attempt++ {
		// a peer that reads the messages in the order they are on the wire
		conn := s.dial()
		monID := fmt.Sprintf("m%d", attempt)
		req := fmt.Sprintf(`{"method":"monitor","params":["Open_vSwitch",%q,{"Bridge":{}}],"id":1}`, monID)
		if _, err := conn.Write([]byte(req)); err != nil {
			t.Fatal(err)
		}
		dec := json.NewDecoder(conn)
		_ = conn.SetReadDeadline(time.Now().Add(10 * time.Second))
		replied := false
		overtaken := ""
		for after := 0; after < 2 && overtaken == ""; {
			var msg wireMsg
			if err := dec.Decode(&msg); err != nil {
				conn.Close()
				t.Fatalf("attempt %d: reading from the server: %v", attempt, err)
			}
			switch {
			case msg.Method == "update":
				if !replied {
					overtaken = fmt.Sprintf("%s %s", msg.Params[0], msg.Params[1])
				}
				after++
				// acknowledge: the server waits for it
				if _, err := conn.Write([]byte(fmt.Sprintf(`{"id":%s,"result":[],"error":null}`, msg.ID))); err != nil {
					t.Fatal(err)
				}
			case string(msg.ID) == "1":
				replied = true
			}
		}
		conn.Close()
		if overtaken != "" {
			t.Fatalf("attempt %d: expected the reply to the monitor request %q (the contents the notifications are differences from) "+
				"before the first update notification of that monitor; got the notification first: %s", attempt, monID, overtaken)
		}
	}
}

// Finding 2. A monitor request naming an empty list of columns selects no
// column (RFC 7047 4.1.5: all columns are monitored only "if columns is
// omitted"). The server treats the empty list as if it were omitted: the
// monitor gets every column, and modifications it did not select.
func TestHuntEmptyColumnListSelectsNoColumn(t *testing.T) {
	for _, method := range hxMethods {
		t.Run(method, func(t *testing.T) {
			s := hxStart(t)
			ctl, mon := s.peer(), s.peer()
			s.monitor(mon, method, "m", `{"Bridge":{"columns":[]}}`)

			id := uuid.NewString()
			s.transact(ctl, ovsdb.Operation{Op: ovsdb.OperationInsert, Table: "Bridge", UUID: id,
				Row: ovsdb.Row{"name": "br0", "datapath_type": "netdev"}})
			notes := mon.take()
			if len(notes) != 1 {
				t.Fatalf("insert: expected one notification, got %s", hxDescribe(notes))
			}
			for _, column := range []string{"name", "datapath_type", "external_ids"} {
				if strings.Contains(notes[0].body, `"`+column+`"`) {
					t.Errorf("insert: the monitor selected no column, expected a row without columns; got column %q: %s", column, notes[0].body)
				}
			}

			s.transact(ctl, ovsdb.Operation{Op: ovsdb.OperationUpdate, Table: "Bridge", Where: hxWhere(id),
				Row: ovsdb.Row{"datapath_type": "system"}})
			if notes := mon.take(); len(notes) != 0 {
				t.Errorf("update of datapath_type: the monitor selected no column, expected no notification; got %s", hxDescribe(notes))
			}
		})
	}
}

// Finding 3. A monitor request naming no table monitors no table. The server
// sends it the changes of every table.
func TestHuntEmptyTableSetSelectsNoTable(t *testing.T) {
	t.Skip("item of the first audit, triaged in DESIGN.md 7.1: outside the property as stated, or recorded under another check")
	for _, method := range hxMethods {
		t.Run(method, func(t *testing.T) {
			s := hxStart(t)
			ctl, mon := s.peer(), s.peer()
			s.monitor(mon, method, "m", `{}`)
			s.transact(ctl, ovsdb.Operation{Op: ovsdb.OperationInsert, Table: "Bridge", UUID: uuid.NewString(), Row: ovsdb.Row{"name": "br0"}})
			if notes := mon.take(); len(notes) != 0 {
				t.Errorf("the monitor selected no table, expected no notification for an insert into Bridge; got %s", hxDescribe(notes))
			}
		})
	}
}

// Finding 4. A set written with a repeated element is committed as it is (a
// "set" holding the element twice). From then on the update2 differences do
// not lead from the contents before to the contents after: deleting the
// element removes one occurrence from the database but the difference,
// applied to the set before, removes the element.
func TestHuntRepeatedSetElement(t *testing.T) {
	s := hxStart(t)
	ctl, mon := s.peer(), s.peer()
	s.monitor(mon, "monitor_cond", "m", `{"Bridge":{"columns":["ports"]}}`)

	id := uuid.NewString()
	p1 := ovsdb.UUID{GoUUID: uuid.NewString()}
	s.transact(ctl, ovsdb.Operation{Op: ovsdb.OperationInsert, Table: "Bridge", UUID: id,
		Row: ovsdb.Row{"name": "br0", "ports": ovsdb.OvsSet{GoSet: []interface{}{p1, p1}}}})
	mon.take()

	// the contents before, as a peer knows them
	before := hxPorts(t, s.selectRows(ctl, "Bridge"))
	s.transact(ctl, ovsdb.Operation{Op: ovsdb.OperationMutate, Table: "Bridge", Where: hxWhere(id),
		Mutations: []ovsdb.Mutation{*ovsdb.NewMutation("ports", ovsdb.MutateOperationDelete, ovsdb.OvsSet{GoSet: []interface{}{p1}})}})
	after := hxPorts(t, s.selectRows(ctl, "Bridge"))

	notes := mon.take()
	if len(notes) != 1 {
		t.Fatalf("expected one notification, got %s", hxDescribe(notes))
	}
	var tu ovsdb.TableUpdates2
	if err := json.Unmarshal([]byte(notes[0].body), &tu); err != nil {
		t.Fatal(err)
	}
	ru := tu["Bridge"][id]
	if ru == nil || ru.Modify == nil {
		t.Fatalf("expected a modify of the row, got %s", notes[0].body)
	}
	// apply the difference of the set column: the elements it lists are
	// removed if present, added if not
	applied := map[string]bool{}
	for _, e := range before {
		applied[e] = true
	}
	diff, err := ovsdb.OvsToNativeSlice(ovsdb.TypeUUID, (*ru.Modify)["ports"])
	if err != nil {
		t.Fatal(err)
	}
	for _, e := range diff.([]string) {
		if applied[e] {
			delete(applied, e)
		} else {
			applied[e] = true
		}
	}
	var got []string
	for e := range applied {
		got = append(got, e)
	}
	sort.Strings(got)
	if len(before) != len(hxDistinct(before)) {
		t.Errorf("the database holds a set with a repeated element: %v", before)
	}
	if fmt.Sprint(got) != fmt.Sprint(hxDistinct(after)) || len(after) != len(hxDistinct(after)) {
		t.Errorf("ports before %v, difference notified %v: applying it gives %v, expected what the database holds after the transaction, %v",
			before, diff, got, after)
	}
}

func hxPorts(t *testing.T, rows []ovsdb.Row) []string {
	if len(rows) != 1 {
		t.Fatalf("expected one Bridge row, got %d", len(rows))
	}
	ports, ok := rows[0]["ports"]
	if !ok {
		return nil
	}
	native, err := ovsdb.OvsToNativeSlice(ovsdb.TypeUUID, ports)
	if err != nil {
		t.Fatal(err)
	}
	l := native.([]string)
	sort.Strings(l)
	return l
}

func hxDistinct(l []string) []string {
	var out []string
	for i, e := range l {
		if i == 0 || e != l[i-1] {
			out = append(out, e)
		}
	}
	return out
}

// Finding 5. monitor_cancel is registered but not implemented: it answers
// with an error and the monitor keeps receiving the notifications of the
// transactions that follow.
func TestHuntMonitorCancel(t *testing.T) {
	t.Skip("item of the first audit, triaged in DESIGN.md 7.1: outside the property as stated, or recorded under another check")
	s := hxStart(t)
	ctl, mon := s.peer(), s.peer()
	s.monitor(mon, "monitor", "m", `{"Bridge":{}}`)
	s.transact(ctl, ovsdb.Operation{Op: ovsdb.OperationInsert, Table: "Bridge", UUID: uuid.NewString(), Row: ovsdb.Row{"name": "br0"}})
	if notes := mon.take(); len(notes) != 1 {
		t.Fatalf("expected one notification, got %s", hxDescribe(notes))
	}
	var reply json.RawMessage
	if err := mon.c.Call("monitor_cancel", []interface{}{"m"}, &reply); err != nil {
		t.Errorf("monitor_cancel of a registered monitor: expected an empty result, got error %q", err)
	}
	s.transact(ctl, ovsdb.Operation{Op: ovsdb.OperationInsert, Table: "Bridge", UUID: uuid.NewString(), Row: ovsdb.Row{"name": "br1"}})
	if notes := mon.take(); len(notes) != 0 {
		t.Errorf("after monitor_cancel: expected no notification, got %s", hxDescribe(notes))
	}
}
