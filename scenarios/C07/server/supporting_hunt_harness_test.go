package server

import (
	"encoding/json"
	"fmt"
	"math/rand"
	"net"
	"os"
	"reflect"
	"sort"
	"strings"
	"sync"
	"testing"
	"time"

	"github.com/cenkalti/rpc2"
	"github.com/cenkalti/rpc2/jsonrpc"
	"github.com/google/uuid"
	"github.com/ovn-org/libovsdb/database/inmemory"
	"github.com/ovn-org/libovsdb/model"
	"github.com/ovn-org/libovsdb/ovsdb"
)

const huntSchema = `{
  "name": "Hunt",
  "version": "0.0.1",
  "tables": {
    "T": {
      "isRoot": true,
      "columns": {
        "name": {"type": "string"},
        "num": {"type": "integer"},
        "r": {"type": "real"},
        "flag": {"type": "boolean"},
        "opt_s": {"type": {"key": "string", "min": 0, "max": 1}},
        "opt_i": {"type": {"key": "integer", "min": 0, "max": 1}},
        "set_s": {"type": {"key": "string", "min": 0, "max": "unlimited"}},
        "set_i3": {"type": {"key": "integer", "min": 0, "max": 3}},
        "map_ss": {"type": {"key": "string", "value": "string", "min": 0, "max": "unlimited"}},
        "map_si": {"type": {"key": "string", "value": "integer", "min": 0, "max": 3}},
        "weak_set": {"type": {"key": {"type": "uuid", "refTable": "U", "refType": "weak"}, "min": 0, "max": "unlimited"}},
        "weak_opt": {"type": {"key": {"type": "uuid", "refTable": "U", "refType": "weak"}, "min": 0, "max": 1}},
        "weak_map": {"type": {"key": "string", "value": {"type": "uuid", "refTable": "U", "refType": "weak"}, "min": 0, "max": "unlimited"}},
        "strong_set": {"type": {"key": {"type": "uuid", "refTable": "C"}, "min": 0, "max": "unlimited"}},
        "strong_opt": {"type": {"key": {"type": "uuid", "refTable": "C"}, "min": 0, "max": 1}},
        "en": {"type": {"key": {"type": "string", "enum": ["set", ["x", "y", "z"]]}}},
        "en_set": {"type": {"key": {"type": "string", "enum": ["set", ["x", "y", "z"]]}, "min": 0, "max": 2}},
        "set_r": {"type": {"key": "real", "min": 0, "max": "unlimited"}},
        "opt_b": {"type": {"key": "boolean", "min": 0, "max": 1}},
        "imm": {"type": "string", "mutable": false},
        "eph": {"type": "integer", "ephemeral": true},
        "map_us": {"type": {"key": {"type": "uuid", "refTable": "U", "refType": "weak"}, "value": "string", "min": 0, "max": "unlimited"}},
        "map_cs": {"type": {"key": "string", "value": {"type": "uuid", "refTable": "C"}, "min": 0, "max": "unlimited"}},
        "map_uu": {"type": {"key": {"type": "uuid", "refTable": "U", "refType": "weak"}, "value": {"type": "uuid", "refTable": "U", "refType": "weak"}, "min": 0, "max": "unlimited"}}
      }
    },
    "U": {
      "isRoot": true,
      "columns": {
        "name": {"type": "string"},
        "opt": {"type": {"key": "string", "min": 0, "max": 1}}
      }
    },
    "C": {
      "columns": {
        "name": {"type": "string"},
        "kids": {"type": {"key": {"type": "uuid", "refTable": "C"}, "min": 0, "max": "unlimited"}},
        "wref": {"type": {"key": {"type": "uuid", "refTable": "U", "refType": "weak"}, "min": 0, "max": "unlimited"}}
      }
    }
  }
}`

type huntT struct {
	UUID      string            `ovsdb:"_uuid"`
	Name      string            `ovsdb:"name"`
	Num       int               `ovsdb:"num"`
	R         float64           `ovsdb:"r"`
	Flag      bool              `ovsdb:"flag"`
	OptS      *string           `ovsdb:"opt_s"`
	OptI      *int              `ovsdb:"opt_i"`
	SetS      []string          `ovsdb:"set_s"`
	SetI3     []int             `ovsdb:"set_i3"`
	MapSS     map[string]string `ovsdb:"map_ss"`
	MapSI     map[string]int    `ovsdb:"map_si"`
	WeakSet   []string          `ovsdb:"weak_set"`
	WeakOpt   *string           `ovsdb:"weak_opt"`
	WeakMap   map[string]string `ovsdb:"weak_map"`
	StrongSet []string          `ovsdb:"strong_set"`
	StrongOpt *string           `ovsdb:"strong_opt"`
	En        string            `ovsdb:"en"`
	EnSet     []string          `ovsdb:"en_set"`
	SetR      []float64         `ovsdb:"set_r"`
	OptB      *bool             `ovsdb:"opt_b"`
	Imm       string            `ovsdb:"imm"`
	Eph       int               `ovsdb:"eph"`
	MapUS     map[string]string `ovsdb:"map_us"`
	MapCS     map[string]string `ovsdb:"map_cs"`
	MapUU     map[string]string `ovsdb:"map_uu"`
}

type huntU struct {
	UUID string  `ovsdb:"_uuid"`
	Name string  `ovsdb:"name"`
	Opt  *string `ovsdb:"opt"`
}

type huntC struct {
	UUID string   `ovsdb:"_uuid"`
	Name string   `ovsdb:"name"`
	Kids []string `ovsdb:"kids"`
	Wref []string `ovsdb:"wref"`
}

// huntEnv is a running server with helpers
type huntEnv struct {
	t      testing.TB
	schema ovsdb.DatabaseSchema
	server *OvsdbServer
	sock   string
	ctl    *huntConn
}

type huntNote struct {
	method string
	id     string
	raw    json.RawMessage
}

type huntConn struct {
	c     *rpc2.Client
	mu    sync.Mutex
	notes []huntNote
}

func (hc *huntConn) take() []huntNote {
	hc.mu.Lock()
	defer hc.mu.Unlock()
	n := hc.notes
	hc.notes = nil
	return n
}

func newHuntEnv(t testing.TB) *huntEnv {
	var schema ovsdb.DatabaseSchema
	if err := json.Unmarshal([]byte(huntSchema), &schema); err != nil {
		t.Fatal(err)
	}
	cdb, err := model.NewClientDBModel("Hunt", map[string]model.Model{"T": &huntT{}, "U": &huntU{}, "C": &huntC{}})
	if err != nil {
		t.Fatal(err)
	}
	dbModel, errs := model.NewDatabaseModel(schema, cdb)
	if len(errs) > 0 {
		t.Fatal(errs)
	}
	db := inmemory.NewDatabase(map[string]model.ClientDBModel{"Hunt": cdb})
	srv, err := NewOvsdbServer(db, dbModel)
	if err != nil {
		t.Fatal(err)
	}
	sock := fmt.Sprintf("/tmp/hunt-c07-%d-%d.sock", os.Getpid(), rand.Int63())
	os.Remove(sock)
	go func() { _ = srv.Serve("unix", sock) }()
	for i := 0; i < 200 && !srv.Ready(); i++ {
		time.Sleep(5 * time.Millisecond)
	}
	e := &huntEnv{t: t, schema: schema, server: srv, sock: sock}
	e.ctl = e.connect()
	return e
}

func (e *huntEnv) close() {
	e.server.Close()
	os.Remove(e.sock)
}

func (e *huntEnv) connect() *huntConn {
	var conn net.Conn
	var err error
	for i := 0; i < 200; i++ {
		conn, err = net.Dial("unix", e.sock)
		if err == nil {
			break
		}
		time.Sleep(5 * time.Millisecond)
	}
	if err != nil {
		e.t.Fatal(err)
	}
	hc := &huntConn{}
	c := rpc2.NewClientWithCodec(jsonrpc.NewJSONCodec(conn))
	for _, method := range []string{"update", "update2", "update3"} {
		method := method
		c.Handle(method, func(_ *rpc2.Client, args []json.RawMessage, reply *[]interface{}) error {
			hc.mu.Lock()
			defer hc.mu.Unlock()
			n := huntNote{method: method, id: string(args[0])}
			n.raw = args[len(args)-1]
			hc.notes = append(hc.notes, n)
			*reply = []interface{}{}
			return nil
		})
	}
	c.SetBlocking(true)
	go c.Run()
	hc.c = c
	return hc
}

// transact runs the operations; returns results
func (e *huntEnv) transact(hc *huntConn, ops ...ovsdb.Operation) []ovsdb.OperationResult {
	args := []interface{}{"Hunt"}
	for _, op := range ops {
		args = append(args, op)
	}
	var reply []ovsdb.OperationResult
	if err := hc.c.Call("transact", args, &reply); err != nil {
		e.t.Fatalf("transact rpc: %v", err)
	}
	return reply
}

func huntFailed(res []ovsdb.OperationResult) string {
	for _, r := range res {
		if r.Error != "" {
			return r.Error + ": " + r.Details
		}
	}
	return ""
}

// state: table -> uuid -> column -> canonical value
type huntState map[string]map[string]map[string]string

func (e *huntEnv) column(table, col string) *ovsdb.ColumnSchema {
	if col == "_uuid" {
		return &ovsdb.UUIDColumn
	}
	return e.schema.Table(table).Column(col)
}

// native converts a decoded ovs value to its native value
func (e *huntEnv) native(table, col string, v interface{}) interface{} {
	cs := e.column(table, col)
	if cs == nil {
		e.t.Fatalf("unknown column %s.%s", table, col)
	}
	n, err := ovsdb.OvsToNative(cs, v)
	if err != nil {
		e.t.Fatalf("value %#v of %s.%s: %v", v, table, col, err)
	}
	return n
}

func huntCanonNative(n interface{}) string {
	v := reflect.ValueOf(n)
	switch v.Kind() {
	case reflect.Ptr:
		if v.IsNil() {
			return "none"
		}
		return fmt.Sprintf("some(%#v)", v.Elem().Interface())
	case reflect.Slice:
		items := make([]string, 0, v.Len())
		for i := 0; i < v.Len(); i++ {
			items = append(items, fmt.Sprintf("%#v", v.Index(i).Interface()))
		}
		sort.Strings(items)
		return "{" + strings.Join(items, ",") + "}"
	case reflect.Map:
		items := make([]string, 0, v.Len())
		for it := v.MapRange(); it.Next(); {
			items = append(items, fmt.Sprintf("%#v=%#v", it.Key().Interface(), it.Value().Interface()))
		}
		sort.Strings(items)
		return "[" + strings.Join(items, ",") + "]"
	}
	if f, ok := n.(float64); ok && f == 0 {
		return "0"
	}
	return fmt.Sprintf("%#v", n)
}

func (e *huntEnv) canon(table, col string, v interface{}) string {
	return huntCanonNative(e.native(table, col, v))
}

func (e *huntEnv) defaultCanon(table, col string) string {
	cs := e.column(table, col)
	return huntCanonNative(reflect.Zero(ovsdb.NativeType(cs)).Interface())
}

func (e *huntEnv) columns(table string) []string {
	var cols []string
	for c := range e.schema.Table(table).Columns {
		cols = append(cols, c)
	}
	sort.Strings(cols)
	return cols
}

// canonRow gives the canonical values of the given columns of a row, missing
// ones at their default
func (e *huntEnv) canonRow(table string, row ovsdb.Row, cols []string) map[string]string {
	out := map[string]string{}
	for _, c := range cols {
		if v, ok := row[c]; ok {
			out[c] = e.canon(table, c, v)
		} else {
			out[c] = e.defaultCanon(table, c)
		}
	}
	return out
}

// snapshot reads the whole database with select operations
func (e *huntEnv) snapshot() huntState {
	st := huntState{}
	for table := range e.schema.Tables {
		res := e.transact(e.ctl, ovsdb.Operation{Op: ovsdb.OperationSelect, Table: table, Where: []ovsdb.Condition{}})
		if msg := huntFailed(res); msg != "" {
			e.t.Fatalf("select: %s", msg)
		}
		st[table] = map[string]map[string]string{}
		for _, row := range res[0].Rows {
			id := row["_uuid"].(ovsdb.UUID).GoUUID
			st[table][id] = e.canonRow(table, row, e.columns(table))
		}
	}
	return st
}

// huntMonitor describes a registered monitor
type huntMonitor struct {
	conn    *huntConn
	id      string
	method  string // monitor, monitor_cond, monitor_cond_since
	request map[string]*ovsdb.MonitorRequest
	desc    string
}

func (e *huntEnv) register(hc *huntConn, id, method string, request map[string]*ovsdb.MonitorRequest) (*huntMonitor, json.RawMessage) {
	var reply json.RawMessage
	var args []interface{}
	switch method {
	case "monitor", "monitor_cond":
		args = []interface{}{"Hunt", id, request}
	case "monitor_cond_since":
		args = []interface{}{"Hunt", id, request, "00000000-0000-0000-0000-000000000000"}
	}
	if err := hc.c.Call(method, args, &reply); err != nil {
		e.t.Fatalf("%s rpc: %v", method, err)
	}
	rj, _ := json.Marshal(request)
	return &huntMonitor{conn: hc, id: id, method: method, request: request, desc: fmt.Sprintf("%s %s %s", method, id, rj)}, reply
}

// what a monitor watches of a table
func (m *huntMonitor) watch(e *huntEnv, table string) (cols []string, sel *ovsdb.MonitorSelect, ok bool) {
	req, found := m.request[table]
	if !found {
		return nil, nil, false
	}
	sel = ovsdb.NewDefaultMonitorSelect()
	if req != nil && req.Select != nil {
		sel = req.Select
	}
	if req == nil || req.Columns == nil {
		return e.columns(table), sel, true
	}
	seen := map[string]bool{}
	for _, c := range req.Columns {
		if !seen[c] && c != "_uuid" {
			cols = append(cols, c)
		}
		seen[c] = true
	}
	sort.Strings(cols)
	return cols, sel, true
}

// applyDiff applies an update2 difference to a native value
func huntApplyDiff(cs *ovsdb.ColumnSchema, cur, diff interface{}) (interface{}, error) {
	cv := reflect.ValueOf(cur)
	dv := reflect.ValueOf(diff)
	switch cv.Kind() {
	case reflect.Slice:
		res := map[interface{}]bool{}
		for i := 0; i < cv.Len(); i++ {
			res[cv.Index(i).Interface()] = true
		}
		seen := map[interface{}]bool{}
		for i := 0; i < dv.Len(); i++ {
			x := dv.Index(i).Interface()
			if seen[x] {
				return nil, fmt.Errorf("difference lists %v twice", x)
			}
			seen[x] = true
			if res[x] {
				delete(res, x)
			} else {
				res[x] = true
			}
		}
		out := reflect.MakeSlice(cv.Type(), 0, len(res))
		for x := range res {
			out = reflect.Append(out, reflect.ValueOf(x))
		}
		return out.Interface(), nil
	case reflect.Map:
		out := reflect.MakeMap(cv.Type())
		for it := cv.MapRange(); it.Next(); {
			out.SetMapIndex(it.Key(), it.Value())
		}
		for it := dv.MapRange(); it.Next(); {
			old := cv.MapIndex(it.Key())
			if old.IsValid() && old.Interface() == it.Value().Interface() {
				out.SetMapIndex(it.Key(), reflect.Value{})
			} else {
				out.SetMapIndex(it.Key(), it.Value())
			}
		}
		return out.Interface(), nil
	}
	return diff, nil
}

// check compares the notifications a monitor received for one transaction
// with the difference between the state before and after. Returns a list of
// discrepancies.
func (e *huntEnv) check(m *huntMonitor, notes []huntNote, pre, post huntState, preRaw, postRaw map[string]map[string]ovsdb.Row) []string {
	var problems []string
	bad := func(f string, a ...interface{}) { problems = append(problems, fmt.Sprintf(f, a...)) }

	var mine []huntNote
	for _, n := range notes {
		if n.id == fmt.Sprintf("%q", m.id) {
			mine = append(mine, n)
		}
	}
	wantMethod := map[string]string{"monitor": "update", "monitor_cond": "update2", "monitor_cond_since": "update3"}[m.method]

	// expected: table -> uuid -> kind
	type exp struct {
		kind    string
		changed []string
	}
	expected := map[string]map[string]exp{}
	for table := range e.schema.Tables {
		cols, sel, ok := m.watch(e, table)
		if !ok {
			continue
		}
		ids := map[string]bool{}
		for id := range pre[table] {
			ids[id] = true
		}
		for id := range post[table] {
			ids[id] = true
		}
		for id := range ids {
			a, inPre := pre[table][id]
			b, inPost := post[table][id]
			switch {
			case !inPre && inPost:
				if sel.Insert() {
					if expected[table] == nil {
						expected[table] = map[string]exp{}
					}
					expected[table][id] = exp{kind: "insert"}
				}
			case inPre && !inPost:
				if sel.Delete() {
					if expected[table] == nil {
						expected[table] = map[string]exp{}
					}
					expected[table][id] = exp{kind: "delete"}
				}
			default:
				var changed []string
				for _, c := range cols {
					if a[c] != b[c] {
						changed = append(changed, c)
					}
				}
				if len(changed) > 0 && sel.Modify() {
					if expected[table] == nil {
						expected[table] = map[string]exp{}
					}
					expected[table][id] = exp{kind: "modify", changed: changed}
				}
			}
		}
	}

	if len(expected) == 0 {
		if len(mine) != 0 {
			bad("expected no notification, got %d: %s", len(mine), mine[0].raw)
		}
		return problems
	}
	if len(mine) != 1 {
		bad("expected exactly one notification (%v), got %d", expected, len(mine))
		if len(mine) == 0 {
			return problems
		}
	}
	note := mine[0]
	if note.method != wantMethod {
		bad("expected method %s, got %s", wantMethod, note.method)
	}

	if wantMethod == "update" {
		var tus ovsdb.TableUpdates
		if err := json.Unmarshal(note.raw, &tus); err != nil {
			bad("cannot decode %s: %v", note.raw, err)
			return problems
		}
		for table, tu := range tus {
			for id, ru := range tu {
				if _, ok := expected[table][id]; !ok {
					bad("unexpected row update %s/%s: %s", table, id, note.raw)
				}
				_ = ru
			}
		}
		for table, rows := range expected {
			cols, _, _ := m.watch(e, table)
			for id, x := range rows {
				ru := tus[table][id]
				if ru == nil {
					bad("missing %s of %s/%s (changed %v)", x.kind, table, id, x.changed)
					continue
				}
				switch x.kind {
				case "insert":
					if ru.Old != nil || ru.New == nil {
						bad("%s/%s: expected insert, got old=%v new=%v", table, id, ru.Old, ru.New)
						continue
					}
					got := e.canonRow(table, *ru.New, cols)
					for _, c := range cols {
						if got[c] != post[table][id][c] {
							bad("%s/%s insert: column %s new is %s, database has %s", table, id, c, got[c], post[table][id][c])
						}
						if _, ok := (*ru.New)[c]; !ok {
							bad("%s/%s insert: monitored column %s missing in new", table, id, c)
						}
					}
					for c := range *ru.New {
						if c != "_uuid" && !huntIn(cols, c) {
							bad("%s/%s insert: column %s not monitored but reported", table, id, c)
						}
					}
				case "delete":
					if ru.Old == nil || ru.New != nil {
						bad("%s/%s: expected delete, got old=%v new=%v", table, id, ru.Old, ru.New)
						continue
					}
					got := e.canonRow(table, *ru.Old, cols)
					for _, c := range cols {
						if got[c] != pre[table][id][c] {
							bad("%s/%s delete: column %s old is %s, database had %s", table, id, c, got[c], pre[table][id][c])
						}
					}
					for c := range *ru.Old {
						if c != "_uuid" && !huntIn(cols, c) {
							bad("%s/%s delete: column %s not monitored but reported", table, id, c)
						}
					}
				case "modify":
					if ru.Old == nil || ru.New == nil {
						bad("%s/%s: expected modify, got old=%v new=%v", table, id, ru.Old, ru.New)
						continue
					}
					got := e.canonRow(table, *ru.New, cols)
					for _, c := range cols {
						if got[c] != post[table][id][c] {
							bad("%s/%s modify: column %s new is %s, database has %s", table, id, c, got[c], post[table][id][c])
						}
						if _, ok := (*ru.New)[c]; !ok {
							bad("%s/%s modify: monitored column %s missing in new", table, id, c)
						}
					}
					for c := range *ru.New {
						if c != "_uuid" && !huntIn(cols, c) {
							bad("%s/%s modify: column %s not monitored but reported in new", table, id, c)
						}
					}
					var oldCols []string
					for c, v := range *ru.Old {
						if c == "_uuid" {
							continue
						}
						oldCols = append(oldCols, c)
						if !huntIn(cols, c) {
							bad("%s/%s modify: column %s not monitored but reported in old", table, id, c)
							continue
						}
						if cv := e.canon(table, c, v); cv != pre[table][id][c] {
							bad("%s/%s modify: column %s old is %s, database had %s", table, id, c, cv, pre[table][id][c])
						}
					}
					sort.Strings(oldCols)
					if !reflect.DeepEqual(oldCols, x.changed) {
						bad("%s/%s modify: old holds columns %v, changed columns are %v", table, id, oldCols, x.changed)
					}
				}
			}
		}
		return problems
	}

	// update2 / update3
	var tus ovsdb.TableUpdates2
	if err := json.Unmarshal(note.raw, &tus); err != nil {
		bad("cannot decode %s: %v", note.raw, err)
		return problems
	}
	for table, tu := range tus {
		for id := range tu {
			if _, ok := expected[table][id]; !ok {
				bad("unexpected row update2 %s/%s: %s", table, id, note.raw)
			}
		}
	}
	for table, rows := range expected {
		cols, _, _ := m.watch(e, table)
		for id, x := range rows {
			ru := tus[table][id]
			if ru == nil {
				bad("missing %s of %s/%s (changed %v)", x.kind, table, id, x.changed)
				continue
			}
			switch x.kind {
			case "insert":
				if ru.Insert == nil || ru.Modify != nil || ru.Delete != nil || ru.Initial != nil {
					bad("%s/%s: expected insert, got %+v", table, id, ru)
					continue
				}
				got := e.canonRow(table, *ru.Insert, cols)
				for _, c := range cols {
					if got[c] != post[table][id][c] {
						bad("%s/%s insert2: column %s is %s, database has %s", table, id, c, got[c], post[table][id][c])
					}
				}
				for c := range *ru.Insert {
					if c != "_uuid" && !huntIn(cols, c) {
						bad("%s/%s insert2: column %s not monitored but reported", table, id, c)
					}
				}
			case "delete":
				if ru.Delete == nil || ru.Modify != nil || ru.Insert != nil || ru.Initial != nil {
					bad("%s/%s: expected delete, got %+v", table, id, ru)
				}
			case "modify":
				if ru.Modify == nil || ru.Delete != nil || ru.Insert != nil || ru.Initial != nil {
					bad("%s/%s: expected modify, got %+v", table, id, ru)
					continue
				}
				var modCols []string
				for c, d := range *ru.Modify {
					if c == "_uuid" {
						continue
					}
					modCols = append(modCols, c)
					if !huntIn(cols, c) {
						bad("%s/%s modify2: column %s not monitored but reported", table, id, c)
						continue
					}
					cs := e.column(table, c)
					var cur interface{}
					if v, ok := preRaw[table][id][c]; ok {
						cur = e.native(table, c, v)
					} else {
						cur = reflect.Zero(ovsdb.NativeType(cs)).Interface()
					}
					res, err := huntApplyDiff(cs, cur, e.native(table, c, d))
					if err != nil {
						bad("%s/%s modify2: column %s: %v (diff %v)", table, id, c, err, d)
						continue
					}
					if rc := huntCanonNative(res); rc != post[table][id][c] {
						bad("%s/%s modify2: column %s: %s with difference %v gives %s, database has %s", table, id, c, pre[table][id][c], d, rc, post[table][id][c])
					}
				}
				sort.Strings(modCols)
				if !reflect.DeepEqual(modCols, x.changed) {
					bad("%s/%s modify2: difference holds columns %v, changed columns are %v", table, id, modCols, x.changed)
				}
			}
		}
	}
	return problems
}

func huntIn(l []string, s string) bool {
	for _, x := range l {
		if x == s {
			return true
		}
	}
	return false
}

func (e *huntEnv) snapshotRaw() (huntState, map[string]map[string]ovsdb.Row) {
	st := huntState{}
	raw := map[string]map[string]ovsdb.Row{}
	for table := range e.schema.Tables {
		res := e.transact(e.ctl, ovsdb.Operation{Op: ovsdb.OperationSelect, Table: table, Where: []ovsdb.Condition{}})
		if msg := huntFailed(res); msg != "" {
			e.t.Fatalf("select: %s", msg)
		}
		st[table] = map[string]map[string]string{}
		raw[table] = map[string]ovsdb.Row{}
		for _, row := range res[0].Rows {
			id := row["_uuid"].(ovsdb.UUID).GoUUID
			st[table][id] = e.canonRow(table, row, e.columns(table))
			raw[table][id] = row
		}
	}
	return st, raw
}

// ---- random generation ----

type huntGen struct {
	r     *rand.Rand
	e     *huntEnv
	cur   huntState
	focus map[string]string
	hot   []string
}

var huntNames = []string{"a", "b", "c", "d"}
var huntKeys = []string{"k1", "k2", "k3", "k4"}

func (g *huntGen) pick(l []string) string { return l[g.r.Intn(len(l))] }

func (g *huntGen) ids(table string) []string {
	var ids []string
	for id := range g.cur[table] {
		ids = append(ids, id)
	}
	sort.Strings(ids)
	return ids
}

// someRef returns a uuid of a row of table, or of one created in this
// transaction, or (rarely) a dangling one
func (g *huntGen) someRef(table string, fresh map[string][]string) (string, bool) {
	cands := append(g.ids(table), fresh[table]...)
	if len(cands) == 0 {
		return "", false
	}
	return cands[g.r.Intn(len(cands))], true
}

func (g *huntGen) uuidSet(table string, fresh map[string][]string, max int) ovsdb.OvsSet {
	set := ovsdb.OvsSet{GoSet: []interface{}{}}
	n := g.r.Intn(max + 1)
	seen := map[string]bool{}
	for i := 0; i < n; i++ {
		if id, ok := g.someRef(table, fresh); ok && !seen[id] {
			seen[id] = true
			set.GoSet = append(set.GoSet, ovsdb.UUID{GoUUID: id})
		}
	}
	return set
}

func (g *huntGen) strSet(max int) ovsdb.OvsSet {
	set := ovsdb.OvsSet{GoSet: []interface{}{}}
	n := g.r.Intn(max + 1)
	seen := map[string]bool{}
	for i := 0; i < n; i++ {
		s := g.pick(huntNames)
		if !seen[s] {
			seen[s] = true
			set.GoSet = append(set.GoSet, s)
		}
	}
	return set
}

func (g *huntGen) intSet(max int) ovsdb.OvsSet {
	set := ovsdb.OvsSet{GoSet: []interface{}{}}
	n := g.r.Intn(max + 1)
	seen := map[int]bool{}
	for i := 0; i < n; i++ {
		s := g.r.Intn(5)
		if !seen[s] {
			seen[s] = true
			set.GoSet = append(set.GoSet, s)
		}
	}
	return set
}

func (g *huntGen) strMap(max int) ovsdb.OvsMap {
	m := ovsdb.OvsMap{GoMap: map[interface{}]interface{}{}}
	n := g.r.Intn(max + 1)
	for i := 0; i < n; i++ {
		m.GoMap[g.pick(huntKeys)] = g.pick(huntNames)
	}
	return m
}

func (g *huntGen) intMap(max int) ovsdb.OvsMap {
	m := ovsdb.OvsMap{GoMap: map[interface{}]interface{}{}}
	n := g.r.Intn(max + 1)
	for i := 0; i < n; i++ {
		m.GoMap[g.pick(huntKeys)] = g.r.Intn(3)
	}
	return m
}

func (g *huntGen) uuidMap(table string, fresh map[string][]string, max int) ovsdb.OvsMap {
	m := ovsdb.OvsMap{GoMap: map[interface{}]interface{}{}}
	n := g.r.Intn(max + 1)
	for i := 0; i < n; i++ {
		if id, ok := g.someRef(table, fresh); ok {
			m.GoMap[g.pick(huntKeys)] = ovsdb.UUID{GoUUID: id}
		}
	}
	return m
}

// value generates a random value for a column
func (g *huntGen) value(table, col string, fresh map[string][]string) interface{} {
	switch table + "." + col {
	case "T.name", "U.name", "C.name":
		if g.r.Intn(5) == 0 {
			return ""
		}
		return g.pick(huntNames)
	case "T.num", "T.eph":
		return g.r.Intn(4)
	case "T.en":
		return g.pick([]string{"x", "y", "z"})
	case "T.imm":
		return g.pick([]string{"", "i"})
	case "T.en_set":
		set := ovsdb.OvsSet{GoSet: []interface{}{}}
		for _, x := range []string{"x", "y", "z"} {
			if g.r.Intn(3) == 0 && len(set.GoSet) < 2 {
				set.GoSet = append(set.GoSet, x)
			}
		}
		return set
	case "T.set_r":
		set := ovsdb.OvsSet{GoSet: []interface{}{}}
		for _, x := range []float64{0, 0.5, 1, 2.5} {
			if g.r.Intn(3) == 0 {
				set.GoSet = append(set.GoSet, x)
			}
		}
		return set
	case "T.opt_b":
		if g.r.Intn(3) == 0 {
			return ovsdb.OvsSet{GoSet: []interface{}{}}
		}
		return ovsdb.OvsSet{GoSet: []interface{}{g.r.Intn(2) == 0}}
	case "T.map_us":
		m := ovsdb.OvsMap{GoMap: map[interface{}]interface{}{}}
		for i := g.r.Intn(3); i > 0; i-- {
			if id, ok := g.someRef("U", fresh); ok {
				m.GoMap[ovsdb.UUID{GoUUID: id}] = g.pick(huntNames)
			}
		}
		return m
	case "T.map_uu":
		m := ovsdb.OvsMap{GoMap: map[interface{}]interface{}{}}
		for i := g.r.Intn(3); i > 0; i-- {
			id, ok := g.someRef("U", fresh)
			id2, _ := g.someRef("U", fresh)
			if ok {
				m.GoMap[ovsdb.UUID{GoUUID: id}] = ovsdb.UUID{GoUUID: id2}
			}
		}
		return m
	case "T.map_cs":
		m := g.uuidMap("C", fresh, 2)
		if g.r.Intn(2) == 0 {
			for _, id := range fresh["C"] {
				m.GoMap[g.pick(huntKeys)] = ovsdb.UUID{GoUUID: id}
			}
		}
		return m
	case "T.r":
		return float64(g.r.Intn(4)) / 2
	case "T.flag":
		return g.r.Intn(2) == 0
	case "T.opt_s", "U.opt":
		if g.r.Intn(3) == 0 {
			return ovsdb.OvsSet{GoSet: []interface{}{}}
		}
		if g.r.Intn(4) == 0 {
			return ovsdb.OvsSet{GoSet: []interface{}{""}}
		}
		return ovsdb.OvsSet{GoSet: []interface{}{g.pick(huntNames)}}
	case "T.opt_i":
		if g.r.Intn(3) == 0 {
			return ovsdb.OvsSet{GoSet: []interface{}{}}
		}
		return ovsdb.OvsSet{GoSet: []interface{}{g.r.Intn(3)}}
	case "T.set_s":
		return g.strSet(3)
	case "T.set_i3":
		return g.intSet(3)
	case "T.map_ss":
		return g.strMap(3)
	case "T.map_si":
		return g.intMap(3)
	case "T.weak_set", "C.wref":
		return g.uuidSet("U", fresh, 3)
	case "T.weak_opt":
		if id, ok := g.someRef("U", fresh); ok && g.r.Intn(3) != 0 {
			return ovsdb.OvsSet{GoSet: []interface{}{ovsdb.UUID{GoUUID: id}}}
		}
		return ovsdb.OvsSet{GoSet: []interface{}{}}
	case "T.weak_map":
		return g.uuidMap("U", fresh, 3)
	case "T.strong_set", "C.kids":
		set := g.uuidSet("C", fresh, 2)
		if g.r.Intn(2) == 0 {
			for _, id := range fresh["C"] {
				dup := false
				for _, x := range set.GoSet {
					dup = dup || x.(ovsdb.UUID).GoUUID == id
				}
				if !dup {
					set.GoSet = append(set.GoSet, ovsdb.UUID{GoUUID: id})
				}
			}
		}
		return set
	case "T.strong_opt":
		if id, ok := g.someRef("C", fresh); ok && g.r.Intn(3) != 0 {
			return ovsdb.OvsSet{GoSet: []interface{}{ovsdb.UUID{GoUUID: id}}}
		}
		return ovsdb.OvsSet{GoSet: []interface{}{}}
	}
	panic(table + "." + col)
}

func (g *huntGen) row(table string, fresh map[string][]string, p float64) ovsdb.Row {
	row := ovsdb.Row{}
	for _, c := range g.e.columns(table) {
		pc := p
		if table == "T" && huntIn(g.hot, c) {
			pc = 0.7
		}
		if g.r.Float64() < pc {
			row[c] = g.value(table, c, fresh)
		}
	}
	return row
}

func (g *huntGen) where(table string, fresh map[string][]string) []ovsdb.Condition {
	switch g.r.Intn(12) {
	case 0:
		return []ovsdb.Condition{}
	case 1, 2:
		return []ovsdb.Condition{ovsdb.NewCondition("name", ovsdb.ConditionEqual, g.pick(huntNames))}
	case 3, 4, 5, 6, 7:
		if id, ok := g.focus[table]; ok {
			return []ovsdb.Condition{ovsdb.NewCondition("_uuid", ovsdb.ConditionEqual, ovsdb.UUID{GoUUID: id})}
		}
		fallthrough
	default:
		if id, ok := g.someRef(table, fresh); ok {
			return []ovsdb.Condition{ovsdb.NewCondition("_uuid", ovsdb.ConditionEqual, ovsdb.UUID{GoUUID: id})}
		}
		return []ovsdb.Condition{}
	}
}

func (g *huntGen) mutation(table string, fresh map[string][]string) ovsdb.Mutation {
	var cols []string
	switch table {
	case "T":
		cols = []string{"num", "r", "set_s", "set_i3", "map_ss", "map_si", "weak_set", "weak_map", "strong_set", "en_set", "set_r", "map_us", "map_cs", "map_uu"}
	case "C":
		cols = []string{"kids", "wref"}
	default:
		panic(table)
	}
	col := g.pick(cols)
	if table == "T" && g.r.Intn(3) != 0 {
		var hot []string
		for _, c := range g.hot {
			if huntIn(cols, c) {
				hot = append(hot, c)
			}
		}
		if len(hot) > 0 {
			col = g.pick(hot)
		}
	}
	ins := ovsdb.MutateOperationInsert
	if g.r.Intn(2) == 0 {
		ins = ovsdb.MutateOperationDelete
	}
	switch col {
	case "num":
		ops := []ovsdb.Mutator{ovsdb.MutateOperationAdd, ovsdb.MutateOperationSubtract, ovsdb.MutateOperationMultiply}
		return *ovsdb.NewMutation(col, ops[g.r.Intn(len(ops))], g.r.Intn(3))
	case "r":
		ops := []ovsdb.Mutator{ovsdb.MutateOperationAdd, ovsdb.MutateOperationSubtract, ovsdb.MutateOperationMultiply}
		return *ovsdb.NewMutation(col, ops[g.r.Intn(len(ops))], float64(g.r.Intn(3)))
	case "map_us", "map_uu":
		if ins == ovsdb.MutateOperationDelete && g.r.Intn(2) == 0 {
			return *ovsdb.NewMutation(col, ins, g.uuidSet("U", fresh, 2))
		}
	case "map_ss", "map_si", "weak_map", "map_cs":
		if ins == ovsdb.MutateOperationDelete && g.r.Intn(2) == 0 {
			// delete by keys
			return *ovsdb.NewMutation(col, ins, g.strSetOf(huntKeys, 2))
		}
	}
	return *ovsdb.NewMutation(col, ins, g.value(table, col, fresh))
}

func (g *huntGen) strSetOf(l []string, max int) ovsdb.OvsSet {
	set := ovsdb.OvsSet{GoSet: []interface{}{}}
	n := 1 + g.r.Intn(max)
	seen := map[string]bool{}
	for i := 0; i < n; i++ {
		s := g.pick(l)
		if !seen[s] {
			seen[s] = true
			set.GoSet = append(set.GoSet, s)
		}
	}
	return set
}

// transaction generates a random transaction
func (g *huntGen) transaction() []ovsdb.Operation {
	fresh := map[string][]string{}
	g.focus = map[string]string{}
	for _, table := range []string{"T", "U", "C"} {
		if ids := g.ids(table); len(ids) > 0 {
			g.focus[table] = ids[g.r.Intn(len(ids))]
		}
	}
	g.hot = nil
	tcols := g.e.columns("T")
	for i := 0; i < 3; i++ {
		g.hot = append(g.hot, g.pick(tcols))
	}
	n := 1 + g.r.Intn(6)
	var ops []ovsdb.Operation
	tables := []string{"T", "T", "T", "U", "C"}
	// pre-allocate uuids of rows to insert so that earlier ops can refer to
	// them
	type ins struct{ table, id string }
	var inserts []ins
	for i := 0; i < n; i++ {
		if g.r.Intn(3) == 0 {
			table := g.pick(tables)
			id := uuid.NewString()
			inserts = append(inserts, ins{table, id})
			fresh[table] = append(fresh[table], id)
		}
	}
	for i := 0; i < n; i++ {
		table := g.pick(tables)
		k := g.r.Intn(10)
		switch {
		case len(inserts) > 0 && k < 4:
			in := inserts[0]
			inserts = inserts[1:]
			ops = append(ops, ovsdb.Operation{Op: ovsdb.OperationInsert, Table: in.table, UUID: in.id, Row: g.row(in.table, fresh, 0.4)})
		case k < 6:
			ops = append(ops, ovsdb.Operation{Op: ovsdb.OperationUpdate, Table: table, Where: g.where(table, fresh), Row: g.row(table, fresh, 0.25)})
		case k < 9:
			if table == "U" {
				table = "T"
			}
			nm := 1 + g.r.Intn(3)
			var muts []ovsdb.Mutation
			for j := 0; j < nm; j++ {
				muts = append(muts, g.mutation(table, fresh))
			}
			ops = append(ops, ovsdb.Operation{Op: ovsdb.OperationMutate, Table: table, Where: g.where(table, fresh), Mutations: muts})
		default:
			if g.r.Intn(3) == 0 {
				ops = append(ops, ovsdb.Operation{Op: ovsdb.OperationSelect, Table: table, Where: g.where(table, fresh)})
			} else {
				ops = append(ops, ovsdb.Operation{Op: ovsdb.OperationDelete, Table: table, Where: g.where(table, fresh)})
			}
		}
	}
	for _, in := range inserts {
		ops = append(ops, ovsdb.Operation{Op: ovsdb.OperationInsert, Table: in.table, UUID: in.id, Row: g.row(in.table, fresh, 0.4)})
	}
	return ops
}

func (g *huntGen) monitorRequest() map[string]*ovsdb.MonitorRequest {
	req := map[string]*ovsdb.MonitorRequest{}
	for _, table := range []string{"T", "U", "C"} {
		if g.r.Intn(4) == 0 {
			continue
		}
		mr := &ovsdb.MonitorRequest{}
		if g.r.Intn(2) == 0 {
			for _, c := range g.e.columns(table) {
				if g.r.Intn(3) == 0 {
					mr.Columns = append(mr.Columns, c)
				}
			}
		}
		if len(mr.Columns) > 0 && g.r.Intn(4) == 0 {
			mr.Columns = append(mr.Columns, "_uuid", mr.Columns[0])
		}
		if g.r.Intn(2) == 0 {
			mr.Select = ovsdb.NewMonitorSelect(g.r.Intn(2) == 0, g.r.Intn(3) != 0, g.r.Intn(3) != 0, g.r.Intn(3) != 0)
		}
		req[table] = mr
	}
	if len(req) == 0 {
		req["T"] = &ovsdb.MonitorRequest{}
	}
	return req
}

func huntOpsJSON(ops []ovsdb.Operation) string {
	b, _ := json.Marshal(ops)
	return string(b)
}
