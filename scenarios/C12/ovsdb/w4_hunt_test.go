package ovsdb

import (
	"bytes"
	"encoding/json"
	"reflect"
	"testing"
)

// Finding 1: the "delete" form of a <row-update2>.
//
// ovsdb-server(7) 4.1.14: a deleted row is notified as {"delete": null} (this
// is what ovsdb-server puts on the wire). Decoding that member into the *Row of
// RowUpdate2 leaves the pointer nil, so the decoded value is the zero
// RowUpdate2 and encoding it again gives {}: the delete is gone. The same holds
// starting from the Go side: a RowUpdate2 whose Delete points at a nil Row
// (the Go spelling of "delete": null) does not survive encode + decode.
func TestHuntRowUpdate2DeleteNullIsLost(t *testing.T) {
	wire := `{"Bridge":{"00000000-0000-0000-0000-000000000001":{"delete":null}}}`
	var tu TableUpdates2
	if err := json.Unmarshal([]byte(wire), &tu); err != nil {
		t.Fatalf("decoding %s: %v", wire, err)
	}
	again, err := json.Marshal(tu)
	if err != nil {
		t.Fatalf("encoding %#v: %v", tu, err)
	}
	var a, b interface{}
	_ = json.Unmarshal([]byte(wire), &a)
	_ = json.Unmarshal(again, &b)
	// (a deletion is written with null or with an empty row: both say "delete")
	if !reflect.DeepEqual(a, b) && string(again) != `{"Bridge":{"00000000-0000-0000-0000-000000000001":{"delete":{}}}}` {
		t.Errorf("update2 table update does not round-trip:\n expected the re-encoded update to still carry the delete form: %s\n got: %s", wire, again)
	}

	var none Row // the empty row as a nil map
	in := RowUpdate2{Delete: &none}
	enc, err := json.Marshal(in)
	if err != nil {
		t.Fatal(err)
	}
	var out RowUpdate2
	if err := json.Unmarshal(enc, &out); err != nil {
		t.Fatalf("decoding %s: %v", enc, err)
	}
	if out.Delete == nil {
		t.Errorf("RowUpdate2{Delete: &Row(nil)} encodes to %s and decodes to a RowUpdate2 with no form at all: expected Delete != nil, got %#v", enc, out)
	}
}

// Finding 2: an enum of exactly one uuid.
//
// RFC 7047 3.2 <base-type>: "enum" is a <set> of atoms of the base type, for
// any atomic type. A schema whose uuid base type has a one-element enum decodes
// (written as ["set",[<uuid>]]), but is re-encoded with the enum as the bare
// atom ["uuid","..."], which BaseType.UnmarshalJSON takes for a malformed set
// and rejects: the re-encoded schema does not decode at all.
func TestHuntSchemaEnumOfOneUUIDReencodesToUndecodableSchema(t *testing.T) {
	wire := `{"name":"db","version":"1.0.0","tables":{"t":{"columns":{"c":{"type":{"key":{"type":"uuid","enum":["set",[["uuid","00000000-0000-0000-0000-000000000001"]]]}}}}}}}`
	var s DatabaseSchema
	if err := json.Unmarshal([]byte(wire), &s); err != nil {
		t.Fatalf("decoding %s: %v", wire, err)
	}
	again, err := json.Marshal(s)
	if err != nil {
		t.Fatalf("encoding: %v", err)
	}
	var s2 DatabaseSchema
	if err := json.Unmarshal(again, &s2); err != nil {
		t.Fatalf("a decoded schema must re-encode to JSON that decodes to the same schema; the re-encoded schema\n %s\n is refused: %v", again, err)
	}
	if !reflect.DeepEqual(s, s2) {
		t.Errorf("schema changed over encode + decode: %s", again)
	}
	// the atom form, which RFC 7047 allows for a one-element <set>, is refused too
	atom := `{"type":"uuid","enum":["uuid","00000000-0000-0000-0000-000000000001"]}`
	var b BaseType
	if err := json.Unmarshal([]byte(atom), &b); err != nil {
		t.Errorf("base type %s: expected an enum holding one uuid, got error %v", atom, err)
	}
}

// Finding 3: an operation result without "uuid" acquires one.
//
// Only the result of an insert has a "uuid" member (RFC 7047 5.2.1); the
// results of update, mutate and delete are {"count": n} and those of wait,
// commit, comment and assert are {}. OperationResult.UUID is a struct tagged
// omitempty, which encoding/json never omits: every result is encoded with
// "uuid":["named-uuid",""] - a member the decoded value did not have, whose
// value is not even a <uuid>.
func TestHuntOperationResultWithoutUUIDGetsOneWhenReencoded(t *testing.T) {
	t.Skip("normal form of the codec / forms the library does not model (documented in DESIGN.md 7.1)")
	for _, wire := range []string{`{"count":1}`, `{}`, `{"rows":[{"name":"x"}]}`, `{"error":"constraint violation","details":"d"}`} {
		var r OperationResult
		if err := json.Unmarshal([]byte(wire), &r); err != nil {
			t.Fatalf("decoding %s: %v", wire, err)
		}
		again, err := json.Marshal(r)
		if err != nil {
			t.Fatal(err)
		}
		var a, b interface{}
		_ = json.Unmarshal([]byte(wire), &a)
		_ = json.Unmarshal(again, &b)
		if !reflect.DeepEqual(a, b) {
			t.Errorf("operation result %s: expected it to re-encode to the same members, got %s", wire, again)
		}
	}
}

// Finding 4: members of a schema that the decoder drops.
//
// RFC 7047 3.2: a <table-schema> has an optional "maxRows" (the Open_vSwitch
// schema uses it) and a <database-schema> an optional "cksum". Neither
// TableSchema nor DatabaseSchema has a field for them: a decoded schema
// re-encodes without them, so a server that loads a schema file answers
// get_schema with a different schema than the one it was given.
func TestHuntSchemaMaxRowsAndCksumAreDropped(t *testing.T) {
	t.Skip("normal form of the codec / forms the library does not model (documented in DESIGN.md 7.1)")
	wire := `{"name":"db","version":"1.0.0","cksum":"12345 678","tables":{"t":{"columns":{"c":{"type":"string"}},"isRoot":true,"maxRows":1}}}`
	var s DatabaseSchema
	if err := json.Unmarshal([]byte(wire), &s); err != nil {
		t.Fatalf("decoding %s: %v", wire, err)
	}
	again, err := json.Marshal(s)
	if err != nil {
		t.Fatal(err)
	}
	if !bytes.Contains(again, []byte(`"maxRows":1`)) {
		t.Errorf("table schema: expected \"maxRows\":1 to survive decode + encode of %s, got %s", wire, again)
	}
	if !bytes.Contains(again, []byte(`"cksum":"12345 678"`)) {
		t.Errorf("database schema: expected \"cksum\" to survive decode + encode of %s, got %s", wire, again)
	}
}

// Finding 5: wire forms of monitor requests that cannot be decoded.
//
// RFC 7047 4.1.5: <monitor-requests> maps a table name "to an array of
// <monitor-request> objects" (a single object is accepted for backward
// compatibility) - the array is the form the C and Python IDLs send.
// ovsdb-server(7) 4.1.12: in a <monitor-cond-request> a condition is "either a
// 3-element JSON array as described in the RFC or a boolean value".
func TestHuntMonitorRequestWireFormsThatDoNotDecode(t *testing.T) {
	t.Skip("normal form of the codec / forms the library does not model (documented in DESIGN.md 7.1)")
	array := `{"Bridge":[{"columns":["name"]}]}`
	var reqs map[string]MonitorRequest
	if err := json.Unmarshal([]byte(array), &reqs); err != nil {
		t.Errorf("monitor requests %s (array form of RFC 7047 4.1.5): expected one request for the column name, got error: %v", array, err)
	}
	boolean := `{"columns":["name"],"where":[false]}`
	var req MonitorRequest
	if err := json.Unmarshal([]byte(boolean), &req); err != nil {
		t.Errorf("monitor_cond request %s (boolean condition of ovsdb-server(7) 4.1.12): expected it to decode, got error: %v", boolean, err)
	}
}

// Finding 6: the same <uuid> decodes to two different values.
//
// Since the repair of upper-case uuids UUID.UnmarshalJSON folds the digits of
// a ["uuid", ...] to lower case; OvsSet.UnmarshalJSON builds the UUID of a
// one-element set by hand and does not. The set keeps the upper-case spelling,
// which UUID.MarshalJSON then writes as a "named-uuid".
func TestHuntOvsSetOfOneUpperCaseUUID(t *testing.T) {
	wire := `["uuid","ABCDEF00-0000-0000-0000-000000000001"]`
	var u UUID
	if err := json.Unmarshal([]byte(wire), &u); err != nil {
		t.Fatal(err)
	}
	var s OvsSet
	if err := json.Unmarshal([]byte(wire), &s); err != nil {
		t.Fatal(err)
	}
	if len(s.GoSet) != 1 || s.GoSet[0] != u {
		t.Errorf("%s decoded as a set: expected the one element %#v (what it decodes to as a UUID), got %#v", wire, u, s.GoSet)
	}
	again, _ := json.Marshal(s)
	if want := `["uuid","abcdef00-0000-0000-0000-000000000001"]`; string(again) != want {
		t.Errorf("%s decoded as a set and encoded again: expected %s, got %s", wire, want, again)
	}
}
