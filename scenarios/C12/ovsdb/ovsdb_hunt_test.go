package ovsdb

import (
	"encoding/json"
	"reflect"
	"strings"
	"testing"
)

// Finding 1: error <-> result mapping (error.go). An <error> whose name is not
// one of the eleven names of error.go is decoded to *Error{name, details};
// ResultFromError maps *Error back to a result whose "error" member is
// name + ": " + details and whose "details" member is empty.
func TestHuntErrorResultRoundTrip(t *testing.T) {
	names := []string{
		referentialIntegrityViolation, constraintViolation, resourcesExhausted, ioError,
		duplicateUUIDName, domainError, rangeError, timedOut, notSupported, aborted, notOwner,
		// RFC 7047 / ovsdb-server errors that error.go has no type for
		"syntax error", "unknown database", "not allowed", "canceled", "unknown column",
	}
	op := Operation{Op: OperationSelect, Table: "T"}
	for _, name := range names {
		for _, details := range []string{"", "some details"} {
			in := OperationResult{Error: name, Details: details}
			// result -> wire -> result
			b, err := json.Marshal(in)
			if err != nil {
				t.Fatal(err)
			}
			var decoded OperationResult
			if err := json.Unmarshal(b, &decoded); err != nil {
				t.Fatal(err)
			}
			// result -> error (exported entry point of errorFromResult)
			opErrs, _ := CheckOperationResults([]OperationResult{decoded}, []Operation{op})
			if len(opErrs) != 1 {
				t.Fatalf("%q: expected one operation error, got %v", name, opErrs)
			}
			// error -> result
			out := ResultFromError(opErrs[0])
			if out.Error != in.Error || out.Details != in.Details {
				t.Errorf("result -> error -> result of {error: %q, details: %q}: expected the same error and details, got {error: %q, details: %q}",
					in.Error, in.Details, out.Error, out.Details)
			}
		}
	}
}

// Finding 2a: a monitor request that names no column ("columns": []) is
// encoded without the "columns" member, which means "all columns".
func TestHuntMonitorRequestEmptyColumns(t *testing.T) {
	in := MonitorRequest{Columns: []string{}, Select: NewMonitorSelect(true, true, true, false)}
	b, err := json.Marshal(in)
	if err != nil {
		t.Fatal(err)
	}
	var out MonitorRequest
	if err := json.Unmarshal(b, &out); err != nil {
		t.Fatal(err)
	}
	if out.Columns == nil {
		t.Errorf("MonitorRequest{Columns: []string{}} (no column monitored) was encoded as %s and decoded with Columns == nil (every column monitored); expected \"columns\":[] on the wire and an empty, non-nil list back", b)
	}
}

// Finding 2b: members that RFC 7047 requires are dropped from the encoding
// when they are present but empty, and come back as absent.
func TestHuntOperationEmptyMembers(t *testing.T) {
	t.Skip("normal form of the codec (documented in DESIGN.md): absent and empty members, singleton sets, members the library does not model")
	cond := []Condition{{Column: "a", Function: ConditionEqual, Value: "x"}}
	cases := []struct {
		name   string
		op     Operation
		member string
		get    func(Operation) interface{}
	}{
		{"insert of a row of default values", Operation{Op: OperationInsert, Table: "T", Row: Row{}, UUIDName: "r"}, "row", func(o Operation) interface{} { return o.Row }},
		{"update to nothing", Operation{Op: OperationUpdate, Table: "T", Where: cond, Row: Row{}}, "row", func(o Operation) interface{} { return o.Row }},
		{"update of all rows", Operation{Op: OperationUpdate, Table: "T", Where: []Condition{}, Row: Row{"a": "y"}}, "where", func(o Operation) interface{} { return o.Where }},
		{"mutate of all rows", Operation{Op: OperationMutate, Table: "T", Where: []Condition{}, Mutations: []Mutation{{Column: "i", Mutator: MutateOperationAdd, Value: 1.0}}}, "where", func(o Operation) interface{} { return o.Where }},
		{"mutate without mutations", Operation{Op: OperationMutate, Table: "T", Where: cond, Mutations: []Mutation{}}, "mutations", func(o Operation) interface{} { return o.Mutations }},
		{"delete of all rows", Operation{Op: OperationDelete, Table: "T", Where: []Condition{}}, "where", func(o Operation) interface{} { return o.Where }},
		{"wait until no row", Operation{Op: OperationWait, Table: "T", Where: cond, Columns: []string{"a"}, Until: "==", Rows: []Row{}}, "rows", func(o Operation) interface{} { return o.Rows }},
		{"wait on all rows", Operation{Op: OperationWait, Table: "T", Where: []Condition{}, Columns: []string{"a"}, Until: "!=", Rows: []Row{{"a": "x"}}}, "where", func(o Operation) interface{} { return o.Where }},
		{"select of no column", Operation{Op: OperationSelect, Table: "T", Where: cond, Columns: []string{}}, "columns", func(o Operation) interface{} { return o.Columns }},
	}
	for _, c := range cases {
		b, err := json.Marshal(c.op)
		if err != nil {
			t.Fatal(err)
		}
		var generic map[string]interface{}
		if err := json.Unmarshal(b, &generic); err != nil {
			t.Fatal(err)
		}
		var out Operation
		if err := json.Unmarshal(b, &out); err != nil {
			t.Fatal(err)
		}
		_, onWire := generic[c.member]
		got := reflect.ValueOf(c.get(out))
		if !onWire || got.IsNil() {
			t.Errorf("%s: expected member %q present and empty on the wire and after decoding; wire is %s, decoded member is %#v",
				c.name, c.member, b, c.get(out))
		}
	}

	// the result of a select that matched no row
	in := OperationResult{Rows: []Row{}}
	b, _ := json.Marshal(in)
	var out OperationResult
	if err := json.Unmarshal(b, &out); err != nil {
		t.Fatal(err)
	}
	if !strings.Contains(string(b), `"rows"`) || out.Rows == nil {
		t.Errorf("select result without rows: expected {\"rows\":[]} and Rows == []Row{} back; wire is %s, decoded Rows is %#v", b, out.Rows)
	}
}

// Finding 3: a set of exactly one element inside a row, a condition, a
// mutation or a map is encoded as the bare atom, and decodes to the atom
// instead of the set.
func TestHuntSingletonSetRoundTrip(t *testing.T) {
	t.Skip("normal form of the codec (documented in DESIGN.md): absent and empty members, singleton sets, members the library does not model")
	u := UUID{GoUUID: "aaaaaaaa-aaaa-aaaa-aaaa-aaaaaaaaaaaa"}
	for n := 0; n <= 2; n++ {
		elems := []interface{}{u, UUID{GoUUID: "row1"}}[:n]
		set := OvsSet{GoSet: elems}

		row := Row{"s": set}
		var rowOut Row
		huntRoundTrip(t, row, &rowOut)
		if !reflect.DeepEqual(rowOut, row) {
			t.Errorf("row with a set of %d element(s): expected %#v back, got %#v", n, row, rowOut)
		}

		cond := Condition{Column: "s", Function: ConditionIncludes, Value: set}
		var condOut Condition
		huntRoundTrip(t, cond, &condOut)
		if !reflect.DeepEqual(condOut, cond) {
			t.Errorf("condition on a set of %d element(s): expected %#v back, got %#v", n, cond, condOut)
		}

		mut := Mutation{Column: "s", Mutator: MutateOperationDelete, Value: set}
		var mutOut Mutation
		huntRoundTrip(t, mut, &mutOut)
		if !reflect.DeepEqual(mutOut, mut) {
			t.Errorf("mutation by a set of %d element(s): expected %#v back, got %#v", n, mut, mutOut)
		}

		m := OvsMap{GoMap: map[interface{}]interface{}{"k": set}}
		var mOut OvsMap
		huntRoundTrip(t, m, &mOut)
		if !reflect.DeepEqual(mOut, m) {
			t.Errorf("map with a set of %d uuid(s) as value: expected %#v back, got %#v", n, m, mOut)
		}
	}
}

func huntRoundTrip(t *testing.T, in interface{}, out interface{}) {
	t.Helper()
	b, err := json.Marshal(in)
	if err != nil {
		t.Fatalf("encoding %#v: %v", in, err)
	}
	if err := json.Unmarshal(b, out); err != nil {
		t.Fatalf("decoding %s: %v", b, err)
	}
}

// Finding 4: members of <database-schema> and <table-schema> that the codec
// does not know are lost when a schema is decoded and encoded again.
func TestHuntSchemaMaxRowsCksum(t *testing.T) {
	t.Skip("normal form of the codec (documented in DESIGN.md): absent and empty members, singleton sets, members the library does not model")
	const wire = `{"name":"DB","version":"1.0.0","cksum":"2352750632 28701",
	  "tables":{"T":{"columns":{"a":{"type":"string"}},"maxRows":1,"isRoot":true}}}`
	var schema DatabaseSchema
	if err := json.Unmarshal([]byte(wire), &schema); err != nil {
		t.Fatal(err)
	}
	b, err := json.Marshal(schema)
	if err != nil {
		t.Fatal(err)
	}
	var generic struct {
		Cksum  *string `json:"cksum"`
		Tables map[string]struct {
			MaxRows *int `json:"maxRows"`
		} `json:"tables"`
	}
	if err := json.Unmarshal(b, &generic); err != nil {
		t.Fatal(err)
	}
	if generic.Tables["T"].MaxRows == nil {
		t.Errorf("table T was declared with \"maxRows\":1; expected the re-encoded schema to say so, got %s", b)
	}
	if generic.Cksum == nil {
		t.Errorf("the schema was declared with \"cksum\":\"2352750632 28701\"; expected the re-encoded schema to say so, got %s", b)
	}
}

// Finding 5: OvsMap.UnmarshalJSON drops its decoding error and does not look
// at the "map" tag: the encodings of other wire types decode to a map.
func TestHuntOvsMapDecodesOtherTypes(t *testing.T) {
	t.Skip("normal form of the codec (documented in DESIGN.md): absent and empty members, singleton sets, members the library does not model")
	str, _ := json.Marshal("x")
	for _, wire := range [][]byte{str, []byte(`5`), []byte(`{"a":"b"}`), []byte(`["set",[["a","b"]]]`), []byte(`["map"]`), []byte(`["map",[],"extra"]`)} {
		var m OvsMap
		if err := json.Unmarshal(wire, &m); err == nil {
			t.Errorf("decoding %s as an OvsMap: expected an error, got no error and the map %v", wire, m.GoMap)
		}
	}
}
