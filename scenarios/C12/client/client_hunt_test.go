package client

import (
	"encoding/json"
	"testing"

	"github.com/ovn-org/libovsdb/cache"
	"github.com/ovn-org/libovsdb/model"
	"github.com/ovn-org/libovsdb/ovsdb"
)

// Create of a model whose fields all hold their default value builds an
// insert with an empty row (TestAPICreate "empty" expects Row: ovsdb.Row{}).
// RFC 7047 5.2.1: "row": <row> is a required member of insert.
func TestHuntCreateDefaultModelOnTheWire(t *testing.T) {
	t.Skip("normal form of the codec")
	tcache := apiTestCache(t, cache.Data{})
	api := newAPI(tcache, &discardLogger)
	ops, err := api.Create([]model.Model{&testLogicalSwitch{UUID: "ls"}}...)
	if err != nil || len(ops) != 1 {
		t.Fatalf("Create: %v %v", ops, err)
	}
	args := ovsdb.NewTransactArgs("OVN_Northbound", ops...)
	wire, err := json.Marshal(args[1])
	if err != nil {
		t.Fatal(err)
	}
	var members map[string]json.RawMessage
	if err := json.Unmarshal(wire, &members); err != nil {
		t.Fatal(err)
	}
	if _, ok := members["row"]; !ok {
		t.Errorf("insert built by Create(&testLogicalSwitch{}) has Row %#v; expected the required member \"row\":{} on the wire, got %s", ops[0].Row, wire)
	}
	var back ovsdb.Operation
	if err := json.Unmarshal(wire, &back); err != nil {
		t.Fatal(err)
	}
	if back.Row == nil {
		t.Errorf("expected the decoded insert to have the empty row it was built with, got Row == nil (wire %s)", wire)
	}
}
