package server

import (
	"encoding/json"
	"testing"

	"github.com/ovn-org/libovsdb/ovsdb"
)

// A client asks to monitor table Bridge with no column at all (it wants to
// know which rows exist). The request goes through the wire encoding, as
// ovsdb.NewMonitorArgs / OvsdbServer.Monitor do, and reaches the monitor.
func TestHuntMonitorEmptyColumnsThroughWire(t *testing.T) {
	sent := map[string]ovsdb.MonitorRequest{"Bridge": {Columns: []string{}}}

	// what the monitor does with the request as the client built it
	direct := newMonitor("v", map[string]*ovsdb.MonitorRequest{"Bridge": {Columns: []string{}}}, nil)
	wantColumns, _, _ := direct.tableRequest("Bridge")
	if wantColumns == nil || len(wantColumns) != 1 || !wantColumns["_uuid"] {
		t.Fatalf("precondition: an empty column list selects _uuid only, got %v", wantColumns)
	}

	wire, err := json.Marshal(sent)
	if err != nil {
		t.Fatal(err)
	}
	var received map[string]*ovsdb.MonitorRequest
	if err := json.Unmarshal(wire, &received); err != nil {
		t.Fatal(err)
	}
	m := newMonitor("v", received, nil)
	gotColumns, _, _ := m.tableRequest("Bridge")
	row := ovsdb.Row{"_uuid": ovsdb.UUID{GoUUID: "aaaaaaaa-aaaa-aaaa-aaaa-aaaaaaaaaaaa"}, "name": "br0"}
	got := filterColumns(&row, gotColumns)
	want := filterColumns(&row, wantColumns)
	if len(*got) != len(*want) {
		t.Errorf("monitor request %#v sent as %s: expected the monitor to report %v for a row (no column requested), it reports %v (every column)",
			sent["Bridge"], wire, *want, *got)
	}
}
