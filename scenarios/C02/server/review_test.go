package server

import (
	"encoding/json"
	"testing"

	"github.com/ovn-org/libovsdb/database/inmemory"
	"github.com/ovn-org/libovsdb/model"
	"github.com/ovn-org/libovsdb/ovsdb"
	"github.com/stretchr/testify/require"

	. "github.com/ovn-org/libovsdb/test"
)

// Review of c852a3d ("an operation that cannot be decoded fails where it
// stands - the operations before it are executed and have their results, a
// syntax error follows, nothing is committed").
//
// The operations before the malformed one are handed to
// Transaction.Transact, which - when all of them succeed - goes on to the
// checks made when a transaction is committed (references, indexes). A
// violation found there is appended to the results; Transact then sees a
// failed result and does not add the syntax error. The client is told
// "constraint violation" at the position of the operation that could not
// be decoded, where the commit message (and ovsdb-server, which does not
// reach the commit checks after a parse error) reports the syntax error.
func TestHuntReviewMalformedOperationAfterCommitCheckFailure(t *testing.T) {
	dbModel, err := GetModel()
	require.NoError(t, err)
	ovsDB := inmemory.NewDatabase(map[string]model.ClientDBModel{"Open_vSwitch": dbModel.Client()})
	o, err := NewOvsdbServer(ovsDB, dbModel)
	require.NoError(t, err)

	raw := func(s string) json.RawMessage { return json.RawMessage(s) }
	args := []json.RawMessage{
		raw(`"Open_vSwitch"`),
		// two bridges with the same name: the index on "name" is only
		// checked when the transaction is complete
		raw(`{"op":"insert","table":"Bridge","row":{"name":"dup"}}`),
		raw(`{"op":"insert","table":"Bridge","row":{"name":"dup"}}`),
		// cannot be decoded: "table" is not a string
		raw(`{"op":"insert","table":42}`),
	}
	var reply []*ovsdb.OperationResult
	require.NoError(t, o.Transact(nil, args, &reply))
	require.Len(t, reply, 3, "one result per operation")
	require.NotNil(t, reply[0])
	require.NotNil(t, reply[1])
	require.Empty(t, reply[0].Error, "the first operation is executed and has its result")
	require.Empty(t, reply[1].Error, "the second operation is executed and has its result")
	require.NotNil(t, reply[2])
	require.Equal(t, "syntax error", reply[2].Error,
		"expected the syntax error of the operation that cannot be decoded at its position, got %q (%s)",
		reply[2].Error, reply[2].Details)
}
