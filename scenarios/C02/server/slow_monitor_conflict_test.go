// Scenario kept after the seeded change C02-6 (seeded/C02-6): a monitor whose client is slow to acknowledge a
// notification, and a conflicting transaction arriving meanwhile: a transaction that is refused must not have been announced.

package server

import (
	"encoding/json"
	"fmt"
	"net"
	"path/filepath"
	"sync"
	"sync/atomic"
	"testing"
	"time"

	"github.com/cenkalti/rpc2"
	"github.com/cenkalti/rpc2/jsonrpc"
	"github.com/google/uuid"
	"github.com/ovn-org/libovsdb/database/inmemory"
	"github.com/ovn-org/libovsdb/model"
	"github.com/ovn-org/libovsdb/ovsdb"
	"github.com/stretchr/testify/require"

	. "github.com/ovn-org/libovsdb/test"
)

// slowMonDial connects a bare JSON-RPC client to the server
func slowMonDial(t *testing.T, sock string, handlers map[string]interface{}) *rpc2.Client {
	conn, err := net.Dial("unix", sock)
	require.NoError(t, err)
	c := rpc2.NewClientWithCodec(jsonrpc.NewJSONCodec(conn))
	for method, handler := range handlers {
		c.Handle(method, handler)
	}
	go c.Run()
	t.Cleanup(func() { c.Close() })
	return c
}

type slowMonOutcome struct {
	results []ovsdb.OperationResult
	err     error
}

// failed tells whether the transaction was refused: an rpc error, an error
// result of an operation, or the extra error result of a commit-time rejection
func (o slowMonOutcome) failed() bool {
	if o.err != nil {
		return true
	}
	for _, r := range o.results {
		if r.Error != "" {
			return true
		}
	}
	return false
}

func slowMonTransact(c *rpc2.Client, ops ...ovsdb.Operation) slowMonOutcome {
	var out slowMonOutcome
	out.err = c.Call("transact", ovsdb.NewTransactArgs("Open_vSwitch", ops...), &out.results)
	return out
}

// TestHuntRefusedTransactionNotAnnouncedWithSlowMonitor: a transaction whose reply
// is an error has changed nothing and no monitor has heard of it, whatever the
// other clients do in the meantime. One client monitors the Bridge table and is
// slow to acknowledge one notification; while the server waits for it, a second
// client submits a transaction on the same row.
func TestHuntRefusedTransactionNotAnnouncedWithSlowMonitor(t *testing.T) {
	dbModel, err := GetModel()
	require.NoError(t, err)
	db := inmemory.NewDatabase(map[string]model.ClientDBModel{"Open_vSwitch": dbModel.Client()})
	srv, err := NewOvsdbServer(db, dbModel)
	require.NoError(t, err)
	sock := filepath.Join(t.TempDir(), "ovsdb.sock")
	go func() { _ = srv.Serve("unix", sock) }()
	defer srv.Close()
	require.Eventually(t, srv.Ready, 2*time.Second, 10*time.Millisecond)

	// the monitoring client: records what it is told, and can be made to hold
	// back the acknowledgement of one notification
	var (
		mu      sync.Mutex
		told    []ovsdb.TableUpdates
		hold    int32
		entered = make(chan struct{}, 1)
		release = make(chan struct{})
	)
	onUpdate := func(_ *rpc2.Client, args []json.RawMessage, reply *[]interface{}) error {
		var tu ovsdb.TableUpdates
		if len(args) == 2 {
			if err := json.Unmarshal(args[1], &tu); err != nil {
				return err
			}
		}
		mu.Lock()
		told = append(told, tu)
		mu.Unlock()
		if atomic.CompareAndSwapInt32(&hold, 1, 0) {
			entered <- struct{}{}
			select {
			case <-release:
			case <-time.After(20 * time.Second):
			}
		}
		*reply = []interface{}{}
		return nil
	}
	monitor := slowMonDial(t, sock, map[string]interface{}{"update": onUpdate})
	var initial ovsdb.TableUpdates
	err = monitor.Call("monitor", ovsdb.NewMonitorArgs("Open_vSwitch", "seeded",
		map[string]ovsdb.MonitorRequest{"Bridge": {}}), &initial)
	require.NoError(t, err)

	first := slowMonDial(t, sock, nil)
	second := slowMonDial(t, sock, nil)

	// a bridge to work on
	bridge := uuid.NewString()
	whereBridge := []ovsdb.Condition{ovsdb.NewCondition("_uuid", ovsdb.ConditionEqual, ovsdb.UUID{GoUUID: bridge})}
	out := slowMonTransact(first, ovsdb.Operation{
		Op:    ovsdb.OperationInsert,
		Table: "Bridge",
		UUID:  bridge,
		Row:   ovsdb.Row{"name": "br0", "datapath_type": "system"},
	})
	require.NoError(t, out.err)
	require.False(t, out.failed(), "%+v", out.results)
	require.Eventually(t, func() bool {
		mu.Lock()
		defer mu.Unlock()
		return len(told) == 1
	}, 2*time.Second, 10*time.Millisecond)

	// the first client changes the bridge; the monitoring client is slow to
	// acknowledge the notification of it
	atomic.StoreInt32(&hold, 1)
	firstDone := make(chan slowMonOutcome, 1)
	go func() {
		firstDone <- slowMonTransact(first, ovsdb.Operation{
			Op:    ovsdb.OperationUpdate,
			Table: "Bridge",
			Where: whereBridge,
			Row:   ovsdb.Row{"datapath_type": "netdev"},
		})
	}()
	select {
	case <-entered:
	case <-time.After(5 * time.Second):
		t.Fatal("the monitor was not notified of the update")
	}

	// meanwhile the second client deletes the bridge. Transactions are
	// serialized: it either waits for the first one or is over before it.
	secondDone := make(chan slowMonOutcome, 1)
	go func() {
		secondDone <- slowMonTransact(second, ovsdb.Operation{
			Op:    ovsdb.OperationDelete,
			Table: "Bridge",
			Where: whereBridge,
		})
	}()
	var firstOut, secondOut slowMonOutcome
	secondIsOver := false
	select {
	case secondOut = <-secondDone:
		secondIsOver = true
	case <-time.After(1 * time.Second):
	}
	close(release)
	select {
	case firstOut = <-firstDone:
	case <-time.After(10 * time.Second):
		t.Fatal("no reply to the first transaction")
	}
	if !secondIsOver {
		select {
		case secondOut = <-secondDone:
		case <-time.After(10 * time.Second):
			t.Fatal("no reply to the second transaction")
		}
	}

	// what the monitor was told about the change of datapath_type
	toldOfUpdate := func() bool {
		mu.Lock()
		defer mu.Unlock()
		for _, tu := range told {
			ru, ok := tu["Bridge"][bridge]
			if !ok || ru == nil || ru.New == nil || ru.Old == nil {
				continue
			}
			if (*ru.New)["datapath_type"] == "netdev" {
				return true
			}
		}
		return false
	}

	// the bridge as the database holds it now
	sel := slowMonTransact(second, ovsdb.Operation{
		Op:      ovsdb.OperationSelect,
		Table:   "Bridge",
		Where:   whereBridge,
		Columns: []string{"datapath_type"},
	})
	require.NoError(t, sel.err)
	require.Len(t, sel.results, 1)
	describe := fmt.Sprintf("first: err=%v results=%+v; second: err=%v results=%+v; bridge now: %+v",
		firstOut.err, firstOut.results, secondOut.err, secondOut.results, sel.results[0].Rows)

	// all or nothing: a transaction that was refused was never announced
	if firstOut.failed() && toldOfUpdate() {
		t.Errorf("the update was refused, but the monitor was notified of it (%s)", describe)
	}
	// and one that was accepted took effect as a whole: the update was
	// announced, the delete came after it and the bridge is gone
	if !firstOut.failed() {
		require.True(t, toldOfUpdate(), describe)
	}
	require.False(t, secondOut.failed(), describe)
	require.Empty(t, sel.results[0].Rows, describe)
}
