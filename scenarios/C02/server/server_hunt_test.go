package server

import (
	"context"
	"encoding/json"
	"fmt"
	"math/rand"
	"os"
	"testing"
	"time"

	"github.com/stretchr/testify/require"

	"github.com/ovn-org/libovsdb/client"
	"github.com/ovn-org/libovsdb/database"
	"github.com/ovn-org/libovsdb/database/inmemory"
	"github.com/ovn-org/libovsdb/model"
	"github.com/ovn-org/libovsdb/ovsdb"

	. "github.com/ovn-org/libovsdb/test"
)

// Property C02 on the server path: a transaction that is not committed
// notifies no monitor and leaves the database as it was.

func huntServer(t *testing.T) (*OvsdbServer, database.Database, client.Client, func()) {
	dbModel, err := GetModel()
	require.NoError(t, err)
	db := inmemory.NewDatabase(map[string]model.ClientDBModel{"Open_vSwitch": dbModel.Client()})
	srv, err := NewOvsdbServer(db, dbModel)
	require.NoError(t, err)
	sock := fmt.Sprintf("/tmp/ovsdb-hunt-%d-%d.sock", os.Getpid(), rand.Intn(100000))
	go func() { _ = srv.Serve("unix", sock) }()
	require.Eventually(t, srv.Ready, time.Second, 10*time.Millisecond)
	c, err := client.NewOVSDBClient(dbModel.Client(), client.WithEndpoint("unix:"+sock))
	require.NoError(t, err)
	require.NoError(t, c.Connect(context.Background()))
	return srv, db, c, func() {
		c.Disconnect()
		srv.Close()
		os.Remove(sock)
	}
}

// Finding 1 on the server path. Port u and Bridge u share their uuid (legal:
// a uuid is only checked against the table inserted into). The transaction
// [delete Port u, insert Bridge u] must be refused because Bridge u exists.
// Instead every operation "succeeds", the monitors are notified, and only
// then Commit fails: the client is told the transaction failed (rpc error)
// while a monitor of the Port table has been told Port u is gone.
func TestHuntServerNotifiesMonitorsOfTransactionThatFailsToCommit(t *testing.T) {
	_, db, c, stop := huntServer(t)
	defer stop()
	ctx := context.Background()
	const u = "22222222-2222-4222-8222-222222222222"

	// the client monitors the Port table only
	_, err := c.Monitor(ctx, c.NewMonitor(client.WithTable(&PortType{})))
	require.NoError(t, err)

	reply, err := c.Transact(ctx,
		ovsdb.Operation{Op: ovsdb.OperationInsert, Table: "Port", UUID: u, Row: ovsdb.Row{"name": "p"}},
		ovsdb.Operation{Op: ovsdb.OperationInsert, Table: "Port", Row: ovsdb.Row{"name": "other"}},
	)
	require.NoError(t, err)
	_, err = ovsdb.CheckOperationResults(reply, make([]ovsdb.Operation, 2))
	require.NoError(t, err)
	reply, err = c.Transact(ctx,
		ovsdb.Operation{Op: ovsdb.OperationInsert, Table: "Bridge", UUID: u, Row: ovsdb.Row{"name": "b"}},
	)
	require.NoError(t, err)
	_, err = ovsdb.CheckOperationResults(reply, make([]ovsdb.Operation, 1))
	require.NoError(t, err)

	hasPort := func() bool {
		err := c.Get(ctx, &PortType{UUID: u})
		return err == nil
	}
	require.Eventually(t, hasPort, time.Second, 10*time.Millisecond, "the monitor learns about Port u")

	reply, err = c.Transact(ctx,
		ovsdb.Operation{Op: ovsdb.OperationDelete, Table: "Port", Where: []ovsdb.Condition{ovsdb.NewCondition("_uuid", ovsdb.ConditionEqual, ovsdb.UUID{GoUUID: u})}},
		ovsdb.Operation{Op: ovsdb.OperationInsert, Table: "Bridge", UUID: u, Row: ovsdb.Row{"name": "z"}},
	)
	committed := err == nil
	if committed {
		_, cerr := ovsdb.CheckOperationResults(reply, make([]ovsdb.Operation, 2))
		committed = cerr == nil
	}
	b, _ := json.Marshal(reply)
	t.Logf("reply of the transaction: %s, rpc error: %v", b, err)
	require.False(t, committed, "the transaction cannot succeed: Bridge %s exists", u)

	// the transaction failed: nothing may have been notified, nothing changed
	time.Sleep(300 * time.Millisecond)
	if !hasPort() {
		t.Errorf("the transaction failed (rpc error %v), so no monitor may be notified of anything: "+
			"expected the monitoring client to still hold Port %s, but it received its deletion", err, u)
	}
	row, gerr := db.Get("Open_vSwitch", "Port", u)
	require.NoError(t, gerr)
	t.Logf("Port %s in the server database after the failed transaction: %v (its presence depends on the iteration order of a Go map)", u, row)
	bridge, gerr := db.Get("Open_vSwitch", "Bridge", u)
	require.NoError(t, gerr)
	require.Equal(t, "b", bridge.(*BridgeType).Name)
}

// Finding 4 on the server path: a transaction without operations
// (params = [db-name], legal in RFC 7047: "params": [<db-name>, <operation>*])
// is answered with an rpc error instead of an empty list of results.
func TestHuntServerEmptyTransaction(t *testing.T) {
	srv, _, _, stop := huntServer(t)
	defer stop()
	var reply []*ovsdb.OperationResult
	err := srv.Transact(nil, []json.RawMessage{json.RawMessage(`"Open_vSwitch"`)}, &reply)
	if err != nil {
		t.Errorf("expected a reply with one result per operation, i.e. an empty list, for a transaction without operations; got the rpc error %q", err)
	}
}

// Finding 2 on the server path: an operation the server cannot decode (unknown
// condition function or mutator, a value that is not a set/map where one is
// announced, a timeout that is not a number...) fails the whole rpc call: the
// client gets no list of results at all instead of the results of the
// operations before it followed by an error.
func TestHuntServerUndecodableOperationGivesNoResults(t *testing.T) {
	srv, _, _, stop := huntServer(t)
	defer stop()
	good := `{"op":"insert","table":"Port","row":{"name":"p"}}`
	for _, bad := range []string{
		`{"op":"select","table":"Bridge","where":[["name","~~","x"]]}`,
		`{"op":"mutate","table":"Bridge","where":[],"mutations":[["datapath_type","??","x"]]}`,
		`{"op":"insert","table":"Bridge","row":{"name":["set","oops"]}}`,
	} {
		var reply []*ovsdb.OperationResult
		err := srv.Transact(nil, []json.RawMessage{json.RawMessage(`"Open_vSwitch"`), json.RawMessage(good), json.RawMessage(bad)}, &reply)
		if err != nil || len(reply) < 2 || reply[0] == nil || reply[0].Error != "" || reply[1] == nil || reply[1].Error == "" {
			b, _ := json.Marshal(reply)
			t.Errorf("transaction [insert Port, %s]: expected a reply [result of the insert, error]; got reply %s and rpc error %v", bad, b, err)
		}
	}
}
