package server

import (
	"encoding/json"
	"testing"

	"github.com/ovn-org/libovsdb/database/inmemory"
	"github.com/ovn-org/libovsdb/model"
	"github.com/ovn-org/libovsdb/ovsdb"
	"github.com/stretchr/testify/require"

	. "github.com/ovn-org/libovsdb/test"
)

// TestHuntMalformedValueReplyShape: a transaction whose second operation holds
// a malformed value. RFC 7047 4.1.3 (and property C02: "any cause of failure
// including malformed values ... the reply contains one result per operation
// up to and including the failing one") wants a result list: the result of the
// first operation, then an error for the second. The server answers the whole
// request with a JSON-RPC error and no result list instead, because every
// operation is decoded before the transaction is looked at.
func TestHuntMalformedValueReplyShape(t *testing.T) {
	good := `{"op":"insert","table":"Bridge","uuid":"00000000-0000-4000-8000-000000000001","row":{"name":"br0"}}`
	for _, tc := range []struct{ name, bad string }{
		{"set that is not a list", `{"op":"insert","table":"Bridge","row":{"name":"br1","ports":["set",5]}}`},
		{"map pair with one element", `{"op":"insert","table":"Bridge","row":{"name":"br1","external_ids":["map",[["k"]]]}}`},
		{"unknown mutator", `{"op":"mutate","table":"Bridge","where":[],"mutations":[["datapath_type","^=","x"]]}`},
		{"mutation with two elements", `{"op":"mutate","table":"Bridge","where":[],"mutations":[["datapath_type","insert"]]}`},
		{"unknown condition function", `{"op":"delete","table":"Bridge","where":[["name","~","br0"]]}`},
		{"condition with two elements", `{"op":"delete","table":"Bridge","where":[["name","=="]]}`},
		{"timeout that is not an integer", `{"op":"wait","table":"Bridge","where":[],"timeout":"soon","until":"==","rows":[]}`},
	} {
		t.Run(tc.name, func(t *testing.T) {
			dbModel, err := GetModel()
			require.NoError(t, err)
			db := inmemory.NewDatabase(map[string]model.ClientDBModel{"Open_vSwitch": dbModel.Client()})
			o, err := NewOvsdbServer(db, dbModel)
			require.NoError(t, err)

			args := []json.RawMessage{json.RawMessage(`"Open_vSwitch"`), json.RawMessage(good), json.RawMessage(tc.bad)}
			var reply []*ovsdb.OperationResult
			rpcErr := o.Transact(nil, args, &reply)

			// all-or-nothing itself holds
			rows, err := db.List("Open_vSwitch", "Bridge")
			require.NoError(t, err)
			require.Empty(t, rows, "the failed transaction left rows behind")

			if rpcErr != nil || len(reply) < 2 || reply[0] == nil || reply[0].Error != "" || reply[1] == nil || reply[1].Error == "" {
				t.Fatalf("transaction of 2 operations, the second one with a malformed value (%s):\n"+
					"expected: no JSON-RPC error and a result list [<result of operation 1>, <error for operation 2>]\n"+
					"got:      JSON-RPC error %q and result list %s",
					tc.bad, errString(rpcErr), resultsString(reply))
			}
		})
	}
}

func errString(err error) string {
	if err == nil {
		return "<nil>"
	}
	return err.Error()
}

func resultsString(res []*ovsdb.OperationResult) string {
	b, _ := json.Marshal(res)
	return string(b)
}
