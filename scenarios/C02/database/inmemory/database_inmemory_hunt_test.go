package inmemory

import (
	"encoding/json"
	"fmt"
	"sort"
	"strings"
	"testing"

	"github.com/google/uuid"
	"github.com/stretchr/testify/require"

	"github.com/ovn-org/libovsdb/database"
	"github.com/ovn-org/libovsdb/model"
	"github.com/ovn-org/libovsdb/ovsdb"

	. "github.com/ovn-org/libovsdb/test"
)

// Property C02: transactions are all-or-nothing.

const huntDB = "Open_vSwitch"

var huntTables = []string{"Open_vSwitch", "Bridge", "Flow_Sample_Collector_Set", "Manager", "Mirror", "Port"}

func huntNewDB(t *testing.T) database.Database {
	dbModel, err := GetModel()
	require.NoError(t, err)
	db := NewDatabase(map[string]model.ClientDBModel{huntDB: dbModel.Client()})
	require.NoError(t, db.CreateDatabase(huntDB, dbModel.Schema))
	return db
}

// huntSnapshot renders every row of every table with the references to it
func huntSnapshot(t *testing.T, db database.Database) string {
	out := []string{}
	for _, table := range huntTables {
		rows, err := db.List(huntDB, table)
		require.NoError(t, err)
		for u, r := range rows {
			b, _ := json.Marshal(r)
			refs, err := db.GetReferences(huntDB, table, u)
			require.NoError(t, err)
			rs := []string{}
			for spec, ref := range refs {
				for to, from := range ref {
					f := append([]string{}, from...)
					sort.Strings(f)
					rs = append(rs, fmt.Sprintf("%v/%s<-%v", spec, to, f))
				}
			}
			sort.Strings(rs)
			out = append(out, fmt.Sprintf("%s %s refs=%v", table, b, rs))
		}
	}
	sort.Strings(out)
	return strings.Join(out, "\n")
}

func huntShow(res []*ovsdb.OperationResult) string {
	s := []string{}
	for _, r := range res {
		if r == nil {
			s = append(s, "null")
		} else {
			b, _ := json.Marshal(r)
			s = append(s, string(b))
		}
	}
	return "[" + strings.Join(s, ", ") + "]"
}

func huntFailed(res []*ovsdb.OperationResult) bool {
	for _, r := range res {
		if r != nil && r.Error != "" {
			return true
		}
	}
	return false
}

// huntMustCommit runs a transaction that is expected to succeed and commits it
func huntMustCommit(t *testing.T, db database.Database, ops ...ovsdb.Operation) {
	res, upd := db.NewTransaction(huntDB).Transact(ops...)
	require.False(t, huntFailed(res), "setup transaction failed: %s", huntShow(res))
	require.NoError(t, db.Commit(huntDB, uuid.New(), upd))
}

// Finding 1. The rows a transaction deleted are remembered by uuid only
// (Transaction.DeletedRows), but a uuid identifies a row within one table:
// the same uuid may be used in two tables (insert only checks the table it
// inserts into). After "delete Port U" the insert of "Bridge U" skips the
// check that Bridge U exists, every operation result is a success, no commit
// time error is appended - and Commit then fails half way ("cannot create
// row ... as it already exists"), after the server has notified the monitors
// (server.Transact notifies before it commits) and, depending on the order of
// Go map iteration over the tables, after the Port rows were deleted.
func TestHuntCommitFailsAfterAllResultsSucceeded(t *testing.T) {
	const u = "11111111-1111-4111-8111-111111111111"
	setup := func() database.Database {
		db := huntNewDB(t)
		// a state reached by committed transactions: uuid u in two tables
		huntMustCommit(t, db,
			ovsdb.Operation{Op: ovsdb.OperationInsert, Table: "Port", UUID: u, Row: ovsdb.Row{"name": "p"}},
		)
		huntMustCommit(t, db,
			ovsdb.Operation{Op: ovsdb.OperationInsert, Table: "Bridge", UUID: u, Row: ovsdb.Row{"name": "b"}},
		)
		return db
	}
	ops := func() []ovsdb.Operation {
		return []ovsdb.Operation{
			{Op: ovsdb.OperationDelete, Table: "Port", Where: []ovsdb.Condition{ovsdb.NewCondition("_uuid", ovsdb.ConditionEqual, ovsdb.UUID{GoUUID: u})}},
			// Bridge u exists: this is a duplicate uuid and must be refused
			{Op: ovsdb.OperationInsert, Table: "Bridge", UUID: u, Row: ovsdb.Row{"name": "z"}},
		}
	}

	partial := ""
	var firstRes []*ovsdb.OperationResult
	var firstErr error
	for attempt := 0; attempt < 40 && partial == ""; attempt++ {
		db := setup()
		before := huntSnapshot(t, db)
		res, upd := db.NewTransaction(huntDB).Transact(ops()...)
		if huntFailed(res) {
			// the library refused the transaction in its reply: fine
			require.Equal(t, before, huntSnapshot(t, db))
			return
		}
		// what server.Transact does when no result carries an error
		err := db.Commit(huntDB, uuid.New(), upd)
		if attempt == 0 {
			firstRes, firstErr = res, err
		}
		if err != nil {
			if after := huntSnapshot(t, db); after != before {
				partial = fmt.Sprintf("database before:\n%s\ndatabase after the failed commit:\n%s", before, after)
			}
		}
	}
	if firstErr != nil {
		t.Errorf("expected: the insert of Bridge %s is refused with an error result (a Bridge row with that uuid exists) and the database is left alone;\n"+
			"got: reply %s without any error, after which Commit fails with %q (the server has notified its monitors by then)",
			u, huntShow(firstRes), firstErr)
	}
	if partial != "" {
		t.Errorf("the failed commit was applied in part:\n%s", partial)
	}
}

// Finding 2. Unknown tables, unknown columns, invalid uuids and repeated
// uuid-names are detected for the whole transaction before the first
// operation runs (ovsdb.ExpandNamedUUIDs) and reported as the result of
// operation 0, whatever the position of the operation at fault. The reply
// does not hold "one result per operation up to and including the failing
// one": it says the first operation failed, which it did not.
func TestHuntErrorReportedAtWrongPosition(t *testing.T) {
	cases := []struct {
		name string
		bad  ovsdb.Operation
	}{
		{"unknown table", ovsdb.Operation{Op: ovsdb.OperationDelete, Table: "Nope"}},
		{"unknown column in row", ovsdb.Operation{Op: ovsdb.OperationInsert, Table: "Bridge", Row: ovsdb.Row{"nope": "x"}}},
		{"unknown column in where", ovsdb.Operation{Op: ovsdb.OperationSelect, Table: "Bridge",
			Where: []ovsdb.Condition{ovsdb.NewCondition("nope", ovsdb.ConditionEqual, "x")}}},
		{"invalid uuid", ovsdb.Operation{Op: ovsdb.OperationInsert, Table: "Bridge", UUID: "not-a-uuid", Row: ovsdb.Row{"name": "x"}}},
	}
	for _, c := range cases {
		t.Run(c.name, func(t *testing.T) {
			db := huntNewDB(t)
			huntMustCommit(t, db, ovsdb.Operation{Op: ovsdb.OperationInsert, Table: "Bridge", Row: ovsdb.Row{"name": "b0"}})
			good0 := ovsdb.Operation{Op: ovsdb.OperationSelect, Table: "Bridge"}
			good1 := ovsdb.Operation{Op: ovsdb.OperationInsert, Table: "Port", Row: ovsdb.Row{"name": "p0"}}

			// the two leading operations are fine on their own
			res, _ := db.NewTransaction(huntDB).Transact(good0, good1)
			require.False(t, huntFailed(res), huntShow(res))

			res, _ = db.NewTransaction(huntDB).Transact(good0, good1, c.bad)
			require.True(t, huntFailed(res), huntShow(res))
			if len(res) < 3 || res[0] == nil || res[0].Error != "" || res[1] == nil || res[1].Error != "" || res[2] == nil || res[2].Error == "" {
				t.Errorf("operation 2 of 3 is at fault (%s): expected a reply [result of select, result of insert, error];\ngot %s",
					c.name, huntShow(res))
			}
		})
	}
}

// Finding 3. A Transaction value keeps its scratch cache and its set of
// deleted rows from one Transact call to the next (the library itself calls
// Transact several times on one Transaction: server.initialRows, and the
// tests of this package). What a failed Transact inserted or deleted stays
// visible to the next Transact on the same Transaction.
func TestHuntFailedTransactLeaksIntoNextTransactOfSameTransaction(t *testing.T) {
	t.Skip("not kept: a Transaction value is used for one Transact; the weak-reference set-up is refused since repeated set elements are dropped")
	db := huntNewDB(t)
	huntMustCommit(t, db, ovsdb.Operation{Op: ovsdb.OperationInsert, Table: "Bridge", Row: ovsdb.Row{"name": "kept"}})
	before := huntSnapshot(t, db)

	txn := db.NewTransaction(huntDB)
	timeout := 0
	res, _ := txn.Transact(
		ovsdb.Operation{Op: ovsdb.OperationInsert, Table: "Bridge", Row: ovsdb.Row{"name": "ghost"}},
		ovsdb.Operation{Op: ovsdb.OperationDelete, Table: "Bridge", Where: []ovsdb.Condition{ovsdb.NewCondition("name", ovsdb.ConditionEqual, "kept")}},
		// fails: no Port is named nobody
		ovsdb.Operation{Op: ovsdb.OperationWait, Table: "Port", Timeout: &timeout, Until: "==", Columns: []string{"name"}, Rows: []ovsdb.Row{{"name": "nobody"}}},
	)
	require.True(t, huntFailed(res), huntShow(res))
	require.Equal(t, before, huntSnapshot(t, db))

	names := func(res []*ovsdb.OperationResult) []string {
		require.Len(t, res, 1)
		require.NotNil(t, res[0])
		require.Empty(t, res[0].Error)
		out := []string{}
		for _, row := range res[0].Rows {
			out = append(out, fmt.Sprint(row["name"]))
		}
		sort.Strings(out)
		return out
	}
	sel := ovsdb.Operation{Op: ovsdb.OperationSelect, Table: "Bridge"}
	res, _ = db.NewTransaction(huntDB).Transact(sel)
	require.Equal(t, []string{"kept"}, names(res), "a fresh transaction sees the database")

	res, _ = txn.Transact(sel)
	if got := names(res); fmt.Sprint(got) != fmt.Sprint([]string{"kept"}) {
		t.Errorf("after a failed Transact the next Transact must behave as if the failed one had never been submitted: "+
			"expected select Bridge to return [kept] (the contents of the database), got %v", got)
	}
}

// Finding 4. A transaction without operations makes Transact index an empty
// result slice when the database does not exist.
func TestHuntEmptyTransactionOnMissingDatabasePanics(t *testing.T) {
	db := huntNewDB(t)
	defer func() {
		if p := recover(); p != nil {
			t.Errorf("expected an (empty or error) reply for a transaction without operations, got a panic: %v", p)
		}
	}()
	res, _ := db.NewTransaction("nope").Transact()
	t.Logf("reply: %s", huntShow(res))
}

// Finding 5. Pruning a weak reference out of a column that must keep at least
// one element reads the column from a row built by Mapper.NewRow, which omits
// empty columns: the type assertion on the missing value panics, so the
// transaction gets no reply at all.
func TestHuntPruningWeakReferencePanics(t *testing.T) {
	t.Skip("not kept: a Transaction value is used for one Transact; the weak-reference set-up is refused since repeated set elements are dropped")
	db := huntNewDB(t)
	mirror := uuid.NewString()
	nobody := ovsdb.UUID{GoUUID: uuid.NewString()} // not a Port
	// committed state (the repeated element keeps the pruned set at one element)
	huntMustCommit(t, db,
		ovsdb.Operation{Op: ovsdb.OperationInsert, Table: "Mirror", UUID: mirror, Row: ovsdb.Row{"name": "m",
			"select_src_port": ovsdb.OvsSet{GoSet: []interface{}{nobody, nobody}}}},
		ovsdb.Operation{Op: ovsdb.OperationInsert, Table: "Bridge", Row: ovsdb.Row{"name": "b",
			"mirrors": ovsdb.OvsSet{GoSet: []interface{}{ovsdb.UUID{GoUUID: mirror}}}}},
	)
	before := huntSnapshot(t, db)
	defer func() {
		if p := recover(); p != nil {
			t.Errorf("expected a reply (one result, plus possibly a commit-time error) for update Mirror select_src_port=[], got a panic: %v\ndatabase:\n%s", p, before)
		}
	}()
	res, _ := db.NewTransaction(huntDB).Transact(
		ovsdb.Operation{Op: ovsdb.OperationUpdate, Table: "Mirror", Row: ovsdb.Row{"select_src_port": ovsdb.OvsSet{GoSet: []interface{}{}}}},
	)
	t.Logf("reply: %s", huntShow(res))
}
