package inmemory

import (
	"encoding/json"
	"fmt"
	"testing"

	"github.com/google/uuid"

	"github.com/ovn-org/libovsdb/database"
	"github.com/ovn-org/libovsdb/model"
	"github.com/ovn-org/libovsdb/ovsdb"
)

const huntSchema = `
{
  "name": "Hunt",
  "version": "0.0.1",
  "tables": {
    "T": {
      "columns": {
        "name": {"type": "string"},
        "i":    {"type": "integer"},
        "r":    {"type": "real"},
        "b":    {"type": "boolean"},
        "u":    {"type": "uuid"},
        "e":    {"type": {"key": {"type": "string", "enum": ["set", ["red", "green", "blue"]]}}},
        "oi":   {"type": {"key": "integer", "min": 0, "max": 1}},
        "os":   {"type": {"key": "string", "min": 0, "max": 1}},
        "si":   {"type": {"key": "integer", "min": 0, "max": "unlimited"}},
        "ss":   {"type": {"key": "string", "min": 0, "max": "unlimited"}},
        "sr":   {"type": {"key": "real", "min": 0, "max": "unlimited"}},
        "su":   {"type": {"key": "uuid", "min": 0, "max": "unlimited"}},
        "mss":  {"type": {"key": "string", "value": "string", "min": 0, "max": "unlimited"}},
        "msi":  {"type": {"key": "string", "value": "integer", "min": 0, "max": "unlimited"}},
        "mis":  {"type": {"key": "integer", "value": "string", "min": 0, "max": "unlimited"}},
        "imm":  {"type": "string", "mutable": false},
        "lim":  {"type": {"key": {"type": "integer", "minInteger": 0, "maxInteger": 10}}}
      }
    }
  }
}
`

type huntT struct {
	UUID string            `ovsdb:"_uuid"`
	Name string            `ovsdb:"name"`
	I    int               `ovsdb:"i"`
	R    float64           `ovsdb:"r"`
	B    bool              `ovsdb:"b"`
	U    string            `ovsdb:"u"`
	E    string            `ovsdb:"e"`
	OI   *int              `ovsdb:"oi"`
	OS   *string           `ovsdb:"os"`
	SI   []int             `ovsdb:"si"`
	SS   []string          `ovsdb:"ss"`
	SR   []float64         `ovsdb:"sr"`
	SU   []string          `ovsdb:"su"`
	MSS  map[string]string `ovsdb:"mss"`
	MSI  map[string]int    `ovsdb:"msi"`
	MIS  map[int]string    `ovsdb:"mis"`
	Imm  string            `ovsdb:"imm"`
	Lim  int               `ovsdb:"lim"`
}

func huntDB(t *testing.T, schemaJSON string, models map[string]model.Model, indexes ...map[string][]model.ClientIndex) (database.Database, model.DatabaseModel) {
	t.Helper()
	var schema ovsdb.DatabaseSchema
	if err := json.Unmarshal([]byte(schemaJSON), &schema); err != nil {
		t.Fatalf("schema: %v", err)
	}
	cm, err := model.NewClientDBModel(schema.Name, models)
	if err != nil {
		t.Fatalf("client model: %v", err)
	}
	for _, idx := range indexes {
		cm.SetIndexes(idx)
	}
	dbModel, errs := model.NewDatabaseModel(schema, cm)
	if len(errs) > 0 {
		t.Fatalf("db model: %v", errs)
	}
	db := NewDatabase(map[string]model.ClientDBModel{schema.Name: cm})
	if err := db.CreateDatabase(schema.Name, schema); err != nil {
		t.Fatalf("create db: %v", err)
	}
	return db, dbModel
}

func huntDefaultDB(t *testing.T) (database.Database, model.DatabaseModel) {
	return huntDB(t, huntSchema, map[string]model.Model{"T": &huntT{}})
}

// huntTransact runs the operations as one transaction and commits if every
// operation succeeded. It returns the results.
func huntTransact(t *testing.T, db database.Database, dbName string, ops ...ovsdb.Operation) []*ovsdb.OperationResult {
	t.Helper()
	tr := db.NewTransaction(dbName)
	res, upd := tr.Transact(ops...)
	for _, r := range res {
		if r != nil && r.Error != "" {
			return res
		}
	}
	if err := db.Commit(dbName, uuid.New(), upd); err != nil {
		t.Fatalf("commit: %v", err)
	}
	return res
}

func huntResStr(res []*ovsdb.OperationResult) string {
	s := ""
	for i, r := range res {
		if r == nil {
			s += fmt.Sprintf("[%d] <nil>\n", i)
			continue
		}
		s += fmt.Sprintf("[%d] count=%d uuid=%s err=%q details=%q rows=%v\n", i, r.Count, r.UUID.GoUUID, r.Error, r.Details, r.Rows)
	}
	return s
}

func huntNoErr(t *testing.T, res []*ovsdb.OperationResult) {
	t.Helper()
	for _, r := range res {
		if r != nil && r.Error != "" {
			t.Fatalf("unexpected error in set-up: %s", huntResStr(res))
		}
	}
}

func huntSet(vals ...interface{}) ovsdb.OvsSet {
	if vals == nil {
		vals = []interface{}{}
	}
	return ovsdb.OvsSet{GoSet: vals}
}

func huntMap(kv ...interface{}) ovsdb.OvsMap {
	m := map[interface{}]interface{}{}
	for i := 0; i < len(kv); i += 2 {
		m[kv[i]] = kv[i+1]
	}
	return ovsdb.OvsMap{GoMap: m}
}

func huntGet(t *testing.T, db database.Database, dbName, table, uuid string) model.Model {
	t.Helper()
	m, err := db.Get(dbName, table, uuid)
	if err != nil {
		t.Fatalf("get: %v", err)
	}
	return m
}

func huntWhereName(n string) []ovsdb.Condition {
	return []ovsdb.Condition{ovsdb.NewCondition("name", ovsdb.ConditionEqual, n)}
}
