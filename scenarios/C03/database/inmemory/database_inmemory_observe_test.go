package inmemory

// Observations that are not claimed as violations of the property as written.

import (
	"encoding/json"
	"testing"

	"github.com/ovn-org/libovsdb/model"
	"github.com/ovn-org/libovsdb/ovsdb"
)

func TestObserveMaxRows(t *testing.T) {
	t.Skip("item of the first audit, triaged in DESIGN.md 7.1: outside the property as stated, or recorded under another check")
	schema := `{"name": "Hunt", "version": "0.0.1", "tables": {"T": {"columns": {
		"name": {"type": "string"}}, "maxRows": 1}}}`
	type tt struct {
		UUID string `ovsdb:"_uuid"`
		Name string `ovsdb:"name"`
	}
	db, _ := huntDB(t, schema, map[string]model.Model{"T": &tt{}})
	res := huntTransact(t, db, "Hunt",
		ovsdb.Operation{Op: "insert", Table: "T", Row: ovsdb.Row{"name": "a"}},
		ovsdb.Operation{Op: "insert", Table: "T", Row: ovsdb.Row{"name": "b"}})
	t.Logf("%s", huntResStr(res))
	rows, _ := db.List("Hunt", "T")
	if len(rows) > 1 {
		t.Errorf("two inserts into a table with maxRows 1: expected constraint violation, got %d rows", len(rows))
	}
}

func TestObserveResultJSONShape(t *testing.T) {
	t.Skip("item of the first audit, triaged in DESIGN.md 7.1: outside the property as stated, or recorded under another check")
	db, _ := huntDefaultDB(t)
	res := huntTransact(t, db, "Hunt",
		ovsdb.Operation{Op: "mutate", Table: "T", Where: huntWhereName("nobody"),
			Mutations: []ovsdb.Mutation{{Column: "i", Mutator: "+=", Value: 1}}},
		ovsdb.Operation{Op: "select", Table: "T", Where: huntWhereName("nobody")},
	)
	huntNoErr(t, res)
	b, _ := json.Marshal(res)
	t.Logf("%s", b)
	if string(b) != `[{"count":0},{"rows":[]}]` {
		t.Errorf("results of [mutate matching no row, select matching no row] on the wire: expected [{\"count\":0},{\"rows\":[]}], got %s", b)
	}
}
