package inmemory

import (
	"encoding/json"
	"math"
	"testing"

	"github.com/google/uuid"

	"github.com/ovn-org/libovsdb/model"
	"github.com/ovn-org/libovsdb/ovsdb"
)

func TestHuntSelectColumns(t *testing.T) {
	db, _ := huntDefaultDB(t)
	u1 := uuid.NewString()
	res := huntTransact(t, db, "Hunt", ovsdb.Operation{Op: "insert", Table: "T", UUID: u1,
		Row: ovsdb.Row{"name": "a", "i": 0, "r": 1.5, "ss": huntSet("x")}})
	huntNoErr(t, res)
	res = huntTransact(t, db, "Hunt", ovsdb.Operation{Op: "select", Table: "T", Where: huntWhereName("a"), Columns: []string{"name", "i"}})
	huntNoErr(t, res)
	t.Logf("%s", huntResStr(res))
	if len(res[0].Rows) != 1 {
		t.Fatalf("expected 1 row")
	}
	row := res[0].Rows[0]
	if len(row) != 2 {
		t.Errorf("select with columns [name i]: expected a row with exactly the columns name and i, got %v", row)
	}
	if _, ok := row["i"]; !ok {
		t.Errorf("select with columns [name i]: expected column i (value 0) in the row, got %v", row)
	}
}

func TestHuntWaitNoColumns(t *testing.T) {
	db, _ := huntDefaultDB(t)
	u1 := uuid.NewString()
	res := huntTransact(t, db, "Hunt", ovsdb.Operation{Op: "insert", Table: "T", UUID: u1,
		Row: ovsdb.Row{"name": "a", "i": 5}})
	huntNoErr(t, res)
	zero := 0
	res = huntTransact(t, db, "Hunt", ovsdb.Operation{Op: "wait", Table: "T", Where: huntWhereName("a"), Timeout: &zero,
		Until: "==", Rows: []ovsdb.Row{{"name": "a", "i": 7}}})
	t.Logf("%s", huntResStr(res))
	if res[0].Error == "" {
		t.Errorf("wait until == [{name a, i 7}] without columns on a row with i=5: expected timed out, got success")
	}
}

func TestHuntIntOverflow(t *testing.T) {
	db, _ := huntDefaultDB(t)
	u1 := uuid.NewString()
	res := huntTransact(t, db, "Hunt", ovsdb.Operation{Op: "insert", Table: "T", UUID: u1,
		Row: ovsdb.Row{"name": "a", "i": 1 << 62, "r": 1e308}})
	huntNoErr(t, res)
	res = huntTransact(t, db, "Hunt", ovsdb.Operation{Op: "mutate", Table: "T", Where: huntWhereName("a"),
		Mutations: []ovsdb.Mutation{{Column: "i", Mutator: "*=", Value: 2}}})
	t.Logf("%s", huntResStr(res))
	m := huntGet(t, db, "Hunt", "T", u1).(*huntT)
	if res[0].Error == "" {
		t.Errorf("i=2^62 *= 2: expected range error, got success and i=%d", m.I)
	}
	res = huntTransact(t, db, "Hunt", ovsdb.Operation{Op: "mutate", Table: "T", Where: huntWhereName("a"),
		Mutations: []ovsdb.Mutation{{Column: "r", Mutator: "*=", Value: 10.0}}})
	t.Logf("%s", huntResStr(res))
	m = huntGet(t, db, "Hunt", "T", u1).(*huntT)
	if res[0].Error == "" {
		t.Errorf("r=1e308 *= 10: expected range error, got success and r=%v (inf %v)", m.R, math.IsInf(m.R, 0))
	}
}

func TestHuntMutateRangeConstraint(t *testing.T) {
	db, _ := huntDefaultDB(t)
	u1 := uuid.NewString()
	res := huntTransact(t, db, "Hunt", ovsdb.Operation{Op: "insert", Table: "T", UUID: u1,
		Row: ovsdb.Row{"name": "a", "lim": 8}})
	huntNoErr(t, res)
	res = huntTransact(t, db, "Hunt", ovsdb.Operation{Op: "mutate", Table: "T", Where: huntWhereName("a"),
		Mutations: []ovsdb.Mutation{{Column: "lim", Mutator: "+=", Value: 5}}})
	t.Logf("%s", huntResStr(res))
	m := huntGet(t, db, "Hunt", "T", u1).(*huntT)
	if res[0].Error == "" {
		t.Errorf("lim (0..10) = 8 += 5: expected constraint violation, got success and lim=%d", m.Lim)
	}
}

func TestHuntRealOverflowWipesRow(t *testing.T) {
	db, _ := huntDefaultDB(t)
	u1 := uuid.NewString()
	res := huntTransact(t, db, "Hunt", ovsdb.Operation{Op: "insert", Table: "T", UUID: u1,
		Row: ovsdb.Row{"name": "a", "i": 7, "r": 1e308, "ss": huntSet("x", "y")}})
	huntNoErr(t, res)
	res = huntTransact(t, db, "Hunt",
		ovsdb.Operation{Op: "mutate", Table: "T", Where: huntWhereName("a"),
			Mutations: []ovsdb.Mutation{{Column: "r", Mutator: "*=", Value: 10.0}}},
		ovsdb.Operation{Op: "select", Table: "T", Where: []ovsdb.Condition{}},
	)
	t.Logf("%s", huntResStr(res))
	m := huntGet(t, db, "Hunt", "T", u1).(*huntT)
	t.Logf("row after: %+v", *m)
	if res[0].Error == "" && (m.Name != "a" || m.I != 7) {
		t.Errorf("r=1e308 *= 10 accepted (expected range error) and the other columns of the row were lost: name=%q i=%d ss=%v, expected name=a i=7 ss=[x y]", m.Name, m.I, m.SS)
	}
}

func TestHuntIndexOnSetColumn(t *testing.T) {
	schema := `{"name": "Hunt", "version": "0.0.1", "tables": {"T": {"columns": {
		"name": {"type": "string"},
		"ss": {"type": {"key": "string", "min": 0, "max": "unlimited"}}},
		"indexes": [["ss"]]}}}`
	type tt struct {
		UUID string   `ovsdb:"_uuid"`
		Name string   `ovsdb:"name"`
		SS   []string `ovsdb:"ss"`
	}
	db, _ := huntDB(t, schema, map[string]model.Model{"T": &tt{}})
	defer func() {
		if r := recover(); r != nil {
			t.Errorf("insert into a table with an index on a set column: expected success, got panic: %v", r)
		}
	}()
	res := huntTransact(t, db, "Hunt", ovsdb.Operation{Op: "insert", Table: "T",
		Row: ovsdb.Row{"name": "a", "ss": huntSet("x", "y")}})
	t.Logf("%s", huntResStr(res))
	huntNoErr(t, res)
}

func TestHuntIndexedSetConditionOrder(t *testing.T) {
	schema := `{"name": "Hunt", "version": "0.0.1", "tables": {"T": {"columns": {
		"name": {"type": "string"},
		"ss": {"type": {"key": "string", "min": 0, "max": "unlimited"}},
		"m": {"type": {"key": "string", "value": "string", "min": 0, "max": "unlimited"}}},
		"indexes": [["name", "ss"]]}}}`
	type tt struct {
		UUID string            `ovsdb:"_uuid"`
		Name string            `ovsdb:"name"`
		SS   []string          `ovsdb:"ss"`
		M    map[string]string `ovsdb:"m"`
	}
	db, _ := huntDB(t, schema, map[string]model.Model{"T": &tt{}})
	res := huntTransact(t, db, "Hunt", ovsdb.Operation{Op: "insert", Table: "T",
		Row: ovsdb.Row{"name": "a", "ss": huntSet("x", "y")}})
	huntNoErr(t, res)
	for _, order := range [][]interface{}{{"x", "y"}, {"y", "x"}} {
		res = huntTransact(t, db, "Hunt", ovsdb.Operation{Op: "select", Table: "T", Where: []ovsdb.Condition{
			ovsdb.NewCondition("name", ovsdb.ConditionEqual, "a"),
			ovsdb.NewCondition("ss", ovsdb.ConditionEqual, huntSet(order...)),
		}})
		huntNoErr(t, res)
		if len(res[0].Rows) != 1 {
			t.Errorf("select where name == a and ss == %v on the row (a, [x y]): expected 1 row, got %d", order, len(res[0].Rows))
		}
	}
	// the same two values in another order are the same set: the index must reject it
	res = huntTransact(t, db, "Hunt", ovsdb.Operation{Op: "insert", Table: "T",
		Row: ovsdb.Row{"name": "a", "ss": huntSet("y", "x")}})
	t.Logf("%s", huntResStr(res))
	rows, _ := db.List("Hunt", "T")
	if len(rows) != 1 {
		t.Errorf("insert of (a, [y x]) next to (a, [x y]) with an index on (name, ss): expected constraint violation, got %d rows", len(rows))
	}
}

func TestHuntIndexedMapCondition(t *testing.T) {
	schema := `{"name": "Hunt", "version": "0.0.1", "tables": {"T": {"columns": {
		"name": {"type": "string"},
		"m": {"type": {"key": "string", "value": "string", "min": 0, "max": "unlimited"}}},
		"indexes": [["name", "m"]]}}}`
	type tt struct {
		UUID string            `ovsdb:"_uuid"`
		Name string            `ovsdb:"name"`
		M    map[string]string `ovsdb:"m"`
	}
	db, _ := huntDB(t, schema, map[string]model.Model{"T": &tt{}})
	kv := []interface{}{"k1", "v1", "k2", "v2", "k3", "v3", "k4", "v4", "k5", "v5", "k6", "v6"}
	res := huntTransact(t, db, "Hunt", ovsdb.Operation{Op: "insert", Table: "T",
		Row: ovsdb.Row{"name": "a", "m": huntMap(kv...)}})
	huntNoErr(t, res)
	misses := 0
	for i := 0; i < 50; i++ {
		res = huntTransact(t, db, "Hunt", ovsdb.Operation{Op: "select", Table: "T", Where: []ovsdb.Condition{
			ovsdb.NewCondition("name", ovsdb.ConditionEqual, "a"),
			ovsdb.NewCondition("m", ovsdb.ConditionEqual, huntMap(kv...)),
		}})
		huntNoErr(t, res)
		if len(res[0].Rows) != 1 {
			misses++
		}
	}
	if misses > 0 {
		t.Errorf("select where name == a and m == <the map of the row>, index on (name, m): expected 1 row every time, got 0 rows in %d of 50 attempts", misses)
	}
}

func TestHuntUpdateUUIDColumn(t *testing.T) {
	db, _ := huntDefaultDB(t)
	u1 := uuid.NewString()
	u2 := uuid.NewString()
	res := huntTransact(t, db, "Hunt", ovsdb.Operation{Op: "insert", Table: "T", UUID: u1,
		Row: ovsdb.Row{"name": "a", "i": 5}})
	huntNoErr(t, res)
	res = huntTransact(t, db, "Hunt",
		ovsdb.Operation{Op: "update", Table: "T", Where: huntWhereName("a"), Row: ovsdb.Row{"_uuid": ovsdb.UUID{GoUUID: u2}}},
		ovsdb.Operation{Op: "select", Table: "T", Where: []ovsdb.Condition{}},
	)
	t.Logf("%s", huntResStr(res))
	rows, _ := db.List("Hunt", "T")
	for k, v := range rows {
		t.Logf("stored under %s: %+v", k, v)
		if k != v.(*huntT).UUID || k != u1 {
			t.Errorf("update of _uuid: expected an error (the column is read-only) and the row to keep uuid %s; got results %s and a row stored under %s with _uuid %s", u1, huntResStr(res), k, v.(*huntT).UUID)
		}
	}
}

func TestHuntWaitUUIDColumn(t *testing.T) {
	db, _ := huntDefaultDB(t)
	u1 := uuid.NewString()
	res := huntTransact(t, db, "Hunt", ovsdb.Operation{Op: "insert", Table: "T", UUID: u1,
		Row: ovsdb.Row{"name": "a", "i": 5}})
	huntNoErr(t, res)
	zero := 0
	// the selected rows, projected on _uuid, are exactly [{_uuid: u1}]
	res = huntTransact(t, db, "Hunt", ovsdb.Operation{Op: "wait", Table: "T", Where: huntWhereName("a"), Timeout: &zero,
		Columns: []string{"_uuid"}, Until: "!=", Rows: []ovsdb.Row{{"_uuid": ovsdb.UUID{GoUUID: u1}}}})
	t.Logf("%s", huntResStr(res))
	if res[0].Error == "" {
		t.Errorf("wait until != [{_uuid %s}] on columns [_uuid] while the only selected row has that uuid: expected timed out, got success", u1)
	}
	res = huntTransact(t, db, "Hunt", ovsdb.Operation{Op: "wait", Table: "T", Where: huntWhereName("a"), Timeout: &zero,
		Columns: []string{"_uuid"}, Until: "==", Rows: []ovsdb.Row{{"_uuid": ovsdb.UUID{GoUUID: u1}}}})
	t.Logf("%s", huntResStr(res))
	if res[0].Error != "" {
		t.Errorf("wait until == [{_uuid %s}] on columns [_uuid] while the only selected row has that uuid: expected success, got %s", u1, res[0].Error)
	}
}

func TestHuntDanglingNamedUUID(t *testing.T) {
	t.Skip("item of the first audit, triaged in DESIGN.md 7.1: outside the property as stated, or recorded under another check")
	db, _ := huntDefaultDB(t)
	var ops []ovsdb.Operation
	if err := json.Unmarshal([]byte(`[{"op":"insert","table":"T","row":{"name":"a","u":["named-uuid","nope"]}},{"op":"select","table":"T","where":[]}]`), &ops); err != nil {
		t.Fatal(err)
	}
	res := huntTransact(t, db, "Hunt", ops...)
	b, _ := json.Marshal(res)
	t.Logf("%s", b)
	rows, _ := db.List("Hunt", "T")
	for _, r := range rows {
		if u := r.(*huntT).U; u == "nope" {
			t.Errorf("insert with u = [named-uuid nope] and no insert named nope: expected an error, got a row whose uuid column holds %q", u)
		}
	}
}
