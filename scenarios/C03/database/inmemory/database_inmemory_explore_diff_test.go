package inmemory

// Differential test: random transactions against an independently written
// reference model of RFC 7047 5.1-5.2.

import (
	"encoding/json"
	"fmt"
	"math/rand"
	"os"
	"reflect"
	"sort"
	"strconv"
	"strings"
	"testing"

	"github.com/google/uuid"

	"github.com/ovn-org/libovsdb/database"
	"github.com/ovn-org/libovsdb/model"
	"github.com/ovn-org/libovsdb/ovsdb"
)

type rkind int

const (
	kAtom rkind = iota
	kOpt
	kSet
	kMap
)

type rcol struct {
	name    string
	kind    rkind
	key     string // integer real boolean string uuid enum
	val     string
	mutable bool
}

var rcols = rcols1

var rcols2 = []rcol{
	{"name", kAtom, "string", "", true},
	{"sb", kSet, "boolean", "", true},
	{"s13", kSet, "integer", "", true},
	{"ob", kOpt, "boolean", "", true},
	{"or", kOpt, "real", "", true},
	{"ou", kOpt, "uuid", "", true},
	{"ei", kAtom, "ienum", "", true},
	{"se", kSet, "enum", "", true},
	{"muu", kMap, "uuid", "uuid", true},
	{"mir", kMap, "integer", "real", true},
	{"msb", kMap, "string", "boolean", true},
	{"om", kMap, "string", "string", true},
	{"immset", kSet, "string", "", false},
	{"immmap", kMap, "string", "integer", false},
	{"immopt", kOpt, "string", "", false},
}

const huntSchema2 = `
{
  "name": "Hunt",
  "version": "0.0.1",
  "tables": {
    "T": {
      "columns": {
        "name": {"type": "string"},
        "sb":   {"type": {"key": "boolean", "min": 0, "max": "unlimited"}},
        "s13":  {"type": {"key": "integer", "min": 0, "max": 3}},
        "ob":   {"type": {"key": "boolean", "min": 0, "max": 1}},
        "or":   {"type": {"key": "real", "min": 0, "max": 1}},
        "ou":   {"type": {"key": "uuid", "min": 0, "max": 1}},
        "ei":   {"type": {"key": {"type": "integer", "enum": ["set", [0, 1, 2, 3]]}}},
        "se":   {"type": {"key": {"type": "string", "enum": ["set", ["red", "green", "blue"]]}, "min": 0, "max": "unlimited"}},
        "muu":  {"type": {"key": "uuid", "value": "uuid", "min": 0, "max": "unlimited"}},
        "mir":  {"type": {"key": "integer", "value": "real", "min": 0, "max": "unlimited"}},
        "msb":  {"type": {"key": "string", "value": "boolean", "min": 0, "max": "unlimited"}},
        "om":   {"type": {"key": "string", "value": "string", "min": 0, "max": "unlimited"}},
        "immset": {"type": {"key": "string", "min": 0, "max": "unlimited"}, "mutable": false},
        "immmap": {"type": {"key": "string", "value": "integer", "min": 0, "max": "unlimited"}, "mutable": false},
        "immopt": {"type": {"key": "string", "min": 0, "max": 1}, "mutable": false}
      }
    }
  }
}
`

type huntT2 struct {
	UUID   string            `ovsdb:"_uuid"`
	Name   string            `ovsdb:"name"`
	SB     []bool            `ovsdb:"sb"`
	S13    []int             `ovsdb:"s13"`
	OB     *bool             `ovsdb:"ob"`
	OR     *float64          `ovsdb:"or"`
	OU     *string           `ovsdb:"ou"`
	EI     int               `ovsdb:"ei"`
	SE     []string          `ovsdb:"se"`
	MUU    map[string]string `ovsdb:"muu"`
	MIR    map[int]float64   `ovsdb:"mir"`
	MSB    map[string]bool   `ovsdb:"msb"`
	OM     map[string]string `ovsdb:"om"`
	ImmSet []string          `ovsdb:"immset"`
	ImmMap map[string]int    `ovsdb:"immmap"`
	ImmOpt *string           `ovsdb:"immopt"`
}

var rcols1 = []rcol{
	{"name", kAtom, "string", "", true},
	{"i", kAtom, "integer", "", true},
	{"r", kAtom, "real", "", true},
	{"b", kAtom, "boolean", "", true},
	{"u", kAtom, "uuid", "", true},
	{"e", kAtom, "enum", "", true},
	{"oi", kOpt, "integer", "", true},
	{"os", kOpt, "string", "", true},
	{"si", kSet, "integer", "", true},
	{"ss", kSet, "string", "", true},
	{"sr", kSet, "real", "", true},
	{"su", kSet, "uuid", "", true},
	{"mss", kMap, "string", "string", true},
	{"msi", kMap, "string", "integer", true},
	{"mis", kMap, "integer", "string", true},
	{"imm", kAtom, "string", "", false},
}

func rcolByName(n string) *rcol {
	for i := range rcols {
		if rcols[i].name == n {
			return &rcols[i]
		}
	}
	if n == "_uuid" {
		return &rcol{"_uuid", kAtom, "uuid", "", false}
	}
	return nil
}

// reference values: atoms are int, float64, bool, string (uuids are strings,
// named uuids are "@name"); sets and optionals are rset; maps are rmap
type rset []interface{}
type rmap map[interface{}]interface{}
type rrow map[string]interface{}

func rdefaultAtom(t string) interface{} {
	switch t {
	case "integer", "ienum":
		return 0
	case "real":
		return 0.0
	case "boolean":
		return false
	case "uuid":
		return "00000000-0000-0000-0000-000000000000"
	default:
		return ""
	}
}

func rdefault(c *rcol) interface{} {
	switch c.kind {
	case kAtom:
		return rdefaultAtom(c.key)
	case kOpt, kSet:
		return rset{}
	default:
		return rmap{}
	}
}

func rcanon(v interface{}) string {
	switch x := v.(type) {
	case rset:
		s := make([]string, 0, len(x))
		for _, e := range x {
			s = append(s, rcanon(e))
		}
		sort.Strings(s)
		return "{" + strings.Join(s, ",") + "}"
	case rmap:
		s := make([]string, 0, len(x))
		for k, e := range x {
			s = append(s, rcanon(k)+"="+rcanon(e))
		}
		sort.Strings(s)
		return "<" + strings.Join(s, ",") + ">"
	case float64:
		if x == 0 {
			x = 0 // -0 and 0 are the same real
		}
		return "f" + strconv.FormatFloat(x, 'g', -1, 64)
	case int:
		return "i" + strconv.Itoa(x)
	case bool:
		return fmt.Sprintf("b%v", x)
	case string:
		return strconv.Quote(x)
	}
	panic(fmt.Sprintf("rcanon %T", v))
}

func rrowCanon(r rrow) string {
	s := []string{}
	for _, c := range rcols {
		v, ok := r[c.name]
		if !ok {
			v = rdefault(&c)
		}
		s = append(s, c.name+":"+rcanon(v))
	}
	return strings.Join(s, " ")
}

func rcopy(v interface{}) interface{} {
	switch x := v.(type) {
	case rset:
		n := make(rset, len(x))
		copy(n, x)
		return n
	case rmap:
		n := rmap{}
		for k, e := range x {
			n[k] = e
		}
		return n
	}
	return v
}

func rrowCopy(r rrow) rrow {
	n := rrow{}
	for k, v := range r {
		n[k] = rcopy(v)
	}
	return n
}

func rsetHas(s rset, e interface{}) bool {
	for _, x := range s {
		if x == e {
			return true
		}
	}
	return false
}

// value as a set (atoms given for a set column are singleton sets)
func rasSet(v interface{}) rset {
	if s, ok := v.(rset); ok {
		return s
	}
	return rset{v}
}

// --- reference operations (on unresolved named uuids already resolved) ---

type rcond struct {
	col string
	fn  string
	val interface{}
}

type rmut struct {
	col string
	mut string
	val interface{}
}

type rop struct {
	op       string
	uuidName string
	row      rrow
	where    []rcond
	muts     []rmut
	columns  []string
	until    string
	rows     []rrow
}

type rresult struct {
	err   string
	uuid  string
	count int
	rows  []string // canonical rows, sorted
}

func revalCond(c *rcol, fn string, have, want interface{}) (bool, error) {
	switch c.kind {
	case kAtom:
		switch fn {
		case "==", "includes":
			return have == want, nil
		case "!=", "excludes":
			return have != want, nil
		}
		if c.key != "integer" && c.key != "real" {
			return false, fmt.Errorf("bad function")
		}
		var cmp int
		if c.key == "integer" {
			a, b := have.(int), want.(int)
			switch {
			case a < b:
				cmp = -1
			case a > b:
				cmp = 1
			}
		} else {
			a, b := have.(float64), want.(float64)
			switch {
			case a < b:
				cmp = -1
			case a > b:
				cmp = 1
			}
		}
		switch fn {
		case "<":
			return cmp < 0, nil
		case "<=":
			return cmp <= 0, nil
		case ">":
			return cmp > 0, nil
		case ">=":
			return cmp >= 0, nil
		}
		return false, fmt.Errorf("bad function")
	case kOpt, kSet:
		h, w := have.(rset), rasSet(want)
		switch fn {
		case "==":
			return rcanon(h) == rcanon(w), nil
		case "!=":
			return rcanon(h) != rcanon(w), nil
		case "includes":
			for _, e := range w {
				if !rsetHas(h, e) {
					return false, nil
				}
			}
			return true, nil
		case "excludes":
			for _, e := range w {
				if rsetHas(h, e) {
					return false, nil
				}
			}
			return true, nil
		}
		return false, fmt.Errorf("bad function")
	default:
		h, w := have.(rmap), want.(rmap)
		switch fn {
		case "==":
			return rcanon(h) == rcanon(w), nil
		case "!=":
			return rcanon(h) != rcanon(w), nil
		case "includes":
			for k, v := range w {
				if hv, ok := h[k]; !ok || hv != v {
					return false, nil
				}
			}
			return true, nil
		case "excludes":
			for k, v := range w {
				if hv, ok := h[k]; ok && hv == v {
					return false, nil
				}
			}
			return true, nil
		}
		return false, fmt.Errorf("bad function")
	}
}

type rdb map[string]rrow // uuid -> row

func (d rdb) copy() rdb {
	n := rdb{}
	for k, v := range d {
		n[k] = rrowCopy(v)
	}
	return n
}

func (d rdb) match(where []rcond) ([]string, error) {
	var out []string
	for u, row := range d {
		ok := true
		for _, c := range where {
			col := rcolByName(c.col)
			var have interface{}
			if c.col == "_uuid" {
				have = u
			} else {
				have = rget(row, col)
			}
			m, err := revalCond(col, c.fn, have, c.val)
			if err != nil {
				return nil, err
			}
			if !m {
				ok = false
				break
			}
		}
		if ok {
			out = append(out, u)
		}
	}
	sort.Strings(out)
	return out, nil
}

func rget(row rrow, c *rcol) interface{} {
	if v, ok := row[c.name]; ok {
		return v
	}
	return rdefault(c)
}

func rnormalize(c *rcol, v interface{}) interface{} {
	if c.kind == kOpt || c.kind == kSet {
		return rcopy(rasSet(v))
	}
	return rcopy(v)
}

func rmutate(c *rcol, cur interface{}, mut string, val interface{}) (interface{}, error) {
	if !c.mutable {
		return nil, fmt.Errorf("constraint violation")
	}
	switch c.kind {
	case kAtom:
		switch c.key {
		case "integer":
			a, b := cur.(int), val.(int)
			switch mut {
			case "+=":
				return a + b, nil
			case "-=":
				return a - b, nil
			case "*=":
				return a * b, nil
			case "/=":
				if b == 0 {
					return nil, fmt.Errorf("domain error")
				}
				return a / b, nil
			case "%=":
				if b == 0 {
					return nil, fmt.Errorf("domain error")
				}
				return a % b, nil
			}
		case "real":
			a, b := cur.(float64), val.(float64)
			switch mut {
			case "+=":
				return a + b, nil
			case "-=":
				return a - b, nil
			case "*=":
				return a * b, nil
			case "/=":
				if b == 0 {
					return nil, fmt.Errorf("domain error")
				}
				return a / b, nil
			}
		}
		return nil, fmt.Errorf("bad mutator")
	case kSet:
		h := rcopy(cur).(rset)
		switch mut {
		case "insert":
			for _, e := range rasSet(val) {
				if !rsetHas(h, e) {
					h = append(h, e)
				}
			}
			return h, nil
		case "delete":
			w := rasSet(val)
			n := rset{}
			for _, e := range h {
				if !rsetHas(w, e) {
					n = append(n, e)
				}
			}
			return n, nil
		}
		return nil, fmt.Errorf("bad mutator")
	case kMap:
		h := rcopy(cur).(rmap)
		switch mut {
		case "insert":
			for k, v := range val.(rmap) {
				if _, ok := h[k]; !ok {
					h[k] = v
				}
			}
			return h, nil
		case "delete":
			if w, ok := val.(rmap); ok {
				for k, v := range w {
					if hv, ok := h[k]; ok && hv == v {
						delete(h, k)
					}
				}
				return h, nil
			}
			for _, k := range rasSet(val) {
				delete(h, k)
			}
			return h, nil
		}
		return nil, fmt.Errorf("bad mutator")
	}
	return nil, fmt.Errorf("unsupported")
}

// rexec executes the operations on a copy of the database; uuids gives the
// uuid to use for each insert operation (by index).
func rexec(d rdb, ops []rop, uuids map[int]string) (rdb, []rresult, bool) {
	d = d.copy()
	results := []rresult{}
	for i, op := range ops {
		var res rresult
		switch op.op {
		case "insert":
			row := rrow{}
			for k, v := range op.row {
				row[k] = rnormalize(rcolByName(k), v)
			}
			d[uuids[i]] = row
			res.uuid = uuids[i]
		case "select":
			m, err := d.match(op.where)
			if err != nil {
				res.err = err.Error()
				break
			}
			for _, u := range m {
				res.rows = append(res.rows, u+" "+rrowCanon(d[u]))
			}
		case "update":
			m, err := d.match(op.where)
			if err != nil {
				res.err = err.Error()
				break
			}
			for _, u := range m {
				for k, v := range op.row {
					c := rcolByName(k)
					nv := rnormalize(c, v)
					if !c.mutable && rcanon(nv) != rcanon(rget(d[u], c)) {
						res.err = "constraint violation"
					}
					d[u][k] = nv
				}
			}
			res.count = len(m)
		case "mutate":
			m, err := d.match(op.where)
			if err != nil {
				res.err = err.Error()
				break
			}
			for _, u := range m {
				for _, mu := range op.muts {
					c := rcolByName(mu.col)
					nv, err := rmutate(c, rget(d[u], c), mu.mut, mu.val)
					if err != nil {
						res.err = err.Error()
						break
					}
					d[u][mu.col] = nv
				}
			}
			res.count = len(m)
		case "delete":
			m, err := d.match(op.where)
			if err != nil {
				res.err = err.Error()
				break
			}
			for _, u := range m {
				delete(d, u)
			}
			res.count = len(m)
		case "wait":
			m, err := d.match(op.where)
			if err != nil {
				res.err = err.Error()
				break
			}
			proj := func(r rrow) string {
				s := []string{}
				for _, cn := range op.columns {
					c := rcolByName(cn)
					s = append(s, cn+":"+rcanon(rget(r, c)))
				}
				return strings.Join(s, " ")
			}
			have := map[string]bool{}
			for _, u := range m {
				have[proj(d[u])] = true
			}
			want := map[string]bool{}
			for _, r := range op.rows {
				n := rrow{}
				for k, v := range r {
					n[k] = rnormalize(rcolByName(k), v)
				}
				want[proj(n)] = true
			}
			equal := reflect.DeepEqual(have, want)
			if (op.until == "==") != equal {
				res.err = "timed out"
			}
		}
		results = append(results, res)
		if res.err != "" {
			return nil, results, false
		}
	}
	return d, results, true
}

// --- conversion to the library's notation ---

func toOvsAtom(t string, v interface{}, resolve func(string) string, lib bool) interface{} {
	if t == "uuid" {
		s := v.(string)
		if strings.HasPrefix(s, "@") {
			if lib {
				return ovsdb.UUID{GoUUID: s[1:]}
			}
			return resolve(s[1:])
		}
		if lib {
			return ovsdb.UUID{GoUUID: s}
		}
		return s
	}
	return v
}

// convert a reference value holding "@name" uuids into either the library's
// notation (lib) or a resolved reference value
func rconv(c *rcol, v interface{}, resolve func(string) string, lib bool) interface{} {
	switch x := v.(type) {
	case rset:
		out := make([]interface{}, 0, len(x))
		for _, e := range x {
			out = append(out, toOvsAtom(c.key, e, resolve, lib))
		}
		if lib {
			return ovsdb.OvsSet{GoSet: out}
		}
		return rset(out)
	case rmap:
		out := map[interface{}]interface{}{}
		for k, e := range x {
			out[toOvsAtom(c.key, k, resolve, lib)] = toOvsAtom(c.val, e, resolve, lib)
		}
		if lib {
			return ovsdb.OvsMap{GoMap: out}
		}
		return rmap(out)
	}
	return toOvsAtom(c.key, v, resolve, lib)
}

func rconvRow(r rrow, resolve func(string) string, lib bool) map[string]interface{} {
	out := map[string]interface{}{}
	for k, v := range r {
		out[k] = rconv(rcolByName(k), v, resolve, lib)
	}
	return out
}

func ropToLib(op rop) ovsdb.Operation {
	o := ovsdb.Operation{Op: op.op, Table: "T"}
	switch op.op {
	case "insert":
		o.UUIDName = op.uuidName
		o.Row = ovsdb.Row(rconvRow(op.row, nil, true))
	case "update":
		o.Row = ovsdb.Row(rconvRow(op.row, nil, true))
	case "wait":
		zero := 0
		o.Timeout = &zero
		o.Columns = append([]string{}, op.columns...)
		o.Until = op.until
		for _, r := range op.rows {
			o.Rows = append(o.Rows, ovsdb.Row(rconvRow(r, nil, true)))
		}
	}
	if op.op != "insert" {
		o.Where = []ovsdb.Condition{}
		for _, c := range op.where {
			o.Where = append(o.Where, ovsdb.NewCondition(c.col, ovsdb.ConditionFunction(c.fn), rconv(rcolByName(c.col), c.val, nil, true)))
		}
	}
	for _, m := range op.muts {
		o.Mutations = append(o.Mutations, *ovsdb.NewMutation(m.col, ovsdb.Mutator(m.mut), rconv(rcolByName(m.col), m.val, nil, true)))
	}
	return o
}

func ropResolve(op rop, resolve func(string) string) rop {
	n := op
	if op.row != nil {
		n.row = rrow(rconvRow(op.row, resolve, false))
	}
	n.where = nil
	for _, c := range op.where {
		n.where = append(n.where, rcond{c.col, c.fn, rconv(rcolByName(c.col), c.val, resolve, false)})
	}
	n.muts = nil
	for _, m := range op.muts {
		n.muts = append(n.muts, rmut{m.col, m.mut, rconv(rcolByName(m.col), m.val, resolve, false)})
	}
	n.rows = nil
	for _, r := range op.rows {
		n.rows = append(n.rows, rrow(rconvRow(r, resolve, false)))
	}
	return n
}

// --- library model -> reference row ---

func rfromNative(v reflect.Value) interface{} {
	switch v.Kind() {
	case reflect.Ptr:
		if v.IsNil() {
			return rset{}
		}
		return rset{v.Elem().Interface()}
	case reflect.Slice:
		s := rset{}
		for i := 0; i < v.Len(); i++ {
			s = append(s, v.Index(i).Interface())
		}
		return s
	case reflect.Map:
		m := rmap{}
		for it := v.MapRange(); it.Next(); {
			m[it.Key().Interface()] = it.Value().Interface()
		}
		return m
	}
	return v.Interface()
}

func rfromModel(m model.Model) (string, rrow) {
	v := reflect.ValueOf(m).Elem()
	t := v.Type()
	row := rrow{}
	uuid := ""
	for i := 0; i < t.NumField(); i++ {
		cn := t.Field(i).Tag.Get("ovsdb")
		if cn == "_uuid" {
			uuid = v.Field(i).String()
			continue
		}
		c := rcolByName(cn)
		if c == nil {
			continue
		}
		val := rfromNative(v.Field(i))
		if c.key == "uuid" && c.kind == kAtom && val == "" {
			val = rdefaultAtom("uuid")
		}
		row[cn] = val
	}
	return uuid, row
}

// result row in OVS notation -> canonical
func rfromOvsRow(r ovsdb.Row) string {
	row := rrow{}
	u := ""
	for k, v := range r {
		if k == "_uuid" {
			u = v.(ovsdb.UUID).GoUUID
			continue
		}
		c := rcolByName(k)
		if c == nil {
			continue
		}
		row[k] = rfromOvs(c, v)
	}
	return u + " " + rrowCanon(row)
}

func rfromOvsAtom(t string, v interface{}) interface{} {
	if u, ok := v.(ovsdb.UUID); ok {
		return u.GoUUID
	}
	if f, ok := v.(float64); ok && (t == "integer" || t == "ienum") {
		return int(f)
	}
	return v
}

func rfromOvs(c *rcol, v interface{}) interface{} {
	switch x := v.(type) {
	case ovsdb.OvsSet:
		s := rset{}
		for _, e := range x.GoSet {
			s = append(s, rfromOvsAtom(c.key, e))
		}
		return s
	case ovsdb.OvsMap:
		m := rmap{}
		for k, e := range x.GoMap {
			m[rfromOvsAtom(c.key, k)] = rfromOvsAtom(c.val, e)
		}
		return m
	}
	a := rfromOvsAtom(c.key, v)
	if c.kind == kOpt || c.kind == kSet {
		return rset{a}
	}
	return a
}

// --- generator ---

type rgen struct {
	rnd   *rand.Rand
	uuids []string // pool of uuid values
	names []string // named uuids of this transaction
}

func (g *rgen) atom(t string) interface{} {
	switch t {
	case "integer":
		return g.rnd.Intn(6) - 2
	case "real":
		return []float64{-1.5, 0, 0.5, 2}[g.rnd.Intn(4)]
	case "boolean":
		return g.rnd.Intn(2) == 0
	case "uuid":
		if len(g.names) > 0 && g.rnd.Intn(3) == 0 {
			return "@" + g.names[g.rnd.Intn(len(g.names))]
		}
		return g.uuids[g.rnd.Intn(len(g.uuids))]
	case "enum":
		return []string{"red", "green", "blue"}[g.rnd.Intn(3)]
	case "ienum":
		return g.rnd.Intn(4)
	default:
		return []string{"", "a", "b", "c"}[g.rnd.Intn(4)]
	}
}

func (g *rgen) set(t string, max int) rset {
	s := rset{}
	n := g.rnd.Intn(max + 1)
	for i := 0; i < n; i++ {
		a := g.atom(t)
		if !rsetHas(s, a) {
			s = append(s, a)
		}
	}
	return s
}

func (g *rgen) value(c *rcol, allowAtomForSet bool) interface{} {
	switch c.kind {
	case kAtom:
		return g.atom(c.key)
	case kOpt:
		if allowAtomForSet && g.rnd.Intn(3) == 0 {
			return g.atom(c.key)
		}
		return g.set(c.key, 1)
	case kSet:
		if allowAtomForSet && g.rnd.Intn(4) == 0 {
			return g.atom(c.key)
		}
		return g.set(c.key, 3)
	default:
		m := rmap{}
		n := g.rnd.Intn(4)
		for i := 0; i < n; i++ {
			m[g.atom(c.key)] = g.atom(c.val)
		}
		return m
	}
}

func (g *rgen) row(includeImm bool, p int) rrow {
	r := rrow{}
	for i := range rcols {
		c := &rcols[i]
		if !c.mutable && !includeImm {
			continue
		}
		if g.rnd.Intn(100) < p {
			r[c.name] = g.value(c, true)
		}
	}
	return r
}

func (g *rgen) where() []rcond {
	n := g.rnd.Intn(3)
	if g.rnd.Intn(4) == 0 {
		n = 0
	}
	out := []rcond{}
	for i := 0; i < n; i++ {
		if g.rnd.Intn(8) == 0 {
			fns := []string{"==", "!=", "includes", "excludes"}
			out = append(out, rcond{"_uuid", fns[g.rnd.Intn(4)], g.atom("uuid")})
			continue
		}
		c := &rcols[g.rnd.Intn(len(rcols))]
		fns := []string{"==", "!=", "includes", "excludes"}
		if c.kind == kAtom && (c.key == "integer" || c.key == "real") {
			fns = append(fns, "<", "<=", ">", ">=")
		}
		out = append(out, rcond{c.name, fns[g.rnd.Intn(len(fns))], g.value(c, true)})
	}
	return out
}

func (g *rgen) mutations() []rmut {
	n := 1 + g.rnd.Intn(3)
	out := []rmut{}
	for len(out) < n {
		c := &rcols[g.rnd.Intn(len(rcols))]
		switch {
		case c.kind == kAtom && c.key == "integer":
			m := []string{"+=", "-=", "*=", "/=", "%="}[g.rnd.Intn(5)]
			out = append(out, rmut{c.name, m, g.atom("integer")})
		case c.kind == kAtom && c.key == "real":
			m := []string{"+=", "-=", "*=", "/="}[g.rnd.Intn(4)]
			out = append(out, rmut{c.name, m, g.atom("real")})
		case c.kind == kSet:
			m := []string{"insert", "delete"}[g.rnd.Intn(2)]
			out = append(out, rmut{c.name, m, g.value(c, true)})
		case c.kind == kMap:
			if g.rnd.Intn(2) == 0 {
				out = append(out, rmut{c.name, "insert", g.value(c, false)})
			} else if g.rnd.Intn(2) == 0 {
				out = append(out, rmut{c.name, "delete", g.value(c, false)})
			} else if g.rnd.Intn(3) == 0 {
				out = append(out, rmut{c.name, "delete", g.atom(c.key)})
			} else {
				out = append(out, rmut{c.name, "delete", g.set(c.key, 3)})
			}
		}
	}
	return out
}

func (g *rgen) op(d rdb) rop {
	switch k := g.rnd.Intn(12); {
	case k < 3:
		name := fmt.Sprintf("n%d", len(g.names))
		g.names = append(g.names, name)
		return rop{op: "insert", uuidName: name, row: g.row(true, 35)}
	case k < 4:
		return rop{op: "select", where: g.where()}
	case k < 6:
		return rop{op: "update", where: g.where(), row: g.row(g.rnd.Intn(10) == 0, 20)}
	case k < 9:
		return rop{op: "mutate", where: g.where(), muts: g.mutations()}
	case k < 10:
		return rop{op: "delete", where: g.where()}
	default:
		op := rop{op: "wait", where: g.where(), until: []string{"==", "!="}[g.rnd.Intn(2)]}
		perm := g.rnd.Perm(len(rcols))
		nc := 1 + g.rnd.Intn(3)
		for _, i := range perm[:nc] {
			if rcols[i].name == "u" {
				// known: the default of a uuid column is not the zero uuid
				continue
			}
			op.columns = append(op.columns, rcols[i].name)
		}
		if len(op.columns) == 0 {
			op.columns = []string{"name"}
		}
		// expected rows: either taken from the database or random
		keys := []string{}
		for u := range d {
			keys = append(keys, rrowCanon(d[u])+u)
		}
		sort.Strings(keys)
		for _, k := range keys {
			row := d[k[len(k)-36:]]
			if g.rnd.Intn(2) == 0 {
				r := rrow{}
				for _, cn := range op.columns {
					r[cn] = rcopy(rget(row, rcolByName(cn)))
				}
				op.rows = append(op.rows, r)
			}
		}
		if g.rnd.Intn(3) == 0 {
			r := rrow{}
			for _, cn := range op.columns {
				r[cn] = g.value(rcolByName(cn), true)
			}
			op.rows = append(op.rows, r)
		}
		return op
	}
}

func ropString(op rop) string {
	s := op.op
	if op.uuidName != "" {
		s += " name=" + op.uuidName
	}
	if op.row != nil {
		s += fmt.Sprintf(" row=%v", op.row)
	}
	if op.op != "insert" {
		s += fmt.Sprintf(" where=%v", op.where)
	}
	if op.muts != nil {
		s += fmt.Sprintf(" mutations=%v", op.muts)
	}
	if op.op == "wait" {
		s += fmt.Sprintf(" columns=%v until=%s rows=%v", op.columns, op.until, op.rows)
	}
	return s
}

func TestExploreDifferential(t *testing.T) {
	seeds := 300
	if s := os.Getenv("HUNT_SEEDS"); s != "" {
		seeds, _ = strconv.Atoi(s)
	}
	if s := os.Getenv("HUNT_VARIANT"); s != "" {
		huntVariant, _ = strconv.Atoi(s)
	}
	first := 0
	if s := os.Getenv("HUNT_FIRST"); s != "" {
		first, _ = strconv.Atoi(s)
	}
	failures := 0
	for seed := first; seed < first+seeds && failures < 5; seed++ {
		if !huntDiffOne(t, int64(seed)) {
			failures++
		}
	}
	t.Logf("accepted %d rejected %d (index %d)", huntAccepted, huntRejected, huntIndexRejected)
}

var huntVariant = 0
var huntAccepted, huntRejected, huntIndexRejected int

var huntSchemaIndexes = [][]string{{"name"}, {"i", "os"}}

func rindexCheck(d rdb) bool {
	for _, idx := range huntSchemaIndexes {
		seen := map[string]bool{}
		for _, row := range d {
			k := ""
			for _, cn := range idx {
				k += rcanon(rget(row, rcolByName(cn))) + "|"
			}
			if seen[k] {
				return false
			}
			seen[k] = true
		}
	}
	return true
}

func huntDiffOne(t *testing.T, seed int64) (ok bool) {
	var db database.Database
	rcols = rcols1
	if huntVariant == 0 {
		db, _ = huntDefaultDB(t)
	} else if huntVariant == 2 {
		rcols = rcols2
		db, _ = huntDB(t, huntSchema2, map[string]model.Model{"T": &huntT2{}})
	} else {
		schema := strings.Replace(huntSchema, `"T": {`, `"T": { "indexes": [["name"], ["i", "os"]],`, 1)
		db, _ = huntDB(t, schema, map[string]model.Model{"T": &huntT{}}, map[string][]model.ClientIndex{
			"T": {
				{Columns: []model.ColumnKey{{Column: "e"}}},
				{Columns: []model.ColumnKey{{Column: "mss", Key: "a"}}},
				{Columns: []model.ColumnKey{{Column: "oi"}}},
				{Columns: []model.ColumnKey{{Column: "r"}, {Column: "b"}}},
				{Columns: []model.ColumnKey{{Column: "msi", Key: "b"}, {Column: "msi", Key: "c"}}},
			},
		})
	}
	g := &rgen{rnd: rand.New(rand.NewSource(seed))}
	for i := 0; i < 3; i++ {
		g.uuids = append(g.uuids, uuid.NewSHA1(uuid.Nil, []byte(fmt.Sprintf("%d-%d", seed, i))).String())
	}
	ref := rdb{}
	history := []string{}
	defer func() {
		if r := recover(); r != nil {
			t.Errorf("seed %d: panic %v\nhistory:\n%s", seed, r, strings.Join(history, "\n"))
			ok = false
		}
	}()
	for txn := 0; txn < 6; txn++ {
		g.names = nil
		nops := 1 + g.rnd.Intn(5)
		ops := []rop{}
		for i := 0; i < nops; i++ {
			ops = append(ops, g.op(ref))
		}
		history = append(history, fmt.Sprintf("--- transaction %d", txn))
		for i, op := range ops {
			history = append(history, fmt.Sprintf("  op %d: %s", i, ropString(op)))
		}
		libOps := []ovsdb.Operation{}
		for _, op := range ops {
			libOps = append(libOps, ropToLib(op))
		}
		if os.Getenv("HUNT_JSON") != "" {
			b, err := json.Marshal(libOps)
			if err != nil {
				t.Fatalf("marshal: %v", err)
			}
			libOps = nil
			if err := json.Unmarshal(b, &libOps); err != nil {
				t.Errorf("seed %d: unmarshal: %v\n%s\nhistory:\n%s", seed, err, b, strings.Join(history, "\n"))
				return false
			}
		}
		res := huntTransact(t, db, "Hunt", libOps...)
		if os.Getenv("HUNT_JSON") != "" {
			b, err := json.Marshal(res)
			if err != nil {
				t.Fatalf("marshal results: %v", err)
			}
			res = nil
			if err := json.Unmarshal(b, &res); err != nil {
				t.Errorf("seed %d: unmarshal results: %v\n%s\nhistory:\n%s", seed, err, b, strings.Join(history, "\n"))
				return false
			}
		}
		libErr := false
		for _, r := range res {
			if r != nil && r.Error != "" {
				libErr = true
			}
		}
		// uuids of inserts
		uuids := map[int]string{}
		names := map[string]string{}
		for i, op := range ops {
			if op.op == "insert" {
				u := ""
				if i < len(res) && res[i] != nil && res[i].Error == "" {
					u = res[i].UUID.GoUUID
				}
				if u == "" {
					u = uuid.NewString()
				}
				uuids[i] = u
				names[op.uuidName] = u
			}
		}
		resolve := func(n string) string { return names[n] }
		rops := []rop{}
		for _, op := range ops {
			rops = append(rops, ropResolve(op, resolve))
		}
		newRef, rres, refOK := rexec(ref, rops, uuids)
		if refOK && huntVariant == 1 && !rindexCheck(newRef) {
			refOK = false
			rres = append(rres, rresult{err: "constraint violation (index)"})
		}
		history = append(history, fmt.Sprintf("  library: %s", strings.ReplaceAll(huntResStr(res), "\n", " | ")))
		history = append(history, fmt.Sprintf("  reference: %+v", rres))
		if libErr {
			huntRejected++
			if len(rres) > 0 && strings.Contains(rres[len(rres)-1].err, "index") {
				huntIndexRejected++
			}
			if refOK {
				history = append(history, "  (library rejects, reference accepts)")
				if os.Getenv("HUNT_REJECTS") != "" {
					t.Errorf("seed %d: library rejects a transaction the reference accepts\nhistory:\n%s", seed, strings.Join(history, "\n"))
					return false
				}
			}
			// not accepted: the database must be unchanged, checked below
		} else {
			if !refOK {
				t.Errorf("seed %d: library accepts a transaction the reference rejects\nhistory:\n%s", seed, strings.Join(history, "\n"))
				return false
			}
			for i, op := range ops {
				r := res[i]
				rr := rres[i]
				switch op.op {
				case "update", "mutate", "delete":
					if r.Count != rr.count {
						t.Errorf("seed %d: op %d count: library %d reference %d\nhistory:\n%s", seed, i, r.Count, rr.count, strings.Join(history, "\n"))
						return false
					}
				case "select":
					got := []string{}
					for _, row := range r.Rows {
						got = append(got, rfromOvsRow(row))
					}
					sort.Strings(got)
					want := append([]string{}, rr.rows...)
					sort.Strings(want)
					if !reflect.DeepEqual(got, want) {
						t.Errorf("seed %d: op %d select rows:\nlibrary   %v\nreference %v\nhistory:\n%s", seed, i, got, want, strings.Join(history, "\n"))
						return false
					}
				}
			}
			ref = newRef
			huntAccepted++
		}
		// compare the contents
		got := map[string]string{}
		rows, err := db.List("Hunt", "T")
		if err != nil {
			t.Fatal(err)
		}
		for _, m := range rows {
			u, row := rfromModel(m)
			got[u] = rrowCanon(row)
		}
		want := map[string]string{}
		for u, row := range ref {
			want[u] = rrowCanon(row)
		}
		if !reflect.DeepEqual(got, want) {
			diff := []string{}
			for u := range want {
				if got[u] != want[u] {
					diff = append(diff, fmt.Sprintf("row %s:\n  library   %s\n  reference %s", u, got[u], want[u]))
				}
			}
			for u := range got {
				if _, ok := want[u]; !ok {
					diff = append(diff, fmt.Sprintf("row %s only in library: %s", u, got[u]))
				}
			}
			t.Errorf("seed %d: database contents differ after transaction %d:\n%s\nhistory:\n%s", seed, txn, strings.Join(diff, "\n"), strings.Join(history, "\n"))
			return false
		}
	}
	return true
}
