package server

import (
	"context"
	"encoding/json"
	"fmt"
	"math/rand"
	"os"
	"testing"
	"time"

	"github.com/ovn-org/libovsdb/client"
	"github.com/ovn-org/libovsdb/database/inmemory"
	"github.com/ovn-org/libovsdb/model"
	"github.com/ovn-org/libovsdb/ovsdb"
)

const huntAPISchema = `{"name": "Hunt", "version": "0.0.1", "tables": {"T": {"columns": {
	"name": {"type": "string"},
	"i": {"type": "integer"},
	"tag": {"type": "string"}}}}}`

type huntAPIRow struct {
	UUID string `ovsdb:"_uuid"`
	Name string `ovsdb:"name"`
	I    int    `ovsdb:"i"`
	Tag  string `ovsdb:"tag"`
}

func huntServerAndClient(t *testing.T) (client.Client, func()) {
	var schema ovsdb.DatabaseSchema
	if err := json.Unmarshal([]byte(huntAPISchema), &schema); err != nil {
		t.Fatal(err)
	}
	cm, err := model.NewClientDBModel("Hunt", map[string]model.Model{"T": &huntAPIRow{}})
	if err != nil {
		t.Fatal(err)
	}
	db := inmemory.NewDatabase(map[string]model.ClientDBModel{"Hunt": cm})
	dbModel, errs := model.NewDatabaseModel(schema, cm)
	if len(errs) > 0 {
		t.Fatal(errs)
	}
	rand.Seed(time.Now().UnixNano())
	sock := fmt.Sprintf("/tmp/hunt-ovsdb-%d.sock", rand.Intn(1000000))
	srv, err := NewOvsdbServer(db, dbModel)
	if err != nil {
		t.Fatal(err)
	}
	go func() { _ = srv.Serve("unix", sock) }()
	for i := 0; i < 200 && !srv.Ready(); i++ {
		time.Sleep(10 * time.Millisecond)
	}
	c, err := client.NewOVSDBClient(cm, client.WithEndpoint("unix:"+sock))
	if err != nil {
		t.Fatal(err)
	}
	if err := c.Connect(context.Background()); err != nil {
		t.Fatal(err)
	}
	return c, func() {
		c.Disconnect()
		srv.Close()
		os.Remove(sock)
	}
}

func huntAPITransact(t *testing.T, c client.Client, ops []ovsdb.Operation) []ovsdb.OperationResult {
	t.Helper()
	res, err := c.Transact(context.Background(), ops...)
	if err != nil {
		t.Fatalf("transact: %v", err)
	}
	return res
}

// The client does not monitor the database, so its cache is empty and the
// conditions given to WhereAny/WhereAll reach the server as they are.
func TestHuntAPIWhereAnyMutateTwice(t *testing.T) {
	t.Skip("item of the first audit, triaged in DESIGN.md 7.1: outside the property as stated, or recorded under another check")
	c, stop := huntServerAndClient(t)
	defer stop()
	ops, err := c.Create(&huntAPIRow{Name: "a", Tag: "x", I: 1}, &huntAPIRow{Name: "b", Tag: "y", I: 1})
	if err != nil {
		t.Fatal(err)
	}
	res := huntAPITransact(t, c, ops)
	if _, err := ovsdb.CheckOperationResults(res, ops); err != nil {
		t.Fatal(err)
	}
	row := &huntAPIRow{}
	ops, err = c.WhereAny(row,
		model.Condition{Field: &row.Name, Function: ovsdb.ConditionEqual, Value: "a"},
		model.Condition{Field: &row.Tag, Function: ovsdb.ConditionEqual, Value: "x"},
	).Mutate(row, model.Mutation{Field: &row.I, Mutator: ovsdb.MutateOperationAdd, Value: 10})
	if err != nil {
		t.Fatal(err)
	}
	t.Logf("operations: %+v", ops)
	ops = append(ops, ovsdb.Operation{Op: "select", Table: "T", Where: []ovsdb.Condition{ovsdb.NewCondition("name", ovsdb.ConditionEqual, "a")}})
	res = huntAPITransact(t, c, ops)
	if _, err := ovsdb.CheckOperationResults(res, ops); err != nil {
		t.Fatal(err)
	}
	sel := res[len(res)-1]
	if len(sel.Rows) != 1 {
		t.Fatalf("expected one row, got %v", sel.Rows)
	}
	got := sel.Rows[0]["i"]
	if fmt.Sprint(got) != "11" {
		t.Errorf("WhereAny(name == a, tag == x).Mutate(i += 10) on the row (a, x, i=1): expected i = 11 (the row matches, it is mutated once), got i = %v", got)
	}
}

func TestHuntAPIWaitWithoutFields(t *testing.T) {
	c, stop := huntServerAndClient(t)
	defer stop()
	ops, err := c.Create(&huntAPIRow{Name: "a", Tag: "x", I: 1})
	if err != nil {
		t.Fatal(err)
	}
	res := huntAPITransact(t, c, ops)
	if _, err := ovsdb.CheckOperationResults(res, ops); err != nil {
		t.Fatal(err)
	}
	row := &huntAPIRow{}
	zero := 0
	// wait until the row named a equals {name a, tag OTHER, i 99}: it does not
	ops, err = c.WhereAll(row, model.Condition{Field: &row.Name, Function: ovsdb.ConditionEqual, Value: "a"}).
		Wait(ovsdb.WaitConditionEqual, &zero, &huntAPIRow{Name: "a", Tag: "OTHER", I: 99})
	if err != nil {
		t.Fatal(err)
	}
	t.Logf("operations: %+v", ops)
	res = huntAPITransact(t, c, ops)
	t.Logf("results: %+v", res)
	if res[0].Error == "" {
		t.Errorf("Wait(==, timeout 0, {name a, tag OTHER, i 99}) without fields on the row (a, x, 1): all columns are compared, expected 'timed out', got success")
	}
}
