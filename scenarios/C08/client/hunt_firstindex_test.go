package client

import (
	"context"
	"encoding/json"
	"sort"
	"testing"

	"github.com/ovn-org/libovsdb/cache"
	"github.com/ovn-org/libovsdb/model"
	"github.com/ovn-org/libovsdb/ovsdb"
	"github.com/stretchr/testify/require"
)

type huntFI struct {
	UUID string `ovsdb:"_uuid"`
	Name string `ovsdb:"name"`
	Kind string `ovsdb:"kind"`
}

const (
	huntFI1 = "11111111-1111-1111-1111-111111111111"
	huntFI2 = "22222222-2222-2222-2222-222222222222"
	huntFI9 = "99999999-9999-9999-9999-999999999999"
)

func huntFICache(t *testing.T, rows ...*huntFI) *cache.TableCache {
	var schema ovsdb.DatabaseSchema
	require.NoError(t, json.Unmarshal([]byte(`{"name": "DB", "tables": {"T": {"indexes": [["name"]], "columns": {
		"name": {"type": "string"}, "kind": {"type": "string"}}}}}`), &schema))
	cm, err := model.NewClientDBModel("DB", map[string]model.Model{"T": &huntFI{}})
	require.NoError(t, err)
	cm.SetIndexes(map[string][]model.ClientIndex{"T": {{Columns: []model.ColumnKey{{Column: "kind"}}}}})
	dbModel, errs := model.NewDatabaseModel(schema, cm)
	require.Empty(t, errs)
	data := map[string]model.Model{}
	for _, r := range rows {
		data[r.UUID] = r
	}
	tc, err := cache.NewTableCache(dbModel, cache.Data{"T": data}, nil)
	require.NoError(t, err)
	return tc
}

// Where(model) means the first usable index of the model: _uuid, then the
// schema indexes, then the client indexes, the first one the model has a value
// for (README: "The first available index will be used to generate a
// condition"; mapper.NewEqualityCondition picks exactly that one when the
// cache has no hit). With rows in the cache, an index that is usable but
// matches no row is skipped and a later index decides.
func TestHuntWhereModelUsesALaterIndexWhenTheFirstUsableOneMatchesNothing(t *testing.T) {
	rows := []*huntFI{
		{UUID: huntFI1, Name: "a", Kind: "k"},
		{UUID: huntFI2, Name: "b", Kind: "k"},
	}
	for _, tt := range []struct {
		name  string
		model *huntFI
		first string
	}{
		{"schema index name matches nothing, client index kind decides", &huntFI{Name: "zzz", Kind: "k"}, `name == "zzz"`},
		{"_uuid matches nothing, schema index name decides", &huntFI{UUID: huntFI9, Name: "a"}, `_uuid == ` + huntFI9},
	} {
		t.Run(tt.name, func(t *testing.T) {
			// what the call means when the cache cannot help: the condition
			// of the first usable index
			empty := newAPI(huntFICache(t), &discardLogger)
			ops, err := empty.Where(tt.model).Delete()
			require.NoError(t, err)
			onEmpty, _ := json.Marshal(ops)

			a := newAPI(huntFICache(t, rows...), &discardLogger)
			var listed []*huntFI
			require.NoError(t, a.Where(tt.model).List(context.Background(), &listed))
			got := []string{}
			for _, m := range listed {
				got = append(got, m.UUID[:8]+"/"+m.Name+"/"+m.Kind)
			}
			sort.Strings(got)
			ops, err = a.Where(tt.model).Delete()
			require.NoError(t, err)
			onSynced, _ := json.Marshal(ops)

			if len(got) != 0 {
				t.Errorf("Where(%+v): the first usable index of the model is %s (with an empty cache Delete generates %s) and no row of the table satisfies it, so no row is expected; but List reports %v and Delete generates %s",
					*tt.model, tt.first, onEmpty, got, onSynced)
			}
		})
	}
}
