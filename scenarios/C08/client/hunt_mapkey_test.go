package client

import (
	"context"
	"encoding/json"
	"sort"
	"testing"

	"github.com/ovn-org/libovsdb/cache"
	"github.com/ovn-org/libovsdb/model"
	"github.com/ovn-org/libovsdb/ovsdb"
	"github.com/stretchr/testify/require"
)

type huntMK struct {
	UUID        string            `ovsdb:"_uuid"`
	Name        string            `ovsdb:"name"`
	ExternalIDs map[string]string `ovsdb:"external_ids"`
	Counters    map[string]int    `ovsdb:"counters"`
}

const (
	huntMK1 = "11111111-1111-1111-1111-111111111111"
	huntMK2 = "22222222-2222-2222-2222-222222222222"
	huntMK3 = "33333333-3333-3333-3333-333333333333"
)

func huntMKCache(t *testing.T, rows ...*huntMK) *cache.TableCache {
	var schema ovsdb.DatabaseSchema
	require.NoError(t, json.Unmarshal([]byte(`{"name": "DB", "tables": {"T": {"indexes": [["name"]], "columns": {
		"name": {"type": "string"},
		"external_ids": {"type": {"key": "string", "value": "string", "min": 0, "max": "unlimited"}},
		"counters": {"type": {"key": "string", "value": "integer", "min": 0, "max": "unlimited"}}}}}}`), &schema))
	cm, err := model.NewClientDBModel("DB", map[string]model.Model{"T": &huntMK{}})
	require.NoError(t, err)
	cm.SetIndexes(map[string][]model.ClientIndex{"T": {
		{Columns: []model.ColumnKey{{Column: "external_ids", Key: "owner"}}},
		{Columns: []model.ColumnKey{{Column: "counters", Key: "errors"}}},
	}})
	dbModel, errs := model.NewDatabaseModel(schema, cm)
	require.Empty(t, errs)
	data := map[string]model.Model{}
	for _, r := range rows {
		data[r.UUID] = r
	}
	tc, err := cache.NewTableCache(dbModel, cache.Data{"T": data}, nil)
	require.NoError(t, err)
	return tc
}

// Where(model) through a client index over a map key: the rows selected must
// hold, under that key, the value the model holds. A row that does not have
// the key at all does not agree with a model that has it.
func TestHuntWhereModelMapKeyIndexSelectsRowsWithoutTheKey(t *testing.T) {
	tc := huntMKCache(t,
		&huntMK{UUID: huntMK1, Name: "has-empty-owner", ExternalIDs: map[string]string{"owner": ""}, Counters: map[string]int{"errors": 0}},
		&huntMK{UUID: huntMK2, Name: "no-owner-key", ExternalIDs: map[string]string{"other": "x"}, Counters: map[string]int{"other": 5}},
		&huntMK{UUID: huntMK3, Name: "empty-maps"},
	)
	a := newAPI(tc, &discardLogger)

	for _, tt := range []struct {
		name  string
		model *huntMK
		cond  func(m *huntMK) model.Condition
	}{
		{
			"string valued map, external_ids[owner] = \"\"",
			&huntMK{ExternalIDs: map[string]string{"owner": ""}},
			func(m *huntMK) model.Condition {
				return model.Condition{Field: &m.ExternalIDs, Function: ovsdb.ConditionIncludes, Value: map[string]string{"owner": ""}}
			},
		},
		{
			"integer valued map, counters[errors] = 0",
			&huntMK{Counters: map[string]int{"errors": 0}},
			func(m *huntMK) model.Condition {
				return model.Condition{Field: &m.Counters, Function: ovsdb.ConditionIncludes, Value: map[string]int{"errors": 0}}
			},
		},
	} {
		t.Run(tt.name, func(t *testing.T) {
			var listed []*huntMK
			require.NoError(t, a.Where(tt.model).List(context.Background(), &listed))
			got := []string{}
			for _, m := range listed {
				got = append(got, m.Name)
			}
			sort.Strings(got)

			// the same selection written as an explicit condition on the same
			// index (the documented equivalent of the indexed lookup)
			var viaCondition []*huntMK
			m := &huntMK{}
			require.NoError(t, a.WhereAll(m, tt.cond(m)).List(context.Background(), &viaCondition))
			want := []string{}
			for _, m := range viaCondition {
				want = append(want, m.Name)
			}
			sort.Strings(want)
			require.Equal(t, []string{"has-empty-owner"}, want, "explicit condition")

			ops, err := a.Where(tt.model).Delete()
			require.NoError(t, err)
			opsJSON, _ := json.Marshal(ops)

			if len(got) != 1 || got[0] != "has-empty-owner" {
				t.Errorf("Where(%+v) uses the client index over the map key; expected exactly the row holding that key with that value %v, but List reports %v and Delete generates %s",
					*tt.model, want, got, opsJSON)
			}
		})
	}
}
