package server

import (
	"context"
	"fmt"
	"os"
	"sort"
	"testing"
	"time"

	"github.com/ovn-org/libovsdb/client"
	"github.com/ovn-org/libovsdb/database/inmemory"
	"github.com/ovn-org/libovsdb/model"
	"github.com/ovn-org/libovsdb/ovsdb"
	"github.com/stretchr/testify/require"

	. "github.com/ovn-org/libovsdb/test"
)

// huntServerAndClient starts the in-process server (no client indexes) and a
// client whose model carries the given client indexes.
func huntServerAndClient(t *testing.T, indexes map[string][]model.ClientIndex) (client.Client, func()) {
	dbModel, err := GetModel()
	require.NoError(t, err)
	ovsDB := inmemory.NewDatabase(map[string]model.ClientDBModel{"Open_vSwitch": dbModel.Client()})
	schema := dbModel.Schema
	defDB := dbModel.Client()

	tmpfile := fmt.Sprintf("/tmp/ovsdb-hunt-%d-%d.sock", os.Getpid(), time.Now().UnixNano())
	dbModel, errs := model.NewDatabaseModel(schema, defDB)
	require.Empty(t, errs)
	server, err := NewOvsdbServer(ovsDB, dbModel)
	require.NoError(t, err)
	go func() {
		_ = server.Serve("unix", tmpfile)
	}()
	require.Eventually(t, func() bool { return server.Ready() }, time.Second, 10*time.Millisecond)

	clientDB := dbModel.Client()
	if indexes != nil {
		clientDB.SetIndexes(indexes)
	}
	ovs, err := client.NewOVSDBClient(clientDB, client.WithEndpoint(fmt.Sprintf("unix:%s", tmpfile)))
	require.NoError(t, err)
	require.NoError(t, ovs.Connect(context.Background()))
	_, err = ovs.MonitorAll(context.Background())
	require.NoError(t, err)
	return ovs, func() {
		ovs.Disconnect()
		server.Close()
		os.Remove(tmpfile)
	}
}

func huntCreateBridges(t *testing.T, ovs client.Client, bridges ...*BridgeType) {
	for _, br := range bridges {
		ops, err := ovs.Create(br)
		require.NoError(t, err)
		reply, err := ovs.Transact(context.Background(), ops...)
		require.NoError(t, err)
		_, err = ovsdb.CheckOperationResults(reply, ops)
		require.NoError(t, err)
		br.UUID = reply[0].UUID.GoUUID
	}
	huntWaitBridges(t, ovs, len(bridges))
}

func huntBridgeNames(ovs client.Client) []string {
	var all []*BridgeType
	_ = ovs.List(context.Background(), &all)
	names := []string{}
	for _, b := range all {
		names = append(names, b.Name)
	}
	sort.Strings(names)
	return names
}

func huntWaitBridges(t *testing.T, ovs client.Client, n int) {
	require.Eventually(t, func() bool { return len(huntBridgeNames(ovs)) == n }, 2*time.Second, 10*time.Millisecond)
}

// Finding 1, end to end: with a client index over the whole map column
// external_ids, WhereAll(external_ids includes {}) lists no row on a
// synchronised cache, yet the Delete() it generates removes every bridge.
func TestHuntIncludesEmptyMapListVersusDelete(t *testing.T) {
	ovs, closeFn := huntServerAndClient(t, map[string][]model.ClientIndex{
		"Bridge": {{Columns: []model.ColumnKey{{Column: "external_ids"}}}},
	})
	defer closeFn()

	huntCreateBridges(t, ovs,
		&BridgeType{Name: "br1", ExternalIds: map[string]string{"a": "1"}},
		&BridgeType{Name: "br2", ExternalIds: map[string]string{"b": "2"}},
	)
	before := huntBridgeNames(ovs)
	require.Equal(t, []string{"br1", "br2"}, before)

	br := &BridgeType{}
	cond := ovs.WhereAll(br, model.Condition{
		Field:    &br.ExternalIds,
		Function: ovsdb.ConditionIncludes,
		Value:    map[string]string{},
	})
	var listed []*BridgeType
	require.NoError(t, cond.List(context.Background(), &listed))
	listedNames := []string{}
	for _, b := range listed {
		listedNames = append(listedNames, b.Name)
	}
	sort.Strings(listedNames)

	ops, err := cond.Delete()
	require.NoError(t, err)
	reply, err := ovs.Transact(context.Background(), ops...)
	require.NoError(t, err)
	_, err = ovsdb.CheckOperationResults(reply, ops)
	require.NoError(t, err)
	deleted := 0
	for _, r := range reply {
		deleted += r.Count
	}

	// every map includes the empty map (RFC 7047 5.1): both rows are expected
	// in List(), and in any case List() and Delete() must agree
	if len(listedNames) != deleted || len(listedNames) != 2 {
		t.Fatalf("WhereAll(external_ids includes {}) on a synchronised cache holding %v: expected List() to report both bridges and Delete() to remove exactly those; List() reported %v but the generated Delete() removed %d rows (ops %+v)",
			before, listedNames, deleted, ops)
	}
}

// Finding 5, end to end: Where(&Bridge{Name: "nonexistent"}) has one usable
// index, the schema index over name, and no bridge has that name. With a client
// index over datapath_type, for which the model holds nothing, the bridges
// whose datapath_type is empty are listed, and deleted.
func TestHuntWhereModelDefaultValuedClientIndex(t *testing.T) {
	ovs, closeFn := huntServerAndClient(t, map[string][]model.ClientIndex{
		"Bridge": {{Columns: []model.ColumnKey{{Column: "datapath_type"}}}},
	})
	defer closeFn()

	huntCreateBridges(t, ovs,
		&BridgeType{Name: "br1"},
		&BridgeType{Name: "br2"},
		&BridgeType{Name: "br3", DatapathType: "netdev"},
	)
	require.Equal(t, []string{"br1", "br2", "br3"}, huntBridgeNames(ovs))

	cond := ovs.Where(&BridgeType{Name: "nonexistent"})
	var listed []*BridgeType
	require.NoError(t, cond.List(context.Background(), &listed))
	listedNames := []string{}
	for _, b := range listed {
		listedNames = append(listedNames, b.Name)
	}
	sort.Strings(listedNames)

	ops, err := cond.Delete()
	require.NoError(t, err)
	reply, err := ovs.Transact(context.Background(), ops...)
	require.NoError(t, err)
	_, err = ovsdb.CheckOperationResults(reply, ops)
	require.NoError(t, err)
	deleted := 0
	for _, r := range reply {
		deleted += r.Count
	}
	if len(listedNames) != 0 || deleted != 0 {
		t.Fatalf("Where(&Bridge{Name: \"nonexistent\"}) with bridges br1 br2 br3: expected List() to report nothing and Delete() to remove nothing (first usable index of the model: name); List() reported %v and Delete() removed %d rows (ops %+v)",
			listedNames, deleted, ops)
	}
}

// Finding 2, end to end: the server stores a set written with a repeated
// element as it came, and from then on "==" with the very set the column holds
// does not select the row (and "!=" does), in the database and in the
// synchronised client cache alike.
func TestHuntSetWithRepeatedElementStored(t *testing.T) {
	ovs, closeFn := huntServerAndClient(t, nil)
	defer closeFn()
	a := "11111111-1111-1111-1111-111111111111"
	set := func(u ...string) ovsdb.OvsSet {
		s := []interface{}{}
		for _, x := range u {
			s = append(s, ovsdb.UUID{GoUUID: x})
		}
		return ovsdb.OvsSet{GoSet: s}
	}
	ops := []ovsdb.Operation{{Op: ovsdb.OperationInsert, Table: "Bridge", Row: ovsdb.Row{"name": "br1", "ports": set(a, a)}}}
	reply, err := ovs.Transact(context.Background(), ops...)
	require.NoError(t, err)
	_, err = ovsdb.CheckOperationResults(reply, ops)
	require.NoError(t, err)
	huntWaitBridges(t, ovs, 1)

	// the database
	ops = []ovsdb.Operation{{Op: ovsdb.OperationSelect, Table: "Bridge", Columns: []string{"name"},
		Where: []ovsdb.Condition{ovsdb.NewCondition("ports", ovsdb.ConditionEqual, set(a))}}}
	reply, err = ovs.Transact(context.Background(), ops...)
	require.NoError(t, err)
	_, err = ovsdb.CheckOperationResults(reply, ops)
	require.NoError(t, err)
	if len(reply[0].Rows) != 1 {
		t.Errorf("select where [ports == {%s}] after inserting br1 with ports [\"set\", [%s, %s]]: expected br1, whose ports is the set {%s}; got %v", a, a, a, a, reply[0].Rows)
	}

	// the client cache
	br := &BridgeType{}
	var listed []*BridgeType
	err = ovs.WhereAll(br, model.Condition{Field: &br.Ports, Function: ovsdb.ConditionEqual, Value: []string{a}}).List(context.Background(), &listed)
	require.NoError(t, err)
	if len(listed) != 1 {
		t.Errorf("WhereAll(ports == {%s}).List(): expected br1; got %d rows", a, len(listed))
	}
}
