package cache

import (
	"encoding/json"
	"fmt"
	"math/rand"
	"reflect"
	"sort"
	"testing"

	"github.com/ovn-org/libovsdb/model"
	"github.com/ovn-org/libovsdb/ovsdb"
	"github.com/stretchr/testify/require"
)

var (
	huntStrs  = []string{"", "a", "b", "c"}
	huntInts  = []int{-1, 0, 1, 2}
	huntReals = []float64{-0.5, 0, 1, 2.5}
	huntUUIDs = []string{"u0", "u1", "u2"}
	huntEnums = []string{"x", "y", "z"}
)

func pickStrs(r *rand.Rand, pool []string) []string {
	out := []string{}
	for _, s := range pool {
		if r.Intn(3) == 0 {
			out = append(out, s)
		}
	}
	r.Shuffle(len(out), func(i, j int) { out[i], out[j] = out[j], out[i] })
	if len(out) == 0 && r.Intn(2) == 0 {
		return nil
	}
	return out
}

func pickInts(r *rand.Rand) []int {
	out := []int{}
	for _, s := range huntInts {
		if r.Intn(3) == 0 {
			out = append(out, s)
		}
	}
	r.Shuffle(len(out), func(i, j int) { out[i], out[j] = out[j], out[i] })
	return out
}

func pickReals(r *rand.Rand) []float64 {
	out := []float64{}
	for _, s := range huntReals {
		if r.Intn(3) == 0 {
			out = append(out, s)
		}
	}
	r.Shuffle(len(out), func(i, j int) { out[i], out[j] = out[j], out[i] })
	return out
}

func pickMap(r *rand.Rand) map[string]string {
	out := map[string]string{}
	for _, k := range []string{"k1", "k2", "k3"} {
		if r.Intn(3) == 0 {
			out[k] = huntStrs[r.Intn(len(huntStrs))]
		}
	}
	if len(out) == 0 && r.Intn(2) == 0 {
		return nil
	}
	return out
}

func pickMapI(r *rand.Rand) map[int]string {
	out := map[int]string{}
	for _, k := range []int{1, 2} {
		if r.Intn(3) == 0 {
			out[k] = huntStrs[r.Intn(len(huntStrs))]
		}
	}
	return out
}

func pickMapB(r *rand.Rand) map[string]int {
	out := map[string]int{}
	for _, k := range []string{"k1", "k2"} {
		if r.Intn(3) == 0 {
			out[k] = huntInts[r.Intn(len(huntInts))]
		}
	}
	return out
}

func randRow(r *rand.Rand, uuid string) *huntModel {
	m := &huntModel{UUID: uuid}
	m.S = huntStrs[r.Intn(len(huntStrs))]
	m.I = huntInts[r.Intn(len(huntInts))]
	m.R = huntReals[r.Intn(len(huntReals))]
	m.B = r.Intn(2) == 0
	m.U = huntUUIDs[r.Intn(len(huntUUIDs))]
	m.E = huntEnums[r.Intn(len(huntEnums))]
	if r.Intn(2) == 0 {
		v := huntStrs[r.Intn(len(huntStrs))]
		m.OS = &v
	}
	if r.Intn(2) == 0 {
		v := huntInts[r.Intn(len(huntInts))]
		m.OI = &v
	}
	if r.Intn(2) == 0 {
		v := r.Intn(2) == 0
		m.OB = &v
	}
	if r.Intn(2) == 0 {
		v := huntReals[r.Intn(len(huntReals))]
		m.OR = &v
	}
	m.SS = pickStrs(r, huntStrs)
	m.SI = pickInts(r)
	m.SR = pickReals(r)
	m.SU = pickStrs(r, huntUUIDs)
	m.M = pickMap(r)
	m.MI = pickMapI(r)
	m.MB = pickMapB(r)
	return m
}

// oracle: RFC 7047 5.1 on native values, written independently.
// every value is normalised to a "set of atoms" or "set of pairs".
type atomSet map[interface{}]struct{}

func toAtomSet(v interface{}) (atomSet, bool) {
	rv := reflect.ValueOf(v)
	out := atomSet{}
	switch rv.Kind() {
	case reflect.Slice:
		for i := 0; i < rv.Len(); i++ {
			out[rv.Index(i).Interface()] = struct{}{}
		}
		return out, true
	case reflect.Ptr:
		if !rv.IsNil() {
			out[rv.Elem().Interface()] = struct{}{}
		}
		return out, true
	case reflect.Map:
		for it := rv.MapRange(); it.Next(); {
			out[[2]interface{}{it.Key().Interface(), it.Value().Interface()}] = struct{}{}
		}
		return out, true
	}
	return nil, false
}

func subset(a, b atomSet) bool {
	for k := range a {
		if _, ok := b[k]; !ok {
			return false
		}
	}
	return true
}

func disjoint(a, b atomSet) bool {
	for k := range a {
		if _, ok := b[k]; ok {
			return false
		}
	}
	return true
}

func oracle(f ovsdb.ConditionFunction, rowv, argv interface{}) bool {
	if rs, ok := toAtomSet(rowv); ok {
		as, _ := toAtomSet(argv)
		switch f {
		case ovsdb.ConditionEqual:
			return subset(rs, as) && subset(as, rs)
		case ovsdb.ConditionNotEqual:
			return !(subset(rs, as) && subset(as, rs))
		case ovsdb.ConditionIncludes:
			return subset(as, rs)
		case ovsdb.ConditionExcludes:
			return disjoint(as, rs)
		}
		panic("bad function for set")
	}
	switch f {
	case ovsdb.ConditionEqual, ovsdb.ConditionIncludes:
		return rowv == argv
	case ovsdb.ConditionNotEqual, ovsdb.ConditionExcludes:
		return rowv != argv
	}
	var x, y float64
	switch a := rowv.(type) {
	case int:
		x, y = float64(a), float64(argv.(int))
	case float64:
		x, y = a, argv.(float64)
	default:
		panic("bad type for ordering")
	}
	switch f {
	case ovsdb.ConditionLessThan:
		return x < y
	case ovsdb.ConditionLessThanOrEqual:
		return x <= y
	case ovsdb.ConditionGreaterThan:
		return x > y
	case ovsdb.ConditionGreaterThanOrEqual:
		return x >= y
	}
	panic("bad function")
}

var eqFuncs = []ovsdb.ConditionFunction{ovsdb.ConditionEqual, ovsdb.ConditionNotEqual, ovsdb.ConditionIncludes, ovsdb.ConditionExcludes}
var allFuncs = []ovsdb.ConditionFunction{ovsdb.ConditionEqual, ovsdb.ConditionNotEqual, ovsdb.ConditionIncludes, ovsdb.ConditionExcludes,
	ovsdb.ConditionLessThan, ovsdb.ConditionLessThanOrEqual, ovsdb.ConditionGreaterThan, ovsdb.ConditionGreaterThanOrEqual}

var huntColumns = []string{"_uuid", "s", "i", "r", "b", "u", "e", "os", "oi", "ob", "or", "ss", "si", "sr", "su", "m", "mi", "mb"}

// returns a native value for a condition on the column
func randCondition(r *rand.Rand, nrows int) (string, ovsdb.ConditionFunction, interface{}) {
	col := huntColumns[r.Intn(len(huntColumns))]
	f := eqFuncs[r.Intn(len(eqFuncs))]
	var v interface{}
	switch col {
	case "_uuid":
		v = fmt.Sprintf("row%d", r.Intn(nrows+1))
	case "s":
		v = huntStrs[r.Intn(len(huntStrs))]
	case "i":
		f = allFuncs[r.Intn(len(allFuncs))]
		v = huntInts[r.Intn(len(huntInts))]
	case "r":
		f = allFuncs[r.Intn(len(allFuncs))]
		v = huntReals[r.Intn(len(huntReals))]
	case "b":
		v = r.Intn(2) == 0
	case "u":
		v = huntUUIDs[r.Intn(len(huntUUIDs))]
	case "e":
		v = huntEnums[r.Intn(len(huntEnums))]
	default:
		row := randRow(r, "")
		info := reflect.ValueOf(row).Elem()
		t := info.Type()
		for i := 0; i < t.NumField(); i++ {
			if t.Field(i).Tag.Get("ovsdb") == col {
				v = info.Field(i).Interface()
			}
		}
	}
	return col, f, v
}

func huntIndexConfigs() map[string][]model.ClientIndex {
	ck := func(c string) model.ColumnKey { return model.ColumnKey{Column: c} }
	single := []model.ClientIndex{}
	for _, c := range huntColumns[1:] {
		single = append(single, model.ClientIndex{Columns: []model.ColumnKey{ck(c)}})
	}
	keys := []model.ClientIndex{
		{Columns: []model.ColumnKey{{Column: "m", Key: "k1"}}},
		{Columns: []model.ColumnKey{{Column: "m", Key: "k2"}}},
		{Columns: []model.ColumnKey{{Column: "m", Key: "k1"}, {Column: "m", Key: "k2"}}},
		{Columns: []model.ColumnKey{{Column: "mi", Key: 1}}},
		{Columns: []model.ColumnKey{{Column: "mb", Key: "k1"}}},
		{Columns: []model.ColumnKey{{Column: "m", Key: "k3"}, {Column: "s"}}},
	}
	multi := []model.ClientIndex{
		{Columns: []model.ColumnKey{ck("s"), ck("i")}},
		{Columns: []model.ColumnKey{ck("os"), ck("oi")}},
		{Columns: []model.ColumnKey{ck("ss"), ck("b")}},
		{Columns: []model.ColumnKey{ck("m"), ck("e")}},
		{Columns: []model.ColumnKey{ck("or"), ck("ob"), ck("r")}},
		{Columns: []model.ColumnKey{ck("m"), {Column: "m", Key: "k1"}}},
	}
	all := append(append(append([]model.ClientIndex{}, single...), keys...), multi...)
	return map[string][]model.ClientIndex{"single": single, "keys": keys, "multi": multi, "all": all}
}

func TestHuntDifferential(t *testing.T) {
	var schema ovsdb.DatabaseSchema
	require.NoError(t, json.Unmarshal([]byte(huntSchema), &schema))
	ts := schema.Table("T")
	failures := map[string]int{}
	for seed := int64(0); seed < 3000; seed++ {
		r := rand.New(rand.NewSource(seed))
		nrows := 1 + r.Intn(6)
		rows := []*huntModel{}
		for i := 0; i < nrows; i++ {
			rows = append(rows, randRow(r, fmt.Sprintf("row%d", i)))
		}
		nconds := 1 + r.Intn(3)
		conds := []ovsdb.Condition{}
		natives := []interface{}{}
		for i := 0; i < nconds; i++ {
			col, f, v := randCondition(r, nrows)
			if rv := reflect.ValueOf(v); rv.Kind() == reflect.Map && rv.Len() == 0 && f == ovsdb.ConditionIncludes {
				f = ovsdb.ConditionExcludes // known finding, skip
			}
			ov, err := ovsdb.NativeToOvs(ts.Column(col), v)
			require.NoError(t, err)
			// go through JSON like a real request would
			c := ovsdb.NewCondition(col, f, ov)
			b, err := json.Marshal(c)
			require.NoError(t, err)
			var c2 ovsdb.Condition
			require.NoError(t, json.Unmarshal(b, &c2))
			conds = append(conds, c2)
			natives = append(natives, v)
		}
		expected := []string{}
		for _, row := range rows {
			ok := true
			rv := reflect.ValueOf(row).Elem()
			for i, c := range conds {
				var val interface{}
				for j := 0; j < rv.NumField(); j++ {
					if rv.Type().Field(j).Tag.Get("ovsdb") == c.Column {
						val = rv.Field(j).Interface()
					}
				}
				if !oracle(c.Function, val, natives[i]) {
					ok = false
				}
			}
			if ok {
				expected = append(expected, row.UUID)
			}
		}
		sort.Strings(expected)
		configs := huntIndexConfigs()
		configs["none"] = nil
		for name, cfg := range configs {
			tc := huntCache(t, cfg)
			rc := tc.Table("T")
			for _, row := range rows {
				require.NoError(t, rc.Create(row.UUID, row, true))
			}
			got, err := rc.RowsByCondition(conds)
			gotU := []string{}
			for u := range got {
				gotU = append(gotU, u)
			}
			sort.Strings(gotU)
			if err != nil || !reflect.DeepEqual(gotU, expected) {
				key := fmt.Sprintf("%s", name)
				failures[key]++
				if failures[key] <= 6 {
					rb, _ := json.Marshal(rows)
					t.Errorf("seed %d indexes %q conditions %v:\n rows %s\n expected %v got %v err %v", seed, name, conds, rb, expected, gotU, err)
				}
			}
		}
	}
	t.Logf("failures: %v", failures)
}
