package cache

import (
	"encoding/json"
	"reflect"
	"sort"
	"testing"

	"github.com/ovn-org/libovsdb/model"
	"github.com/ovn-org/libovsdb/ovsdb"
	"github.com/stretchr/testify/require"
)

type huntModel struct {
	UUID string            `ovsdb:"_uuid"`
	S    string            `ovsdb:"s"`
	I    int               `ovsdb:"i"`
	R    float64           `ovsdb:"r"`
	B    bool              `ovsdb:"b"`
	U    string            `ovsdb:"u"`
	E    string            `ovsdb:"e"`
	OS   *string           `ovsdb:"os"`
	OI   *int              `ovsdb:"oi"`
	OB   *bool             `ovsdb:"ob"`
	OR   *float64          `ovsdb:"or"`
	SS   []string          `ovsdb:"ss"`
	SI   []int             `ovsdb:"si"`
	SR   []float64         `ovsdb:"sr"`
	SU   []string          `ovsdb:"su"`
	M    map[string]string `ovsdb:"m"`
	MI   map[int]string    `ovsdb:"mi"`
	MB   map[string]int    `ovsdb:"mb"`
}

const huntSchema = `{
 "name": "DB",
 "tables": {
  "T": {
   "columns": {
    "s": {"type": "string"},
    "i": {"type": "integer"},
    "r": {"type": "real"},
    "b": {"type": "boolean"},
    "u": {"type": "uuid"},
    "e": {"type": {"key": {"type": "string", "enum": ["set", ["x", "y", "z"]]}}},
    "os": {"type": {"key": "string", "min": 0, "max": 1}},
    "oi": {"type": {"key": "integer", "min": 0, "max": 1}},
    "ob": {"type": {"key": "boolean", "min": 0, "max": 1}},
    "or": {"type": {"key": "real", "min": 0, "max": 1}},
    "ss": {"type": {"key": "string", "min": 0, "max": "unlimited"}},
    "si": {"type": {"key": "integer", "min": 0, "max": "unlimited"}},
    "sr": {"type": {"key": "real", "min": 0, "max": "unlimited"}},
    "su": {"type": {"key": "uuid", "min": 0, "max": "unlimited"}},
    "m": {"type": {"key": "string", "value": "string", "min": 0, "max": "unlimited"}},
    "mi": {"type": {"key": "integer", "value": "string", "min": 0, "max": "unlimited"}},
    "mb": {"type": {"key": "string", "value": "integer", "min": 0, "max": "unlimited"}}
   }
  }
 }
}`

func huntCache(t require.TestingT, indexes []model.ClientIndex) *TableCache {
	var schema ovsdb.DatabaseSchema
	require.NoError(t, json.Unmarshal([]byte(huntSchema), &schema))
	db, err := model.NewClientDBModel("DB", map[string]model.Model{"T": &huntModel{}})
	require.NoError(t, err)
	if len(indexes) > 0 {
		db.SetIndexes(map[string][]model.ClientIndex{"T": indexes})
	}
	dbModel, errs := model.NewDatabaseModel(schema, db)
	require.Empty(t, errs)
	tc, err := NewTableCache(dbModel, nil, nil)
	require.NoError(t, err)
	return tc
}

func huntFill(t *testing.T, tc *TableCache, rows ...*huntModel) {
	for _, row := range rows {
		require.NoError(t, tc.Table("T").Create(row.UUID, row, true))
	}
}

func huntSelect(t *testing.T, tc *TableCache, conds ...ovsdb.Condition) []string {
	rows, err := tc.Table("T").RowsByCondition(conds)
	require.NoError(t, err)
	uuids := []string{}
	for u := range rows {
		uuids = append(uuids, u)
	}
	sort.Strings(uuids)
	return uuids
}

func huntOvsMap(m map[string]string) ovsdb.OvsMap {
	g := map[interface{}]interface{}{}
	for k, v := range m {
		g[k] = v
	}
	return ovsdb.OvsMap{GoMap: g}
}

// Finding 1: "m includes {}" is true for every row (RFC 7047 5.1: the column
// includes all of the pairs of the value, of which there are none), and it is
// what the cache answers without index. With an index over the whole map
// column the index pre-filter takes the condition for an equality lookup and
// only the rows whose map is empty survive.
func TestHuntIncludesEmptyMapDependsOnIndex(t *testing.T) {
	rows := []*huntModel{
		{UUID: "row0", M: map[string]string{"k1": "a"}},
		{UUID: "row1", M: map[string]string{}},
		{UUID: "row2", M: map[string]string{"k2": "b"}},
	}
	cond := ovsdb.NewCondition("m", ovsdb.ConditionIncludes, huntOvsMap(nil))

	plain := huntCache(t, nil)
	huntFill(t, plain, rows...)
	expected := huntSelect(t, plain, cond)
	require.Equal(t, []string{"row0", "row1", "row2"}, expected, "without index")

	indexed := huntCache(t, []model.ClientIndex{{Columns: []model.ColumnKey{{Column: "m"}}}})
	huntFill(t, indexed, rows...)
	got := huntSelect(t, indexed, cond)
	if !reflect.DeepEqual(expected, got) {
		t.Fatalf("condition [m includes {}]: expected %v, as without index, but with a client index over column m got %v", expected, got)
	}
}

// Finding 2: "==" and "!=" on set columns compare the number of elements of
// the two slices before comparing them as sets, so a value that repeats an
// element is not equal to the set it denotes. (The in-memory server stores
// such a value as is when it is inserted, see server/hunt_test.go.)
func TestHuntSetEqualityWithRepeatedElement(t *testing.T) {
	tc := huntCache(t, nil)
	huntFill(t, tc,
		&huntModel{UUID: "row0", SS: []string{"a", "b"}},
		&huntModel{UUID: "row1", SS: []string{"c"}},
	)
	set := func(e ...interface{}) ovsdb.OvsSet { return ovsdb.OvsSet{GoSet: e} }
	// sanity: another order is fine
	require.Equal(t, []string{"row0"}, huntSelect(t, tc, ovsdb.NewCondition("ss", ovsdb.ConditionEqual, set("b", "a"))))
	// includes and excludes take the value as a set
	require.Equal(t, []string{"row0"}, huntSelect(t, tc, ovsdb.NewCondition("ss", ovsdb.ConditionIncludes, set("a", "b", "a"))))

	got := huntSelect(t, tc, ovsdb.NewCondition("ss", ovsdb.ConditionEqual, set("a", "b", "a")))
	if !reflect.DeepEqual(got, []string{"row0"}) {
		t.Errorf("condition [ss == {a, b, a}]: expected [row0], whose ss is the set {a, b}; got %v", got)
	}
	got = huntSelect(t, tc, ovsdb.NewCondition("ss", ovsdb.ConditionNotEqual, set("a", "b", "a")))
	if !reflect.DeepEqual(got, []string{"row1"}) {
		t.Errorf("condition [ss != {a, b, a}]: expected [row1]; got %v", got)
	}
}

// Finding 3: 0 and -0 are the same real (and compare equal when the condition
// is evaluated), but the rendering of set elements used for index values
// ("%v") and the gob encoding used by indexes over several columns tell them
// apart, so the answer depends on the indexes.
func TestHuntNegativeZeroDependsOnIndex(t *testing.T) {
	var negZero interface{}
	require.NoError(t, json.Unmarshal([]byte("-0.0"), &negZero))
	rows := []*huntModel{
		{UUID: "row0", S: "a", R: 0, SR: []float64{0}},
		{UUID: "row1", S: "a", R: 1, SR: []float64{1}},
	}
	for _, tt := range []struct {
		name    string
		conds   []ovsdb.Condition
		indexes []model.ClientIndex
	}{
		{
			"set of reals",
			[]ovsdb.Condition{ovsdb.NewCondition("sr", ovsdb.ConditionEqual, ovsdb.OvsSet{GoSet: []interface{}{negZero}})},
			[]model.ClientIndex{{Columns: []model.ColumnKey{{Column: "sr"}}}},
		},
		{
			"real in an index over two columns",
			[]ovsdb.Condition{ovsdb.NewCondition("r", ovsdb.ConditionEqual, negZero), ovsdb.NewCondition("s", ovsdb.ConditionEqual, "a")},
			[]model.ClientIndex{{Columns: []model.ColumnKey{{Column: "r"}, {Column: "s"}}}},
		},
	} {
		t.Run(tt.name, func(t *testing.T) {
			plain := huntCache(t, nil)
			huntFill(t, plain, rows...)
			expected := huntSelect(t, plain, tt.conds...)
			require.Equal(t, []string{"row0"}, expected, "without index")
			indexed := huntCache(t, tt.indexes)
			huntFill(t, indexed, rows...)
			got := huntSelect(t, indexed, tt.conds...)
			if !reflect.DeepEqual(expected, got) {
				t.Fatalf("conditions %v: expected %v, as without index, but with client index %v got %v", tt.conds, expected, tt.indexes, got)
			}
		})
	}
}

// Finding 4: indexes are identified by the comma-joined, sorted list of
// "column" or "column|key" names. A client index over the single map key
// "k1,s" of column m is named "m|k1,s", which is also the name computed for the
// pair of conditions (m includes {k1: ...}, s == ...): the pre-filter then
// looks the conditions up in an index that describes something else.
func TestHuntIndexNameCollision(t *testing.T) {
	rows := []*huntModel{
		{UUID: "row0", S: "x", M: map[string]string{"k1": "a", "k1,s": "whatever"}},
		{UUID: "row1", S: "y", M: map[string]string{"k1": "a"}},
	}
	conds := []ovsdb.Condition{
		ovsdb.NewCondition("m", ovsdb.ConditionIncludes, huntOvsMap(map[string]string{"k1": "a"})),
		ovsdb.NewCondition("s", ovsdb.ConditionEqual, "x"),
	}
	plain := huntCache(t, nil)
	huntFill(t, plain, rows...)
	expected := huntSelect(t, plain, conds...)
	require.Equal(t, []string{"row0"}, expected, "without index")

	indexed := huntCache(t, []model.ClientIndex{{Columns: []model.ColumnKey{{Column: "m", Key: "k1,s"}}}})
	huntFill(t, indexed, rows...)
	got := huntSelect(t, indexed, conds...)
	if !reflect.DeepEqual(expected, got) {
		t.Fatalf("conditions %v: expected %v, as without index, but with a client index over key \"k1,s\" of column m got %v", conds, expected, got)
	}
}

type huntTwoIndexModel struct {
	UUID  string `ovsdb:"_uuid"`
	Name  string `ovsdb:"name"`
	Other string `ovsdb:"other"`
	Kind  string `ovsdb:"kind"`
}

func huntTwoIndexCache(t *testing.T, indexes []model.ClientIndex) *TableCache {
	var schema ovsdb.DatabaseSchema
	require.NoError(t, json.Unmarshal([]byte(`{"name": "DB", "tables": {"T": {
		"indexes": [["name"], ["other"]],
		"columns": {"name": {"type": "string"}, "other": {"type": "string"}, "kind": {"type": "string"}}}}}`), &schema))
	db, err := model.NewClientDBModel("DB", map[string]model.Model{"T": &huntTwoIndexModel{}})
	require.NoError(t, err)
	if indexes != nil {
		db.SetIndexes(map[string][]model.ClientIndex{"T": indexes})
	}
	dbModel, errs := model.NewDatabaseModel(schema, db)
	require.Empty(t, errs)
	tc, err := NewTableCache(dbModel, nil, nil)
	require.NoError(t, err)
	return tc
}

// Finding 5: index selection for Where(model) (RowCache.RowsByModels). The
// first usable index of a model is the first of _uuid, schema indexes, client
// indexes for which the model holds non-default values (this is what
// mapper.NewEqualityCondition and Info.getValidIndexes implement, and what is
// sent to the server when the cache has no match). RowsByModels instead tries
// every index in turn, including those for which the model holds only default
// values, until one of them has an entry.
func TestHuntRowsByModelsIndexSelection(t *testing.T) {
	names := func(rows map[string]model.Model) []string {
		out := []string{}
		for _, r := range rows {
			out = append(out, r.(*huntTwoIndexModel).Name)
		}
		sort.Strings(out)
		return out
	}
	// what the same models select when their first usable index is turned
	// into conditions, as Where(model) does when the cache has no match
	byConditions := func(t *testing.T, tc *TableCache, m *huntTwoIndexModel) []string {
		info, err := tc.DatabaseModel().NewModelInfo(m)
		require.NoError(t, err)
		conds, err := tc.Mapper().NewEqualityCondition(info)
		require.NoError(t, err)
		rows, err := tc.Table("T").RowsByCondition(conds)
		require.NoError(t, err)
		return names(rows)
	}

	for _, tt := range []struct {
		name    string
		indexes []model.ClientIndex
		model   *huntTwoIndexModel
	}{
		{
			// first usable index: name == "nonexistent". The model has nothing
			// for the client index over kind, yet all rows with an empty kind
			// are returned
			"client index for which the model holds the default value",
			[]model.ClientIndex{{Columns: []model.ColumnKey{{Column: "kind"}}}},
			&huntTwoIndexModel{Name: "nonexistent"},
		},
		{
			// first usable index: name == "nonexistent"; the second schema
			// index is used because the first has no entry
			"second schema index although the first is usable",
			nil,
			&huntTwoIndexModel{Name: "nonexistent", Other: "o2"},
		},
		{
			// first usable index: _uuid; no row has it
			"uuid of no row, then an index",
			nil,
			&huntTwoIndexModel{UUID: "00000000-0000-4000-8000-00000000dead", Name: "n1"},
		},
	} {
		t.Run(tt.name, func(t *testing.T) {
			tc := huntTwoIndexCache(t, tt.indexes)
			for _, row := range []*huntTwoIndexModel{
				{UUID: "row1", Name: "n1", Other: "o1"},
				{UUID: "row2", Name: "n2", Other: "o2"},
			} {
				require.NoError(t, tc.Table("T").Create(row.UUID, row, true))
			}
			expected := byConditions(t, tc, tt.model)
			require.Empty(t, expected, "rows for which the first usable index of the model holds")
			rows, err := tc.Table("T").RowsByModels([]model.Model{tt.model})
			require.NoError(t, err)
			if got := names(rows); !reflect.DeepEqual(got, expected) {
				t.Fatalf("RowsByModels(%+v): expected no row, as with the conditions of the first usable index of the model; got %v", *tt.model, got)
			}
		})
	}
}
