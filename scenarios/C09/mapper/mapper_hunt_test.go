package mapper

import (
	"encoding/json"
	"testing"

	"github.com/ovn-org/libovsdb/ovsdb"
)

const (
	huntU1 = "2f77b348-9768-4866-b761-89d5177ecda1"
	huntU2 = "2f77b348-9768-4866-b761-89d5177ecda2"
	huntU3 = "2f77b348-9768-4866-b761-89d5177ecda3"
)

func huntSchema(t *testing.T, columns string) ovsdb.DatabaseSchema {
	t.Helper()
	var schema ovsdb.DatabaseSchema
	if err := json.Unmarshal([]byte(`{"name":"DB","tables":{"T":{"columns":{`+columns+`}}}}`), &schema); err != nil {
		t.Fatalf("schema: %v", err)
	}
	return schema
}

// A map column keyed by uuids, {"key":"uuid","value":"string"}: the keys of a
// "delete" mutation given as a list of keys (RFC 7047 5.1, <mutation>) are
// uuids and must be written ["uuid", "..."], as NativeToOvs writes them for
// the same native []string in a set column and for the keys of a map.
// NewMutation writes them as plain JSON strings instead.
func TestHuntMutationDeleteKeysOfUUIDKeyedMap(t *testing.T) {
	schema := huntSchema(t, `"m":{"type":{"key":{"type":"uuid"},"value":"string","min":0,"max":"unlimited"}},
		"s":{"type":{"key":{"type":"uuid"},"min":0,"max":"unlimited"}}`)
	type model struct {
		UUID string            `ovsdb:"_uuid"`
		M    map[string]string `ovsdb:"m"`
		S    []string          `ovsdb:"s"`
	}
	m := NewMapper(schema)
	obj := &model{}
	info, err := NewInfo("T", schema.Table("T"), obj)
	if err != nil {
		t.Fatal(err)
	}

	for _, tc := range []struct {
		keys []string
		want string
	}{
		{[]string{huntU1, huntU2}, `["m","delete",["set",[["uuid","` + huntU1 + `"],["uuid","` + huntU2 + `"]]]]`},
		{[]string{huntU1}, `["m","delete",["uuid","` + huntU1 + `"]]`},
	} {
		// reference: the very same native value for a set-of-uuid column
		ref, err := m.NewMutation(info, "s", ovsdb.MutateOperationDelete, tc.keys)
		if err != nil {
			t.Fatal(err)
		}
		refJSON, _ := json.Marshal(ref)
		t.Logf("set column, same native value: %s", refJSON)

		mut, err := m.NewMutation(info, "m", ovsdb.MutateOperationDelete, tc.keys)
		if err != nil {
			t.Fatalf("NewMutation: %v", err)
		}
		got, err := json.Marshal(mut)
		if err != nil {
			t.Fatal(err)
		}
		if string(got) != tc.want {
			t.Errorf("delete of keys %v from a map keyed by uuid:\n expected the mutation %s\n      but got        %s\n (uuid keys written as JSON strings, not as [\"uuid\", ...] atoms)", tc.keys, tc.want, got)
		}

		// what the receiving side makes of it: the mutation goes through JSON and
		// its value is read back as a list of keys of the column
		var back ovsdb.Mutation
		if err := json.Unmarshal(got, &back); err != nil {
			t.Fatalf("unmarshal %s: %v", got, err)
		}
		native, err := ovsdb.OvsToNativeSlice(schema.Table("T").Column("m").TypeObj.Key.Type, back.Value)
		if err != nil {
			t.Errorf("keys %v sent as %s: expected them to be read back as the same []string, but the conversion fails: %v", tc.keys, got, err)
		} else if ks, ok := native.([]string); !ok || len(ks) != len(tc.keys) {
			t.Errorf("keys %v sent as %s: read back as %#v", tc.keys, got, native)
		}
	}
}

// NewRow writes the _uuid field of a model in the row (column "_uuid");
// GetRowData never reads it back: the row goes through JSON and the mapped
// field UUID of the model that comes back is empty.
func TestHuntUUIDFieldNotReadBackFromRow(t *testing.T) {
	t.Skip("by design: the uuid comes with the row's key, nil and empty collections are one value")
	schema := huntSchema(t, `"name":{"type":"string"}`)
	type model struct {
		UUID string `ovsdb:"_uuid"`
		Name string `ovsdb:"name"`
	}
	m := NewMapper(schema)
	in := &model{UUID: huntU1, Name: "foo"}
	info, err := NewInfo("T", schema.Table("T"), in)
	if err != nil {
		t.Fatal(err)
	}
	row, err := m.NewRow(info)
	if err != nil {
		t.Fatal(err)
	}
	b, err := json.Marshal(row)
	if err != nil {
		t.Fatal(err)
	}
	var back ovsdb.Row
	if err := json.Unmarshal(b, &back); err != nil {
		t.Fatal(err)
	}
	if _, ok := back["_uuid"]; !ok {
		t.Fatalf("row %s carries no _uuid", b)
	}
	out := &model{}
	outInfo, _ := NewInfo("T", schema.Table("T"), out)
	if err := m.GetRowData(&back, outInfo); err != nil {
		t.Fatal(err)
	}
	if out.Name != in.Name {
		t.Errorf("name: expected %q got %q", in.Name, out.Name)
	}
	if out.UUID != in.UUID {
		t.Errorf("row %s: expected the mapped field UUID (column _uuid) to come back as %q, but got %q", b, in.UUID, out.UUID)
	}
}

// A nil value given to NewMutation for an insert/delete on a set column has no
// Go type that fits the column: it must be rejected with an error (as it is
// for every other column kind and for NewCondition). It panics instead.
func TestHuntMutationNilValuePanics(t *testing.T) {
	schema := huntSchema(t, `"s":{"type":{"key":"string","min":0,"max":"unlimited"}},
		"m":{"type":{"key":"string","value":"string","min":0,"max":"unlimited"}},
		"i":{"type":"integer"}`)
	type model struct {
		UUID string            `ovsdb:"_uuid"`
		S    []string          `ovsdb:"s"`
		M    map[string]string `ovsdb:"m"`
		I    int               `ovsdb:"i"`
	}
	m := NewMapper(schema)
	obj := &model{}
	info, err := NewInfo("T", schema.Table("T"), obj)
	if err != nil {
		t.Fatal(err)
	}
	// the reference behaviour: an error
	if _, err := m.NewMutation(info, "m", ovsdb.MutateOperationInsert, nil); err == nil {
		t.Errorf("map column: nil accepted")
	}
	if _, err := m.NewMutation(info, "i", ovsdb.MutateOperationAdd, nil); err == nil {
		t.Errorf("integer column: nil accepted")
	}
	if _, err := m.NewCondition(info, &obj.S, ovsdb.ConditionIncludes, nil); err == nil {
		t.Errorf("condition on the set column: nil accepted")
	}
	for _, mutator := range []ovsdb.Mutator{ovsdb.MutateOperationInsert, ovsdb.MutateOperationDelete} {
		func() {
			defer func() {
				if r := recover(); r != nil {
					t.Errorf("NewMutation(set column s, %q, nil): expected an error (wrong type), but it panics: %v", mutator, r)
				}
			}()
			if _, err := m.NewMutation(info, "s", mutator, nil); err == nil {
				t.Errorf("NewMutation(set column s, %q, nil): expected an error, got none", mutator)
			}
		}()
	}
}

// Empty collections. OVSDB has one empty set and one empty map; the mapping has
// two Go values for each (nil and empty non-nil) and swaps them in a round trip:
//   - a nil slice/map written on request (field pointers) comes back as an
//     empty non-nil one,
//   - an empty non-nil slice/map is left out of the row and comes back as nil.
// The library's own comparison of mapped fields (Mapper.EqualFields, and
// model.Equal, both reflect.DeepEqual) then reports that the model that came
// back is not equal to the one that was sent.
func TestHuntEmptyCollectionsChangeInRoundTrip(t *testing.T) {
	t.Skip("by design: the uuid comes with the row's key, nil and empty collections are one value")
	schema := huntSchema(t, `"name":{"type":"string"},
		"s":{"type":{"key":"string","min":0,"max":"unlimited"}},
		"m":{"type":{"key":"string","value":"string","min":0,"max":"unlimited"}}`)
	type model struct {
		UUID string            `ovsdb:"_uuid"`
		Name string            `ovsdb:"name"`
		S    []string          `ovsdb:"s"`
		M    map[string]string `ovsdb:"m"`
	}
	m := NewMapper(schema)
	roundTrip := func(in *model, explicit bool) *model {
		info, err := NewInfo("T", schema.Table("T"), in)
		if err != nil {
			t.Fatal(err)
		}
		var row ovsdb.Row
		if explicit {
			row, err = m.NewRow(info, &in.Name, &in.S, &in.M)
		} else {
			row, err = m.NewRow(info)
		}
		if err != nil {
			t.Fatal(err)
		}
		b, err := json.Marshal(row)
		if err != nil {
			t.Fatal(err)
		}
		var back ovsdb.Row
		if err := json.Unmarshal(b, &back); err != nil {
			t.Fatal(err)
		}
		out := &model{}
		outInfo, _ := NewInfo("T", schema.Table("T"), out)
		if err := m.GetRowData(&back, outInfo); err != nil {
			t.Fatal(err)
		}
		t.Logf("row on the wire: %s", b)
		return out
	}
	check := func(what string, in, out *model) {
		inInfo, _ := NewInfo("T", schema.Table("T"), in)
		outInfo, _ := NewInfo("T", schema.Table("T"), out)
		for _, f := range []struct {
			name string
			ptr  interface{}
		}{{"s", &in.S}, {"m", &in.M}} {
			eq, err := m.EqualFields(inInfo, outInfo, f.ptr)
			if err != nil {
				t.Fatal(err)
			}
			if !eq {
				t.Errorf("%s, column %s: expected the model that comes back to have the same value in the field (EqualFields true), but sent %#v / %#v and got %#v / %#v (EqualFields false)",
					what, f.name, in.S, in.M, out.S, out.M)
			}
		}
	}
	in := &model{Name: "n"} // nil set, nil map
	check("nil collections written with field pointers", in, roundTrip(in, true))
	in = &model{Name: "n", S: []string{}, M: map[string]string{}}
	check("empty non-nil collections, default NewRow", in, roundTrip(in, false))
}

// A JSON number that is not a 64-bit integer, received for an integer column,
// is not rejected: it is converted (to the smallest int64).
func TestHuntOutOfRangeNumberForIntegerColumn(t *testing.T) {
	schema := huntSchema(t, `"i":{"type":"integer"}`)
	type model struct {
		UUID string `ovsdb:"_uuid"`
		I    int    `ovsdb:"i"`
	}
	m := NewMapper(schema)
	for _, wire := range []string{`1e19`, `-1e300`, `18446744073709551616`} {
		var row ovsdb.Row
		if err := json.Unmarshal([]byte(`{"i":`+wire+`}`), &row); err != nil {
			t.Fatal(err)
		}
		out := &model{}
		info, _ := NewInfo("T", schema.Table("T"), out)
		if err := m.GetRowData(&row, info); err == nil {
			t.Errorf("integer column, value %s on the wire: expected an error (not a 64-bit integer), but it is converted to %d", wire, out.I)
		}
	}
}
