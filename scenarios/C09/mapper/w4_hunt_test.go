package mapper

import (
	"encoding/json"
	"testing"

	"github.com/ovn-org/libovsdb/ovsdb"
)

// A column whose type is a single uuid restricted by "enum" (RFC 7047 3.2:
// <base-type> "enum" is allowed for every atomic type) is a TypeEnum column
// with key type uuid. OvsToNative decodes it as a uuid (it wants ["uuid", x]),
// but NativeToOvs encodes every TypeEnum column as the bare native value, so
// the model -> row -> JSON -> row -> model trip fails, and the row that is sent
// holds a JSON string where a <uuid> is required.
func TestHuntEnumOfUUIDRoundTrip(t *testing.T) {
	const u0 = "2f77b348-9768-4866-b761-89d5177ecda0"
	const u1 = "2f77b348-9768-4866-b761-89d5177ecda1"
	var schema ovsdb.DatabaseSchema
	err := json.Unmarshal([]byte(`{"name":"db","tables":{"T":{"columns":{
		"ref":{"type":{"key":{"type":"uuid","enum":["set",[["uuid","`+u0+`"],["uuid","`+u1+`"]]]}}},
		"plain":{"type":"uuid"}}}}}`), &schema)
	if err != nil {
		t.Fatal(err)
	}
	type model struct {
		UUID  string `ovsdb:"_uuid"`
		Ref   string `ovsdb:"ref"`
		Plain string `ovsdb:"plain"`
	}
	table := schema.Table("T")
	if got := table.Column("ref").Type; got != ovsdb.TypeEnum {
		t.Fatalf("test setup: column ref has extended type %q", got)
	}
	m := NewMapper(schema)

	src := &model{Ref: u1, Plain: u1}
	info, err := NewInfo("T", table, src)
	if err != nil {
		t.Fatalf("the model is refused: %v", err)
	}
	row, err := m.NewRow(info)
	if err != nil {
		t.Fatalf("NewRow: %v", err)
	}
	wire, err := json.Marshal(row)
	if err != nil {
		t.Fatal(err)
	}

	// wire form: both columns hold one uuid, RFC 7047 5.1 <uuid> is ["uuid", x]
	var raw map[string]json.RawMessage
	if err := json.Unmarshal(wire, &raw); err != nil {
		t.Fatal(err)
	}
	if string(raw["ref"]) != string(raw["plain"]) {
		t.Errorf("wire form of the uuid enum column: expected %s (as for the plain uuid column), got %s", raw["plain"], raw["ref"])
	}

	var back ovsdb.Row
	if err := json.Unmarshal(wire, &back); err != nil {
		t.Fatal(err)
	}
	dst := &model{}
	dinfo, err := NewInfo("T", table, dst)
	if err != nil {
		t.Fatal(err)
	}
	if err := m.GetRowData(&back, dinfo); err != nil {
		t.Fatalf("row %s made by NewRow from %+v: expected GetRowData to give the same model back, got error: %v", wire, *src, err)
	}
	if dst.Ref != src.Ref || dst.Plain != src.Plain {
		t.Fatalf("row %s: expected %+v, got %+v", wire, *src, *dst)
	}
}
