package server

import (
	"context"
	"encoding/json"
	"fmt"
	"os"
	"reflect"
	"testing"
	"time"

	"github.com/ovn-org/libovsdb/client"
	"github.com/ovn-org/libovsdb/database/inmemory"
	"github.com/ovn-org/libovsdb/model"
	"github.com/ovn-org/libovsdb/ovsdb"
)

const (
	huntU1 = "2f77b348-9768-4866-b761-89d5177ecda1"
	huntU2 = "2f77b348-9768-4866-b761-89d5177ecda2"
)

type huntRow struct {
	UUID string            `ovsdb:"_uuid"`
	Name string            `ovsdb:"name"`
	M    map[string]string `ovsdb:"m"`
	I    map[int]string    `ovsdb:"i"`
}

// End to end (client API -> JSON-RPC -> in-memory server -> monitor -> cache):
// deleting keys, given as a list of keys, from a map column works for a map
// keyed by integers and fails for a map keyed by uuids.
func TestHuntEndToEndDeleteKeysOfUUIDKeyedMap(t *testing.T) {
	var schema ovsdb.DatabaseSchema
	err := json.Unmarshal([]byte(`{"name":"DB","version":"1.0.0","tables":{"T":{"columns":{
		"name":{"type":"string"},
		"m":{"type":{"key":{"type":"uuid"},"value":"string","min":0,"max":"unlimited"}},
		"i":{"type":{"key":{"type":"integer"},"value":"string","min":0,"max":"unlimited"}}
	},"isRoot":true,"indexes":[["name"]]}}}`), &schema)
	if err != nil {
		t.Fatal(err)
	}
	cdb, err := model.NewClientDBModel("DB", map[string]model.Model{"T": &huntRow{}})
	if err != nil {
		t.Fatal(err)
	}
	dbModel, errs := model.NewDatabaseModel(schema, cdb)
	if len(errs) > 0 {
		t.Fatal(errs)
	}
	db := inmemory.NewDatabase(map[string]model.ClientDBModel{"DB": cdb})
	srv, err := NewOvsdbServer(db, dbModel)
	if err != nil {
		t.Fatal(err)
	}
	sock := fmt.Sprintf("/tmp/hunt-c09-%d.sock", os.Getpid())
	defer os.Remove(sock)
	go func() { _ = srv.Serve("unix", sock) }()
	defer srv.Close()
	for i := 0; i < 200 && !srv.Ready(); i++ {
		time.Sleep(10 * time.Millisecond)
	}
	ctx, cancel := context.WithTimeout(context.Background(), 10*time.Second)
	defer cancel()
	c, err := client.NewOVSDBClient(cdb, client.WithEndpoint("unix:"+sock))
	if err != nil {
		t.Fatal(err)
	}
	if err := c.Connect(ctx); err != nil {
		t.Fatal(err)
	}
	defer c.Disconnect()
	if _, err := c.MonitorAll(ctx); err != nil {
		t.Fatal(err)
	}

	row := &huntRow{Name: "r", M: map[string]string{huntU1: "a", huntU2: "b"}, I: map[int]string{1: "a", 2: "b"}}
	ops, err := c.Create(row)
	if err != nil {
		t.Fatal(err)
	}
	reply, err := c.Transact(ctx, ops...)
	if err != nil {
		t.Fatal(err)
	}
	if _, err := ovsdb.CheckOperationResults(reply, ops); err != nil {
		t.Fatalf("insert: %v", err)
	}
	uuid := reply[0].UUID.GoUUID

	get := func() *huntRow {
		r := &huntRow{UUID: uuid}
		for i := 0; i < 100; i++ {
			if err := c.Get(ctx, r); err == nil {
				return r
			}
			time.Sleep(10 * time.Millisecond)
		}
		t.Fatal("row not in cache")
		return nil
	}
	r := get()
	if !reflect.DeepEqual(r.M, row.M) || !reflect.DeepEqual(r.I, row.I) {
		t.Fatalf("inserted %+v, cache has %+v", row, r)
	}

	// integer keys: fine
	ops, err = c.Where(r).Mutate(r, model.Mutation{Field: &r.I, Mutator: ovsdb.MutateOperationDelete, Value: []int{1}})
	if err != nil {
		t.Fatal(err)
	}
	reply, err = c.Transact(ctx, ops...)
	if err != nil {
		t.Fatal(err)
	}
	if opErrs, err := ovsdb.CheckOperationResults(reply, ops); err != nil {
		t.Fatalf("delete of key 1 from the integer-keyed map: %v %+v", err, opErrs)
	}

	// uuid keys
	ops, err = c.Where(r).Mutate(r, model.Mutation{Field: &r.M, Mutator: ovsdb.MutateOperationDelete, Value: []string{huntU1}})
	if err != nil {
		t.Fatalf("Mutate: %v", err)
	}
	opsJSON, _ := json.Marshal(ops)
	reply, err = c.Transact(ctx, ops...)
	if err != nil {
		t.Fatal(err)
	}
	if opErrs, err := ovsdb.CheckOperationResults(reply, ops); err != nil {
		t.Errorf("delete of key %s from the uuid-keyed map m: expected the operation to succeed, but the server answers %v %+v\n operations sent: %s", huntU1, err, opErrs, opsJSON)
	}
	want := map[string]string{huntU2: "b"}
	var got *huntRow
	for i := 0; i < 50; i++ {
		got = get()
		if reflect.DeepEqual(got.M, want) {
			break
		}
		time.Sleep(10 * time.Millisecond)
	}
	if !reflect.DeepEqual(got.I, map[int]string{2: "b"}) {
		t.Errorf("integer-keyed map: expected %v got %v", map[int]string{2: "b"}, got.I)
	}
	if !reflect.DeepEqual(got.M, want) {
		t.Errorf("uuid-keyed map after deleting key %s: expected %v, got %v", huntU1, want, got.M)
	}
}
