package updates

import (
	"encoding/json"
	"fmt"
	"sort"
	"testing"

	"github.com/ovn-org/libovsdb/model"
	"github.com/ovn-org/libovsdb/ovsdb"
)

// Demonstrations for property C10 (a modify difference, applied to the old
// value, gives the new value). Each test fails on the unmodified library.

const huntC10Schema = `{
 "name": "Hunt",
 "version": "0.0.1",
 "tables": {
  "T": {
   "columns": {
    "name": {"type": "string"},
    "peer": {"type": "uuid"},
    "tags": {"type": {"key": "string", "min": 0, "max": "unlimited"}}
   }
  }
 }
}`

type huntC10Row struct {
	UUID string   `ovsdb:"_uuid"`
	Name string   `ovsdb:"name"`
	Peer string   `ovsdb:"peer"`
	Tags []string `ovsdb:"tags"`
}

const (
	huntC10UUID  = "11111111-1111-1111-1111-111111111111"
	huntC10Zero  = "00000000-0000-0000-0000-000000000000"
	huntC10Other = "aaaaaaaa-aaaa-aaaa-aaaa-aaaaaaaaaaaa"
)

func huntC10Model(t *testing.T) model.DatabaseModel {
	var schema ovsdb.DatabaseSchema
	if err := json.Unmarshal([]byte(huntC10Schema), &schema); err != nil {
		t.Fatal(err)
	}
	cm, err := model.NewClientDBModel("Hunt", map[string]model.Model{"T": &huntC10Row{}})
	if err != nil {
		t.Fatal(err)
	}
	dbm, errs := model.NewDatabaseModel(schema, cm)
	if len(errs) > 0 {
		t.Fatal(errs)
	}
	return dbm
}

func huntC10Set(s []string) string {
	seen := map[string]bool{}
	out := []string{}
	for _, e := range s {
		if !seen[e] {
			seen[e] = true
			out = append(out, e)
		}
	}
	sort.Strings(out)
	return fmt.Sprintf("%q", out)
}

// update operation on the server side: returns the model after the operation
func huntC10Update(t *testing.T, dbm model.DatabaseModel, mu *ModelUpdates, current model.Model, row ovsdb.Row) model.Model {
	t.Helper()
	op := ovsdb.Operation{Op: ovsdb.OperationUpdate, Table: "T", Row: row}
	if err := mu.AddOperation(dbm, "T", huntC10UUID, current, &op); err != nil {
		t.Fatalf("update %v: %v", row, err)
	}
	if m := mu.GetModel("T", huntC10UUID); m != nil {
		return m
	}
	return current
}

func huntC10Modify(mu ModelUpdates) *ovsdb.Row {
	if mu.updates == nil || mu.updates["T"] == nil {
		return nil
	}
	up, ok := mu.updates["T"][huntC10UUID]
	if !ok || up.rowUpdate2 == nil {
		return nil
	}
	return up.rowUpdate2.Modify
}

// Finding 1. Two modify differences received from a peer for the same row and
// aggregated in one ModelUpdates (AddRowUpdate2 documents this use: "If
// several updates for the same model are aggregated, ...") crash with a nil
// pointer dereference: mergeModifyRow dereferences rowUpdate2.Old, which a
// RowUpdate2 coming from a peer never has (the field is `json:"-"`).
// Expected: the second difference is applied to the result of the first one
// (set elements toggle membership): {x} -> {x,y} -> {y}.
func TestHuntC10TwoPeerModifiesAggregated(t *testing.T) {
	dbm := huntC10Model(t)
	a := &huntC10Row{UUID: huntC10UUID, Name: "n", Tags: []string{"x"}}

	mu := ModelUpdates{}
	var second model.Model
	err := func() (err error) {
		defer func() {
			if r := recover(); r != nil {
				err = fmt.Errorf("panic: %v", r)
			}
		}()
		d1 := ovsdb.Row{"tags": ovsdb.OvsSet{GoSet: []interface{}{"y"}}}
		if err := mu.AddRowUpdate2(dbm, "T", huntC10UUID, a, ovsdb.RowUpdate2{Modify: &d1}); err != nil {
			return err
		}
		first := mu.GetModel("T", huntC10UUID)
		if first == nil || huntC10Set(first.(*huntC10Row).Tags) != huntC10Set([]string{"x", "y"}) {
			return fmt.Errorf("after the first difference the model is %+v, expected tags {x,y}", first)
		}
		d2 := ovsdb.Row{"tags": ovsdb.OvsSet{GoSet: []interface{}{"x"}}}
		if err := mu.AddRowUpdate2(dbm, "T", huntC10UUID, first, ovsdb.RowUpdate2{Modify: &d2}); err != nil {
			return err
		}
		second = mu.GetModel("T", huntC10UUID)
		return nil
	}()
	if err != nil {
		t.Fatalf("expected: applying the differences {y} and then {x} to tags={x} gives tags={y}; got: %v", err)
	}
	if second == nil || huntC10Set(second.(*huntC10Row).Tags) != huntC10Set([]string{"y"}) {
		t.Fatalf("expected tags {y} after applying {y} then {x} to {x}, got %+v", second)
	}
}

// Finding 2. a == b but the difference computed for a -> b is not empty: a
// uuid column holding the all-zero uuid is changed and changed back in the
// same set of updates. mergeModifyRow assumes that a column missing from the
// old row (NewRow leaves out default values, and the all-zero uuid is one) had
// the Go zero value of its OVS notation, which for ovsdb.UUID is
// UUID{GoUUID: ""} and not UUID{GoUUID: "0000..."}; so it does not notice that
// the second update restores the original value. The same sequence on any
// other column type (string "", integer 0, empty set/map, unset optional)
// yields no update at all.
func TestHuntC10ZeroUUIDChangedAndRestored(t *testing.T) {
	dbm := huntC10Model(t)
	a := &huntC10Row{UUID: huntC10UUID, Name: "n", Peer: huntC10Zero}
	mu := ModelUpdates{}
	c := huntC10Update(t, dbm, &mu, a, ovsdb.Row{"peer": ovsdb.UUID{GoUUID: huntC10Other}})
	b := huntC10Update(t, dbm, &mu, c, ovsdb.Row{"peer": ovsdb.UUID{GoUUID: huntC10Zero}})
	if b.(*huntC10Row).Peer != a.Peer {
		t.Fatalf("test setup: b.peer = %q", b.(*huntC10Row).Peer)
	}
	if modify := huntC10Modify(mu); modify != nil {
		t.Fatalf("a.peer == b.peer == %q: expected no modify difference for a -> c -> b, got modify = %v", a.Peer, *modify)
	}
}

// control for finding 2: the same round trip on a string column holding its
// default value cancels out (passes)
func TestHuntC10ControlStringChangedAndRestored(t *testing.T) {
	dbm := huntC10Model(t)
	a := &huntC10Row{UUID: huntC10UUID, Name: ""}
	mu := ModelUpdates{}
	c := huntC10Update(t, dbm, &mu, a, ovsdb.Row{"name": "other"})
	huntC10Update(t, dbm, &mu, c, ovsdb.Row{"name": ""})
	if modify := huntC10Modify(mu); modify != nil {
		t.Fatalf("expected no modify, got %v", *modify)
	}
}

// Finding 3. An update whose row gives a set with a repeated element
// (["set",["y","y"]]; ovsdb-server rejects it, the library takes it as is)
// stores the repetition in the model. From then on the differences computed
// from that model are wrong: for a = [y y] and b = [y], which are the same
// set, the difference is {y} instead of empty, and a replica that follows the
// modify differences (as a client cache does) ends up with the empty set while
// the row holds {y}.
func TestHuntC10RepeatedSetElement(t *testing.T) {
	dbm := huntC10Model(t)
	a := &huntC10Row{UUID: huntC10UUID, Name: "n", Tags: []string{"x"}}

	apply := func(replica model.Model, modify *ovsdb.Row) model.Model {
		if modify == nil {
			return replica
		}
		// as received over the wire
		bs, err := json.Marshal(modify)
		if err != nil {
			t.Fatal(err)
		}
		var row ovsdb.Row
		if err := json.Unmarshal(bs, &row); err != nil {
			t.Fatal(err)
		}
		mu := ModelUpdates{}
		if err := mu.AddRowUpdate2(dbm, "T", huntC10UUID, replica, ovsdb.RowUpdate2{Modify: &row}); err != nil {
			t.Fatal(err)
		}
		if m := mu.GetModel("T", huntC10UUID); m != nil {
			return m
		}
		return replica
	}

	// first transaction: tags := ["set",["y","y"]]
	mu1 := ModelUpdates{}
	s1 := huntC10Update(t, dbm, &mu1, a, ovsdb.Row{"tags": ovsdb.OvsSet{GoSet: []interface{}{"y", "y"}}})
	r1 := apply(a, huntC10Modify(mu1))
	if huntC10Set(s1.(*huntC10Row).Tags) != huntC10Set(r1.(*huntC10Row).Tags) {
		t.Fatalf("after the first update the row holds %v and the replica %v", s1.(*huntC10Row).Tags, r1.(*huntC10Row).Tags)
	}

	// second transaction: tags := ["set",["y"]], the same set
	mu2 := ModelUpdates{}
	s2 := huntC10Update(t, dbm, &mu2, s1, ovsdb.Row{"tags": ovsdb.OvsSet{GoSet: []interface{}{"y"}}})
	modify := huntC10Modify(mu2)
	r2 := apply(r1, modify)
	if modify != nil {
		t.Errorf("tags %q -> %q are equal as sets: expected an empty difference, got modify = %v",
			s1.(*huntC10Row).Tags, s2.(*huntC10Row).Tags, *modify)
	}
	if huntC10Set(s2.(*huntC10Row).Tags) != huntC10Set(r2.(*huntC10Row).Tags) {
		t.Errorf("after the second update the row holds tags %s but a replica that applied the modify differences holds %s",
			huntC10Set(s2.(*huntC10Row).Tags), huntC10Set(r2.(*huntC10Row).Tags))
	}
}
