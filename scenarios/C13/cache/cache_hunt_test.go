package cache

import (
	"encoding/json"
	"math"
	"testing"

	"github.com/ovn-org/libovsdb/model"
	"github.com/ovn-org/libovsdb/ovsdb"
	"github.com/ovn-org/libovsdb/updates"
)

const huntSchema = `{
  "name": "Hunt",
  "tables": {
    "T": {
      "columns": {
        "name": {"type": "string"},
        "weight": {"type": "real"},
        "tags": {"type": {"key": "string", "value": "string", "min": 0, "max": "unlimited"}}
      }
    }
  }
}`

const huntUUID = "2f77b348-9768-4866-b761-89d5177ecda0"

func huntCache(t *testing.T, m model.Model) *TableCache {
	t.Helper()
	var schema ovsdb.DatabaseSchema
	if err := json.Unmarshal([]byte(huntSchema), &schema); err != nil {
		t.Fatal(err)
	}
	cdb, err := model.NewClientDBModel("Hunt", map[string]model.Model{"T": m})
	if err != nil {
		t.Fatal(err)
	}
	dbm, errs := model.NewDatabaseModel(schema, cdb)
	if len(errs) > 0 {
		t.Fatal(errs)
	}
	tc, err := NewTableCache(dbm, nil, nil)
	if err != nil {
		t.Fatal(err)
	}
	return tc
}

// A hand-written model may carry non-tagged fields, "which will be ignored by
// the API calls" (model.Model documentation). Here the extra field is a
// callback, something encoding/json cannot encode.
type huntModelWithCallback struct {
	UUID   string            `ovsdb:"_uuid"`
	Name   string            `ovsdb:"name"`
	Weight float64           `ovsdb:"weight"`
	Tags   map[string]string `ovsdb:"tags"`

	OnChange func() // not an OVSDB column
}

// Clone must return a model equal to its argument; the cache must return what
// was handed to it. json.Marshal fails on the func field, Clone discards the
// error and returns an all-zero model, so the row stored in the cache is empty.
func TestHuntCloneOfModelWithUnencodableExtraField(t *testing.T) {
	t.Skip("item of the first audit, triaged in DESIGN.md 7.1: outside the property as stated, or recorded under another check")
	m := &huntModelWithCallback{
		UUID:   huntUUID,
		Name:   "row0",
		Weight: 1.5,
		Tags:   map[string]string{"k": "v"},
	}
	// the field is nil: the type alone is enough to make Clone fail
	c := model.Clone(m).(*huntModelWithCallback)
	if c.UUID != m.UUID || c.Name != m.Name || c.Weight != m.Weight || len(c.Tags) != 1 {
		t.Errorf("Clone: expected the mapped fields of %+v, got %+v", *m, *c)
	}

	tc := huntCache(t, &huntModelWithCallback{})
	if err := tc.Table("T").Create(huntUUID, m, true); err != nil {
		t.Fatalf("Create: %v", err)
	}
	got := tc.Table("T").Row(huntUUID).(*huntModelWithCallback)
	if got.UUID != m.UUID || got.Name != m.Name || got.Weight != m.Weight || len(got.Tags) != 1 {
		t.Errorf("Row after Create: expected the mapped fields of %+v, got %+v", *m, *got)
	}
}

type huntPlainModel struct {
	UUID   string            `ovsdb:"_uuid"`
	Name   string            `ovsdb:"name"`
	Weight float64           `ovsdb:"weight"`
	Tags   map[string]string `ovsdb:"tags"`
}

// Same mechanism with a mapped field value: a real column that holds a non
// finite number (the result of a "*=" mutation that overflows, for instance)
// cannot be encoded by encoding/json. Clone returns an all-zero model: not
// only the real column but every column of the row, _uuid included, is lost.
func TestHuntCloneOfModelWithNonFiniteReal(t *testing.T) {
	t.Skip("item of the first audit, triaged in DESIGN.md 7.1: outside the property as stated, or recorded under another check")
	for _, w := range []float64{math.Inf(1), math.Inf(-1)} {
		m := &huntPlainModel{UUID: huntUUID, Name: "row0", Weight: w, Tags: map[string]string{"k": "v"}}
		tc := huntCache(t, &huntPlainModel{})
		if err := tc.Table("T").Create(huntUUID, m, true); err != nil {
			t.Fatalf("Create: %v", err)
		}
		got := tc.Table("T").Row(huntUUID).(*huntPlainModel)
		if !model.Equal(m, got) {
			t.Errorf("weight=%v: Row after Create: expected %+v, got %+v", w, *m, *got)
		}
	}
}

// encoding/json replaces bytes that are not valid UTF-8 by U+FFFD: the clone
// of a model is silently different from the model, and distinct map keys
// collapse into one.
func TestHuntCloneRewritesStrings(t *testing.T) {
	t.Skip("item of the first audit, triaged in DESIGN.md 7.1: outside the property as stated, or recorded under another check")
	m := &huntPlainModel{UUID: huntUUID, Name: "caf\xe9", Tags: map[string]string{"\xff": "a", "\xfe": "b"}}
	c := model.Clone(m).(*huntPlainModel)
	if !model.Equal(m, c) {
		t.Errorf("Clone: expected name %q tags %q, got name %q tags %q", m.Name, m.Tags, c.Name, c.Tags)
	}
}

// A hand-written model with an unexported, non-tagged field. Clone (through
// JSON) drops the field while Equal (reflect.DeepEqual) takes it into account:
// Clone does not return a model Equal to its argument.
type huntModelWithPrivateField struct {
	UUID string `ovsdb:"_uuid"`
	Name string `ovsdb:"name"`

	generation int
}

func TestHuntCloneNotEqualWithPrivateField(t *testing.T) {
	t.Skip("item of the first audit, triaged in DESIGN.md 7.1: outside the property as stated, or recorded under another check")
	m := &huntModelWithPrivateField{UUID: huntUUID, Name: "row0", generation: 3}
	c := model.Clone(m)
	if !model.Equal(m, c) {
		t.Errorf("Equal(m, Clone(m)): expected true, got false; m=%+v clone=%+v", *m, *c.(*huntModelWithPrivateField))
	}
}

// End to end variant: the non finite real is produced by the library itself.
// A "*=" mutation (as executed by the in-memory database for a transact
// request) overflows the real column; applying the resulting update to the
// cache wipes the whole row.
func TestHuntMutateOverflowWipesCachedRow(t *testing.T) {
	t.Skip("item of the first audit, triaged in DESIGN.md 7.1: outside the property as stated, or recorded under another check")
	tc := huntCache(t, &huntPlainModel{})
	dbm := tc.DatabaseModel()
	m := &huntPlainModel{UUID: huntUUID, Name: "row0", Weight: 1e308, Tags: map[string]string{"k": "v"}}
	if err := tc.Table("T").Create(huntUUID, m, true); err != nil {
		t.Fatal(err)
	}
	op := ovsdb.Operation{
		Op:        ovsdb.OperationMutate,
		Table:     "T",
		Mutations: []ovsdb.Mutation{{Column: "weight", Mutator: ovsdb.MutateOperationMultiply, Value: 1e10}},
	}
	var u updates.ModelUpdates
	if err := u.AddOperation(dbm, "T", huntUUID, tc.Table("T").Row(huntUUID), &op); err != nil {
		t.Fatalf("mutate rejected (that would be fine): %v", err)
	}
	if err := tc.ApplyCacheUpdate(u); err != nil {
		t.Fatalf("apply rejected (that would be fine): %v", err)
	}
	got := tc.Table("T").Row(huntUUID).(*huntPlainModel)
	if got.UUID != huntUUID || got.Name != "row0" || len(got.Tags) != 1 {
		t.Errorf("after weight *= 1e10: expected row %s to keep name row0 and tags {k:v}, got %+v", huntUUID, *got)
	}
}
