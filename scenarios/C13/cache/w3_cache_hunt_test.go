package cache

import (
	"encoding/json"
	"testing"

	"github.com/ovn-org/libovsdb/model"
	"github.com/ovn-org/libovsdb/ovsdb"
)

// a hand-written model with a field that is not a column. model.Model says:
// "The struct may also have non-tagged fields (which will be ignored by the
// API calls)".
type huntSwitch struct {
	UUID  string            `ovsdb:"_uuid"`
	Name  string            `ovsdb:"name"`
	Ports []string          `ovsdb:"ports"`
	IDs   map[string]string `ovsdb:"ids"`

	// not a column: a callback the application keeps with its model
	OnChange func()
}

const huntSchemaW3 = `{"name":"Hunt","version":"1.0.0","tables":{"Switch":{"columns":{
  "name":{"type":"string"},
  "ports":{"type":{"key":"string","min":0,"max":"unlimited"}},
  "ids":{"type":{"key":"string","value":"string","min":0,"max":"unlimited"}}}}}}`

func huntCacheW3(t *testing.T, m model.Model) *TableCache {
	var schema ovsdb.DatabaseSchema
	if err := json.Unmarshal([]byte(huntSchemaW3), &schema); err != nil {
		t.Fatal(err)
	}
	db, err := model.NewClientDBModel("Hunt", map[string]model.Model{"Switch": m})
	if err != nil {
		t.Fatal(err)
	}
	dbModel, errs := model.NewDatabaseModel(schema, db)
	if len(errs) > 0 {
		t.Fatal(errs)
	}
	tc, err := NewTableCache(dbModel, nil, nil)
	if err != nil {
		t.Fatal(err)
	}
	return tc
}

// TestHuntCloneLosesModelWithUnencodableExtraField: the JSON fallback of
// model.Clone ignores the error of json.Marshal. One exported field without an
// ovsdb tag whose type encoding/json cannot encode (func, chan, complex, a
// cyclic pointer structure) makes every Clone an empty model, silently: the
// cache stores and hands out empty rows.
func TestHuntCloneLosesModelWithUnencodableExtraField(t *testing.T) {
	const uuid = "11111111-1111-1111-1111-111111111111"
	tc := huntCacheW3(t, &huntSwitch{})
	row := ovsdb.Row{"name": "sw0",
		"ports": ovsdb.OvsSet{GoSet: []interface{}{"p1", "p2"}},
		"ids":   ovsdb.OvsMap{GoMap: map[interface{}]interface{}{"k": "v"}}}
	if err := tc.Populate2(ovsdb.TableUpdates2{"Switch": {uuid: &ovsdb.RowUpdate2{Insert: &row}}}); err != nil {
		t.Fatal(err)
	}
	got, ok := tc.Table("Switch").Row(uuid).(*huntSwitch)
	if !ok || got == nil {
		t.Fatalf("row not found")
	}
	if got.UUID != uuid || got.Name != "sw0" || len(got.Ports) != 2 || got.IDs["k"] != "v" {
		t.Fatalf("the server inserted {_uuid:%s name:sw0 ports:[p1 p2] ids:{k:v}}, expected the cache to return that row, got %+v", uuid, *got)
	}
}

// TestHuntCloneNotEqualWithUnencodableExtraField: same cause, seen on Clone
// and Equal alone: Clone(a) is not Equal to a although OnChange is nil in both.
func TestHuntCloneNotEqualWithUnencodableExtraField(t *testing.T) {
	a := &huntSwitch{UUID: "u", Name: "sw0", Ports: []string{"p1"}, IDs: map[string]string{"k": "v"}}
	b := model.Clone(a)
	if !model.Equal(a, b) {
		t.Fatalf("expected Clone(a) to be equal to a = %+v, got %+v", *a, *(b.(*huntSwitch)))
	}
}
