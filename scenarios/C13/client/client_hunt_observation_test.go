package client

import (
	"context"
	"testing"

	"github.com/ovn-org/libovsdb/model"
)

// Observation (borderline, see findings.md): the predicate given to WhereCache
// is called with the cached model itself (RowsShallow), not with a copy. A
// predicate that normalises its argument before testing it changes the cache.
func TestHuntObservationPredicateReceivesTheCachedModel(t *testing.T) {
	t.Skip("item of the first audit, triaged in DESIGN.md 7.1: outside the property as stated, or recorded under another check")
	const uuid = "2f77b348-9768-4866-b761-89d5177ecda0"
	tcache := apiTestCache(t, map[string]map[string]model.Model{
		"Logical_Switch": {uuid: &testLogicalSwitch{UUID: uuid, Name: "ls0", ExternalIds: map[string]string{"k": "v"}}},
	})
	api := newAPI(tcache, &discardLogger)
	var out []*testLogicalSwitch
	err := api.WhereCache(func(ls *testLogicalSwitch) bool {
		delete(ls.ExternalIds, "k") // mutation of the model handed to the caller's code
		ls.Name = "renamed"
		return true
	}).List(context.Background(), &out)
	if err != nil {
		t.Fatal(err)
	}
	got := tcache.Table("Logical_Switch").Row(uuid).(*testLogicalSwitch)
	if got.Name != "ls0" || got.ExternalIds["k"] != "v" {
		t.Errorf("cache changed by the predicate: expected name ls0 external_ids {k:v}, got name %s external_ids %v", got.Name, got.ExternalIds)
	}
}
