package client

import (
	"context"
	"reflect"
	"testing"

	"github.com/ovn-org/libovsdb/model"
)

// Property C13: Get copies the cached row into the caller's model. A caller
// that refreshes a model it already holds (the usual "Get by _uuid" pattern)
// must end up with a model equal to the cached row.
//
// With hand-written models (cloned through JSON) CloneInto unmarshals on top
// of the caller's model: encoding/json re-uses a non-nil destination map and
// keeps the entries it already has, so map keys that were removed from the row
// survive in the model handed back by Get.
func TestHuntGetIntoStaleModelKeepsRemovedMapKeys(t *testing.T) {
	const uuid = "2f77b348-9768-4866-b761-89d5177ecda0"
	// current content of the cache: key "old" has been removed from
	// external_ids, key "new" has been added
	cached := &testLogicalSwitch{
		UUID:        uuid,
		Name:        "ls0",
		ExternalIds: map[string]string{"new": "2"},
	}
	tcache := apiTestCache(t, map[string]map[string]model.Model{
		"Logical_Switch": {uuid: cached},
	})
	api := newAPI(tcache, &discardLogger)

	// the caller still holds the previous version of the row and refreshes it
	mine := &testLogicalSwitch{
		UUID:        uuid,
		Name:        "ls0",
		ExternalIds: map[string]string{"old": "1"},
	}
	if err := api.Get(context.Background(), mine); err != nil {
		t.Fatalf("Get: %v", err)
	}

	want := tcache.Table("Logical_Switch").Row(uuid).(*testLogicalSwitch)
	if !reflect.DeepEqual(mine.ExternalIds, want.ExternalIds) {
		t.Errorf("Get must hand back a copy of the cached row: expected external_ids %v (what Row() returns), got %v",
			want.ExternalIds, mine.ExternalIds)
	}
	if !model.Equal(model.Model(mine), model.Model(want)) {
		t.Errorf("model returned by Get is not Equal to the cached row: expected %+v, got %+v", want, mine)
	}
}

// Same defect, seen directly on CloneInto: the destination is not equal to the
// source afterwards when it held a map entry the source does not have, even
// when the source map is empty.
func TestHuntCloneIntoNonEmptyDestination(t *testing.T) {
	src := &testLogicalSwitch{UUID: "u", ExternalIds: map[string]string{}}
	dst := &testLogicalSwitch{UUID: "u", ExternalIds: map[string]string{"stale": "x"}}
	model.CloneInto(src, dst)
	if !model.Equal(src, dst) {
		t.Errorf("CloneInto(src, dst): expected dst equal to src %+v, got %+v", src, dst)
	}
}
