package client

import (
	"context"
	"sync"
	"testing"
	"time"

	"github.com/ovn-org/libovsdb/cache"
	"github.com/ovn-org/libovsdb/model"
	"github.com/ovn-org/libovsdb/ovsdb"
)

// TestHuntEventHandlerOldModelIsTheCachedObject: the "old" model handed to
// OnUpdate (and the model handed to OnDelete) is not a copy but the very object
// the row cache held. A handler that modifies the model it was given (which
// property C13 allows) changes what a List() through WhereCache() returns: the
// predicate conditional iterates a shallow snapshot of the cache and clones
// the matches only after the predicate ran, so it clones the object the
// handler has scribbled on.
func TestHuntEventHandlerOldModelIsTheCachedObject(t *testing.T) {
	const uuid = "11111111-1111-1111-1111-111111111111"
	tc := apiTestCache(t, map[string]map[string]model.Model{
		"Logical_Switch": {
			uuid: &testLogicalSwitch{UUID: uuid, Name: "sw0", ExternalIds: map[string]string{"k": "v"}},
		},
	})

	handled := make(chan struct{})
	tc.AddEventHandler(&cache.EventHandlerFuncs{
		UpdateFunc: func(table string, old, new model.Model) {
			// the handler owns the models it is given: it may modify them
			o := old.(*testLogicalSwitch)
			o.Name = "scribbled-by-handler"
			o.ExternalIds["scribbled"] = "by-handler"
			close(handled)
		},
	})
	stop := make(chan struct{})
	defer close(stop)
	go tc.Run(stop)

	var once sync.Once
	api := newAPI(tc, nil)
	var result []*testLogicalSwitch
	err := api.WhereCache(func(ls *testLogicalSwitch) bool {
		// while List() evaluates the predicate, the server renames the row
		once.Do(func() {
			newName := "sw1"
			row := ovsdb.Row{"name": newName}
			if err := tc.Populate2(ovsdb.TableUpdates2{
				"Logical_Switch": {uuid: &ovsdb.RowUpdate2{Modify: &row}},
			}); err != nil {
				t.Errorf("Populate2: %v", err)
			}
			select {
			case <-handled:
			case <-time.After(5 * time.Second):
				t.Errorf("handler not called")
			}
		})
		return true
	}).List(context.Background(), &result)
	if err != nil {
		t.Fatal(err)
	}
	if len(result) != 1 {
		t.Fatalf("expected one row, got %d", len(result))
	}
	got := result[0]
	if (got.Name != "sw0" && got.Name != "sw1") || len(got.ExternalIds) != 1 {
		t.Fatalf("List returned a row the database never held: expected name sw0 (or sw1) and external_ids {k:v}, "+
			"got name %q external_ids %v: the modification an event handler made to the old model it was given shows up in a cache read",
			got.Name, got.ExternalIds)
	}
}

// TestHuntDeleteEventModelIsTheCachedObject: same for OnDelete.
func TestHuntDeleteEventModelIsTheCachedObject(t *testing.T) {
	const uuid = "11111111-1111-1111-1111-111111111111"
	tc := apiTestCache(t, map[string]map[string]model.Model{
		"Logical_Switch": {
			uuid: &testLogicalSwitch{UUID: uuid, Name: "sw0"},
		},
	})
	handled := make(chan struct{})
	tc.AddEventHandler(&cache.EventHandlerFuncs{
		DeleteFunc: func(table string, old model.Model) {
			old.(*testLogicalSwitch).Name = "scribbled-by-handler"
			close(handled)
		},
	})
	stop := make(chan struct{})
	defer close(stop)
	go tc.Run(stop)

	var once sync.Once
	var result []*testLogicalSwitch
	err := newAPI(tc, nil).WhereCache(func(ls *testLogicalSwitch) bool {
		once.Do(func() {
			row := ovsdb.Row{}
			if err := tc.Populate2(ovsdb.TableUpdates2{
				"Logical_Switch": {uuid: &ovsdb.RowUpdate2{Delete: &row}},
			}); err != nil {
				t.Errorf("Populate2: %v", err)
			}
			<-handled
		})
		return true
	}).List(context.Background(), &result)
	if err != nil {
		t.Fatal(err)
	}
	if len(result) == 1 && result[0].Name != "sw0" {
		t.Fatalf("List returned a row the database never held: expected name sw0 (or no row), got %q: "+
			"the model given to OnDelete is the cached object itself", result[0].Name)
	}
}

// TestHuntPredicateGetsTheCachedObject: the function given to WhereCache() is
// called with the cached object itself (the matches are cloned, the argument
// of the predicate is not). A predicate that normalises its argument before
// looking at it (here: sorts the ports in place and trims the name) edits the
// cache.
func TestHuntPredicateGetsTheCachedObject(t *testing.T) {
	t.Skip("the WhereCache predicate is handed the cached object by design (an undocumented read-only path like RowsShallow)")
	const uuid = "11111111-1111-1111-1111-111111111111"
	tc := apiTestCache(t, map[string]map[string]model.Model{
		"Logical_Switch": {
			uuid: &testLogicalSwitch{UUID: uuid, Name: "sw0", Ports: []string{"b", "a"}},
		},
	})
	var result []*testLogicalSwitch
	err := newAPI(tc, nil).WhereCache(func(ls *testLogicalSwitch) bool {
		ls.Ports[0], ls.Ports[1] = ls.Ports[1], ls.Ports[0]
		ls.Name = "SW0"
		return false
	}).List(context.Background(), &result)
	if err != nil {
		t.Fatal(err)
	}
	got := tc.Table("Logical_Switch").Row(uuid).(*testLogicalSwitch)
	if got.Name != "sw0" || got.Ports[0] != "b" {
		t.Fatalf("expected the cached row to be unchanged (name sw0, ports [b a]) after a List() whose predicate modified its argument, got name %q ports %v",
			got.Name, got.Ports)
	}
}
