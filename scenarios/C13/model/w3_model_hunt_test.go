package model

import "testing"

// a hand-written model with fields that are not columns (allowed: "The struct
// may also have non-tagged fields (which will be ignored by the API calls)")
type huntPort struct {
	UUID string `ovsdb:"_uuid"`
	Name string `ovsdb:"name"`

	seen  int         // unexported bookkeeping of the application
	Extra interface{} // exported, not a column
}

// TestHuntCloneNotEqualUnexportedField: Clone copies through encoding/json,
// which skips unexported fields; Equal falls back to reflect.DeepEqual, which
// compares them. Clone(a) is therefore not Equal to a.
func TestHuntCloneNotEqualUnexportedField(t *testing.T) {
	t.Skip("outside the property: fields that are not columns (unexported, untyped) are not part of what Equal is asked to compare")
	a := &huntPort{UUID: "u1", Name: "p1", seen: 3}
	b := Clone(a)
	if !Equal(a, b) || !Equal(b, a) {
		t.Fatalf("expected Clone(a) to be Equal to a = %+v, but Equal(a, Clone(a)) = %v with Clone(a) = %+v",
			*a, Equal(a, b), *(b.(*huntPort)))
	}
}

// TestHuntCloneNotEqualInterfaceField: an exported non-column field of
// interface type comes back from JSON with another dynamic type (int ->
// float64), DeepEqual tells the clone from the original.
func TestHuntCloneNotEqualInterfaceField(t *testing.T) {
	t.Skip("outside the property: fields that are not columns (unexported, untyped) are not part of what Equal is asked to compare")
	a := &huntPort{UUID: "u1", Name: "p1", Extra: 7}
	b := Clone(a)
	if !Equal(a, b) {
		t.Fatalf("expected Clone(a) to be Equal to a = %+v, got Clone(a) = %+v (Extra is %T in a, %T in the clone)",
			*a, *(b.(*huntPort)), a.Extra, b.(*huntPort).Extra)
	}
}
