package server

import (
	"encoding/json"
	"fmt"
	"net"
	"os"
	"sync"
	"testing"
	"time"

	"github.com/cenkalti/rpc2"
	"github.com/cenkalti/rpc2/jsonrpc"
	"github.com/ovn-org/libovsdb/database/inmemory"
	"github.com/ovn-org/libovsdb/model"
	"github.com/ovn-org/libovsdb/ovsdb"
	"github.com/stretchr/testify/assert"
	"github.com/stretchr/testify/require"

	. "github.com/ovn-org/libovsdb/test"
)

func huntS5Dial(t *testing.T, sock string) *rpc2.Client {
	conn, err := net.Dial("unix", sock)
	require.NoError(t, err)
	return rpc2.NewClientWithCodec(jsonrpc.NewJSONCodec(conn))
}

func huntS5Transact(t *testing.T, c *rpc2.Client, ops ...ovsdb.Operation) []ovsdb.OperationResult {
	args := []interface{}{"Open_vSwitch"}
	for _, op := range ops {
		args = append(args, op)
	}
	var reply []ovsdb.OperationResult
	require.NoError(t, c.Call("transact", args, &reply))
	for _, r := range reply {
		require.Empty(t, r.Error, "%+v", reply)
	}
	return reply
}

// Two clients change the same row one after the other while a third client
// monitors the table and keeps a replica of it, applying every notification
// when it has dealt with it, as the client of this library does. The monitoring
// client is slow to deal with the first notification (1.5 s). The replica must
// end up equal to the database and the notifications must be dealt with in the
// order of the commits.
func TestHuntSeededSlowMonitorSeesCommitOrder(t *testing.T) {
	dbModel, err := GetModel()
	require.NoError(t, err)
	db := inmemory.NewDatabase(map[string]model.ClientDBModel{"Open_vSwitch": dbModel.Client()})
	srv, err := NewOvsdbServer(db, dbModel)
	require.NoError(t, err)
	sock := fmt.Sprintf("/tmp/ovsdb-seeded-%d.sock", os.Getpid())
	defer os.Remove(sock)
	go func() { _ = srv.Serve("unix", sock) }()
	defer srv.Close()
	require.Eventually(t, srv.Ready, time.Second, 10*time.Millisecond)

	writerA := huntS5Dial(t, sock)
	go writerA.Run()
	defer writerA.Close()
	writerB := huntS5Dial(t, sock)
	go writerB.Run()
	defer writerB.Close()

	// one row, its datapath_type is what the two writers compete for
	reply := huntS5Transact(t, writerA, ovsdb.Operation{
		Op:    ovsdb.OperationInsert,
		Table: "Bridge",
		Row:   ovsdb.Row{"name": "br0", "datapath_type": "zero"},
	})
	rowUUID := reply[0].UUID.GoUUID

	// the monitoring client
	var mu sync.Mutex
	replica := map[string]string{}
	var applied []string
	done := make(chan struct{}, 8)
	mon := huntS5Dial(t, sock)
	mon.Handle("update", func(_ *rpc2.Client, params []json.RawMessage, reply *[]interface{}) error {
		*reply = []interface{}{}
		var tu ovsdb.TableUpdates
		if err := json.Unmarshal(params[1], &tu); err != nil {
			return err
		}
		for uuid, ru := range tu["Bridge"] {
			if ru.New == nil {
				continue
			}
			value, _ := (*ru.New)["datapath_type"].(string)
			if value == "one" {
				// this one takes a while to deal with
				time.Sleep(1500 * time.Millisecond)
			}
			mu.Lock()
			replica[uuid] = value
			applied = append(applied, value)
			mu.Unlock()
		}
		done <- struct{}{}
		return nil
	})
	go mon.Run()
	defer mon.Close()
	var initial ovsdb.TableUpdates
	require.NoError(t, mon.Call("monitor", []interface{}{
		"Open_vSwitch", "seeded",
		map[string]interface{}{"Bridge": map[string]interface{}{"columns": []string{"name", "datapath_type"}}},
	}, &initial))
	require.Contains(t, initial["Bridge"], rowUUID)

	where := []ovsdb.Condition{{Column: "_uuid", Function: ovsdb.ConditionEqual, Value: ovsdb.UUID{GoUUID: rowUUID}}}
	var commits []string
	for i, w := range []*rpc2.Client{writerA, writerB} {
		value := []string{"one", "two"}[i]
		r := huntS5Transact(t, w, ovsdb.Operation{
			Op:    ovsdb.OperationUpdate,
			Table: "Bridge",
			Where: where,
			Row:   ovsdb.Row{"datapath_type": value},
		})
		require.Equal(t, 1, r[0].Count)
		commits = append(commits, value)
	}

	for range commits {
		select {
		case <-done:
		case <-time.After(5 * time.Second):
			t.Fatal("the monitor was not notified of every transaction")
		}
	}

	r := huntS5Transact(t, writerA, ovsdb.Operation{
		Op:      ovsdb.OperationSelect,
		Table:   "Bridge",
		Where:   where,
		Columns: []string{"datapath_type"},
	})
	require.Len(t, r[0].Rows, 1)
	final := r[0].Rows[0]["datapath_type"]

	mu.Lock()
	defer mu.Unlock()
	assert.Equal(t, commits, applied, "the monitor dealt with the transactions in another order than they were committed in")
	assert.Equal(t, final, replica[rowUUID], "the replica of the monitor differs from the database")
}
