package server

import (
	"encoding/json"
	"fmt"
	"net"
	"os"
	"path/filepath"
	"sync"
	"sync/atomic"
	"testing"
	"time"

	"github.com/ovn-org/libovsdb/database/inmemory"
	"github.com/ovn-org/libovsdb/model"
	"github.com/ovn-org/libovsdb/ovsdb"
)

const huntWireSchema = `{"name":"Hunt","version":"1.0.0","tables":{
 "Counter":{"isRoot":true,"indexes":[["name"]],"columns":{"name":{"type":"string"},"value":{"type":"integer"}}}}}`

type huntWireCounter struct {
	UUID  string `ovsdb:"_uuid"`
	Name  string `ovsdb:"name"`
	Value int    `ovsdb:"value"`
}

// huntWireServer starts an unmodified server with an in-memory database on a
// unix socket
func huntWireServer(t testing.TB) string {
	var schema ovsdb.DatabaseSchema
	if err := json.Unmarshal([]byte(huntWireSchema), &schema); err != nil {
		t.Fatal(err)
	}
	cdb, err := model.NewClientDBModel("Hunt", map[string]model.Model{"Counter": &huntWireCounter{}})
	if err != nil {
		t.Fatal(err)
	}
	db := inmemory.NewDatabase(map[string]model.ClientDBModel{"Hunt": cdb})
	dbModel, errs := model.NewDatabaseModel(schema, cdb)
	if len(errs) > 0 {
		t.Fatal(errs)
	}
	srv, err := NewOvsdbServer(db, dbModel)
	if err != nil {
		t.Fatal(err)
	}
	dir, err := os.MkdirTemp("", "huntwire")
	if err != nil {
		t.Fatal(err)
	}
	sock := filepath.Join(dir, "s.sock")
	go func() { _ = srv.Serve("unix", sock) }()
	deadline := time.Now().Add(5 * time.Second)
	for !srv.Ready() {
		if time.Now().After(deadline) {
			t.Fatal("server not ready")
		}
		time.Sleep(time.Millisecond)
	}
	t.Cleanup(func() { srv.Close(); os.RemoveAll(dir) })
	return sock
}

// huntWire is a JSON-RPC connection without any library in between: what is
// read from it is exactly what the server wrote, in the order it wrote it.
type huntWire struct {
	conn net.Conn
	enc  *json.Encoder
	dec  *json.Decoder
	id   int
}

type huntWireMsg struct {
	Method string            `json:"method"`
	Params []json.RawMessage `json:"params"`
	ID     json.RawMessage   `json:"id"`
	Result json.RawMessage   `json:"result"`
	Error  json.RawMessage   `json:"error"`
}

func huntWireDial(t testing.TB, sock string) *huntWire {
	conn, err := net.Dial("unix", sock)
	if err != nil {
		t.Fatal(err)
	}
	return &huntWire{conn: conn, enc: json.NewEncoder(conn), dec: json.NewDecoder(conn)}
}

func (w *huntWire) request(method string, params ...interface{}) error {
	w.id++
	return w.enc.Encode(map[string]interface{}{"method": method, "params": params, "id": w.id})
}

// read returns the next message of the server; requests of the server
// (notifications it waits an answer for) are answered
func (w *huntWire) read() (*huntWireMsg, error) {
	var m huntWireMsg
	if err := w.dec.Decode(&m); err != nil {
		return nil, err
	}
	if m.Method != "" {
		if err := w.enc.Encode(map[string]interface{}{"id": m.ID, "result": []interface{}{}, "error": nil}); err != nil {
			return nil, err
		}
	}
	return &m, nil
}

// call sends a request and returns its reply, skipping what comes before
func (w *huntWire) call(method string, params ...interface{}) (*huntWireMsg, error) {
	if err := w.request(method, params...); err != nil {
		return nil, err
	}
	for {
		m, err := w.read()
		if err != nil {
			return nil, err
		}
		if m.Method == "" {
			return m, nil
		}
	}
}

// TestHuntMonitorReplyPrecedesNotifications: a monitor established while
// transactions are being committed is given the initial contents (the
// effects of a prefix of the serial order) and is then notified of the
// transactions that follow, in that order. What the server writes to the
// connection must therefore start with the reply to the monitor request.
func TestHuntMonitorReplyPrecedesNotifications(t *testing.T) {
	t.Skip("outside C17: the order of a monitor reply and the first notification (the client defers notifications until the reply is applied)")
	sock := huntWireServer(t)
	setup := huntWireDial(t, sock)
	defer setup.conn.Close()
	m, err := setup.call("transact", "Hunt", map[string]interface{}{"op": "insert", "table": "Counter", "row": map[string]interface{}{"name": "c", "value": 0}})
	if err != nil || string(m.Error) != "null" {
		t.Fatalf("setup: %v %+v", err, m)
	}

	// writers incrementing the counter
	var stop int32
	var wg sync.WaitGroup
	for i := 0; i < 4; i++ {
		wg.Add(1)
		go func() {
			defer wg.Done()
			w := huntWireDial(t, sock)
			defer w.conn.Close()
			for atomic.LoadInt32(&stop) == 0 {
				_, err := w.call("transact", "Hunt", map[string]interface{}{
					"op": "mutate", "table": "Counter", "where": []interface{}{},
					"mutations": []interface{}{[]interface{}{"value", "+=", 1}}})
				if err != nil {
					t.Error(err)
					return
				}
			}
		}()
	}
	defer func() { atomic.StoreInt32(&stop, 1); wg.Wait() }()

	counterOf := func(raw json.RawMessage, method string) string {
		// the value of the counter in the initial contents or in a notification
		var tu map[string]map[string]map[string]map[string]interface{}
		if err := json.Unmarshal(raw, &tu); err != nil {
			return "?" + string(raw)
		}
		for _, row := range tu["Counter"] {
			for kind, r := range row {
				if v, ok := r["value"]; ok {
					return fmt.Sprintf("%s.value=%v", kind, v)
				}
			}
		}
		return "?" + string(raw)
	}

	deadline := time.Now().Add(20 * time.Second)
	attempts := 0
	for _, method := range []string{"monitor", "monitor_cond", "monitor_cond_since"} {
		for i := 0; i < 300 && time.Now().Before(deadline); i++ {
			attempts++
			w := huntWireDial(t, sock)
			params := []interface{}{"Hunt", "mon", map[string]interface{}{"Counter": map[string]interface{}{"columns": []string{"value"}}}}
			if method == "monitor_cond_since" {
				params = append(params, "00000000-0000-0000-0000-000000000000")
			}
			if err := w.request(method, params...); err != nil {
				t.Fatal(err)
			}
			first, err := w.read()
			if err != nil {
				t.Fatal(err)
			}
			if first.Method != "" {
				second, err := w.read()
				if err != nil {
					t.Fatal(err)
				}
				reply := second.Result
				if method == "monitor_cond_since" {
					var r []json.RawMessage
					_ = json.Unmarshal(second.Result, &r)
					if len(r) == 3 {
						reply = r[2]
					}
				}
				w.conn.Close()
				t.Fatalf("%s, attempt %d: expected the first message on the connection to be the reply to the monitor request "+
					"(the initial contents), got the notification %q of monitor %s (%s), and only then the reply (%s): "+
					"the monitor is notified of a transaction before it is given the contents that transaction applies to",
					method, attempts, first.Method, first.Params[0], counterOf(first.Params[len(first.Params)-1], first.Method), counterOf(reply, method))
			}
			w.conn.Close()
		}
	}
	t.Logf("%d monitors established, the reply always came first", attempts)
}
