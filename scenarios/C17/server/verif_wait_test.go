package server

import (
	"fmt"
	"testing"
	"time"

	"github.com/ovn-org/libovsdb/ovsdb"
)

// A transaction that waits (a wait operation with a timeout whose condition does not hold yet) between reading a row
// and changing it is still one step: whatever another client commits meanwhile, the committed increments all count.
// Either the waiting transaction commits having seen the other's effects, or it fails and changes nothing.
func TestHuntWaitInsideReadModifyWrite(t *testing.T) {
	for round := 0; round < 3; round++ {
		_, sock := huntStartServer(t)
		a, b := huntDial(t, sock), huntDial(t, sock)
		if res, err := a.transact(ovsdb.Operation{Op: "insert", Table: "Counter", Row: ovsdb.Row{"name": "c", "value": 0}}); err != nil || len(res) != 1 || res[0].Error != "" {
			t.Fatalf("set-up: %v %v", res, err)
		}
		timeout := 700
		type out struct {
			res []ovsdb.OperationResult
			err error
		}
		doneA := make(chan out, 1)
		go func() {
			res, err := a.transact(
				ovsdb.Operation{Op: "select", Table: "Counter", Where: []ovsdb.Condition{ovsdb.NewCondition("name", ovsdb.ConditionEqual, "c")}},
				ovsdb.Operation{Op: "wait", Table: "Log", Timeout: &timeout, Where: []ovsdb.Condition{ovsdb.NewCondition("tag", ovsdb.ConditionEqual, "go")},
					Columns: []string{"tag"}, Until: "==", Rows: []ovsdb.Row{{"tag": "go"}}},
				ovsdb.Operation{Op: "mutate", Table: "Counter", Where: []ovsdb.Condition{ovsdb.NewCondition("name", ovsdb.ConditionEqual, "c")},
					Mutations: []ovsdb.Mutation{*ovsdb.NewMutation("value", ovsdb.MutateOperationAdd, 1)}})
			doneA <- out{res, err}
		}()
		time.Sleep(100 * time.Millisecond)
		committed := 0
		if res, err := b.transact(
			ovsdb.Operation{Op: "mutate", Table: "Counter", Where: []ovsdb.Condition{ovsdb.NewCondition("name", ovsdb.ConditionEqual, "c")},
				Mutations: []ovsdb.Mutation{*ovsdb.NewMutation("value", ovsdb.MutateOperationAdd, 1)}},
			ovsdb.Operation{Op: "insert", Table: "Log", Row: ovsdb.Row{"tag": "go"}}); err == nil && len(res) == 2 && res[0].Error == "" && res[1].Error == "" {
			committed++
		} else {
			t.Fatalf("client B: %v %v", res, err)
		}
		ra := <-doneA
		okA := ra.err == nil && len(ra.res) == 3
		for _, r := range ra.res {
			okA = okA && r.Error == ""
		}
		if okA {
			committed++
		}
		res, err := b.transact(ovsdb.Operation{Op: "select", Table: "Counter", Where: []ovsdb.Condition{ovsdb.NewCondition("name", ovsdb.ConditionEqual, "c")}, Columns: []string{"value"}})
		if err != nil || len(res) != 1 || len(res[0].Rows) != 1 {
			t.Fatalf("final select: %v %v", res, err)
		}
		if got := res[0].Rows[0]["value"]; fmt.Sprint(got) != fmt.Sprint(committed) {
			t.Fatalf("round %d: %d increments were committed (client A's [select, wait(%dms), mutate value += 1] %v; client B's [mutate value += 1, insert Log go] committed) "+
				"but the counter holds %v: no serial order of the committed transactions explains it", round, committed, timeout, map[bool]string{true: "committed", false: "failed"}[okA], got)
		}
	}
}
