package server

import (
	"context"
	"encoding/json"
	"fmt"
	"math/rand"
	"os"
	"testing"
	"time"

	"github.com/go-logr/logr"
	"github.com/ovn-org/libovsdb/client"
	"github.com/ovn-org/libovsdb/database"
	"github.com/ovn-org/libovsdb/database/inmemory"
	"github.com/ovn-org/libovsdb/model"
	"github.com/ovn-org/libovsdb/ovsdb"
)

const huntW4Schema = `{
 "name": "Hunt", "version": "0.0.1",
 "tables": {
  "Counter": {"isRoot": true, "indexes": [["name"]],
    "columns": {"name": {"type": "string"}, "value": {"type": "integer"}}},
  "Item": {"isRoot": true, "indexes": [["name"]],
    "columns": {"name": {"type": "string"}, "owner": {"type": "string"}}},
  "Parent": {"isRoot": true, "indexes": [["name"]],
    "columns": {"name": {"type": "string"},
      "children": {"type": {"key": {"type": "uuid", "refTable": "Child"}, "min": 0, "max": "unlimited"}},
      "favourite": {"type": {"key": {"type": "uuid", "refTable": "Child", "refType": "weak"}, "min": 0, "max": 1}}}},
  "Child": {"isRoot": false,
    "columns": {"name": {"type": "string"}, "hops": {"type": "integer"}}}
 }}`

type huntW4Counter struct {
	UUID  string `ovsdb:"_uuid"`
	Name  string `ovsdb:"name"`
	Value int    `ovsdb:"value"`
}
type huntW4Item struct {
	UUID  string `ovsdb:"_uuid"`
	Name  string `ovsdb:"name"`
	Owner string `ovsdb:"owner"`
}
type huntW4Parent struct {
	UUID      string   `ovsdb:"_uuid"`
	Name      string   `ovsdb:"name"`
	Children  []string `ovsdb:"children"`
	Favourite *string  `ovsdb:"favourite"`
}
type huntW4Child struct {
	UUID string `ovsdb:"_uuid"`
	Name string `ovsdb:"name"`
	Hops int    `ovsdb:"hops"`
}

func huntW4Model(t testing.TB) (model.ClientDBModel, model.DatabaseModel) {
	cm, err := model.NewClientDBModel("Hunt", map[string]model.Model{
		"Counter": &huntW4Counter{}, "Item": &huntW4Item{}, "Parent": &huntW4Parent{}, "Child": &huntW4Child{}})
	if err != nil {
		t.Fatal(err)
	}
	var schema ovsdb.DatabaseSchema
	if err := json.Unmarshal([]byte(huntW4Schema), &schema); err != nil {
		t.Fatal(err)
	}
	dm, errs := model.NewDatabaseModel(schema, cm)
	if len(errs) > 0 {
		t.Fatal(errs)
	}
	return cm, dm
}

func huntW4Server(t testing.TB) (*OvsdbServer, database.Database, model.ClientDBModel, string) {
	cm, dm := huntW4Model(t)
	db := inmemory.NewDatabase(map[string]model.ClientDBModel{"Hunt": cm})
	s, err := NewOvsdbServer(db, dm)
	if err != nil {
		t.Fatal(err)
	}
	s.logger = logr.Discard()
	sock := fmt.Sprintf("/tmp/hunt-c17-%d-%d.sock", os.Getpid(), rand.Int())
	go func() { _ = s.Serve("unix", sock) }()
	for i := 0; i < 200 && !s.Ready(); i++ {
		time.Sleep(5 * time.Millisecond)
	}
	t.Cleanup(func() { s.Close(); os.Remove(sock) })
	return s, db, cm, sock
}

func huntW4Client(t testing.TB, cm model.ClientDBModel, sock string) client.Client {
	l := logr.Discard()
	c, err := client.NewOVSDBClient(cm, client.WithEndpoint("unix:"+sock), client.WithLogger(&l))
	if err != nil {
		t.Fatal(err)
	}
	if err := c.Connect(context.Background()); err != nil {
		t.Fatal(err)
	}
	t.Cleanup(c.Close)
	return c
}

// Two clients increment one counter with the read-modify-write the client API
// offers: read the row, then in one transaction wait until the row still is
// what was read and write the incremented value. Both read the counter before
// either writes (one of the interleavings the property quantifies over), so
// only one of the two transactions may succeed.
func TestHuntCompareAndSwapFromDefaultValue(t *testing.T) {
	_, db, cm, sock := huntW4Server(t)
	ctx := context.Background()
	a := huntW4Client(t, cm, sock)
	b := huntW4Client(t, cm, sock)
	for _, c := range []client.Client{a, b} {
		if _, err := c.MonitorAll(ctx); err != nil {
			t.Fatal(err)
		}
	}
	ops, err := a.Create(&huntW4Counter{Name: "cas"}) // value 0
	if err != nil {
		t.Fatal(err)
	}
	res, err := a.Transact(ctx, ops...)
	if err != nil {
		t.Fatal(err)
	}
	if _, err := ovsdb.CheckOperationResults(res, ops); err != nil {
		t.Fatal(err)
	}

	// both clients read the counter
	read := func(c client.Client) *huntW4Counter {
		row := &huntW4Counter{Name: "cas"}
		for i := 0; i < 1000; i++ {
			if err = c.Get(ctx, row); err == nil {
				return row
			}
		}
		t.Fatal(err)
		return nil
	}
	readA, readB := read(a), read(b)

	// and then each writes what it read plus one, provided the row is still
	// the row it read
	zero := 0
	increment := func(c client.Client, seen *huntW4Counter) error {
		cond := model.Condition{Field: &seen.Name, Function: ovsdb.ConditionEqual, Value: "cas"}
		wait, err := c.WhereAll(seen, cond).Wait(ovsdb.WaitConditionEqual, &zero, seen)
		if err != nil {
			t.Fatal(err)
		}
		next := &huntW4Counter{Name: "cas", Value: seen.Value + 1}
		update, err := c.WhereAll(next, model.Condition{Field: &next.Name, Function: ovsdb.ConditionEqual, Value: "cas"}).Update(next, &next.Value)
		if err != nil {
			t.Fatal(err)
		}
		ops := append(wait, update...)
		res, err := c.Transact(ctx, ops...)
		if err != nil {
			return err
		}
		_, err = ovsdb.CheckOperationResults(res, ops)
		return err
	}
	errA := increment(a, readA)
	errB := increment(b, readB)

	succeeded := 0
	for _, err := range []error{errA, errB} {
		if err == nil {
			succeeded++
		}
	}
	rows, _ := db.List("Hunt", "Counter")
	final := -1
	for _, m := range rows {
		final = m.(*huntW4Counter).Value
	}
	if succeeded != final {
		t.Errorf("both clients read the counter at %d and %d; %d increments succeeded (errors: %v, %v) but the counter is %d: "+
			"expected the second transaction to fail its wait (the row no longer equals the row it read), an increment was lost",
			readA.Value, readB.Value, succeeded, errA, errB, final)
	}
}

// The same on the wire, without the client API: the counter holds 5 and a
// transaction waits (no "columns": every column is compared) until the row
// equals an expected row that gives the name only. The columns the expected
// row leaves out hold their default values (that is how a <row> is read
// everywhere else, and what ovsdb-server does), so the rows differ and the
// wait must time out; the guarded update must not be applied.
func TestHuntWaitExpectedRowOmittingColumn(t *testing.T) {
	_, db, cm, sock := huntW4Server(t)
	ctx := context.Background()
	c := huntW4Client(t, cm, sock)
	ops := []ovsdb.Operation{{Op: "insert", Table: "Counter", Row: ovsdb.Row{"name": "cas", "value": 5}}}
	res, err := c.Transact(ctx, ops...)
	if err != nil {
		t.Fatal(err)
	}
	if _, err := ovsdb.CheckOperationResults(res, ops); err != nil {
		t.Fatal(err)
	}
	zero := 0
	where := []ovsdb.Condition{{Column: "name", Function: "==", Value: "cas"}}
	ops = []ovsdb.Operation{
		{Op: "wait", Table: "Counter", Timeout: &zero, Where: where, Until: "==", Rows: []ovsdb.Row{{"name": "cas"}}},
		{Op: "update", Table: "Counter", Where: where, Row: ovsdb.Row{"value": 1}},
	}
	res, err = c.Transact(ctx, ops...)
	if err != nil {
		t.Fatal(err)
	}
	rows, _ := db.List("Hunt", "Counter")
	final := -1
	for _, m := range rows {
		final = m.(*huntW4Counter).Value
	}
	if res[0].Error == "" || final != 5 {
		t.Errorf("wait until the row {name: cas, value: 5} == {name: cas} (value left out, so 0): expected the error \"timed out\" and the counter to stay 5, got results %+v and the counter is %d", res, final)
	}
}
