package server

import (
	"encoding/json"
	"fmt"
	"math/rand"
	"net"
	"os"
	"path/filepath"
	"sort"
	"strings"
	"sync"
	"sync/atomic"
	"testing"
	"time"

	"github.com/cenkalti/rpc2"
	"github.com/cenkalti/rpc2/jsonrpc"
	"github.com/ovn-org/libovsdb/database/inmemory"
	"github.com/ovn-org/libovsdb/model"
	"github.com/ovn-org/libovsdb/ovsdb"
)

const huntSchema = `{"name":"Hunt","version":"1.0.0","tables":{
 "Counter":{"isRoot":true,"indexes":[["name"]],"columns":{"name":{"type":"string"},"value":{"type":"integer"}}},
 "Item":{"isRoot":true,"indexes":[["key"]],"columns":{"key":{"type":"string"},"owner":{"type":"string"}}},
 "Log":{"isRoot":true,"columns":{"tag":{"type":"string"}}},
 "Parent":{"isRoot":true,"indexes":[["name"]],"columns":{"name":{"type":"string"},
    "children":{"type":{"key":{"type":"uuid","refTable":"Child","refType":"strong"},"min":0,"max":"unlimited"}}}},
 "Child":{"indexes":[["name"]],"columns":{"name":{"type":"string"}}}
}}`

type huntCounter struct {
	UUID  string `ovsdb:"_uuid"`
	Name  string `ovsdb:"name"`
	Value int    `ovsdb:"value"`
}
type huntItem struct {
	UUID  string `ovsdb:"_uuid"`
	Key   string `ovsdb:"key"`
	Owner string `ovsdb:"owner"`
}
type huntLog struct {
	UUID string `ovsdb:"_uuid"`
	Tag  string `ovsdb:"tag"`
}
type huntParent struct {
	UUID     string   `ovsdb:"_uuid"`
	Name     string   `ovsdb:"name"`
	Children []string `ovsdb:"children"`
}
type huntChild struct {
	UUID string `ovsdb:"_uuid"`
	Name string `ovsdb:"name"`
}

func huntStartServer(t testing.TB) (*OvsdbServer, string) {
	var schema ovsdb.DatabaseSchema
	if err := json.Unmarshal([]byte(huntSchema), &schema); err != nil {
		t.Fatal(err)
	}
	cdb, err := model.NewClientDBModel("Hunt", map[string]model.Model{
		"Counter": &huntCounter{}, "Item": &huntItem{}, "Log": &huntLog{}, "Parent": &huntParent{}, "Child": &huntChild{},
	})
	if err != nil {
		t.Fatal(err)
	}
	db := inmemory.NewDatabase(map[string]model.ClientDBModel{"Hunt": cdb})
	dbModel, errs := model.NewDatabaseModel(schema, cdb)
	if len(errs) > 0 {
		t.Fatal(errs)
	}
	srv, err := NewOvsdbServer(db, dbModel)
	if err != nil {
		t.Fatal(err)
	}
	dir, err := os.MkdirTemp("", "hunt")
	if err != nil {
		t.Fatal(err)
	}
	sock := filepath.Join(dir, "s.sock")
	go func() { _ = srv.Serve("unix", sock) }()
	deadline := time.Now().Add(5 * time.Second)
	for !srv.Ready() {
		if time.Now().After(deadline) {
			t.Fatal("server not ready")
		}
		time.Sleep(time.Millisecond)
	}
	t.Cleanup(func() { srv.Close(); os.RemoveAll(dir) })
	return srv, sock
}

// huntConn is a plain JSON-RPC connection to the server
type huntConn struct {
	c *rpc2.Client
	// monitors of this connection by their (JSON encoded) id
	mu   sync.Mutex
	mons map[string]*huntMonitor
}

func huntDial(t testing.TB, sock string) *huntConn {
	conn, err := net.Dial("unix", sock)
	if err != nil {
		t.Fatal(err)
	}
	hc := &huntConn{mons: map[string]*huntMonitor{}}
	hc.c = rpc2.NewClientWithCodec(&lockedCodec{Codec: jsonrpc.NewJSONCodec(conn)})
	hc.c.SetBlocking(true)
	find := func(id json.RawMessage) *huntMonitor {
		hc.mu.Lock()
		defer hc.mu.Unlock()
		return hc.mons[string(id)]
	}
	hc.c.Handle("update", func(_ *rpc2.Client, args []json.RawMessage, reply *[]interface{}) error {
		m := find(args[0])
		var tu ovsdb.TableUpdates
		if err := json.Unmarshal(args[1], &tu); err != nil {
			return err
		}
		m.apply1(tu)
		*reply = []interface{}{}
		return nil
	})
	hc.c.Handle("update2", func(_ *rpc2.Client, args []json.RawMessage, reply *[]interface{}) error {
		m := find(args[0])
		var tu ovsdb.TableUpdates2
		if err := json.Unmarshal(args[1], &tu); err != nil {
			return err
		}
		m.apply2(tu)
		*reply = []interface{}{}
		return nil
	})
	hc.c.Handle("update3", func(_ *rpc2.Client, args []json.RawMessage, reply *[]interface{}) error {
		m := find(args[0])
		var tu ovsdb.TableUpdates2
		if err := json.Unmarshal(args[2], &tu); err != nil {
			return err
		}
		m.apply2(tu)
		*reply = []interface{}{}
		return nil
	})
	go hc.c.Run()
	t.Cleanup(func() { hc.c.Close() })
	return hc
}

func (hc *huntConn) transact(ops ...ovsdb.Operation) ([]ovsdb.OperationResult, error) {
	args := []interface{}{"Hunt"}
	for _, op := range ops {
		args = append(args, op)
	}
	var reply []ovsdb.OperationResult
	err := hc.c.Call("transact", args, &reply)
	return reply, err
}

// huntMonitor is a replica kept from the notifications of one monitor
type huntMonitor struct {
	name  string
	mu    sync.Mutex
	rows  map[string]map[string]map[string]string // table -> uuid -> column -> canonical value
	tags  map[string]bool                         // tags of the initial contents
	steps []huntStep
	errs  []string
	// notifications received before the reply to the monitor request
	ready   bool
	pending []func()
}

type huntStep struct {
	tag  string
	proj string
}

func huntCanon(v interface{}) string {
	switch x := v.(type) {
	case ovsdb.OvsSet:
		l := make([]string, 0, len(x.GoSet))
		for _, e := range x.GoSet {
			l = append(l, huntCanon(e))
		}
		sort.Strings(l)
		return strings.Join(l, ",")
	case ovsdb.UUID:
		return x.GoUUID
	case float64:
		return fmt.Sprintf("%d", int(x))
	case int:
		return fmt.Sprintf("%d", x)
	case string:
		return x
	case []interface{}:
		if len(x) == 0 {
			return ""
		}
	}
	return fmt.Sprintf("?%T:%v", v, v)
}

func (m *huntMonitor) setRow(table, uuid string, row *ovsdb.Row) {
	if m.rows[table] == nil {
		m.rows[table] = map[string]map[string]string{}
	}
	r := map[string]string{}
	for c, v := range *row {
		if c == "_uuid" {
			continue
		}
		s := huntCanon(v)
		if s == "" || s == "0" {
			continue // default values may be left out of update2
		}
		r[c] = s
	}
	m.rows[table][uuid] = r
}

// symmetric difference of two canonical sets
func huntSymDiff(a, b string) string {
	set := map[string]bool{}
	for _, e := range strings.Split(a, ",") {
		if e != "" {
			set[e] = true
		}
	}
	for _, e := range strings.Split(b, ",") {
		if e == "" {
			continue
		}
		if set[e] {
			delete(set, e)
		} else {
			set[e] = true
		}
	}
	l := make([]string, 0, len(set))
	for e := range set {
		l = append(l, e)
	}
	sort.Strings(l)
	return strings.Join(l, ",")
}

func (m *huntMonitor) step(tags []string) {
	tag := strings.Join(tags, "+")
	m.steps = append(m.steps, huntStep{tag: tag, proj: m.projection()})
}

func (m *huntMonitor) apply1(tu ovsdb.TableUpdates) {
	m.mu.Lock()
	defer m.mu.Unlock()
	if !m.ready {
		m.pending = append(m.pending, func() { m.apply1locked(tu) })
		return
	}
	m.apply1locked(tu)
}

func (m *huntMonitor) apply1locked(tu ovsdb.TableUpdates) {
	var tags []string
	for table, t := range tu {
		for uuid, ru := range t {
			switch {
			case ru.New != nil && ru.Old == nil:
				if _, ok := m.rows[table][uuid]; ok {
					m.errs = append(m.errs, fmt.Sprintf("%s: insert of known row %s/%s", m.name, table, uuid))
				}
				m.setRow(table, uuid, ru.New)
				if table == "Log" {
					tags = append(tags, m.rows[table][uuid]["tag"])
				}
			case ru.New != nil && ru.Old != nil:
				if _, ok := m.rows[table][uuid]; !ok {
					m.errs = append(m.errs, fmt.Sprintf("%s: modify of unknown row %s/%s", m.name, table, uuid))
				}
				m.setRow(table, uuid, ru.New)
			default:
				if _, ok := m.rows[table][uuid]; !ok {
					m.errs = append(m.errs, fmt.Sprintf("%s: delete of unknown row %s/%s", m.name, table, uuid))
				}
				delete(m.rows[table], uuid)
			}
		}
	}
	sort.Strings(tags)
	m.step(tags)
}

func (m *huntMonitor) apply2(tu ovsdb.TableUpdates2) {
	m.mu.Lock()
	defer m.mu.Unlock()
	if !m.ready {
		m.pending = append(m.pending, func() { m.apply2locked(tu) })
		return
	}
	m.apply2locked(tu)
}

func (m *huntMonitor) apply2locked(tu ovsdb.TableUpdates2) {
	var tags []string
	for table, t := range tu {
		for uuid, ru := range t {
			switch {
			case ru.Insert != nil:
				if _, ok := m.rows[table][uuid]; ok {
					m.errs = append(m.errs, fmt.Sprintf("%s: insert of known row %s/%s", m.name, table, uuid))
				}
				m.setRow(table, uuid, ru.Insert)
				if table == "Log" {
					tags = append(tags, m.rows[table][uuid]["tag"])
				}
			case ru.Modify != nil:
				r, ok := m.rows[table][uuid]
				if !ok {
					m.errs = append(m.errs, fmt.Sprintf("%s: modify of unknown row %s/%s", m.name, table, uuid))
					continue
				}
				for c, v := range *ru.Modify {
					if c == "_uuid" {
						continue
					}
					s := huntCanon(v)
					if table == "Parent" && c == "children" {
						s = huntSymDiff(r[c], s)
					}
					if s == "" || s == "0" {
						delete(r, c)
					} else {
						r[c] = s
					}
				}
			case ru.Delete != nil:
				if _, ok := m.rows[table][uuid]; !ok {
					m.errs = append(m.errs, fmt.Sprintf("%s: delete of unknown row %s/%s", m.name, table, uuid))
				}
				delete(m.rows[table], uuid)
			}
		}
	}
	sort.Strings(tags)
	m.step(tags)
}

// projection is the contents of the replica without uuids and without the log
func (m *huntMonitor) projection() string {
	return huntProjection(m.rows)
}

func huntProjection(rows map[string]map[string]map[string]string) string {
	var out []string
	for _, r := range rows["Counter"] {
		out = append(out, fmt.Sprintf("C %s=%s", r["name"], r["value"]))
	}
	for _, r := range rows["Item"] {
		out = append(out, fmt.Sprintf("I %s=%s", r["key"], r["owner"]))
	}
	for u, r := range rows["Child"] {
		_ = u
		out = append(out, fmt.Sprintf("K %s", r["name"]))
	}
	for _, r := range rows["Parent"] {
		var names []string
		for _, c := range strings.Split(r["children"], ",") {
			if c == "" {
				continue
			}
			if ch, ok := rows["Child"][c]; ok {
				names = append(names, ch["name"])
			} else {
				names = append(names, "DANGLING:"+c)
			}
		}
		sort.Strings(names)
		out = append(out, fmt.Sprintf("P %s=[%s]", r["name"], strings.Join(names, " ")))
	}
	sort.Strings(out)
	return strings.Join(out, "; ")
}

// monitor establishes a monitor of all tables and columns
func (hc *huntConn) monitor(t testing.TB, method, id string) *huntMonitor {
	m := &huntMonitor{name: method + "/" + id, rows: map[string]map[string]map[string]string{}, tags: map[string]bool{}}
	jid, _ := json.Marshal(id)
	hc.mu.Lock()
	hc.mons[string(jid)] = m
	hc.mu.Unlock()
	request := map[string]interface{}{}
	for _, table := range []string{"Counter", "Item", "Log", "Parent", "Child"} {
		request[table] = map[string]interface{}{}
	}
	// the notifications of this monitor may arrive before the reply is
	// handled here: they are kept until the initial contents are in place
	var initial ovsdb.TableUpdates2
	switch method {
	case "monitor":
		var reply ovsdb.TableUpdates
		if err := hc.c.Call(method, []interface{}{"Hunt", id, request}, &reply); err != nil {
			t.Fatal(err)
		}
		initial = ovsdb.TableUpdates2{}
		for table, tu := range reply {
			initial[table] = ovsdb.TableUpdate2{}
			for uuid, ru := range tu {
				initial[table][uuid] = &ovsdb.RowUpdate2{Initial: ru.New}
			}
		}
	case "monitor_cond":
		if err := hc.c.Call(method, []interface{}{"Hunt", id, request}, &initial); err != nil {
			t.Fatal(err)
		}
	case "monitor_cond_since":
		var reply ovsdb.MonitorCondSinceReply
		if err := hc.c.Call(method, []interface{}{"Hunt", id, request, "00000000-0000-0000-0000-000000000000"}, &reply); err != nil {
			t.Fatal(err)
		}
		initial = reply.Updates
	}
	m.mu.Lock()
	defer m.mu.Unlock()
	for table, tu := range initial {
		for uuid, ru := range tu {
			m.setRow(table, uuid, ru.Initial)
			if table == "Log" {
				m.tags[m.rows[table][uuid]["tag"]] = true
			}
		}
	}
	m.steps = []huntStep{{tag: "", proj: m.projection()}}
	m.ready = true
	if len(m.pending) > 0 {
		t.Logf("monitor %s: %d notifications were handled before the reply to the monitor request", m.name, len(m.pending))
	}
	for _, f := range m.pending {
		f()
	}
	m.pending = nil
	return m
}

// a transaction submitted by a worker
type huntTxn struct {
	tag     string
	kind    string
	a, b    string
	v       int
	results []ovsdb.OperationResult
	err     error
	ok      bool
}

func huntFailed(results []ovsdb.OperationResult, nops int) (bool, string) {
	if len(results) > nops {
		return true, results[len(results)-1].Error
	}
	for _, r := range results {
		if r.Error != "" {
			return true, r.Error
		}
	}
	if len(results) < nops {
		return true, "short reply"
	}
	return false, ""
}

func huntEq(col string, v interface{}) []ovsdb.Condition {
	return []ovsdb.Condition{ovsdb.NewCondition(col, ovsdb.ConditionEqual, v)}
}

func huntLogOp(tag string) ovsdb.Operation {
	return ovsdb.Operation{Op: ovsdb.OperationInsert, Table: "Log", Row: ovsdb.Row{"tag": tag}}
}

func huntUUIDSet(uuids ...string) ovsdb.OvsSet {
	s := ovsdb.OvsSet{GoSet: []interface{}{}}
	for _, u := range uuids {
		s.GoSet = append(s.GoSet, ovsdb.UUID{GoUUID: u})
	}
	return s
}

// TestHuntSerialisable runs workers issuing read-modify-write,
// insert-if-absent and reference moving transactions, with monitors of the
// three kinds attached before and during the run, and checks that everything
// observed is explained by one serial order.
func TestHuntSerialisable(t *testing.T) {
	_, sock := huntStartServer(t)
	const (
		nWorkers = 8
		nTxns    = 120
		nParents = 3
		nKids    = 4
		nKeys    = 40
	)
	setup := huntDial(t, sock)
	// initial contents
	var ops []ovsdb.Operation
	for _, c := range []string{"mut", "rmw"} {
		ops = append(ops, ovsdb.Operation{Op: ovsdb.OperationInsert, Table: "Counter", Row: ovsdb.Row{"name": c, "value": 0}})
	}
	kidUUID := map[string]string{}
	for k := 0; k < nKids; k++ {
		ops = append(ops, ovsdb.Operation{Op: ovsdb.OperationInsert, Table: "Child", UUIDName: fmt.Sprintf("kid%d", k), Row: ovsdb.Row{"name": fmt.Sprintf("kid%d", k)}})
	}
	for p := 0; p < nParents; p++ {
		row := ovsdb.Row{"name": fmt.Sprintf("p%d", p)}
		if p == 0 {
			s := ovsdb.OvsSet{GoSet: []interface{}{}}
			for k := 0; k < nKids; k++ {
				s.GoSet = append(s.GoSet, ovsdb.UUID{GoUUID: fmt.Sprintf("kid%d", k)})
			}
			row["children"] = s
		}
		ops = append(ops, ovsdb.Operation{Op: ovsdb.OperationInsert, Table: "Parent", Row: row})
	}
	res, err := setup.transact(ops...)
	if err != nil {
		t.Fatal(err)
	}
	if failed, msg := huntFailed(res, len(ops)); failed {
		t.Fatalf("setup failed: %s %+v", msg, res)
	}
	for k := 0; k < nKids; k++ {
		kidUUID[fmt.Sprintf("kid%d", k)] = res[2+k].UUID.GoUUID
	}

	// monitors attached from the start
	var monitors []*huntMonitor
	monConn1 := huntDial(t, sock)
	monConn2 := huntDial(t, sock)
	monitors = append(monitors, monConn1.monitor(t, "monitor", "a"))
	monitors = append(monitors, monConn1.monitor(t, "monitor_cond", "b"))
	monitors = append(monitors, monConn2.monitor(t, "monitor_cond_since", "c"))
	monitors = append(monitors, monConn2.monitor(t, "monitor", "d"))
	ref := monitors[0]

	var lateMu sync.Mutex
	var late []*huntMonitor

	var wg sync.WaitGroup
	txns := make([][]*huntTxn, nWorkers)
	var newKid int32
	for w := 0; w < nWorkers; w++ {
		w := w
		conn := huntDial(t, sock)
		wg.Add(1)
		go func() {
			defer wg.Done()
			rnd := rand.New(rand.NewSource(int64(w) + 1))
			for i := 0; i < nTxns; i++ {
				tx := &huntTxn{tag: fmt.Sprintf("w%d-%d", w, i)}
				txns[w] = append(txns[w], tx)
				var ops []ovsdb.Operation
				switch k := rnd.Intn(12); {
				case k < 2:
					tx.kind = "mut"
					ops = []ovsdb.Operation{
						{Op: ovsdb.OperationMutate, Table: "Counter", Where: huntEq("name", "mut"),
							Mutations: []ovsdb.Mutation{*ovsdb.NewMutation("value", ovsdb.MutateOperationAdd, 1)}},
						{Op: ovsdb.OperationSelect, Table: "Counter", Where: huntEq("name", "mut"), Columns: []string{"value"}},
						huntLogOp(tx.tag),
					}
				case k < 4:
					tx.kind = "rmw"
					// read in one transaction, write in the next one
					r, err := conn.transact(ovsdb.Operation{Op: ovsdb.OperationSelect, Table: "Counter", Where: huntEq("name", "rmw"), Columns: []string{"value"}})
					if err != nil || len(r) != 1 || len(r[0].Rows) != 1 {
						tx.err = fmt.Errorf("read failed: %v %+v", err, r)
						continue
					}
					tx.v = int(r[0].Rows[0]["value"].(float64))
					zero := 0
					ops = []ovsdb.Operation{
						{Op: ovsdb.OperationWait, Table: "Counter", Where: huntEq("name", "rmw"), Columns: []string{"value"},
							Until: "==", Rows: []ovsdb.Row{{"value": tx.v}}, Timeout: &zero},
						{Op: ovsdb.OperationUpdate, Table: "Counter", Where: huntEq("name", "rmw"), Row: ovsdb.Row{"value": tx.v + 1}},
						huntLogOp(tx.tag),
					}
				case k < 7:
					tx.kind = "ins"
					tx.a = fmt.Sprintf("key%d", rnd.Intn(nKeys))
					tx.b = fmt.Sprintf("w%d", w)
					ops = []ovsdb.Operation{
						{Op: ovsdb.OperationInsert, Table: "Item", Row: ovsdb.Row{"key": tx.a, "owner": tx.b}},
						huntLogOp(tx.tag),
					}
				case k < 10:
					tx.kind = "move"
					tx.a = fmt.Sprintf("kid%d", rnd.Intn(nKids))
					tx.b = fmt.Sprintf("p%d", rnd.Intn(nParents))
					kid := kidUUID[tx.a]
					ops = []ovsdb.Operation{
						{Op: ovsdb.OperationMutate, Table: "Parent",
							Where:     []ovsdb.Condition{ovsdb.NewCondition("children", ovsdb.ConditionIncludes, huntUUIDSet(kid))},
							Mutations: []ovsdb.Mutation{*ovsdb.NewMutation("children", ovsdb.MutateOperationDelete, huntUUIDSet(kid))}},
						{Op: ovsdb.OperationMutate, Table: "Parent", Where: huntEq("name", tx.b),
							Mutations: []ovsdb.Mutation{*ovsdb.NewMutation("children", ovsdb.MutateOperationInsert, huntUUIDSet(kid))}},
						huntLogOp(tx.tag),
					}
				case k < 11:
					tx.kind = "new"
					tx.a = fmt.Sprintf("new%d", atomic.AddInt32(&newKid, 1))
					tx.b = fmt.Sprintf("p%d", rnd.Intn(nParents))
					ops = []ovsdb.Operation{
						{Op: ovsdb.OperationInsert, Table: "Child", UUIDName: "n", Row: ovsdb.Row{"name": tx.a}},
						{Op: ovsdb.OperationMutate, Table: "Parent", Where: huntEq("name", tx.b),
							Mutations: []ovsdb.Mutation{*ovsdb.NewMutation("children", ovsdb.MutateOperationInsert, huntUUIDSet("n"))}},
						huntLogOp(tx.tag),
					}
				default:
					tx.kind = "drop"
					// detach every child whose name is new<n>: they are garbage collected
					n := int(atomic.LoadInt32(&newKid))
					if n == 0 {
						tx.err = fmt.Errorf("skipped")
						continue
					}
					tx.a = fmt.Sprintf("new%d", 1+rnd.Intn(n))
					r, err := conn.transact(ovsdb.Operation{Op: ovsdb.OperationSelect, Table: "Child", Where: huntEq("name", tx.a)})
					if err != nil || len(r) != 1 || len(r[0].Rows) != 1 {
						tx.err = fmt.Errorf("skipped")
						continue
					}
					kid := r[0].Rows[0]["_uuid"].(ovsdb.UUID).GoUUID
					ops = []ovsdb.Operation{
						{Op: ovsdb.OperationMutate, Table: "Parent",
							Where:     []ovsdb.Condition{ovsdb.NewCondition("children", ovsdb.ConditionIncludes, huntUUIDSet(kid))},
							Mutations: []ovsdb.Mutation{*ovsdb.NewMutation("children", ovsdb.MutateOperationDelete, huntUUIDSet(kid))}},
						huntLogOp(tx.tag),
					}
				}
				tx.results, tx.err = conn.transact(ops...)
				if tx.err == nil {
					failed, _ := huntFailed(tx.results, len(ops))
					tx.ok = !failed
				}
				// attach monitors while the run goes on
				if w < 3 && i%40 == 20 {
					method := []string{"monitor", "monitor_cond", "monitor_cond_since"}[(w+i/40)%3]
					c := conn
					if i/40 == 1 {
						c = huntDial(t, sock)
					}
					m := c.monitor(t, method, fmt.Sprintf("late-%d-%d", w, i))
					lateMu.Lock()
					late = append(late, m)
					lateMu.Unlock()
				}
			}
		}()
	}
	wg.Wait()

	// one more transaction: when its notification has reached a monitor, all
	// the earlier ones have
	endRes, err := setup.transact(huntLogOp("end"))
	if err != nil || len(endRes) != 1 || endRes[0].Error != "" {
		t.Fatalf("end: %v %+v", err, endRes)
	}
	all := append(append([]*huntMonitor{}, monitors...), late...)
	for _, m := range all {
		deadline := time.Now().Add(10 * time.Second)
		for {
			m.mu.Lock()
			done := len(m.steps) > 0 && m.steps[len(m.steps)-1].tag == "end"
			m.mu.Unlock()
			if done {
				break
			}
			if time.Now().After(deadline) {
				t.Fatalf("monitor %s never saw the last transaction", m.name)
			}
			time.Sleep(time.Millisecond)
		}
	}
	for _, m := range all {
		for _, e := range m.errs {
			t.Errorf("monitor replica: %s", e)
		}
	}

	// 1. every monitor attached from the start saw the same sequence
	for _, m := range monitors[1:] {
		if len(m.steps) != len(ref.steps) {
			t.Errorf("monitor %s saw %d notifications, monitor %s saw %d", m.name, len(m.steps), ref.name, len(ref.steps))
			continue
		}
		for i := range m.steps {
			if m.steps[i] != ref.steps[i] {
				t.Errorf("step %d: monitor %s saw %+v, monitor %s saw %+v", i, m.name, m.steps[i], ref.name, ref.steps[i])
				break
			}
		}
	}
	// 2. monitors attached during the run saw a prefix, then the same suffix
	for _, m := range late {
		p := -1
		seen := map[string]bool{}
		for i, s := range ref.steps {
			if s.tag != "" {
				seen[s.tag] = true
			}
			if len(seen) == len(m.tags) {
				p = i
				break
			}
		}
		if len(m.tags) == 0 {
			p = 0
		}
		if p < 0 {
			t.Errorf("late monitor %s: initial contents hold %d transactions, more than were notified", m.name, len(m.tags))
			continue
		}
		for tag := range m.tags {
			if !seen[tag] {
				t.Errorf("late monitor %s: initial contents hold transaction %s, which is not among the first %d of the serial order", m.name, tag, len(m.tags))
			}
		}
		if m.steps[0].proj != ref.steps[p].proj {
			t.Errorf("late monitor %s: initial contents %q are not the contents after the first %d transactions %q", m.name, m.steps[0].proj, p, ref.steps[p].proj)
		}
		rest := ref.steps[p+1:]
		if len(rest) != len(m.steps)-1 {
			t.Errorf("late monitor %s: saw %d notifications after its initial contents, expected %d", m.name, len(m.steps)-1, len(rest))
			continue
		}
		for i := range rest {
			if rest[i] != m.steps[i+1] {
				t.Errorf("late monitor %s: notification %d is %+v, expected %+v", m.name, i, m.steps[i+1], rest[i])
				break
			}
		}
	}

	// 3. the serial order explains the results of every worker
	byTag := map[string]*huntTxn{}
	committed := 0
	for w := range txns {
		for _, tx := range txns[w] {
			byTag[tx.tag] = tx
			if tx.ok {
				committed++
			}
			if tx.err != nil && tx.err.Error() != "skipped" {
				t.Errorf("transaction %s (%s): %v", tx.tag, tx.kind, tx.err)
			}
		}
	}
	counters := map[string]int{"mut": 0, "rmw": 0}
	items := map[string]string{}
	holder := map[string]string{}
	for k := 0; k < nKids; k++ {
		holder[fmt.Sprintf("kid%d", k)] = "p0"
	}
	modelProj := func() string {
		var out []string
		for c, v := range counters {
			s := fmt.Sprintf("%d", v)
			if v == 0 {
				s = ""
			}
			out = append(out, fmt.Sprintf("C %s=%s", c, s))
		}
		for k, o := range items {
			out = append(out, fmt.Sprintf("I %s=%s", k, o))
		}
		kids := map[string][]string{}
		for k, p := range holder {
			out = append(out, "K "+k)
			kids[p] = append(kids[p], k)
		}
		for p := 0; p < nParents; p++ {
			name := fmt.Sprintf("p%d", p)
			sort.Strings(kids[name])
			out = append(out, fmt.Sprintf("P %s=[%s]", name, strings.Join(kids[name], " ")))
		}
		sort.Strings(out)
		return strings.Join(out, "; ")
	}
	if ref.steps[0].proj != modelProj() {
		t.Errorf("initial contents %q, expected %q", ref.steps[0].proj, modelProj())
	}
	seen := 0
	for i, s := range ref.steps[1:] {
		if s.tag == "end" {
			continue
		}
		tx := byTag[s.tag]
		if tx == nil {
			t.Errorf("step %d: notification of unknown transaction(s) %q", i, s.tag)
			continue
		}
		seen++
		if !tx.ok {
			t.Errorf("step %d: transaction %s was notified to the monitors, its client was told it failed: %+v", i, s.tag, tx.results)
		}
		switch tx.kind {
		case "mut":
			counters["mut"]++
			got := -1
			if len(tx.results) > 1 && len(tx.results[1].Rows) == 1 {
				got = int(tx.results[1].Rows[0]["value"].(float64))
			}
			if got != counters["mut"] {
				t.Errorf("step %d: %s incremented the counter and read %d, in the serial order it is %d", i, s.tag, got, counters["mut"])
			}
		case "rmw":
			if counters["rmw"] != tx.v {
				t.Errorf("step %d: %s waited for the counter to be %d and was committed, in the serial order it is %d", i, s.tag, tx.v, counters["rmw"])
			}
			counters["rmw"] = tx.v + 1
		case "ins":
			if o, ok := items[tx.a]; ok {
				t.Errorf("step %d: %s inserted key %s, in the serial order it is already held by %s", i, s.tag, tx.a, o)
			}
			items[tx.a] = tx.b
		case "move":
			want := 0
			if _, ok := holder[tx.a]; ok {
				want = 1
			}
			if tx.results[0].Count != want {
				t.Errorf("step %d: %s detached %s from %d parents, in the serial order from %d", i, s.tag, tx.a, tx.results[0].Count, want)
			}
			holder[tx.a] = tx.b
		case "new":
			holder[tx.a] = tx.b
		case "drop":
			want := 0
			if _, ok := holder[tx.a]; ok {
				want = 1
			}
			if tx.results[0].Count != want {
				t.Errorf("step %d: %s detached %s from %d parents, in the serial order from %d", i, s.tag, tx.a, tx.results[0].Count, want)
			}
			delete(holder, tx.a)
		}
		if mp := modelProj(); mp != s.proj {
			t.Errorf("step %d: after %s (%s %s %s) the monitors hold\n  %s\nthe serial execution gives\n  %s", i, s.tag, tx.kind, tx.a, tx.b, s.proj, mp)
			break
		}
	}
	if seen != committed {
		t.Errorf("%d transactions were reported as committed to their clients, the monitors saw %d", committed, seen)
	}
	// 4. insert-if-absent: exactly one winner per key
	winners := map[string]int{}
	tried := map[string]int{}
	for w := range txns {
		for _, tx := range txns[w] {
			if tx.kind == "ins" && tx.err == nil {
				tried[tx.a]++
				if tx.ok {
					winners[tx.a]++
				} else if _, msg := huntFailed(tx.results, 2); msg != "constraint violation" {
					t.Errorf("insert of %s by %s failed with %q", tx.a, tx.b, msg)
				}
			}
		}
	}
	for k, n := range tried {
		if winners[k] != 1 {
			t.Errorf("key %s: %d inserts tried, %d succeeded, expected exactly one", k, n, winners[k])
		}
	}
	// 5. the final contents of the database are those of the serial order
	final := &huntMonitor{rows: map[string]map[string]map[string]string{}}
	for _, table := range []string{"Counter", "Item", "Parent", "Child"} {
		r, err := setup.transact(ovsdb.Operation{Op: ovsdb.OperationSelect, Table: table})
		if err != nil || len(r) != 1 || r[0].Error != "" {
			t.Fatalf("select %s: %v %+v", table, err, r)
		}
		for i := range r[0].Rows {
			row := r[0].Rows[i]
			final.setRow(table, row["_uuid"].(ovsdb.UUID).GoUUID, &row)
		}
	}
	if fp := final.projection(); fp != modelProj() {
		t.Errorf("final contents of the database\n  %s\nthe serial execution gives\n  %s", fp, modelProj())
	}
	t.Logf("%d transactions committed, %d monitors (%d attached during the run), counters %v", committed, len(all), len(late), counters)
}
