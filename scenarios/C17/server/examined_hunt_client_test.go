package server

import (
	"context"
	"fmt"
	"sync"
	"testing"
	"time"

	"github.com/go-logr/logr"
	"github.com/ovn-org/libovsdb/cache"
	"github.com/ovn-org/libovsdb/client"
	"github.com/ovn-org/libovsdb/model"
	"github.com/ovn-org/libovsdb/ovsdb"
)

func huntLibClient(t testing.TB, sock string) client.Client {
	cdb, err := model.NewClientDBModel("Hunt", map[string]model.Model{
		"Counter": &huntCounter{}, "Item": &huntItem{}, "Log": &huntLog{}, "Parent": &huntParent{}, "Child": &huntChild{},
	})
	if err != nil {
		t.Fatal(err)
	}
	c, err := client.NewOVSDBClient(cdb, client.WithEndpoint("unix:"+sock), client.WithLogger(&huntDiscard))
	if err != nil {
		t.Fatal(err)
	}
	if err := c.Connect(context.Background()); err != nil {
		t.Fatal(err)
	}
	t.Cleanup(c.Close)
	return c
}

var huntDiscard = logr.Discard()

type huntSeq struct {
	mu   sync.Mutex
	vals []int
	init int
}

// TestHuntLibClients: libovsdb clients as workers and as monitoring clients.
func TestHuntLibClients(t *testing.T) {
	_, sock := huntStartServer(t)
	setup := huntLibClient(t, sock)
	ctx := context.Background()
	res, err := setup.Transact(ctx, ovsdb.Operation{Op: ovsdb.OperationInsert, Table: "Counter", Row: ovsdb.Row{"name": "c", "value": 0}})
	if err != nil || res[0].Error != "" {
		t.Fatalf("%v %+v", err, res)
	}
	const nWorkers, nTxns = 6, 150

	attach := func(name string) (client.Client, *huntSeq) {
		c := huntLibClient(t, sock)
		s := &huntSeq{init: -1}
		c.Cache().AddEventHandler(&cache.EventHandlerFuncs{
			AddFunc: func(table string, m model.Model) {
				if table == "Counter" {
					s.mu.Lock()
					s.init = m.(*huntCounter).Value
					s.mu.Unlock()
				}
			},
			UpdateFunc: func(table string, old, new model.Model) {
				if table == "Counter" {
					s.mu.Lock()
					s.vals = append(s.vals, new.(*huntCounter).Value)
					s.mu.Unlock()
				}
			},
		})
		if _, err := c.MonitorAll(ctx); err != nil {
			t.Fatal(err)
		}
		return c, s
	}
	type mon struct {
		name string
		c    client.Client
		s    *huntSeq
	}
	var mons []mon
	var monsMu sync.Mutex
	for i := 0; i < 3; i++ {
		c, s := attach(fmt.Sprintf("m%d", i))
		mons = append(mons, mon{fmt.Sprintf("m%d", i), c, s})
	}
	var wg sync.WaitGroup
	for w := 0; w < nWorkers; w++ {
		w := w
		c := huntLibClient(t, sock)
		wg.Add(1)
		go func() {
			defer wg.Done()
			for i := 0; i < nTxns; i++ {
				r, err := c.Transact(ctx, ovsdb.Operation{Op: ovsdb.OperationMutate, Table: "Counter", Where: huntEq("name", "c"),
					Mutations: []ovsdb.Mutation{*ovsdb.NewMutation("value", ovsdb.MutateOperationAdd, 1)}})
				if err != nil || len(r) != 1 || r[0].Error != "" || r[0].Count != 1 {
					t.Errorf("worker %d txn %d: %v %+v", w, i, err, r)
					return
				}
				if w < 3 && i%50 == 25 {
					name := fmt.Sprintf("late-%d-%d", w, i)
					mc, s := attach(name)
					monsMu.Lock()
					mons = append(mons, mon{name, mc, s})
					monsMu.Unlock()
				}
			}
		}()
	}
	wg.Wait()
	total := nWorkers * nTxns
	for _, m := range mons {
		deadline := time.Now().Add(10 * time.Second)
		for {
			m.s.mu.Lock()
			n := len(m.s.vals)
			last := -1
			if n > 0 {
				last = m.s.vals[n-1]
			}
			m.s.mu.Unlock()
			if last == total {
				break
			}
			if time.Now().After(deadline) {
				t.Errorf("monitor %s: last value seen is %d, the counter is %d", m.name, last, total)
				break
			}
			time.Sleep(5 * time.Millisecond)
		}
		m.s.mu.Lock()
		prev := m.s.init
		for i, v := range m.s.vals {
			if v != prev+1 {
				t.Errorf("monitor %s: event %d is value %d after %d (initial %d)", m.name, i, v, prev, m.s.init)
				break
			}
			prev = v
		}
		m.s.mu.Unlock()
		var got []huntCounter
		if err := m.c.List(ctx, &got); err != nil || len(got) != 1 || got[0].Value != total {
			t.Errorf("monitor %s: cache holds %+v (%v), the counter is %d", m.name, got, err, total)
		}
	}
}
