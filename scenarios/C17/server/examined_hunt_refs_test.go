package server

import (
	"encoding/json"
	"fmt"
	"math/rand"
	"sort"
	"strings"
	"testing"

	"github.com/google/uuid"
	"github.com/ovn-org/libovsdb/database/inmemory"
	"github.com/ovn-org/libovsdb/model"
	"github.com/ovn-org/libovsdb/ovsdb"
)

const huntSchemaR = `{"name":"R","version":"1.0.0","tables":{
 "Parent":{"isRoot":true,"indexes":[["name"]],"columns":{"name":{"type":"string"},
    "kids":{"type":{"key":{"type":"uuid","refTable":"Child","refType":"strong"},"min":0,"max":"unlimited"}},
    "fav":{"type":{"key":{"type":"uuid","refTable":"Child","refType":"strong"},"min":0,"max":1}},
    "m":{"type":{"key":{"type":"string"},"value":{"type":"uuid","refTable":"Child","refType":"strong"},"min":0,"max":"unlimited"}},
    "weak":{"type":{"key":{"type":"uuid","refTable":"Child","refType":"weak"},"min":0,"max":"unlimited"}}}},
 "Child":{"indexes":[["name"]],"columns":{"name":{"type":"string"},
    "next":{"type":{"key":{"type":"uuid","refTable":"Child","refType":"strong"},"min":0,"max":1}}}}
}}`

type huntRParent struct {
	UUID string            `ovsdb:"_uuid"`
	Name string            `ovsdb:"name"`
	Kids []string          `ovsdb:"kids"`
	Fav  *string           `ovsdb:"fav"`
	M    map[string]string `ovsdb:"m"`
	Weak []string          `ovsdb:"weak"`
}
type huntRChild struct {
	UUID string  `ovsdb:"_uuid"`
	Name string  `ovsdb:"name"`
	Next *string `ovsdb:"next"`
}

// model state
type huntRState struct {
	kids map[string]map[string]bool   // parent -> child names
	fav  map[string]string            // parent -> child name
	m    map[string]map[string]string // parent -> key -> child name
	weak map[string]map[string]bool
	next map[string]string // child -> child
	live map[string]bool
}

func (s *huntRState) clone() *huntRState {
	b, _ := json.Marshal(s.export())
	var e huntRExport
	_ = json.Unmarshal(b, &e)
	return e.state()
}

type huntRExport struct {
	Kids map[string]map[string]bool
	Fav  map[string]string
	M    map[string]map[string]string
	Weak map[string]map[string]bool
	Next map[string]string
	Live map[string]bool
}

func (s *huntRState) export() huntRExport { return huntRExport{s.kids, s.fav, s.m, s.weak, s.next, s.live} }
func (e huntRExport) state() *huntRState {
	return &huntRState{e.Kids, e.Fav, e.M, e.Weak, e.Next, e.Live}
}

// settle checks the strong references, then garbage collects; returns false
// if a strong reference is to a row that does not exist
func (s *huntRState) settle(created map[string]bool) bool {
	refs := func() map[string]bool {
		refd := map[string]bool{}
		for _, ks := range s.kids {
			for k := range ks {
				refd[k] = true
			}
		}
		for _, k := range s.fav {
			refd[k] = true
		}
		for _, mm := range s.m {
			for _, k := range mm {
				refd[k] = true
			}
		}
		for c, n := range s.next {
			if s.live[c] {
				refd[n] = true
			}
		}
		return refd
	}
	for k := range refs() {
		if !s.live[k] {
			return false
		}
	}
	for {
		refd := refs()
		changed := false
		for c := range s.live {
			if !refd[c] {
				delete(s.live, c)
				delete(s.next, c)
				changed = true
			}
		}
		if !changed {
			break
		}
	}
	for _, w := range s.weak {
		for k := range w {
			if !s.live[k] {
				delete(w, k)
			}
		}
	}
	return true
}

func (s *huntRState) proj() string {
	var out []string
	for c := range s.live {
		out = append(out, fmt.Sprintf("K %s next=%s", c, s.next[c]))
	}
	for p := range s.kids {
		var ks, ws, ms []string
		for k := range s.kids[p] {
			ks = append(ks, k)
		}
		for k := range s.weak[p] {
			ws = append(ws, k)
		}
		for k, v := range s.m[p] {
			ms = append(ms, k+"="+v)
		}
		sort.Strings(ks)
		sort.Strings(ws)
		sort.Strings(ms)
		out = append(out, fmt.Sprintf("P %s kids=[%s] fav=%s m=[%s] weak=[%s]", p, strings.Join(ks, ","), s.fav[p], strings.Join(ms, ","), strings.Join(ws, ",")))
	}
	sort.Strings(out)
	return strings.Join(out, "\n")
}

// replica rows: table -> uuid -> column -> canonical
type huntRReplica map[string]map[string]map[string]string

func huntRCanon(v interface{}) string {
	switch x := v.(type) {
	case ovsdb.OvsSet:
		var l []string
		for _, e := range x.GoSet {
			l = append(l, huntRCanon(e))
		}
		sort.Strings(l)
		return strings.Join(l, ",")
	case ovsdb.OvsMap:
		var l []string
		for k, e := range x.GoMap {
			l = append(l, huntRCanon(k)+"="+huntRCanon(e))
		}
		sort.Strings(l)
		return strings.Join(l, ",")
	case ovsdb.UUID:
		return x.GoUUID
	case string:
		return x
	}
	return fmt.Sprintf("?%T:%v", v, v)
}

func (r huntRReplica) set(table, uuid string, row *ovsdb.Row) {
	if r[table] == nil {
		r[table] = map[string]map[string]string{}
	}
	m := map[string]string{}
	for c, v := range *row {
		if c == "_uuid" {
			continue
		}
		if s := huntRCanon(v); s != "" {
			m[c] = s
		}
	}
	r[table][uuid] = m
}

func (r huntRReplica) proj() string {
	name := func(u string) string {
		if c, ok := r["Child"][u]; ok {
			return c["name"]
		}
		return "DANGLING:" + u
	}
	names := func(s string) string {
		if s == "" {
			return ""
		}
		var l []string
		for _, u := range strings.Split(s, ",") {
			l = append(l, name(u))
		}
		sort.Strings(l)
		return strings.Join(l, ",")
	}
	var out []string
	for _, c := range r["Child"] {
		n := ""
		if c["next"] != "" {
			n = name(c["next"])
		}
		out = append(out, fmt.Sprintf("K %s next=%s", c["name"], n))
	}
	for _, p := range r["Parent"] {
		var ms []string
		if p["m"] != "" {
			for _, kv := range strings.Split(p["m"], ",") {
				i := strings.Index(kv, "=")
				ms = append(ms, kv[:i]+"="+name(kv[i+1:]))
			}
		}
		sort.Strings(ms)
		fav := ""
		if p["fav"] != "" {
			fav = name(p["fav"])
		}
		out = append(out, fmt.Sprintf("P %s kids=[%s] fav=%s m=[%s] weak=[%s]", p["name"], names(p["kids"]), fav, strings.Join(ms, ","), names(p["weak"])))
	}
	sort.Strings(out)
	return strings.Join(out, "\n")
}

func (r huntRReplica) apply1(tu ovsdb.TableUpdates) {
	for table, t := range tu {
		for uuid, ru := range t {
			if ru.New != nil {
				r.set(table, uuid, ru.New)
			} else {
				delete(r[table], uuid)
			}
		}
	}
}

func (r huntRReplica) apply2(tu ovsdb.TableUpdates2) []string {
	var errs []string
	for table, t := range tu {
		for uuid, ru := range t {
			switch {
			case ru.Insert != nil:
				r.set(table, uuid, ru.Insert)
			case ru.Delete != nil:
				if _, ok := r[table][uuid]; !ok {
					errs = append(errs, "delete of unknown row "+uuid)
				}
				delete(r[table], uuid)
			case ru.Modify != nil:
				row, ok := r[table][uuid]
				if !ok {
					errs = append(errs, "modify of unknown row "+uuid)
					continue
				}
				for c, v := range *ru.Modify {
					s := huntRCanon(v)
					switch c {
					case "kids", "weak":
						s = huntSymDiff(row[c], s)
					case "m":
						cur := map[string]string{}
						for _, kv := range strings.Split(row[c], ",") {
							if kv != "" {
								i := strings.Index(kv, "=")
								cur[kv[:i]] = kv[i+1:]
							}
						}
						for _, kv := range strings.Split(s, ",") {
							if kv != "" {
								i := strings.Index(kv, "=")
								if cur[kv[:i]] == kv[i+1:] {
									delete(cur, kv[:i])
								} else {
									cur[kv[:i]] = kv[i+1:]
								}
							}
						}
						var l []string
						for k, v := range cur {
							l = append(l, k+"="+v)
						}
						sort.Strings(l)
						s = strings.Join(l, ",")
					}
					if s == "" {
						delete(row, c)
					} else {
						row[c] = s
					}
				}
			}
		}
	}
	return errs
}

// TestHuntReferences: random reference moving transactions, one after the
// other; the results, the notifications of the three kinds of monitors and
// the database must agree with a model of the references.
func TestHuntReferences(t *testing.T) {
	for seed := int64(1); seed <= 300; seed++ {
		if !huntReferencesRun(t, seed) {
			return
		}
	}
}

func huntReferencesRun(t *testing.T, seed int64) bool {
	var schema ovsdb.DatabaseSchema
	if err := json.Unmarshal([]byte(huntSchemaR), &schema); err != nil {
		t.Fatal(err)
	}
	cdb, err := model.NewClientDBModel("R", map[string]model.Model{"Parent": &huntRParent{}, "Child": &huntRChild{}})
	if err != nil {
		t.Fatal(err)
	}
	db := inmemory.NewDatabase(map[string]model.ClientDBModel{"R": cdb})
	dbModel, errs := model.NewDatabaseModel(schema, cdb)
	if len(errs) > 0 {
		t.Fatal(errs)
	}
	srv, err := NewOvsdbServer(db, dbModel)
	if err != nil {
		t.Fatal(err)
	}
	all := map[string]*ovsdb.MonitorRequest{"Parent": nil, "Child": nil}
	mon1 := srv.bindMonitor(newMonitor("1", all, nil), "R")
	mon2 := srv.bindMonitor(newConditionalMonitor("2", all, nil), "R")
	rep1, rep2 := huntRReplica{}, huntRReplica{}

	rnd := rand.New(rand.NewSource(seed))
	st := &huntRState{kids: map[string]map[string]bool{}, fav: map[string]string{}, m: map[string]map[string]string{}, weak: map[string]map[string]bool{}, next: map[string]string{}, live: map[string]bool{}}
	parents := []string{"p0", "p1", "p2"}
	uuids := map[string]string{} // child name -> uuid
	var history []string

	run := func(ops []ovsdb.Operation) (bool, string) {
		b, _ := json.Marshal(ops)
		var ops2 []ovsdb.Operation
		if err := json.Unmarshal(b, &ops2); err != nil {
			t.Fatal(err)
		}
		res, upd := srv.transact("R", ops2)
		for _, r := range res {
			if r != nil && r.Error != "" {
				return false, r.Error + ": " + r.Details
			}
		}
		rep1.apply1(mon1.filter(upd))
		// through JSON, as a client sees it
		jb, _ := json.Marshal(mon2.filter2(upd))
		var tu2 ovsdb.TableUpdates2
		if err := json.Unmarshal(jb, &tu2); err != nil {
			t.Fatal(err)
		}
		for _, e := range rep2.apply2(tu2) {
			t.Errorf("seed %d: update2: %s", seed, e)
		}
		if err := db.Commit("R", uuid.New(), upd); err != nil {
			return false, "COMMIT: " + err.Error()
		}
		return true, ""
	}
	var ops []ovsdb.Operation
	for _, p := range parents {
		ops = append(ops, ovsdb.Operation{Op: "insert", Table: "Parent", Row: ovsdb.Row{"name": p}})
		st.kids[p], st.m[p], st.weak[p] = map[string]bool{}, map[string]string{}, map[string]bool{}
	}
	if ok, e := run(ops); !ok {
		t.Fatal(e)
	}
	uset := func(us ...string) ovsdb.OvsSet {
		s := ovsdb.OvsSet{GoSet: []interface{}{}}
		for _, u := range us {
			s.GoSet = append(s.GoSet, ovsdb.UUID{GoUUID: u})
		}
		return s
	}
	nChild := 0
	for step := 0; step < 40; step++ {
		next := st.clone()
		var ops []ovsdb.Operation
		var desc []string
		created := map[string]bool{}
		nops := 1 + rnd.Intn(3)
		for o := 0; o < nops; o++ {
			p := parents[rnd.Intn(len(parents))]
			where := huntEq("name", p)
			// pick a child: a new one, or any ever created
			var c, cu string
			if nChild == 0 || rnd.Intn(4) == 0 {
				c = fmt.Sprintf("c%d", nChild)
				nChild++
				cu = uuid.NewString()
				uuids[c] = cu
				row := ovsdb.Row{"name": c}
				d := "new " + c
				if rnd.Intn(3) == 0 && nChild > 1 {
					// chain to an earlier child
					n := fmt.Sprintf("c%d", rnd.Intn(nChild-1))
					row["next"] = uset(uuids[n])
					next.next[c] = n
					d += " next=" + n
				}
				ops = append(ops, ovsdb.Operation{Op: "insert", Table: "Child", UUID: cu, Row: row})
				next.live[c] = true
				created[c] = true
				desc = append(desc, d)
			} else {
				c = fmt.Sprintf("c%d", rnd.Intn(nChild))
				cu = uuids[c]
			}
			switch rnd.Intn(9) {
			case 0, 1:
				ops = append(ops, ovsdb.Operation{Op: "mutate", Table: "Parent", Where: where, Mutations: []ovsdb.Mutation{*ovsdb.NewMutation("kids", "insert", uset(cu))}})
				next.kids[p][c] = true
				desc = append(desc, fmt.Sprintf("%s.kids+=%s", p, c))
			case 2:
				ops = append(ops, ovsdb.Operation{Op: "mutate", Table: "Parent", Where: where, Mutations: []ovsdb.Mutation{*ovsdb.NewMutation("kids", "delete", uset(cu))}})
				delete(next.kids[p], c)
				desc = append(desc, fmt.Sprintf("%s.kids-=%s", p, c))
			case 3:
				ops = append(ops, ovsdb.Operation{Op: "update", Table: "Parent", Where: where, Row: ovsdb.Row{"fav": uset(cu)}})
				next.fav[p] = c
				desc = append(desc, fmt.Sprintf("%s.fav=%s", p, c))
			case 4:
				ops = append(ops, ovsdb.Operation{Op: "update", Table: "Parent", Where: where, Row: ovsdb.Row{"fav": uset()}})
				delete(next.fav, p)
				desc = append(desc, fmt.Sprintf("%s.fav=none", p))
			case 5:
				k := fmt.Sprintf("k%d", rnd.Intn(3))
				ops = append(ops,
					ovsdb.Operation{Op: "mutate", Table: "Parent", Where: where, Mutations: []ovsdb.Mutation{
						*ovsdb.NewMutation("m", "delete", ovsdb.OvsSet{GoSet: []interface{}{k}}),
						*ovsdb.NewMutation("m", "insert", ovsdb.OvsMap{GoMap: map[interface{}]interface{}{k: ovsdb.UUID{GoUUID: cu}}})}})
				next.m[p][k] = c
				desc = append(desc, fmt.Sprintf("%s.m[%s]=%s", p, k, c))
			case 6:
				k := fmt.Sprintf("k%d", rnd.Intn(3))
				ops = append(ops, ovsdb.Operation{Op: "mutate", Table: "Parent", Where: where, Mutations: []ovsdb.Mutation{
					*ovsdb.NewMutation("m", "delete", ovsdb.OvsSet{GoSet: []interface{}{k}})}})
				delete(next.m[p], k)
				desc = append(desc, fmt.Sprintf("%s.m-=%s", p, k))
			case 7:
				ops = append(ops, ovsdb.Operation{Op: "mutate", Table: "Parent", Where: where, Mutations: []ovsdb.Mutation{*ovsdb.NewMutation("weak", "insert", uset(cu))}})
				next.weak[p][c] = true
				desc = append(desc, fmt.Sprintf("%s.weak+=%s", p, c))
			case 8:
				// move every reference of kids from p to another parent
				q := parents[rnd.Intn(len(parents))]
				ops = append(ops,
					ovsdb.Operation{Op: "mutate", Table: "Parent", Where: where, Mutations: []ovsdb.Mutation{*ovsdb.NewMutation("kids", "delete", uset(cu))}},
					ovsdb.Operation{Op: "mutate", Table: "Parent", Where: huntEq("name", q), Mutations: []ovsdb.Mutation{*ovsdb.NewMutation("kids", "insert", uset(cu))}})
				delete(next.kids[p], c)
				next.kids[q][c] = true
				desc = append(desc, fmt.Sprintf("%s.kids-=%s %s.kids+=%s", p, c, q, c))
			}
		}
		// references to children that do not exist any more
		// (the model keeps names of dead children in the columns until settle)
		expectOK := next.settle(created)
		history = append(history, strings.Join(desc, "; "))
		ok, msg := run(ops)
		fail := func(format string, args ...interface{}) bool {
			t.Errorf("seed %d step %d: %s\ntransactions so far:\n  %s\nstate before:\n%s", seed, step, fmt.Sprintf(format, args...), strings.Join(history, "\n  "), st.proj())
			return false
		}
		if ok != expectOK {
			return fail("transaction committed=%v (%s), the model says %v", ok, msg, expectOK)
		}
		if ok {
			st = next
		}
		// database contents
		dbr := huntRReplica{}
		for _, table := range []string{"Parent", "Child"} {
			res, _ := srv.transact("R", []ovsdb.Operation{{Op: "select", Table: table}})
			for i := range res[0].Rows {
				row := res[0].Rows[i]
				dbr.set(table, row["_uuid"].(ovsdb.UUID).GoUUID, &row)
			}
		}
		if dbr.proj() != st.proj() {
			return fail("the database holds\n%s\nthe model\n%s", dbr.proj(), st.proj())
		}
		if rep1.proj() != st.proj() {
			return fail("the replica of a 'monitor' holds\n%s\nthe database\n%s", rep1.proj(), st.proj())
		}
		if rep2.proj() != st.proj() {
			return fail("the replica of a 'monitor_cond' holds\n%s\nthe database\n%s", rep2.proj(), st.proj())
		}
	}
	return true
}
