package client

import (
	"sync"
	"testing"

	"github.com/ovn-org/libovsdb/model"
)

type huntRaceRow struct {
	UUID string `ovsdb:"_uuid"`
	Name string `ovsdb:"name"`
}

// TestHuntRaceNewClient (run with -race): clients created by two goroutines,
// as the monitoring clients that attach during a run are. Without a logger
// option each NewOVSDBClient writes the process-wide verbosity of stdr, which
// every logging call of every other client and of the server reads.
func TestHuntRaceNewClient(t *testing.T) {
	var wg sync.WaitGroup
	for i := 0; i < 2; i++ {
		wg.Add(1)
		go func() {
			defer wg.Done()
			cdb, err := model.NewClientDBModel("Hunt", map[string]model.Model{"T": &huntRaceRow{}})
			if err != nil {
				t.Error(err)
				return
			}
			for j := 0; j < 100; j++ {
				c, err := NewOVSDBClient(cdb)
				if err != nil {
					t.Error(err)
					return
				}
				// a logging call of an existing client
				c.(*ovsdbClient).logger.V(3).Info("hunt")
			}
		}()
	}
	wg.Wait()
}
