package transaction_test

import (
	"testing"

	"github.com/google/uuid"
	"github.com/stretchr/testify/require"

	"github.com/ovn-org/libovsdb/database/inmemory"
	"github.com/ovn-org/libovsdb/model"
	"github.com/ovn-org/libovsdb/ovsdb"
	"github.com/ovn-org/libovsdb/test"
)

// a model of the Bridge table that does not map every column of the schema,
// which the library allows (model.NewDatabaseModel only checks that the
// mapped columns exist)
type reviewBridge struct {
	UUID string `ovsdb:"_uuid"`
	Name string `ovsdb:"name"`
}

// Commit 986eb60 makes a wait without "columns" compare every column of the
// *schema*, whether the expected row provides it or not. A column the server
// model does not map cannot be read from either side: FieldByColumn fails and
// the wait is answered with an error. Before the repair the same wait (expected
// row made of mapped columns only) succeeded.
func TestHuntReviewWaitWithoutColumnsOnPartialModel(t *testing.T) {
	schema, err := test.GetSchema()
	require.NoError(t, err)
	clientModel, err := model.NewClientDBModel("Open_vSwitch", map[string]model.Model{
		"Bridge": &reviewBridge{},
	})
	require.NoError(t, err)
	dbModel, errs := model.NewDatabaseModel(schema, clientModel)
	require.Empty(t, errs)

	db := inmemory.NewDatabase(map[string]model.ClientDBModel{"Open_vSwitch": dbModel.Client()})
	require.NoError(t, db.CreateDatabase("Open_vSwitch", dbModel.Schema))

	// insert a bridge
	tr := db.NewTransaction("Open_vSwitch")
	res, upd := tr.Transact(ovsdb.Operation{
		Op:    ovsdb.OperationInsert,
		Table: "Bridge",
		UUID:  uuid.NewString(),
		Row:   ovsdb.Row{"name": "br0"},
	})
	require.Len(t, res, 1)
	require.Empty(t, res[0].Error, "insert: %+v", res[0])
	require.NoError(t, db.Commit("Open_vSwitch", uuid.New(), upd))

	// wait until the rows named br0 are {name: br0}, no "columns"
	timeout := 0
	tr = db.NewTransaction("Open_vSwitch")
	res, _ = tr.Transact(ovsdb.Operation{
		Op:      ovsdb.OperationWait,
		Table:   "Bridge",
		Timeout: &timeout,
		Where:   []ovsdb.Condition{ovsdb.NewCondition("name", ovsdb.ConditionEqual, "br0")},
		Until:   "==",
		Rows:    []ovsdb.Row{{"name": "br0"}},
	})
	require.Len(t, res, 1)
	require.Empty(t, res[0].Error,
		"expected: the wait is satisfied (the row equals the expected row in every column the server holds); got error %q details %q",
		res[0].Error, res[0].Details)
}
