package inmemory

import (
	"encoding/json"
	"testing"

	"github.com/google/uuid"
	"github.com/stretchr/testify/require"

	"github.com/ovn-org/libovsdb/model"
	"github.com/ovn-org/libovsdb/ovsdb"
)

type huntX struct {
	UUID string `ovsdb:"_uuid"`
	A    string `ovsdb:"a"`
	B    string `ovsdb:"b"`
}

func TestHuntPermutedIndexes(t *testing.T) {
	const s = `{"name":"X","version":"1.0.0","tables":{"X":{"isRoot":true,"columns":{"a":{"type":"string"},"b":{"type":"string"}},"indexes":[["a","b"],["b","a"]]}}}`
	var schema ovsdb.DatabaseSchema
	require.NoError(t, json.Unmarshal([]byte(s), &schema))
	cm, err := model.NewClientDBModel("X", map[string]model.Model{"X": &huntX{}})
	require.NoError(t, err)
	db := NewDatabase(map[string]model.ClientDBModel{"X": cm})
	require.NoError(t, db.CreateDatabase("X", schema))
	run := func(ops ...ovsdb.Operation) string {
		txn := db.NewTransaction("X")
		res, upd := txn.Transact(ops...)
		for _, r := range res {
			if r.Error != "" {
				return r.Error + " " + r.Details
			}
		}
		require.NoError(t, db.Commit("X", uuid.New(), upd))
		return ""
	}
	require.Equal(t, "", run(ovsdb.Operation{Op: "insert", Table: "X", Row: ovsdb.Row{"a": "x", "b": "y"}}))
	got := run(ovsdb.Operation{Op: "insert", Table: "X", Row: ovsdb.Row{"a": "y", "b": "x"}})
	if got != "" {
		t.Errorf("rows (x,y) and (y,x) differ in both columns; expected accepted, got %s", got)
	}
}
