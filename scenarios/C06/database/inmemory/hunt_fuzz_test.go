package inmemory

import (
	"fmt"
	"math/rand"
	"os"
	"reflect"
	"sort"
	"strconv"
	"strings"
	"testing"

	"github.com/google/uuid"
	"github.com/stretchr/testify/require"

	"github.com/ovn-org/libovsdb/ovsdb"
)

// A reference model of the database: table -> uuid -> column -> value.
// Values: string, int, optional string as []string of length 0 or 1 (tag
// "opt"), uuid sets as sorted []string.
type mrow map[string]interface{}
type mtable map[string]mrow
type mdb map[string]mtable

func (d mdb) clone() mdb {
	c := mdb{}
	for t, rows := range d {
		c[t] = mtable{}
		for u, r := range rows {
			nr := mrow{}
			for k, v := range r {
				if s, ok := v.([]string); ok {
					v = append([]string{}, s...)
				}
				nr[k] = v
			}
			c[t][u] = nr
		}
	}
	return c
}

var mIndexes = map[string][][]string{
	"T": {{"name"}, {"alt"}},
	"M": {{"a", "b"}, {"n"}},
	"P": {{"name"}},
	"K": {{"name"}},
	"W": {{"ref"}, {"name", "refs"}},
	"V": {{"name", "kref"}},
}

var mDefaults = map[string]mrow{
	"T": {"name": "", "alt": "", "note": ""},
	"M": {"a": "", "b": []string{}, "n": 0},
	"P": {"name": "", "kids": []string{}},
	"K": {"name": "", "sub": []string{}},
	"W": {"name": "", "ref": []string{}, "refs": []string{}},
	"V": {"name": "", "kref": []string{}},
}

// strong references: table.column -> target; weak likewise
var mStrong = map[string]string{"P.kids": "K", "K.sub": "K"}
var mWeak = map[string]string{"W.ref": "T", "W.refs": "T", "V.kref": "K"}

func canon(v interface{}) string {
	switch x := v.(type) {
	case []string:
		s := append([]string{}, x...)
		sort.Strings(s)
		return fmt.Sprintf("%q", s)
	default:
		return fmt.Sprintf("%#v", v)
	}
}

// finish applies commit-time processing to the model. Returns "" or the kind
// of the expected error.
func (d mdb) finish() string {
	// strong references to rows that do not exist
	for spec, target := range mStrong {
		parts := strings.Split(spec, ".")
		for _, r := range d[parts[0]] {
			for _, u := range r[parts[1]].([]string) {
				if _, ok := d[target][u]; !ok {
					return "referential integrity violation"
				}
			}
		}
	}
	// garbage collection of K
	for {
		referenced := map[string]bool{}
		for spec, target := range mStrong {
			_ = target
			parts := strings.Split(spec, ".")
			for from, r := range d[parts[0]] {
				for _, u := range r[parts[1]].([]string) {
					if parts[0] == "K" && from == u {
						// a self reference does count in ovsdb, keep it simple: counted
					}
					referenced[u] = true
				}
			}
		}
		removed := false
		for u := range d["K"] {
			if !referenced[u] {
				delete(d["K"], u)
				removed = true
			}
		}
		if !removed {
			break
		}
	}
	// weak references
	for spec, target := range mWeak {
		parts := strings.Split(spec, ".")
		for _, r := range d[parts[0]] {
			kept := []string{}
			for _, u := range r[parts[1]].([]string) {
				if _, ok := d[target][u]; ok {
					kept = append(kept, u)
				}
			}
			r[parts[1]] = kept
		}
	}
	// indexes
	for table, indexes := range mIndexes {
		for _, idx := range indexes {
			seen := map[string]bool{}
			for _, r := range d[table] {
				parts := []string{}
				for _, c := range idx {
					parts = append(parts, canon(r[c]))
				}
				key := strings.Join(parts, "|")
				if seen[key] {
					return "constraint violation"
				}
				seen[key] = true
			}
		}
	}
	return ""
}

type fuzzer struct {
	rnd   *rand.Rand
	h     *huntDB
	model mdb
	// uuids ever used, per table (includes deleted ones)
	pool map[string][]string
}

func toOvs(table, col string, v interface{}) interface{} {
	switch x := v.(type) {
	case []string:
		isUUID := col == "kids" || col == "sub" || col == "ref" || col == "refs" || col == "kref"
		s := ovsdb.OvsSet{GoSet: []interface{}{}}
		for _, e := range x {
			if isUUID {
				s.GoSet = append(s.GoSet, ovsdb.UUID{GoUUID: e})
			} else {
				s.GoSet = append(s.GoSet, e)
			}
		}
		return s
	default:
		return v
	}
}

var strDomain = []string{"a", "b", "c"}

func (f *fuzzer) pick(table string, liveOnly bool, w mdb) string {
	if liveOnly || f.rnd.Intn(8) > 0 {
		live := []string{}
		for u := range w[table] {
			live = append(live, u)
		}
		sort.Strings(live)
		if len(live) > 0 {
			return live[f.rnd.Intn(len(live))]
		}
	}
	if len(f.pool[table]) > 0 {
		return f.pool[table][f.rnd.Intn(len(f.pool[table]))]
	}
	return uuid.NewString()
}

func (f *fuzzer) randValue(table, col string, w mdb) interface{} {
	switch table + "." + col {
	case "M.b":
		switch f.rnd.Intn(3) {
		case 0:
			return []string{}
		case 1:
			return []string{""}
		default:
			return []string{"a"}
		}
	case "M.a":
		return []string{"", "a"}[f.rnd.Intn(2)]
	case "M.n":
		return f.rnd.Intn(5)
	case "P.kids", "K.sub":
		n := f.rnd.Intn(3)
		set := map[string]bool{}
		for i := 0; i < n; i++ {
			set[f.pick("K", false, w)] = true
		}
		out := []string{}
		for u := range set {
			out = append(out, u)
		}
		sort.Strings(out)
		return out
	case "V.kref":
		if f.rnd.Intn(3) == 0 {
			return []string{}
		}
		return []string{f.pick("K", false, w)}
	case "W.ref":
		if f.rnd.Intn(3) == 0 {
			return []string{}
		}
		return []string{f.pick("T", false, w)}
	case "W.refs":
		n := f.rnd.Intn(3)
		set := map[string]bool{}
		for i := 0; i < n; i++ {
			set[f.pick("T", false, w)] = true
		}
		out := []string{}
		for u := range set {
			out = append(out, u)
		}
		sort.Strings(out)
		return out
	case "T.note":
		return strconv.Itoa(f.rnd.Intn(100))
	default:
		return strDomain[f.rnd.Intn(len(strDomain))]
	}
}

func (f *fuzzer) columns(table string) []string {
	cols := []string{}
	for c := range mDefaults[table] {
		cols = append(cols, c)
	}
	sort.Strings(cols)
	return cols
}

// matching returns the uuids of the working copy selected by a condition
func matching(w mdb, table string, cond *[2]interface{}, byUUID string) []string {
	out := []string{}
	for u, r := range w[table] {
		if byUUID != "" {
			if u == byUUID {
				out = append(out, u)
			}
			continue
		}
		if cond == nil || canon(r[cond[0].(string)]) == canon(cond[1]) {
			out = append(out, u)
		}
	}
	sort.Strings(out)
	return out
}

// step builds one random transaction, runs it on the model and the database
// and compares. Returns a description on mismatch.
func (f *fuzzer) step(log *[]string) string {
	tables := []string{"T", "T", "T", "M", "M", "P", "K", "K", "W", "V"}
	w := f.model.clone()
	nops := 1 + f.rnd.Intn(5)
	ops := []ovsdb.Operation{}
	expectOpErr := ""
	inserted := map[string]bool{}
	deleted := map[string]bool{}
	for i := 0; i < nops && expectOpErr == ""; i++ {
		table := tables[f.rnd.Intn(len(tables))]
		cols := f.columns(table)
		// where clause
		var where []ovsdb.Condition
		var cond *[2]interface{}
		byUUID := ""
		switch f.rnd.Intn(6) {
		case 0:
			c := cols[f.rnd.Intn(len(cols))]
			if c == "kids" || c == "sub" || c == "refs" || c == "ref" || c == "b" || c == "kref" {
				c = cols[0]
				if c == "kids" || c == "a" {
					c = "name"
					if table == "M" {
						c = "a"
					}
				}
			}
			v := f.randValue(table, c, w)
			cond = &[2]interface{}{c, v}
			where = []ovsdb.Condition{ovsdb.NewCondition(c, ovsdb.ConditionEqual, toOvs(table, c, v))}
		case 1:
			// all rows
			where = []ovsdb.Condition{}
		default:
			byUUID = f.pick(table, false, w)
			where = whereUUID(byUUID)
		}
		switch k := f.rnd.Intn(10); {
		case k < 3: // insert
			u := uuid.NewString()
			if f.rnd.Intn(10) == 0 {
				// reuse the uuid of a row deleted earlier (in this or an earlier transaction)
				cand := f.pick(table, false, w)
				if _, live := w[table][cand]; !live && !deleted[cand] {
					u = cand
				}
			}
			row := ovsdb.Row{}
			m := mrow{}
			for c, v := range mDefaults[table] {
				m[c] = v
			}
			for _, c := range cols {
				if f.rnd.Intn(4) == 0 && c != "name" {
					continue
				}
				v := f.randValue(table, c, w)
				m[c] = v
				row[c] = toOvs(table, c, v)
			}
			w[table][u] = m
			inserted[u] = true
			f.pool[table] = append(f.pool[table], u)
			ops = append(ops, insertOp(table, u, row))
			*log = append(*log, fmt.Sprintf("  insert %s %s %v", table, u[:4], m))
		case k < 7: // update
			row := ovsdb.Row{}
			changes := mrow{}
			n := 1 + f.rnd.Intn(2)
			for j := 0; j < n; j++ {
				c := cols[f.rnd.Intn(len(cols))]
				v := f.randValue(table, c, w)
				changes[c] = v
				row[c] = toOvs(table, c, v)
			}
			sel := matching(w, table, cond, byUUID)
			for _, u := range sel {
				for c, v := range changes {
					w[table][u][c] = v
				}
			}
			ops = append(ops, ovsdb.Operation{Op: ovsdb.OperationUpdate, Table: table, Where: where, Row: row})
			*log = append(*log, fmt.Sprintf("  update %s where %v/%s set %v (rows %d)", table, cond, short(byUUID), changes, len(sel)))
		case k < 8 && table == "M": // arithmetic on an indexed column
			delta := 1 + f.rnd.Intn(2)
			mutator := ovsdb.MutateOperationAdd
			if f.rnd.Intn(2) == 0 {
				mutator = ovsdb.MutateOperationSubtract
			}
			sel := matching(w, table, cond, byUUID)
			for _, u := range sel {
				if mutator == ovsdb.MutateOperationAdd {
					w[table][u]["n"] = w[table][u]["n"].(int) + delta
				} else {
					w[table][u]["n"] = w[table][u]["n"].(int) - delta
				}
			}
			ops = append(ops, ovsdb.Operation{Op: ovsdb.OperationMutate, Table: table, Where: where,
				Mutations: []ovsdb.Mutation{*ovsdb.NewMutation("n", mutator, delta)}})
			*log = append(*log, fmt.Sprintf("  mutate M where %v/%s n %s %d (rows %d)", cond, short(byUUID), mutator, delta, len(sel)))
		case k < 8 && (table == "P" || table == "K" || table == "W"): // mutate a set
			c := map[string]string{"P": "kids", "K": "sub", "W": "refs"}[table]
			target := map[string]string{"P": "K", "K": "K", "W": "T"}[table]
			elem := f.pick(target, false, w)
			mutator := ovsdb.MutateOperationInsert
			if f.rnd.Intn(2) == 0 {
				mutator = ovsdb.MutateOperationDelete
			}
			sel := matching(w, table, cond, byUUID)
			for _, u := range sel {
				cur := w[table][u][c].([]string)
				next := []string{}
				for _, e := range cur {
					if e != elem {
						next = append(next, e)
					}
				}
				if mutator == ovsdb.MutateOperationInsert {
					next = append(next, elem)
				}
				sort.Strings(next)
				w[table][u][c] = next
			}
			ops = append(ops, ovsdb.Operation{Op: ovsdb.OperationMutate, Table: table, Where: where,
				Mutations: []ovsdb.Mutation{*ovsdb.NewMutation(c, mutator, uuidSet(elem))}})
			*log = append(*log, fmt.Sprintf("  mutate %s where %v/%s %s %s %s (rows %d)", table, cond, short(byUUID), c, mutator, elem[:4], len(sel)))
		case k < 9: // delete
			sel := matching(w, table, cond, byUUID)
			for _, u := range sel {
				delete(w[table], u)
				deleted[u] = true
			}
			ops = append(ops, ovsdb.Operation{Op: ovsdb.OperationDelete, Table: table, Where: where})
			*log = append(*log, fmt.Sprintf("  delete %s where %v/%s (rows %d)", table, cond, short(byUUID), len(sel)))
		default: // select
			ops = append(ops, ovsdb.Operation{Op: ovsdb.OperationSelect, Table: table, Where: where})
			*log = append(*log, fmt.Sprintf("  select %s where %v/%s", table, cond, short(byUUID)))
		}
	}
	changed := !reflect.DeepEqual(canonDB(w), canonDB(f.model))
	expected := w.finish()
	if !changed {
		expected = ""
	}
	errStr, _ := f.h.transact(ops...)
	*log = append(*log, fmt.Sprintf("  => expected %q, got %q", expected, errStr))
	huntStats[expected+" / changed="+strconv.FormatBool(changed)]++
	got := ""
	if errStr != "" {
		got = strings.SplitN(errStr, ":", 2)[0]
	}
	if got != expected {
		return fmt.Sprintf("expected result %q but the library answered %q", expected, errStr)
	}
	if expected == "" && changed {
		f.model = w
	}
	// compare the database with the model
	if diff := f.compare(); diff != "" {
		return diff
	}
	for table := range mIndexes {
		if d := f.h.duplicates(table); len(d) > 0 {
			return fmt.Sprintf("duplicates in the committed database: %v", d)
		}
	}
	return ""
}

var huntStats = map[string]int{}

func short(u string) string {
	if len(u) > 4 {
		return u[:4]
	}
	return u
}

func canonDB(d mdb) map[string]string {
	out := map[string]string{}
	for t, rows := range d {
		for u, r := range rows {
			cols := []string{}
			for c := range r {
				cols = append(cols, c)
			}
			sort.Strings(cols)
			parts := []string{}
			for _, c := range cols {
				parts = append(parts, c+"="+canon(r[c]))
			}
			out[t+"/"+u] = strings.Join(parts, ",")
		}
	}
	return out
}

func (f *fuzzer) compare() string {
	actual := mdb{}
	for table := range mDefaults {
		actual[table] = mtable{}
		rows, err := f.h.db.List("Hunt", table)
		require.NoError(f.h.t, err)
		for u, r := range rows {
			info, err := f.h.dbModel.NewModelInfo(r)
			require.NoError(f.h.t, err)
			m := mrow{}
			for c := range mDefaults[table] {
				v, err := info.FieldByColumn(c)
				require.NoError(f.h.t, err)
				switch x := v.(type) {
				case *string:
					if x == nil {
						v = []string{}
					} else {
						v = []string{*x}
					}
				case []string:
					if x == nil {
						v = []string{}
					}
				}
				m[c] = v
			}
			actual[table][u] = m
		}
	}
	a, e := canonDB(actual), canonDB(f.model)
	if !reflect.DeepEqual(a, e) {
		diffs := []string{}
		for k, v := range e {
			if a[k] != v {
				diffs = append(diffs, fmt.Sprintf("%s: model %s, database %s", k, v, a[k]))
			}
		}
		for k, v := range a {
			if _, ok := e[k]; !ok {
				diffs = append(diffs, fmt.Sprintf("%s: only in database %s", k, v))
			}
		}
		sort.Strings(diffs)
		return "database differs from model: " + strings.Join(diffs, "; ")
	}
	return ""
}

func TestExploreFuzz(t *testing.T) {
	seeds := 300
	if s := os.Getenv("HUNT_SEEDS"); s != "" {
		seeds, _ = strconv.Atoi(s)
	}
	first := 0
	if s := os.Getenv("HUNT_FIRST"); s != "" {
		first, _ = strconv.Atoi(s)
	}
	failures := map[string]int{}
	for seed := first; seed < first+seeds; seed++ {
		f := &fuzzer{rnd: rand.New(rand.NewSource(int64(seed))), h: newHuntDB(t), model: mdb{}, pool: map[string][]string{}}
		for table := range mDefaults {
			f.model[table] = mtable{}
		}
		log := []string{}
		for step := 0; step < 40; step++ {
			log = append(log, fmt.Sprintf("txn %d", step))
			if msg := f.step(&log); msg != "" {
				key := msg
				if len(key) > 60 {
					key = key[:60]
				}
				failures[key]++
				if failures[key] <= 2 {
					tail := log
					if len(tail) > 14 {
						tail = tail[len(tail)-14:]
					}
					t.Errorf("seed %d step %d: %s\n%s", seed, step, msg, strings.Join(tail, "\n"))
				}
				break
			}
		}
		if os.Getenv("HUNT_LOG") != "" {
			t.Log(strings.Join(log, "\n"))
		}
	}
	for k, n := range failures {
		t.Logf("%d x %s", n, k)
	}
	for k, n := range huntStats {
		t.Logf("stats: %d x %s", n, k)
	}
}
