package inmemory

import (
	"encoding/json"
	"fmt"
	"sort"
	"strings"
	"testing"

	"github.com/google/uuid"
	"github.com/stretchr/testify/require"

	"github.com/ovn-org/libovsdb/database"
	"github.com/ovn-org/libovsdb/model"
	"github.com/ovn-org/libovsdb/ovsdb"
)

const huntSchema = `{
  "name": "Hunt",
  "version": "1.0.0",
  "tables": {
    "T": {
      "isRoot": true,
      "columns": {
        "name": {"type": "string"},
        "alt": {"type": "string"},
        "note": {"type": "string"}
      },
      "indexes": [["name"], ["alt"]]
    },
    "O": {
      "isRoot": true,
      "columns": {
        "name": {"type": "string"}
      }
    },
    "M": {
      "isRoot": true,
      "columns": {
        "a": {"type": "string"},
        "b": {"type": {"key": "string", "min": 0, "max": 1}},
        "n": {"type": "integer"}
      },
      "indexes": [["a", "b"], ["n"]]
    },
    "R": {
      "isRoot": true,
      "columns": {
        "r": {"type": "real"},
        "s": {"type": "string"}
      },
      "indexes": [["r", "s"]]
    },
    "R1": {
      "isRoot": true,
      "columns": {
        "r": {"type": "real"}
      },
      "indexes": [["r"]]
    },
    "P": {
      "isRoot": true,
      "columns": {
        "name": {"type": "string"},
        "kids": {"type": {"key": {"type": "uuid", "refTable": "K", "refType": "strong"}, "min": 0, "max": "unlimited"}}
      },
      "indexes": [["name"]]
    },
    "K": {
      "columns": {
        "name": {"type": "string"},
        "sub": {"type": {"key": {"type": "uuid", "refTable": "K", "refType": "strong"}, "min": 0, "max": "unlimited"}}
      },
      "indexes": [["name"]]
    },
    "V": {
      "isRoot": true,
      "columns": {
        "name": {"type": "string"},
        "kref": {"type": {"key": {"type": "uuid", "refTable": "K", "refType": "weak"}, "min": 0, "max": 1}}
      },
      "indexes": [["name", "kref"]]
    },
    "W": {
      "isRoot": true,
      "columns": {
        "name": {"type": "string"},
        "ref": {"type": {"key": {"type": "uuid", "refTable": "T", "refType": "weak"}, "min": 0, "max": 1}},
        "refs": {"type": {"key": {"type": "uuid", "refTable": "T", "refType": "weak"}, "min": 0, "max": "unlimited"}}
      },
      "indexes": [["ref"], ["name", "refs"]]
    }
  }
}`

type huntT struct {
	UUID string `ovsdb:"_uuid"`
	Name string `ovsdb:"name"`
	Alt  string `ovsdb:"alt"`
	Note string `ovsdb:"note"`
}
type huntO struct {
	UUID string `ovsdb:"_uuid"`
	Name string `ovsdb:"name"`
}
type huntM struct {
	UUID string  `ovsdb:"_uuid"`
	A    string  `ovsdb:"a"`
	B    *string `ovsdb:"b"`
	N    int     `ovsdb:"n"`
}
type huntR struct {
	UUID string  `ovsdb:"_uuid"`
	R    float64 `ovsdb:"r"`
	S    string  `ovsdb:"s"`
}
type huntR1 struct {
	UUID string  `ovsdb:"_uuid"`
	R    float64 `ovsdb:"r"`
}
type huntP struct {
	UUID string   `ovsdb:"_uuid"`
	Name string   `ovsdb:"name"`
	Kids []string `ovsdb:"kids"`
}
type huntK struct {
	UUID string   `ovsdb:"_uuid"`
	Name string   `ovsdb:"name"`
	Sub  []string `ovsdb:"sub"`
}
type huntW struct {
	UUID string   `ovsdb:"_uuid"`
	Name string   `ovsdb:"name"`
	Ref  *string  `ovsdb:"ref"`
	Refs []string `ovsdb:"refs"`
}

type huntV struct {
	UUID string  `ovsdb:"_uuid"`
	Name string  `ovsdb:"name"`
	Kref *string `ovsdb:"kref"`
}

type huntDB struct {
	t       *testing.T
	db      database.Database
	dbModel model.DatabaseModel
}

func newHuntDB(t *testing.T) *huntDB {
	var schema ovsdb.DatabaseSchema
	require.NoError(t, json.Unmarshal([]byte(huntSchema), &schema))
	clientModel, err := model.NewClientDBModel("Hunt", map[string]model.Model{
		"T": &huntT{}, "O": &huntO{}, "M": &huntM{}, "R": &huntR{}, "R1": &huntR1{},
		"P": &huntP{}, "K": &huntK{}, "W": &huntW{}, "V": &huntV{},
	})
	require.NoError(t, err)
	dbModel, errs := model.NewDatabaseModel(schema, clientModel)
	require.Empty(t, errs)
	db := NewDatabase(map[string]model.ClientDBModel{"Hunt": clientModel})
	require.NoError(t, db.CreateDatabase("Hunt", schema))
	return &huntDB{t: t, db: db, dbModel: dbModel}
}

// transact runs the operations like the server does: the update is committed
// if and only if no result carries an error. Returns the first error found.
func (h *huntDB) transact(ops ...ovsdb.Operation) (string, []*ovsdb.OperationResult) {
	// operations travel as JSON between client and server
	raw, err := json.Marshal(ops)
	require.NoError(h.t, err)
	var decoded []ovsdb.Operation
	require.NoError(h.t, json.Unmarshal(raw, &decoded))
	txn := h.db.NewTransaction("Hunt")
	results, update := txn.Transact(decoded...)
	for _, r := range results {
		if r != nil && r.Error != "" {
			return r.Error + ": " + r.Details, results
		}
	}
	require.NoError(h.t, h.db.Commit("Hunt", uuid.New(), update))
	return "", results
}

func (h *huntDB) mustTransact(ops ...ovsdb.Operation) []*ovsdb.OperationResult {
	errStr, results := h.transact(ops...)
	require.Equal(h.t, "", errStr, "setup transaction failed")
	return results
}

// duplicates scans Database.List for rows of a table with equal values in all
// columns of an index
func (h *huntDB) duplicates(table string) []string {
	rows, err := h.db.List("Hunt", table)
	require.NoError(h.t, err)
	var found []string
	ts := h.dbModel.Schema.Table(table)
	for _, idx := range ts.Indexes {
		seen := map[string][]string{}
		for uuid, row := range rows {
			info, err := h.dbModel.NewModelInfo(row)
			require.NoError(h.t, err)
			parts := []string{}
			for _, col := range idx {
				v, err := info.FieldByColumn(col)
				require.NoError(h.t, err)
				o, err := ovsdb.NativeToOvs(ts.Column(col), v)
				require.NoError(h.t, err)
				if s, ok := o.(ovsdb.OvsSet); ok {
					// sets are unordered
					items := []string{}
					for _, e := range s.GoSet {
						items = append(items, fmt.Sprintf("%v", e))
					}
					sort.Strings(items)
					parts = append(parts, fmt.Sprintf("set%q", items))
					continue
				}
				if f, ok := o.(float64); ok && f == 0 {
					// 0.0 and -0.0 are equal
					o = float64(0)
				}
				parts = append(parts, fmt.Sprintf("%#v", o))
			}
			key := strings.Join(parts, "|")
			seen[key] = append(seen[key], uuid)
		}
		for key, uuids := range seen {
			if len(uuids) > 1 {
				sort.Strings(uuids)
				found = append(found, fmt.Sprintf("table %s index %v value %s rows %v", table, idx, key, uuids))
			}
		}
	}
	return found
}

func (h *huntDB) requireNoDuplicates() {
	for table := range h.dbModel.Schema.Tables {
		if d := h.duplicates(table); len(d) > 0 {
			h.t.Fatalf("committed database holds duplicate index values: %v", d)
		}
	}
}

func whereUUID(u string) []ovsdb.Condition {
	return []ovsdb.Condition{ovsdb.NewCondition("_uuid", ovsdb.ConditionEqual, ovsdb.UUID{GoUUID: u})}
}

func insertOp(table, u string, row ovsdb.Row) ovsdb.Operation {
	return ovsdb.Operation{Op: ovsdb.OperationInsert, Table: table, UUID: u, Row: row}
}
func updateOp(table, u string, row ovsdb.Row) ovsdb.Operation {
	return ovsdb.Operation{Op: ovsdb.OperationUpdate, Table: table, Where: whereUUID(u), Row: row}
}
func deleteOp(table, u string) ovsdb.Operation {
	return ovsdb.Operation{Op: ovsdb.OperationDelete, Table: table, Where: whereUUID(u)}
}
func selectOp(table string, where ...ovsdb.Condition) ovsdb.Operation {
	return ovsdb.Operation{Op: ovsdb.OperationSelect, Table: table, Where: where}
}
func uuidSet(uuids ...string) ovsdb.OvsSet {
	s := ovsdb.OvsSet{GoSet: []interface{}{}}
	for _, u := range uuids {
		s.GoSet = append(s.GoSet, ovsdb.UUID{GoUUID: u})
	}
	return s
}

// rows of two tables may carry the same uuid: uuids given by the client are
// only checked against the table of the insert.
func TestHuntDeletedUUIDOfOtherTableHidesDuplicate(t *testing.T) {
	h := newHuntDB(t)
	u := uuid.NewString()
	h.mustTransact(
		insertOp("T", u, ovsdb.Row{"name": "x", "alt": "a1"}),
		insertOp("O", u, ovsdb.Row{"name": "other"}),
	)
	h.requireNoDuplicates()
	n := uuid.NewString()
	errStr, _ := h.transact(
		deleteOp("O", u),
		insertOp("T", n, ovsdb.Row{"name": "x", "alt": "a2"}),
	)
	if errStr == "" {
		t.Errorf("expected: constraint violation (T row %s keeps name x and new T row %s also has name x); got: transaction accepted", u, n)
	} else if !strings.Contains(errStr, "constraint violation") {
		t.Errorf("expected constraint violation, got %s", errStr)
	}
	h.requireNoDuplicates()
}

// An index over several columns, one of them a real: 0.0 and -0.0 are equal
// reals (the library's own "==" condition says so, and a single-column index
// on a real treats them as equal) but the multi-column index value is built
// from the bit pattern.
func TestHuntNegativeZeroMultiColumnIndex(t *testing.T) {
	h := newHuntDB(t)
	a, b := uuid.NewString(), uuid.NewString()
	h.mustTransact(insertOp("R", a, ovsdb.Row{"r": 0.0, "s": "k"}))
	raw := `[{"op":"insert","table":"R","uuid":"` + b + `","row":{"r":-0.0,"s":"k"}}]`
	var ops []ovsdb.Operation
	require.NoError(t, json.Unmarshal([]byte(raw), &ops))
	txn := h.db.NewTransaction("Hunt")
	results, update := txn.Transact(ops...)
	rejected := false
	for _, r := range results {
		if r.Error != "" {
			rejected = true
		}
	}
	if !rejected {
		require.NoError(t, h.db.Commit("Hunt", uuid.New(), update))
		rows, err := h.db.List("Hunt", "R", ovsdb.NewCondition("r", ovsdb.ConditionEqual, 0.0))
		require.NoError(t, err)
		t.Errorf("index (r,s): expected constraint violation inserting (r=-0.0,s=k) next to (r=0.0,s=k); got: accepted, and List where r == 0.0 now returns %d rows with s=k", len(rows))
	}
	h.requireNoDuplicates()
}

// control: with a single-column index on a real the same pair is rejected
func TestControlNegativeZeroSingleColumnIndex(t *testing.T) {
	h := newHuntDB(t)
	h.mustTransact(insertOp("R1", uuid.NewString(), ovsdb.Row{"r": 0.0}))
	raw := `[{"op":"insert","table":"R1","row":{"r":-0.0}}]`
	var ops []ovsdb.Operation
	require.NoError(t, json.Unmarshal([]byte(raw), &ops))
	errStr, _ := h.transact(ops...)
	require.Contains(t, errStr, "constraint violation")
}
