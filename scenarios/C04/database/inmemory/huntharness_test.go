package inmemory

import (
	"encoding/json"
	"fmt"
	"sort"
	"strings"
	"testing"

	"github.com/google/uuid"

	"github.com/ovn-org/libovsdb/database"
	"github.com/ovn-org/libovsdb/model"
	"github.com/ovn-org/libovsdb/ovsdb"
)

// ---- schema -----------------------------------------------------------

type hCol struct {
	name   string
	kind   string // atom, opt, set, map
	kTable string // referenced table of the key (or of the element), "" if a string
	kWeak  bool
	vTable string // referenced table of the map value, "" if a string
	vWeak  bool
	min    int
}

type hTable struct {
	name string
	root bool
	cols []hCol
}

var hTables = []hTable{
	{name: "Root", root: true, cols: []hCol{
		{name: "opt", kind: "opt", kTable: "Child"},
		{name: "set", kind: "set", kTable: "Child"},
		{name: "mapk", kind: "map", kTable: "Child"},
		{name: "mapv", kind: "map", vTable: "Child"},
		{name: "wopt", kind: "opt", kTable: "Child", kWeak: true},
		{name: "wset", kind: "set", kTable: "Child", kWeak: true},
		{name: "wmapk", kind: "map", kTable: "Child", kWeak: true},
		{name: "wmapv", kind: "map", vTable: "Child", vWeak: true},
		{name: "wmix", kind: "map", kTable: "Child", kWeak: true, vTable: "Grand"},
		{name: "wkv", kind: "map", kTable: "Child", kWeak: true, vTable: "Root", vWeak: true},
		{name: "wself", kind: "set", kTable: "Root", kWeak: true},
		{name: "kv", kind: "map", kTable: "Child", vTable: "Child"},
		{name: "rself", kind: "set", kTable: "Root"},
	}},
	{name: "Child", cols: []hCol{
		{name: "next", kind: "opt", kTable: "Child"},
		{name: "kids", kind: "set", kTable: "Grand"},
		{name: "wroot", kind: "opt", kTable: "Root", kWeak: true},
		{name: "wsib", kind: "set", kTable: "Child", kWeak: true},
		{name: "links", kind: "set", kTable: "Link"},
	}},
	{name: "Grand", cols: []hCol{
		{name: "back", kind: "opt", kTable: "Child"},
		{name: "gnext", kind: "set", kTable: "Grand"},
		{name: "gmap", kind: "map", kTable: "Grand", vTable: "Child", vWeak: true},
	}},
	{name: "Link", cols: []hCol{
		{name: "to", kind: "atom", kTable: "Child"},
	}},
	{name: "Min", root: true, cols: []hCol{
		{name: "wmin", kind: "set", kTable: "Child", kWeak: true, min: 1},
		{name: "wmapmin", kind: "map", kTable: "Child", kWeak: true, min: 1},
		{name: "wmin2", kind: "set", kTable: "Child", kWeak: true, min: 2},
	}},
	{name: "Atom", root: true, cols: []hCol{
		{name: "watom", kind: "atom", kTable: "Child", kWeak: true},
	}},
}

func hTableByName(n string) *hTable {
	for i := range hTables {
		if hTables[i].name == n {
			return &hTables[i]
		}
	}
	return nil
}

type hRoot struct {
	UUID  string            `ovsdb:"_uuid"`
	Name  string            `ovsdb:"name"`
	Opt   *string           `ovsdb:"opt"`
	Set   []string          `ovsdb:"set"`
	MapK  map[string]string `ovsdb:"mapk"`
	MapV  map[string]string `ovsdb:"mapv"`
	WOpt  *string           `ovsdb:"wopt"`
	WSet  []string          `ovsdb:"wset"`
	WMapK map[string]string `ovsdb:"wmapk"`
	WMapV map[string]string `ovsdb:"wmapv"`
	WMix  map[string]string `ovsdb:"wmix"`
	WKV   map[string]string `ovsdb:"wkv"`
	WSelf []string          `ovsdb:"wself"`
	KV    map[string]string `ovsdb:"kv"`
	RSelf []string          `ovsdb:"rself"`
}

type hChild struct {
	UUID  string   `ovsdb:"_uuid"`
	Name  string   `ovsdb:"name"`
	Next  *string  `ovsdb:"next"`
	Kids  []string `ovsdb:"kids"`
	WRoot *string  `ovsdb:"wroot"`
	WSib  []string `ovsdb:"wsib"`
	Links []string `ovsdb:"links"`
}

type hGrand struct {
	UUID  string            `ovsdb:"_uuid"`
	Name  string            `ovsdb:"name"`
	Back  *string           `ovsdb:"back"`
	GNext []string          `ovsdb:"gnext"`
	GMap  map[string]string `ovsdb:"gmap"`
}

type hLink struct {
	UUID string `ovsdb:"_uuid"`
	Name string `ovsdb:"name"`
	To   string `ovsdb:"to"`
}

type hMin struct {
	UUID    string            `ovsdb:"_uuid"`
	Name    string            `ovsdb:"name"`
	WMin    []string          `ovsdb:"wmin"`
	WMapMin map[string]string `ovsdb:"wmapmin"`
	WMin2   []string          `ovsdb:"wmin2"`
}

type hAtom struct {
	UUID  string `ovsdb:"_uuid"`
	Name  string `ovsdb:"name"`
	WAtom string `ovsdb:"watom"`
}

// hSchema builds the schema; with plain=true every table is root and no
// column is a reference (used to compute what the operations alone do)
func hSchema(plain bool) ovsdb.DatabaseSchema {
	base := func(table string, weak bool) interface{} {
		if table == "" {
			return "string"
		}
		if plain {
			return "uuid"
		}
		b := map[string]interface{}{"type": "uuid", "refTable": table}
		if weak {
			b["refType"] = "weak"
		}
		return b
	}
	tables := map[string]interface{}{}
	for _, t := range hTables {
		cols := map[string]interface{}{"name": map[string]interface{}{"type": "string"}}
		for _, c := range t.cols {
			ty := map[string]interface{}{}
			switch c.kind {
			case "atom":
				ty["key"] = base(c.kTable, c.kWeak)
			case "opt":
				ty["key"] = base(c.kTable, c.kWeak)
				ty["min"] = 0
				ty["max"] = 1
			case "set":
				ty["key"] = base(c.kTable, c.kWeak)
				ty["min"] = c.min
				ty["max"] = "unlimited"
			case "map":
				ty["key"] = base(c.kTable, c.kWeak)
				ty["value"] = base(c.vTable, c.vWeak)
				ty["min"] = c.min
				ty["max"] = "unlimited"
			}
			cols[c.name] = map[string]interface{}{"type": ty}
		}
		ts := map[string]interface{}{"columns": cols}
		if t.root || plain {
			ts["isRoot"] = true
		}
		tables[t.name] = ts
	}
	raw, err := json.Marshal(map[string]interface{}{"name": "Hunt", "version": "0.0.1", "tables": tables})
	if err != nil {
		panic(err)
	}
	var s ovsdb.DatabaseSchema
	if err := json.Unmarshal(raw, &s); err != nil {
		panic(err)
	}
	return s
}

func hNewDB(t testing.TB, plain bool) (database.Database, model.DatabaseModel) {
	cm, err := model.NewClientDBModel("Hunt", map[string]model.Model{
		"Root": &hRoot{}, "Child": &hChild{}, "Grand": &hGrand{}, "Link": &hLink{}, "Min": &hMin{}, "Atom": &hAtom{},
	})
	if err != nil {
		t.Fatal(err)
	}
	schema := hSchema(plain)
	dbm, errs := model.NewDatabaseModel(schema, cm)
	if len(errs) > 0 {
		t.Fatal(errs)
	}
	db := NewDatabase(map[string]model.ClientDBModel{"Hunt": cm})
	if err := db.CreateDatabase("Hunt", schema); err != nil {
		t.Fatal(err)
	}
	return db, dbm
}

// ---- state -------------------------------------------------------------

// hState: table -> uuid -> column -> ovs value
type hState map[string]map[string]ovsdb.Row

func hReadState(t testing.TB, db database.Database, dbm model.DatabaseModel) hState {
	st := hState{}
	for _, tb := range hTables {
		st[tb.name] = map[string]ovsdb.Row{}
		rows, err := db.List("Hunt", tb.name)
		if err != nil {
			t.Fatal(err)
		}
		for u, m := range rows {
			info, err := dbm.NewModelInfo(m)
			if err != nil {
				t.Fatal(err)
			}
			row, err := dbm.Mapper.NewRow(info)
			if err != nil {
				t.Fatal(err)
			}
			delete(row, "_uuid")
			st[tb.name][u] = row
		}
	}
	return st
}

func hAtomStr(v interface{}) string {
	switch x := v.(type) {
	case ovsdb.UUID:
		return "u:" + x.GoUUID
	case string:
		return "s:" + x
	}
	return fmt.Sprintf("?%v", v)
}

func hCanonValue(v interface{}) string {
	switch x := v.(type) {
	case ovsdb.OvsSet:
		var l []string
		for _, e := range x.GoSet {
			l = append(l, hAtomStr(e))
		}
		sort.Strings(l)
		return "{" + strings.Join(l, ",") + "}"
	case ovsdb.OvsMap:
		var l []string
		for k, e := range x.GoMap {
			l = append(l, hAtomStr(k)+"="+hAtomStr(e))
		}
		sort.Strings(l)
		return "[" + strings.Join(l, ",") + "]"
	}
	return hAtomStr(v)
}

func hIsEmpty(v interface{}) bool {
	switch x := v.(type) {
	case ovsdb.OvsSet:
		return len(x.GoSet) == 0
	case ovsdb.OvsMap:
		return len(x.GoMap) == 0
	case nil:
		return true
	}
	return false
}

func (st hState) canon() string {
	var lines []string
	for tb, rows := range st {
		for u, row := range rows {
			var cols []string
			for c, v := range row {
				if hIsEmpty(v) {
					continue
				}
				cols = append(cols, c+":"+hCanonValue(v))
			}
			sort.Strings(cols)
			lines = append(lines, tb+"/"+u+" "+strings.Join(cols, " "))
		}
	}
	sort.Strings(lines)
	return strings.Join(lines, "\n")
}

func (st hState) clone() hState {
	out := hState{}
	for tb, rows := range st {
		out[tb] = map[string]ovsdb.Row{}
		for u, row := range rows {
			nr := ovsdb.Row{}
			for c, v := range row {
				switch x := v.(type) {
				case ovsdb.OvsSet:
					nr[c] = ovsdb.OvsSet{GoSet: append([]interface{}{}, x.GoSet...)}
				case ovsdb.OvsMap:
					m := map[interface{}]interface{}{}
					for k, e := range x.GoMap {
						m[k] = e
					}
					nr[c] = ovsdb.OvsMap{GoMap: m}
				default:
					nr[c] = v
				}
			}
			out[tb][u] = nr
		}
	}
	return out
}

// hRef is one reference held by a row
type hRef struct {
	fromTable, fromUUID, col string
	value                    bool
	toTable, to              string
	weak                     bool
}

func hRowRefs(tb *hTable, u string, row ovsdb.Row) []hRef {
	var out []hRef
	for _, c := range tb.cols {
		v, ok := row[c.name]
		if !ok {
			continue
		}
		add := func(a interface{}, value bool) {
			table, weak := c.kTable, c.kWeak
			if value {
				table, weak = c.vTable, c.vWeak
			}
			if table == "" {
				return
			}
			if id, ok := a.(ovsdb.UUID); ok {
				out = append(out, hRef{tb.name, u, c.name, value, table, id.GoUUID, weak})
			}
		}
		switch x := v.(type) {
		case ovsdb.UUID:
			add(x, false)
		case ovsdb.OvsSet:
			for _, e := range x.GoSet {
				add(e, false)
			}
		case ovsdb.OvsMap:
			for k, e := range x.GoMap {
				add(k, false)
				add(e, true)
			}
		}
	}
	return out
}

func (st hState) allRefs() []hRef {
	var out []hRef
	for i := range hTables {
		tb := &hTables[i]
		for u, row := range st[tb.name] {
			out = append(out, hRowRefs(tb, u, row)...)
		}
	}
	return out
}

// checkIntegrity returns the violations of referential integrity of a state
func (st hState) checkIntegrity() []string {
	var bad []string
	referenced := map[string]bool{}
	for _, r := range st.allRefs() {
		_, exists := st[r.toTable][r.to]
		if !exists {
			kind := "strong"
			if r.weak {
				kind = "weak"
			}
			bad = append(bad, fmt.Sprintf("%s reference %s/%s.%s(value=%v) -> missing %s/%s", kind, r.fromTable, r.fromUUID, r.col, r.value, r.toTable, r.to))
			continue
		}
		if !r.weak {
			referenced[r.toTable+"/"+r.to] = true
		}
	}
	for _, tb := range hTables {
		if tb.root {
			continue
		}
		for u := range st[tb.name] {
			if !referenced[tb.name+"/"+u] {
				bad = append(bad, fmt.Sprintf("non-root row %s/%s is not strongly referenced", tb.name, u))
			}
		}
	}
	sort.Strings(bad)
	return bad
}

// expectedRefs recomputes from the rows what GetReferences must return
func (st hState) expectedRefs(table, u string) string {
	m := map[string]map[string]bool{}
	for _, r := range st.allRefs() {
		if r.toTable != table || r.to != u {
			continue
		}
		k := fmt.Sprintf("%s.%s(value=%v)", r.fromTable, r.col, r.value)
		if m[k] == nil {
			m[k] = map[string]bool{}
		}
		m[k][r.fromUUID] = true
	}
	return hRefCanon(m)
}

func hRefCanon(m map[string]map[string]bool) string {
	var l []string
	for k, froms := range m {
		var f []string
		for u := range froms {
			f = append(f, u)
		}
		if len(f) == 0 {
			continue
		}
		sort.Strings(f)
		l = append(l, k+"<-"+strings.Join(f, ","))
	}
	sort.Strings(l)
	return strings.Join(l, "; ")
}

func hGotRefs(t testing.TB, db database.Database, table, u string) (string, bool) {
	refs, err := db.GetReferences("Hunt", table, u)
	if err != nil {
		t.Fatal(err)
	}
	m := map[string]map[string]bool{}
	dup := false
	for spec, r := range refs {
		k := fmt.Sprintf("%s.%s(value=%v)", spec.FromTable, spec.FromColumn, spec.FromValue)
		for to, froms := range r {
			if to != u {
				continue
			}
			for _, f := range froms {
				if m[k] == nil {
					m[k] = map[string]bool{}
				}
				if m[k][f] {
					dup = true
				}
				m[k][f] = true
			}
		}
	}
	return hRefCanon(m), dup
}

// oracle: the state that must be stored after committing the raw result of the
// operations, or a rejection
func hOracle(raw hState) (final hState, reject string, ambiguous bool) {
	st := raw.clone()
	danglingStrong := []hRef{}
	for _, r := range st.allRefs() {
		if _, ok := st[r.toTable][r.to]; !ok && !r.weak {
			danglingStrong = append(danglingStrong, r)
		}
	}
	pruned := map[string]bool{} // table/uuid/col
	for changed := true; changed; {
		changed = false
		// garbage collection
		referenced := map[string]bool{}
		for _, r := range st.allRefs() {
			if _, ok := st[r.toTable][r.to]; ok && !r.weak {
				referenced[r.toTable+"/"+r.to] = true
			}
		}
		for _, tb := range hTables {
			if tb.root {
				continue
			}
			for u := range st[tb.name] {
				if !referenced[tb.name+"/"+u] {
					delete(st[tb.name], u)
					changed = true
				}
			}
		}
		// weak pruning
		for i := range hTables {
			tb := &hTables[i]
			for u, row := range st[tb.name] {
				for _, c := range tb.cols {
					v, ok := row[c.name]
					if !ok {
						continue
					}
					missing := func(a interface{}, value bool) bool {
						table, weak := c.kTable, c.kWeak
						if value {
							table, weak = c.vTable, c.vWeak
						}
						if table == "" || !weak {
							return false
						}
						id, ok := a.(ovsdb.UUID)
						if !ok {
							return false
						}
						_, exists := st[table][id.GoUUID]
						return !exists
					}
					switch x := v.(type) {
					case ovsdb.UUID:
						if missing(x, false) {
							delete(row, c.name)
							pruned[tb.name+"/"+u+"/"+c.name] = true
							changed = true
						}
					case ovsdb.OvsSet:
						var keep []interface{}
						for _, e := range x.GoSet {
							if !missing(e, false) {
								keep = append(keep, e)
							}
						}
						if len(keep) != len(x.GoSet) {
							row[c.name] = ovsdb.OvsSet{GoSet: keep}
							pruned[tb.name+"/"+u+"/"+c.name] = true
							changed = true
						}
					case ovsdb.OvsMap:
						for k, e := range x.GoMap {
							if missing(k, false) || missing(e, true) {
								delete(x.GoMap, k)
								pruned[tb.name+"/"+u+"/"+c.name] = true
								changed = true
							}
						}
					}
				}
			}
		}
	}
	// rejections
	for _, r := range danglingStrong {
		if _, ok := st[r.fromTable][r.fromUUID]; ok {
			// is the reference still there (not pruned as part of a map entry)
			still := false
			for _, r2 := range hRowRefs(hTableByName(r.fromTable), r.fromUUID, st[r.fromTable][r.fromUUID]) {
				if r2 == r {
					still = true
				}
			}
			if still {
				return nil, "dangling strong reference " + fmt.Sprint(r), false
			}
			ambiguous = true
		} else {
			ambiguous = true
		}
	}
	// strong references to rows that were collected cannot happen (they count)
	for key := range pruned {
		parts := strings.Split(key, "/")
		tb := hTableByName(parts[0])
		row, ok := st[parts[0]][parts[1]]
		if !ok {
			continue
		}
		for _, c := range tb.cols {
			if c.name != parts[2] {
				continue
			}
			n := 0
			switch x := row[c.name].(type) {
			case ovsdb.UUID:
				n = 1
			case ovsdb.OvsSet:
				n = len(x.GoSet)
			case ovsdb.OvsMap:
				n = len(x.GoMap)
			}
			min := c.min
			if c.kind == "atom" {
				min = 1
			}
			if n < min {
				return nil, "weak pruning below minimum in " + key, false
			}
		}
	}
	return st, "", ambiguous
}

// ---- running transactions ----------------------------------------------

func hRun(db database.Database, ops []ovsdb.Operation) (string, error) {
	// copy: Transact modifies operations in place
	cp := make([]ovsdb.Operation, len(ops))
	copy(cp, ops)
	tr := db.NewTransaction("Hunt")
	res, upd := tr.Transact(cp...)
	for _, r := range res {
		if r != nil && r.Error != "" {
			return r.Error + ": " + r.Details, nil
		}
	}
	return "", db.Commit("Hunt", uuid.New(), upd)
}

// hLoad makes a fresh database holding exactly the rows of st
func hLoad(t testing.TB, st hState, plain bool) (database.Database, model.DatabaseModel, error) {
	db, dbm := hNewDB(t, plain)
	var ops []ovsdb.Operation
	for tb, rows := range st {
		for u, row := range rows {
			r := ovsdb.Row{}
			for c, v := range row {
				r[c] = v
			}
			ops = append(ops, ovsdb.Operation{Op: ovsdb.OperationInsert, Table: tb, UUID: u, Row: r})
		}
	}
	if len(ops) == 0 {
		return db, dbm, nil
	}
	e, err := hRun(db, ops)
	if err != nil {
		return nil, dbm, err
	}
	if e != "" {
		return nil, dbm, fmt.Errorf("load rejected: %s", e)
	}
	return db, dbm, nil
}

func hOpsString(ops []ovsdb.Operation) string {
	var l []string
	for _, op := range ops {
		s := fmt.Sprintf("%s %s", op.Op, op.Table)
		if op.UUID != "" {
			s += " uuid=" + op.UUID
		}
		if len(op.Where) > 0 {
			s += fmt.Sprintf(" where=%v", op.Where)
		}
		if len(op.Row) > 0 {
			var cols []string
			for c, v := range op.Row {
				cols = append(cols, c+":"+hCanonValue(v))
			}
			sort.Strings(cols)
			s += " row={" + strings.Join(cols, " ") + "}"
		}
		for _, m := range op.Mutations {
			s += fmt.Sprintf(" mut(%s %s %s)", m.Column, m.Mutator, hCanonValue(m.Value))
		}
		l = append(l, s)
	}
	return strings.Join(l, "\n    ")
}
