package inmemory

import (
	"encoding/json"
	"fmt"
	"sort"
	"strings"
	"testing"

	"github.com/google/uuid"

	"github.com/ovn-org/libovsdb/database"
	"github.com/ovn-org/libovsdb/model"
	"github.com/ovn-org/libovsdb/ovsdb"
)

// ---------------------------------------------------------------------------
// helpers shared by the Hunt tests (self contained: own schema and models)
// ---------------------------------------------------------------------------

type huntOwner struct {
	UUID string   `ovsdb:"_uuid"`
	Name string   `ovsdb:"name"`
	A    []string `ovsdb:"a"`
	B    []string `ovsdb:"b"`
	W    []string `ovsdb:"w"`
	WO   *string  `ovsdb:"wo"`
}

type huntT1 struct {
	UUID string `ovsdb:"_uuid"`
	Name string `ovsdb:"name"`
}

type huntT2 struct {
	UUID string `ovsdb:"_uuid"`
	Name string `ovsdb:"name"`
}

// Owner is the only root table. Owner.a -> T1 (strong set), Owner.b -> T2
// (strong set), Owner.w -> T1 (weak set, immutable), Owner.wo -> T1 (weak
// optional, immutable)
const huntSchema = `{
  "name": "Hunt", "version": "0.0.1",
  "tables": {
    "Owner": {"isRoot": true, "columns": {
      "name": {"type": "string"},
      "a":  {"type": {"key": {"type": "uuid", "refTable": "T1"}, "min": 0, "max": "unlimited"}},
      "b":  {"type": {"key": {"type": "uuid", "refTable": "T2"}, "min": 0, "max": "unlimited"}},
      "w":  {"type": {"key": {"type": "uuid", "refTable": "T1", "refType": "weak"}, "min": 0, "max": "unlimited"}, "mutable": false},
      "wo": {"type": {"key": {"type": "uuid", "refTable": "T1", "refType": "weak"}, "min": 0, "max": 1}, "mutable": false}
    }},
    "T1": {"columns": {"name": {"type": "string"}}},
    "T2": {"columns": {"name": {"type": "string"}}}
  }
}`

func huntDB(t *testing.T) database.Database {
	var schema ovsdb.DatabaseSchema
	if err := json.Unmarshal([]byte(huntSchema), &schema); err != nil {
		t.Fatal(err)
	}
	cm, err := model.NewClientDBModel("Hunt", map[string]model.Model{
		"Owner": &huntOwner{}, "T1": &huntT1{}, "T2": &huntT2{},
	})
	if err != nil {
		t.Fatal(err)
	}
	db := NewDatabase(map[string]model.ClientDBModel{"Hunt": cm})
	if err := db.CreateDatabase("Hunt", schema); err != nil {
		t.Fatal(err)
	}
	return db
}

// huntTransact runs and, if accepted, commits a transaction; returns the error
// of the transaction ("" if committed)
func huntTransact(t *testing.T, db database.Database, ops ...ovsdb.Operation) string {
	tr := db.NewTransaction("Hunt")
	res, upd := tr.Transact(ops...)
	for _, r := range res {
		if r != nil && r.Error != "" {
			return r.Error + ": " + r.Details
		}
	}
	if err := db.Commit("Hunt", uuid.New(), upd); err != nil {
		t.Fatalf("commit: %v", err)
	}
	return ""
}

func huntRows(t *testing.T, db database.Database, table string) []string {
	rows, err := db.List("Hunt", table)
	if err != nil {
		t.Fatal(err)
	}
	l := []string{}
	for u := range rows {
		l = append(l, u)
	}
	sort.Strings(l)
	return l
}

func huntRefs(t *testing.T, db database.Database, table, u string) string {
	refs, err := db.GetReferences("Hunt", table, u)
	if err != nil {
		t.Fatal(err)
	}
	l := []string{}
	for spec, r := range refs {
		for to, from := range r {
			if len(from) > 0 {
				f := append([]string{}, from...)
				sort.Strings(f)
				l = append(l, fmt.Sprintf("%s.%s->%s/%s from %s", spec.FromTable, spec.FromColumn, spec.ToTable, to, strings.Join(f, ",")))
			}
		}
	}
	sort.Strings(l)
	return strings.Join(l, "; ")
}

func huntSet(uuids ...string) ovsdb.OvsSet {
	s := ovsdb.OvsSet{GoSet: []interface{}{}}
	for _, u := range uuids {
		s.GoSet = append(s.GoSet, ovsdb.UUID{GoUUID: u})
	}
	return s
}

func huntWhere(u string) []ovsdb.Condition {
	return []ovsdb.Condition{ovsdb.NewCondition("_uuid", ovsdb.ConditionEqual, ovsdb.UUID{GoUUID: u})}
}

const (
	huntOwnerUUID = "aaaaaaaa-0000-4000-8000-000000000001"
	huntX         = "bbbbbbbb-0000-4000-8000-000000000001"
)

// ---------------------------------------------------------------------------
// Finding 1: the per-transaction tracker identifies rows by uuid alone. Two
// rows of different tables may carry the same uuid (Insert only refuses a uuid
// already used in the same table). When a transaction drops the last strong
// references to both, neither row is garbage collected and the committed
// reference index keeps a reference that no row holds.
// ---------------------------------------------------------------------------
func TestHuntSameUUIDInTwoTablesNotCollected(t *testing.T) {
	db := huntDB(t)

	if e := huntTransact(t, db,
		ovsdb.Operation{Op: ovsdb.OperationInsert, Table: "Owner", UUID: huntOwnerUUID,
			Row: ovsdb.Row{"name": "o", "a": huntSet(huntX), "b": huntSet(huntX)}},
		ovsdb.Operation{Op: ovsdb.OperationInsert, Table: "T1", UUID: huntX, Row: ovsdb.Row{"name": "t1"}},
		ovsdb.Operation{Op: ovsdb.OperationInsert, Table: "T2", UUID: huntX, Row: ovsdb.Row{"name": "t2"}},
	); e != "" {
		t.Fatalf("setup rejected: %s", e)
	}
	if got := fmt.Sprint(huntRows(t, db, "T1"), huntRows(t, db, "T2")); got != fmt.Sprint([]string{huntX}, []string{huntX}) {
		t.Fatalf("setup: unexpected rows %s", got)
	}

	// drop both strong references in one transaction
	if e := huntTransact(t, db,
		ovsdb.Operation{Op: ovsdb.OperationUpdate, Table: "Owner", Where: huntWhere(huntOwnerUUID),
			Row: ovsdb.Row{"a": huntSet(), "b": huntSet()}},
	); e != "" {
		t.Fatalf("update rejected: %s", e)
	}

	t1, t2 := huntRows(t, db, "T1"), huntRows(t, db, "T2")
	if len(t1) != 0 || len(t2) != 0 {
		t.Errorf("expected: after Owner.a and Owner.b are emptied no row references T1/%s nor T2/%s, both tables are non-root, so both rows are deleted by the transaction; got: T1 rows %v, T2 rows %v still stored", huntX, huntX, t1, t2)
	}
	if r := huntRefs(t, db, "T1", huntX) + huntRefs(t, db, "T2", huntX); r != "" {
		t.Errorf("expected: GetReferences reports no reference to %s (Owner.a and Owner.b are empty); got: %s", huntX, r)
	}
}

// Same cause, other symptom: one of the two rows loses its last reference
// while the other gains one; the row that lost it is not collected and the
// reference index of the other forgets a referrer.
func TestHuntSameUUIDInTwoTablesMixed(t *testing.T) {
	db := huntDB(t)

	if e := huntTransact(t, db,
		ovsdb.Operation{Op: ovsdb.OperationInsert, Table: "Owner", UUID: huntOwnerUUID,
			Row: ovsdb.Row{"name": "o", "a": huntSet(huntX), "b": huntSet(huntX)}},
		ovsdb.Operation{Op: ovsdb.OperationInsert, Table: "T1", UUID: huntX, Row: ovsdb.Row{"name": "t1"}},
		ovsdb.Operation{Op: ovsdb.OperationInsert, Table: "T2", UUID: huntX, Row: ovsdb.Row{"name": "t2"}},
	); e != "" {
		t.Fatalf("setup rejected: %s", e)
	}

	// stop referencing T1/X (it must be collected); a second owner starts
	// referencing T2/X, which exists and stays
	owner2 := "aaaaaaaa-0000-4000-8000-000000000002"
	e := huntTransact(t, db,
		ovsdb.Operation{Op: ovsdb.OperationUpdate, Table: "Owner", Where: huntWhere(huntOwnerUUID),
			Row: ovsdb.Row{"a": huntSet()}},
		ovsdb.Operation{Op: ovsdb.OperationInsert, Table: "Owner", UUID: owner2,
			Row: ovsdb.Row{"name": "o2", "b": huntSet(huntX)}},
	)
	if e != "" {
		t.Fatalf("expected: the transaction commits; got: rejected with %q", e)
	}
	if t1 := huntRows(t, db, "T1"); len(t1) != 0 {
		t.Errorf("expected: T1/%s is no longer referenced (Owner.a is empty) and is deleted; got: T1 rows %v", huntX, t1)
	}
	want := fmt.Sprintf("Owner.b->T2/%s from %s,%s", huntX, huntOwnerUUID, owner2)
	if r := huntRefs(t, db, "T2", huntX); r != want {
		t.Errorf("expected: GetReferences(T2) = %q; got: %q", want, r)
	}
}

// Same cause, third symptom: the referencing row and the referenced row (of
// different tables) carry the same uuid. Deleting the referencing row marks
// "the uuid" as deleted, so the referenced row is taken for already deleted
// and is not collected.
func TestHuntSameUUIDReferrerAndReferenced(t *testing.T) {
	db := huntDB(t)
	if e := huntTransact(t, db,
		ovsdb.Operation{Op: ovsdb.OperationInsert, Table: "Owner", UUID: huntX,
			Row: ovsdb.Row{"name": "o", "a": huntSet(huntX)}},
		ovsdb.Operation{Op: ovsdb.OperationInsert, Table: "T1", UUID: huntX, Row: ovsdb.Row{"name": "t1"}},
	); e != "" {
		t.Fatalf("setup rejected: %s", e)
	}
	if e := huntTransact(t, db,
		ovsdb.Operation{Op: ovsdb.OperationDelete, Table: "Owner", Where: huntWhere(huntX)},
	); e != "" {
		t.Fatalf("delete rejected: %s", e)
	}
	if o := huntRows(t, db, "Owner"); len(o) != 0 {
		t.Fatalf("Owner row not deleted: %v", o)
	}
	if t1 := huntRows(t, db, "T1"); len(t1) != 0 {
		t.Errorf("expected: the only row referencing T1/%s was deleted, T1 is non-root, so the row is deleted too; got: T1 rows %v", huntX, t1)
	}
}

// ---------------------------------------------------------------------------
// Finding 2: weak references held in a column that clients may not modify
// ("mutable": false) are pruned through the client Mutate/Update operations,
// which refuse immutable columns: the transaction that deletes the referenced
// row is rejected although the column has no minimum.
// ---------------------------------------------------------------------------
func huntImmutableWeak(t *testing.T, column string) {
	db := huntDB(t)
	if e := huntTransact(t, db,
		ovsdb.Operation{Op: ovsdb.OperationInsert, Table: "Owner", UUID: huntOwnerUUID,
			Row: ovsdb.Row{"name": "o", "a": huntSet(huntX), column: huntSet(huntX)}},
		ovsdb.Operation{Op: ovsdb.OperationInsert, Table: "T1", UUID: huntX, Row: ovsdb.Row{"name": "t1"}},
	); e != "" {
		t.Fatalf("setup rejected: %s", e)
	}
	// drop the only strong reference to T1/X: the row is collected and the weak
	// reference to it in Owner.<column> (minimum 0) has to be removed
	e := huntTransact(t, db,
		ovsdb.Operation{Op: ovsdb.OperationUpdate, Table: "Owner", Where: huntWhere(huntOwnerUUID),
			Row: ovsdb.Row{"a": huntSet()}},
	)
	if e != "" {
		t.Fatalf("expected: the transaction commits, T1/%s is deleted and the weak reference in Owner.%s (min 0) is removed; got: rejected with %q", huntX, column, e)
	}
	if t1 := huntRows(t, db, "T1"); len(t1) != 0 {
		t.Errorf("expected T1 empty, got %v", t1)
	}
}

func TestHuntImmutableWeakSetBlocksDeletion(t *testing.T)      { huntImmutableWeak(t, "w") }
func TestHuntImmutableWeakOptionalBlocksDeletion(t *testing.T) { huntImmutableWeak(t, "wo") }

// ---------------------------------------------------------------------------
// Finding 3: a set written with a repeated element is stored as is (neither
// refused nor reduced to distinct elements). The reference index counts the
// referrer once, the set difference of a later write removes one occurrence
// and reports the element as removed: the index forgets the reference although
// the row still holds it, the referenced non-root row is collected and a
// dangling strong reference is committed.
// ---------------------------------------------------------------------------
func TestHuntRepeatedSetElementLeavesDanglingStrongReference(t *testing.T) {
	db := huntDB(t)
	e := huntTransact(t, db,
		ovsdb.Operation{Op: ovsdb.OperationInsert, Table: "Owner", UUID: huntOwnerUUID,
			Row: ovsdb.Row{"name": "o", "a": huntSet(huntX, huntX)}},
		ovsdb.Operation{Op: ovsdb.OperationInsert, Table: "T1", UUID: huntX, Row: ovsdb.Row{"name": "t1"}},
	)
	if e != "" {
		// refusing the repeated element would be a correct answer too
		t.Skipf("insert with a repeated set element refused: %s", e)
	}
	// write the set with the element once: the row keeps referencing T1/X
	if e := huntTransact(t, db,
		ovsdb.Operation{Op: ovsdb.OperationUpdate, Table: "Owner", Where: huntWhere(huntOwnerUUID),
			Row: ovsdb.Row{"a": huntSet(huntX)}},
	); e != "" {
		t.Fatalf("update rejected: %s", e)
	}
	owners, err := db.List("Hunt", "Owner")
	if err != nil {
		t.Fatal(err)
	}
	t1 := huntRows(t, db, "T1")
	for _, m := range owners {
		for _, ref := range m.(*huntOwner).A {
			found := false
			for _, u := range t1 {
				found = found || u == ref
			}
			if !found {
				t.Errorf("expected: every strong reference points to an existing row after a commit; got: Owner/%s.a = %v references T1/%s but table T1 holds %v (GetReferences(T1,%s) = %q)",
					huntOwnerUUID, m.(*huntOwner).A, ref, t1, ref, huntRefs(t, db, "T1", ref))
			}
		}
	}
}
