package inmemory

import (
	"fmt"
	"math/rand"
	"os"
	"strconv"
	"testing"

	"github.com/ovn-org/libovsdb/ovsdb"
)

func hPool(table string) []string {
	for i, tb := range hTables {
		if tb.name == table {
			var l []string
			for n := 1; n <= 4; n++ {
				l = append(l, fmt.Sprintf("%08x-0000-4000-8000-%012d", i+1, n))
			}
			return l
		}
	}
	return nil
}

type hGen struct {
	rng     *rand.Rand
	st      hState
	planned map[string]bool // table/uuid inserted by this transaction
	extra   []ovsdb.Operation
	depth   int
}

func (g *hGen) insertOp(tb hTable, u string) ovsdb.Operation {
	g.planned[tb.name+"/"+u] = true
	g.depth++
	defer func() { g.depth-- }()
	row := ovsdb.Row{"name": "n"}
	for _, c := range tb.cols {
		if c.kind == "atom" || c.min > 0 || g.rng.Intn(100) < 30 {
			row[c.name] = g.value(c, c.min > 0)
		}
	}
	return ovsdb.Operation{Op: ovsdb.OperationInsert, Table: tb.name, UUID: u, Row: row}
}

func (g *hGen) pick(table string) ovsdb.UUID {
	pool := hPool(table)
	var good []string
	for _, u := range pool {
		if _, ok := g.st[table][u]; ok || g.planned[table+"/"+u] {
			good = append(good, u)
		}
	}
	if len(good) > 0 && g.rng.Intn(100) < 75 {
		return ovsdb.UUID{GoUUID: good[g.rng.Intn(len(good))]}
	}
	u := pool[g.rng.Intn(len(pool))]
	if _, ok := g.st[table][u]; !ok && !g.planned[table+"/"+u] && g.depth < 4 && g.rng.Intn(100) < 92 {
		g.extra = append(g.extra, g.insertOp(*hTableByName(table), u))
	}
	return ovsdb.UUID{GoUUID: u}
}

func (g *hGen) atom(table string, strs []string) interface{} {
	if table == "" {
		return strs[g.rng.Intn(len(strs))]
	}
	return g.pick(table)
}

func (g *hGen) value(c hCol, nonEmpty bool) interface{} {
	keys := []string{"k1", "k2", "k3"}
	vals := []string{"v1", "v2"}
	switch c.kind {
	case "atom":
		return g.pick(c.kTable)
	case "opt":
		if !nonEmpty && g.rng.Intn(3) == 0 {
			return ovsdb.OvsSet{GoSet: []interface{}{}}
		}
		return ovsdb.OvsSet{GoSet: []interface{}{g.pick(c.kTable)}}
	case "set":
		n := g.rng.Intn(3)
		if nonEmpty && n == 0 {
			n = 1
		}
		if c.min > 1 {
			n = c.min + g.rng.Intn(2)
		}
		seen := map[interface{}]bool{}
		out := []interface{}{}
		for i := 0; i < n || len(out) < c.min; i++ {
			a := g.atom(c.kTable, keys)
			if !seen[a] {
				seen[a] = true
				out = append(out, a)
			}
		}
		return ovsdb.OvsSet{GoSet: out}
	case "map":
		n := g.rng.Intn(3)
		if nonEmpty && n == 0 {
			n = 1
		}
		out := map[interface{}]interface{}{}
		for i := 0; i < n; i++ {
			out[g.atom(c.kTable, keys)] = g.atom(c.vTable, vals)
		}
		return ovsdb.OvsMap{GoMap: out}
	}
	return nil
}

func (g *hGen) existing() (string, string, bool) {
	var l [][2]string
	for _, tb := range hTables {
		for _, u := range hPool(tb.name) {
			if _, ok := g.st[tb.name][u]; ok || g.planned[tb.name+"/"+u] {
				l = append(l, [2]string{tb.name, u})
			}
		}
	}
	if len(l) == 0 {
		return "", "", false
	}
	p := l[g.rng.Intn(len(l))]
	return p[0], p[1], true
}

func hWhere(u string) []ovsdb.Condition {
	return []ovsdb.Condition{ovsdb.NewCondition("_uuid", ovsdb.ConditionEqual, ovsdb.UUID{GoUUID: u})}
}

func (g *hGen) op() *ovsdb.Operation {
	switch k := g.rng.Intn(10); {
	case k < 3: // insert
		tb := hTables[g.rng.Intn(len(hTables))]
		pool := hPool(tb.name)
		u := pool[g.rng.Intn(len(pool))]
		if _, ok := g.st[tb.name][u]; ok && g.rng.Intn(10) > 0 {
			return nil
		}
		op := g.insertOp(tb, u)
		return &op
	case k < 6: // update
		t, u, ok := g.existing()
		if !ok {
			return nil
		}
		tb := hTableByName(t)
		row := ovsdb.Row{}
		for i := 0; i < 1+g.rng.Intn(2); i++ {
			c := tb.cols[g.rng.Intn(len(tb.cols))]
			row[c.name] = g.value(c, c.min > 0)
		}
		return &ovsdb.Operation{Op: ovsdb.OperationUpdate, Table: t, Where: hWhere(u), Row: row}
	case k < 8: // mutate
		t, u, ok := g.existing()
		if !ok {
			return nil
		}
		tb := hTableByName(t)
		c := tb.cols[g.rng.Intn(len(tb.cols))]
		if c.kind != "set" && c.kind != "map" {
			return nil
		}
		var m *ovsdb.Mutation
		if g.rng.Intn(2) == 0 || c.min > 0 {
			m = ovsdb.NewMutation(c.name, ovsdb.MutateOperationInsert, g.value(c, true))
		} else {
			v := g.value(c, true)
			if mv, ok := v.(ovsdb.OvsMap); ok && g.rng.Intn(2) == 0 {
				keys := []interface{}{}
				for k := range mv.GoMap {
					keys = append(keys, k)
				}
				v = ovsdb.OvsSet{GoSet: keys}
			}
			m = ovsdb.NewMutation(c.name, ovsdb.MutateOperationDelete, v)
		}
		return &ovsdb.Operation{Op: ovsdb.OperationMutate, Table: t, Where: hWhere(u), Mutations: []ovsdb.Mutation{*m}}
	default: // delete
		t, u, ok := g.existing()
		if !ok {
			return nil
		}
		return &ovsdb.Operation{Op: ovsdb.OperationDelete, Table: t, Where: hWhere(u)}
	}
}

// TestHuntFuzz compares the library against a from-scratch recomputation
func TestHuntFuzz(t *testing.T) {
	seeds := 300
	if s := os.Getenv("HUNT_SEEDS"); s != "" {
		seeds, _ = strconv.Atoi(s)
	}
	first := 0
	if s := os.Getenv("HUNT_FIRST"); s != "" {
		first, _ = strconv.Atoi(s)
	}
	failures := map[string]int{}
	stats := map[string]int{}
	report := func(kind string, format string, args ...interface{}) {
		failures[kind]++
		if failures[kind] <= 2 {
			t.Errorf("["+kind+"] "+format, args...)
		}
	}
	for seed := first; seed < first+seeds; seed++ {
		rng := rand.New(rand.NewSource(int64(seed)))
		db, dbm := hNewDB(t, false)
		history := ""
		for step := 0; step < 25; step++ {
			pre := hReadState(t, db, dbm)
			g := &hGen{rng: rng, st: pre, planned: map[string]bool{}}
			var ops []ovsdb.Operation
			for n := 1 + rng.Intn(4); len(ops) < n; {
				if op := g.op(); op != nil {
					ops = append(ops, *op)
					ops = append(ops, g.extra...)
					g.extra = nil
				}
			}
			desc := fmt.Sprintf("seed %d step %d\n  before:\n%s\n  ops:\n    %s", seed, step, pre.canon(), hOpsString(ops))
			history += "\n---\n    " + hOpsString(ops)

			// what the operations alone do
			plainDB, plainM, err := hLoad(t, pre, true)
			if err != nil {
				t.Fatalf("plain load: %v\n%s", err, desc)
			}
			plainErr, err := hRun(plainDB, ops)
			if err != nil {
				t.Fatalf("plain commit: %v\n%s", err, desc)
			}

			// the same transaction on a fresh database holding the same rows
			freshDB, freshM, err := hLoad(t, pre, false)
			if err != nil {
				report("reload", "a fresh database rejects the committed rows: %v\n%s", err, desc)
				break
			}
			freshErr, err := hRun(freshDB, ops)
			if err != nil {
				t.Fatalf("fresh commit: %v\n%s", err, desc)
			}

			gotErr, err := hRun(db, ops)
			if err != nil {
				report("commit", "commit failed: %v\n%s", err, desc)
				break
			}
			post := hReadState(t, db, dbm)
			if gotErr == "" {
				stats["committed"]++
				n := 0
				for _, r := range post {
					n += len(r)
				}
				stats["rows"] += n
			} else {
				k := gotErr
				if len(k) > 70 {
					k = k[:70]
				}
				stats["rejected:"+k]++
			}

			if (gotErr == "") != (freshErr == "") {
				report("history", "history dependence: this database answers %q, a fresh database with the same rows answers %q\n%s\n  history:%s", gotErr, freshErr, desc, history)
			} else if gotErr == "" {
				if a, b := post.canon(), hReadState(t, freshDB, freshM).canon(); a != b {
					report("history", "history dependence: rows after the transaction differ from a fresh database\n got:\n%s\n fresh:\n%s\n%s", a, b, desc)
				}
			}

			if gotErr != "" && post.canon() != pre.canon() {
				report("rejected", "a rejected transaction changed the rows\n%s", desc)
			}

			if plainErr != "" {
				if gotErr == "" {
					report("oplevel", "operations fail on plain schema (%s) but pass here\n%s", plainErr, desc)
				}
			} else {
				raw := hReadState(t, plainDB, plainM)
				want, reject, ambiguous := hOracle(raw)
				if gotErr == "" && want.canon() != raw.canon() {
					stats["gc-or-prune"]++
				}
				switch {
				case ambiguous:
					stats["ambiguous"]++
				case reject != "" && gotErr == "":
					report("accepted", "transaction must be rejected (%s) but was committed\n%s\n  after:\n%s", reject, desc, post.canon())
				case reject == "" && gotErr != "":
					report("refused", "transaction must be committed but was rejected: %s\n%s\n  expected after:\n%s", gotErr, desc, want.canon())
				case reject == "" && want.canon() != post.canon():
					report("result", "wrong rows after commit\n got:\n%s\n want:\n%s\n%s", post.canon(), want.canon(), desc)
				}
			}

			if bad := post.checkIntegrity(); len(bad) > 0 {
				report("integrity", "integrity violated after commit: %v\n%s\n  after:\n%s", bad, desc, post.canon())
			}
			for _, tb := range hTables {
				for _, u := range hPool(tb.name) {
					got, dup := hGotRefs(t, db, tb.name, u)
					want := post.expectedRefs(tb.name, u)
					if got != want || dup {
						report("bookkeeping", "GetReferences(%s,%s) = %q (dup %v), recomputed from rows %q (transaction answered %q)\n%s\n  after:\n%s", tb.name, u, got, dup, want, gotErr, desc, post.canon())
					}
				}
			}
			if t.Failed() && len(failures) > 0 && failures["stop"] == 0 {
				// keep going to classify, but leave this history
				break
			}
		}
	}
	t.Logf("stats %v", stats)
	for k, n := range failures {
		t.Logf("failure kind %s: %d", k, n)
	}
}
