package inmemory

import (
	"encoding/json"
	"fmt"
	"sort"
	"testing"

	"github.com/google/uuid"

	"github.com/ovn-org/libovsdb/database"
	"github.com/ovn-org/libovsdb/model"
	"github.com/ovn-org/libovsdb/ovsdb"
)

// Root, Tag and Thing are root tables. Node rows live as long as a row references them
// strongly. Root.note holds weak references to rows of Other.
const huntW3Schema = `{
  "name": "Hunt", "version": "0.0.1",
  "tables": {
    "Root": {"isRoot": true, "columns": {
      "child": {"type": {"key": {"type": "uuid", "refTable": "Node"}, "min": 0, "max": 1}},
      "note":  {"type": {"key": {"type": "uuid", "refTable": "Other", "refType": "weak"}, "min": 0, "max": "unlimited"}},
      "links": {"type": {"key": {"type": "uuid", "refTable": "Tag", "refType": "weak"},
                         "value": {"type": "uuid", "refTable": "Thing"}, "min": 0, "max": "unlimited"}}}},
    "Tag":   {"isRoot": true, "columns": {"name": {"type": "string"}}},
    "Thing": {"isRoot": true, "columns": {"name": {"type": "string"}}},
    "Node": {"columns": {
      "next":  {"type": {"key": {"type": "uuid", "refTable": "Node"}, "min": 0, "max": 1}}}},
    "Other": {"columns": {
      "name":  {"type": "string"}}}
  }
}`

type huntW3Root struct {
	UUID  string            `ovsdb:"_uuid"`
	Child *string           `ovsdb:"child"`
	Note  []string          `ovsdb:"note"`
	Links map[string]string `ovsdb:"links"`
}

type huntW3Tag struct {
	UUID string `ovsdb:"_uuid"`
	Name string `ovsdb:"name"`
}

type huntW3Thing struct {
	UUID string `ovsdb:"_uuid"`
	Name string `ovsdb:"name"`
}

type huntW3Node struct {
	UUID string  `ovsdb:"_uuid"`
	Next *string `ovsdb:"next"`
}

type huntW3Other struct {
	UUID string `ovsdb:"_uuid"`
	Name string `ovsdb:"name"`
}

func huntW3DB(t *testing.T) database.Database {
	var schema ovsdb.DatabaseSchema
	if err := json.Unmarshal([]byte(huntW3Schema), &schema); err != nil {
		t.Fatal(err)
	}
	cm, err := model.NewClientDBModel("Hunt", map[string]model.Model{
		"Root": &huntW3Root{}, "Node": &huntW3Node{}, "Other": &huntW3Other{}, "Tag": &huntW3Tag{}, "Thing": &huntW3Thing{}})
	if err != nil {
		t.Fatal(err)
	}
	db := NewDatabase(map[string]model.ClientDBModel{"Hunt": cm})
	if err := db.CreateDatabase("Hunt", schema); err != nil {
		t.Fatal(err)
	}
	return db
}

// huntW3Transact decodes the operations as the server does, runs them as one
// transaction and commits it unless an operation failed
func huntW3Transact(t *testing.T, db database.Database, opsJSON string) (rejected string) {
	var ops []ovsdb.Operation
	if err := json.Unmarshal([]byte(opsJSON), &ops); err != nil {
		t.Fatalf("%v in %s", err, opsJSON)
	}
	tx := db.NewTransaction("Hunt")
	results, update := tx.Transact(ops...)
	for _, r := range results {
		if r.Error != "" {
			return r.Error + ": " + r.Details
		}
	}
	if err := db.Commit("Hunt", uuid.New(), update); err != nil {
		t.Fatalf("commit: %v", err)
	}
	return ""
}

func huntW3Rows(t *testing.T, db database.Database, table string) []string {
	rows, err := db.List("Hunt", table)
	if err != nil {
		t.Fatal(err)
	}
	var uuids []string
	for u := range rows {
		uuids = append(uuids, u)
	}
	sort.Strings(uuids)
	return uuids
}

const (
	huntW3R  = "aaaaaaaa-0000-4000-8000-000000000001"
	huntW3N1 = "bbbbbbbb-0000-4000-8000-000000000001"
	huntW3N2 = "bbbbbbbb-0000-4000-8000-000000000002"
)

// A chain Root r -> Node n1 -> Node n2. One transaction drops the reference
// r -> n1 and writes the uuid of n2 into r.note, a column of weak references to
// table Other. No row of Other has that uuid, so this is a weak reference to a
// missing row: it must be removed. n1 and then n2 are no longer referenced and
// must be deleted by the transaction.
func TestHuntDanglingWeakRefWithUUIDOfAnotherTableKeepsOrphan(t *testing.T) {
	db := huntW3DB(t)
	setup := fmt.Sprintf(`[
	  {"op":"insert","table":"Node","uuid":%q,"row":{}},
	  {"op":"insert","table":"Node","uuid":%q,"row":{"next":["uuid",%q]}},
	  {"op":"insert","table":"Root","uuid":%q,"row":{"child":["uuid",%q]}}]`,
		huntW3N2, huntW3N1, huntW3N2, huntW3R, huntW3N1)
	if rej := huntW3Transact(t, db, setup); rej != "" {
		t.Fatalf("setup rejected: %s", rej)
	}
	if got := huntW3Rows(t, db, "Node"); len(got) != 2 {
		t.Fatalf("setup: expected the two Node rows, got %v", got)
	}

	txn := fmt.Sprintf(`[
	  {"op":"update","table":"Root","where":[["_uuid","==",["uuid",%q]]],
	   "row":{"child":["set",[]],"note":["set",[["uuid",%q]]]}}]`, huntW3R, huntW3N2)
	if rej := huntW3Transact(t, db, txn); rej != "" {
		t.Fatalf("transaction rejected: %s", rej)
	}

	// the weak reference to the missing Other row is gone
	roots, _ := db.List("Hunt", "Root")
	if r := roots[huntW3R].(*huntW3Root); len(r.Note) != 0 || r.Child != nil {
		t.Errorf("expected Root row with no child and no note, got child=%v note=%v", r.Child, r.Note)
	}
	// no Root row references a Node row any more: table Node must be empty
	if got := huntW3Rows(t, db, "Node"); len(got) != 0 {
		t.Errorf("expected no row in non-root table Node (nothing references one), but the database still holds %v", got)
	}
	// the committed reference index must agree with the rows
	refs, _ := db.GetReferences("Hunt", "Node", huntW3N2)
	for spec, ref := range refs {
		for to, from := range ref {
			for _, f := range from {
				t.Errorf("reference index: %s.%s of row %s references Node %s, but the rows hold no such reference (row %s does not exist)",
					spec.FromTable, spec.FromColumn, f, to, f)
			}
		}
	}

	// the same rows in a fresh database: what a transaction does must not
	// depend on the history
	fresh := huntW3DB(t)
	var ops string
	for _, u := range huntW3Rows(t, db, "Node") {
		ops += fmt.Sprintf(`{"op":"insert","table":"Node","uuid":%q,"row":{}},`, u)
	}
	ops += fmt.Sprintf(`{"op":"insert","table":"Root","uuid":%q,"row":{}}`, huntW3R)
	if rej := huntW3Transact(t, fresh, "["+ops+"]"); rej != "" {
		t.Fatalf("loading rejected: %s", rej)
	}
	if a, b := huntW3Rows(t, db, "Node"), huntW3Rows(t, fresh, "Node"); fmt.Sprint(a) != fmt.Sprint(b) {
		t.Errorf("history dependence: the database holds Node rows %v, a fresh database given the same rows holds %v", a, b)
	}
}

const (
	huntW3K1 = "cccccccc-0000-4000-8000-000000000001"
	huntW3K2 = "cccccccc-0000-4000-8000-000000000002"
	huntW3X  = "dddddddd-0000-4000-8000-000000000001"
)

// Root.links maps weak references to Tag rows to strong references to Thing
// rows. Three ordinary transactions end with a committed strong reference to a
// row that no longer exists.
func TestHuntDanglingWeakRefWithUUIDOfAnotherTableLeadsToDanglingStrongRef(t *testing.T) {
	db := huntW3DB(t)
	setup := fmt.Sprintf(`[
	  {"op":"insert","table":"Tag","uuid":%q,"row":{"name":"k1"}},
	  {"op":"insert","table":"Tag","uuid":%q,"row":{"name":"k2"}},
	  {"op":"insert","table":"Thing","uuid":%q,"row":{"name":"x"}},
	  {"op":"insert","table":"Root","uuid":%q,"row":{"links":["map",[[["uuid",%q],["uuid",%q]]]]}}]`,
		huntW3K1, huntW3K2, huntW3X, huntW3R, huntW3K1, huntW3X)
	if rej := huntW3Transact(t, db, setup); rej != "" {
		t.Fatalf("setup rejected: %s", rej)
	}

	// 1. delete tag k1 (the pair k1 -> x of r.links goes with it) and write the
	// uuid of Thing x into r.note, weak references to Other: no such Other row
	// exists, the reference must simply be removed
	txn1 := fmt.Sprintf(`[
	  {"op":"delete","table":"Tag","where":[["_uuid","==",["uuid",%q]]]},
	  {"op":"mutate","table":"Root","where":[["_uuid","==",["uuid",%q]]],
	   "mutations":[["note","insert",["set",[["uuid",%q]]]]]}]`, huntW3K1, huntW3R, huntW3X)
	if rej := huntW3Transact(t, db, txn1); rej != "" {
		t.Fatalf("transaction 1 rejected: %s", rej)
	}
	roots, _ := db.List("Hunt", "Root")
	if r := roots[huntW3R].(*huntW3Root); len(r.Note) != 0 || len(r.Links) != 0 {
		t.Fatalf("after transaction 1 expected r.note and r.links empty, got note=%v links=%v", r.Note, r.Links)
	}
	refs, _ := db.GetReferences("Hunt", "Thing", huntW3X)
	for spec, ref := range refs {
		if len(ref[huntW3X]) > 0 {
			t.Errorf("after transaction 1 no row references Thing x, but the reference index holds %s.%s (value=%v) of rows %v",
				spec.FromTable, spec.FromColumn, spec.FromValue, ref[huntW3X])
		}
	}

	// 2. r.links gets the pair k2 -> x: r references x strongly again
	txn2 := fmt.Sprintf(`[
	  {"op":"mutate","table":"Root","where":[["_uuid","==",["uuid",%q]]],
	   "mutations":[["links","insert",["map",[[["uuid",%q],["uuid",%q]]]]]]}]`, huntW3R, huntW3K2, huntW3X)
	if rej := huntW3Transact(t, db, txn2); rej != "" {
		t.Fatalf("transaction 2 rejected: %s", rej)
	}
	roots, _ = db.List("Hunt", "Root")
	if r := roots[huntW3R].(*huntW3Root); r.Links[huntW3K2] != huntW3X {
		t.Fatalf("after transaction 2 expected r.links = {k2: x}, got %v", r.Links)
	}

	// 3. deleting x would leave the strong reference of r.links dangling: the
	// transaction must be rejected
	txn3 := fmt.Sprintf(`[{"op":"delete","table":"Thing","where":[["_uuid","==",["uuid",%q]]]}]`, huntW3X)
	rej := huntW3Transact(t, db, txn3)
	roots, _ = db.List("Hunt", "Root")
	r := roots[huntW3R].(*huntW3Root)
	things := huntW3Rows(t, db, "Thing")
	if rej == "" {
		t.Errorf("deleting Thing x while r.links = %v references it strongly: expected a referential integrity violation, but the transaction was committed; Thing rows now: %v", r.Links, things)
	}
	for k, v := range r.Links {
		if len(things) == 0 || things[0] != v {
			t.Errorf("committed state: r.links[%s] is a strong reference to Thing %s, which does not exist (Thing rows: %v)", k, v, things)
		}
	}
}
