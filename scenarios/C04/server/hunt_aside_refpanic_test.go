package server

import (
	"encoding/json"
	"fmt"
	"testing"

	"github.com/google/uuid"
	"github.com/ovn-org/libovsdb/database/inmemory"
	"github.com/ovn-org/libovsdb/model"
	"github.com/ovn-org/libovsdb/ovsdb"
	"github.com/stretchr/testify/require"
)

// ASIDE, outside property C01 (found while generating histories for it): the
// transaction engine panics (and with it the whole server process, the panic
// is in an rpc2 handler goroutine) on a legal history. One uuid is used as a
// reference into two tables by one map column (as a key it refers to table
// N2, as a value to table N1; in one of the two roles it dangles and is
// pruned). The reference tracker initialises the references to a row once per
// uuid (referenceTracker.tracked is keyed by uuid only, see
// updates/references.go initReferences), so the references held through the
// other table are never loaded, the "toggle" of the modification then adds a
// reference instead of removing it, and a stale weak reference row->C stays
// behind. When C is deleted later the tracker prunes that stale reference from
// a map column the row no longer has: interface conversion panic at
// updates/references.go:357.

const huntAsideSchema = `
{
  "name": "Aside", "version": "0.0.1",
  "tables": {
    "R":  {"isRoot": true, "columns": {"one": {"type": {"key": {"type": "uuid", "refTable": "N1"}, "min": 0, "max": 1}}}},
    "N1": {"columns": {"kids": {"type": {"key": {"type": "uuid", "refTable": "N2"}, "min": 0, "max": "unlimited"}},
                        "next": {"type": {"key": {"type": "uuid", "refTable": "N1"}, "min": 0, "max": 1}}}},
    "N2": {"columns": {"m": {"type": {"key": {"type": "uuid", "refTable": "N2", "refType": "weak"},
                                       "value": {"type": "uuid", "refTable": "N1", "refType": "weak"}, "min": 0, "max": "unlimited"}}}}
  }
}`

type huntAsideR struct {
	UUID string  `ovsdb:"_uuid"`
	One  *string `ovsdb:"one"`
}
type huntAsideN1 struct {
	UUID string   `ovsdb:"_uuid"`
	Kids []string `ovsdb:"kids"`
	Next *string  `ovsdb:"next"`
}
type huntAsideN2 struct {
	UUID string            `ovsdb:"_uuid"`
	M    map[string]string `ovsdb:"m"`
}

func TestHuntAsideReferenceTrackerPanics(t *testing.T) {
	cm, err := model.NewClientDBModel("Aside", map[string]model.Model{"R": &huntAsideR{}, "N1": &huntAsideN1{}, "N2": &huntAsideN2{}})
	require.NoError(t, err)
	var schema ovsdb.DatabaseSchema
	require.NoError(t, json.Unmarshal([]byte(huntAsideSchema), &schema))

	const (
		a = "9b23a859-b23e-31d8-d0ea-6ee166902163" // N2
		b = "da40842f-d126-5fe1-89c2-6717e133b83e" // N1, keeps a alive, refers to itself
		c = "1bce1688-33fd-f64d-4398-c0d29e491461" // N1, held by r
		r = "761e87a3-00af-8a8c-0bbe-edb395c4996a" // R
	)
	u := func(s string) ovsdb.UUID { return ovsdb.UUID{GoUUID: s} }
	whereA := []ovsdb.Condition{ovsdb.NewCondition("_uuid", ovsdb.ConditionEqual, u(a))}
	history := [][]ovsdb.Operation{
		{
			{Op: "insert", Table: "N2", UUID: a},
			{Op: "insert", Table: "N1", UUID: b, Row: ovsdb.Row{"kids": u(a), "next": u(b)}},
			{Op: "insert", Table: "N1", UUID: c},
			{Op: "insert", Table: "R", UUID: r, Row: ovsdb.Row{"one": u(c)}},
		},
		// a.m = {a -> c}
		{{Op: "update", Table: "N2", Where: whereA, Row: ovsdb.Row{"m": ovsdb.OvsMap{GoMap: map[interface{}]interface{}{u(a): u(c)}}}}},
		// a.m = {c -> a}: c is not a row of N2, a is not a row of N1: the pair is pruned, a.m = {}
		{{Op: "update", Table: "N2", Where: whereA, Row: ovsdb.Row{"m": ovsdb.OvsMap{GoMap: map[interface{}]interface{}{u(c): u(a)}}}}},
		// r goes, c is garbage collected
		{{Op: "delete", Table: "R", Where: []ovsdb.Condition{}}},
	}

	run := func() (res string) {
		db := inmemory.NewDatabase(map[string]model.ClientDBModel{"Aside": cm})
		require.NoError(t, db.CreateDatabase("Aside", schema))
		defer func() {
			if p := recover(); p != nil {
				res = fmt.Sprintf("panic: %v", p)
			}
		}()
		for i, ops := range history {
			cp := append([]ovsdb.Operation{}, ops...)
			results, upd := db.NewTransaction("Aside").Transact(cp...)
			for _, r := range results {
				if r != nil && r.Error != "" {
					return fmt.Sprintf("transaction %d failed: %s %s", i, r.Error, r.Details)
				}
			}
			if err := db.Commit("Aside", uuid.New(), upd); err != nil {
				return fmt.Sprintf("commit %d: %v", i, err)
			}
		}
		return ""
	}
	// the order of Go map iteration decides which role of the uuid is seen first
	for i := 0; i < 200; i++ {
		if res := run(); res != "" {
			t.Fatalf("expected the four legal transactions to be executed (the last one deletes r and garbage collects c); attempt %d: %s", i, res)
		}
	}
}
