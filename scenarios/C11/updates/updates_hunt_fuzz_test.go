package updates

import (
	"encoding/json"
	"fmt"
	"math/rand"
	"reflect"
	"sort"
	"strings"
	"testing"

	"github.com/ovn-org/libovsdb/model"
	"github.com/ovn-org/libovsdb/ovsdb"
)

const huntSchema = `
{
  "name": "Hunt",
  "version": "0.0.1",
  "tables": {
    "T": {
      "columns": {
        "s":  {"type": "string"},
        "i":  {"type": "integer"},
        "r":  {"type": "real"},
        "b":  {"type": "boolean"},
        "u":  {"type": "uuid"},
        "e":  {"type": {"key": {"type": "string", "enum": ["set", ["red", "green", "blue"]]}}},
        "os": {"type": {"key": "string", "min": 0, "max": 1}},
        "oi": {"type": {"key": "integer", "min": 0, "max": 1}},
        "ou": {"type": {"key": "uuid", "min": 0, "max": 1}},
        "ob": {"type": {"key": "boolean", "min": 0, "max": 1}},
        "or": {"type": {"key": "real", "min": 0, "max": 1}},
        "oe": {"type": {"key": {"type": "string", "enum": ["set", ["red", "green", "blue"]]}, "min": 0, "max": 1}},
        "ss": {"type": {"key": "string", "min": 0, "max": "unlimited"}},
        "si": {"type": {"key": "integer", "min": 0, "max": 3}},
        "su": {"type": {"key": "uuid", "min": 0, "max": "unlimited"}},
        "sr": {"type": {"key": "real", "min": 0, "max": 4}},
        "sb": {"type": {"key": "boolean", "min": 0, "max": 2}},
        "mss": {"type": {"key": "string", "value": "string", "min": 0, "max": "unlimited"}},
        "msi": {"type": {"key": "string", "value": "integer", "min": 0, "max": 3}},
        "mis": {"type": {"key": "integer", "value": "string", "min": 0, "max": "unlimited"}},
        "msu": {"type": {"key": "string", "value": "uuid", "min": 0, "max": "unlimited"}},
        "mus": {"type": {"key": "uuid", "value": "string", "min": 0, "max": "unlimited"}},
        "msb": {"type": {"key": "string", "value": "boolean", "min": 0, "max": "unlimited"}}
      },
      "isRoot": true
    }
  }
}
`

type huntT struct {
	UUID string            `ovsdb:"_uuid"`
	S    string            `ovsdb:"s"`
	I    int               `ovsdb:"i"`
	R    float64           `ovsdb:"r"`
	B    bool              `ovsdb:"b"`
	U    string            `ovsdb:"u"`
	E    string            `ovsdb:"e"`
	OS   *string           `ovsdb:"os"`
	OI   *int              `ovsdb:"oi"`
	OU   *string           `ovsdb:"ou"`
	OB   *bool             `ovsdb:"ob"`
	OR   *float64          `ovsdb:"or"`
	OE   *string           `ovsdb:"oe"`
	SS   []string          `ovsdb:"ss"`
	SI   []int             `ovsdb:"si"`
	SU   []string          `ovsdb:"su"`
	SR   []float64         `ovsdb:"sr"`
	SB   []bool            `ovsdb:"sb"`
	MSS  map[string]string `ovsdb:"mss"`
	MSI  map[string]int    `ovsdb:"msi"`
	MIS  map[int]string    `ovsdb:"mis"`
	MSU  map[string]string `ovsdb:"msu"`
	MUS  map[string]string `ovsdb:"mus"`
	MSB  map[string]bool   `ovsdb:"msb"`
}

func huntModel(t testing.TB) model.DatabaseModel {
	var schema ovsdb.DatabaseSchema
	if err := json.Unmarshal([]byte(huntSchema), &schema); err != nil {
		t.Fatal(err)
	}
	cm, err := model.NewClientDBModel("Hunt", map[string]model.Model{"T": &huntT{}})
	if err != nil {
		t.Fatal(err)
	}
	dbm, errs := model.NewDatabaseModel(schema, cm)
	if len(errs) > 0 {
		t.Fatal(errs)
	}
	return dbm
}

var huntUUIDs = []string{
	"11111111-1111-1111-1111-111111111111",
	"22222222-2222-2222-2222-222222222222",
	"33333333-3333-3333-3333-333333333333",
}
var huntStrs = []string{"a", "b", "c"}
var huntEnums = []string{"red", "green", "blue"}

type huntGen struct {
	r    *rand.Rand
	cols []huntCol
}

func (g huntGen) atom(typ string) interface{} {
	switch typ {
	case "string":
		return huntStrs[g.r.Intn(len(huntStrs))]
	case "enum":
		return huntEnums[g.r.Intn(len(huntEnums))]
	case "integer":
		return g.r.Intn(3)
	case "real":
		return float64(g.r.Intn(3)) + 0.5*float64(g.r.Intn(2))
	case "boolean":
		return g.r.Intn(2) == 0
	case "uuid":
		return ovsdb.UUID{GoUUID: huntUUIDs[g.r.Intn(len(huntUUIDs))]}
	}
	panic(typ)
}

func (g huntGen) set(typ string, max int) ovsdb.OvsSet {
	n := g.r.Intn(max + 1)
	seen := map[interface{}]bool{}
	out := []interface{}{}
	for k := 0; k < n; k++ {
		v := g.atom(typ)
		if !seen[v] {
			seen[v] = true
			out = append(out, v)
		}
	}
	return ovsdb.OvsSet{GoSet: out}
}

func (g huntGen) omap(kt, vt string, max int) ovsdb.OvsMap {
	n := g.r.Intn(max + 1)
	out := map[interface{}]interface{}{}
	for k := 0; k < n; k++ {
		out[g.atom(kt)] = g.atom(vt)
	}
	return ovsdb.OvsMap{GoMap: out}
}

type huntCol struct {
	name string
	kind string // atom, opt, set, map
	kt   string
	vt   string
	max  int
}

var huntCols = []huntCol{
	{"s", "atom", "string", "", 0}, {"i", "atom", "integer", "", 0}, {"r", "atom", "real", "", 0},
	{"b", "atom", "boolean", "", 0}, {"u", "atom", "uuid", "", 0}, {"e", "atom", "enum", "", 0},
	{"os", "opt", "string", "", 1}, {"oi", "opt", "integer", "", 1}, {"ou", "opt", "uuid", "", 1},
	{"ob", "opt", "boolean", "", 1}, {"or", "opt", "real", "", 1}, {"oe", "opt", "enum", "", 1},
	{"ss", "set", "string", "", 3}, {"si", "set", "integer", "", 3}, {"su", "set", "uuid", "", 3},
	{"sr", "set", "real", "", 4}, {"sb", "set", "boolean", "", 2},
	{"mss", "map", "string", "string", 3}, {"msi", "map", "string", "integer", 3},
	{"mis", "map", "integer", "string", 3}, {"msu", "map", "string", "uuid", 3},
	{"mus", "map", "uuid", "string", 3}, {"msb", "map", "string", "boolean", 3},
}

func (g huntGen) p() float64 {
	if len(g.cols) < 5 {
		return 0.7
	}
	return 0.3
}

func (g huntGen) value(c huntCol) interface{} {
	switch c.kind {
	case "atom":
		return g.atom(c.kt)
	case "opt", "set":
		return g.set(c.kt, c.max)
	case "map":
		return g.omap(c.kt, c.vt, c.max)
	}
	panic(c.kind)
}

func (g huntGen) row(p float64) ovsdb.Row {
	row := ovsdb.Row{}
	for _, c := range g.cols {
		if g.r.Float64() < p {
			row[c.name] = g.value(c)
		}
	}
	return row
}

func (g huntGen) mutations() []ovsdb.Mutation {
	n := 1 + g.r.Intn(4)
	var out []ovsdb.Mutation
	for k := 0; k < n; k++ {
		c := g.cols[g.r.Intn(len(g.cols))]
		switch {
		case c.kind == "atom" && (c.kt == "integer" || c.kt == "real"):
			muts := []ovsdb.Mutator{ovsdb.MutateOperationAdd, ovsdb.MutateOperationSubtract, ovsdb.MutateOperationMultiply}
			var v interface{} = 1 + g.r.Intn(2)
			if c.kt == "real" {
				v = float64(1 + g.r.Intn(2))
			}
			out = append(out, ovsdb.Mutation{Column: c.name, Mutator: muts[g.r.Intn(len(muts))], Value: v})
		case c.kind == "set":
			mut := ovsdb.MutateOperationInsert
			if g.r.Intn(2) == 0 {
				mut = ovsdb.MutateOperationDelete
			}
			out = append(out, ovsdb.Mutation{Column: c.name, Mutator: mut, Value: g.set(c.kt, 2)})
		case c.kind == "map":
			switch g.r.Intn(3) {
			case 0:
				out = append(out, ovsdb.Mutation{Column: c.name, Mutator: ovsdb.MutateOperationInsert, Value: g.omap(c.kt, c.vt, 2)})
			case 1:
				out = append(out, ovsdb.Mutation{Column: c.name, Mutator: ovsdb.MutateOperationDelete, Value: g.omap(c.kt, c.vt, 2)})
			case 2:
				out = append(out, ovsdb.Mutation{Column: c.name, Mutator: ovsdb.MutateOperationDelete, Value: g.set(c.kt, 2)})
			}
		default:
			if g.r.Intn(20) == 0 {
				return out
			}
			k--
		}
	}
	return out
}

// wire passes an operation through its JSON encoding, as a server receives it
func huntWire(t testing.TB, op ovsdb.Operation) *ovsdb.Operation {
	b, err := json.Marshal(op)
	if err != nil {
		t.Fatalf("marshal %+v: %v", op, err)
	}
	var out ovsdb.Operation
	if err := json.Unmarshal(b, &out); err != nil {
		t.Fatalf("unmarshal %s: %v", b, err)
	}
	return &out
}

// canonical rendering of a model, insensitive to set order and nil/empty
func huntCanon(dbm model.DatabaseModel, m model.Model) string {
	if m == nil || reflect.ValueOf(m).IsNil() {
		return "<nil>"
	}
	info, err := dbm.NewModelInfo(m)
	if err != nil {
		panic(err)
	}
	var parts []string
	cols := append([]huntCol{{name: "_uuid"}}, huntCols...)
	for _, c := range cols {
		v, err := info.FieldByColumn(c.name)
		if err != nil {
			panic(err)
		}
		parts = append(parts, c.name+"="+huntCanonValue(v))
	}
	return strings.Join(parts, " ")
}

func huntCanonValue(v interface{}) string {
	rv := reflect.ValueOf(v)
	switch rv.Kind() {
	case reflect.Ptr:
		if rv.IsNil() {
			return "[]"
		}
		return fmt.Sprintf("[%#v]", rv.Elem().Interface())
	case reflect.Slice:
		var el []string
		for k := 0; k < rv.Len(); k++ {
			el = append(el, fmt.Sprintf("%#v", rv.Index(k).Interface()))
		}
		sort.Strings(el)
		return "[" + strings.Join(el, ",") + "]"
	case reflect.Map:
		var el []string
		for _, k := range rv.MapKeys() {
			el = append(el, fmt.Sprintf("%#v:%#v", k.Interface(), rv.MapIndex(k).Interface()))
		}
		sort.Strings(el)
		return "{" + strings.Join(el, ",") + "}"
	}
	return fmt.Sprintf("%#v", v)
}

func huntCanonRow(r *ovsdb.Row) string {
	if r == nil {
		return "<nil>"
	}
	var parts []string
	for k, v := range *r {
		var s string
		switch x := v.(type) {
		case ovsdb.OvsSet:
			s = huntCanonValue(x.GoSet)
		case ovsdb.OvsMap:
			s = huntCanonValue(x.GoMap)
		default:
			s = fmt.Sprintf("%#v", v)
		}
		parts = append(parts, k+"="+s)
	}
	sort.Strings(parts)
	return strings.Join(parts, " ")
}

func huntRowOf(t testing.TB, dbm model.DatabaseModel, m model.Model) *ovsdb.Row {
	info, err := dbm.NewModelInfo(m)
	if err != nil {
		t.Fatal(err)
	}
	row, err := dbm.Mapper.NewRow(info)
	if err != nil {
		t.Fatal(err)
	}
	return &row
}

func huntOpString(op *ovsdb.Operation) string {
	b, _ := json.Marshal(op)
	return string(b)
}

const huntUUID = "aaaaaaaa-aaaa-aaaa-aaaa-aaaaaaaaaaaa"

// huntCheck verifies the accumulated update of row huntUUID against the
// initial and final state. Returns a description of the violation or "".
func huntCheck(t testing.TB, dbm model.DatabaseModel, acc *ModelUpdates, initial, final model.Model) string {
	var mu modelUpdate
	present := false
	if acc.updates != nil {
		mu, present = acc.updates["T"][huntUUID]
	}
	ci, cf := huntCanon(dbm, initial), huntCanon(dbm, final)
	isNil := func(m model.Model) bool { return m == nil || reflect.ValueOf(m).IsNil() }
	switch {
	case ci == cf:
		if present {
			return fmt.Sprintf("row ends as it began (or inserted and deleted) but an update remains: old=%s new=%s ru2=%s",
				huntCanon(dbm, mu.old), huntCanon(dbm, mu.new), huntRU2(mu.rowUpdate2))
		}
		if len(acc.GetUpdatedTables()) != 0 {
			return fmt.Sprintf("no net change but updated tables = %v", acc.GetUpdatedTables())
		}
		return ""
	case !present:
		return fmt.Sprintf("net change %s -> %s but no accumulated update", ci, cf)
	}
	if got := huntCanon(dbm, mu.old); got != ci {
		return fmt.Sprintf("old model: expected first old %s, got %s", ci, got)
	}
	if got := huntCanon(dbm, mu.new); got != cf {
		return fmt.Sprintf("new model: expected last new %s, got %s", cf, got)
	}
	if got := huntCanon(dbm, acc.GetModel("T", huntUUID)); got != cf {
		return fmt.Sprintf("GetModel: expected %s, got %s", cf, got)
	}
	ru := mu.rowUpdate2
	if ru == nil {
		return "nil rowUpdate2"
	}
	switch {
	case isNil(initial):
		// one insert of the final row
		want := huntCanonRow(huntRowOf(t, dbm, final))
		if ru.Insert == nil || ru.Modify != nil || ru.Delete != nil || ru.Old != nil {
			return fmt.Sprintf("insert+changes: expected a pure insert, got %s", huntRU2(ru))
		}
		if got := huntCanonRow(ru.Insert); got != want {
			return fmt.Sprintf("insert+changes: Insert row expected %s, got %s", want, got)
		}
		if got := huntCanonRow(ru.New); got != want {
			return fmt.Sprintf("insert+changes: New row expected %s, got %s", want, got)
		}
	case isNil(final):
		want := huntCanonRow(huntRowOf(t, dbm, initial))
		if ru.Delete == nil || ru.Modify != nil || ru.Insert != nil || ru.New != nil {
			return fmt.Sprintf("changes+delete: expected a pure delete, got %s", huntRU2(ru))
		}
		if got := huntCanonRow(ru.Old); got != want {
			return fmt.Sprintf("changes+delete: Old row expected %s, got %s", want, got)
		}
	default:
		wantOld := huntCanonRow(huntRowOf(t, dbm, initial))
		wantNew := huntCanonRow(huntRowOf(t, dbm, final))
		if ru.Modify == nil || ru.Delete != nil || ru.Insert != nil {
			return fmt.Sprintf("modify: expected a pure modify, got %s", huntRU2(ru))
		}
		if got := huntCanonRow(ru.Old); got != wantOld {
			return fmt.Sprintf("modify: Old row expected %s, got %s", wantOld, got)
		}
		if got := huntCanonRow(ru.New); got != wantNew {
			return fmt.Sprintf("modify: New row expected %s, got %s", wantNew, got)
		}
		// apply Modify to the first old value (through the wire encoding)
		b, err := json.Marshal(ru.Modify)
		if err != nil {
			return fmt.Sprintf("marshal modify: %v", err)
		}
		var mod ovsdb.Row
		if err := json.Unmarshal(b, &mod); err != nil {
			return fmt.Sprintf("unmarshal modify %s: %v", b, err)
		}
		var ap ModelUpdates
		err = ap.AddRowUpdate2(dbm, "T", huntUUID, model.Clone(initial), ovsdb.RowUpdate2{Modify: &mod})
		if err != nil {
			return fmt.Sprintf("applying modify %s: %v", b, err)
		}
		got := huntCanon(dbm, ap.GetModel("T", huntUUID))
		if got != cf {
			return fmt.Sprintf("modify %s applied to first old gives %s, expected last new %s", huntCanonRow(ru.Modify), got, cf)
		}
		// the modify must not mention unchanged columns
		for col := range *ru.Modify {
			if huntColCanon(dbm, initial, col) == huntColCanon(dbm, final, col) {
				return fmt.Sprintf("modify %s mentions column %s which ends as it began", huntCanonRow(ru.Modify), col)
			}
		}
	}
	return ""
}

func huntColCanon(dbm model.DatabaseModel, m model.Model, col string) string {
	info, err := dbm.NewModelInfo(m)
	if err != nil {
		panic(err)
	}
	v, err := info.FieldByColumn(col)
	if err != nil {
		panic(err)
	}
	return huntCanonValue(v)
}

func huntRU2(ru *ovsdb.RowUpdate2) string {
	if ru == nil {
		return "<nil>"
	}
	return fmt.Sprintf("{Initial:%s Insert:%s Modify:%s Delete:%s Old:%s New:%s}", huntCanonRow(ru.Initial),
		huntCanonRow(ru.Insert), huntCanonRow(ru.Modify), huntCanonRow(ru.Delete), huntCanonRow(ru.Old), huntCanonRow(ru.New))
}

// huntStep computes the state after one operation with a fresh ModelUpdates
func huntStep(t testing.TB, dbm model.DatabaseModel, state model.Model, op *ovsdb.Operation) (model.Model, *ModelUpdates, error) {
	var single ModelUpdates
	var cur model.Model
	if state != nil {
		cur = model.Clone(state)
	}
	if err := single.AddOperation(dbm, "T", huntUUID, cur, op); err != nil {
		return nil, nil, err
	}
	if single.updates == nil {
		return state, &single, nil
	}
	mu, ok := single.updates["T"][huntUUID]
	if !ok {
		return state, &single, nil
	}
	if mu.new == nil {
		return nil, &single, nil
	}
	return model.Clone(mu.new), &single, nil
}

func (g huntGen) sequence(t testing.TB, startsExisting bool, n int) []ovsdb.Operation {
	var ops []ovsdb.Operation
	exists := startsExisting
	for k := 0; k < n; k++ {
		if !exists {
			ops = append(ops, ovsdb.Operation{Op: ovsdb.OperationInsert, Table: "T", UUID: huntUUID, Row: g.row(g.p())})
			exists = true
			continue
		}
		switch x := g.r.Intn(10); {
		case x < 4:
			ops = append(ops, ovsdb.Operation{Op: ovsdb.OperationUpdate, Table: "T", Row: g.row(g.p())})
		case x < 8:
			ops = append(ops, ovsdb.Operation{Op: ovsdb.OperationMutate, Table: "T", Mutations: g.mutations()})
		default:
			if k == n-1 {
				ops = append(ops, ovsdb.Operation{Op: ovsdb.OperationDelete, Table: "T"})
				exists = false
			} else {
				ops = append(ops, ovsdb.Operation{Op: ovsdb.OperationUpdate, Table: "T", Row: g.row(g.p())})
			}
		}
	}
	return ops
}

func huntRun(t *testing.T, seed int64, mode string) (string, []string) {
	dbm := huntModel(t)
	g := huntGen{r: rand.New(rand.NewSource(seed)), cols: huntCols}
	if seed%2 == 1 {
		// focus on a few columns so that steps overlap
		g.cols = nil
		for k := 0; k < 1+g.r.Intn(3); k++ {
			g.cols = append(g.cols, huntCols[g.r.Intn(len(huntCols))])
		}
	}
	startsExisting := g.r.Intn(3) > 0
	var initial model.Model
	if startsExisting {
		st, _, err := huntStep(t, dbm, nil, huntWire(t, ovsdb.Operation{Op: ovsdb.OperationInsert, Table: "T", UUID: huntUUID, Row: g.row(g.p())}))
		if err != nil {
			t.Fatal(err)
		}
		initial = st
	}
	ops := g.sequence(t, startsExisting, 2+g.r.Intn(5))
	var trace []string
	trace = append(trace, "initial: "+huntCanon(dbm, initial))

	state := initial
	var acc ModelUpdates
	var singles []*ModelUpdates
	for _, o := range ops {
		op := huntWire(t, o)
		trace = append(trace, "op: "+huntOpString(op))
		next, single, err := huntStep(t, dbm, state, op)
		if err != nil {
			// the single step itself is rejected: not an aggregation matter
			return "", trace
		}
		switch mode {
		case "add":
			var cur model.Model
			if state != nil {
				cur = model.Clone(state)
			}
			if err := acc.AddOperation(dbm, "T", huntUUID, cur, huntWire(t, o)); err != nil {
				return fmt.Sprintf("AddOperation failed while accumulating: %v", err), trace
			}
		case "merge":
			if err := acc.Merge(dbm, *single); err != nil {
				return fmt.Sprintf("Merge failed while accumulating: %v", err), trace
			}
		case "tree":
			singles = append(singles, single)
		}
		state = next
		trace = append(trace, "state: "+huntCanon(dbm, state))
	}
	if mode == "tree" {
		// merge the second half first into its own accumulator, then merge both
		half := len(singles) / 2
		var left, right ModelUpdates
		for _, s := range singles[:half] {
			if err := left.Merge(dbm, *s); err != nil {
				return fmt.Sprintf("Merge(left) failed: %v", err), trace
			}
		}
		for _, s := range singles[half:] {
			if err := right.Merge(dbm, *s); err != nil {
				return fmt.Sprintf("Merge(right) failed: %v", err), trace
			}
		}
		if err := acc.Merge(dbm, left); err != nil {
			return fmt.Sprintf("Merge(acc,left) failed: %v", err), trace
		}
		if err := acc.Merge(dbm, right); err != nil {
			return fmt.Sprintf("Merge(acc,right) failed: %v", err), trace
		}
	}
	return huntCheck(t, dbm, &acc, initial, state), trace
}

func TestHuntFuzz(t *testing.T) {
	for _, mode := range []string{"add", "merge", "tree"} {
		fails := 0
		for seed := int64(0); seed < 20000 && fails < 5; seed++ {
			msg, trace := huntRun(t, seed, mode)
			if msg != "" {
				fails++
				t.Errorf("mode %s seed %d: %s\n%s", mode, seed, msg, strings.Join(trace, "\n"))
			}
		}
	}
}
