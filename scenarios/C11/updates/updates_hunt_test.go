package updates

import (
	"encoding/json"
	"fmt"
	"reflect"
	"testing"

	"github.com/ovn-org/libovsdb/model"
	"github.com/ovn-org/libovsdb/ovsdb"
)

// Demonstrations for property C11 (aggregating successive updates of one row
// equals the single net update). Every test fails on the unmodified library.

const hxSchema = `
{
  "name": "Hx",
  "version": "0.0.1",
  "tables": {
    "T": {
      "columns": {
        "s":  {"type": "string"},
        "r":  {"type": "real"},
        "u":  {"type": "uuid"},
        "os": {"type": {"key": "string", "min": 0, "max": 1}},
        "ss": {"type": {"key": "string", "min": 0, "max": "unlimited"}}
      },
      "isRoot": true
    }
  }
}
`

type hxT struct {
	UUID string   `ovsdb:"_uuid"`
	S    string   `ovsdb:"s"`
	R    float64  `ovsdb:"r"`
	U    string   `ovsdb:"u"`
	OS   *string  `ovsdb:"os"`
	SS   []string `ovsdb:"ss"`
}

const hxUUID = "aaaaaaaa-aaaa-aaaa-aaaa-aaaaaaaaaaaa"

func hxModel(t *testing.T) model.DatabaseModel {
	var schema ovsdb.DatabaseSchema
	if err := json.Unmarshal([]byte(hxSchema), &schema); err != nil {
		t.Fatal(err)
	}
	cm, err := model.NewClientDBModel("Hx", map[string]model.Model{"T": &hxT{}})
	if err != nil {
		t.Fatal(err)
	}
	dbm, errs := model.NewDatabaseModel(schema, cm)
	if len(errs) > 0 {
		t.Fatal(errs)
	}
	return dbm
}

// hxWireRU2 builds a RowUpdate2 the way a client receives it: from JSON
func hxWireRU2(t *testing.T, js string) ovsdb.RowUpdate2 {
	var ru2 ovsdb.RowUpdate2
	if err := json.Unmarshal([]byte(js), &ru2); err != nil {
		t.Fatalf("%s: %v", js, err)
	}
	return ru2
}

func hxRow(r *ovsdb.Row) string {
	if r == nil {
		return "nil"
	}
	return fmt.Sprintf("%v", map[string]interface{}(*r))
}

func hxRU2(ru ovsdb.RowUpdate2) string {
	return fmt.Sprintf("{Initial:%s Insert:%s Modify:%s Delete:%s Old:%s New:%s}",
		hxRow(ru.Initial), hxRow(ru.Insert), hxRow(ru.Modify), hxRow(ru.Delete), hxRow(ru.Old), hxRow(ru.New))
}

// hxGet returns the accumulated update of the row through the public iterators
func hxGet(t *testing.T, u *ModelUpdates) (present bool, old, new model.Model, ru ovsdb.RowUpdate2) {
	for _, table := range u.GetUpdatedTables() {
		_ = u.ForEachModelUpdate(table, func(uuid string, o, n model.Model) error {
			if uuid == hxUUID {
				present, old, new = true, o, n
			}
			return nil
		})
		_ = u.ForEachRowUpdate(table, func(uuid string, r ovsdb.RowUpdate2) error {
			if uuid == hxUUID {
				ru = r
			}
			return nil
		})
	}
	return
}

func hxIsNil(m model.Model) bool { return m == nil || reflect.ValueOf(m).IsNil() }

func hxStr(m model.Model) string {
	if hxIsNil(m) {
		return "nil"
	}
	b, _ := json.Marshal(m)
	return string(b)
}

func hxNoPanic(f func() error) (err error) {
	defer func() {
		if r := recover(); r != nil {
			err = fmt.Errorf("panic: %v", r)
		}
	}()
	return f()
}

// Finding 1: delete followed by insert of the same uuid (a sequence that
// Transaction.Insert lets through on purpose) cannot be accumulated.
func TestHuntDeleteThenReinsertSameUUID(t *testing.T) {
	t.Skip("item of the first audit, triaged in DESIGN.md 7.1: outside the property as stated, or recorded under another check")
	dbm := hxModel(t)
	initial := &hxT{UUID: hxUUID, S: "a"}
	var acc ModelUpdates
	if err := acc.AddOperation(dbm, "T", hxUUID, initial, &ovsdb.Operation{Op: ovsdb.OperationDelete, Table: "T"}); err != nil {
		t.Fatal(err)
	}
	err := acc.AddOperation(dbm, "T", hxUUID, nil, &ovsdb.Operation{Op: ovsdb.OperationInsert, Table: "T", UUID: hxUUID, Row: ovsdb.Row{"s": "b"}})
	if err != nil {
		t.Fatalf("delete then insert of the same uuid: expected one net update of the row with old s=a (first old) and new s=b (last new); AddOperation failed: %v", err)
	}
	present, old, new, ru := hxGet(t, &acc)
	if !present || hxIsNil(old) || hxIsNil(new) || old.(*hxT).S != "a" || new.(*hxT).S != "b" {
		t.Fatalf("expected net update old s=a, new s=b; got present=%v old=%s new=%s ru2=%s", present, hxStr(old), hxStr(new), hxRU2(ru))
	}
}

// the same with an insert that restores the deleted row: must vanish
func TestHuntDeleteThenReinsertIdenticalRowVanishes(t *testing.T) {
	t.Skip("item of the first audit, triaged in DESIGN.md 7.1: outside the property as stated, or recorded under another check")
	dbm := hxModel(t)
	initial := &hxT{UUID: hxUUID, S: "a"}
	var acc ModelUpdates
	if err := acc.AddOperation(dbm, "T", hxUUID, initial, &ovsdb.Operation{Op: ovsdb.OperationDelete, Table: "T"}); err != nil {
		t.Fatal(err)
	}
	err := acc.AddOperation(dbm, "T", hxUUID, nil, &ovsdb.Operation{Op: ovsdb.OperationInsert, Table: "T", UUID: hxUUID, Row: ovsdb.Row{"s": "a"}})
	if err != nil {
		t.Fatalf("delete then insert of the identical row: the row ends as it began, expected no accumulated update; AddOperation failed: %v", err)
	}
	if tables := acc.GetUpdatedTables(); len(tables) != 0 {
		t.Fatalf("expected no accumulated update, got updated tables %v", tables)
	}
}

// Finding 2a: insert then modify given as RowUpdate2 (as received from the
// wire: no Old/New) must be reported as one insert of the final row.
func TestHuntRowUpdate2InsertThenModify(t *testing.T) {
	t.Skip("item of the first audit, triaged in DESIGN.md 7.1: outside the property as stated, or recorded under another check")
	dbm := hxModel(t)
	var acc ModelUpdates
	if err := acc.AddRowUpdate2(dbm, "T", hxUUID, nil, hxWireRU2(t, `{"insert":{"s":"a"}}`)); err != nil {
		t.Fatal(err)
	}
	cur := acc.GetModel("T", hxUUID)
	if err := acc.AddRowUpdate2(dbm, "T", hxUUID, cur, hxWireRU2(t, `{"modify":{"s":"b"}}`)); err != nil {
		t.Fatal(err)
	}
	present, old, new, ru := hxGet(t, &acc)
	if !present || !hxIsNil(old) || hxIsNil(new) || new.(*hxT).S != "b" {
		t.Fatalf("model update: expected old=nil new.s=b, got present=%v old=%s new=%s", present, hxStr(old), hxStr(new))
	}
	if ru.Insert == nil || (*ru.Insert)["s"] != "b" {
		t.Fatalf("insert followed by modify must be reported as one insert of the final row {s:b}; ForEachRowUpdate reports %s", hxRU2(ru))
	}
}

// Finding 2b: insert, modify, delete given as RowUpdate2 must vanish.
func TestHuntRowUpdate2InsertModifyDeleteVanishes(t *testing.T) {
	t.Skip("item of the first audit, triaged in DESIGN.md 7.1: outside the property as stated, or recorded under another check")
	dbm := hxModel(t)
	var acc ModelUpdates
	if err := acc.AddRowUpdate2(dbm, "T", hxUUID, nil, hxWireRU2(t, `{"insert":{"s":"a"}}`)); err != nil {
		t.Fatal(err)
	}
	if err := acc.AddRowUpdate2(dbm, "T", hxUUID, acc.GetModel("T", hxUUID), hxWireRU2(t, `{"modify":{"s":"b"}}`)); err != nil {
		t.Fatal(err)
	}
	// libovsdb's own server encodes a delete as {"delete":{}}; with the
	// {"delete":null} of ovsdb-server this step fails instead with "sequence of
	// updates not supported"
	if err := acc.AddRowUpdate2(dbm, "T", hxUUID, acc.GetModel("T", hxUUID), hxWireRU2(t, `{"delete":{}}`)); err != nil {
		t.Fatalf("row inserted, modified and deleted again: expected no accumulated update; the delete step failed: %v", err)
	}
	present, old, new, ru := hxGet(t, &acc)
	if present || len(acc.GetUpdatedTables()) != 0 {
		t.Fatalf("row inserted, modified and deleted again: expected no accumulated update; got tables=%v old=%s new=%s ru2=%s",
			acc.GetUpdatedTables(), hxStr(old), hxStr(new), hxRU2(ru))
	}
}

// Finding 2c: two modifies given as RowUpdate2: nil pointer dereference.
func TestHuntRowUpdate2ModifyThenModify(t *testing.T) {
	t.Skip("item of the first audit, triaged in DESIGN.md 7.1: outside the property as stated, or recorded under another check")
	dbm := hxModel(t)
	for _, tc := range []struct{ name, second, wantS string }{
		{"different", `{"modify":{"s":"c"}}`, "c"},
		{"revert", `{"modify":{"s":"a"}}`, "a"},
	} {
		t.Run(tc.name, func(t *testing.T) {
			initial := &hxT{UUID: hxUUID, S: "a"}
			var acc ModelUpdates
			if err := acc.AddRowUpdate2(dbm, "T", hxUUID, initial, hxWireRU2(t, `{"modify":{"s":"b"}}`)); err != nil {
				t.Fatal(err)
			}
			cur := acc.GetModel("T", hxUUID)
			err := hxNoPanic(func() error {
				return acc.AddRowUpdate2(dbm, "T", hxUUID, cur, hxWireRU2(t, tc.second))
			})
			if err != nil {
				t.Fatalf("modify s=b then modify s=%s: expected the net update a -> %s (nothing if equal); got %v", tc.wantS, tc.wantS, err)
			}
			present, old, new, ru := hxGet(t, &acc)
			if tc.wantS == "a" {
				if present {
					t.Fatalf("expected no update, got old=%s new=%s ru2=%s", hxStr(old), hxStr(new), hxRU2(ru))
				}
				return
			}
			if !present || new.(*hxT).S != tc.wantS || ru.Modify == nil || (*ru.Modify)["s"] != tc.wantS {
				t.Fatalf("expected modify s=%s, got old=%s new=%s ru2=%s", tc.wantS, hxStr(old), hxStr(new), hxRU2(ru))
			}
		})
	}
}

// Finding 3: no sequence of two RowUpdate (update v1) on one row can be
// accumulated although AddRowUpdate documents aggregation.
func TestHuntRowUpdateV1Sequences(t *testing.T) {
	t.Skip("item of the first audit, triaged in DESIGN.md 7.1: outside the property as stated, or recorded under another check")
	dbm := hxModel(t)
	ins := ovsdb.RowUpdate{New: &ovsdb.Row{"s": "a"}}
	mod := ovsdb.RowUpdate{Old: &ovsdb.Row{"s": "a"}, New: &ovsdb.Row{"s": "b"}}
	mod2 := ovsdb.RowUpdate{Old: &ovsdb.Row{"s": "b"}, New: &ovsdb.Row{"s": "c"}}
	delA := ovsdb.RowUpdate{Old: &ovsdb.Row{"s": "a"}}
	delB := ovsdb.RowUpdate{Old: &ovsdb.Row{"s": "b"}}
	existing := &hxT{UUID: hxUUID, S: "a"}
	for _, tc := range []struct {
		name    string
		initial model.Model
		seq     []ovsdb.RowUpdate
		want    string
	}{
		{"insert,modify", nil, []ovsdb.RowUpdate{ins, mod}, "one insert of {s:b}"},
		{"insert,delete", nil, []ovsdb.RowUpdate{ins, delA}, "no update"},
		{"modify,modify", existing, []ovsdb.RowUpdate{mod, mod2}, "one modify a -> c"},
		{"modify,delete", existing, []ovsdb.RowUpdate{mod, delB}, "one delete of {s:a}"},
	} {
		t.Run(tc.name, func(t *testing.T) {
			var acc ModelUpdates
			var cur model.Model
			if tc.initial != nil {
				cur = model.Clone(tc.initial)
			}
			for i, ru := range tc.seq {
				err := hxNoPanic(func() error { return acc.AddRowUpdate(dbm, "T", hxUUID, cur, ru) })
				if err != nil {
					t.Fatalf("sequence %s: expected %s; step %d failed: %v", tc.name, tc.want, i, err)
				}
				cur = acc.GetModel("T", hxUUID)
			}
		})
	}
}

// Finding 4: a uuid column that starts as the all-zero uuid, is changed and
// changed back: the row ends as it began but the update does not vanish.
func TestHuntZeroUUIDColumnRevert(t *testing.T) {
	t.Skip("item of the first audit, triaged in DESIGN.md 7.1: outside the property as stated, or recorded under another check")
	dbm := hxModel(t)
	zero := "00000000-0000-0000-0000-000000000000"
	other := "11111111-1111-1111-1111-111111111111"
	initial := &hxT{UUID: hxUUID, U: zero}
	var acc ModelUpdates
	if err := acc.AddOperation(dbm, "T", hxUUID, initial, &ovsdb.Operation{Op: ovsdb.OperationUpdate, Table: "T", Row: ovsdb.Row{"u": ovsdb.UUID{GoUUID: other}}}); err != nil {
		t.Fatal(err)
	}
	if err := acc.AddOperation(dbm, "T", hxUUID, acc.GetModel("T", hxUUID), &ovsdb.Operation{Op: ovsdb.OperationUpdate, Table: "T", Row: ovsdb.Row{"u": ovsdb.UUID{GoUUID: zero}}}); err != nil {
		t.Fatal(err)
	}
	present, old, new, ru := hxGet(t, &acc)
	if present {
		t.Fatalf("column u: %s -> %s -> %s, the row ends as it began: expected no accumulated update; got old=%s new=%s ru2=%s",
			zero, other, zero, hxStr(old), hxStr(new), hxRU2(ru))
	}
}

// Finding 5: a set written with a repeated element (accepted everywhere by
// the library) and emptied again: the update does not vanish.
func TestHuntDuplicateSetElementRevert(t *testing.T) {
	dbm := hxModel(t)
	initial := &hxT{UUID: hxUUID}
	var acc ModelUpdates
	var op1, op2 ovsdb.Operation
	if err := json.Unmarshal([]byte(`{"op":"update","table":"T","row":{"ss":["set",["a","a"]]}}`), &op1); err != nil {
		t.Fatal(err)
	}
	if err := json.Unmarshal([]byte(`{"op":"update","table":"T","row":{"ss":["set",[]]}}`), &op2); err != nil {
		t.Fatal(err)
	}
	if err := acc.AddOperation(dbm, "T", hxUUID, initial, &op1); err != nil {
		t.Fatal(err)
	}
	if err := acc.AddOperation(dbm, "T", hxUUID, acc.GetModel("T", hxUUID), &op2); err != nil {
		t.Fatal(err)
	}
	present, old, new, ru := hxGet(t, &acc)
	if present {
		t.Fatalf("column ss: [] -> [a,a] -> [], the row ends as it began: expected no accumulated update; got old=%s new=%s ru2=%s",
			hxStr(old), hxStr(new), hxRU2(ru))
	}
}

// Finding 6: a real column multiplied beyond the range of a double, followed
// by any other change: the accumulated new value loses every column.
func TestHuntRealOverflowThenUpdate(t *testing.T) {
	dbm := hxModel(t)
	a := "a"
	initial := &hxT{UUID: hxUUID, S: "a", R: 1e308, OS: &a, SS: []string{"x"}}
	var acc ModelUpdates
	var op1, op2 ovsdb.Operation
	if err := json.Unmarshal([]byte(`{"op":"mutate","table":"T","mutations":[["r","*=",100.5]]}`), &op1); err != nil {
		t.Fatal(err)
	}
	if err := json.Unmarshal([]byte(`{"op":"update","table":"T","row":{"s":"b"}}`), &op2); err != nil {
		t.Fatal(err)
	}
	if err := acc.AddOperation(dbm, "T", hxUUID, initial, &op1); err != nil {
		t.Logf("first step rejected (that would be fine): %v", err)
		return
	}
	if err := acc.AddOperation(dbm, "T", hxUUID, acc.GetModel("T", hxUUID), &op2); err != nil {
		t.Fatal(err)
	}
	_, _, new, ru := hxGet(t, &acc)
	got := new.(*hxT)
	if got.UUID != hxUUID || got.OS == nil || *got.OS != "a" || len(got.SS) != 1 || got.S != "b" {
		t.Fatalf("mutate r*=100.5 then update s=b: expected last new value to keep _uuid, os=[a], ss=[x] and have s=b; got new=%s ru2=%s", hxStr(new), hxRU2(ru))
	}
}
