package inmemory

import (
	"testing"

	"github.com/google/uuid"
	"github.com/stretchr/testify/require"

	"github.com/ovn-org/libovsdb/model"
	"github.com/ovn-org/libovsdb/ovsdb"

	. "github.com/ovn-org/libovsdb/test"
)

// A transaction that deletes a row and inserts a row with the same uuid again
// is let through by Transaction.Insert (the uuid is free again: it is in
// DeletedRows), but accumulating the two changes of that row fails.
func TestHuntTransactionDeleteThenReinsertSameUUID(t *testing.T) {
	t.Skip("item of the first audit, triaged in DESIGN.md 7.1: outside the property as stated, or recorded under another check")
	dbModel, err := GetModel()
	require.NoError(t, err)
	db := NewDatabase(map[string]model.ClientDBModel{"Open_vSwitch": dbModel.Client()})
	require.NoError(t, db.CreateDatabase("Open_vSwitch", dbModel.Schema))

	portUUID := uuid.NewString()
	setup := []ovsdb.Operation{{Op: ovsdb.OperationInsert, Table: "Port", UUID: portUUID, Row: ovsdb.Row{"name": "p1"}}}
	tr := db.NewTransaction("Open_vSwitch")
	res, upd := tr.Transact(setup...)
	_, err = checkOperationResults(res, setup...)
	require.NoError(t, err)
	require.NoError(t, db.Commit("Open_vSwitch", uuid.New(), upd))

	ops := []ovsdb.Operation{
		{Op: ovsdb.OperationDelete, Table: "Port", Where: []ovsdb.Condition{ovsdb.NewCondition("_uuid", ovsdb.ConditionEqual, ovsdb.UUID{GoUUID: portUUID})}},
		{Op: ovsdb.OperationInsert, Table: "Port", UUID: portUUID, Row: ovsdb.Row{"name": "p2"}},
	}
	tr = db.NewTransaction("Open_vSwitch")
	res, _ = tr.Transact(ops...)
	for i, r := range res {
		if r != nil && r.Error != "" {
			t.Fatalf("expected delete + insert of the same uuid to be accumulated into one net update of row %s (name p1 -> p2); operation %d failed: %q %q",
				portUUID, i, r.Error, r.Details)
		}
	}
}
