package inmemory

import (
	"testing"

	"github.com/ovn-org/libovsdb/model"
	"github.com/ovn-org/libovsdb/ovsdb"
	. "github.com/ovn-org/libovsdb/test"
)

// A transaction inserts a row (the client chooses the uuid), deletes it,
// inserts it again and then changes it. The accumulated update must be one
// insert of the final row; if the last operation deletes the row again there
// must be no update at all.
func huntReinsert(t *testing.T, last ovsdb.Operation) (results []*ovsdb.OperationResult, inserted []*BridgeType, others int) {
	dbModel, err := GetModel()
	if err != nil {
		t.Fatal(err)
	}
	db := NewDatabase(map[string]model.ClientDBModel{"Open_vSwitch": dbModel.Client()})
	if err := db.CreateDatabase("Open_vSwitch", dbModel.Schema); err != nil {
		t.Fatal(err)
	}
	const id = "aaaaaaaa-aaaa-aaaa-aaaa-aaaaaaaaaaaa"
	byUUID := []ovsdb.Condition{ovsdb.NewCondition("_uuid", ovsdb.ConditionEqual, ovsdb.UUID{GoUUID: id})}
	last.Table = "Bridge"
	last.Where = byUUID
	ops := []ovsdb.Operation{
		{Op: ovsdb.OperationInsert, Table: "Bridge", UUID: id, Row: ovsdb.Row{"name": "first"}},
		{Op: ovsdb.OperationDelete, Table: "Bridge", Where: byUUID},
		{Op: ovsdb.OperationInsert, Table: "Bridge", UUID: id, Row: ovsdb.Row{"name": "second"}},
		last,
	}
	results, update := db.NewTransaction("Open_vSwitch").Transact(ops...)
	for i, r := range results {
		if r.Error != "" {
			t.Fatalf("operation %d failed: %s (%s)", i, r.Error, r.Details)
		}
	}
	_ = update.ForEachModelUpdate("Bridge", func(uuid string, old, new model.Model) error {
		if old == nil && new != nil {
			inserted = append(inserted, new.(*BridgeType))
		} else {
			others++
		}
		return nil
	})
	return results, inserted, others
}

func TestHuntInsertDeleteInsertUpdate(t *testing.T) {
	results, inserted, others := huntReinsert(t, ovsdb.Operation{Op: ovsdb.OperationUpdate, Row: ovsdb.Row{"datapath_type": "netdev"}})
	if results[3].Count != 1 {
		t.Errorf("update of the row inserted again: expected count 1, got %d", results[3].Count)
	}
	if len(inserted) != 1 || others != 0 {
		t.Fatalf("expected one insert, got %d inserts and %d other updates", len(inserted), others)
	}
	if inserted[0].Name != "second" || inserted[0].DatapathType != "netdev" {
		t.Errorf("insert, delete, insert {name: second}, update {datapath_type: netdev}: expected one insert of the final row {name: second, datapath_type: netdev}, got insert of {name: %s, datapath_type: %q}",
			inserted[0].Name, inserted[0].DatapathType)
	}
}

func TestHuntInsertDeleteInsertMutate(t *testing.T) {
	extIDs, _ := ovsdb.NewOvsMap(map[string]string{"k": "v"})
	results, inserted, others := huntReinsert(t, ovsdb.Operation{Op: ovsdb.OperationMutate,
		Mutations: []ovsdb.Mutation{*ovsdb.NewMutation("external_ids", ovsdb.MutateOperationInsert, extIDs)}})
	if results[3].Count != 1 {
		t.Errorf("mutate of the row inserted again: expected count 1, got %d", results[3].Count)
	}
	if len(inserted) != 1 || others != 0 {
		t.Fatalf("expected one insert, got %d inserts and %d other updates", len(inserted), others)
	}
	if inserted[0].ExternalIds["k"] != "v" {
		t.Errorf("insert, delete, insert, mutate external_ids insert {k: v}: expected one insert of the final row with external_ids {k: v}, got insert with external_ids %v",
			inserted[0].ExternalIds)
	}
}

func TestHuntInsertDeleteInsertDelete(t *testing.T) {
	results, inserted, others := huntReinsert(t, ovsdb.Operation{Op: ovsdb.OperationDelete})
	if results[3].Count != 1 {
		t.Errorf("delete of the row inserted again: expected count 1, got %d", results[3].Count)
	}
	if len(inserted) != 0 || others != 0 {
		t.Errorf("insert, delete, insert, delete: the row is inserted and deleted again, expected no update, got %d inserts and %d other updates", len(inserted), others)
	}
}
