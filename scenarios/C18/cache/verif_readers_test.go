package cache

import (
	"encoding/json"
	"fmt"
	"sync"
	"testing"

	"github.com/ovn-org/libovsdb/model"
	"github.com/ovn-org/libovsdb/ovsdb"
)

type huntReadersRow struct {
	UUID  string `ovsdb:"_uuid"`
	Name  string `ovsdb:"name"`
	Zone  string `ovsdb:"zone"`
	Class string `ovsdb:"class"`
}

// Readers only read: lookups that run under the read lock of the row cache (RowsByCondition, RowsByModels, Index,
// Rows) may run concurrently, and leave the rows and the indexes as they found them. Several client indexes whose
// row sets differ, conditions on both indexed columns, many goroutines; afterwards every index still answers as a
// scan does. (With the race detector on, a write under the read lock is reported as a data race.)
func TestHuntConcurrentReadersLeaveIndexesAlone(t *testing.T) {
	var schema ovsdb.DatabaseSchema
	if err := json.Unmarshal([]byte(`{"name":"DB","tables":{"T":{"columns":{"name":{"type":"string"},"zone":{"type":"string"},"class":{"type":"string"}},"indexes":[["name"]]}}}`), &schema); err != nil {
		t.Fatal(err)
	}
	cdb, err := model.NewClientDBModel("DB", map[string]model.Model{"T": &huntReadersRow{}})
	if err != nil {
		t.Fatal(err)
	}
	cdb.SetIndexes(map[string][]model.ClientIndex{"T": {
		{Columns: []model.ColumnKey{{Column: "zone"}}}, {Columns: []model.ColumnKey{{Column: "class"}}},
	}})
	dbm, errs := model.NewDatabaseModel(schema, cdb)
	if len(errs) > 0 {
		t.Fatal(errs)
	}
	tc, err := NewTableCache(dbm, nil, nil)
	if err != nil {
		t.Fatal(err)
	}
	rc := tc.Table("T")
	zones, classes := []string{"z0", "z1", "z2"}, []string{"c0", "c1"}
	n := 18
	for i := 0; i < n; i++ {
		u := fmt.Sprintf("00000000-0000-4000-8000-%012d", i)
		if err := rc.Create(u, &huntReadersRow{UUID: u, Name: fmt.Sprintf("n%d", i), Zone: zones[i%3], Class: classes[i%2]}, true); err != nil {
			t.Fatal(err)
		}
	}
	count := func(conds ...ovsdb.Condition) int {
		res, err := rc.RowsByCondition(conds)
		if err != nil {
			t.Errorf("RowsByCondition(%v): %v", conds, err)
		}
		return len(res)
	}
	eq := func(col, v string) ovsdb.Condition {
		return ovsdb.Condition{Column: col, Function: ovsdb.ConditionEqual, Value: v}
	}
	var wg sync.WaitGroup
	for g := 0; g < 8; g++ {
		g := g
		wg.Add(1)
		go func() {
			defer wg.Done()
			for k := 0; k < 200; k++ {
				z, c := zones[(g+k)%3], classes[k%2]
				if got := count(eq("zone", z), eq("class", c)); got != 3 {
					t.Errorf("zone == %s and class == %s selects %d rows, a scan 3", z, c, got)
					return
				}
				_, _ = rc.RowsByModels([]model.Model{&huntReadersRow{Zone: z}})
				_, _ = rc.Index("zone")
				_ = rc.Rows()
			}
		}()
	}
	wg.Wait()
	for _, z := range zones {
		if got := count(eq("zone", z)); got != n/3 {
			t.Errorf("after the readers: zone == %s selects %d rows through its index, a scan %d", z, got, n/3)
		}
	}
	for _, c := range classes {
		if got := count(eq("class", c)); got != n/2 {
			t.Errorf("after the readers: class == %s selects %d rows through its index, a scan %d", c, got, n/2)
		}
	}
}
