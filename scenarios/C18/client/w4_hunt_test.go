package client

import (
	"context"
	"encoding/json"
	"fmt"
	"math/rand"
	"net"
	"os"
	"strings"
	"sync"
	"testing"
	"time"

	"github.com/cenkalti/backoff/v4"
	"github.com/go-logr/logr"
	"github.com/ovn-org/libovsdb/ovsdb"
	"github.com/ovn-org/libovsdb/ovsdb/serverdb"
)

// ---------------------------------------------------------------------------
// A scriptable OVSDB peer: a JSON-RPC endpoint on a unix socket whose answer
// to every method is decided by the test (answer, answer late, answer with an
// error, never answer, stop reading).
// ---------------------------------------------------------------------------

type huntW4Req struct {
	Method string          `json:"method"`
	Params json.RawMessage `json:"params"`
	ID     interface{}     `json:"id"`
}

type huntW4Conn struct {
	net.Conn
	wmu sync.Mutex
}

func (c *huntW4Conn) reply(id interface{}, result interface{}, errv interface{}) {
	c.wmu.Lock()
	defer c.wmu.Unlock()
	b, _ := json.Marshal(map[string]interface{}{"id": id, "result": result, "error": errv})
	_, _ = c.Write(b)
}

// huntW4Action tells the fake peer what to do with a request
type huntW4Action struct {
	result  interface{}
	err     interface{}
	delay   time.Duration
	silent  bool // never answer
	stopAll bool // stop reading from the connection altogether (and never answer)
}

type huntW4Peer struct {
	t       *testing.T
	ln      net.Listener
	sock    string
	mu      sync.Mutex
	conns   []*huntW4Conn
	script  func(req huntW4Req) *huntW4Action // nil result: default behaviour
	seen    map[string]int
	release chan struct{}
}

func newHuntW4Peer(t *testing.T, script func(req huntW4Req) *huntW4Action) *huntW4Peer {
	sock := fmt.Sprintf("/tmp/hunt-c18-%d-%d.sock", os.Getpid(), rand.Intn(1000000))
	_ = os.Remove(sock)
	ln, err := net.Listen("unix", sock)
	if err != nil {
		t.Fatal(err)
	}
	p := &huntW4Peer{t: t, ln: ln, sock: sock, script: script, seen: map[string]int{}, release: make(chan struct{})}
	t.Cleanup(p.close)
	go p.accept()
	return p
}

func (p *huntW4Peer) endpoint() string { return "unix:" + p.sock }

func (p *huntW4Peer) count(method string) int {
	p.mu.Lock()
	defer p.mu.Unlock()
	return p.seen[method]
}

func (p *huntW4Peer) close() {
	p.mu.Lock()
	defer p.mu.Unlock()
	select {
	case <-p.release:
	default:
		close(p.release)
	}
	p.ln.Close()
	for _, c := range p.conns {
		c.Close()
	}
	_ = os.Remove(p.sock)
}

// dropConns closes the connections accepted so far (the listener stays)
func (p *huntW4Peer) dropConns() {
	p.mu.Lock()
	defer p.mu.Unlock()
	for _, c := range p.conns {
		c.Close()
	}
	p.conns = nil
}

func (p *huntW4Peer) accept() {
	for {
		c, err := p.ln.Accept()
		if err != nil {
			return
		}
		hc := &huntW4Conn{Conn: c}
		p.mu.Lock()
		p.conns = append(p.conns, hc)
		p.mu.Unlock()
		go p.serve(hc)
	}
}

func huntW4SchemaOf(db string) interface{} {
	if db == serverDB {
		return serverdb.Schema()
	}
	var s ovsdb.DatabaseSchema
	if err := json.Unmarshal([]byte(schema), &s); err != nil {
		panic(err)
	}
	return s
}

func (p *huntW4Peer) serve(c *huntW4Conn) {
	dec := json.NewDecoder(c)
	for {
		var req huntW4Req
		if err := dec.Decode(&req); err != nil {
			return
		}
		if req.Method == "" {
			// a reply of the client to one of our requests
			continue
		}
		p.mu.Lock()
		p.seen[req.Method]++
		p.mu.Unlock()
		var act *huntW4Action
		if p.script != nil {
			act = p.script(req)
		}
		if act == nil {
			act = &huntW4Action{}
			switch req.Method {
			case "list_dbs":
				act.result = []string{"Open_vSwitch", serverDB}
			case "get_schema":
				var args []string
				_ = json.Unmarshal(req.Params, &args)
				act.result = huntW4SchemaOf(args[0])
			case "echo":
				var args []interface{}
				_ = json.Unmarshal(req.Params, &args)
				act.result = args
			case "transact":
				act.result = []interface{}{map[string]interface{}{"rows": []interface{}{}}}
			case "monitor", "monitor_cond":
				act.result = map[string]interface{}{}
			case "monitor_cond_since":
				act.result = []interface{}{false, "00000000-0000-0000-0000-000000000000", map[string]interface{}{}}
			case "monitor_cancel":
				act.result = map[string]interface{}{}
			default:
				act.err = "unknown method"
			}
		}
		if act.stopAll {
			// keep the connection open, never read again
			<-p.release
			return
		}
		if act.silent {
			continue
		}
		if act.delay > 0 {
			go func(id interface{}, act *huntW4Action) {
				select {
				case <-time.After(act.delay):
				case <-p.release:
					return
				}
				c.reply(id, act.result, act.err)
			}(req.ID, act)
			continue
		}
		c.reply(req.ID, act.result, act.err)
	}
}

func huntW4Client(t *testing.T, p *huntW4Peer, opts ...Option) *ovsdbClient {
	l := logr.Discard()
	opts = append([]Option{WithEndpoint(p.endpoint()), WithLogger(&l)}, opts...)
	cli, err := newOVSDBClient(defDB, opts...)
	if err != nil {
		t.Fatal(err)
	}
	return cli
}

// returned runs fn in a goroutine and says whether it came back within d
func huntW4Returned(d time.Duration, fn func()) (bool, time.Duration) {
	done := make(chan struct{})
	start := time.Now()
	go func() {
		defer close(done)
		fn()
	}()
	select {
	case <-done:
		return true, time.Since(start)
	case <-time.After(d):
		return false, time.Since(start)
	}
}

// ---------------------------------------------------------------------------
// 1. A Get that starts while the first Monitor of the client is in flight
//    waits for ever when that Monitor fails.
// ---------------------------------------------------------------------------

func TestHuntGetDuringFailingFirstMonitorWaitsForEver(t *testing.T) {
	p := newHuntW4Peer(t, func(req huntW4Req) *huntW4Action {
		if strings.HasPrefix(req.Method, "monitor") && req.Method != "monitor_cancel" {
			// the peer refuses the monitor, after a little while
			return &huntW4Action{err: "permission denied", delay: 300 * time.Millisecond}
		}
		return nil
	})
	cli := huntW4Client(t, p)
	if err := cli.Connect(context.Background()); err != nil {
		t.Fatal(err)
	}
	defer cli.Close()

	monErr := make(chan error, 1)
	go func() {
		_, err := cli.Monitor(context.Background(), cli.NewMonitor(WithTable(&Bridge{})))
		monErr <- err
	}()
	// the monitor request is on the wire and unanswered
	deadline := time.Now().Add(2 * time.Second)
	for p.count("monitor_cond_since") == 0 && time.Now().Before(deadline) {
		time.Sleep(5 * time.Millisecond)
	}

	getCtx, cancelGet := context.WithCancel(context.Background())
	defer cancelGet()
	var getErr error
	getDone := make(chan struct{})
	go func() {
		defer close(getDone)
		getErr = cli.Get(getCtx, &Bridge{Name: "br-int"})
	}()

	select {
	case err := <-monErr:
		if err == nil {
			t.Fatal("the monitor was expected to fail")
		}
		t.Logf("Monitor failed as scripted: %v", err)
	case <-time.After(5 * time.Second):
		t.Fatal("Monitor did not return")
	}

	// control: a Get that starts now returns at once (no monitor, nothing to wait for)
	ok, took := huntW4Returned(2*time.Second, func() { _ = cli.Get(context.Background(), &Bridge{Name: "br-int"}) })
	if !ok {
		t.Fatalf("control: a Get started after the failed Monitor did not return within %v", took)
	}
	t.Logf("control: a Get started after the failed Monitor returned after %v", took)

	select {
	case <-getDone:
		t.Logf("Get returned: %v", getErr)
	case <-time.After(3 * time.Second):
		t.Errorf("expected: the Get (context.Background()) that was started while the first Monitor was in flight returns once that Monitor has failed "+
			"(the client has no monitor: a Get started afterwards returned after %v); "+
			"got: it is still waiting 3s after the Monitor returned its error - it waits for a cache consistency that nothing will ever declare", took)
	}
}

// ---------------------------------------------------------------------------
// 2. Connect(ctx) of a leader-only client does not look at ctx while it sets
//    up the _Server monitor.
// ---------------------------------------------------------------------------

func TestHuntConnectLeaderOnlyIgnoresContext(t *testing.T) {
	p := newHuntW4Peer(t, func(req huntW4Req) *huntW4Action {
		if req.Method == "monitor_cond" {
			// the _Server monitor of the leadership watch: never answered
			return &huntW4Action{silent: true}
		}
		return nil
	})
	cli := huntW4Client(t, p, WithLeaderOnly(true))
	ctx, cancel := context.WithTimeout(context.Background(), 300*time.Millisecond)
	defer cancel()
	var err error
	ok, took := huntW4Returned(3*time.Second, func() { err = cli.Connect(ctx) })
	if !ok {
		t.Errorf("expected: Connect(ctx) with a 300ms deadline returns (an error) shortly after the deadline when the peer does not answer the monitor request of the leadership watch; "+
			"got: still blocked after %v (the request is made with context.Background())", took)
		return
	}
	t.Logf("Connect returned after %v: %v", took, err)
}

// ---------------------------------------------------------------------------
// 3. A call whose context expires reads the reply buffer the read loop may
//    still be filling: data race (run with -race).
// ---------------------------------------------------------------------------

func TestHuntEchoReadsReplyAfterContextExpired(t *testing.T) {
	p := newHuntW4Peer(t, func(req huntW4Req) *huntW4Action {
		if req.Method == "echo" {
			var args []interface{}
			_ = json.Unmarshal(req.Params, &args)
			return &huntW4Action{result: args, delay: 150 * time.Millisecond}
		}
		return nil
	})
	cli := huntW4Client(t, p)
	if err := cli.Connect(context.Background()); err != nil {
		t.Fatal(err)
	}
	defer cli.Close()
	for i := 0; i < 5; i++ {
		ctx, cancel := context.WithTimeout(context.Background(), 50*time.Millisecond)
		err := cli.Echo(ctx)
		cancel()
		t.Logf("Echo: %v", err)
		time.Sleep(200 * time.Millisecond)
	}
}

func TestHuntMonitorReadsReplyAfterContextExpired(t *testing.T) {
	p := newHuntW4Peer(t, func(req huntW4Req) *huntW4Action {
		if req.Method == "monitor_cond_since" {
			return &huntW4Action{result: []interface{}{false, "00000000-0000-0000-0000-000000000000", map[string]interface{}{}}, delay: 150 * time.Millisecond}
		}
		return nil
	})
	cli := huntW4Client(t, p)
	if err := cli.Connect(context.Background()); err != nil {
		t.Fatal(err)
	}
	defer cli.Close()
	for i := 0; i < 5; i++ {
		ctx, cancel := context.WithTimeout(context.Background(), 50*time.Millisecond)
		_, err := cli.Monitor(ctx, cli.NewMonitor(WithTable(&Bridge{})))
		cancel()
		t.Logf("Monitor: %v", err)
		time.Sleep(200 * time.Millisecond)
	}
}

// ---------------------------------------------------------------------------
// 4. Calls wait for the client locks without looking at their context.
// ---------------------------------------------------------------------------

func TestHuntEchoBehindPendingDisconnect(t *testing.T) {
	p := newHuntW4Peer(t, func(req huntW4Req) *huntW4Action {
		if req.Method == "transact" {
			return &huntW4Action{silent: true}
		}
		return nil
	})
	cli := huntW4Client(t, p)
	if err := cli.Connect(context.Background()); err != nil {
		t.Fatal(err)
	}
	// a transaction the peer takes its time for (here: for ever), with a generous deadline
	tctx, tcancel := context.WithTimeout(context.Background(), 5*time.Second)
	defer tcancel()
	go func() {
		comment := "slow"
		_, _ = cli.Transact(tctx, ovsdb.Operation{Op: ovsdb.OperationComment, Comment: &comment})
	}()
	deadline := time.Now().Add(2 * time.Second)
	for p.count("transact") == 0 && time.Now().Before(deadline) {
		time.Sleep(5 * time.Millisecond)
	}
	// the application gives up on the connection
	disconnected := make(chan struct{})
	go func() {
		cli.Disconnect()
		close(disconnected)
	}()
	time.Sleep(100 * time.Millisecond)
	select {
	case <-disconnected:
		t.Log("Disconnect returned while the transaction was in flight")
	default:
		t.Log("Disconnect is waiting for the transaction in flight")
	}

	ectx, ecancel := context.WithTimeout(context.Background(), 200*time.Millisecond)
	defer ecancel()
	var err error
	ok, took := huntW4Returned(2*time.Second, func() { err = cli.Echo(ectx) })
	if !ok {
		t.Errorf("expected: Echo(ctx) with a 200ms deadline returns (a result or an error) shortly after its deadline; "+
			"got: still blocked after %v, behind a Disconnect that waits for a Transact in flight whose own deadline is 5s away", took)
		return
	}
	t.Logf("Echo returned after %v: %v", took, err)
}

func TestHuntMonitorBehindMonitorInFlight(t *testing.T) {
	p := newHuntW4Peer(t, func(req huntW4Req) *huntW4Action {
		if req.Method == "monitor_cond_since" {
			return &huntW4Action{silent: true}
		}
		return nil
	})
	cli := huntW4Client(t, p)
	if err := cli.Connect(context.Background()); err != nil {
		t.Fatal(err)
	}
	defer cli.Close()
	m1ctx, m1cancel := context.WithTimeout(context.Background(), 5*time.Second)
	defer m1cancel()
	go func() {
		_, _ = cli.Monitor(m1ctx, cli.NewMonitor(WithTable(&Bridge{})))
	}()
	deadline := time.Now().Add(2 * time.Second)
	for p.count("monitor_cond_since") == 0 && time.Now().Before(deadline) {
		time.Sleep(5 * time.Millisecond)
	}
	time.Sleep(50 * time.Millisecond)

	ctx, cancel := context.WithTimeout(context.Background(), 200*time.Millisecond)
	defer cancel()
	var err error
	ok, took := huntW4Returned(2*time.Second, func() {
		_, err = cli.Monitor(ctx, cli.NewMonitor(WithTable(&OpenvSwitch{})))
	})
	if !ok {
		t.Errorf("expected: Monitor(ctx) with a 200ms deadline returns shortly after its deadline; "+
			"got: still blocked after %v behind another Monitor in flight whose own deadline is 5s away (monitorsMutex is taken without looking at ctx)", took)
	} else {
		t.Logf("second Monitor returned after %v: %v", took, err)
	}

	cctx, ccancel := context.WithTimeout(context.Background(), 200*time.Millisecond)
	defer ccancel()
	var cerr error
	ok, took = huntW4Returned(2*time.Second, func() {
		cerr = cli.MonitorCancel(cctx, newMonitorCookie("Open_vSwitch"))
	})
	if !ok {
		t.Errorf("expected: MonitorCancel(ctx) with a 200ms deadline returns shortly after its deadline; "+
			"got: still blocked after %v (its request was answered at once; it then waits for monitorsMutex, which the Monitor in flight holds)", took)
	} else {
		t.Logf("MonitorCancel returned after %v: %v", took, cerr)
	}
}

// ---------------------------------------------------------------------------
// 5. A peer that stops reading: the request is written without looking at
//    the context.
// ---------------------------------------------------------------------------

func TestHuntTransactToPeerThatStoppedReading(t *testing.T) {
	stop := false
	var mu sync.Mutex
	p := newHuntW4Peer(t, func(req huntW4Req) *huntW4Action {
		mu.Lock()
		defer mu.Unlock()
		if stop {
			return &huntW4Action{stopAll: true}
		}
		return nil
	})
	cli := huntW4Client(t, p)
	if err := cli.Connect(context.Background()); err != nil {
		t.Fatal(err)
	}
	mu.Lock()
	stop = true
	mu.Unlock()
	// the first request from now on makes the peer stop reading (a stopped or
	// wedged ovsdb-server); the ones after it fill the socket buffers
	big := strings.Repeat("x", 4<<20)
	var err error
	ok, took := huntW4Returned(3*time.Second, func() {
		for i := 0; i < 3; i++ {
			ctx, cancel := context.WithTimeout(context.Background(), 300*time.Millisecond)
			_, err = cli.Transact(ctx, ovsdb.Operation{Op: ovsdb.OperationComment, Comment: &big})
			cancel()
		}
	})
	if !ok {
		t.Errorf("expected: three Transact(ctx) calls with a 300ms deadline each return (context deadline exceeded) within about a second; "+
			"got: still blocked after %v writing the request to a peer that stopped reading", took)
		return
	}
	t.Logf("Transact returned after %v: %v", took, err)
}

func TestHuntTransactWhileReconnectingToHungEndpoint(t *testing.T) {
	var mu sync.Mutex
	hang := false
	p := newHuntW4Peer(t, func(req huntW4Req) *huntW4Action {
		mu.Lock()
		defer mu.Unlock()
		if hang {
			// the server came back wedged: it accepts connections and answers nothing
			return &huntW4Action{silent: true}
		}
		return nil
	})
	cli := huntW4Client(t, p, WithReconnect(5*time.Second, &backoff.ZeroBackOff{}))
	if err := cli.Connect(context.Background()); err != nil {
		t.Fatal(err)
	}
	defer cli.Close()
	mu.Lock()
	hang = true
	mu.Unlock()
	p.dropConns()
	// the client notices and starts reconnecting
	deadline := time.Now().Add(3 * time.Second)
	for p.count("list_dbs") < 2 && time.Now().Before(deadline) {
		time.Sleep(5 * time.Millisecond)
	}
	if p.count("list_dbs") < 2 {
		t.Fatal("the client did not try to reconnect")
	}
	ctx, cancel := context.WithTimeout(context.Background(), 200*time.Millisecond)
	defer cancel()
	var err error
	ok, took := huntW4Returned(2*time.Second, func() {
		comment := "x"
		_, err = cli.Transact(ctx, ovsdb.Operation{Op: ovsdb.OperationComment, Comment: &comment})
	})
	if !ok {
		t.Errorf("expected: Transact(ctx) with a 200ms deadline on a client that is reconnecting returns (context deadline exceeded: while awaiting reconnection) shortly after its deadline; "+
			"got: still blocked after %v - the reconnect attempt holds rpcMutex for writing for the whole reconnect timeout (5s) and Transact takes it for reading without looking at ctx", took)
		return
	}
	t.Logf("Transact returned after %v: %v", took, err)
}

// ---------------------------------------------------------------------------
// 6. Reading through a client whose Connect failed panics instead of
//    returning an error.
// ---------------------------------------------------------------------------

func TestHuntGetAfterFailedConnectPanics(t *testing.T) {
	l := logr.Discard()
	cli, err := newOVSDBClient(defDB, WithEndpoint("unix:/tmp/hunt-c18-no-such-socket"), WithLogger(&l))
	if err != nil {
		t.Fatal(err)
	}
	ctx, cancel := context.WithTimeout(context.Background(), time.Second)
	defer cancel()
	if err := cli.Connect(ctx); err == nil {
		t.Fatal("Connect was expected to fail")
	}
	for name, fn := range map[string]func() error{
		"Get":   func() error { return cli.Get(ctx, &Bridge{Name: "br-int"}) },
		"List":  func() error { var l []Bridge; return cli.List(ctx, &l) },
		"Where": func() error { var l []Bridge; return cli.Where(&Bridge{Name: "br-int"}).List(ctx, &l) },
	} {
		func() {
			defer func() {
				if r := recover(); r != nil {
					t.Errorf("expected: %s on a client whose Connect failed returns an error (as Transact, Echo, Monitor do: %v); got: panic: %v", name, ErrNotConnected, r)
				}
			}()
			err := fn()
			t.Logf("%s returned %v", name, err)
		}()
	}
}
