package client

import (
	"context"
	"encoding/json"
	"fmt"
	"math/rand"
	"net"
	"os"
	"sync"
	"sync/atomic"
	"testing"
	"time"

	"github.com/cenkalti/backoff/v4"
	"github.com/go-logr/logr"
)

// huntServer is a scripted OVSDB peer: it answers list_dbs, get_schema and
// echo by itself and hands every other request to the script of the test.
type huntServer struct {
	t        *testing.T
	path     string
	listener net.Listener
	mu       sync.Mutex
	conns    []*huntConn
	// script is called (on the connection's read goroutine) for every request
	// other than list_dbs, get_schema and echo
	script func(c *huntConn, method string, id json.RawMessage, params []json.RawMessage)
	// schemaDelay, when set, is called before get_schema is answered
	schemaDelay func()
	accepted    chan *huntConn
	// silent, when not zero, makes the server read and ignore everything
	silent int32
}

type huntConn struct {
	conn net.Conn
	wmu  sync.Mutex
}

type huntMsg struct {
	Method string            `json:"method,omitempty"`
	Params []json.RawMessage `json:"params,omitempty"`
	ID     json.RawMessage   `json:"id"`
}

func (c *huntConn) sendRaw(s string) {
	c.wmu.Lock()
	defer c.wmu.Unlock()
	_, _ = c.conn.Write([]byte(s))
}

func (c *huntConn) reply(id json.RawMessage, result string) {
	c.sendRaw(fmt.Sprintf(`{"id":%s,"result":%s,"error":null}`, string(id), result))
}

func (c *huntConn) replyError(id json.RawMessage, msg string) {
	c.sendRaw(fmt.Sprintf(`{"id":%s,"result":null,"error":%q}`, string(id), msg))
}

func (c *huntConn) notify(method string, params string) {
	c.sendRaw(fmt.Sprintf(`{"id":null,"method":%q,"params":%s}`, method, params))
}

func newHuntServer(t *testing.T) *huntServer {
	path := fmt.Sprintf("/tmp/hunt-%d-%d.sock", os.Getpid(), rand.Intn(1000000))
	_ = os.Remove(path)
	l, err := net.Listen("unix", path)
	if err != nil {
		t.Fatal(err)
	}
	s := &huntServer{t: t, path: path, listener: l, accepted: make(chan *huntConn, 16)}
	t.Cleanup(func() {
		l.Close()
		s.mu.Lock()
		for _, c := range s.conns {
			c.conn.Close()
		}
		s.mu.Unlock()
		os.Remove(path)
	})
	go func() {
		for {
			conn, err := l.Accept()
			if err != nil {
				return
			}
			hc := &huntConn{conn: conn}
			s.mu.Lock()
			s.conns = append(s.conns, hc)
			s.mu.Unlock()
			select {
			case s.accepted <- hc:
			default:
			}
			go s.serve(hc)
		}
	}()
	return s
}

func (s *huntServer) endpoint() string { return "unix:" + s.path }

func (s *huntServer) serve(c *huntConn) {
	dec := json.NewDecoder(c.conn)
	for {
		var m huntMsg
		if err := dec.Decode(&m); err != nil {
			return
		}
		if m.Method == "" || atomic.LoadInt32(&s.silent) != 0 {
			// a reply of the client to one of our notifications, or the
			// server plays dead
			continue
		}
		switch m.Method {
		case "list_dbs":
			c.reply(m.ID, `["Open_vSwitch"]`)
		case "get_schema":
			if s.schemaDelay != nil {
				s.schemaDelay()
			}
			c.reply(m.ID, schema)
		case "echo":
			b, _ := json.Marshal(m.Params)
			c.reply(m.ID, string(b))
		default:
			s.mu.Lock()
			script := s.script
			s.mu.Unlock()
			if script != nil {
				script(c, m.Method, m.ID, m.Params)
			}
		}
	}
}

func (s *huntServer) setScript(f func(c *huntConn, method string, id json.RawMessage, params []json.RawMessage)) {
	s.mu.Lock()
	s.script = f
	s.mu.Unlock()
}

func huntQuietLogger() Option {
	l := logr.Discard()
	return WithLogger(&l)
}

// returnsWithin runs f and reports whether it returned within d
func returnsWithin(d time.Duration, f func()) bool {
	done := make(chan struct{})
	go func() {
		defer close(done)
		f()
	}()
	select {
	case <-done:
		return true
	case <-time.After(d):
		return false
	}
}

// TestHuntTwoInconsistentUpdatesBlockCallsForGood: the server sends two
// notifications the cache cannot apply (changes of a row the cache does not
// hold) and then the reply to a Transact that is in flight. The consumer of
// the error channel takes the first error and calls Disconnect(), which waits
// for the Transact in flight (rpcMutex); the read loop blocks handing over the
// second error (errorCh has no buffer and its only consumer is busy) and never
// reads the reply the Transact waits for.
func TestHuntTwoInconsistentUpdatesBlockCallsForGood(t *testing.T) {
	srv := newHuntServer(t)
	var cookie string
	transactSeen := make(chan struct{}, 1)
	srv.setScript(func(c *huntConn, method string, id json.RawMessage, params []json.RawMessage) {
		switch method {
		case "monitor_cond_since":
			// a server that predates monitor_cond_since
			c.replyError(id, "unknown method")
		case "monitor_cond":
			cookie = string(params[1])
			c.reply(id, `{}`)
		case "transact":
			// two changes of a row the client was never told about, by other
			// clients, were committed before this transaction
			for i := 0; i < 2; i++ {
				c.notify("update2", fmt.Sprintf(
					`[%s,{"Bridge":{"%s":{"modify":{"name":"br%d"}}}}]`,
					cookie, aUUID0, i))
			}
			c.reply(id, `[{"uuid":["uuid","`+aUUID1+`"]}]`)
			transactSeen <- struct{}{}
		}
	})

	cli, err := newOVSDBClient(defDB, WithEndpoint(srv.endpoint()), huntQuietLogger())
	if err != nil {
		t.Fatal(err)
	}
	if err := cli.Connect(context.Background()); err != nil {
		t.Fatal(err)
	}
	if _, err := cli.Monitor(context.Background(), cli.NewMonitor(WithTable(&Bridge{}))); err != nil {
		t.Fatal(err)
	}

	ops, err := cli.Create(&Bridge{Name: "mine"})
	if err != nil {
		t.Fatal(err)
	}
	transactDone := make(chan error, 1)
	go func() {
		_, err := cli.Transact(context.Background(), ops...)
		transactDone <- err
	}()
	<-transactSeen

	// the server has answered the transaction: the call must return, with the
	// result or, the connection being dropped to rebuild the cache, an error
	select {
	case err := <-transactDone:
		t.Logf("Transact returned: %v", err)
	case <-time.After(3 * time.Second):
		t.Errorf("expected Transact(context.Background()) to return once the server has replied to it; " +
			"3s after the reply was sent it is still blocked (read loop stuck on errorCh, " +
			"error consumer stuck in Disconnect() behind the Transact)")
	}

	// a call with a deadline must return when the deadline passes
	ctx, cancel := context.WithTimeout(context.Background(), 200*time.Millisecond)
	defer cancel()
	if !returnsWithin(3*time.Second, func() { _ = cli.Echo(ctx) }) {
		t.Errorf("expected Echo(ctx with a 200ms deadline) to return by its deadline; still blocked after 3s " +
			"(it waits for rpcMutex behind the Disconnect() of the error consumer)")
	}
}

// TestHuntMonitorAllReadsModelUnlocked (run with -race): MonitorAll reads
// db.model without modelMutex, while the reconnect the client does on its own
// after a connection loss replaces db.model (under modelMutex) in tryEndpoint.
func TestHuntMonitorAllReadsModelUnlocked(t *testing.T) {
	srv := newHuntServer(t)
	var schemas int32
	inSchema := make(chan struct{}, 1)
	srv.schemaDelay = func() {
		if atomic.AddInt32(&schemas, 1) == 2 {
			// the reconnect is under way: let the test call MonitorAll now
			inSchema <- struct{}{}
			time.Sleep(300 * time.Millisecond)
		}
	}
	srv.setScript(func(c *huntConn, method string, id json.RawMessage, params []json.RawMessage) {
		if method == "monitor_cond_since" {
			c.reply(id, `[false,"00000000-0000-0000-0000-000000000000",{}]`)
		}
	})
	cli, err := newOVSDBClient(defDB, WithEndpoint(srv.endpoint()), huntQuietLogger(),
		WithReconnect(2*time.Second, &backoff.ZeroBackOff{}))
	if err != nil {
		t.Fatal(err)
	}
	if err := cli.Connect(context.Background()); err != nil {
		t.Fatal(err)
	}
	defer cli.Close()

	// the connection is dropped; the client reconnects on its own
	cli.Disconnect()
	select {
	case <-inSchema:
	case <-time.After(5 * time.Second):
		t.Fatal("client did not reconnect")
	}
	ctx, cancel := context.WithTimeout(context.Background(), 3*time.Second)
	defer cancel()
	_, err = cli.MonitorAll(ctx)
	t.Logf("MonitorAll: %v (the race detector reports the unlocked read of db.model)", err)
}

// TestHuntWhereReadsAPIUnlocked (run with -race): Where/WhereAll/WhereCache/
// Create read db.api without any lock, while Connect() after a Close() (or a
// connection loss without the reconnect option) replaces db.api under
// cacheMutex in tryEndpoint.
func TestHuntWhereReadsAPIUnlocked(t *testing.T) {
	srv := newHuntServer(t)
	var schemas int32
	inSchema := make(chan struct{}, 1)
	srv.schemaDelay = func() {
		if atomic.AddInt32(&schemas, 1) == 2 {
			inSchema <- struct{}{}
			time.Sleep(300 * time.Millisecond)
		}
	}
	cli, err := newOVSDBClient(defDB, WithEndpoint(srv.endpoint()), huntQuietLogger())
	if err != nil {
		t.Fatal(err)
	}
	if err := cli.Connect(context.Background()); err != nil {
		t.Fatal(err)
	}
	cli.Close()
	// wait for the clean-up that follows the loss of the connection
	for start := time.Now(); cli.Cache() != nil; time.Sleep(10 * time.Millisecond) {
		if time.Since(start) > 5*time.Second {
			t.Fatal("Close() did not clear the client's state")
		}
	}
	time.Sleep(100 * time.Millisecond)

	connected := make(chan error, 1)
	go func() { connected <- cli.Connect(context.Background()) }()
	select {
	case <-inSchema:
	case <-time.After(5 * time.Second):
		t.Fatal("second Connect did not ask for the schema")
	}
	// another goroutine of the application prepares operations meanwhile
	cond := cli.Where(&Bridge{Name: "br0"})
	if err := <-connected; err != nil {
		t.Fatal(err)
	}
	_, err = cond.Delete()
	t.Logf("Where().Delete(): %v (the race detector reports the unlocked read of db.api in Where)", err)
	cli.Close()
}

// TestHuntGetIgnoresContextWhileMonitorPending: Get and List start with
// hasMonitors(), which takes monitorsMutex; Monitor() holds that mutex for the
// whole round trip of its request. A Get with a short deadline therefore
// returns only when the Monitor() of another goroutine does.
func TestHuntGetIgnoresContextWhileMonitorPending(t *testing.T) {
	srv := newHuntServer(t)
	monitorSeen := make(chan struct{}, 1)
	srv.setScript(func(c *huntConn, method string, id json.RawMessage, params []json.RawMessage) {
		if method == "monitor_cond_since" {
			// a large database: the initial contents take a while
			monitorSeen <- struct{}{}
			time.Sleep(3 * time.Second)
			c.reply(id, `[false,"00000000-0000-0000-0000-000000000000",{}]`)
		}
	})
	cli, err := newOVSDBClient(defDB, WithEndpoint(srv.endpoint()), huntQuietLogger())
	if err != nil {
		t.Fatal(err)
	}
	if err := cli.Connect(context.Background()); err != nil {
		t.Fatal(err)
	}
	defer cli.Close()
	go func() {
		_, _ = cli.Monitor(context.Background(), cli.NewMonitor(WithTable(&Bridge{})))
	}()
	<-monitorSeen

	ctx, cancel := context.WithTimeout(context.Background(), 200*time.Millisecond)
	defer cancel()
	start := time.Now()
	err = cli.Get(ctx, &Bridge{UUID: aUUID0})
	if d := time.Since(start); d > 1500*time.Millisecond {
		t.Errorf("expected Get with a 200ms deadline to return (result or error) shortly after its deadline; "+
			"it returned %v after %v, when the Monitor() of the other goroutine got its reply", err, d)
	}
	var bridges []Bridge
	ctx2, cancel2 := context.WithTimeout(context.Background(), 200*time.Millisecond)
	defer cancel2()
	_ = cli.List(ctx2, &bridges)
}

// TestHuntGetBlocksAfterFirstMonitorFailed: the first Monitor() of a client
// fails while its reply is put into the cache. The monitor stays registered
// (db.monitors) and deferUpdates stays true, so every later Get/List waits for
// a cache that never becomes consistent: until its deadline, or for good with
// a context that has none.
func TestHuntGetBlocksAfterFirstMonitorFailed(t *testing.T) {
	srv := newHuntServer(t)
	srv.setScript(func(c *huntConn, method string, id json.RawMessage, params []json.RawMessage) {
		if method == "monitor_cond_since" {
			// contents the cache refuses: a row without an update
			c.reply(id, `[false,"00000000-0000-0000-0000-000000000000",{"Bridge":{"`+aUUID0+`":null}}]`)
		}
	})
	cli, err := newOVSDBClient(defDB, WithEndpoint(srv.endpoint()), huntQuietLogger())
	if err != nil {
		t.Fatal(err)
	}
	if err := cli.Connect(context.Background()); err != nil {
		t.Fatal(err)
	}
	defer cli.Close()

	// before the failed call a read of the cache returns at once
	if !returnsWithin(time.Second, func() { _ = cli.Get(context.Background(), &Bridge{UUID: aUUID0}) }) {
		t.Fatal("Get blocked before any monitor")
	}
	_, err = cli.Monitor(context.Background(), cli.NewMonitor(WithTable(&Bridge{})))
	if err == nil {
		t.Fatal("expected the monitor to fail")
	}
	t.Logf("Monitor failed as intended: %v", err)
	if !returnsWithin(3*time.Second, func() { _ = cli.Get(context.Background(), &Bridge{UUID: aUUID0}) }) {
		t.Errorf("expected Get(context.Background()) to return (ErrNotFound) after the only Monitor() call failed; " +
			"it is still blocked after 3s: the failed monitor is registered and deferUpdates was left set")
	}
}

// TestHuntPendingDisconnectDefeatsInactivityProbe: the peer goes silent while
// a Transact is in flight. The inactivity probe is meant to close the
// connection without waiting for the calls in flight (they hold rpcMutex for
// reading), but sendEcho() and dropConnection() take the read lock themselves:
// once any writer waits for rpcMutex (Disconnect, Close, MonitorCancel, ...)
// the probe queues behind it and the client hangs for good.
func TestHuntPendingDisconnectDefeatsInactivityProbe(t *testing.T) {
	for _, withDisconnect := range []bool{false, true} {
		withDisconnect := withDisconnect
		t.Run(fmt.Sprintf("Disconnect=%v", withDisconnect), func(t *testing.T) {
			srv := newHuntServer(t)
			cli, err := newOVSDBClient(defDB, WithEndpoint(srv.endpoint()), huntQuietLogger(),
				WithInactivityCheck(500*time.Millisecond, time.Second, &backoff.ZeroBackOff{}))
			if err != nil {
				t.Fatal(err)
			}
			if err := cli.Connect(context.Background()); err != nil {
				t.Fatal(err)
			}
			ops, err := cli.Create(&Bridge{Name: "mine"})
			if err != nil {
				t.Fatal(err)
			}
			atomic.StoreInt32(&srv.silent, 1)
			transactDone := make(chan error, 1)
			go func() {
				_, err := cli.Transact(context.Background(), ops...)
				transactDone <- err
			}()
			time.Sleep(100 * time.Millisecond)
			disconnectDone := make(chan struct{})
			if withDisconnect {
				// the application finds the server slow and wants a new connection
				go func() {
					cli.Disconnect()
					close(disconnectDone)
				}()
			} else {
				close(disconnectDone)
			}
			select {
			case err := <-transactDone:
				t.Logf("Transact returned: %v", err)
			case <-time.After(5 * time.Second):
				t.Errorf("expected the inactivity probe (500ms) to drop the silent connection and Transact to return with an error; still blocked after 5s")
			}
			select {
			case <-disconnectDone:
			case <-time.After(time.Second):
				t.Errorf("expected Disconnect() to return once the connection was dropped; still blocked")
			}
		})
	}
}

// TestHuntWaitGroupAddRacesWithWait (run with -race): connect() starts
// handleDisconnectNotification, which calls handlerShutdown.Wait(), before it
// calls handlerShutdown.Add() for the handlers it starts afterwards. Nothing
// orders the two when the peer drops the connection.
func TestHuntWaitGroupAddRacesWithWait(t *testing.T) {
	srv := newHuntServer(t)
	cli, err := newOVSDBClient(defDB, WithEndpoint(srv.endpoint()), huntQuietLogger())
	if err != nil {
		t.Fatal(err)
	}
	if err := cli.Connect(context.Background()); err != nil {
		t.Fatal(err)
	}
	// the peer closes the connection
	(<-srv.accepted).conn.Close()
	for start := time.Now(); cli.Cache() != nil; time.Sleep(10 * time.Millisecond) {
		if time.Since(start) > 5*time.Second {
			t.Fatal("the loss of the connection was not noticed")
		}
	}
}

// TestHuntCallsIgnoreContextWhileWaitingForRPCMutex: MonitorCancel holds
// rpcMutex for writing during the whole round trip of its request (connect()
// does the same during every reconnect attempt), and the other calls wait for
// the mutex without looking at their context.
func TestHuntCallsIgnoreContextWhileWaitingForRPCMutex(t *testing.T) {
	srv := newHuntServer(t)
	cancelSeen := make(chan struct{}, 1)
	srv.setScript(func(c *huntConn, method string, id json.RawMessage, params []json.RawMessage) {
		switch method {
		case "monitor_cond_since":
			c.reply(id, `[false,"00000000-0000-0000-0000-000000000000",{}]`)
		case "monitor_cancel":
			cancelSeen <- struct{}{}
			time.Sleep(3 * time.Second) // a busy server
			c.reply(id, `{}`)
		}
	})
	cli, err := newOVSDBClient(defDB, WithEndpoint(srv.endpoint()), huntQuietLogger())
	if err != nil {
		t.Fatal(err)
	}
	if err := cli.Connect(context.Background()); err != nil {
		t.Fatal(err)
	}
	defer cli.Close()
	cookie, err := cli.Monitor(context.Background(), cli.NewMonitor(WithTable(&Bridge{})))
	if err != nil {
		t.Fatal(err)
	}
	go func() { _ = cli.MonitorCancel(context.Background(), cookie) }()
	<-cancelSeen

	ops, err := cli.Create(&Bridge{Name: "mine"})
	if err != nil {
		t.Fatal(err)
	}
	ctx, cancel := context.WithTimeout(context.Background(), 200*time.Millisecond)
	defer cancel()
	start := time.Now()
	_, err = cli.Transact(ctx, ops...)
	if d := time.Since(start); d > 1500*time.Millisecond {
		t.Errorf("expected Transact with a 200ms deadline to return shortly after its deadline; "+
			"it returned (%v) after %v, when the MonitorCancel of the other goroutine was answered", err, d)
	}
}
