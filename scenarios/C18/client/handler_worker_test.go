// Scenario kept after the seeded change C18-6 (seeded/C18-6): an event handler that hands rows to a worker over an unbuffered
// channel while the worker uses the client (the pattern of example/play_with_ovs) must not stall the read loop: every call returns.

package client

import (
	"context"
	"encoding/json"
	"fmt"
	"sync/atomic"
	"testing"
	"time"

	"github.com/ovn-org/libovsdb/cache"
	"github.com/ovn-org/libovsdb/model"
	"github.com/ovn-org/libovsdb/ovsdb"
	"github.com/stretchr/testify/require"
)

// TestHuntEventHandlerWaitingOnWorkerDoesNotBlockClient uses the client the way
// example/play_with_ovs does: a cache event handler hands the rows of a table
// over an unbuffered channel to a worker, and the worker uses the client
// (Transact, List) to act on each row before it takes the next one.
//
// Two rows arrive in one notification, so while the worker acts on the first
// row the event processor sits in the handler with the second one. The
// notifications that arrive meanwhile must still be applied to the cache (the
// read loop never waits for event handlers), so the worker's Transact gets
// its reply and its List returns.
func TestHuntEventHandlerWaitingOnWorkerDoesNotBlockClient(t *testing.T) {
	var defSchema ovsdb.DatabaseSchema
	require.NoError(t, json.Unmarshal([]byte(schema), &defSchema))
	_, sock := newOVSDBServer(t, defDB, defSchema)

	cli, err := newOVSDBClient(defDB, WithEndpoint(fmt.Sprintf("unix:%s", sock)))
	require.NoError(t, err)
	require.NoError(t, cli.Connect(context.Background()))
	t.Cleanup(cli.Close)

	// the handler of the example: forward the bridges to a worker
	events := make(chan model.Model)
	var entered int32
	cli.Cache().AddEventHandler(&cache.EventHandlerFuncs{
		AddFunc: func(table string, m model.Model) {
			if table == "Bridge" {
				atomic.AddInt32(&entered, 1)
				events <- m
			}
		},
	})
	// whatever happens, let the handler go in the end so that the test can
	// be torn down
	defer func() {
		go func() {
			for range events {
			}
		}()
	}()

	_, err = cli.MonitorAll(context.Background())
	require.NoError(t, err)

	insert := func(ctx context.Context, names ...string) error {
		var ops []ovsdb.Operation
		for _, name := range names {
			op, err := cli.Create(&Bridge{Name: name})
			if err != nil {
				return err
			}
			ops = append(ops, op...)
		}
		reply, err := cli.Transact(ctx, ops...)
		if err != nil {
			return err
		}
		_, err = ovsdb.CheckOperationResults(reply, ops)
		return err
	}

	// the worker: it takes the first bridge, waits (it is a slow worker) until
	// the event processor is in the handler with the second one, and then acts
	// on the first: a transaction of its own and a look at the cache, both
	// with a deadline
	type workResult struct {
		transactErr error
		listErr     error
		bridges     []Bridge
	}
	transacted := make(chan error, 1)
	worked := make(chan workResult, 1)
	go func() {
		<-events
		for atomic.LoadInt32(&entered) < 2 {
			time.Sleep(5 * time.Millisecond)
		}
		var res workResult
		ctx, cancel := context.WithTimeout(context.Background(), 3*time.Second)
		res.transactErr = insert(ctx, "br3")
		cancel()
		transacted <- res.transactErr
		// (give the notification of br3 the time to reach the client, should
		// the reply have overtaken it)
		time.Sleep(300 * time.Millisecond)
		ctx, cancel = context.WithTimeout(context.Background(), 2*time.Second)
		res.listErr = cli.List(ctx, &res.bridges)
		cancel()
		worked <- res
		// the second bridge and the one the worker made itself
		<-events
		<-events
	}()

	// two bridges in one transaction: one notification, two add events
	ctx, cancel := context.WithTimeout(context.Background(), 5*time.Second)
	defer cancel()
	require.NoError(t, insert(ctx, "br1", "br2"))

	var transactErr error
	select {
	case transactErr = <-transacted:
	case <-time.After(10 * time.Second):
		t.Fatal("the worker's Transact (context deadline 3s) has not returned after 10s")
	}
	select {
	case res := <-worked:
		require.NoError(t, res.transactErr, "the worker's Transact must get its reply while an event handler is running")
		require.NoError(t, res.listErr)
		require.Len(t, res.bridges, 3, "the cache holds the three bridges")
	case <-time.After(8 * time.Second):
		t.Fatalf("List (context deadline 2s) has not returned after 8s: the client is stuck behind "+
			"an event handler that waits for its worker (the worker's Transact had returned: %v)", transactErr)
	}
}
