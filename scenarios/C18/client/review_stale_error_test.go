package client

import (
	"context"
	"fmt"
	"strings"
	"testing"
	"time"

	"github.com/cenkalti/backoff/v4"
	"github.com/go-logr/logr"
)

// Commit 498260b made errorCh a buffered channel (capacity 1) that the read
// loop fills without blocking. Nothing empties it when the connection goes
// away: an error of the OLD connection that is still in the buffer when the
// handlers stop (they leave through stopCh) is read by handleClientErrors of
// the NEXT connection, which then drops that fresh, healthy connection (and
// resets the transaction ids of all monitors) for an error it never had.
//
// Input: the peer sends a burst of update2 notifications that the cache
// refuses (modify of a row that is not there). Expected: the client reconnects
// ONCE to rebuild its cache and the new connection stays. Observed: the new
// connection is dropped by the client right after the monitors are restarted
// and a third connection is made.
func TestHuntReviewStaleCacheErrorDropsNextConnection(t *testing.T) {
	const attempts = 40
	for attempt := 0; attempt < attempts; attempt++ {
		if reviewStaleErrorAttempt(t, attempt) {
			return
		}
	}
	t.Logf("not reproduced in %d attempts", attempts)
}

// returns true when the defect showed (and the test has been failed)
func reviewStaleErrorAttempt(t *testing.T, attempt int) bool {
	srv := newReviewFakeServer(t)
	l := logr.Discard()
	ovs, err := newOVSDBClient(defDB,
		WithEndpoint(srv.endpoint()),
		WithLogger(&l),
		WithReconnect(2*time.Second, backoff.NewConstantBackOff(10*time.Millisecond)))
	if err != nil {
		t.Fatal(err)
	}
	ctx, cancel := context.WithTimeout(context.Background(), 5*time.Second)
	defer cancel()
	if err := ovs.Connect(ctx); err != nil {
		t.Fatal(err)
	}
	defer ovs.Close()
	c0 := <-srv.accepted
	if _, err := ovs.MonitorAll(ctx); err != nil {
		t.Fatal(err)
	}
	cookie := <-c0.monitored

	// a burst of notifications the cache refuses, in one write
	var burst strings.Builder
	for i := 0; i < 12; i++ {
		fmt.Fprintf(&burst, `{"method":"update2","params":[%s,{"Bridge":{"2f77b348-9768-4866-b761-89d5177ecd%02d":{"modify":{"name":"x"}}}}],"id":null}`+"\n", string(cookie), i)
	}
	if err := c0.write([]byte(burst.String())); err != nil {
		t.Fatal(err)
	}

	// the client drops connection 0 and reconnects: connection 1
	var c1 *reviewFakeConn
	select {
	case c1 = <-srv.accepted:
	case <-time.After(5 * time.Second):
		t.Fatal("the client did not reconnect after the refused notifications")
	}
	select {
	case <-c1.monitored:
	case <-time.After(5 * time.Second):
		t.Fatal("the client did not restart its monitor on the new connection")
	}

	// connection 1 has done nothing wrong: it must stay
	select {
	case <-c1.closed:
		t.Errorf("attempt %d: expected the connection made to rebuild the cache to stay; "+
			"the client dropped it although the peer sent nothing on it but the replies "+
			"(an error left in errorCh by the previous connection was handled on this one); connections so far: %d",
			attempt, srv.numConns())
		return true
	case <-time.After(300 * time.Millisecond):
	}
	return false
}
