package client

import (
	"encoding/json"
	"fmt"
	"net"
	"os"
	"sync"
	"testing"
)

// reviewFakeServer is a minimal OVSDB peer for the Review tests: it answers
// list_dbs, get_schema, monitor*, echo and transact on a unix socket and lets
// the test write raw messages on any accepted connection.
type reviewFakeServer struct {
	t    *testing.T
	l    net.Listener
	path string

	mu    sync.Mutex
	conns []*reviewFakeConn
	// accepted is signalled for every accepted connection
	accepted chan *reviewFakeConn

	// hook, if set, is called for every request; when it returns false the
	// server does not answer the request itself
	hook func(c *reviewFakeConn, method string, id *json.RawMessage, params json.RawMessage) bool
}

type reviewFakeConn struct {
	idx  int
	conn net.Conn
	wmu  sync.Mutex
	// cookies of the monitor requests seen on this connection (raw json)
	cmu     sync.Mutex
	cookies []json.RawMessage
	// monitored is signalled for every monitor request answered
	monitored chan json.RawMessage
	closed    chan struct{}
}

func (c *reviewFakeConn) write(b []byte) error {
	c.wmu.Lock()
	defer c.wmu.Unlock()
	_, err := c.conn.Write(b)
	return err
}

func (c *reviewFakeConn) reply(id *json.RawMessage, result string) error {
	return c.write([]byte(fmt.Sprintf(`{"id":%s,"result":%s,"error":null}`+"\n", string(*id), result)))
}

func newReviewFakeServer(t *testing.T) *reviewFakeServer {
	f, err := os.CreateTemp("", "review-ovsdb-*.sock")
	if err != nil {
		t.Fatal(err)
	}
	path := f.Name()
	f.Close()
	os.Remove(path)
	l, err := net.Listen("unix", path)
	if err != nil {
		t.Fatal(err)
	}
	s := &reviewFakeServer{t: t, l: l, path: path, accepted: make(chan *reviewFakeConn, 64)}
	t.Cleanup(func() {
		l.Close()
		s.mu.Lock()
		for _, c := range s.conns {
			c.conn.Close()
		}
		s.mu.Unlock()
		os.Remove(path)
	})
	go s.acceptLoop()
	return s
}

func (s *reviewFakeServer) endpoint() string { return "unix:" + s.path }

func (s *reviewFakeServer) numConns() int {
	s.mu.Lock()
	defer s.mu.Unlock()
	return len(s.conns)
}

func (s *reviewFakeServer) acceptLoop() {
	for {
		conn, err := s.l.Accept()
		if err != nil {
			return
		}
		s.mu.Lock()
		c := &reviewFakeConn{idx: len(s.conns), conn: conn, monitored: make(chan json.RawMessage, 16), closed: make(chan struct{})}
		s.conns = append(s.conns, c)
		s.mu.Unlock()
		s.accepted <- c
		go s.serve(c)
	}
}

func (s *reviewFakeServer) serve(c *reviewFakeConn) {
	defer close(c.closed)
	dec := json.NewDecoder(c.conn)
	for {
		var msg struct {
			Method string           `json:"method"`
			Params json.RawMessage  `json:"params"`
			ID     *json.RawMessage `json:"id"`
		}
		if err := dec.Decode(&msg); err != nil {
			return
		}
		if msg.Method == "" || msg.ID == nil {
			// a reply of the client (to an echo of ours) or a notification
			continue
		}
		if s.hook != nil && !s.hook(c, msg.Method, msg.ID, msg.Params) {
			continue
		}
		switch msg.Method {
		case "list_dbs":
			_ = c.reply(msg.ID, `["Open_vSwitch"]`)
		case "get_schema":
			_ = c.reply(msg.ID, schema)
		case "monitor_cond_since", "monitor_cond", "monitor":
			var params []json.RawMessage
			_ = json.Unmarshal(msg.Params, &params)
			if len(params) > 1 {
				c.cmu.Lock()
				c.cookies = append(c.cookies, params[1])
				c.cmu.Unlock()
			}
			if msg.Method == "monitor_cond_since" {
				_ = c.reply(msg.ID, `[false,"00000000-0000-0000-0000-000000000000",{}]`)
			} else {
				_ = c.reply(msg.ID, `{}`)
			}
			if len(params) > 1 {
				c.monitored <- params[1]
			}
		case "echo":
			_ = c.reply(msg.ID, string(msg.Params))
		case "monitor_cancel":
			_ = c.reply(msg.ID, `{}`)
		case "transact":
			_ = c.reply(msg.ID, `[{}]`)
		default:
			_ = c.write([]byte(fmt.Sprintf(`{"id":%s,"result":null,"error":"unknown method"}`+"\n", string(*msg.ID))))
		}
	}
}
