package client

import (
	"context"
	"fmt"
	"runtime"
	"testing"
	"time"

	"github.com/go-logr/logr"
)

// Commit 498260b: "one pending error is enough to rebuild the cache: the read
// loop never waits for the handler". errorCh has room for ONE error and the
// read loop drops an error when it is full. That is only enough when the
// pending error is itself one that makes handleClientErrors rebuild the cache.
// An error it merely logs (anything that is not ErrCacheInconsistent or
// ErrIndexExists, e.g. a value of the wrong type in a row) fills the buffer
// just as well, and the ErrCacheInconsistent of the notification right behind
// it is then thrown away: the cache is known to be out of step with the
// database and nothing rebuilds it.
//
// Input: three update2 notifications in one segment: the first two have a
// value of the wrong type (logged only), the third modifies a row the cache
// does not have (ErrCacheInconsistent). (The first error is handed straight to
// the handler parked on errorCh, the second fills the buffer, the third finds
// it full.) Expected: the client drops the connection to rebuild its cache, as
// it does when the third notification comes alone. Observed: the connection
// stays, the inconsistency is forgotten.
//
// GOMAXPROCS(1) makes the order of the goroutines (read loop first, handler
// after) certain. It is not needed for the defect: on 16 processors, with the
// default logger, 3 logged errors followed by the inconsistent one lost the
// inconsistency in 16 runs of 20.
func TestHuntReviewCacheInconsistentErrorDroppedBehindLoggedError(t *testing.T) {
	defer runtime.GOMAXPROCS(runtime.GOMAXPROCS(1))

	run := func(t *testing.T, withLoggedErrorFirst bool) (dropped bool) {
		srv := newReviewFakeServer(t)
		l := logr.Discard()
		ovs, err := newOVSDBClient(defDB, WithEndpoint(srv.endpoint()), WithLogger(&l))
		if err != nil {
			t.Fatal(err)
		}
		ctx, cancel := context.WithTimeout(context.Background(), 5*time.Second)
		defer cancel()
		if err := ovs.Connect(ctx); err != nil {
			t.Fatal(err)
		}
		defer ovs.Close()
		c0 := <-srv.accepted
		if _, err := ovs.MonitorAll(ctx); err != nil {
			t.Fatal(err)
		}
		cookie := <-c0.monitored

		logged := fmt.Sprintf(`{"method":"update2","params":[%s,{"Bridge":{"%s":{"insert":{"name":5}}}}],"id":null}`+"\n", string(cookie), aUUID0)
		inconsistent := fmt.Sprintf(`{"method":"update2","params":[%s,{"Bridge":{"%s":{"modify":{"name":"x"}}}}],"id":null}`+"\n", string(cookie), aUUID1)
		msg := inconsistent
		if withLoggedErrorFirst {
			// (the first error is handed to the handler waiting on errorCh,
			// the second fills the buffer, the third finds it full)
			msg = logged + logged + inconsistent
		}
		if err := c0.write([]byte(msg)); err != nil {
			t.Fatal(err)
		}
		select {
		case <-c0.closed:
			return true
		case <-time.After(1 * time.Second):
			return false
		}
	}

	// control: the inconsistency alone makes the client drop the connection
	if !run(t, false) {
		t.Fatal("control: expected the client to drop the connection after a notification the cache refuses as inconsistent")
	}
	if !run(t, true) {
		t.Errorf("expected the client to drop the connection to rebuild its cache after ErrCacheInconsistent; " +
			"it kept it: the error was dropped because errorCh still held an error that is only logged")
	}
}
