package client

import (
	"errors"
	"fmt"
	"testing"

	"github.com/ovn-org/libovsdb/model"
	"github.com/ovn-org/libovsdb/ovsdb"
)

// Commit a5d8f6e: "Where, WhereAny, WhereAll and WhereCache on a client that
// never connected give a conditional whose use returns ErrNotConnected instead
// of calling a nil API".
//
// The conditional is built as newConditionalAPI(nil, errorConditional, logger):
// its cache is nil. api.Mutate dereferences a.cache (a.cache.DatabaseModel())
// BEFORE it asks the conditional for its error, so Mutate still panics with a
// nil pointer dereference; only getTableFromModel was given a nil guard.
func TestHuntReviewNeverConnectedWhereMutate(t *testing.T) {
	ovs, err := newOVSDBClient(defDB)
	if err != nil {
		t.Fatal(err)
	}
	br := &Bridge{Name: "br0"}
	mutation := model.Mutation{
		Field:   &br.ExternalIDs,
		Mutator: ovsdb.MutateOperationInsert,
		Value:   map[string]string{"k": "v"},
	}
	conds := map[string]ConditionalAPI{
		"Where":    ovs.Where(br),
		"WhereAny": ovs.WhereAny(br, model.Condition{Field: &br.Name, Function: ovsdb.ConditionEqual, Value: "br0"}),
		"WhereAll": ovs.WhereAll(br, model.Condition{Field: &br.Name, Function: ovsdb.ConditionEqual, Value: "br0"}),
		"WhereCache": ovs.WhereCache(func(b *Bridge) bool {
			return b.Name == "br0"
		}),
	}
	for name, cond := range conds {
		cond := cond
		t.Run(name, func(t *testing.T) {
			var ops []ovsdb.Operation
			var err error
			func() {
				defer func() {
					if r := recover(); r != nil {
						err = fmt.Errorf("PANIC: %v", r)
					}
				}()
				ops, err = cond.Mutate(br, mutation)
			}()
			if err == nil {
				t.Fatalf("expected an error from Mutate on a client that never connected, got operations %v", ops)
			}
			if !errors.Is(err, ErrNotConnected) && err.Error() != newErrorConditional(ErrNotConnected).(*errorConditional).err.Error() {
				t.Fatalf("expected Mutate on a client that never connected to report %q, got: %v", ErrNotConnected, err)
			}
		})
	}
}
