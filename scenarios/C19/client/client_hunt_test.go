package client

import (
	"encoding/json"
	"fmt"
	"testing"

	"github.com/ovn-org/libovsdb/cache"
	"github.com/ovn-org/libovsdb/model"
	"github.com/ovn-org/libovsdb/ovsdb"
)

func huntClient(t *testing.T) *ovsdbClient {
	ovs, err := newOVSDBClient(defDB)
	if err != nil {
		t.Fatal(err)
	}
	var s ovsdb.DatabaseSchema
	if err = json.Unmarshal([]byte(schema), &s); err != nil {
		t.Fatal(err)
	}
	clientDBModel, err := model.NewClientDBModel("Open_vSwitch", map[string]model.Model{
		"Bridge":       &Bridge{},
		"Open_vSwitch": &OpenvSwitch{},
	})
	if err != nil {
		t.Fatal(err)
	}
	dbModel, errs := model.NewDatabaseModel(s, clientDBModel)
	if len(errs) > 0 {
		t.Fatal(errs)
	}
	ovs.primaryDB().cache, err = cache.NewTableCache(dbModel, nil, nil)
	if err != nil {
		t.Fatal(err)
	}
	ovs.primaryDB().deferUpdates = false
	go func() {
		for range ovs.errorCh {
		}
	}()
	return ovs
}

// The handlers of the notifications "update", "update2" and "update3" run in
// the read loop of the connection (rpc2 blocking mode, no recover): what they
// do with the bytes a server sends decides whether the client process lives.
func TestHuntUpdateNotifications(t *testing.T) {
	cookie := `{"databaseName":"Open_vSwitch","id":"v1"}`
	cases := []struct {
		method string
		params []string
	}{
		// fewer parameters than the handler indexes
		{"update", []string{}},
		{"update", []string{cookie}},
		{"update2", []string{}},
		{"update2", []string{cookie}},
		{"update3", []string{}},
		{"update3", []string{cookie}},
		{"update3", []string{cookie, `"00000000-0000-0000-0000-000000000000"`}},
		// a <table-update> with null in the place of a <row-update>: it
		// decodes (to a nil *RowUpdate) and cache.Populate dereferences it
		{"update", []string{cookie, `{"Bridge":{"550e8400-e29b-41d4-a716-446655440000":null}}`}},
		{"update2", []string{cookie, `{"Bridge":{"550e8400-e29b-41d4-a716-446655440000":null}}`}},
		{"update3", []string{cookie, `"00000000-0000-0000-0000-000000000000"`, `{"Bridge":{"550e8400-e29b-41d4-a716-446655440000":null}}`}},
	}
	for _, c := range cases {
		c := c
		t.Run(fmt.Sprintf("%s%v", c.method, c.params), func(t *testing.T) {
			ovs := huntClient(t)
			params := []json.RawMessage{}
			for _, p := range c.params {
				params = append(params, json.RawMessage(p))
			}
			defer func() {
				if p := recover(); p != nil {
					t.Errorf("%s with params %v: expected an error (or the notification ignored), got panic: %v", c.method, c.params, p)
				}
			}()
			var reply []interface{}
			var err error
			switch c.method {
			case "update":
				err = ovs.update(params, &reply)
			case "update2":
				err = ovs.update2(params, &reply)
			case "update3":
				err = ovs.update3(params, &reply)
			}
			t.Logf("error: %v", err)
		})
	}
}
