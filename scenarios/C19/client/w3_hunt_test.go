package client

import (
	"bufio"
	"context"
	"encoding/json"
	"net"
	"os"
	"os/exec"
	"path/filepath"
	"strings"
	"testing"
	"time"
)

// A leader-only client registers its update handlers when the connection is
// opened, before the schema of the _Server database is known. Notifications
// for that database are not deferred and its cache does not exist yet.
const huntW3EarlyUpdate = `{"method":"update","params":[{"databaseName":"_Server","id":"x"},{"Database":{"2f77b348-9768-4866-b761-89d5177ecda0":{"new":{"name":"Open_vSwitch"}}}}],"id":null}`

// TestHuntClientUpdateBeforeSchema feeds the notification to the handler the
// read loop would call, on a client in the state it has between opening the
// connection and receiving the reply to get_schema.
func TestHuntClientUpdateBeforeSchema(t *testing.T) {
	for _, method := range []string{"update", "update2", "update3"} {
		ovs, err := newOVSDBClient(defDB, WithLeaderOnly(true))
		if err != nil {
			t.Fatal(err)
		}
		cookie := json.RawMessage(`{"databaseName":"_Server","id":"x"}`)
		func() {
			defer func() {
				if r := recover(); r != nil {
					t.Errorf("expected: the %s notification of a peer that is sent before the schema reply is rejected (or deferred) with an error; got: the handler panicked: %v", method, r)
				}
			}()
			var reply []interface{}
			switch method {
			case "update":
				_ = ovs.update([]json.RawMessage{cookie, json.RawMessage(`{"Database":{"2f77b348-9768-4866-b761-89d5177ecda0":{"new":{"name":"Open_vSwitch"}}}}`)}, &reply)
			case "update2":
				_ = ovs.update2([]json.RawMessage{cookie, json.RawMessage(`{"Database":{"2f77b348-9768-4866-b761-89d5177ecda0":{"insert":{"name":"Open_vSwitch"}}}}`)}, &reply)
			case "update3":
				_ = ovs.update3([]json.RawMessage{cookie, json.RawMessage(`"00000000-0000-0000-0000-000000000001"`), json.RawMessage(`{"Database":{"2f77b348-9768-4866-b761-89d5177ecda0":{"insert":{"name":"Open_vSwitch"}}}}`)}, &reply)
			}
		}()
	}
}

// TestHuntClientUpdateBeforeSchemaWire does the same over a socket: the peer
// writes the notification as soon as the client connects. The client runs in
// a child process because the panic is raised in its read loop goroutine.
func TestHuntClientUpdateBeforeSchemaWire(t *testing.T) {
	if sock := os.Getenv("HUNT_CHILD_SOCK"); sock != "" {
		ovs, err := newOVSDBClient(defDB, WithLeaderOnly(true), WithEndpoint("unix:"+sock))
		if err != nil {
			t.Fatal(err)
		}
		ctx, cancel := context.WithTimeout(context.Background(), 3*time.Second)
		defer cancel()
		err = ovs.Connect(ctx)
		t.Logf("child: Connect returned %v", err)
		return
	}
	dir, err := os.MkdirTemp("", "hunt")
	if err != nil {
		t.Fatal(err)
	}
	defer os.RemoveAll(dir)
	sock := filepath.Join(dir, "s.sock")
	l, err := net.Listen("unix", sock)
	if err != nil {
		t.Fatal(err)
	}
	defer l.Close()
	go func() {
		for {
			c, err := l.Accept()
			if err != nil {
				return
			}
			go func(c net.Conn) {
				defer c.Close()
				// the first thing the peer says
				_, _ = c.Write([]byte(huntW3EarlyUpdate + "\n"))
				// and then it never answers: read and ignore
				r := bufio.NewReader(c)
				for {
					if _, err := r.ReadString('\n'); err != nil {
						return
					}
				}
			}(c)
		}
	}()
	cmd := exec.Command(os.Args[0], "-test.run=^TestHuntClientUpdateBeforeSchemaWire$", "-test.v")
	cmd.Env = append(os.Environ(), "HUNT_CHILD_SOCK="+sock)
	out, err := cmd.CombinedOutput()
	if strings.Contains(string(out), "panic:") {
		i := strings.Index(string(out), "panic:")
		end := i + 900
		if end > len(out) {
			end = len(out)
		}
		t.Errorf("expected: a client whose peer sends an update notification for _Server before answering get_schema reports an error (Connect fails or the notification is refused); got: the client process crashed (%v):\n%s", err, out[i:end])
	}
}
