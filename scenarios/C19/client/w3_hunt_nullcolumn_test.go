package client

import (
	"context"
	"encoding/json"
	"fmt"
	"os"
	"path/filepath"
	"testing"
	"time"

	"github.com/ovn-org/libovsdb/database/inmemory"
	"github.com/ovn-org/libovsdb/model"
	"github.com/ovn-org/libovsdb/ovsdb"
	"github.com/ovn-org/libovsdb/server"
)

// a <table-schema> whose "columns" maps a name to null instead of a
// <column-schema>
const huntW3NullColumnSchema = `{"name":"fz","version":"1.0.0","tables":{"T":{"columns":{"s":{"type":"string"},"x":null}}}}`

type huntW3NullT struct {
	UUID string `ovsdb:"_uuid"`
	S    string `ovsdb:"s"`
}

// TestHuntSchemaNullColumn: the schema is decoded without error, by the
// server that is given it and by the client that receives it in the reply to
// get_schema, and the nil column it holds is dereferenced later.
func TestHuntSchemaNullColumn(t *testing.T) {
	var schema ovsdb.DatabaseSchema
	err := json.Unmarshal([]byte(huntW3NullColumnSchema), &schema)
	if err == nil {
		t.Errorf("expected: decoding a table schema whose column \"x\" is null returns an error; got: no error and Columns[\"x\"] == %v", schema.Tables["T"].Columns["x"])
	} else {
		return
	}

	cm, err := model.NewClientDBModel("fz", map[string]model.Model{"T": &huntW3NullT{}})
	if err != nil {
		t.Fatal(err)
	}
	dbm, errs := model.NewDatabaseModel(schema, cm)
	if len(errs) > 0 {
		t.Fatal(errs)
	}
	srv, err := server.NewOvsdbServer(inmemory.NewDatabase(map[string]model.ClientDBModel{"fz": cm}), dbm)
	if err != nil {
		t.Fatal(err)
	}
	dir, err := os.MkdirTemp("", "hunt")
	if err != nil {
		t.Fatal(err)
	}
	defer os.RemoveAll(dir)
	sock := filepath.Join(dir, "s.sock")
	go func() { _ = srv.Serve("unix", sock) }()
	defer srv.Close()
	for i := 0; i < 200 && !srv.Ready(); i++ {
		time.Sleep(10 * time.Millisecond)
	}

	c, err := NewOVSDBClient(cm, WithEndpoint("unix:"+sock))
	if err != nil {
		t.Fatal(err)
	}
	ctx, cancel := context.WithTimeout(context.Background(), 5*time.Second)
	defer cancel()
	if err := c.Connect(ctx); err != nil {
		t.Fatalf("connect: %v", err)
	}
	defer c.Close()
	if _, err := c.MonitorAll(ctx); err != nil {
		t.Fatalf("monitor: %v", err)
	}
	row := &huntW3NullT{S: "a"}
	ops, err := c.Create(row)
	if err != nil {
		t.Fatal(err)
	}
	res, err := c.Transact(ctx, ops...)
	if err != nil {
		t.Fatal(err)
	}
	row.UUID = res[0].UUID.GoUUID
	row.S = "b"
	func() {
		defer func() {
			if r := recover(); r != nil {
				t.Errorf("expected: the client builds the update operation for the row (or the schema was refused when it was received); got: Where(row).Update(row) panicked: %v", r)
			}
		}()
		_, err := c.Where(row).Update(row)
		fmt.Println("update ops:", err)
	}()
}
