package server

import (
	"encoding/json"
	"testing"

	"github.com/ovn-org/libovsdb/database/inmemory"
	"github.com/ovn-org/libovsdb/model"
	"github.com/ovn-org/libovsdb/ovsdb"
)

// a <table-schema> whose "columns" maps a name to null instead of a
// <column-schema>
const huntW3NullColumnSchema = `{"name":"fz","version":"1.0.0","tables":{"T":{"columns":{"s":{"type":"string"},"x":null}}}}`

type huntW3NullT struct {
	UUID string `ovsdb:"_uuid"`
	S    string `ovsdb:"s"`
}

// TestHuntServerSchemaNullColumn: a server is started with a schema that was
// decoded without error although a column is null; a client monitors the
// table ("monitor", RFC 7047 4.1.5) and a row is inserted: building the
// notification dereferences the nil column.
func TestHuntServerSchemaNullColumn(t *testing.T) {
	var schema ovsdb.DatabaseSchema
	if err := json.Unmarshal([]byte(huntW3NullColumnSchema), &schema); err != nil {
		// the schema is refused: nothing can go wrong later
		return
	}
	cm, err := model.NewClientDBModel("fz", map[string]model.Model{"T": &huntW3NullT{}})
	if err != nil {
		t.Fatal(err)
	}
	dbm, errs := model.NewDatabaseModel(schema, cm)
	if len(errs) > 0 {
		t.Fatal(errs)
	}
	o, err := NewOvsdbServer(inmemory.NewDatabase(map[string]model.ClientDBModel{"fz": cm}), dbm)
	if err != nil {
		t.Fatal(err)
	}
	// what Monitor() registers for the request ["fz", "m", {"T": {}}]
	mon := o.bindMonitor(newMonitor(`"m"`, map[string]*ovsdb.MonitorRequest{"T": {}}, nil), "fz")

	results, update := o.transact("fz", []ovsdb.Operation{{Op: ovsdb.OperationInsert, Table: "T", Row: ovsdb.Row{"s": "a"}}})
	for _, r := range results {
		if r != nil && r.Error != "" {
			t.Fatalf("insert failed: %+v", r)
		}
	}
	defer func() {
		if r := recover(); r != nil {
			t.Errorf("expected: the server builds the update notification of the insert for the monitor (or the schema with the null column \"x\" was refused when decoded); got: panic: %v", r)
		}
	}()
	// what processMonitors -> monitor.Send does before writing to the client
	tu := mon.filter(update)
	t.Logf("notification: %v", tu)
}

// TestHuntServerZeroUUIDThenMonitor: two well-formed requests. The insert names
// the uuid of the new row (the "uuid" member ovsdb-server accepts since 2.x,
// used by this library's own client), here the all-zero uuid, which passes
// ValidateUUID; the row is stored. Any later monitor request for the table
// makes the handler panic while it builds the initial contents, in the
// goroutine rpc2 runs the handler in: the server process dies.
func TestHuntServerZeroUUIDThenMonitor(t *testing.T) {
	var schema ovsdb.DatabaseSchema
	if err := json.Unmarshal([]byte(`{"name":"fz","version":"1.0.0","tables":{"T":{"columns":{"s":{"type":"string"}}}}}`), &schema); err != nil {
		t.Fatal(err)
	}
	cm, err := model.NewClientDBModel("fz", map[string]model.Model{"T": &huntW3NullT{}})
	if err != nil {
		t.Fatal(err)
	}
	dbm, errs := model.NewDatabaseModel(schema, cm)
	if len(errs) > 0 {
		t.Fatal(errs)
	}
	o, err := NewOvsdbServer(inmemory.NewDatabase(map[string]model.ClientDBModel{"fz": cm}), dbm)
	if err != nil {
		t.Fatal(err)
	}
	var reply []*ovsdb.OperationResult
	err = o.Transact(nil, []json.RawMessage{
		json.RawMessage(`"fz"`),
		json.RawMessage(`{"op":"insert","table":"T","row":{"s":"a"},"uuid":"00000000-0000-0000-0000-000000000000"}`),
	}, &reply)
	if err != nil {
		t.Fatalf("transact: %v", err)
	}
	for _, r := range reply {
		if r != nil && r.Error != "" {
			// refusing the uuid is a fine answer too
			t.Logf("insert refused: %+v", r)
			return
		}
	}
	defer func() {
		if r := recover(); r != nil {
			t.Errorf("expected: after the insert was answered with a result, a monitor request [\"fz\",\"m\",{\"T\":{}}] is answered with the initial contents or an error; got: the Monitor handler panicked: %v", r)
		}
	}()
	var tu ovsdb.TableUpdates
	err = o.Monitor(nil, []json.RawMessage{json.RawMessage(`"fz"`), json.RawMessage(`"m"`), json.RawMessage(`{"T":{}}`)}, &tu)
	t.Logf("monitor: err=%v reply=%v", err, tu)
}
