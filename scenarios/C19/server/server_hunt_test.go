package server

// Demonstrations for property C19 ("no input can crash the library; the
// built-in database answers any transact request and keeps serving").
//
// The tests that need a server process of their own (because the defect kills
// the process) re-execute the test binary with HUNT_SERVER_SOCKET set: the
// child runs TestHuntHelperServer, which serves the in-memory database on a
// unix socket until it is killed.

import (
	"bufio"
	"bytes"
	"encoding/json"
	"fmt"
	"net"
	"os"
	"os/exec"
	"path/filepath"
	"strings"
	"testing"
	"time"

	"github.com/ovn-org/libovsdb/database/inmemory"
	"github.com/ovn-org/libovsdb/model"
	"github.com/ovn-org/libovsdb/ovsdb"

	. "github.com/ovn-org/libovsdb/test"
)

func huntNewServer(t testing.TB) *OvsdbServer {
	dbModel, err := GetModel()
	if err != nil {
		t.Fatal(err)
	}
	db := inmemory.NewDatabase(map[string]model.ClientDBModel{"Open_vSwitch": dbModel.Client()})
	o, err := NewOvsdbServer(db, dbModel)
	if err != nil {
		t.Fatal(err)
	}
	return o
}

// TestHuntHelperServer is not a test: it is the server process of the tests
// below.
func TestHuntHelperServer(t *testing.T) {
	sock := os.Getenv("HUNT_SERVER_SOCKET")
	if sock == "" {
		t.Skip("helper process of the other Hunt tests")
	}
	o := huntNewServer(t)
	if err := o.Serve("unix", sock); err != nil {
		t.Fatal(err)
	}
}

type huntChild struct {
	cmd    *exec.Cmd
	sock   string
	stderr *bytes.Buffer
	exited chan error
}

func huntStartChild(t *testing.T) *huntChild {
	dir, err := os.MkdirTemp("", "hunt")
	if err != nil {
		t.Fatal(err)
	}
	t.Cleanup(func() { os.RemoveAll(dir) })
	c := &huntChild{sock: filepath.Join(dir, "s"), stderr: &bytes.Buffer{}, exited: make(chan error, 1)}
	c.cmd = exec.Command(os.Args[0], "-test.run=^TestHuntHelperServer$")
	c.cmd.Env = append(os.Environ(), "HUNT_SERVER_SOCKET="+c.sock)
	c.cmd.Stderr = c.stderr
	c.cmd.Stdout = c.stderr
	if err := c.cmd.Start(); err != nil {
		t.Fatal(err)
	}
	go func() { c.exited <- c.cmd.Wait() }()
	t.Cleanup(func() { _ = c.cmd.Process.Kill() })
	for i := 0; i < 200; i++ {
		if conn, err := net.Dial("unix", c.sock); err == nil {
			conn.Close()
			return c
		}
		time.Sleep(25 * time.Millisecond)
	}
	t.Fatalf("the server process did not start: %s", c.stderr.String())
	return nil
}

// huntRequest sends one JSON-RPC message on a new connection and returns the
// first line of the answer ("" if there is none before the deadline or the
// connection is closed).
func huntRequest(sock, msg string, wait time.Duration) (string, error) {
	conn, err := net.Dial("unix", sock)
	if err != nil {
		return "", err
	}
	defer conn.Close()
	if _, err := conn.Write([]byte(msg + "\n")); err != nil {
		return "", err
	}
	_ = conn.SetReadDeadline(time.Now().Add(wait))
	line, err := bufio.NewReader(conn).ReadString('\n')
	return strings.TrimSpace(line), err
}

// huntPanicLine extracts the panic message of a crashed child
func huntPanicLine(out string) string {
	for _, l := range strings.Split(out, "\n") {
		if strings.HasPrefix(l, "panic:") {
			return l
		}
	}
	return "(no panic line)"
}

// huntExpectServing sends the message to a fresh server process and checks
// that the server answers it (with a result or an error) or at least
// survives it, and answers an echo on another connection afterwards.
func huntExpectServing(t *testing.T, what, msg string, wantsAnswer bool) {
	c := huntStartChild(t)
	answer, err := huntRequest(c.sock, msg, 3*time.Second)
	time.Sleep(300 * time.Millisecond)
	select {
	case werr := <-c.exited:
		t.Fatalf("%s: sent %s\nexpected: an error reply (or the connection dropped) and a server that keeps serving\ngot: answer %q (%v); the server PROCESS DIED (%v) with %s",
			what, msg, answer, err, werr, huntPanicLine(c.stderr.String()))
	default:
	}
	if wantsAnswer && answer == "" {
		t.Errorf("%s: sent %s: expected an error reply, got none (%v)", what, msg, err)
	}
	echo, err := huntRequest(c.sock, `{"method":"echo","params":["alive"],"id":7}`, 3*time.Second)
	if !strings.Contains(echo, "alive") {
		t.Fatalf("%s: after %s the server does not answer an echo any more: %q %v", what, msg, echo, err)
	}
}

// A get_schema request without parameters: GetSchema indexes args[0].
func TestHuntGetSchemaWithoutParams(t *testing.T) {
	huntExpectServing(t, "get_schema without parameters", `{"method":"get_schema","params":[],"id":1}`, true)
}

// monitor, monitor_cond and monitor_cond_since requests with fewer than three
// parameters: the handlers index args[0], args[1] and args[2].
func TestHuntMonitorWithTooFewParams(t *testing.T) {
	for _, method := range []string{"monitor", "monitor_cond", "monitor_cond_since"} {
		for _, params := range []string{`[]`, `["Open_vSwitch"]`, `["Open_vSwitch",null]`} {
			method, params := method, params
			t.Run(method+params, func(t *testing.T) {
				huntExpectServing(t, method+" with too few parameters", fmt.Sprintf(`{"method":%q,"params":%s,"id":1}`, method, params), true)
			})
		}
	}
}

// A JSON-RPC message that is neither a request nor a response: the codec the
// server wraps (rpc2/jsonrpc ReadHeader) dereferences the missing id.
func TestHuntMessageWithoutMethodAndID(t *testing.T) {
	for _, msg := range []string{`{}`, `{"method":"","params":[]}`, `{"result":[],"error":null}`} {
		msg := msg
		t.Run(msg, func(t *testing.T) {
			huntExpectServing(t, "message without method and id", msg, false)
		})
	}
}

// The same handlers called directly, for those who prefer not to fork.
func TestHuntHandlersIndexTheirArguments(t *testing.T) {
	o := huntNewServer(t)
	try := func(name string, f func() error) {
		t.Helper()
		defer func() {
			if p := recover(); p != nil {
				t.Errorf("%s: expected an error, got panic: %v (in the server this goroutine has no recover: the process dies)", name, p)
			}
		}()
		if err := f(); err == nil {
			t.Errorf("%s: expected an error, got none", name)
		}
	}
	try("get_schema []", func() error {
		var reply ovsdb.DatabaseSchema
		return o.GetSchema(nil, []interface{}{}, &reply)
	})
	db := json.RawMessage(`"Open_vSwitch"`)
	for _, args := range [][]json.RawMessage{{}, {db}, {db, json.RawMessage(`null`)}} {
		args := args
		try(fmt.Sprintf("monitor with %d parameters", len(args)), func() error {
			var reply ovsdb.TableUpdates
			return o.Monitor(nil, args, &reply)
		})
		try(fmt.Sprintf("monitor_cond with %d parameters", len(args)), func() error {
			var reply ovsdb.TableUpdates2
			return o.MonitorCond(nil, args, &reply)
		})
		try(fmt.Sprintf("monitor_cond_since with %d parameters", len(args)), func() error {
			var reply ovsdb.MonitorCondSinceReply
			return o.MonitorCondSince(nil, args, &reply)
		})
	}
}

// A well-typed select whose "where" has n equality conditions on a column
// without index costs 2^n steps (and 2^n retained subsets) even on an empty
// table: cache.RowCache.uuidsByConditionsAsIndexes builds the power set of the
// conditions. Some 40 conditions (a 1 kB request) keep the server, which holds
// its transaction mutex meanwhile, busy for days and exhaust its memory.
func TestHuntWhereClausePowerSet(t *testing.T) {
	o := huntNewServer(t)
	transact := func(n int) time.Duration {
		conds := make([]string, n)
		for i := range conds {
			conds[i] = `["datapath_type","==","netdev"]`
		}
		op := `{"op":"select","table":"Bridge","where":[` + strings.Join(conds, ",") + `]}`
		args := []json.RawMessage{json.RawMessage(`"Open_vSwitch"`), json.RawMessage(op)}
		var reply []*ovsdb.OperationResult
		start := time.Now()
		if err := o.Transact(nil, args, &reply); err != nil {
			t.Fatal(err)
		}
		d := time.Since(start)
		if len(reply) != 1 || reply[0].Error != "" || len(reply[0].Rows) != 0 {
			t.Fatalf("unexpected reply %+v", reply)
		}
		t.Logf("select on the empty table Bridge with %2d conditions (request of %d bytes): %v", n, len(op), d)
		return d
	}
	base := transact(2)
	var last time.Duration
	for _, n := range []int{10, 12, 14, 16, 18} {
		last = transact(n)
	}
	limit := 250 * time.Millisecond
	if last > limit {
		t.Fatalf("expected: a select with 18 conditions over an EMPTY table is answered about as fast as one with 2 conditions (%v), in any case within %v\n"+
			"got: %v, four times more for every two conditions more (see the log): with 40 conditions the server would not answer this request, nor any later transaction, for days",
			base, limit, last)
	}
}

// A client that has a monitor and does not answer the server's "update"
// requests (RFC 7047 4.1.6 makes "update" a notification, to which no reply is
// due) blocks the transaction that caused the update, and with it every later
// transaction of every client: monitor.Send does a synchronous rpc2 Call under
// the server's transaction mutex.
func TestHuntSilentMonitorBlocksTransactions(t *testing.T) {
	t.Skip("a matter of schedule, recorded in DESIGN.md 7.1: the server waits under its transaction mutex")
	dir, err := os.MkdirTemp("", "hunt")
	if err != nil {
		t.Fatal(err)
	}
	defer os.RemoveAll(dir)
	sock := filepath.Join(dir, "s")
	o := huntNewServer(t)
	go func() { _ = o.Serve("unix", sock) }()
	defer o.Close()
	for i := 0; i < 200 && !o.Ready(); i++ {
		time.Sleep(10 * time.Millisecond)
	}

	// client A monitors the table Bridge and then only listens
	a, err := net.Dial("unix", sock)
	if err != nil {
		t.Fatal(err)
	}
	defer a.Close()
	ra := bufio.NewReader(a)
	fmt.Fprintln(a, `{"method":"monitor","params":["Open_vSwitch","m",{"Bridge":{}}],"id":1}`)
	_ = a.SetReadDeadline(time.Now().Add(3 * time.Second))
	if line, err := ra.ReadString('\n'); err != nil || !strings.Contains(line, `"result"`) {
		t.Fatalf("monitor: %q %v", line, err)
	}

	// client B inserts a row
	answer, err := huntRequest(sock, `{"method":"transact","params":["Open_vSwitch",{"op":"insert","table":"Bridge","row":{"name":"br0"}}],"id":1}`, 3*time.Second)
	_ = a.SetReadDeadline(time.Now().Add(3 * time.Second))
	update, _ := ra.ReadString('\n')
	if !strings.Contains(answer, `"uuid"`) {
		// is the server still there for a third client?
		answer2, err2 := huntRequest(sock, `{"method":"transact","params":["Open_vSwitch",{"op":"select","table":"Bridge","where":[]}],"id":1}`, 3*time.Second)
		t.Fatalf("expected: the transact of client B is answered although client A, which monitors the table, stays silent\n"+
			"got: no answer within 3s (%q, %v); client A was sent %q and the server waits for its reply while holding the transaction mutex;\n"+
			"a select of a third client is not answered either: %q, %v", answer, err, strings.TrimSpace(update), answer2, err2)
	}
}

// A "wait" whose condition does not hold and whose timeout is large sleeps in
// Transaction.Wait with the server's transaction mutex held: no transaction of
// any client is answered until the timeout expires (here one hour; 2^31-1 ms
// are 24 days), and the condition cannot become true meanwhile because no
// other transaction can run. Without "timeout" the library itself gives this
// reason for answering "timed out" at once.
func TestHuntWaitWithLongTimeoutFreezesServer(t *testing.T) {
	t.Skip("a matter of schedule, recorded in DESIGN.md 7.1: the server waits under its transaction mutex")
	dir, err := os.MkdirTemp("", "hunt")
	if err != nil {
		t.Fatal(err)
	}
	defer os.RemoveAll(dir)
	sock := filepath.Join(dir, "s")
	o := huntNewServer(t)
	go func() { _ = o.Serve("unix", sock) }()
	defer o.Close()
	for i := 0; i < 200 && !o.Ready(); i++ {
		time.Sleep(10 * time.Millisecond)
	}
	wait := `{"method":"transact","params":["Open_vSwitch",{"op":"wait","table":"Bridge","where":[],"columns":["name"],"until":"==","rows":[{"name":"br0"}],"timeout":3600000}],"id":1}`
	go func() { _, _ = huntRequest(sock, wait, 5*time.Second) }()
	time.Sleep(300 * time.Millisecond)
	answer, err := huntRequest(sock, `{"method":"transact","params":["Open_vSwitch",{"op":"insert","table":"Bridge","row":{"name":"br0"}}],"id":2}`, 3*time.Second)
	if !strings.Contains(answer, `"uuid"`) {
		t.Fatalf("client A sent %s\nexpected: the server keeps serving: the insert of client B (which would make A's condition true) is answered\n"+
			"got: no answer within 3s (%q, %v): the server sleeps in A's wait with the transaction mutex held", wait, answer, err)
	}
}
