package ovsdb

import (
	"encoding/json"
	"testing"
)

// Review of 6f9eddf ("a table schema whose index has no column, or names a
// column the table lacks, is rejected when decoded").
//
// The check looks the index columns up in the "columns" member only. Every
// table also has the implicit column "_uuid": TableSchema.Column("_uuid")
// returns it, the mapper, the cache and the in-memory database handle an
// index that names it (rows are inserted, updated and selected without
// error when the schema is built in memory), and ovsdb-server accepts such
// a schema. The decoder now refuses it: a schema that was usable before the
// repair can no longer be loaded (SchemaFromFile, get_schema reply, the
// schema embedded by modelgen).
func TestHuntReviewIndexNamingUUIDColumnIsDecoded(t *testing.T) {
	const schema = `{"name":"d","version":"1.0.0","tables":{"T":{
		"columns":{"name":{"type":"string"}},
		"indexes":[["name","_uuid"]]}}}`
	var s DatabaseSchema
	err := json.Unmarshal([]byte(schema), &s)
	if err != nil {
		t.Fatalf("expected the schema to be decoded (\"_uuid\" is a column of every table, "+
			"TableSchema.Column(\"_uuid\") != nil), got error: %v", err)
	}
	table := s.Table("T")
	if table == nil || len(table.Indexes) != 1 {
		t.Fatalf("expected one index on table T, got %+v", table)
	}
	for _, column := range table.Indexes[0] {
		if table.Column(column) == nil {
			t.Fatalf("index column %q is not a column of the table", column)
		}
	}
}
