package cache

import (
	"encoding/json"
	"testing"

	"github.com/ovn-org/libovsdb/model"
	"github.com/ovn-org/libovsdb/ovsdb"
)

type huntRow struct {
	UUID string `ovsdb:"_uuid"`
	Name string `ovsdb:"name"`
}

func huntCache(t *testing.T, schemaJSON string) *TableCache {
	var schema ovsdb.DatabaseSchema
	if err := json.Unmarshal([]byte(schemaJSON), &schema); err != nil {
		t.Fatalf("the schema does not decode: %v", err)
	}
	cm, err := model.NewClientDBModel("db", map[string]model.Model{"T": &huntRow{}})
	if err != nil {
		t.Fatal(err)
	}
	dbModel, errs := model.NewDatabaseModel(schema, cm)
	if len(errs) > 0 {
		t.Fatalf("the schema is rejected (fine): %v", errs)
	}
	tc, err := NewTableCache(dbModel, nil, nil)
	if err != nil {
		t.Fatalf("the schema is rejected (fine): %v", err)
	}
	return tc
}

// Table updates decode with null in the place of a row update (a nil
// *RowUpdate / *RowUpdate2); Populate and Populate2 dereference it.
func TestHuntPopulateNullRowUpdate(t *testing.T) {
	const schema = `{"name":"db","tables":{"T":{"columns":{"name":{"type":"string"}}}}}`
	const wire = `{"T":{"550e8400-e29b-41d4-a716-446655440000":null}}`
	t.Run("update", func(t *testing.T) {
		tc := huntCache(t, schema)
		var tu ovsdb.TableUpdates
		if err := json.Unmarshal([]byte(wire), &tu); err != nil {
			t.Skipf("rejected by the decoder (fine): %v", err)
		}
		defer func() {
			if p := recover(); p != nil {
				t.Errorf("Populate(%s): expected an error, got panic: %v", wire, p)
			}
		}()
		t.Logf("error: %v", tc.Populate(tu))
	})
	t.Run("update2", func(t *testing.T) {
		tc := huntCache(t, schema)
		var tu ovsdb.TableUpdates2
		if err := json.Unmarshal([]byte(wire), &tu); err != nil {
			t.Skipf("rejected by the decoder (fine): %v", err)
		}
		defer func() {
			if p := recover(); p != nil {
				t.Errorf("Populate2(%s): expected an error, got panic: %v", wire, p)
			}
		}()
		t.Logf("error: %v", tc.Populate2(tu))
	})
}

// A schema whose "indexes" holds an empty <column-set> decodes and is accepted
// by NewDatabaseModel and NewTableCache; the first row that enters the table
// panics in valueFromIndex (columnKeys[0]).
func TestHuntSchemaWithEmptyIndex(t *testing.T) {
	for _, schema := range []string{
		`{"name":"db","tables":{"T":{"columns":{"name":{"type":"string"}},"indexes":[[]]}}}`,
		`{"name":"db","tables":{"T":{"columns":{"name":{"type":"string"}},"indexes":[null]}}}`,
	} {
		var probe ovsdb.DatabaseSchema
		if json.Unmarshal([]byte(schema), &probe) != nil {
			continue // rejected when decoded
		}
		tc := huntCache(t, schema)
		var tu ovsdb.TableUpdates2
		if err := json.Unmarshal([]byte(`{"T":{"550e8400-e29b-41d4-a716-446655440000":{"insert":{"name":"a"}}}}`), &tu); err != nil {
			t.Fatal(err)
		}
		func() {
			defer func() {
				if p := recover(); p != nil {
					t.Errorf("schema %s: expected the schema to be rejected or the row to be stored, got panic on the first row: %v", schema, p)
				}
			}()
			t.Logf("error: %v", tc.Populate2(tu))
		}()
	}
}
