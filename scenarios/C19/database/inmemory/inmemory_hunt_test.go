package inmemory

import (
	"testing"

	"github.com/ovn-org/libovsdb/model"
	"github.com/ovn-org/libovsdb/ovsdb"

	. "github.com/ovn-org/libovsdb/test"
)

// Transact reports the errors that concern the transaction as a whole (unknown
// database, named-uuid expansion, cache set-up) in results[0], which does not
// exist when the operation list is empty.
func TestHuntTransactNoOperationsUnknownDatabase(t *testing.T) {
	dbModel, err := GetModel()
	if err != nil {
		t.Fatal(err)
	}
	db := NewDatabase(map[string]model.ClientDBModel{"Open_vSwitch": dbModel.Client()})
	if err := db.CreateDatabase("Open_vSwitch", dbModel.Schema); err != nil {
		t.Fatal(err)
	}
	for _, name := range []string{"Open_vSwitch", "Nope"} {
		func() {
			defer func() {
				if p := recover(); p != nil {
					t.Errorf("NewTransaction(%q).Transact() with an empty operation list: expected results (none, or one error result), got panic: %v", name, p)
				}
			}()
			results, _ := db.NewTransaction(name).Transact([]ovsdb.Operation{}...)
			t.Logf("NewTransaction(%q).Transact(): %d results", name, len(results))
		}()
	}
}
