package cache

import (
	"encoding/json"
	"fmt"
	"reflect"
	"sort"
	"sync"
	"testing"
	"time"

	"github.com/ovn-org/libovsdb/model"
	"github.com/ovn-org/libovsdb/ovsdb"
)

// Property C14: the add/update/delete events delivered to a handler, applied
// in delivery order to an empty table set, reproduce the cache contents, and
// the events of each row alternate legally (add, updates, delete).

type huntRow struct {
	UUID string            `ovsdb:"_uuid"`
	Name string            `ovsdb:"name"`
	Tags []string          `ovsdb:"tags"`
	Opts map[string]string `ovsdb:"opts"`
	Opt  *string           `ovsdb:"opt"`
}

const huntSchema = `{
  "name": "Hunt",
  "tables": {
    "T": {
      "columns": {
        "name": {"type": "string"},
        "tags": {"type": {"key": "string", "min": 0, "max": "unlimited"}},
        "opts": {"type": {"key": "string", "value": "string", "min": 0, "max": "unlimited"}},
        "opt":  {"type": {"key": "string", "min": 0, "max": 1}}
      }
    }
  }
}`

func huntDBModel(t *testing.T) model.DatabaseModel {
	t.Helper()
	var schema ovsdb.DatabaseSchema
	if err := json.Unmarshal([]byte(huntSchema), &schema); err != nil {
		t.Fatal(err)
	}
	cdb, err := model.NewClientDBModel("Hunt", map[string]model.Model{"T": &huntRow{}})
	if err != nil {
		t.Fatal(err)
	}
	dbModel, errs := model.NewDatabaseModel(schema, cdb)
	if len(errs) > 0 {
		t.Fatal(errs)
	}
	return dbModel
}

// huntLog is an event handler that maintains a replica of the tables from
// the events only, and records every illegal step.
type huntLog struct {
	mu      sync.Mutex
	name    string
	n       int
	seq     []string
	replica map[string]map[string]model.Model
	illegal []string
}

func newHuntLog(name string) *huntLog {
	return &huntLog{name: name, replica: map[string]map[string]model.Model{}}
}

func huntUUID(m model.Model) string {
	return reflect.ValueOf(m).Elem().FieldByName("UUID").String()
}

func (l *huntLog) table(table string) map[string]model.Model {
	if l.replica[table] == nil {
		l.replica[table] = map[string]model.Model{}
	}
	return l.replica[table]
}

func (l *huntLog) OnAdd(table string, m model.Model) {
	l.mu.Lock()
	defer l.mu.Unlock()
	l.n++
	uuid := huntUUID(m)
	l.seq = append(l.seq, "add "+table+"/"+uuid)
	if _, ok := l.table(table)[uuid]; ok {
		l.illegal = append(l.illegal, fmt.Sprintf("event %d: add of %s/%s, a row that was added before and never deleted", l.n, table, uuid))
	}
	l.table(table)[uuid] = model.Clone(m)
}

func (l *huntLog) OnUpdate(table string, old, new model.Model) {
	l.mu.Lock()
	defer l.mu.Unlock()
	l.n++
	uuid := huntUUID(new)
	l.seq = append(l.seq, "update "+table+"/"+uuid)
	prev, ok := l.table(table)[uuid]
	if !ok {
		l.illegal = append(l.illegal, fmt.Sprintf("event %d: update of %s/%s, a row that does not exist in the log", l.n, table, uuid))
	} else if !reflect.DeepEqual(prev, old) {
		l.illegal = append(l.illegal, fmt.Sprintf("event %d: update of %s/%s with old model %+v, but the previous state was %+v", l.n, table, uuid, old, prev))
	}
	l.table(table)[uuid] = model.Clone(new)
}

func (l *huntLog) OnDelete(table string, m model.Model) {
	l.mu.Lock()
	defer l.mu.Unlock()
	l.n++
	uuid := huntUUID(m)
	l.seq = append(l.seq, "delete "+table+"/"+uuid)
	if _, ok := l.table(table)[uuid]; !ok {
		l.illegal = append(l.illegal, fmt.Sprintf("event %d: delete of %s/%s, a row that does not exist in the log", l.n, table, uuid))
	}
	delete(l.table(table), uuid)
}

func (l *huntLog) count() int {
	l.mu.Lock()
	defer l.mu.Unlock()
	return l.n
}

func (l *huntLog) uuids(table string) []string {
	l.mu.Lock()
	defer l.mu.Unlock()
	res := []string{}
	for uuid := range l.replica[table] {
		res = append(res, uuid)
	}
	sort.Strings(res)
	return res
}

func huntCacheUUIDs(tc *TableCache, table string) []string {
	rows, _ := tc.Table(table).RowsByCondition(nil)
	res := []string{}
	for uuid := range rows {
		res = append(res, uuid)
	}
	sort.Strings(res)
	return res
}

func huntWaitEvents(t *testing.T, l *huntLog, n int) {
	t.Helper()
	deadline := time.Now().Add(5 * time.Second)
	for l.count() < n {
		if time.Now().After(deadline) {
			t.Fatalf("handler %s got %d events, waited for %d", l.name, l.count(), n)
		}
		time.Sleep(time.Millisecond)
	}
	// leave time for an event nobody expects
	time.Sleep(20 * time.Millisecond)
}

func huntInitial(name string) *ovsdb.RowUpdate2 {
	row := ovsdb.Row{"name": name}
	return &ovsdb.RowUpdate2{Initial: &row}
}

// What client.connect(ctx, reconnect=true) and client.monitor() do to the
// cache when a connection is re-established (client/client.go:296-310 and
// :1101-1111): Purge, then Populate with the complete contents of the
// database. Two handlers are registered before anything happens, the
// dispatcher runs all the time, and only three events are ever outstanding.
func TestHuntPurgeOnReconnectIsNotInTheEventLog(t *testing.T) {
	dbModel := huntDBModel(t)
	tc, err := NewTableCache(dbModel, nil, nil)
	if err != nil {
		t.Fatal(err)
	}
	h1, h2 := newHuntLog("h1"), newHuntLog("h2")
	tc.AddEventHandler(h1)
	tc.AddEventHandler(h2)
	stop := make(chan struct{})
	defer close(stop)
	go tc.Run(stop)

	const a = "aaaaaaaa-0000-0000-0000-000000000000"
	const b = "bbbbbbbb-0000-0000-0000-000000000000"

	// first connection: the initial contents of the monitor are rows a and b
	err = tc.Populate2(ovsdb.TableUpdates2{"T": {a: huntInitial("a"), b: huntInitial("b")}})
	if err != nil {
		t.Fatal(err)
	}
	huntWaitEvents(t, h1, 2)
	huntWaitEvents(t, h2, 2)

	// the connection is lost, row b is deleted in the database meanwhile, the
	// client reconnects: the cache is purged and populated with what the
	// restarted monitor replies, row a alone
	tc.Purge(dbModel)
	err = tc.Populate2(ovsdb.TableUpdates2{"T": {a: huntInitial("a")}})
	if err != nil {
		t.Fatal(err)
	}
	huntWaitEvents(t, h1, 3)
	huntWaitEvents(t, h2, 3)

	inCache := huntCacheUUIDs(tc, "T")
	for _, h := range []*huntLog{h1, h2} {
		fromLog := h.uuids("T")
		if !reflect.DeepEqual(fromLog, inCache) {
			t.Errorf("handler %s: expected the events %v, applied in delivery order to an empty table, to give the rows of the cache %v; they give %v (row b vanished from the cache without a delete event)",
				h.name, h.seq, inCache, fromLog)
		}
		if len(h.illegal) > 0 {
			t.Errorf("handler %s: expected the events of each row to alternate add, updates, delete; got %v", h.name, h.illegal)
		}
	}
}
