package client

import (
	"context"
	"encoding/json"
	"fmt"
	"io"
	"net"
	"os"
	"reflect"
	"sort"
	"sync"
	"testing"
	"time"

	"github.com/cenkalti/backoff/v4"
	"github.com/ovn-org/libovsdb/model"
	"github.com/ovn-org/libovsdb/ovsdb"
)

// Property C14: the add/update/delete events delivered to a handler, applied
// in delivery order to an empty table set, reproduce the cache contents, and
// the events of each row alternate legally (add, updates, delete).
//
// End to end: a client with WithReconnect, one monitor, two handlers
// registered before the monitor is started, and a handful of rows. The
// connection is cut, a row is deleted meanwhile, the client reconnects.

type huntRow struct {
	UUID string `ovsdb:"_uuid"`
	Name string `ovsdb:"name"`
}

const huntSchema = `{
  "name": "Hunt",
  "tables": {
    "T": {
      "columns": {
        "name": {"type": "string"}
      }
    }
  }
}`

// huntProxy forwards a unix socket to another one and can be cut and restored
type huntProxy struct {
	mu       sync.Mutex
	path     string
	target   string
	listener net.Listener
	conns    []net.Conn
}

func (p *huntProxy) start(t *testing.T) {
	p.mu.Lock()
	defer p.mu.Unlock()
	os.Remove(p.path)
	l, err := net.Listen("unix", p.path)
	if err != nil {
		t.Fatal(err)
	}
	p.listener = l
	go func() {
		for {
			c, err := l.Accept()
			if err != nil {
				return
			}
			s, err := net.Dial("unix", p.target)
			if err != nil {
				c.Close()
				continue
			}
			p.mu.Lock()
			p.conns = append(p.conns, c, s)
			p.mu.Unlock()
			go func() { _, _ = io.Copy(s, c); s.Close(); c.Close() }()
			go func() { _, _ = io.Copy(c, s); s.Close(); c.Close() }()
		}
	}()
}

func (p *huntProxy) cut() {
	p.mu.Lock()
	defer p.mu.Unlock()
	p.listener.Close()
	for _, c := range p.conns {
		c.Close()
	}
	p.conns = nil
	os.Remove(p.path)
}

// huntLog is an event handler that maintains a replica of the tables from
// the events only, and records every illegal step.
type huntLog struct {
	mu      sync.Mutex
	name    string
	n       int
	seq     []string
	replica map[string]model.Model
	illegal []string
}

func (l *huntLog) OnAdd(table string, m model.Model) {
	l.mu.Lock()
	defer l.mu.Unlock()
	l.n++
	r := m.(*huntRow)
	l.seq = append(l.seq, "add "+r.Name)
	if _, ok := l.replica[r.UUID]; ok {
		l.illegal = append(l.illegal, fmt.Sprintf("event %d: add of row %q, which was added before and never deleted", l.n, r.Name))
	}
	l.replica[r.UUID] = model.Clone(m)
}

func (l *huntLog) OnUpdate(table string, old, new model.Model) {
	l.mu.Lock()
	defer l.mu.Unlock()
	l.n++
	r := new.(*huntRow)
	l.seq = append(l.seq, "update "+r.Name)
	prev, ok := l.replica[r.UUID]
	if !ok {
		l.illegal = append(l.illegal, fmt.Sprintf("event %d: update of row %q, which does not exist in the log", l.n, r.Name))
	} else if !reflect.DeepEqual(prev, old) {
		l.illegal = append(l.illegal, fmt.Sprintf("event %d: update of row %q with old model %+v, previous state %+v", l.n, r.Name, old, prev))
	}
	l.replica[r.UUID] = model.Clone(new)
}

func (l *huntLog) OnDelete(table string, m model.Model) {
	l.mu.Lock()
	defer l.mu.Unlock()
	l.n++
	r := m.(*huntRow)
	l.seq = append(l.seq, "delete "+r.Name)
	if _, ok := l.replica[r.UUID]; !ok {
		l.illegal = append(l.illegal, fmt.Sprintf("event %d: delete of row %q, which does not exist in the log", l.n, r.Name))
	}
	delete(l.replica, r.UUID)
}

func (l *huntLog) count() int {
	l.mu.Lock()
	defer l.mu.Unlock()
	return l.n
}

func (l *huntLog) names() []string {
	l.mu.Lock()
	defer l.mu.Unlock()
	res := []string{}
	for _, m := range l.replica {
		res = append(res, m.(*huntRow).Name)
	}
	sort.Strings(res)
	return res
}

func huntEventually(t *testing.T, what string, cond func() bool) {
	t.Helper()
	deadline := time.Now().Add(10 * time.Second)
	for !cond() {
		if time.Now().After(deadline) {
			t.Fatalf("timed out waiting for %s", what)
		}
		time.Sleep(5 * time.Millisecond)
	}
}

func huntTransact(t *testing.T, c Client, ops []ovsdb.Operation, err error) {
	t.Helper()
	if err != nil {
		t.Fatal(err)
	}
	reply, err := c.Transact(context.Background(), ops...)
	if err != nil {
		t.Fatal(err)
	}
	if _, err := ovsdb.CheckOperationResults(reply, ops); err != nil {
		t.Fatal(err)
	}
}

func TestHuntReconnectEventLog(t *testing.T) {
	var schema ovsdb.DatabaseSchema
	if err := json.Unmarshal([]byte(huntSchema), &schema); err != nil {
		t.Fatal(err)
	}
	huntDB, err := model.NewClientDBModel("Hunt", map[string]model.Model{"T": &huntRow{}})
	if err != nil {
		t.Fatal(err)
	}
	_, sock := newOVSDBServer(t, huntDB, schema)

	proxy := &huntProxy{path: fmt.Sprintf("/tmp/hunt-proxy-%d.sock", os.Getpid()), target: sock}
	proxy.start(t)
	t.Cleanup(proxy.cut)

	// the administrator talks to the server directly
	admin, err := newOVSDBClient(huntDB, WithEndpoint("unix:"+sock))
	if err != nil {
		t.Fatal(err)
	}
	if err := admin.Connect(context.Background()); err != nil {
		t.Fatal(err)
	}
	t.Cleanup(admin.Close)
	if _, err := admin.MonitorAll(context.Background()); err != nil {
		t.Fatal(err)
	}

	// the client under test goes through the proxy
	ovs, err := newOVSDBClient(huntDB,
		WithReconnect(2*time.Second, backoff.NewConstantBackOff(20*time.Millisecond)),
		WithEndpoint("unix:"+proxy.path))
	if err != nil {
		t.Fatal(err)
	}
	if err := ovs.Connect(context.Background()); err != nil {
		t.Fatal(err)
	}
	t.Cleanup(ovs.Close)
	h1 := &huntLog{name: "h1", replica: map[string]model.Model{}}
	h2 := &huntLog{name: "h2", replica: map[string]model.Model{}}
	ovs.Cache().AddEventHandler(h1)
	ovs.Cache().AddEventHandler(h2)
	if _, err := ovs.MonitorAll(context.Background()); err != nil {
		t.Fatal(err)
	}

	// rows a and b are created and seen by both handlers
	a, b := &huntRow{Name: "a"}, &huntRow{Name: "b"}
	ops, err := admin.Create(a, b)
	huntTransact(t, admin, ops, err)
	huntEventually(t, "the add events of a and b", func() bool { return h1.count() == 2 && h2.count() == 2 })

	// the connection is lost
	proxy.cut()
	huntEventually(t, "the client to notice the disconnection", func() bool { return !ovs.Connected() })

	// meanwhile row b is deleted
	huntEventually(t, "the administrator to see both rows", func() bool { return admin.Cache().Table("T").Len() == 2 })
	ops, err = admin.WhereCache(func(r *huntRow) bool { return r.Name == "b" }).Delete()
	huntTransact(t, admin, ops, err)

	// the connection comes back and the client reconnects by itself
	proxy.start(t)
	huntEventually(t, "the client to reconnect", func() bool { return ovs.Connected() })
	huntEventually(t, "the cache to hold row a only", func() bool { return ovs.Cache().Table("T").Len() == 1 })
	time.Sleep(200 * time.Millisecond) // let the dispatcher deliver what is queued

	rows, err := ovs.Cache().Table("T").RowsByCondition(nil)
	if err != nil {
		t.Fatal(err)
	}
	inCache := []string{}
	for _, m := range rows {
		inCache = append(inCache, m.(*huntRow).Name)
	}
	sort.Strings(inCache)

	for _, h := range []*huntLog{h1, h2} {
		fromLog := h.names()
		if !reflect.DeepEqual(fromLog, inCache) {
			t.Errorf("handler %s: expected the events %v, applied in delivery order to an empty table, to give the rows of the cache %v; they give %v (row b left the cache without a delete event)",
				h.name, h.seq, inCache, fromLog)
		}
		if len(h.illegal) > 0 {
			t.Errorf("handler %s: expected the events of each row to alternate add, updates, delete; got %v", h.name, h.illegal)
		}
	}
}
