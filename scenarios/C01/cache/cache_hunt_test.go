package cache

import (
	"encoding/json"
	"reflect"
	"testing"

	"github.com/ovn-org/libovsdb/model"
	"github.com/ovn-org/libovsdb/ovsdb"
	"github.com/stretchr/testify/require"
)

type huntRow struct {
	UUID string            `ovsdb:"_uuid"`
	Tags []string          `ovsdb:"tags"`
	One  map[string]string `ovsdb:"one"`
}

func huntCache(t *testing.T, indexes string) *TableCache {
	var schema ovsdb.DatabaseSchema
	require.NoError(t, json.Unmarshal([]byte(`{"name":"H","version":"0.0.1","tables":{"T":{"columns":{
	 "tags":{"type":{"key":"string","min":0,"max":"unlimited"}},
	 "one":{"type":{"key":"string","value":"string","min":0,"max":1}}}`+indexes+`}}}`), &schema))
	cm, err := model.NewClientDBModel("H", map[string]model.Model{"T": &huntRow{}})
	require.NoError(t, err)
	dbModel, errs := model.NewDatabaseModel(schema, cm)
	require.Empty(t, errs)
	tc, err := NewTableCache(dbModel, nil, nil)
	require.NoError(t, err)
	return tc
}

func huntUpdates2(t *testing.T, s string) ovsdb.TableUpdates2 {
	var tu ovsdb.TableUpdates2
	require.NoError(t, json.Unmarshal([]byte(s), &tu))
	return tu
}

// A map column that holds at most one pair is not a "composite" column for
// ovsdb-server (n_max == 1): ovsdb-server(7) says that "for columns with single
// value" the modify row of update2/update3 holds the value of the new column,
// and ovsdb_datum_diff() does so for every type with n_max <= 1, maps included.
// The reference stream below is what ovsdb-server sends for
//
//	{"a":"1"} -> {"b":"2"}   modify: one = ["map",[["b","2"]]]
//	{"b":"2"} -> {}          modify: one = ["map",[]]
func TestHuntModifyOfMapWithAtMostOnePair(t *testing.T) {
	t.Skip("item of the first audit, triaged in DESIGN.md 7.1: outside the property as stated, or recorded under another check")
	tc := huntCache(t, "")
	require.NoError(t, tc.Populate2(huntUpdates2(t, `{"T":{"u1":{"initial":{"one":["map",[["a","1"]]]}}}}`)))

	require.NoError(t, tc.Populate2(huntUpdates2(t, `{"T":{"u1":{"modify":{"one":["map",[["b","2"]]]}}}}`)))
	got := tc.Table("T").Row("u1").(*huntRow).One
	want := map[string]string{"b": "2"}
	if !reflect.DeepEqual(got, want) {
		t.Errorf("after the database replaced {a:1} by {b:2} in a map column with max 1: expected the cache to hold %v, it holds %v", want, got)
	}

	// whatever the cache holds now, the database empties the column
	require.NoError(t, tc.Populate2(huntUpdates2(t, `{"T":{"u1":{"modify":{"one":["map",[]]}}}}`)))
	got = tc.Table("T").Row("u1").(*huntRow).One
	if len(got) != 0 {
		t.Errorf("after the database emptied a map column with max 1: expected the cache to hold an empty map, it holds %v", got)
	}
}

// A schema index over a set column is legal (RFC 7047 only excludes ephemeral
// columns from indexes). Mirroring a row of such a table must not panic.
func TestHuntIndexOverSetColumn(t *testing.T) {
	tc := huntCache(t, `,"indexes":[["tags"]]`)
	defer func() {
		if r := recover(); r != nil {
			t.Errorf("expected the initial row to be stored in the cache, Populate2 panicked: %v", r)
		}
	}()
	err := tc.Populate2(huntUpdates2(t, `{"T":{"u1":{"initial":{"tags":["set",["a","b"]]}}}}`))
	require.NoError(t, err)
	if tc.Table("T").Row("u1") == nil {
		t.Errorf("expected row u1 in the cache")
	}
}
