package server

import (
	"context"
	"encoding/json"
	"fmt"
	"math/rand"
	"os"
	"reflect"
	"sort"
	"sync/atomic"
	"testing"
	"time"

	"github.com/ovn-org/libovsdb/client"
	"github.com/ovn-org/libovsdb/database/inmemory"
	"github.com/ovn-org/libovsdb/model"
	"github.com/ovn-org/libovsdb/ovsdb"
	"github.com/stretchr/testify/require"
)

const fuzzSchema = `
{
  "name": "Fuzz",
  "version": "0.0.1",
  "tables": {
    "T": {
      "columns": {
        "name":  {"type": "string"},
        "imm":   {"type": "string", "mutable": false},
        "opt":   {"type": {"key": "string", "min": 0, "max": 1}},
        "opti":  {"type": {"key": "integer", "min": 0, "max": 1}},
        "tags":  {"type": {"key": "string", "min": 0, "max": "unlimited"}},
        "nums":  {"type": {"key": "integer", "min": 0, "max": "unlimited"}},
        "ids":   {"type": {"key": "string", "value": "string", "min": 0, "max": "unlimited"}},
        "cnt":   {"type": {"key": "string", "value": "integer", "min": 0, "max": "unlimited"}},
        "num":   {"type": "integer"},
        "flag":  {"type": "boolean"},
        "rl":    {"type": "real"},
        "kids":  {"type": {"key": {"type": "uuid", "refTable": "V"}, "min": 0, "max": "unlimited"}},
        "weak":  {"type": {"key": {"type": "uuid", "refTable": "U", "refType": "weak"}, "min": 0, "max": "unlimited"}},
        "wopt":  {"type": {"key": {"type": "uuid", "refTable": "U", "refType": "weak"}, "min": 0, "max": 1}},
        "wmap":  {"type": {"key": "string", "value": {"type": "uuid", "refTable": "U", "refType": "weak"}, "min": 0, "max": "unlimited"}},
        "kmap":  {"type": {"key": {"type": "uuid", "refTable": "U", "refType": "weak"}, "value": "string", "min": 0, "max": "unlimited"}},
        "imap":  {"type": {"key": "integer", "value": "string", "min": 0, "max": "unlimited"}},
        "optb":  {"type": {"key": "boolean", "min": 0, "max": 1}},
        "optr":  {"type": {"key": "real", "min": 0, "max": 1}},
        "optu":  {"type": {"key": "uuid", "min": 0, "max": 1}},
        "enum":  {"type": {"key": {"type": "string", "enum": ["set", ["x", "y", "z"]]}}},
        "enums": {"type": {"key": {"type": "string", "enum": ["set", ["x", "y", "z"]]}, "min": 0, "max": "unlimited"}},
        "pair":  {"type": {"key": "integer", "min": 0, "max": 2}},
        "one":   {"type": {"key": "string", "value": "string", "min": 0, "max": 1}}
      },
      "isRoot": true,
      "indexes": [["name"]]
    },
    "U": {
      "columns": {
        "name": {"type": "string"},
        "val":  {"type": "integer"}
      },
      "isRoot": true
    },
    "V": {
      "columns": {
        "name": {"type": "string"},
        "kids": {"type": {"key": {"type": "uuid", "refTable": "V"}, "min": 0, "max": "unlimited"}}
      },
      "isRoot": false
    }
  }
}`

type fuzzT struct {
	UUID  string            `ovsdb:"_uuid"`
	Name  string            `ovsdb:"name"`
	Imm   string            `ovsdb:"imm"`
	Opt   *string           `ovsdb:"opt"`
	Opti  *int              `ovsdb:"opti"`
	Tags  []string          `ovsdb:"tags"`
	Nums  []int             `ovsdb:"nums"`
	IDs   map[string]string `ovsdb:"ids"`
	Cnt   map[string]int    `ovsdb:"cnt"`
	Num   int               `ovsdb:"num"`
	Flag  bool              `ovsdb:"flag"`
	Rl    float64           `ovsdb:"rl"`
	Kids  []string          `ovsdb:"kids"`
	Weak  []string          `ovsdb:"weak"`
	Wopt  *string           `ovsdb:"wopt"`
	Wmap  map[string]string `ovsdb:"wmap"`
	Kmap  map[string]string `ovsdb:"kmap"`
	Imap  map[int]string    `ovsdb:"imap"`
	Optb  *bool             `ovsdb:"optb"`
	Optr  *float64          `ovsdb:"optr"`
	Optu  *string           `ovsdb:"optu"`
	Enum  string            `ovsdb:"enum"`
	Enums []string          `ovsdb:"enums"`
	Pair  []int             `ovsdb:"pair"`
	One   map[string]string `ovsdb:"one"`
}

type fuzzU struct {
	UUID string `ovsdb:"_uuid"`
	Name string `ovsdb:"name"`
	Val  int    `ovsdb:"val"`
}

type fuzzV struct {
	UUID string   `ovsdb:"_uuid"`
	Name string   `ovsdb:"name"`
	Kids []string `ovsdb:"kids"`
}

func fuzzModel(t testing.TB) model.ClientDBModel {
	m, err := model.NewClientDBModel("Fuzz", map[string]model.Model{"T": &fuzzT{}, "U": &fuzzU{}, "V": &fuzzV{}})
	require.NoError(t, err)
	return m
}

var fuzzSock int32

func fuzzServer(t testing.TB) (string, func()) {
	var schema ovsdb.DatabaseSchema
	require.NoError(t, json.Unmarshal([]byte(fuzzSchema), &schema))
	full := fuzzModel(t)
	db := inmemory.NewDatabase(map[string]model.ClientDBModel{"Fuzz": full})
	dbModel, errs := model.NewDatabaseModel(schema, full)
	require.Empty(t, errs)
	srv, err := NewOvsdbServer(db, dbModel)
	require.NoError(t, err)
	sock := fmt.Sprintf("/tmp/hunt-c01-fuzz-%d-%d.sock", os.Getpid(), atomic.AddInt32(&fuzzSock, 1))
	os.Remove(sock)
	go func() { _ = srv.Serve("unix", sock) }()
	require.Eventually(t, srv.Ready, time.Second, 5*time.Millisecond)
	return "unix:" + sock, func() {
		srv.Close()
		os.Remove(sock)
	}
}

// normalize makes nil and empty collections equal and sorts sets
func fuzzNormalize(m model.Model) model.Model {
	m = model.Clone(m)
	v := reflect.ValueOf(m).Elem()
	for i := 0; i < v.NumField(); i++ {
		f := v.Field(i)
		switch f.Kind() {
		case reflect.Slice:
			if f.Len() == 0 {
				f.Set(reflect.Zero(f.Type()))
				continue
			}
			switch s := f.Interface().(type) {
			case []string:
				sort.Strings(s)
			case []int:
				sort.Ints(s)
			}
		case reflect.Map:
			if f.Len() == 0 {
				f.Set(reflect.Zero(f.Type()))
			}
		}
	}
	return m
}

type fuzzWatcher struct {
	name    string
	c       client.Client
	columns map[string][]string // table -> columns (nil = all)
}

func (w *fuzzWatcher) check(t *testing.T, oracle client.Client, step int, history []string) bool {
	ok := true
	dbModel := oracle.Cache().DatabaseModel()
	for table, cols := range w.columns {
		srvRows := huntSelect(t, oracle, table)
		cached := w.c.Cache().Table(table).Rows()
		if len(srvRows) != len(cached) {
			t.Errorf("[%s step %d] table %s: database holds %d rows, cache holds %d", w.name, step, table, len(srvRows), len(cached))
			ok = false
		}
		for uuid, row := range srvRows {
			row := row
			want, err := model.CreateModel(dbModel, table, &row, uuid)
			require.NoError(t, err)
			got, found := cached[uuid]
			if !found {
				t.Errorf("[%s step %d] table %s: row %s is in the database but not in the cache", w.name, step, table, uuid)
				ok = false
				continue
			}
			want = fuzzNormalize(want)
			got = fuzzNormalize(got)
			if cols == nil {
				if !reflect.DeepEqual(want, got) {
					wj, _ := json.Marshal(want)
					gj, _ := json.Marshal(got)
					t.Errorf("[%s step %d] table %s row %s:\n database: %s\n cache:    %s", w.name, step, table, uuid, wj, gj)
					ok = false
				}
				continue
			}
			wi, _ := dbModel.NewModelInfo(want)
			gi, _ := dbModel.NewModelInfo(got)
			for _, col := range cols {
				wv, _ := wi.FieldByColumn(col)
				gv, _ := gi.FieldByColumn(col)
				if !reflect.DeepEqual(wv, gv) {
					wj, _ := json.Marshal(wv)
					gj, _ := json.Marshal(gv)
					t.Errorf("[%s step %d] table %s row %s column %s: database %s, cache %s", w.name, step, table, uuid, col, wj, gj)
					ok = false
				}
			}
		}
	}
	if !ok {
		n := len(history)
		from := n - 3
		if from < 0 {
			from = 0
		}
		for _, h := range history[from:] {
			t.Logf("history: %s", h)
		}
	}
	return ok
}

type fuzzState struct {
	namedT []string
	r      *rand.Rand
	tIDs   []string
	uIDs   []string
	names  int
}

var fuzzStrings = []string{"a", "b", "c", "d", ""}

func (s *fuzzState) str() string { return fuzzStrings[s.r.Intn(len(fuzzStrings))] }

func (s *fuzzState) strSet() ovsdb.OvsSet {
	n := s.r.Intn(4)
	seen := map[string]bool{}
	out := []interface{}{}
	for i := 0; i < n; i++ {
		v := s.str()
		if !seen[v] {
			seen[v] = true
			out = append(out, v)
		}
	}
	return ovsdb.OvsSet{GoSet: out}
}

func (s *fuzzState) intSet() ovsdb.OvsSet {
	n := s.r.Intn(4)
	seen := map[int]bool{}
	out := []interface{}{}
	for i := 0; i < n; i++ {
		v := s.r.Intn(4)
		if !seen[v] {
			seen[v] = true
			out = append(out, v)
		}
	}
	return ovsdb.OvsSet{GoSet: out}
}

func (s *fuzzState) strMap() ovsdb.OvsMap {
	n := s.r.Intn(4)
	out := map[interface{}]interface{}{}
	for i := 0; i < n; i++ {
		out[s.str()] = s.str()
	}
	return ovsdb.OvsMap{GoMap: out}
}

func (s *fuzzState) intMap() ovsdb.OvsMap {
	n := s.r.Intn(4)
	out := map[interface{}]interface{}{}
	for i := 0; i < n; i++ {
		out[s.str()] = s.r.Intn(3)
	}
	return ovsdb.OvsMap{GoMap: out}
}

func (s *fuzzState) uSet(extra []string) ovsdb.OvsSet {
	out := []interface{}{}
	pool := append(append([]string{"11111111-2222-3333-4444-555555555555"}, s.uIDs...), extra...)
	seen := map[string]bool{}
	n := s.r.Intn(3)
	for i := 0; i < n && len(pool) > 0; i++ {
		v := pool[s.r.Intn(len(pool))]
		if !seen[v] {
			seen[v] = true
			out = append(out, ovsdb.UUID{GoUUID: v})
		}
	}
	return ovsdb.OvsSet{GoSet: out}
}

func (s *fuzzState) uMap(extra []string) ovsdb.OvsMap {
	out := map[interface{}]interface{}{}
	pool := append(append([]string{"11111111-2222-3333-4444-555555555555"}, s.uIDs...), extra...)
	n := s.r.Intn(3)
	for i := 0; i < n && len(pool) > 0; i++ {
		out[s.str()] = ovsdb.UUID{GoUUID: pool[s.r.Intn(len(pool))]}
	}
	return ovsdb.OvsMap{GoMap: out}
}

func (s *fuzzState) optStr() interface{} {
	if s.r.Intn(2) == 0 {
		return ovsdb.OvsSet{GoSet: []interface{}{}}
	}
	return ovsdb.OvsSet{GoSet: []interface{}{s.str()}}
}

func (s *fuzzState) optInt() interface{} {
	if s.r.Intn(2) == 0 {
		return ovsdb.OvsSet{GoSet: []interface{}{}}
	}
	return ovsdb.OvsSet{GoSet: []interface{}{s.r.Intn(3)}}
}

func (s *fuzzState) optU(extra []string) interface{} {
	pool := append(append([]string{"11111111-2222-3333-4444-555555555555"}, s.uIDs...), extra...)
	if s.r.Intn(2) == 0 || len(pool) == 0 {
		return ovsdb.OvsSet{GoSet: []interface{}{}}
	}
	return ovsdb.OvsSet{GoSet: []interface{}{ovsdb.UUID{GoUUID: pool[s.r.Intn(len(pool))]}}}
}

// randomColumns returns a random row of mutable columns of T
func (s *fuzzState) randomColumns(named []string, all bool) ovsdb.Row {
	row := ovsdb.Row{}
	pick := func() bool { return all || s.r.Intn(4) == 0 }
	if pick() {
		row["opt"] = s.optStr()
	}
	if pick() {
		row["opti"] = s.optInt()
	}
	if pick() {
		row["tags"] = s.strSet()
	}
	if pick() {
		row["nums"] = s.intSet()
	}
	if pick() {
		row["ids"] = s.strMap()
	}
	if pick() {
		row["cnt"] = s.intMap()
	}
	if pick() {
		row["num"] = s.r.Intn(3)
	}
	if pick() {
		row["flag"] = s.r.Intn(2) == 0
	}
	if pick() {
		row["rl"] = float64(s.r.Intn(3)) / 2
	}
	if pick() {
		row["weak"] = s.uSet(named)
	}
	if pick() {
		row["wopt"] = s.optU(named)
	}
	if pick() {
		row["wmap"] = s.uMap(named)
	}
	if pick() {
		m := s.uMap(named)
		out := map[interface{}]interface{}{}
		for _, v := range m.GoMap {
			out[v] = s.str()
		}
		row["kmap"] = ovsdb.OvsMap{GoMap: out}
	}
	if pick() {
		out := map[interface{}]interface{}{}
		for i := s.r.Intn(3); i > 0; i-- {
			out[s.r.Intn(3)] = s.str()
		}
		row["imap"] = ovsdb.OvsMap{GoMap: out}
	}
	if pick() {
		if s.r.Intn(2) == 0 {
			row["optb"] = ovsdb.OvsSet{GoSet: []interface{}{}}
		} else {
			row["optb"] = ovsdb.OvsSet{GoSet: []interface{}{s.r.Intn(2) == 0}}
		}
	}
	if pick() {
		if s.r.Intn(2) == 0 {
			row["optr"] = ovsdb.OvsSet{GoSet: []interface{}{}}
		} else {
			row["optr"] = ovsdb.OvsSet{GoSet: []interface{}{float64(s.r.Intn(3)) / 2}}
		}
	}
	if pick() {
		if s.r.Intn(2) == 0 {
			row["optu"] = ovsdb.OvsSet{GoSet: []interface{}{}}
		} else {
			row["optu"] = ovsdb.OvsSet{GoSet: []interface{}{ovsdb.UUID{GoUUID: fmt.Sprintf("aaaaaaaa-0000-0000-0000-00000000000%d", s.r.Intn(3))}}}
		}
	}
	enums := []string{"x", "y", "z"}
	if pick() {
		row["enum"] = enums[s.r.Intn(3)]
	}
	if pick() {
		out := []interface{}{}
		for i, e := range enums {
			if s.r.Intn(2) == 0 {
				_ = i
				out = append(out, e)
			}
		}
		row["enums"] = ovsdb.OvsSet{GoSet: out}
	}
	if pick() {
		out := []interface{}{}
		for i := 0; i < 3 && len(out) < 2; i++ {
			if s.r.Intn(2) == 0 {
				out = append(out, i)
			}
		}
		row["pair"] = ovsdb.OvsSet{GoSet: out}
	}
	if pick() {
		out := map[interface{}]interface{}{}
		if s.r.Intn(3) != 0 {
			out[s.str()] = s.str()
		}
		row["one"] = ovsdb.OvsMap{GoMap: out}
	}
	return row
}

func (s *fuzzState) whereT() []ovsdb.Condition {
	switch {
	case len(s.namedT) > 0 && s.r.Intn(3) == 0:
		id := s.namedT[s.r.Intn(len(s.namedT))]
		return []ovsdb.Condition{{Column: "_uuid", Function: ovsdb.ConditionEqual, Value: ovsdb.UUID{GoUUID: id}}}
	case len(s.tIDs) > 0 && s.r.Intn(4) != 0:
		id := s.tIDs[s.r.Intn(len(s.tIDs))]
		return []ovsdb.Condition{{Column: "_uuid", Function: ovsdb.ConditionEqual, Value: ovsdb.UUID{GoUUID: id}}}
	case s.r.Intn(2) == 0:
		return []ovsdb.Condition{{Column: "num", Function: ovsdb.ConditionEqual, Value: s.r.Intn(3)}}
	default:
		return []ovsdb.Condition{}
	}
}

func outList(m ovsdb.Mutation) []ovsdb.Mutation { return []ovsdb.Mutation{m} }

func (s *fuzzState) mutationsTail() []ovsdb.Mutation {
	if s.r.Intn(2) == 0 {
		return nil
	}
	return []ovsdb.Mutation{{Column: "tags", Mutator: ovsdb.MutateOperationInsert, Value: s.strSet()}}
}

func (s *fuzzState) mutations() []ovsdb.Mutation {
	var out []ovsdb.Mutation
	n := 1 + s.r.Intn(3)
	for i := 0; i < n; i++ {
		insdel := ovsdb.MutateOperationInsert
		if s.r.Intn(2) == 0 {
			insdel = ovsdb.MutateOperationDelete
		}
		switch s.r.Intn(11) {
		case 8:
			m := s.uMap(nil)
			out := map[interface{}]interface{}{}
			for _, v := range m.GoMap {
				out[v] = s.str()
			}
			out2 := []interface{}{}
			for _, v := range m.GoMap {
				out2 = append(out2, v)
			}
			if s.r.Intn(2) == 0 {
				out0 := ovsdb.OvsMap{GoMap: out}
				out1 := ovsdb.Mutation{Column: "kmap", Mutator: insdel, Value: out0}
				out3 := out1
				out = nil
				out2 = nil
				outFinal := out3
				return append(outList(outFinal), s.mutationsTail()...)
			}
			return append(outList(ovsdb.Mutation{Column: "kmap", Mutator: ovsdb.MutateOperationDelete, Value: ovsdb.OvsSet{GoSet: out2}}), s.mutationsTail()...)
		case 9:
			o := map[interface{}]interface{}{}
			for i := s.r.Intn(3); i > 0; i-- {
				o[s.r.Intn(3)] = s.str()
			}
			out = append(out, ovsdb.Mutation{Column: "imap", Mutator: insdel, Value: ovsdb.OvsMap{GoMap: o}})
		case 10:
			o := []interface{}{}
			for _, e := range []string{"x", "y", "z"} {
				if s.r.Intn(2) == 0 {
					o = append(o, e)
				}
			}
			out = append(out, ovsdb.Mutation{Column: "enums", Mutator: insdel, Value: ovsdb.OvsSet{GoSet: o}})
		case 0:
			out = append(out, ovsdb.Mutation{Column: "tags", Mutator: insdel, Value: s.strSet()})
		case 1:
			out = append(out, ovsdb.Mutation{Column: "nums", Mutator: insdel, Value: s.intSet()})
		case 2:
			out = append(out, ovsdb.Mutation{Column: "ids", Mutator: insdel, Value: s.strMap()})
		case 3:
			out = append(out, ovsdb.Mutation{Column: "ids", Mutator: ovsdb.MutateOperationDelete, Value: s.strSet()})
		case 4:
			out = append(out, ovsdb.Mutation{Column: "cnt", Mutator: insdel, Value: s.intMap()})
		case 5:
			ops := []ovsdb.Mutator{ovsdb.MutateOperationAdd, ovsdb.MutateOperationSubtract, ovsdb.MutateOperationMultiply}
			out = append(out, ovsdb.Mutation{Column: "num", Mutator: ops[s.r.Intn(len(ops))], Value: s.r.Intn(3)})
		case 6:
			out = append(out, ovsdb.Mutation{Column: "weak", Mutator: insdel, Value: s.uSet(nil)})
		case 7:
			out = append(out, ovsdb.Mutation{Column: "wmap", Mutator: insdel, Value: s.uMap(nil)})
		}
	}
	return out
}

func (s *fuzzState) transaction() []ovsdb.Operation {
	var ops []ovsdb.Operation
	var named []string
	s.namedT = nil
	n := 1 + s.r.Intn(6)
	for i := 0; i < n; i++ {
		k := s.r.Intn(12)
		if len(s.tIDs) > 3 && s.r.Intn(3) == 0 {
			k = 9
		}
		switch {
		case k < 2: // insert T
			row := s.randomColumns(named, s.r.Intn(2) == 0)
			s.names++
			row["name"] = fmt.Sprintf("t%d", s.names)
			if s.r.Intn(2) == 0 {
				row["imm"] = s.str()
			}
			// children in V, kept alive by this row
			kids := []interface{}{}
			for j := s.r.Intn(3); j > 0; j-- {
				kn := fmt.Sprintf("kid%d_%d_%d", s.names, i, j)
				ops = append(ops, ovsdb.Operation{Op: ovsdb.OperationInsert, Table: "V", UUIDName: kn, Row: ovsdb.Row{"name": kn}})
				kids = append(kids, ovsdb.UUID{GoUUID: kn})
			}
			row["kids"] = ovsdb.OvsSet{GoSet: kids}
			ops = append(ops, ovsdb.Operation{Op: ovsdb.OperationInsert, Table: "T", Row: row, UUIDName: fmt.Sprintf("trow%d", s.names)})
			s.namedT = append(s.namedT, fmt.Sprintf("trow%d", s.names))
		case k < 3: // insert U
			s.names++
			un := fmt.Sprintf("urow%d", s.names)
			named = append(named, un)
			ops = append(ops, ovsdb.Operation{Op: ovsdb.OperationInsert, Table: "U", UUIDName: un, Row: ovsdb.Row{"name": un, "val": s.r.Intn(3)}})
		case k < 6: // update T
			row := s.randomColumns(named, false)
			if s.r.Intn(6) == 0 {
				row["kids"] = ovsdb.OvsSet{GoSet: []interface{}{}}
			}
			if len(row) == 0 {
				row["num"] = s.r.Intn(3)
			}
			ops = append(ops, ovsdb.Operation{Op: ovsdb.OperationUpdate, Table: "T", Where: s.whereT(), Row: row})
		case k < 9: // mutate T
			ops = append(ops, ovsdb.Operation{Op: ovsdb.OperationMutate, Table: "T", Where: s.whereT(), Mutations: s.mutations()})
		case k < 10: // delete T
			if len(s.tIDs) > 0 {
				id := s.tIDs[s.r.Intn(len(s.tIDs))]
				ops = append(ops, ovsdb.Operation{Op: ovsdb.OperationDelete, Table: "T", Where: []ovsdb.Condition{{Column: "_uuid", Function: ovsdb.ConditionEqual, Value: ovsdb.UUID{GoUUID: id}}}})
			}
		case k < 11: // delete U
			if len(s.uIDs) > 0 {
				id := s.uIDs[s.r.Intn(len(s.uIDs))]
				ops = append(ops, ovsdb.Operation{Op: ovsdb.OperationDelete, Table: "U", Where: []ovsdb.Condition{{Column: "_uuid", Function: ovsdb.ConditionEqual, Value: ovsdb.UUID{GoUUID: id}}}})
			}
		default: // update U
			ops = append(ops, ovsdb.Operation{Op: ovsdb.OperationUpdate, Table: "U", Where: []ovsdb.Condition{}, Row: ovsdb.Row{"val": s.r.Intn(3)}})
		}
	}
	return ops
}

func fuzzClient(t testing.TB, endpoint string) client.Client {
	return huntClientNamed(t, endpoint, fuzzModel(t))
}

func huntClientNamed(t testing.TB, endpoint string, m model.ClientDBModel) client.Client {
	return huntClient(t, endpoint, m)
}

func fuzzWatch(t *testing.T, endpoint, name, method string, partial bool) *fuzzWatcher {
	c := fuzzClient(t, endpoint)
	w := &fuzzWatcher{name: name, c: c}
	var mon *client.Monitor
	if partial {
		row := &fuzzT{}
		mon = c.NewMonitor(client.WithTable(row, &row.Name, &row.Tags, &row.IDs, &row.Opt, &row.Weak, &row.Wmap), client.WithTable(&fuzzU{}))
		w.columns = map[string][]string{"T": {"name", "tags", "ids", "opt", "weak", "wmap"}, "U": nil}
	} else {
		mon = c.NewMonitor(client.WithTable(&fuzzT{}), client.WithTable(&fuzzU{}), client.WithTable(&fuzzV{}))
		w.columns = map[string][]string{"T": nil, "U": nil, "V": nil}
	}
	mon.Method = method
	_, err := c.Monitor(context.Background(), mon)
	require.NoError(t, err)
	return w
}

func TestHuntFuzzMirror(t *testing.T) {
	seeds := []int64{1, 2, 3, 4, 5, 6, 7, 8, 9, 10, 11, 12, 13, 14, 15, 16}
	if v := os.Getenv("HUNT_SEED"); v != "" {
		var s int64
		fmt.Sscan(v, &s)
		seeds = []int64{s}
	}
	for _, seed := range seeds {
		seed := seed
		t.Run(fmt.Sprintf("seed%d", seed), func(t *testing.T) {
			endpoint, stop := fuzzServer(t)
			defer stop()
			oracle := fuzzClient(t, endpoint)
			defer oracle.Disconnect()
			methods := []string{ovsdb.MonitorRPC, ovsdb.ConditionalMonitorRPC, ovsdb.ConditionalMonitorSinceRPC}
			var watchers []*fuzzWatcher
			for _, m := range methods {
				watchers = append(watchers, fuzzWatch(t, endpoint, m+"/all", m, false))
				watchers = append(watchers, fuzzWatch(t, endpoint, m+"/some", m, true))
			}
			defer func() {
				for _, w := range watchers {
					w.c.Disconnect()
				}
			}()
			s := &fuzzState{r: rand.New(rand.NewSource(seed))}
			var history []string
			for step := 0; step < 150; step++ {
				ops := s.transaction()
				if len(ops) == 0 {
					continue
				}
				res, err := oracle.Transact(context.Background(), ops...)
				require.NoError(t, err)
				_, err = ovsdb.CheckOperationResults(res, ops)
				oj, _ := json.Marshal(ops)
				history = append(history, fmt.Sprintf("step %d err=%v ops=%s", step, err, oj))
				if err != nil && os.Getenv("HUNT_VERBOSE") != "" {
					rj, _ := json.Marshal(res)
					t.Logf("failed txn: %s", rj)
				}
				// refresh the known rows
				s.tIDs = s.tIDs[:0]
				for id := range huntSelect(t, oracle, "T") {
					s.tIDs = append(s.tIDs, id)
				}
				sort.Strings(s.tIDs)
				s.uIDs = s.uIDs[:0]
				for id := range huntSelect(t, oracle, "U") {
					s.uIDs = append(s.uIDs, id)
				}
				sort.Strings(s.uIDs)
				if step%40 == 20 {
					m := methods[s.r.Intn(3)]
					watchers = append(watchers, fuzzWatch(t, endpoint, fmt.Sprintf("%s/late%d", m, step), m, s.r.Intn(2) == 0))
				}
				for _, w := range watchers {
					if !w.check(t, oracle, step, history) {
						return
					}
				}
				if os.Getenv("HUNT_VERBOSE") != "" && step%50 == 49 {
					rj, _ := json.Marshal(watchers[1].c.Cache().Table("T").Rows())
					t.Logf("step %d: %d watchers; T as cached by %s: %s", step, len(watchers), watchers[1].name, rj)
				}
			}
		})
	}
}
