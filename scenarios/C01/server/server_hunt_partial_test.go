package server

import (
	"fmt"
	"context"
	"testing"
	"time"

	"github.com/ovn-org/libovsdb/client"
	"github.com/ovn-org/libovsdb/ovsdb"
	"github.com/stretchr/testify/require"
)

// A client whose model of table T leaves some columns of the schema out
// monitors the table (MonitorAll). A transaction that changes a column the
// model does not have together with one it has must still be mirrored.
func TestHuntPartialModelModify(t *testing.T) {
	for _, method := range []string{ovsdb.MonitorRPC, ovsdb.ConditionalMonitorRPC, ovsdb.ConditionalMonitorSinceRPC} {
		t.Run(method, func(t *testing.T) {
			endpoint, stop := huntServer(t)
			defer stop()
			writer := huntClient(t, endpoint, huntFullModel(t))
			defer writer.Disconnect()
			c := huntClient(t, endpoint, huntSmallModel(t))
			defer c.Disconnect()

			m2 := c.NewMonitor(client.WithTable(&huntTSmall{}), client.WithTable(&huntU{}))
			m2.Method = method
			_, err := c.Monitor(context.Background(), m2)
			require.NoError(t, err)

			row := &huntT{UUID: "r", Name: "one", Num: 1, Extra: "x"}
			ops, err := writer.Create(row)
			require.NoError(t, err)
			res := huntTransact(t, writer, ops...)
			uuid := res[0].UUID.GoUUID

			require.Eventually(t, func() bool {
				return c.Cache().Table("T").Row(uuid) != nil
			}, time.Second, 5*time.Millisecond)

			// one transaction: change "extra" (not in the small model) and "num" (in it)
			huntTransact(t, writer, ovsdb.Operation{
				Op:    ovsdb.OperationUpdate,
				Table: "T",
				Where: []ovsdb.Condition{{Column: "_uuid", Function: ovsdb.ConditionEqual, Value: ovsdb.UUID{GoUUID: uuid}}},
				Row:   ovsdb.Row{"extra": "y", "num": 2},
			}, ovsdb.Operation{
				Op:    ovsdb.OperationInsert,
				Table: "U",
				Row:   ovsdb.Row{"name": "u1", "val": 7},
			})
			// quiescence: the server calls the client synchronously, so by now
			// the notification was handled; still allow some slack
			time.Sleep(100 * time.Millisecond)

			srvRow := huntSelect(t, writer, "T")[uuid]
			got := c.Cache().Table("T").Row(uuid).(*huntTSmall)
			if fmt.Sprint(srvRow["num"]) != fmt.Sprint(got.Num) {
				t.Errorf("expected cached T.num == %v as held by the database, cache holds %v", srvRow["num"], got.Num)
			}
			if n := len(c.Cache().Table("U").Rows()); n != 1 {
				t.Errorf("expected 1 row of U in the cache as in the database, cache holds %d", n)
			}
		})
	}
}
