package server

import (
	"context"
	"encoding/json"
	"fmt"
	"os"
	"sync/atomic"
	"testing"
	"time"

	"github.com/go-logr/logr"
	"github.com/ovn-org/libovsdb/client"
	"github.com/ovn-org/libovsdb/database/inmemory"
	"github.com/ovn-org/libovsdb/model"
	"github.com/ovn-org/libovsdb/ovsdb"
	"github.com/stretchr/testify/require"
)

const huntSchema = `
{
  "name": "Hunt",
  "version": "0.0.1",
  "tables": {
    "T": {
      "columns": {
        "name":  {"type": "string"},
        "imm":   {"type": "string", "mutable": false},
        "opt":   {"type": {"key": "string", "min": 0, "max": 1}},
        "tags":  {"type": {"key": "string", "min": 0, "max": "unlimited"}},
        "pair":  {"type": {"key": "integer", "min": 0, "max": 2}},
        "ids":   {"type": {"key": "string", "value": "string", "min": 0, "max": "unlimited"}},
        "num":   {"type": "integer"},
        "extra": {"type": "string"}
      },
      "isRoot": true,
      "indexes": [["name"]]
    },
    "U": {
      "columns": {
        "name": {"type": "string"},
        "val":  {"type": "integer"}
      },
      "isRoot": true
    }
  }
}`

// huntT is the full model of table T
type huntT struct {
	UUID  string            `ovsdb:"_uuid"`
	Name  string            `ovsdb:"name"`
	Imm   string            `ovsdb:"imm"`
	Opt   *string           `ovsdb:"opt"`
	Tags  []string          `ovsdb:"tags"`
	Pair  []int             `ovsdb:"pair"`
	IDs   map[string]string `ovsdb:"ids"`
	Num   int               `ovsdb:"num"`
	Extra string            `ovsdb:"extra"`
}

// huntTSmall is a model of table T that leaves column "extra" (and others) out
type huntTSmall struct {
	UUID string   `ovsdb:"_uuid"`
	Name string   `ovsdb:"name"`
	Num  int      `ovsdb:"num"`
	Tags []string `ovsdb:"tags"`
}

type huntU struct {
	UUID string `ovsdb:"_uuid"`
	Name string `ovsdb:"name"`
	Val  int    `ovsdb:"val"`
}

func huntFullModel(t testing.TB) model.ClientDBModel {
	m, err := model.NewClientDBModel("Hunt", map[string]model.Model{"T": &huntT{}, "U": &huntU{}})
	require.NoError(t, err)
	return m
}

func huntSmallModel(t testing.TB) model.ClientDBModel {
	m, err := model.NewClientDBModel("Hunt", map[string]model.Model{"T": &huntTSmall{}, "U": &huntU{}})
	require.NoError(t, err)
	return m
}

var huntSockCounter int32

// huntServer starts an in-process server holding the Hunt database
func huntServer(t testing.TB) (string, func()) {
	var schema ovsdb.DatabaseSchema
	require.NoError(t, json.Unmarshal([]byte(huntSchema), &schema))
	full := huntFullModel(t)
	db := inmemory.NewDatabase(map[string]model.ClientDBModel{"Hunt": full})
	dbModel, errs := model.NewDatabaseModel(schema, full)
	require.Empty(t, errs)
	srv, err := NewOvsdbServer(db, dbModel)
	require.NoError(t, err)
	sock := fmt.Sprintf("/tmp/hunt-c01-%d-%d.sock", os.Getpid(), atomic.AddInt32(&huntSockCounter, 1))
	os.Remove(sock)
	go func() {
		_ = srv.Serve("unix", sock)
	}()
	require.Eventually(t, srv.Ready, time.Second, 5*time.Millisecond)
	return "unix:" + sock, func() {
		srv.Close()
		os.Remove(sock)
	}
}

func huntClient(t testing.TB, endpoint string, m model.ClientDBModel) client.Client {
	quiet := logr.Discard()
	c, err := client.NewOVSDBClient(m, client.WithEndpoint(endpoint), client.WithLogger(&quiet))
	require.NoError(t, err)
	require.NoError(t, c.Connect(context.Background()))
	return c
}

// huntTransact runs the operations and requires that they all succeeded
func huntTransact(t testing.TB, c client.Client, ops ...ovsdb.Operation) []ovsdb.OperationResult {
	res, err := c.Transact(context.Background(), ops...)
	require.NoError(t, err)
	opErrs, err := ovsdb.CheckOperationResults(res, ops)
	require.NoErrorf(t, err, "%+v", opErrs)
	return res
}

// huntSelect returns the rows of a table as the server holds them, by uuid
func huntSelect(t testing.TB, c client.Client, table string) map[string]ovsdb.Row {
	res := huntTransact(t, c, ovsdb.Operation{Op: ovsdb.OperationSelect, Table: table, Where: []ovsdb.Condition{}})
	out := map[string]ovsdb.Row{}
	for _, r := range res[0].Rows {
		out[r["_uuid"].(ovsdb.UUID).GoUUID] = r
	}
	return out
}
