package server

import (
	"context"
	"encoding/json"
	"fmt"
	"os"
	"testing"
	"time"

	"github.com/google/uuid"
	"github.com/ovn-org/libovsdb/client"
	"github.com/ovn-org/libovsdb/database/inmemory"
	"github.com/ovn-org/libovsdb/model"
	"github.com/ovn-org/libovsdb/ovsdb"
	"github.com/stretchr/testify/require"
)

// A monitor may name a table more than once (RFC 7047 4.1.5: a table maps to
// one <monitor-request> or to an array of them, each with its own columns).
// NewMonitor accepts WithTable twice for one table without an error, and
// Monitor() succeeds; the cache must then mirror every column that was asked
// for.

const huntDupSchema = `{"name": "Dup", "version": "0.0.1", "tables": {"T": {"isRoot": true, "columns": {
  "s": {"type": "string"}, "i": {"type": "integer"}, "b": {"type": "boolean"}}}}}`

type huntDupT struct {
	UUID string `ovsdb:"_uuid"`
	S    string `ovsdb:"s"`
	I    int    `ovsdb:"i"`
	B    bool   `ovsdb:"b"`
}

func TestHuntMonitorNamesTableTwice(t *testing.T) {
	for _, method := range []string{ovsdb.MonitorRPC, ovsdb.ConditionalMonitorRPC, ovsdb.ConditionalMonitorSinceRPC} {
		t.Run(method, func(t *testing.T) {
			cm, err := model.NewClientDBModel("Dup", map[string]model.Model{"T": &huntDupT{}})
			require.NoError(t, err)
			var schema ovsdb.DatabaseSchema
			require.NoError(t, json.Unmarshal([]byte(huntDupSchema), &schema))
			db := inmemory.NewDatabase(map[string]model.ClientDBModel{"Dup": cm})
			dbModel, errs := model.NewDatabaseModel(schema, cm)
			require.Empty(t, errs)
			srv, err := NewOvsdbServer(db, dbModel)
			require.NoError(t, err)
			sock := fmt.Sprintf("/tmp/hunt-dup-%s.sock", uuid.NewString())
			defer os.Remove(sock)
			go func() { _ = srv.Serve("unix", sock) }()
			defer srv.Close()
			require.Eventually(t, srv.Ready, time.Second, 5*time.Millisecond)

			c, err := client.NewOVSDBClient(cm, client.WithEndpoint("unix:"+sock))
			require.NoError(t, err)
			require.NoError(t, c.Connect(context.Background()))
			defer c.Disconnect()

			// a row that exists before the monitor, one inserted afterwards
			reply, err := c.Transact(context.Background(), ovsdb.Operation{Op: "insert", Table: "T", Row: ovsdb.Row{"s": "before", "i": 1, "b": true}})
			require.NoError(t, err)
			require.Empty(t, reply[0].Error)
			before := reply[0].UUID.GoUUID

			m := &huntDupT{}
			mon := c.NewMonitor(client.WithTable(m, &m.S), client.WithTable(m, &m.I))
			mon.Method = method
			require.Empty(t, mon.Errors, "NewMonitor accepts the two requests for table T")
			_, err = c.Monitor(context.Background(), mon)
			if err != nil {
				return // refused with an error: nothing is silently left unmonitored
			}

			reply, err = c.Transact(context.Background(), ovsdb.Operation{Op: "insert", Table: "T", Row: ovsdb.Row{"s": "after", "i": 2, "b": true}})
			require.NoError(t, err)
			require.Empty(t, reply[0].Error)
			after := reply[0].UUID.GoUUID

			for _, id := range []string{before, after} {
				inDB, err := db.Get("Dup", "T", id)
				require.NoError(t, err)
				row := c.Cache().Table("T").Row(id)
				require.NotNil(t, row, "row %s is in the cache", id)
				want, got := inDB.(*huntDupT), row.(*huntDupT)
				if got.S != want.S || got.I != want.I {
					t.Errorf("monitor asked for columns s and i of table T (two WithTable options, no error from NewMonitor or Monitor): "+
						"expected the cached row %s to hold s=%q i=%d as the database does, but the cache holds s=%q i=%d "+
						"(the request for column s was silently dropped)", id, want.S, want.I, got.S, got.I)
				}
			}
		})
	}
}
