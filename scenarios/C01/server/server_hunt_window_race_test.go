package server

import (
	"context"
	"fmt"
	"testing"

	"github.com/ovn-org/libovsdb/client"
	"github.com/ovn-org/libovsdb/ovsdb"
	"github.com/stretchr/testify/require"
)

// Same as TestHuntReadYourWritesInMonitorWindow but without the verif pause
// point: one goroutine adds a monitor on table U while another transacts on
// table T (already monitored). Not deterministic: it fails as soon as one
// Transact returns before its effects are in the cache.
func TestHuntReadYourWritesRace(t *testing.T) {
	t.Skip("item of the first audit, triaged in DESIGN.md 7.1: outside the property as stated, or recorded under another check")
	endpoint, stop := huntServer(t)
	defer stop()
	misses := 0
	const rounds = 150
	for round := 0; round < rounds; round++ {
		c := huntClient(t, endpoint, huntFullModel(t))
		m1 := c.NewMonitor(client.WithTable(&huntT{}))
		m1.Method = ovsdb.ConditionalMonitorSinceRPC
		_, err := c.Monitor(context.Background(), m1)
		require.NoError(t, err)

		start := make(chan struct{})
		monDone := make(chan error, 1)
		go func() {
			<-start
			_, err := c.Monitor(context.Background(), c.NewMonitor(client.WithTable(&huntU{})))
			monDone <- err
		}()
		ops, err := c.Create(&huntT{UUID: "r", Name: fmt.Sprintf("race%d", round)})
		require.NoError(t, err)
		close(start)
		uuid := huntTransact(t, c, ops...)[0].UUID.GoUUID
		if c.Cache().Table("T").Row(uuid) == nil {
			misses++
		}
		require.NoError(t, <-monDone)
		c.Disconnect()
	}
	if misses > 0 {
		t.Errorf("expected the row inserted by the client's own transaction to be in its cache whenever Transact returns; in %d of %d rounds it was not (a monitor was being added concurrently)", misses, rounds)
	}
}
