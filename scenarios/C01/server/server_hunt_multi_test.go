package server

import (
	"context"
	"sort"
	"testing"

	"github.com/ovn-org/libovsdb/client"
	"github.com/ovn-org/libovsdb/model"
	"github.com/ovn-org/libovsdb/ovsdb"
	"github.com/stretchr/testify/require"
)

// Two monitors of one connection watch the same table: the first the columns
// name and tags, the additional one the columns num and tags. The cache must
// mirror the database in every monitored column, after the additional
// monitor's initial contents and after a later transaction.
func TestHuntTwoMonitorsSameTable(t *testing.T) {
	for _, method := range []string{ovsdb.MonitorRPC, ovsdb.ConditionalMonitorRPC, ovsdb.ConditionalMonitorSinceRPC} {
		t.Run(method, func(t *testing.T) {
			endpoint, stop := huntServer(t)
			defer stop()
			c := huntClient(t, endpoint, huntFullModel(t))
			defer c.Disconnect()

			// a row exists before any monitor
			ops, err := c.Create(&huntT{UUID: "r", Name: "one", Num: 1, Tags: []string{"a"}})
			require.NoError(t, err)
			uuid := huntTransact(t, c, ops...)[0].UUID.GoUUID

			row := &huntT{}
			m1 := c.NewMonitor(client.WithTable(row, &row.Name, &row.Tags))
			m1.Method = method
			_, err = c.Monitor(context.Background(), m1)
			require.NoError(t, err, "first monitor")

			m2 := c.NewMonitor(client.WithTable(row, &row.Num, &row.Tags))
			m2.Method = method
			_, err = c.Monitor(context.Background(), m2)
			if err != nil {
				t.Errorf("expected the additional monitor (columns num, tags of T) to be established, Monitor returned: %v", err)
			}
			got, _ := c.Cache().Table("T").Row(uuid).(*huntT)
			require.NotNil(t, got)
			if got.Num != 1 {
				t.Errorf("after the additional monitor's initial contents: database holds num == 1, cache holds num == %d", got.Num)
			}

			// one committed transaction: add "b" to tags, a column both monitors watch
			mops, err := c.Where(&huntT{UUID: uuid}).Mutate(row, model.Mutation{Field: &row.Tags, Mutator: ovsdb.MutateOperationInsert, Value: []string{"b"}})
			require.NoError(t, err)
			huntTransact(t, c, mops...)

			srv := huntSelect(t, c, "T")[uuid]["tags"]
			got, _ = c.Cache().Table("T").Row(uuid).(*huntT)
			require.NotNil(t, got)
			sort.Strings(got.Tags)
			if len(got.Tags) != 2 || got.Tags[0] != "a" || got.Tags[1] != "b" {
				t.Errorf("after inserting \"b\" into tags: database holds %v, cache holds %v", srv, got.Tags)
			}
		})
	}
}
