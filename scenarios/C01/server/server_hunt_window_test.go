//go:build verif

package server

import (
	"context"
	"sync"
	"testing"
	"time"

	"github.com/ovn-org/libovsdb/client"
	"github.com/ovn-org/libovsdb/ovsdb"
	"github.com/stretchr/testify/require"
)

// While an additional monitor of the connection is between receiving its reply
// and applying it, the client transacts on a table its first monitor watches.
// The effects of that transaction must be in the cache when Transact returns.
func TestHuntReadYourWritesInMonitorWindow(t *testing.T) {
	for _, method := range []string{ovsdb.MonitorRPC, ovsdb.ConditionalMonitorRPC, ovsdb.ConditionalMonitorSinceRPC} {
		t.Run(method, func(t *testing.T) {
			endpoint, stop := huntServer(t)
			defer stop()
			c := huntClient(t, endpoint, huntFullModel(t))
			defer c.Disconnect()

			m1 := c.NewMonitor(client.WithTable(&huntT{}))
			m1.Method = method
			_, err := c.Monitor(context.Background(), m1)
			require.NoError(t, err)

			inWindow := make(chan struct{})
			release := make(chan struct{})
			var once sync.Once
			client.VerifHook = func(point string) {
				if point == "monitor.replyReceived" {
					once.Do(func() {
						close(inWindow)
						<-release
					})
				}
			}
			defer func() { client.VerifHook = nil }()

			// second monitor, on another table, pauses in the window
			monDone := make(chan error, 1)
			go func() {
				m2 := c.NewMonitor(client.WithTable(&huntU{}))
				m2.Method = method
				_, err := c.Monitor(context.Background(), m2)
				monDone <- err
			}()
			select {
			case <-inWindow:
			case <-time.After(2 * time.Second):
				t.Fatal("second monitor never reached the window")
			}

			ops, err := c.Create(&huntT{UUID: "r", Name: "one", Num: 1})
			require.NoError(t, err)
			uuid := huntTransact(t, c, ops...)[0].UUID.GoUUID
			inCache := c.Cache().Table("T").Row(uuid) != nil

			close(release)
			require.NoError(t, <-monDone)
			if !inCache {
				t.Errorf("expected row %s inserted by the client's own transaction to be in its cache when Transact returned; it was not (it is there after the pending monitor completed: %v)",
					uuid, c.Cache().Table("T").Row(uuid) != nil)
			}
		})
	}
}
