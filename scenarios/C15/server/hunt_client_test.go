package server

import (
	"context"
	"encoding/json"
	"fmt"
	"math/rand"
	"os"
	"testing"
	"time"

	"github.com/ovn-org/libovsdb/client"
	"github.com/ovn-org/libovsdb/database/inmemory"
	"github.com/ovn-org/libovsdb/model"
	"github.com/ovn-org/libovsdb/ovsdb"
)

func huntClientServer(t *testing.T) (client.Client, *huntEnv, func()) {
	var schema ovsdb.DatabaseSchema
	if err := json.Unmarshal([]byte(huntSchema), &schema); err != nil {
		t.Fatal(err)
	}
	cm, err := model.NewClientDBModel("Hunt", map[string]model.Model{"T": &huntT{}, "U": &huntU{}})
	if err != nil {
		t.Fatal(err)
	}
	dbModel, errs := model.NewDatabaseModel(schema, cm)
	if len(errs) > 0 {
		t.Fatal(errs)
	}
	db := inmemory.NewDatabase(map[string]model.ClientDBModel{"Hunt": cm})
	o, err := NewOvsdbServer(db, dbModel)
	if err != nil {
		t.Fatal(err)
	}
	sock := fmt.Sprintf("/tmp/hunt-c15-%d-%d.sock", os.Getpid(), rand.Intn(100000))
	go func() { _ = o.Serve("unix", sock) }()
	for i := 0; i < 200 && !o.Ready(); i++ {
		time.Sleep(5 * time.Millisecond)
	}
	c, err := client.NewOVSDBClient(cm, client.WithEndpoint("unix:"+sock))
	if err != nil {
		t.Fatal(err)
	}
	if err := c.Connect(context.Background()); err != nil {
		t.Fatal(err)
	}
	return c, &huntEnv{t: t, o: o, db: db}, func() { c.Disconnect(); o.Close(); os.Remove(sock) }
}

// The client API: a row is created under a name, stored as key of a
// uuid-keyed map of another row, and deleted from it by key list, in one
// transaction.
func TestHuntClientDeleteByKeyListNamed(t *testing.T) {
	c, e, done := huntClientServer(t)
	defer done()
	e.seed()
	z := "00000000-0000-0000-0000-00000000000a"
	p := &huntT{Name: "p"}
	ops, err := c.Create(&huntT{UUID: "n", Name: "n", Ref: z})
	if err != nil {
		t.Fatal(err)
	}
	cond := model.Condition{Field: &p.Name, Function: ovsdb.ConditionEqual, Value: "p"}
	op2, err := c.WhereAll(p, cond).Mutate(p, model.Mutation{Field: &p.Kmap, Mutator: ovsdb.MutateOperationInsert, Value: map[string]string{"n": "n"}})
	if err != nil {
		t.Fatal(err)
	}
	op3, err := c.WhereAll(p, cond).Mutate(p, model.Mutation{Field: &p.Kmap, Mutator: ovsdb.MutateOperationDelete, Value: []string{"n"}})
	if err != nil {
		t.Fatal(err)
	}
	ops = append(ops, op2...)
	ops = append(ops, op3...)
	b, _ := json.Marshal(ops)
	t.Logf("ops: %s", b)
	res, err := c.Transact(context.Background(), ops...)
	if err != nil {
		t.Fatal(err)
	}
	rb, _ := json.Marshal(res)
	t.Logf("results: %s", rb)
	if _, err := ovsdb.CheckOperationResults(res, ops); err != nil {
		t.Fatalf("expected the key named 'n' to be inserted and then deleted from kmap of p, got error: %v (%s)", err, rb)
	}
	got := e.tByName("p")
	if _, ok := got.Kmap[res[0].UUID.GoUUID]; ok {
		t.Fatalf("expected key %s (name n) deleted from kmap, have %v", res[0].UUID.GoUUID, got.Kmap)
	}
}

func TestHuntExploreClientAll(t *testing.T) {
	c, e, done := huntClientServer(t)
	defer done()
	e.seed()
	z := "00000000-0000-0000-0000-00000000000a"
	n := "n"
	ops, err := c.Create(
		&huntT{Name: "b", Text: "n", Tags: []string{"n"}, Smap: map[string]string{"n": "n"}, Ref: "n", Oref: &n, Refs: []string{"n", z}, Kmap: map[string]string{"n": "n"}, Vmap: map[string]string{"n": "n"}, Kvmap: map[string]string{"n": "n"}},
		&huntT{UUID: "n", Name: "n", Ref: z},
	)
	if err != nil {
		t.Fatal(err)
	}
	p := &huntT{Name: "p"}
	cond := model.Condition{Field: &p.Name, Function: ovsdb.ConditionEqual, Value: "p"}
	op2, err := c.WhereAll(p, cond).Mutate(p,
		model.Mutation{Field: &p.Refs, Mutator: ovsdb.MutateOperationInsert, Value: []string{"n"}},
		model.Mutation{Field: &p.Kmap, Mutator: ovsdb.MutateOperationInsert, Value: map[string]string{"n": "n"}},
		model.Mutation{Field: &p.Vmap, Mutator: ovsdb.MutateOperationInsert, Value: map[string]string{"n": "n"}},
		model.Mutation{Field: &p.Kvmap, Mutator: ovsdb.MutateOperationInsert, Value: map[string]string{"n": "n"}},
		model.Mutation{Field: &p.Refs, Mutator: ovsdb.MutateOperationDelete, Value: []string{z}},
		model.Mutation{Field: &p.Kvmap, Mutator: ovsdb.MutateOperationDelete, Value: map[string]string{z: "00000000-0000-0000-0000-00000000000b"}},
	)
	if err != nil {
		t.Fatal(err)
	}
	ops = append(ops, op2...)
	// a condition on the named row itself
	nm := &huntT{UUID: "n"}
	op3, err := c.Where(nm).Update(&huntT{Text: "set-by-name"})
	if err != nil {
		t.Logf("update err %v", err)
	}
	ops = append(ops, op3...)
	q := &huntT{}
	op4, err := c.WhereAll(q, model.Condition{Field: &q.Refs, Function: ovsdb.ConditionIncludes, Value: []string{"n"}}).Update(&huntT{Text: "includes-n"})
	if err != nil {
		t.Logf("update err %v", err)
	}
	ops = append(ops, op4...)
	b, _ := json.Marshal(ops)
	t.Logf("ops: %s", b)
	res, err := c.Transact(context.Background(), ops...)
	if err != nil {
		t.Fatal(err)
	}
	rb, _ := json.Marshal(res)
	t.Logf("results: %s", rb)
	for _, r := range e.rows("T") {
		rr := r.(*huntT)
		o := ""
		if rr.Oref != nil {
			o = *rr.Oref
		}
		t.Logf("     T %+v oref=%s", r, o)
	}
}
