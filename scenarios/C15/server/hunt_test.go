package server

import (
	"encoding/json"
	"testing"

	"github.com/ovn-org/libovsdb/database"
	"github.com/ovn-org/libovsdb/database/inmemory"
	"github.com/ovn-org/libovsdb/model"
	"github.com/ovn-org/libovsdb/ovsdb"
)

const huntSchema = `
{
  "name": "Hunt",
  "version": "0.0.1",
  "tables": {
    "T": {
      "isRoot": true,
      "columns": {
        "name":  {"type": "string"},
        "text":  {"type": "string"},
        "tags":  {"type": {"key": "string", "min": 0, "max": "unlimited"}},
        "smap":  {"type": {"key": "string", "value": "string", "min": 0, "max": "unlimited"}},
        "ref":   {"type": {"key": {"type": "uuid"}}},
        "oref":  {"type": {"key": {"type": "uuid"}, "min": 0, "max": 1}},
        "refs":  {"type": {"key": {"type": "uuid"}, "min": 0, "max": "unlimited"}},
        "kmap":  {"type": {"key": {"type": "uuid"}, "value": "string", "min": 0, "max": "unlimited"}},
        "vmap":  {"type": {"key": "string", "value": {"type": "uuid"}, "min": 0, "max": "unlimited"}},
        "kvmap": {"type": {"key": {"type": "uuid"}, "value": {"type": "uuid"}, "min": 0, "max": "unlimited"}}
      }
    },
    "U": {
      "isRoot": true,
      "columns": {
        "name":  {"type": "string"},
        "text":  {"type": "string"},
        "ref":   {"type": {"key": {"type": "uuid"}}},
        "refs":  {"type": {"key": {"type": "uuid"}, "min": 0, "max": "unlimited"}},
        "kmap":  {"type": {"key": {"type": "uuid"}, "value": "string", "min": 0, "max": "unlimited"}}
      }
    }
  }
}`

type huntT struct {
	UUID  string            `ovsdb:"_uuid"`
	Name  string            `ovsdb:"name"`
	Text  string            `ovsdb:"text"`
	Tags  []string          `ovsdb:"tags"`
	Smap  map[string]string `ovsdb:"smap"`
	Ref   string            `ovsdb:"ref"`
	Oref  *string           `ovsdb:"oref"`
	Refs  []string          `ovsdb:"refs"`
	Kmap  map[string]string `ovsdb:"kmap"`
	Vmap  map[string]string `ovsdb:"vmap"`
	Kvmap map[string]string `ovsdb:"kvmap"`
}

type huntU struct {
	UUID string            `ovsdb:"_uuid"`
	Name string            `ovsdb:"name"`
	Text string            `ovsdb:"text"`
	Ref  string            `ovsdb:"ref"`
	Refs []string          `ovsdb:"refs"`
	Kmap map[string]string `ovsdb:"kmap"`
}

type huntEnv struct {
	t  *testing.T
	o  *OvsdbServer
	db database.Database
}

func newHuntEnv(t *testing.T) *huntEnv {
	var schema ovsdb.DatabaseSchema
	if err := json.Unmarshal([]byte(huntSchema), &schema); err != nil {
		t.Fatal(err)
	}
	cm, err := model.NewClientDBModel("Hunt", map[string]model.Model{"T": &huntT{}, "U": &huntU{}})
	if err != nil {
		t.Fatal(err)
	}
	dbModel, errs := model.NewDatabaseModel(schema, cm)
	if len(errs) > 0 {
		t.Fatal(errs)
	}
	db := inmemory.NewDatabase(map[string]model.ClientDBModel{"Hunt": cm})
	o, err := NewOvsdbServer(db, dbModel)
	if err != nil {
		t.Fatal(err)
	}
	return &huntEnv{t: t, o: o, db: db}
}

// transact sends the operations (JSON texts) the way a connection would
func (e *huntEnv) transact(ops ...string) []*ovsdb.OperationResult {
	args := []json.RawMessage{json.RawMessage(`"Hunt"`)}
	for _, op := range ops {
		args = append(args, json.RawMessage(op))
	}
	var reply []*ovsdb.OperationResult
	if err := e.o.Transact(nil, args, &reply); err != nil {
		e.t.Fatalf("transact: %v", err)
	}
	return reply
}

func (e *huntEnv) mustOK(res []*ovsdb.OperationResult) {
	e.t.Helper()
	for i, r := range res {
		if r == nil {
			e.t.Fatalf("result %d is nil: %s", i, huntShow(res))
		}
		if r.Error != "" {
			e.t.Fatalf("result %d: error %q details %q; all: %s", i, r.Error, r.Details, huntShow(res))
		}
	}
}

func huntShow(res []*ovsdb.OperationResult) string {
	b, _ := json.Marshal(res)
	return string(b)
}

func (e *huntEnv) rows(table string) map[string]model.Model {
	rows, err := e.db.List("Hunt", table)
	if err != nil {
		e.t.Fatal(err)
	}
	return rows
}

func (e *huntEnv) tByName(name string) *huntT {
	for _, r := range e.rows("T") {
		if r.(*huntT).Name == name {
			return r.(*huntT)
		}
	}
	return nil
}

func (e *huntEnv) uByName(name string) *huntU {
	for _, r := range e.rows("U") {
		if r.(*huntU).Name == name {
			return r.(*huntU)
		}
	}
	return nil
}

const huntZ = `["uuid","00000000-0000-0000-0000-00000000000a"]`
const huntB = `["uuid","00000000-0000-0000-0000-00000000000b"]`

// seed: rows p (refs hold Z), q
func (e *huntEnv) seed() {
	res := e.transact(
		`{"op":"insert","table":"T","row":{"name":"p","ref":`+huntZ+`,"refs":["set",[`+huntZ+`,`+huntB+`]],"kmap":["map",[[`+huntZ+`,"z"]]],"vmap":["map",[["z",`+huntZ+`]]],"kvmap":["map",[[`+huntZ+`,`+huntB+`]]]}}`,
		`{"op":"insert","table":"T","row":{"name":"q","ref":`+huntB+`}}`,
	)
	e.mustOK(res)
}

// A row of table T is deleted and, in the same transaction, a row of table U
// is inserted under the name "a" with the explicit uuid the deleted row had.
// The later operations of the transaction use the name in their conditions:
// they must refer to the row inserted under that name.
func TestHuntNameOfRowReusingDeletedUUIDInOtherTable(t *testing.T) {
	e := newHuntEnv(t)
	x := "11111111-1111-1111-1111-111111111111"
	e.mustOK(e.transact(`{"op":"insert","table":"T","uuid":"` + x + `","row":{"name":"old","ref":` + huntZ + `}}`))
	res := e.transact(
		`{"op":"delete","table":"T","where":[["name","==","old"]]}`,
		`{"op":"insert","table":"U","uuid":"`+x+`","uuid-name":"a","row":{"name":"new","ref":`+huntZ+`}}`,
		`{"op":"select","table":"U","where":[["_uuid","==",["named-uuid","a"]]],"columns":["name"]}`,
		`{"op":"update","table":"U","where":[["_uuid","==",["named-uuid","a"]]],"row":{"text":"updated"}}`,
		`{"op":"mutate","table":"U","where":[["name","==","new"]],"mutations":[["refs","insert",["named-uuid","a"]]]}`,
	)
	e.mustOK(res)
	if got := res[1].UUID.GoUUID; got != x {
		t.Fatalf("insert reported uuid %s, expected the explicit uuid %s", got, x)
	}
	stored := e.uByName("new")
	if stored == nil || stored.UUID != x {
		t.Fatalf("expected the row named by 'a' stored in U under %s, have %+v", x, stored)
	}
	if len(res[2].Rows) != 1 {
		t.Errorf("select where _uuid == named-uuid a (after the insert defining a): expected the 1 row inserted under the name, got %d rows (%s)", len(res[2].Rows), huntShow(res))
	}
	if res[3].Count != 1 {
		t.Errorf("update where _uuid == named-uuid a: expected count 1 (the row inserted under the name), got count %d", res[3].Count)
	}
	if stored.Text != "updated" {
		t.Errorf("update where _uuid == named-uuid a: expected text of the row inserted under the name to be \"updated\", stored row is %+v", stored)
	}
	if res[4].Count != 1 || len(stored.Refs) != 1 || stored.Refs[0] != x {
		t.Errorf("mutate of the inserted row selected by its name column: expected count 1 and refs [%s], got count %d and refs %v", x, res[4].Count, stored.Refs)
	}
}
