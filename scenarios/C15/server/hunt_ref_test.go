package server

import (
	"encoding/json"
	"testing"

	"github.com/ovn-org/libovsdb/database/inmemory"
	"github.com/ovn-org/libovsdb/model"
	"github.com/ovn-org/libovsdb/ovsdb"
)

const huntRefSchema = `
{
  "name": "Hunt",
  "version": "0.0.1",
  "tables": {
    "P": {
      "isRoot": true,
      "columns": {
        "name":   {"type": "string"},
        "strong": {"type": {"key": {"type": "uuid", "refTable": "D"}, "min": 0, "max": "unlimited"}},
        "one":    {"type": {"key": {"type": "uuid", "refTable": "D"}, "min": 0, "max": 1}},
        "weak":   {"type": {"key": {"type": "uuid", "refTable": "C", "refType": "weak"}, "min": 0, "max": "unlimited"}},
        "wone":   {"type": {"key": {"type": "uuid", "refTable": "C", "refType": "weak"}, "min": 0, "max": 1}},
        "wmap":   {"type": {"key": "string", "value": {"type": "uuid", "refTable": "C", "refType": "weak"}, "min": 0, "max": "unlimited"}},
        "kwmap":  {"type": {"key": {"type": "uuid", "refTable": "C", "refType": "weak"}, "value": "string", "min": 0, "max": "unlimited"}},
        "smap":   {"type": {"key": {"type": "uuid", "refTable": "D"}, "value": {"type": "uuid", "refTable": "D"}, "min": 0, "max": "unlimited"}}
      }
    },
    "C": {
      "isRoot": true,
      "columns": {
        "name":  {"type": "string"}
      }
    },
    "D": {
      "columns": {
        "name":  {"type": "string"},
        "next":  {"type": {"key": {"type": "uuid", "refTable": "D"}, "min": 0, "max": 1}}
      }
    }
  }
}`

type huntP struct {
	UUID   string            `ovsdb:"_uuid"`
	Name   string            `ovsdb:"name"`
	Strong []string          `ovsdb:"strong"`
	One    *string           `ovsdb:"one"`
	Weak   []string          `ovsdb:"weak"`
	Wone   *string           `ovsdb:"wone"`
	Wmap   map[string]string `ovsdb:"wmap"`
	Kwmap  map[string]string `ovsdb:"kwmap"`
	Smap   map[string]string `ovsdb:"smap"`
}
type huntC struct {
	UUID string `ovsdb:"_uuid"`
	Name string `ovsdb:"name"`
}
type huntD struct {
	UUID string  `ovsdb:"_uuid"`
	Name string  `ovsdb:"name"`
	Next *string `ovsdb:"next"`
}

func newHuntRefEnv(t *testing.T) *huntEnv {
	var schema ovsdb.DatabaseSchema
	if err := json.Unmarshal([]byte(huntRefSchema), &schema); err != nil {
		t.Fatal(err)
	}
	cm, err := model.NewClientDBModel("Hunt", map[string]model.Model{"P": &huntP{}, "C": &huntC{}, "D": &huntD{}})
	if err != nil {
		t.Fatal(err)
	}
	dbModel, errs := model.NewDatabaseModel(schema, cm)
	if len(errs) > 0 {
		t.Fatal(errs)
	}
	db := inmemory.NewDatabase(map[string]model.ClientDBModel{"Hunt": cm})
	o, err := NewOvsdbServer(db, dbModel)
	if err != nil {
		t.Fatal(err)
	}
	return &huntEnv{t: t, o: o, db: db}
}

func TestHuntExploreRefs(t *testing.T) {
	insP := `{"op":"insert","table":"P","uuid-name":"p","row":{"name":"p","strong":["set",[["named-uuid","d1"],["named-uuid","d2"]]],"one":["named-uuid","d3"],
	   "weak":["set",[["named-uuid","c1"],["named-uuid","c2"]]],"wone":["named-uuid","c1"],"wmap":["map",[["x",["named-uuid","c1"]]]],"kwmap":["map",[[["named-uuid","c2"],"y"]]],
	   "smap":["map",[[["named-uuid","d4"],["named-uuid","d5"]]]]}}`
	ins := []string{
		`{"op":"insert","table":"C","uuid-name":"c1","row":{"name":"c1"}}`,
		`{"op":"insert","table":"C","uuid-name":"c2","row":{"name":"c2"}}`,
		`{"op":"insert","table":"D","uuid-name":"d1","row":{"name":"d1","next":["named-uuid","d6"]}}`,
		`{"op":"insert","table":"D","uuid-name":"d2","row":{"name":"d2"}}`,
		`{"op":"insert","table":"D","uuid-name":"d3","row":{"name":"d3"}}`,
		`{"op":"insert","table":"D","uuid-name":"d4","row":{"name":"d4"}}`,
		`{"op":"insert","table":"D","uuid-name":"d5","row":{"name":"d5"}}`,
		`{"op":"insert","table":"D","uuid-name":"d6","row":{"name":"d6"}}`,
		`{"op":"insert","table":"D","uuid-name":"d7","row":{"name":"d7-unreferenced"}}`,
	}
	for order := 0; order < 2; order++ {
		e := newHuntRefEnv(t)
		var ops []string
		if order == 0 {
			ops = append([]string{insP}, ins...)
		} else {
			ops = append(append([]string{}, ins...), insP)
		}
		res := e.transact(ops...)
		t.Logf("order %d: %s", order, huntShow(res))
		for _, tb := range []string{"P", "C", "D"} {
			rows, _ := e.db.List("Hunt", tb)
			for _, r := range rows {
				b, _ := json.Marshal(r)
				t.Logf("   %s %s", tb, b)
			}
		}
	}
}
