package server

import (
	"testing"

	"github.com/ovn-org/libovsdb/ovsdb"
)

// every uuid-typed position of a later insert row refers to the row inserted under the name
func TestHuntExploreRowPositions(t *testing.T) {
	e := newHuntEnv(t)
	res := e.transact(
		`{"op":"insert","table":"T","uuid-name":"a","row":{"name":"a","ref":`+huntZ+`}}`,
		`{"op":"insert","table":"T","row":{"name":"b","text":"a","tags":["set",["a","x"]],"smap":["map",[["a","a"]]],
			"ref":["named-uuid","a"],"oref":["named-uuid","a"],"refs":["set",[["named-uuid","a"],`+huntZ+`]],
			"kmap":["map",[[["named-uuid","a"],"a"]]],"vmap":["map",[["a",["named-uuid","a"]]]],
			"kvmap":["map",[[["named-uuid","a"],["named-uuid","a"]]]]}}`,
		`{"op":"insert","table":"U","row":{"name":"c","text":"a","ref":["named-uuid","a"],"refs":["named-uuid","a"],"kmap":["map",[[["named-uuid","a"],"a"]]]}}`,
	)
	e.mustOK(res)
	a := e.tByName("a")
	if a == nil || a.UUID != res[0].UUID.GoUUID {
		t.Fatalf("a stored as %+v reported %v", a, res[0].UUID)
	}
	b := e.tByName("b")
	t.Logf("a=%s b=%+v oref=%v", a.UUID, b, *b.Oref)
	c := e.uByName("c")
	t.Logf("c=%+v", c)
}

func TestHuntExploreMutations(t *testing.T) {
	e := newHuntEnv(t)
	e.seed()
	// forward references in mutations; name 'a' defined by the last op
	res := e.transact(
		`{"op":"mutate","table":"T","where":[["name","==","p"]],"mutations":[
			["refs","insert",["named-uuid","a"]],
			["refs","delete",["set",[`+huntB+`]]],
			["kmap","insert",["map",[[["named-uuid","a"],"a"]]]],
			["vmap","insert",["map",[["a",["named-uuid","a"]]]]],
			["kvmap","insert",["map",[[["named-uuid","a"],["named-uuid","a"]]]]]
		]}`,
		`{"op":"insert","table":"T","uuid-name":"a","row":{"name":"a","ref":`+huntZ+`}}`,
	)
	t.Log(huntShow(res))
	e.mustOK(res)
	p := e.tByName("p")
	a := res[1].UUID.GoUUID
	t.Logf("a=%s p=%+v", a, p)
	// now delete them by name in a transaction that re-inserts under a name with the explicit uuid? not possible; use real uuid
	// delete via key set, using a new named row 'n' inserted into kmap and deleted by key set in same txn
	res = e.transact(
		`{"op":"insert","table":"T","uuid-name":"n","row":{"name":"n","ref":`+huntZ+`}}`,
		`{"op":"mutate","table":"T","where":[["name","==","p"]],"mutations":[
			["kmap","insert",["map",[[["named-uuid","n"],"n"]]]],
			["kvmap","insert",["map",[[["named-uuid","n"],["named-uuid","n"]]]]],
			["refs","insert",["set",[["named-uuid","n"]]]]
		]}`,
		`{"op":"mutate","table":"T","where":[["name","==","p"]],"mutations":[
			["kmap","delete",["set",[["named-uuid","n"]]]],
			["kvmap","delete",["named-uuid","n"]],
			["refs","delete",["named-uuid","n"]]
		]}`,
	)
	t.Log(huntShow(res))
	e.mustOK(res)
	p = e.tByName("p")
	t.Logf("n=%s p=%+v", res[0].UUID.GoUUID, p)
}

func TestHuntExploreConditions(t *testing.T) {
	e := newHuntEnv(t)
	e.seed()
	for _, c := range []string{
		`["_uuid","==",["named-uuid","a"]]`,
		`["_uuid","!=",["named-uuid","a"]]`,
		`["_uuid","includes",["named-uuid","a"]]`,
		`["_uuid","excludes",["named-uuid","a"]]`,
		`["ref","==",["named-uuid","a"]]`,
		`["ref","!=",["named-uuid","a"]]`,
		`["ref","includes",["named-uuid","a"]]`,
		`["ref","excludes",["named-uuid","a"]]`,
		`["oref","==",["named-uuid","a"]]`,
		`["oref","!=",["named-uuid","a"]]`,
		`["oref","includes",["named-uuid","a"]]`,
		`["oref","excludes",["named-uuid","a"]]`,
		`["oref","includes",["set",[["named-uuid","a"]]]]`,
		`["refs","==",["named-uuid","a"]]`,
		`["refs","==",["set",[["named-uuid","a"]]]]`,
		`["refs","!=",["set",[["named-uuid","a"]]]]`,
		`["refs","includes",["named-uuid","a"]]`,
		`["refs","includes",["set",[["named-uuid","a"]]]]`,
		`["refs","excludes",["set",[["named-uuid","a"]]]]`,
		`["kmap","==",["map",[[["named-uuid","a"],"a"]]]]`,
		`["kmap","!=",["map",[[["named-uuid","a"],"a"]]]]`,
		`["kmap","includes",["map",[[["named-uuid","a"],"a"]]]]`,
		`["kmap","excludes",["map",[[["named-uuid","a"],"a"]]]]`,
		`["vmap","==",["map",[["a",["named-uuid","a"]]]]]`,
		`["vmap","includes",["map",[["a",["named-uuid","a"]]]]]`,
		`["vmap","excludes",["map",[["a",["named-uuid","a"]]]]]`,
		`["kvmap","includes",["map",[[["named-uuid","a"],["named-uuid","a"]]]]]`,
	} {
		// the select comes before the insert of 'a' and of 'b' (which holds a everywhere)
		for _, order := range []int{0, 1} {
			sel := `{"op":"select","table":"T","where":[` + c + `],"columns":["name"]}`
			insA := `{"op":"insert","table":"T","uuid-name":"a","row":{"name":"a","ref":` + huntZ + `}}`
			insB := `{"op":"insert","table":"T","uuid-name":"b","row":{"name":"b","ref":["named-uuid","a"],"oref":["named-uuid","a"],"refs":["named-uuid","a"],"kmap":["map",[[["named-uuid","a"],"a"]]],"vmap":["map",[["a",["named-uuid","a"]]]],"kvmap":["map",[[["named-uuid","a"],["named-uuid","a"]]]]}}`
			var res []*ovsdb.OperationResult
			var s *ovsdb.OperationResult
			if order == 0 {
				res = e.transact(insA, insB, sel, `{"op":"abort"}`)
				s = res[2]
			} else {
				res = e.transact(sel, insA, insB, `{"op":"abort"}`)
				s = res[0]
			}
			if s == nil {
				t.Logf("%s order %d: NIL %s", c, order, huntShow(res))
				continue
			}
			names := []string{}
			for _, r := range s.Rows {
				names = append(names, r["name"].(string))
			}
			t.Logf("%-70s order %d: err=%q %v", c, order, s.Error+" "+s.Details, names)
		}
	}
}

func TestHuntExploreDuplicates(t *testing.T) {
	x := "11111111-1111-1111-1111-111111111111"
	y := "22222222-2222-2222-2222-222222222222"
	cases := map[string][]string{
		"same name no uuids same table": {
			`{"op":"insert","table":"T","uuid-name":"a","row":{"name":"a1","ref":` + huntZ + `}}`,
			`{"op":"insert","table":"T","uuid-name":"a","row":{"name":"a2","ref":` + huntZ + `}}`,
		},
		"same name same uuid same table": {
			`{"op":"insert","table":"T","uuid-name":"a","uuid":"` + x + `","row":{"name":"a1","ref":` + huntZ + `}}`,
			`{"op":"insert","table":"T","uuid-name":"a","uuid":"` + x + `","row":{"name":"a2","ref":` + huntZ + `}}`,
		},
		"same name same uuid other table": {
			`{"op":"insert","table":"T","uuid-name":"a","uuid":"` + x + `","row":{"name":"a1","ref":` + huntZ + `}}`,
			`{"op":"insert","table":"U","uuid-name":"a","uuid":"` + x + `","row":{"name":"a2","ref":` + huntZ + `}}`,
			`{"op":"insert","table":"U","row":{"name":"c","ref":["named-uuid","a"]}}`,
		},
		"same name different uuid": {
			`{"op":"insert","table":"T","uuid-name":"a","uuid":"` + x + `","row":{"name":"a1","ref":` + huntZ + `}}`,
			`{"op":"insert","table":"U","uuid-name":"a","uuid":"` + y + `","row":{"name":"a2","ref":` + huntZ + `}}`,
		},
		"same name first uuid second none": {
			`{"op":"insert","table":"T","uuid-name":"a","uuid":"` + x + `","row":{"name":"a1","ref":` + huntZ + `}}`,
			`{"op":"insert","table":"U","uuid-name":"a","row":{"name":"a2","ref":` + huntZ + `}}`,
		},
		"explicit uuid and name": {
			`{"op":"insert","table":"T","uuid-name":"a","uuid":"` + x + `","row":{"name":"a1","ref":["named-uuid","a"]}}`,
		},
		"neither": {
			`{"op":"insert","table":"T","row":{"name":"a1","ref":` + huntZ + `}}`,
		},
		"name is uuid text": {
			`{"op":"insert","table":"T","uuid-name":"` + y + `","row":{"name":"a1","ref":` + huntZ + `}}`,
			`{"op":"insert","table":"T","row":{"name":"a2","ref":["named-uuid","` + y + `"]}}`,
			`{"op":"insert","table":"T","row":{"name":"a3","ref":["uuid","` + y + `"]}}`,
		},
		"name is explicit uuid of another": {
			`{"op":"insert","table":"T","uuid-name":"` + y + `","uuid":"` + x + `","row":{"name":"a1","ref":` + huntZ + `}}`,
			`{"op":"insert","table":"T","uuid-name":"b","uuid":"` + y + `","row":{"name":"a2","ref":["named-uuid","b"]}}`,
		},
		"row has _uuid": {
			`{"op":"insert","table":"T","uuid-name":"a","row":{"_uuid":["uuid","` + y + `"],"name":"a1","ref":` + huntZ + `}}`,
		},
		"row has _uuid named other": {
			`{"op":"insert","table":"T","uuid-name":"a","row":{"_uuid":["named-uuid","b"],"name":"a1","ref":` + huntZ + `}}`,
			`{"op":"insert","table":"T","uuid-name":"b","row":{"name":"b1","ref":` + huntZ + `}}`,
		},
	}
	for name, ops := range cases {
		e := newHuntEnv(t)
		res := e.transact(ops...)
		t.Logf("%s: %s", name, huntShow(res))
		for _, r := range e.rows("T") {
			t.Logf("     T %+v", r)
		}
		for _, r := range e.rows("U") {
			t.Logf("     U %+v", r)
		}
	}
}

func TestHuntExploreReinsert(t *testing.T) {
	e := newHuntEnv(t)
	x := "11111111-1111-1111-1111-111111111111"
	e.mustOK(e.transact(`{"op":"insert","table":"T","uuid":"` + x + `","row":{"name":"old","ref":` + huntZ + `}}`))
	res := e.transact(
		`{"op":"delete","table":"T","where":[["name","==","old"]]}`,
		`{"op":"insert","table":"T","uuid":"`+x+`","uuid-name":"a","row":{"name":"new","ref":`+huntZ+`}}`,
		`{"op":"update","table":"T","where":[["_uuid","==",["named-uuid","a"]]],"row":{"text":"updated"}}`,
		`{"op":"select","table":"T","where":[["_uuid","==",["named-uuid","a"]]]}`,
	)
	t.Log(huntShow(res))
	for _, r := range e.rows("T") {
		t.Logf("     T %+v", r)
	}
}

func TestHuntExploreReinsertOtherTable(t *testing.T) {
	e := newHuntEnv(t)
	x := "11111111-1111-1111-1111-111111111111"
	e.mustOK(e.transact(`{"op":"insert","table":"T","uuid":"` + x + `","row":{"name":"old","ref":` + huntZ + `}}`))
	res := e.transact(
		`{"op":"delete","table":"T","where":[["name","==","old"]]}`,
		`{"op":"insert","table":"U","uuid":"`+x+`","uuid-name":"a","row":{"name":"new","ref":`+huntZ+`}}`,
		`{"op":"update","table":"U","where":[["_uuid","==",["named-uuid","a"]]],"row":{"text":"updated"}}`,
		`{"op":"select","table":"U","where":[["_uuid","==",["named-uuid","a"]]]}`,
	)
	t.Log(huntShow(res))
	for _, r := range e.rows("T") {
		t.Logf("     T %+v", r)
	}
	for _, r := range e.rows("U") {
		t.Logf("     U %+v", r)
	}
}

func TestHuntExploreWaitUpdate(t *testing.T) {
	e := newHuntEnv(t)
	e.seed()
	zero := `"timeout":0`
	insA := `{"op":"insert","table":"T","uuid-name":"a","row":{"name":"a","text":"a","tags":["set",["a"]],"smap":["map",[["a","a"]]],"ref":` + huntZ + `}}`
	upd := `{"op":"update","table":"T","where":[["name","==","p"]],"row":{"text":"a","tags":"a","smap":["map",[["a","a"]]],"ref":["named-uuid","a"],"oref":["named-uuid","a"],"refs":["set",[["named-uuid","a"],` + huntB + `]],"kmap":["map",[[["named-uuid","a"],"a"]]],"vmap":["map",[["a",["named-uuid","a"]]]],"kvmap":["map",[[["named-uuid","a"],["named-uuid","a"]]]]}}`
	wait := `{"op":"wait",` + zero + `,"table":"T","where":[["name","==","p"]],"until":"==","columns":["text","tags","smap","ref","oref","refs","kmap","vmap","kvmap"],"rows":[{"text":"a","tags":"a","smap":["map",[["a","a"]]],"ref":["named-uuid","a"],"oref":["named-uuid","a"],"refs":["set",[` + huntB + `,["named-uuid","a"]]],"kmap":["map",[[["named-uuid","a"],"a"]]],"vmap":["map",[["a",["named-uuid","a"]]]],"kvmap":["map",[[["named-uuid","a"],["named-uuid","a"]]]]}]}`
	waitU := `{"op":"wait",` + zero + `,"table":"T","where":[],"until":"!=","columns":["_uuid"],"rows":[{"_uuid":["named-uuid","a"]}]}`
	waitU2 := `{"op":"wait",` + zero + `,"table":"T","where":[["name","==","a"]],"until":"==","columns":["_uuid","name"],"rows":[{"_uuid":["named-uuid","a"],"name":"a"}]}`
	for i, ops := range [][]string{
		{insA, upd, wait, waitU, waitU2},
		{upd, wait, insA, waitU2},
		{upd, insA, wait},
		{waitU2, insA},
	} {
		res := e.transact(append(ops, `{"op":"abort"}`)...)
		t.Logf("%d: %s", i, huntShow(res))
	}
	res := e.transact(upd, insA)
	e.mustOK(res)
	t.Logf("a=%v p=%+v a=%+v", res[1].UUID, e.tByName("p"), e.tByName("a"))
}

func TestHuntExploreCollapse(t *testing.T) {
	e := newHuntEnv(t)
	x := "11111111-1111-1111-1111-111111111111"
	res := e.transact(
		`{"op":"insert","table":"T","uuid":"`+x+`","uuid-name":"a","row":{"name":"a","ref":`+huntZ+`}}`,
		`{"op":"insert","table":"T","row":{"name":"b","ref":`+huntZ+`,"refs":["set",[["named-uuid","a"],["uuid","`+x+`"]]],"kmap":["map",[[["named-uuid","a"],"1"],[["uuid","`+x+`"],"2"]]]}}`,
		`{"op":"insert","table":"T","row":{"name":"c","ref":`+huntZ+`,"refs":["set",[["uuid","`+x+`"],["uuid","`+x+`"]]]}}`,
	)
	t.Log(huntShow(res))
	for _, r := range e.rows("T") {
		t.Logf("     T %+v", r)
	}
}
