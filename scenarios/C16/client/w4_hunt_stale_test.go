//go:build verif

package client

import (
	"bytes"
	"context"
	"fmt"
	"sync"
	"sync/atomic"
	"testing"
	"time"

	"github.com/cenkalti/backoff/v4"
	"github.com/ovn-org/libovsdb/ovsdb"
	"github.com/stretchr/testify/require"
)

// Two monitors. The connection is lost; on the first attempt to reconnect the
// first monitor is restarted, the request for the second is never answered and
// the attempt is given up after the timeout: connect() closes that connection
// (resetRPCClient) and returns without waiting for its read loop, which is at
// that moment handling a notification for the first monitor (parked just
// before it takes the cache lock, pause point update.beforeCacheLock). The
// next attempt succeeds, the client reports being connected, and the
// notification of the abandoned connection is then applied to the cache.
func TestHuntStaleNotificationOfAbandonedAttempt(t *testing.T) {
	_, sock := huntW4Server(t)
	direct := huntW4Direct(t, sock)
	proxy := newHuntW4Proxy(t, sock)

	cli, err := newOVSDBClient(defDB, huntW4Quiet(), WithEndpoint(proxy.endpoint()),
		WithReconnect(300*time.Millisecond, backoff.NewConstantBackOff(10*time.Millisecond)))
	require.NoError(t, err)
	require.NoError(t, cli.Connect(context.Background()))
	defer cli.Close()

	huntW4Transact(t, direct, []ovsdb.Operation{
		huntW4InsertBridge("b1", map[string]string{"v": "1"}),
		{Op: ovsdb.OperationInsert, Table: "Open_vSwitch", Row: ovsdb.Row{"next_cfg": 1}},
	})
	mb := cli.NewMonitor(WithTable(&Bridge{}))
	mb.Method = ovsdb.MonitorRPC
	_, err = cli.Monitor(context.Background(), mb)
	require.NoError(t, err)
	mo := cli.NewMonitor(WithTable(&OpenvSwitch{}))
	mo.Method = ovsdb.MonitorRPC
	_, err = cli.Monitor(context.Background(), mo)
	require.NoError(t, err)

	// on the second connection the first monitor request passes, the second is swallowed
	var mu sync.Mutex
	firstTable := ""
	firstUp := make(chan struct{})
	proxy.setFromClient(func(connIdx, msgIdx int, msg []byte) int {
		if connIdx != 1 || !bytes.Contains(msg, []byte(`"method":"monitor"`)) {
			return huntW4Pass
		}
		mu.Lock()
		defer mu.Unlock()
		if firstTable == "" {
			firstTable = "Open_vSwitch"
			if bytes.Contains(msg, []byte(`"Bridge"`)) {
				firstTable = "Bridge"
			}
			return huntW4Pass
		}
		return huntW4Drop
	})
	var armed, parked int32
	release := make(chan struct{})
	isParked := make(chan struct{})
	VerifHook = func(point string) {
		if point == "monitor.replyReceived" && atomic.LoadInt32(&armed) == 0 && proxy.numConns() == 2 {
			select {
			case <-firstUp:
			default:
				close(firstUp)
			}
		}
		if point == "update.beforeCacheLock" && atomic.LoadInt32(&armed) == 1 && atomic.CompareAndSwapInt32(&parked, 0, 1) {
			close(isParked)
			// (bounded, so that a library that waits for the read loop of
			// the connection it gives up is not blocked for good)
			select {
			case <-release:
			case <-time.After(2 * time.Second):
			}
		}
	}
	defer func() { VerifHook = nil }()

	proxy.cutAll()
	select {
	case <-firstUp:
	case <-time.After(2 * time.Second):
		t.Fatal("first monitor was not restarted")
	}
	time.Sleep(20 * time.Millisecond) // its initial contents are in the cache
	mu.Lock()
	table := firstTable
	mu.Unlock()
	atomic.StoreInt32(&armed, 1)

	change := func(v int) []ovsdb.Operation {
		if table == "Bridge" {
			return []ovsdb.Operation{{Op: ovsdb.OperationUpdate, Table: "Bridge", Where: huntW4WhereName("b1"),
				Row: ovsdb.Row{"external_ids": ovsdb.OvsMap{GoMap: map[interface{}]interface{}{"v": fmt.Sprint(v)}}}}}
		}
		return []ovsdb.Operation{{Op: ovsdb.OperationUpdate, Table: "Open_vSwitch", Where: []ovsdb.Condition{},
			Row: ovsdb.Row{"next_cfg": v}}}
	}
	// committed while the first attempt is under way: the notification is parked
	done := make(chan struct{})
	go func() {
		defer close(done)
		huntW4Transact(t, direct, change(2))
	}()
	select {
	case <-isParked:
	case <-time.After(2 * time.Second):
		t.Fatal("no notification on the second connection")
	}
	<-done // the attempt was given up, the server got rid of the connection
	huntW4Transact(t, direct, change(3))

	// the client reconnects for good
	require.Eventually(t, func() bool { return cli.Connected() && proxy.numConns() >= 3 }, 6*time.Second, 5*time.Millisecond)
	time.Sleep(50 * time.Millisecond)
	close(release)
	time.Sleep(200 * time.Millisecond)

	if table == "Bridge" {
		want := huntW4Bridges(t, direct)
		got := huntW4CacheBridges(cli)
		if fmt.Sprint(want) != fmt.Sprint(got) {
			t.Fatalf("expected: connected again, the cache holds the bridges of the database %v; got: %v (the notification received on the connection of the abandoned attempt was applied after the resynchronisation)", want, got)
		}
	} else {
		want := huntW4ServerOVS(t, direct)
		got := huntW4CacheOVS(cli)
		if fmt.Sprint(want) != fmt.Sprint(got) {
			t.Fatalf("expected: connected again, the cache holds Open_vSwitch next_cfg as in the database %v; got: %v (the notification received on the connection of the abandoned attempt was applied after the resynchronisation)", want, got)
		}
	}
}
