package client

import (
	"encoding/json"
	"fmt"
	"math/rand"
	"net"
	"os"
	"sync"
	"testing"

	"github.com/cenkalti/rpc2"
	"github.com/cenkalti/rpc2/jsonrpc"
	"github.com/google/uuid"
	"github.com/ovn-org/libovsdb/model"
	"github.com/ovn-org/libovsdb/ovsdb"
)

// A small OVSDB server that keeps the history of its transactions and
// therefore answers monitor_cond_since like ovsdb-server does: with
// found=true and only the changes made after the transaction the client
// names, when it knows that transaction.

const huntSchema = `{
  "name": "Hunt",
  "version": "1.0.0",
  "tables": {
    "T": {
      "columns": {
        "name": {"type": "string"},
        "tags": {"type": {"key": "string", "value": "string", "min": 0, "max": "unlimited"}}
      }
    },
    "U": {
      "columns": {
        "name": {"type": "string"}
      }
    }
  }
}`

type huntT struct {
	UUID string            `ovsdb:"_uuid"`
	Name string            `ovsdb:"name"`
	Tags map[string]string `ovsdb:"tags"`
}

type huntU struct {
	UUID string `ovsdb:"_uuid"`
	Name string `ovsdb:"name"`
}

func huntModel(t *testing.T) model.ClientDBModel {
	m, err := model.NewClientDBModel("Hunt", map[string]model.Model{"T": &huntT{}, "U": &huntU{}})
	if err != nil {
		t.Fatal(err)
	}
	return m
}

type huntRow struct {
	name string
	tags map[string]string
}

func (r huntRow) clone() huntRow {
	c := huntRow{name: r.name, tags: map[string]string{}}
	for k, v := range r.tags {
		c.tags[k] = v
	}
	return c
}

// state: table -> uuid -> row
type huntState map[string]map[string]huntRow

func (s huntState) clone() huntState {
	c := huntState{}
	for t, rows := range s {
		c[t] = map[string]huntRow{}
		for u, r := range rows {
			c[t][u] = r.clone()
		}
	}
	return c
}

func huntOvsMap(m map[string]string) ovsdb.OvsMap {
	g := map[interface{}]interface{}{}
	for k, v := range m {
		g[k] = v
	}
	return ovsdb.OvsMap{GoMap: g}
}

func (r huntRow) ovsRow(table string) *ovsdb.Row {
	row := ovsdb.Row{"name": r.name}
	if table == "T" {
		row["tags"] = huntOvsMap(r.tags)
	}
	return &row
}

// huntDelta computes the update2 table updates that lead from old to new
func huntDelta(old, new huntState, initial bool) ovsdb.TableUpdates2 {
	tu := ovsdb.TableUpdates2{}
	add := func(table, uuid string, ru *ovsdb.RowUpdate2) {
		if tu[table] == nil {
			tu[table] = ovsdb.TableUpdate2{}
		}
		tu[table][uuid] = ru
	}
	for table, rows := range new {
		for u, r := range rows {
			o, ok := old[table][u]
			if !ok {
				if initial {
					add(table, u, &ovsdb.RowUpdate2{Initial: r.ovsRow(table)})
				} else {
					add(table, u, &ovsdb.RowUpdate2{Insert: r.ovsRow(table)})
				}
				continue
			}
			diff := ovsdb.Row{}
			if o.name != r.name {
				diff["name"] = r.name
			}
			d := map[string]string{}
			for k, v := range r.tags {
				if ov, ok := o.tags[k]; !ok || ov != v {
					d[k] = v
				}
			}
			for k, ov := range o.tags {
				if _, ok := r.tags[k]; !ok {
					d[k] = ov
				}
			}
			if len(d) > 0 {
				diff["tags"] = huntOvsMap(d)
			}
			if len(diff) > 0 {
				add(table, u, &ovsdb.RowUpdate2{Modify: &diff})
			}
		}
	}
	for table, rows := range old {
		for u, r := range rows {
			if _, ok := new[table][u]; !ok {
				add(table, u, &ovsdb.RowUpdate2{Delete: r.ovsRow(table)})
			}
		}
	}
	return tu
}

type huntFakeMonitor struct {
	client *rpc2.Client
	cookie json.RawMessage
	method string
	tables map[string]bool
}

type huntSinceRequest struct {
	Cookie json.RawMessage
	Tables []string
	LastID string
}

type huntFake struct {
	t    *testing.T
	path string
	ln   net.Listener
	srv  *rpc2.Server

	mu       sync.Mutex
	state    huntState
	history  []string             // transaction ids, oldest first
	snapshot map[string]huntState // state after each transaction
	monitors []*huntFakeMonitor
	clients  []*rpc2.Client
	// every monitor_cond_since request received
	sinceRequests []huntSinceRequest
	// beforeMonitorReply, if set, is called (without the lock) when a monitor
	// request was received and before it is answered; returning false means
	// the request is never answered
	beforeMonitorReply func(method string, tables []string) bool
	neverAnswer        chan struct{}
}

func newHuntFake(t *testing.T) *huntFake {
	f := &huntFake{
		t:           t,
		path:        fmt.Sprintf("/tmp/hunt-fake-%d-%d.sock", os.Getpid(), rand.Intn(1000000)),
		state:       huntState{"T": {}, "U": {}},
		snapshot:    map[string]huntState{},
		neverAnswer: make(chan struct{}),
	}
	first := uuid.NewString()
	f.history = []string{first}
	f.snapshot[first] = f.state.clone()

	f.srv = rpc2.NewServer()
	f.srv.Handle("list_dbs", func(c *rpc2.Client, args []interface{}, reply *[]string) error {
		*reply = []string{"Hunt"}
		return nil
	})
	f.srv.Handle("get_schema", func(c *rpc2.Client, args []interface{}, reply *json.RawMessage) error {
		*reply = json.RawMessage(huntSchema)
		return nil
	})
	f.srv.Handle("echo", func(c *rpc2.Client, args []interface{}, reply *[]interface{}) error {
		*reply = args
		return nil
	})
	f.srv.Handle("monitor_cancel", func(c *rpc2.Client, args []json.RawMessage, reply *map[string]interface{}) error {
		f.mu.Lock()
		defer f.mu.Unlock()
		var kept []*huntFakeMonitor
		for _, m := range f.monitors {
			if m.client == c && string(m.cookie) == string(args[0]) {
				continue
			}
			kept = append(kept, m)
		}
		f.monitors = kept
		*reply = map[string]interface{}{}
		return nil
	})
	f.srv.Handle("monitor_cond_since", func(c *rpc2.Client, args []json.RawMessage, reply *ovsdb.MonitorCondSinceReply) error {
		tables, lastID := f.parseMonitor(args)
		f.mu.Lock()
		f.sinceRequests = append(f.sinceRequests, huntSinceRequest{Cookie: args[1], Tables: tables, LastID: lastID})
		f.mu.Unlock()
		if !f.mayAnswer("monitor_cond_since", tables) {
			return fmt.Errorf("closing")
		}
		f.mu.Lock()
		defer f.mu.Unlock()
		old, found := f.snapshot[lastID]
		if !found {
			old = huntState{}
		}
		*reply = ovsdb.MonitorCondSinceReply{
			Found:             found,
			LastTransactionID: f.history[len(f.history)-1],
			Updates:           huntRestrict(huntDelta(old, f.state, !found), tables),
		}
		f.register(c, args[1], "monitor_cond_since", tables)
		return nil
	})
	f.srv.Handle("monitor_cond", func(c *rpc2.Client, args []json.RawMessage, reply *ovsdb.TableUpdates2) error {
		tables, _ := f.parseMonitor(args)
		if !f.mayAnswer("monitor_cond", tables) {
			return fmt.Errorf("closing")
		}
		f.mu.Lock()
		defer f.mu.Unlock()
		*reply = huntRestrict(huntDelta(huntState{}, f.state, true), tables)
		f.register(c, args[1], "monitor_cond", tables)
		return nil
	})
	f.srv.OnConnect(func(c *rpc2.Client) {
		f.mu.Lock()
		f.clients = append(f.clients, c)
		f.mu.Unlock()
	})

	os.Remove(f.path)
	ln, err := net.Listen("unix", f.path)
	if err != nil {
		t.Fatal(err)
	}
	f.ln = ln
	go func() {
		for {
			conn, err := ln.Accept()
			if err != nil {
				return
			}
			go f.srv.ServeCodec(&lockedCodec{Codec: jsonrpc.NewJSONCodec(conn)})
		}
	}()
	t.Cleanup(func() {
		ln.Close()
		close(f.neverAnswer)
		f.cutAll()
		os.Remove(f.path)
	})
	return f
}

func (f *huntFake) endpoint() string { return "unix:" + f.path }

func (f *huntFake) parseMonitor(args []json.RawMessage) ([]string, string) {
	var requests map[string]json.RawMessage
	_ = json.Unmarshal(args[2], &requests)
	var tables []string
	for t := range requests {
		tables = append(tables, t)
	}
	lastID := ""
	if len(args) > 3 {
		_ = json.Unmarshal(args[3], &lastID)
	}
	return tables, lastID
}

func (f *huntFake) mayAnswer(method string, tables []string) bool {
	f.mu.Lock()
	h := f.beforeMonitorReply
	f.mu.Unlock()
	if h != nil && !h(method, tables) {
		<-f.neverAnswer
		return false
	}
	return true
}

// register must be called with the lock held
func (f *huntFake) register(c *rpc2.Client, cookie json.RawMessage, method string, tables []string) {
	m := &huntFakeMonitor{client: c, cookie: cookie, method: method, tables: map[string]bool{}}
	for _, t := range tables {
		m.tables[t] = true
	}
	f.monitors = append(f.monitors, m)
}

func huntRestrict(tu ovsdb.TableUpdates2, tables []string) ovsdb.TableUpdates2 {
	r := ovsdb.TableUpdates2{}
	for _, t := range tables {
		if u, ok := tu[t]; ok {
			r[t] = u
		}
	}
	return r
}

// commit applies change to the database as one transaction and notifies the
// monitors. It returns the transaction id.
func (f *huntFake) commit(change func(s huntState)) string {
	f.mu.Lock()
	defer f.mu.Unlock()
	old := f.state.clone()
	change(f.state)
	id := uuid.NewString()
	f.history = append(f.history, id)
	f.snapshot[id] = f.state.clone()
	delta := huntDelta(old, f.state, false)
	for _, m := range f.monitors {
		var tables []string
		for t := range m.tables {
			tables = append(tables, t)
		}
		u := huntRestrict(delta, tables)
		if len(u) == 0 {
			continue
		}
		var err error
		if m.method == "monitor_cond_since" {
			err = m.client.Notify("update3", []interface{}{m.cookie, id, u})
		} else {
			err = m.client.Notify("update2", []interface{}{m.cookie, u})
		}
		_ = err
	}
	return id
}

// cutAll closes every connection; the monitors of a connection die with it
func (f *huntFake) cutAll() {
	f.mu.Lock()
	clients := f.clients
	f.clients = nil
	f.monitors = nil
	f.mu.Unlock()
	for _, c := range clients {
		c.Close()
	}
}

func (f *huntFake) lastSinceRequest() huntSinceRequest {
	f.mu.Lock()
	defer f.mu.Unlock()
	return f.sinceRequests[len(f.sinceRequests)-1]
}

func (f *huntFake) numSinceRequests() int {
	f.mu.Lock()
	defer f.mu.Unlock()
	return len(f.sinceRequests)
}

func (f *huntFake) current() huntState {
	f.mu.Lock()
	defer f.mu.Unlock()
	return f.state.clone()
}
