package client

import (
	"context"
	"fmt"
	"reflect"
	"testing"
	"time"

	"github.com/cenkalti/backoff/v4"
	"github.com/go-logr/logr"
	"github.com/stretchr/testify/require"
)

// huntCacheState reads the client's cache as a huntState
func huntCacheState(t *testing.T, ovs *ovsdbClient) huntState {
	s := huntState{"T": {}, "U": {}}
	var ts []huntT
	require.NoError(t, ovs.List(context.Background(), &ts))
	for _, r := range ts {
		tags := r.Tags
		if tags == nil {
			tags = map[string]string{}
		}
		s["T"][r.UUID] = huntRow{name: r.Name, tags: tags}
	}
	var us []huntU
	require.NoError(t, ovs.List(context.Background(), &us))
	for _, r := range us {
		s["U"][r.UUID] = huntRow{name: r.Name, tags: map[string]string{}}
	}
	return s
}

func huntWaitConverged(t *testing.T, ovs *ovsdbClient, f *huntFake, tables ...string) (huntState, huntState, bool) {
	var got, want huntState
	deadline := time.Now().Add(2 * time.Second)
	for {
		want = f.current()
		got = huntCacheState(t, ovs)
		ok := ovs.Connected()
		for _, table := range tables {
			if !reflect.DeepEqual(got[table], want[table]) {
				ok = false
			}
		}
		if ok || time.Now().After(deadline) {
			return got, want, ok
		}
		time.Sleep(20 * time.Millisecond)
	}
}

func huntNewSinceClient(t *testing.T, f *huntFake) *ovsdbClient {
	l := logr.Discard()
	ovs, err := newOVSDBClient(huntModel(t),
		WithLogger(&l),
		WithReconnect(2*time.Second, &backoff.ZeroBackOff{}),
		WithEndpoint(f.endpoint()))
	require.NoError(t, err)
	require.NoError(t, ovs.Connect(context.Background()))
	t.Cleanup(ovs.Close)
	return ovs
}

// sanity: the plain found=true flow works
func TestHuntXSinceBasic(t *testing.T) {
	f := newHuntFake(t)
	f.commit(func(s huntState) {
		s["T"]["11111111-1111-1111-1111-111111111111"] = huntRow{name: "one", tags: map[string]string{"a": "1"}}
		s["T"]["22222222-2222-2222-2222-222222222222"] = huntRow{name: "two", tags: map[string]string{}}
	})
	ovs := huntNewSinceClient(t, f)
	_, err := ovs.Monitor(context.Background(), ovs.NewMonitor(WithTable(&huntT{})))
	require.NoError(t, err)
	got, want, ok := huntWaitConverged(t, ovs, f, "T")
	require.True(t, ok, "initial: got %v want %v", got, want)

	for i := 0; i < 5; i++ {
		last := f.commit(func(s huntState) {
			s["T"]["11111111-1111-1111-1111-111111111111"].tags[fmt.Sprint("k", i)] = "v"
		})
		got, want, ok = huntWaitConverged(t, ovs, f, "T")
		require.True(t, ok, "round %d: got %v want %v", i, got, want)
		n := f.numSinceRequests()
		f.cutAll()
		// away
		f.commit(func(s huntState) {
			delete(s["T"], "22222222-2222-2222-2222-222222222222")
			s["T"][fmt.Sprintf("33333333-3333-3333-3333-33333333333%d", i)] = huntRow{name: "x", tags: map[string]string{}}
		})
		f.commit(func(s huntState) {
			s["T"]["22222222-2222-2222-2222-222222222222"] = huntRow{name: "two", tags: map[string]string{"r": fmt.Sprint(i)}}
		})
		require.Eventually(t, func() bool { return f.numSinceRequests() > n && ovs.Connected() }, 3*time.Second, 10*time.Millisecond)
		require.Equal(t, last, f.lastSinceRequest().LastID, "round %d", i)
		got, want, ok = huntWaitConverged(t, ovs, f, "T")
		require.True(t, ok, "round %d after reconnect: got %v want %v", i, got, want)
	}
}

// One monitor_cond_since monitor A. A second Monitor() call does not get its
// answer in time (its context expires); a notification for A arrives in the
// meantime. The connection is then lost; the server still knows the
// transaction A names when it comes back.
func TestHuntSinceAfterFailedMonitor(t *testing.T) {
	const row = "11111111-1111-1111-1111-111111111111"
	f := newHuntFake(t)
	f.commit(func(s huntState) {
		s["T"][row] = huntRow{name: "one", tags: map[string]string{}}
	})
	ovs := huntNewSinceClient(t, f)
	_, err := ovs.Monitor(context.Background(), ovs.NewMonitor(WithTable(&huntT{})))
	require.NoError(t, err)
	got, want, ok := huntWaitConverged(t, ovs, f, "T")
	require.True(t, ok, "initial: got %v want %v", got, want)

	// the server is slow to answer the second monitor request; another client
	// commits a transaction in the meantime
	var committed string
	f.mu.Lock()
	f.beforeMonitorReply = func(method string, tables []string) bool {
		if len(tables) == 1 && tables[0] == "U" {
			committed = f.commit(func(s huntState) { s["T"][row].tags["k"] = "v" })
			return false
		}
		return true
	}
	f.mu.Unlock()
	ctx, cancel := context.WithTimeout(context.Background(), 300*time.Millisecond)
	_, err = ovs.Monitor(ctx, ovs.NewMonitor(WithTable(&huntU{})))
	cancel()
	require.Error(t, err)
	f.mu.Lock()
	f.beforeMonitorReply = nil
	f.mu.Unlock()

	// the notification has been applied
	got, want, ok = huntWaitConverged(t, ovs, f, "T")
	require.True(t, ok, "before the cut: got %v want %v", got, want)

	n := f.numSinceRequests()
	f.cutAll()
	require.Eventually(t, func() bool { return f.numSinceRequests() > n && ovs.Connected() }, 3*time.Second, 10*time.Millisecond)
	asked := f.lastSinceRequest().LastID

	got, want, ok = huntWaitConverged(t, ovs, f, "T")
	if !ok {
		t.Fatalf("after the reconnect the cache must equal the database.\n database: %v\n cache:    %v\n"+
			"the client had applied transaction %s (tags k=v) but asked monitor_cond_since for the changes after %s, "+
			"so the server (found=true) sent that change again and the client applied the diff twice",
			want["T"], got["T"], committed, asked)
	}
	require.Equal(t, committed, asked)
}
