package client

import (
	"context"
	"encoding/json"
	"sync/atomic"
	"testing"
	"time"

	"github.com/cenkalti/backoff/v4"
	"github.com/go-logr/logr"
	"github.com/ovn-org/libovsdb/ovsdb"
	"github.com/stretchr/testify/require"
)

// A silent peer is detected by the inactivity probe whatever the application does meanwhile: calls that only run into
// their own deadline are not traffic from the peer. Variants: no calls, Transact with short deadlines, Echo with short
// deadlines, List (cache only).
func TestHuntSilentPeerDetectedWhileCallsTimeOut(t *testing.T) {
	for _, busy := range []string{"idle", "transact", "echo", "list"} {
		busy := busy
		t.Run(busy, func(t *testing.T) {
			var defSchema ovsdb.DatabaseSchema
			require.NoError(t, json.Unmarshal([]byte(schema), &defSchema))
			_, sock := newOVSDBServer(t, defDB, defSchema)
			proxy := newHuntProxy(t, sock)
			var silent int32
			never := make(chan struct{})
			proxy.setHook(func(c2s bool, m *huntMsg, raw []byte) huntAction {
				if m.conn == 1 && atomic.LoadInt32(&silent) == 1 {
					<-never // both directions of the first connection are black-holed from now on
				}
				return huntForward
			})
			l := logr.Discard()
			const inactivity = 400 * time.Millisecond
			ovs, err := newOVSDBClient(defDB, WithLogger(&l),
				WithInactivityCheck(inactivity, 2*time.Second, &backoff.ZeroBackOff{}), WithEndpoint(proxy.endpoint()))
			require.NoError(t, err)
			require.NoError(t, ovs.Connect(context.Background()))
			_, err = ovs.MonitorAll(context.Background())
			require.NoError(t, err)
			ops, err := ovs.Create(&Bridge{Name: "hunt-silent"})
			require.NoError(t, err)
			atomic.StoreInt32(&silent, 1)
			stop := make(chan struct{})
			defer close(stop)
			go func() {
				for {
					select {
					case <-stop:
						return
					default:
					}
					ctx, cancel := context.WithTimeout(context.Background(), inactivity/3)
					switch busy {
					case "transact":
						_, _ = ovs.Transact(ctx, ops...)
					case "echo":
						_ = ovs.Echo(ctx)
					case "list":
						var brs []Bridge
						_ = ovs.List(ctx, &brs)
						time.Sleep(inactivity / 3)
					default:
						time.Sleep(inactivity / 3)
					}
					cancel()
				}
			}()
			deadline := time.Now().Add(12 * inactivity)
			for time.Now().Before(deadline) {
				if proxy.connections() >= 2 {
					return // the silent connection was dropped and the client dialled again
				}
				time.Sleep(20 * time.Millisecond)
			}
			proxy.mu.Lock()
			proxy.keepOpen = true
			proxy.mu.Unlock()
			t.Fatalf("inactivity check of %v, peer silent for %v while the application keeps calling (%s) with deadlines of %v: "+
				"expected the client to drop the connection and dial again; it is still on its first connection, Connected()=%v",
				inactivity, 12*inactivity, busy, inactivity/3, ovs.Connected())
		})
	}
}
