package client

import (
	"context"
	"encoding/json"
	"fmt"
	"testing"
	"time"

	"github.com/cenkalti/backoff/v4"
	"github.com/go-logr/logr"
	"github.com/google/uuid"
	"github.com/ovn-org/libovsdb/ovsdb"
	"github.com/ovn-org/libovsdb/ovsdb/serverdb"
	"github.com/stretchr/testify/require"
)

func huntAddDB(t *testing.T, cli Client, name, mod string, leader bool, sid *string) {
	row := &serverdb.Database{UUID: uuid.NewString(), Name: name, Connected: true, Leader: leader, Model: mod, Sid: sid}
	ops, err := cli.Create(row)
	require.NoError(t, err)
	reply, err := cli.Transact(context.Background(), ops...)
	require.NoError(t, err)
	_, err = ovsdb.CheckOperationResults(reply, ops)
	require.NoError(t, err)
}

func TestHuntXSeveralDatabases(t *testing.T) {
	var c1, c2, d1, d2 int32
	cli1, row1, endpoint1 := newClientServerPair(t, &c1, &d1, true)
	cli2, row2, endpoint2 := newClientServerPair(t, &c2, &d2, false)
	s1, s2 := "aaaa", "bbbb"
	huntAddDB(t, cli1, "_Server", serverdb.DatabaseModelStandalone, true, nil)
	huntAddDB(t, cli1, "AAA_Other", serverdb.DatabaseModelClustered, false, &s1)
	huntAddDB(t, cli1, "ZZZ_Other", serverdb.DatabaseModelClustered, false, row1.Sid)
	huntAddDB(t, cli2, "_Server", serverdb.DatabaseModelStandalone, true, nil)
	huntAddDB(t, cli2, "AAA_Other", serverdb.DatabaseModelClustered, true, &s2)
	huntAddDB(t, cli2, "ZZZ_Other", serverdb.DatabaseModelClustered, true, row2.Sid)

	l := logr.Discard()
	ovs, err := newOVSDBClient(defDB,
		WithLogger(&l),
		WithLeaderOnly(true),
		WithReconnect(2*time.Second, &backoff.ZeroBackOff{}),
		WithEndpoint(endpoint2),
		WithEndpoint(endpoint1))
	require.NoError(t, err)
	require.NoError(t, ovs.Connect(context.Background()))
	t.Cleanup(ovs.Close)
	require.Equal(t, endpoint1, ovs.CurrentEndpoint())
	for i := 0; i < 4; i++ {
		require.NoError(t, huntSetLeader(cli2, row2, true))
		require.NoError(t, huntSetLeader(cli1, row1, false))
		require.Eventually(t, func() bool { return ovs.Connected() && ovs.CurrentEndpoint() == endpoint2 }, 3*time.Second, 10*time.Millisecond, "to 2, round %d", i)
		require.NoError(t, huntSetLeader(cli1, row1, true))
		require.NoError(t, huntSetLeader(cli2, row2, false))
		require.Eventually(t, func() bool { return ovs.Connected() && ovs.CurrentEndpoint() == endpoint1 }, 3*time.Second, 10*time.Millisecond, "to 1, round %d", i)
	}
}

func TestHuntXSwapIndex(t *testing.T) {
	var defSchema ovsdb.DatabaseSchema
	require.NoError(t, json.Unmarshal([]byte(schema), &defSchema))
	_, sock := newOVSDBServer(t, defDB, defSchema)
	l := logr.Discard()
	ref, err := newOVSDBClient(defDB, WithLogger(&l), WithEndpoint("unix:"+sock))
	require.NoError(t, err)
	require.NoError(t, ref.Connect(context.Background()))
	t.Cleanup(ref.Close)
	_, err = ref.MonitorAll(context.Background())
	require.NoError(t, err)
	ovs, err := newOVSDBClient(defDB, WithLogger(&l), WithReconnect(time.Second, &backoff.ZeroBackOff{}), WithEndpoint("unix:"+sock))
	require.NoError(t, err)
	require.NoError(t, ovs.Connect(context.Background()))
	t.Cleanup(ovs.Close)
	_, err = ovs.MonitorAll(context.Background())
	require.NoError(t, err)
	for i := 0; i < 30; i++ {
		var bs []Bridge
		require.NoError(t, ref.List(context.Background(), &bs))
		var ops []ovsdb.Operation
		for _, b := range bs {
			b := b
			o, err := ref.Where(&b).Delete()
			require.NoError(t, err)
			ops = append(ops, o...)
		}
		for j := 0; j < 4; j++ {
			o, err := ref.Create(&Bridge{Name: fmt.Sprint("br", j)})
			require.NoError(t, err)
			ops = append(ops, o...)
		}
		res, err := ref.Transact(context.Background(), ops...)
		require.NoError(t, err)
		_, err = ovsdb.CheckOperationResults(res, ops)
		require.NoError(t, err)
		time.Sleep(20 * time.Millisecond)
		var got []Bridge
		require.NoError(t, ovs.List(context.Background(), &got))
		require.Len(t, got, 4, "round %d", i)
	}
}
