package client

import (
	"encoding/json"
	"fmt"
	"math/rand"
	"net"
	"os"
	"sync"
	"testing"
)

// huntProxy is a fault-injecting proxy between a client and an OVSDB server.
// It splits both byte streams into JSON-RPC messages and calls hook for each
// of them before forwarding it.
type huntAction int

const (
	huntForward  huntAction = iota // forward the message
	huntCut                        // do not forward, close both sides
	huntCutAfter                   // forward, then close both sides
	huntCutHalf                    // forward the first half of the bytes, then close
	huntDrop                       // swallow the message
)

type huntMsg struct {
	Method string            `json:"method"`
	Params []json.RawMessage `json:"params"`
	ID     interface{}       `json:"id"`
	Result json.RawMessage   `json:"result"`
	Error  json.RawMessage   `json:"error"`
	// conn is the number of the proxied connection (1 is the first)
	conn int
}

type huntProxy struct {
	path    string
	backend string
	ln      net.Listener
	mu      sync.Mutex
	hook    func(c2s bool, m *huntMsg, raw []byte) huntAction
	conns   []net.Conn
	nconn   int
	// keepOpen: do not close the connections when the test ends
	keepOpen bool
}

func newHuntProxy(t *testing.T, backendSock string) *huntProxy {
	p := &huntProxy{
		path:    fmt.Sprintf("/tmp/hunt-proxy-%d-%d.sock", os.Getpid(), rand.Intn(1000000)),
		backend: backendSock,
	}
	os.Remove(p.path)
	ln, err := net.Listen("unix", p.path)
	if err != nil {
		t.Fatal(err)
	}
	p.ln = ln
	t.Cleanup(func() {
		ln.Close()
		p.mu.Lock()
		keep := p.keepOpen
		p.mu.Unlock()
		if !keep {
			p.cutAll()
		}
		os.Remove(p.path)
	})
	go p.accept()
	return p
}

func (p *huntProxy) endpoint() string { return "unix:" + p.path }

func (p *huntProxy) setHook(h func(c2s bool, m *huntMsg, raw []byte) huntAction) {
	p.mu.Lock()
	p.hook = h
	p.mu.Unlock()
}

func (p *huntProxy) connections() int {
	p.mu.Lock()
	defer p.mu.Unlock()
	return p.nconn
}

func (p *huntProxy) cutAll() {
	p.mu.Lock()
	conns := p.conns
	p.conns = nil
	p.mu.Unlock()
	for _, c := range conns {
		c.Close()
	}
}

func (p *huntProxy) accept() {
	for {
		c, err := p.ln.Accept()
		if err != nil {
			return
		}
		s, err := net.Dial("unix", p.backend)
		if err != nil {
			c.Close()
			continue
		}
		p.mu.Lock()
		p.conns = append(p.conns, c, s)
		p.nconn++
		n := p.nconn
		p.mu.Unlock()
		go p.pump(c, s, true, n)
		go p.pump(s, c, false, n)
	}
}

func (p *huntProxy) pump(from, to net.Conn, c2s bool, n int) {
	defer from.Close()
	defer to.Close()
	dec := json.NewDecoder(from)
	for {
		var raw json.RawMessage
		if err := dec.Decode(&raw); err != nil {
			return
		}
		var m huntMsg
		_ = json.Unmarshal(raw, &m)
		m.conn = n
		p.mu.Lock()
		h := p.hook
		p.mu.Unlock()
		action := huntForward
		if h != nil {
			action = h(c2s, &m, raw)
		}
		switch action {
		case huntCut:
			return
		case huntDrop:
			continue
		case huntCutHalf:
			_, _ = to.Write(raw[:len(raw)/2])
			return
		}
		if _, err := to.Write(raw); err != nil {
			return
		}
		if action == huntCutAfter {
			return
		}
	}
}

// huntDBName returns the database name a request is about (first param)
func (m *huntMsg) huntDBName() string {
	if len(m.Params) == 0 {
		return ""
	}
	var s string
	_ = json.Unmarshal(m.Params[0], &s)
	return s
}
