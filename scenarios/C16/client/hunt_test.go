package client

import (
	"context"
	"encoding/json"
	"fmt"
	"os"
	"strings"
	"sync"
	"sync/atomic"
	"testing"
	"time"

	"github.com/cenkalti/backoff/v4"
	"github.com/go-logr/logr"
	"github.com/go-logr/logr/funcr"
	"github.com/ovn-org/libovsdb/ovsdb"
	"github.com/ovn-org/libovsdb/ovsdb/serverdb"
	"github.com/stretchr/testify/require"
)

func huntSetLeader(cli Client, row *serverdb.Database, isLeader bool) error {
	row.Leader = isLeader
	ops, err := cli.Where(row).Update(row, &row.Leader)
	if err != nil {
		return err
	}
	reply, err := cli.Transact(context.Background(), ops...)
	if err != nil {
		return err
	}
	_, err = ovsdb.CheckOperationResults(reply, ops)
	return err
}

// The endpoint loses leadership after the client has checked it (select on
// _Server.Database in tryEndpoint) and before the monitor on _Server.Database
// is set up. The initial contents of that monitor report leader=false.
func TestHuntLeaderLostBeforeServerMonitor(t *testing.T) {
	var c1, c2, d1, d2 int32
	cli1, row1, endpoint1 := newClientServerPair(t, &c1, &d1, true)
	cli2, row2, endpoint2 := newClientServerPair(t, &c2, &d2, false)

	proxy := newHuntProxy(t, strings.TrimPrefix(endpoint1, "unix:"))
	var once sync.Once
	var hookErr error
	proxy.setHook(func(c2s bool, m *huntMsg, raw []byte) huntAction {
		if c2s && m.Method == "monitor_cond" && m.huntDBName() == serverDB {
			once.Do(func() {
				// leadership moves from server 1 to server 2
				if err := huntSetLeader(cli2, row2, true); err != nil {
					hookErr = err
				}
				if err := huntSetLeader(cli1, row1, false); err != nil {
					hookErr = err
				}
			})
		}
		return huntForward
	})

	ovs, err := newOVSDBClient(defDB,
		WithLeaderOnly(true),
		WithReconnect(2*time.Second, &backoff.ZeroBackOff{}),
		WithEndpoint(proxy.endpoint()),
		WithEndpoint(endpoint2))
	require.NoError(t, err)
	require.NoError(t, ovs.Connect(context.Background()))
	t.Cleanup(ovs.Close)
	require.NoError(t, hookErr)

	deadline := time.Now().Add(3 * time.Second)
	for time.Now().Before(deadline) {
		if ovs.Connected() && ovs.CurrentEndpoint() == endpoint2 {
			return
		}
		time.Sleep(20 * time.Millisecond)
	}
	var dbs []serverdb.Database
	_ = ovs.databases[serverDB].api.List(context.Background(), &dbs)
	leader := "?"
	for _, d := range dbs {
		if d.Name == defDB.Name() {
			if d.Leader {
				leader = "true"
			} else {
				leader = "false"
			}
		}
	}
	t.Fatalf("leader-only client: expected it to leave the endpoint that reports leader=false and attach to %s (the leader); "+
		"after 3s it is still Connected()=%v on %s, whose _Server.Database row in the client's own cache has leader=%s",
		endpoint2, ovs.Connected(), ovs.CurrentEndpoint(), leader)
}

// The connection is cut while Connect() is setting up the monitor on
// _Server.Database (leader-only mode). Connect() reports the error, the
// client reconnects by itself (reconnect=true), a second Connect() reports
// success - and nothing watches the leadership any more.
func TestHuntCutDuringLeaderWatchSetup(t *testing.T) {
	var c1, c2, d1, d2 int32
	cli1, row1, endpoint1 := newClientServerPair(t, &c1, &d1, true)
	cli2, row2, endpoint2 := newClientServerPair(t, &c2, &d2, false)

	proxy := newHuntProxy(t, strings.TrimPrefix(endpoint1, "unix:"))
	var once sync.Once
	proxy.setHook(func(c2s bool, m *huntMsg, raw []byte) huntAction {
		action := huntForward
		if c2s && m.Method == "monitor_cond" && m.huntDBName() == serverDB {
			once.Do(func() { action = huntCut })
		}
		return action
	})

	l := logr.Discard()
	ovs, err := newOVSDBClient(defDB,
		WithLogger(&l),
		WithLeaderOnly(true),
		WithReconnect(2*time.Second, &backoff.ZeroBackOff{}),
		WithEndpoint(proxy.endpoint()),
		WithEndpoint(endpoint2))
	require.NoError(t, err)
	err = ovs.Connect(context.Background())
	t.Cleanup(ovs.Close)
	require.Error(t, err, "the cut happens inside Connect()")
	t.Logf("first Connect(): %v", err)

	// the client reconnects on its own
	require.Eventually(t, ovs.Connected, 3*time.Second, 10*time.Millisecond)
	// and the application retries Connect(), which succeeds
	require.NoError(t, ovs.Connect(context.Background()))
	require.True(t, ovs.Connected())
	require.Equal(t, proxy.endpoint(), ovs.CurrentEndpoint())

	// leadership moves from server 1 to server 2
	require.NoError(t, huntSetLeader(cli2, row2, true))
	require.NoError(t, huntSetLeader(cli1, row1, false))

	deadline := time.Now().Add(3 * time.Second)
	for time.Now().Before(deadline) {
		if ovs.Connected() && ovs.CurrentEndpoint() == endpoint2 {
			return
		}
		time.Sleep(20 * time.Millisecond)
	}
	ovs.databases[serverDB].monitorsMutex.Lock()
	n := len(ovs.databases[serverDB].monitors)
	ovs.databases[serverDB].monitorsMutex.Unlock()
	t.Fatalf("leader-only client: expected it to move to %s after its endpoint lost leadership; "+
		"3s later it is still Connected()=%v on %s (monitors on _Server: %d)",
		endpoint2, ovs.Connected(), ovs.CurrentEndpoint(), n)
}

// A peer that is silent for two inactivity periods while a transaction is in
// flight, and then answers it.
func TestHuntInactivityProbeVersusTransact(t *testing.T) {
	var defSchema ovsdb.DatabaseSchema
	require.NoError(t, json.Unmarshal([]byte(schema), &defSchema))
	_, sock := newOVSDBServer(t, defDB, defSchema)
	proxy := newHuntProxy(t, sock)

	var stall int32
	release := make(chan struct{})
	proxy.setHook(func(c2s bool, m *huntMsg, raw []byte) huntAction {
		if !c2s && atomic.LoadInt32(&stall) == 1 {
			<-release // the peer is silent
		}
		return huntForward
	})

	l := logr.Discard()
	const inactivity = 400 * time.Millisecond
	ovs, err := newOVSDBClient(defDB,
		WithLogger(&l),
		WithInactivityCheck(inactivity, 2*time.Second, &backoff.ZeroBackOff{}),
		WithEndpoint(proxy.endpoint()))
	require.NoError(t, err)
	require.NoError(t, ovs.Connect(context.Background()))
	_, err = ovs.MonitorAll(context.Background())
	require.NoError(t, err)

	ops, err := ovs.Create(&Bridge{Name: "hunt-br"})
	require.NoError(t, err)

	atomic.StoreInt32(&stall, 1)
	type outcome struct {
		res []ovsdb.OperationResult
		err error
	}
	done := make(chan outcome, 1)
	const txnTimeout = 3 * time.Second
	go func() {
		ctx, cancel := context.WithTimeout(context.Background(), txnTimeout)
		defer cancel()
		res, err := ovs.Transact(ctx, ops...)
		done <- outcome{res, err}
	}()

	// silent for more than two inactivity periods: the probe gives up
	time.Sleep(3 * inactivity)
	// ... then the peer answers everything
	atomic.StoreInt32(&stall, 0)
	close(release)

	select {
	case o := <-done:
		t.Logf("Transact returned: %v %v", o.res, o.err)
	case <-time.After(txnTimeout + 3*time.Second):
		// closing the connection now would crash the test binary: the blocked
		// Transact panics with "send on closed channel" (see findings)
		proxy.mu.Lock()
		proxy.keepOpen = true
		proxy.mu.Unlock()
		t.Fatalf("Transact(ctx with a %v deadline): expected it to return (results, or an error) "+
			"once the peer answered or at the latest when its context expired; "+
			"%v later it still has not returned (the client is deadlocked: Transact holds rpcMutex.RLock and "+
			"blocks on trafficSeen, handleInactivityProbes blocks in Disconnect() on rpcMutex.Lock)",
			txnTimeout, txnTimeout+3*time.Second)
	}
	require.Eventually(t, ovs.Connected, 5*time.Second, 10*time.Millisecond, "client reconnects")
}

// With the inactivity check enabled, the connection is cut right after the
// reply to a transaction was delivered.
func TestHuntCutRightAfterTransactReply(t *testing.T) {
	var defSchema ovsdb.DatabaseSchema
	require.NoError(t, json.Unmarshal([]byte(schema), &defSchema))
	srv, sock := newOVSDBServer(t, defDB, defSchema)
	_ = srv
	proxy := newHuntProxy(t, sock)

	var mu sync.Mutex
	transactID := ""
	proxy.setHook(func(c2s bool, m *huntMsg, raw []byte) huntAction {
		mu.Lock()
		defer mu.Unlock()
		if c2s && m.Method == "transact" {
			transactID = fmt.Sprint(m.ID)
			return huntForward
		}
		if !c2s && m.Method == "" && transactID != "" && fmt.Sprint(m.ID) == transactID {
			transactID = ""
			return huntCutAfter
		}
		return huntForward
	})

	l := logr.Discard()
	ovs, err := newOVSDBClient(defDB,
		WithLogger(&l),
		WithInactivityCheck(10*time.Second, 2*time.Second, &backoff.ZeroBackOff{}),
		WithEndpoint(proxy.endpoint()))
	require.NoError(t, err)
	require.NoError(t, ovs.Connect(context.Background()))
	_, err = ovs.MonitorAll(context.Background())
	require.NoError(t, err)

	transact := func(i int) (res []ovsdb.OperationResult, err error, panicked interface{}) {
		defer func() { panicked = recover() }()
		ops, err := ovs.Create(&Bridge{Name: fmt.Sprintf("hunt-br-%d", i)})
		require.NoError(t, err)
		ctx, cancel := context.WithTimeout(context.Background(), 5*time.Second)
		defer cancel()
		res, err = ovs.Transact(ctx, ops...)
		return
	}
	for i := 0; i < 50; i++ {
		res, err, panicked := transact(i)
		if panicked != nil {
			t.Fatalf("Transact #%d, connection cut right after its reply: expected it to return the results "+
				"(or an error); it panicked instead: %v", i, panicked)
		}
		_, _ = res, err
	}
}

// A peer that falls silent for good while a transaction whose context has no
// deadline is in flight: the inactivity probe is there to detect exactly this.
func TestHuntSilentPeerWithTransactInFlight(t *testing.T) {
	var defSchema ovsdb.DatabaseSchema
	require.NoError(t, json.Unmarshal([]byte(schema), &defSchema))
	_, sock := newOVSDBServer(t, defDB, defSchema)
	proxy := newHuntProxy(t, sock)

	var silent int32
	never := make(chan struct{})
	proxy.setHook(func(c2s bool, m *huntMsg, raw []byte) huntAction {
		if !c2s && m.conn == 1 && atomic.LoadInt32(&silent) == 1 {
			<-never // the first connection's peer is silent from now on
		}
		return huntForward
	})

	l := logr.Discard()
	const inactivity = 300 * time.Millisecond
	ovs, err := newOVSDBClient(defDB,
		WithLogger(&l),
		WithInactivityCheck(inactivity, 2*time.Second, &backoff.ZeroBackOff{}),
		WithEndpoint(proxy.endpoint()))
	require.NoError(t, err)
	require.NoError(t, ovs.Connect(context.Background()))
	_, err = ovs.MonitorAll(context.Background())
	require.NoError(t, err)

	ops, err := ovs.Create(&Bridge{Name: "hunt-br"})
	require.NoError(t, err)
	atomic.StoreInt32(&silent, 1)
	done := make(chan error, 1)
	if os.Getenv("HUNT_BASELINE") == "" {
		go func() {
			_, err := ovs.Transact(context.Background(), ops...)
			done <- err
		}()
	}

	// 2 inactivity periods are enough for the probe to give up on the peer
	deadline := time.Now().Add(10 * inactivity)
	for time.Now().Before(deadline) {
		if proxy.connections() >= 2 {
			return // the client dropped the silent connection and dialled again
		}
		time.Sleep(20 * time.Millisecond)
	}
	returned := "has not returned"
	select {
	case err := <-done:
		returned = fmt.Sprintf("returned %v", err)
	default:
	}
	proxy.mu.Lock()
	proxy.keepOpen = true
	proxy.mu.Unlock()
	t.Fatalf("inactivity check of %v, peer silent for %v: expected the client to drop the connection and reconnect; "+
		"it is still on its first connection and Transact %s (Disconnect() of the probe waits for rpcMutex, "+
		"which Transact holds for reading until its reply arrives)",
		inactivity, 10*inactivity, returned)
}

// Two endpoints. The active one is lost and from then on accepts connections
// without ever answering (a hung peer); the other endpoint is healthy.
func TestHuntFailoverFromHungEndpoint(t *testing.T) {
	var defSchema ovsdb.DatabaseSchema
	require.NoError(t, json.Unmarshal([]byte(schema), &defSchema))
	_, sockA := newOVSDBServer(t, defDB, defSchema)
	_, sockB := newOVSDBServer(t, defDB, defSchema)
	proxy := newHuntProxy(t, sockA)
	endpointB := "unix:" + sockB

	var silent int32
	never := make(chan struct{})
	proxy.setHook(func(c2s bool, m *huntMsg, raw []byte) huntAction {
		if !c2s && atomic.LoadInt32(&silent) == 1 {
			<-never
		}
		return huntForward
	})

	var logMu sync.Mutex
	lastReconnectError := ""
	l := funcr.New(func(prefix, args string) {
		if strings.Contains(args, "failed to reconnect") {
			logMu.Lock()
			lastReconnectError = args
			logMu.Unlock()
		}
	}, funcr.Options{Verbosity: 2})
	const reconnectTimeout = 300 * time.Millisecond
	ovs, err := newOVSDBClient(defDB,
		WithLogger(&l),
		WithReconnect(reconnectTimeout, &backoff.ZeroBackOff{}),
		WithEndpoint(proxy.endpoint()),
		WithEndpoint(endpointB))
	require.NoError(t, err)
	require.NoError(t, ovs.Connect(context.Background()))
	_, err = ovs.MonitorAll(context.Background())
	require.NoError(t, err)
	require.Equal(t, proxy.endpoint(), ovs.CurrentEndpoint())

	atomic.StoreInt32(&silent, 1)
	proxy.cutAll()

	const wait = 4 * time.Second
	deadline := time.Now().Add(wait)
	for time.Now().Before(deadline) {
		if ovs.Connected() && ovs.CurrentEndpoint() == endpointB {
			return
		}
		time.Sleep(20 * time.Millisecond)
	}
	proxy.mu.Lock()
	attempts := proxy.nconn - 1
	proxy.mu.Unlock()
	t.Fatalf("endpoints [hung, healthy], reconnect timeout %v: expected the client to be connected to the healthy endpoint %s; "+
		"%v after the loss it has dialled the hung endpoint %d times and is not connected "+
		"(each attempt spends its whole context on the first endpoint and tries the second one with an expired context); "+
		"last error logged: %s",
		reconnectTimeout, endpointB, wait, attempts, lastReconnectError)
}
