package client

import (
	"bufio"
	"context"
	"encoding/json"
	"fmt"
	"net"
	"net/url"
	"os"
	"sort"
	"sync"
	"sync/atomic"
	"testing"
	"time"

	"github.com/go-logr/logr"
	"github.com/ovn-org/libovsdb/database/inmemory"
	"github.com/ovn-org/libovsdb/model"
	"github.com/ovn-org/libovsdb/ovsdb"
	"github.com/ovn-org/libovsdb/ovsdb/serverdb"
	"github.com/ovn-org/libovsdb/server"
	"github.com/stretchr/testify/require"
)

// proxy actions
const (
	huntW4Pass = iota
	huntW4CutBefore
	huntW4CutAfter
	huntW4CutMid
	huntW4Drop    // the message is swallowed, the connection stays
	huntW4Silence // this message and everything after it, in both directions, is swallowed
)

var huntW4SockSeq int32

func huntW4Sock(kind string) string {
	return fmt.Sprintf("/tmp/hunt-%s-%d-%d.sock", kind, os.Getpid(), atomic.AddInt32(&huntW4SockSeq, 1))
}

type huntW4ProxyConn struct {
	c, s   net.Conn
	once   sync.Once
	silent int32
}

func (pc *huntW4ProxyConn) cut() {
	pc.once.Do(func() {
		pc.c.Close()
		pc.s.Close()
	})
}

// huntW4Proxy forwards a unix socket to another, message by message (one JSON
// document per line in both directions) and can cut a connection at any
// message boundary or in the middle of a message
type huntW4Proxy struct {
	path, target string
	ln           net.Listener
	mu           sync.Mutex
	conns        []*huntW4ProxyConn
	refuse       bool
	// fromServer decides what happens to message number msgIdx (from 0) sent
	// by the server on connection number connIdx (from 0)
	fromServer func(connIdx, msgIdx int, msg []byte) int
	fromClient func(connIdx, msgIdx int, msg []byte) int
}

func newHuntW4Proxy(t testing.TB, target string) *huntW4Proxy {
	p := &huntW4Proxy{path: huntW4Sock("proxy"), target: target}
	ln, err := net.Listen("unix", p.path)
	require.NoError(t, err)
	p.ln = ln
	t.Cleanup(func() { ln.Close(); os.Remove(p.path); p.cutAll() })
	go func() {
		for {
			c, err := ln.Accept()
			if err != nil {
				return
			}
			p.mu.Lock()
			refuse := p.refuse
			p.mu.Unlock()
			if refuse {
				c.Close()
				continue
			}
			s, err := net.Dial("unix", p.target)
			if err != nil {
				c.Close()
				continue
			}
			pc := &huntW4ProxyConn{c: c, s: s}
			p.mu.Lock()
			idx := len(p.conns)
			p.conns = append(p.conns, pc)
			p.mu.Unlock()
			go p.pump(pc, idx, s, c, true)
			go p.pump(pc, idx, c, s, false)
		}
	}()
	return p
}

func (p *huntW4Proxy) pump(pc *huntW4ProxyConn, idx int, from, to net.Conn, server bool) {
	defer pc.cut()
	r := bufio.NewReaderSize(from, 1<<20)
	n := 0
	for {
		line, err := r.ReadBytes('\n')
		if err != nil {
			return
		}
		action := huntW4Pass
		p.mu.Lock()
		f := p.fromClient
		if server {
			f = p.fromServer
		}
		p.mu.Unlock()
		if f != nil {
			action = f(idx, n, line)
		}
		n++
		if action == huntW4Silence {
			atomic.StoreInt32(&pc.silent, 1)
		}
		if atomic.LoadInt32(&pc.silent) == 1 {
			continue
		}
		switch action {
		case huntW4CutBefore:
			return
		case huntW4CutMid:
			_, _ = to.Write(line[:len(line)/2])
			return
		case huntW4Drop:
			continue
		}
		if _, err := to.Write(line); err != nil {
			return
		}
		if action == huntW4CutAfter {
			return
		}
	}
}

func (p *huntW4Proxy) setFromServer(f func(connIdx, msgIdx int, msg []byte) int) {
	p.mu.Lock()
	p.fromServer = f
	p.mu.Unlock()
}

func (p *huntW4Proxy) setFromClient(f func(connIdx, msgIdx int, msg []byte) int) {
	p.mu.Lock()
	p.fromClient = f
	p.mu.Unlock()
}

func (p *huntW4Proxy) setRefuse(b bool) {
	p.mu.Lock()
	p.refuse = b
	p.mu.Unlock()
}

func (p *huntW4Proxy) cutAll() {
	p.mu.Lock()
	conns := append([]*huntW4ProxyConn{}, p.conns...)
	p.mu.Unlock()
	for _, pc := range conns {
		pc.cut()
	}
}

func (p *huntW4Proxy) numConns() int {
	p.mu.Lock()
	defer p.mu.Unlock()
	return len(p.conns)
}

func (p *huntW4Proxy) endpoint() string { return "unix:" + p.path }

// huntW4Server starts the library's server with the Open_vSwitch test schema and
// the _Server database
func huntW4Server(t testing.TB) (*server.OvsdbServer, string) {
	var defSchema ovsdb.DatabaseSchema
	require.NoError(t, json.Unmarshal([]byte(schema), &defSchema))
	serverDBModel, err := serverdb.FullDatabaseModel()
	require.NoError(t, err)
	serverSchema := serverdb.Schema()
	db := inmemory.NewDatabase(map[string]model.ClientDBModel{
		defSchema.Name:    defDB,
		serverSchema.Name: serverDBModel,
	})
	dbMod, errs := model.NewDatabaseModel(defSchema, defDB)
	require.Empty(t, errs)
	servMod, errs := model.NewDatabaseModel(serverSchema, serverDBModel)
	require.Empty(t, errs)
	s, err := server.NewOvsdbServer(db, dbMod, servMod)
	require.NoError(t, err)
	sock := huntW4Sock("srv")
	t.Cleanup(func() { os.Remove(sock) })
	go func() { _ = s.Serve("unix", sock) }()
	t.Cleanup(s.Close)
	require.Eventually(t, s.Ready, time.Second, 5*time.Millisecond)
	return s, sock
}

func huntW4Quiet() Option {
	l := logr.Discard()
	return WithLogger(&l)
}

// huntW4Direct returns a client connected straight to the server (the "other
// client" that commits while the client under test is away)
func huntW4Direct(t testing.TB, sock string) *ovsdbClient {
	c, err := newOVSDBClient(defDB, WithEndpoint("unix:"+sock), huntW4Quiet())
	require.NoError(t, err)
	require.NoError(t, c.Connect(context.Background()))
	t.Cleanup(c.Close)
	return c
}

func huntW4Transact(t testing.TB, c Client, ops []ovsdb.Operation) []ovsdb.OperationResult {
	ctx, cancel := context.WithTimeout(context.Background(), 5*time.Second)
	defer cancel()
	res, err := c.Transact(ctx, ops...)
	require.NoError(t, err)
	_, err = ovsdb.CheckOperationResults(res, ops)
	require.NoError(t, err)
	return res
}

// huntW4Bridges selects the bridges the server holds: name -> external_ids
func huntW4Bridges(t testing.TB, c Client) map[string]string {
	res := huntW4Transact(t, c, []ovsdb.Operation{{Op: ovsdb.OperationSelect, Table: "Bridge", Where: []ovsdb.Condition{}}})
	out := map[string]string{}
	for _, r := range res[0].Rows {
		out[r["name"].(string)] = huntW4MapString(r["external_ids"])
	}
	return out
}

func huntW4MapString(v interface{}) string {
	if v == nil {
		return "[]"
	}
	m, ok := v.(ovsdb.OvsMap)
	if !ok {
		return fmt.Sprintf("%v", v)
	}
	keys := []string{}
	for k, val := range m.GoMap {
		keys = append(keys, fmt.Sprintf("%v=%v", k, val))
	}
	sort.Strings(keys)
	return fmt.Sprintf("%v", keys)
}

// huntW4CacheBridges is what the cache of the client holds: name -> external_ids
func huntW4CacheBridges(c *ovsdbClient) map[string]string {
	out := map[string]string{}
	tc := c.Cache()
	if tc == nil {
		return out
	}
	for _, m := range tc.Table("Bridge").Rows() {
		b := m.(*Bridge)
		keys := []string{}
		for k, v := range b.ExternalIDs {
			keys = append(keys, fmt.Sprintf("%v=%v", k, v))
		}
		sort.Strings(keys)
		out[b.Name] = fmt.Sprintf("%v", keys)
	}
	return out
}

func huntW4CacheOVS(c *ovsdbClient) map[string]int {
	out := map[string]int{}
	tc := c.Cache()
	if tc == nil {
		return out
	}
	for u, m := range tc.Table("Open_vSwitch").Rows() {
		out[u] = m.(*OpenvSwitch).NextCfg
	}
	return out
}

func huntW4ServerOVS(t testing.TB, c Client) map[string]int {
	res := huntW4Transact(t, c, []ovsdb.Operation{{Op: ovsdb.OperationSelect, Table: "Open_vSwitch", Where: []ovsdb.Condition{}}})
	out := map[string]int{}
	for _, r := range res[0].Rows {
		n := 0
		switch v := r["next_cfg"].(type) {
		case int:
			n = v
		case float64:
			n = int(v)
		}
		out[r["_uuid"].(ovsdb.UUID).GoUUID] = n
	}
	return out
}

func huntW4InsertBridge(name string, ids map[string]string) ovsdb.Operation {
	row := ovsdb.Row{"name": name}
	if ids != nil {
		m := map[interface{}]interface{}{}
		for k, v := range ids {
			m[k] = v
		}
		row["external_ids"] = ovsdb.OvsMap{GoMap: m}
	}
	return ovsdb.Operation{Op: ovsdb.OperationInsert, Table: "Bridge", Row: row}
}

func huntW4WhereName(name string) []ovsdb.Condition {
	return []ovsdb.Condition{{Column: "name", Function: ovsdb.ConditionEqual, Value: name}}
}

func huntW4WaitConnected(t testing.TB, c *ovsdbClient, d time.Duration) {
	require.Eventually(t, c.Connected, d, 5*time.Millisecond, "client did not report connected")
}

func mustParse(t testing.TB, ep string) *url.URL {
	u, err := url.Parse(ep)
	require.NoError(t, err)
	return u
}
