package client

import (
	"context"
	"encoding/json"
	"fmt"
	"math/rand"
	"reflect"
	"sort"
	"sync"
	"sync/atomic"
	"testing"
	"time"

	"github.com/cenkalti/backoff/v4"
	"github.com/go-logr/logr"
	"github.com/ovn-org/libovsdb/ovsdb"
	"github.com/stretchr/testify/require"
)

// random cuts at message boundaries in front of the history-keeping fake
func TestHuntXStressFake(t *testing.T) {
	for seed := int64(1); seed <= 30; seed++ {
		seed := seed
		t.Run(fmt.Sprint("seed", seed), func(t *testing.T) {
			rng := rand.New(rand.NewSource(seed))
			var rngMu sync.Mutex
			rnd := func(n int) int { rngMu.Lock(); defer rngMu.Unlock(); return rng.Intn(n) }
			f := newHuntFake(t)
			proxy := newHuntProxy(t, f.path)
			var cutting int32 = 0
			proxy.setHook(func(c2s bool, m *huntMsg, raw []byte) huntAction {
				if atomic.LoadInt32(&cutting) == 1 && rnd(6) == 0 {
					return huntAction(rnd(4))
				}
				return huntForward
			})
			l := logr.Discard()
			ovs, err := newOVSDBClient(huntModel(t),
				WithLogger(&l),
				WithReconnect(500*time.Millisecond, &backoff.ZeroBackOff{}),
				WithEndpoint(proxy.endpoint()))
			require.NoError(t, err)
			require.NoError(t, ovs.Connect(context.Background()))
			t.Cleanup(ovs.Close)
			nmon := 1 + rnd(2)
			if nmon == 1 {
				_, err = ovs.Monitor(context.Background(), ovs.NewMonitor(WithTable(&huntT{}), WithTable(&huntU{})))
				require.NoError(t, err)
			} else {
				m1 := ovs.NewMonitor(WithTable(&huntT{}))
				m2 := ovs.NewMonitor(WithTable(&huntU{}))
				if rnd(2) == 0 {
					m2.Method = "monitor_cond"
				}
				_, err = ovs.Monitor(context.Background(), m1)
				require.NoError(t, err)
				_, err = ovs.Monitor(context.Background(), m2)
				require.NoError(t, err)
			}
			atomic.StoreInt32(&cutting, 1)
			for i := 0; i < 150; i++ {
				f.commit(func(s huntState) {
					table := []string{"T", "U"}[rnd(2)]
					u := fmt.Sprintf("00000000-0000-0000-0000-00000000000%d", rnd(6))
					switch rnd(3) {
					case 0:
						if _, ok := s[table][u]; !ok {
							s[table][u] = huntRow{name: fmt.Sprint("n", i), tags: map[string]string{}}
						}
					case 1:
						delete(s[table], u)
					case 2:
						if r, ok := s[table][u]; ok && table == "T" {
							k := fmt.Sprint("k", rnd(3))
							if _, ok := r.tags[k]; ok && rnd(2) == 0 {
								delete(r.tags, k)
							} else {
								r.tags[k] = fmt.Sprint("v", rnd(3))
							}
						}
					}
				})
				time.Sleep(time.Duration(rnd(3)) * time.Millisecond)
			}
			atomic.StoreInt32(&cutting, 0)
			var got, want huntState
			ok := false
			deadline := time.Now().Add(5 * time.Second)
			for time.Now().Before(deadline) {
				want = f.current()
				if ovs.Connected() {
					got = huntCacheState(t, ovs)
					if reflect.DeepEqual(got, want) {
						ok = true
						break
					}
				}
				time.Sleep(50 * time.Millisecond)
			}
			found := 0
			f.mu.Lock()
			for _, r := range f.sinceRequests {
				if _, ok := f.snapshot[r.LastID]; ok {
					found++
				}
			}
			f.mu.Unlock()
			t.Logf("monitors=%d connections=%d since-requests=%d found=%d", nmon, proxy.connections(), f.numSinceRequests(), found)
			if !ok {
				t.Fatalf("monitors=%d connected=%v\n db:    %v\n cache: %v", nmon, ovs.Connected(), want, got)
			}
		})
	}
}

func TestHuntXStressServer(t *testing.T) {
	var defSchema ovsdb.DatabaseSchema
	require.NoError(t, json.Unmarshal([]byte(schema), &defSchema))
	for seed := int64(1); seed <= 20; seed++ {
		seed := seed
		t.Run(fmt.Sprint("seed", seed), func(t *testing.T) {
			rng := rand.New(rand.NewSource(seed))
			var rngMu sync.Mutex
			rnd := func(n int) int { rngMu.Lock(); defer rngMu.Unlock(); return rng.Intn(n) }
			_, sock := newOVSDBServer(t, defDB, defSchema)
			proxy := newHuntProxy(t, sock)
			var cutting int32 = 0
			proxy.setHook(func(c2s bool, m *huntMsg, raw []byte) huntAction {
				if atomic.LoadInt32(&cutting) == 1 && rnd(8) == 0 {
					return huntAction(rnd(4))
				}
				return huntForward
			})
			l := logr.Discard()
			// the writer and reference
			ref, err := newOVSDBClient(defDB, WithLogger(&l), WithEndpoint("unix:"+sock))
			require.NoError(t, err)
			require.NoError(t, ref.Connect(context.Background()))
			t.Cleanup(ref.Close)
			_, err = ref.MonitorAll(context.Background())
			require.NoError(t, err)

			ovs, err := newOVSDBClient(defDB,
				WithLogger(&l),
				WithReconnect(500*time.Millisecond, &backoff.ZeroBackOff{}),
				WithEndpoint(proxy.endpoint()))
			require.NoError(t, err)
			require.NoError(t, ovs.Connect(context.Background()))
			t.Cleanup(ovs.Close)
			methods := []string{ovsdb.MonitorRPC, ovsdb.ConditionalMonitorRPC, ovsdb.ConditionalMonitorSinceRPC}
			nmon := 1 + rnd(2)
			if nmon == 1 {
				m := ovs.NewMonitor(WithTable(&Bridge{}), WithTable(&OpenvSwitch{}))
				m.Method = methods[rnd(3)]
				_, err = ovs.Monitor(context.Background(), m)
				require.NoError(t, err)
			} else {
				m1 := ovs.NewMonitor(WithTable(&Bridge{}))
				m2 := ovs.NewMonitor(WithTable(&OpenvSwitch{}))
				m1.Method = methods[rnd(3)]
				m2.Method = methods[rnd(3)]
				_, err = ovs.Monitor(context.Background(), m1)
				require.NoError(t, err)
				_, err = ovs.Monitor(context.Background(), m2)
				require.NoError(t, err)
			}
			atomic.StoreInt32(&cutting, 1)
			type outcome struct {
				name string
				ok   bool
			}
			var outcomes []outcome
			var wg sync.WaitGroup
			wg.Add(1)
			go func() {
				defer wg.Done()
				// the client's own transactions
				for i := 0; i < 40; i++ {
					name := fmt.Sprintf("own-%d", i)
					ops, err := ovs.Create(&Bridge{Name: name, ExternalIDs: map[string]string{"i": fmt.Sprint(i)}})
					if err != nil {
						t.Error(err)
						return
					}
					ctx, cancel := context.WithTimeout(context.Background(), 2*time.Second)
					res, err := ovs.Transact(ctx, ops...)
					cancel()
					ok := err == nil && len(res) == 1 && res[0].Error == ""
					outcomes = append(outcomes, outcome{name, ok})
				}
			}()
			for i := 0; i < 100; i++ {
				name := fmt.Sprintf("br-%d", rnd(8))
				var existing []Bridge
				_ = ref.WhereCache(func(b *Bridge) bool { return b.Name == name }).List(context.Background(), &existing)
				var ops []ovsdb.Operation
				if len(existing) == 0 {
					ops, err = ref.Create(&Bridge{Name: name, ExternalIDs: map[string]string{"a": "b"}})
				} else if rnd(2) == 0 {
					ops, err = ref.Where(&existing[0]).Delete()
				} else {
					b := existing[0]
					b.ExternalIDs = map[string]string{fmt.Sprint("k", rnd(3)): fmt.Sprint("v", rnd(3))}
					b.FloodVLANs = []int{rnd(4), 10 + rnd(4)}
					ops, err = ref.Where(&existing[0]).Update(&b, &b.ExternalIDs, &b.FloodVLANs)
				}
				require.NoError(t, err)
				_, err = ref.Transact(context.Background(), ops...)
				require.NoError(t, err)
				time.Sleep(time.Duration(rnd(3)) * time.Millisecond)
			}
			wg.Wait()
			atomic.StoreInt32(&cutting, 0)
			list := func(c *ovsdbClient) map[string]Bridge {
				var bs []Bridge
				_ = c.List(context.Background(), &bs)
				r := map[string]Bridge{}
				for _, b := range bs {
					// sets are unordered, empty and nil collections are the same value
					n := Bridge{UUID: b.UUID, Name: b.Name}
					if len(b.ExternalIDs) > 0 {
						n.ExternalIDs = b.ExternalIDs
					}
					if len(b.FloodVLANs) > 0 {
						n.FloodVLANs = append([]int{}, b.FloodVLANs...)
						sort.Ints(n.FloodVLANs)
					}
					r[b.UUID] = n
				}
				return r
			}
			var got, want map[string]Bridge
			ok := false
			deadline := time.Now().Add(5 * time.Second)
			for time.Now().Before(deadline) {
				want = list(ref)
				if ovs.Connected() {
					got = list(ovs)
					if reflect.DeepEqual(got, want) {
						ok = true
						break
					}
				}
				time.Sleep(50 * time.Millisecond)
			}
			t.Logf("monitors=%d connections=%d", nmon, proxy.connections())
			if !ok {
				for u, w := range want {
					if g, ok := got[u]; !ok {
						t.Errorf("missing in cache: %+v", w)
					} else if !reflect.DeepEqual(g, w) {
						t.Errorf("differs:\n db    %#v\n cache %#v", w, g)
					}
				}
				for u, g := range got {
					if _, ok := want[u]; !ok {
						t.Errorf("only in cache: %+v", g)
					}
				}
				t.FailNow()
			}
			count := map[string]int{}
			for _, b := range want {
				count[b.Name]++
			}
			nok := 0
			for _, o := range outcomes {
				if o.ok {
					nok++
				}
				if o.ok && count[o.name] != 1 {
					t.Errorf("Transact for %s returned results but %d rows exist", o.name, count[o.name])
				}
				if !o.ok && count[o.name] > 1 {
					t.Errorf("Transact for %s returned an error but %d rows exist", o.name, count[o.name])
				}
			}
			t.Logf("own transactions: %d of %d returned results", nok, len(outcomes))
		})
	}
}
