package client

import (
	"context"
	"encoding/json"
	"fmt"
	"io"
	"math/rand"
	"net"
	"os"
	"runtime"
	"strings"
	"sync"
	"sync/atomic"
	"testing"
	"time"

	"github.com/cenkalti/backoff/v4"
	"github.com/go-logr/logr"
	"github.com/ovn-org/libovsdb/ovsdb"
	"github.com/stretchr/testify/require"
)

// huntW3Proxy sits between the client under test and an ovsdb server. The
// connections that exist when silence() is called turn into a silent peer:
// every request of the client (transact, echo, monitor_cancel, ...) is
// swallowed and never answered. Everything else still flows: the
// notifications the server had to send, and the client's replies to them.
// Connections opened afterwards (the reconnect) work normally.
type huntW3Proxy struct {
	ln      net.Listener
	target  string
	path    string
	mu      sync.Mutex
	conns   []*huntW3ProxyConn
	dropped []string
	accepts int32
}

type huntW3ProxyConn struct {
	c, s   net.Conn
	silent int32
	// do not even read what the client sends
	stalled int32
}

// huntW3StallReader stops reading from the client while the connection is stalled
type huntW3StallReader struct{ pc *huntW3ProxyConn }

func (r *huntW3StallReader) Read(b []byte) (int, error) {
	for atomic.LoadInt32(&r.pc.stalled) == 1 {
		time.Sleep(10 * time.Millisecond)
	}
	if len(b) > 4096 {
		b = b[:4096]
	}
	return r.pc.c.Read(b)
}

func newHuntW3Proxy(t *testing.T, target string) *huntW3Proxy {
	path := fmt.Sprintf("/tmp/huntproxy-%d-%d.sock", os.Getpid(), rand.Intn(1000000))
	os.Remove(path)
	ln, err := net.Listen("unix", path)
	require.NoError(t, err)
	p := &huntW3Proxy{ln: ln, target: strings.TrimPrefix(target, "unix:"), path: path}
	t.Cleanup(func() {
		ln.Close()
		os.Remove(path)
		// lets the calls that hang on a silent connection return
		p.cutAll()
		time.Sleep(100 * time.Millisecond)
	})
	go p.serve()
	return p
}

func (p *huntW3Proxy) endpoint() string { return "unix:" + p.path }

func (p *huntW3Proxy) serve() {
	for {
		c, err := p.ln.Accept()
		if err != nil {
			return
		}
		s, err := net.Dial("unix", p.target)
		if err != nil {
			c.Close()
			continue
		}
		atomic.AddInt32(&p.accepts, 1)
		pc := &huntW3ProxyConn{c: c, s: s}
		p.mu.Lock()
		p.conns = append(p.conns, pc)
		p.mu.Unlock()
		// server to client: bytes
		go func() {
			_, _ = io.Copy(c, s)
			c.Close()
			s.Close()
		}()
		// client to server: message by message
		go func() {
			dec := json.NewDecoder(&huntW3StallReader{pc})
			for {
				var raw json.RawMessage
				if err := dec.Decode(&raw); err != nil {
					break
				}
				for atomic.LoadInt32(&pc.stalled) == 1 {
					// nothing is forwarded, nothing more is read
					time.Sleep(10 * time.Millisecond)
				}
				var hdr struct {
					Method string `json:"method"`
				}
				_ = json.Unmarshal(raw, &hdr)
				if hdr.Method != "" && atomic.LoadInt32(&pc.silent) == 1 {
					p.mu.Lock()
					p.dropped = append(p.dropped, hdr.Method)
					p.mu.Unlock()
					continue
				}
				if _, err := s.Write(raw); err != nil {
					break
				}
			}
			c.Close()
			s.Close()
		}()
	}
}

func (p *huntW3Proxy) cutAll() {
	p.mu.Lock()
	defer p.mu.Unlock()
	for _, pc := range p.conns {
		atomic.StoreInt32(&pc.stalled, 0)
		pc.c.Close()
		pc.s.Close()
	}
}

func (p *huntW3Proxy) silence() {
	p.mu.Lock()
	defer p.mu.Unlock()
	for _, pc := range p.conns {
		atomic.StoreInt32(&pc.silent, 1)
	}
}

func (p *huntW3Proxy) stall() {
	p.mu.Lock()
	defer p.mu.Unlock()
	for _, pc := range p.conns {
		atomic.StoreInt32(&pc.stalled, 1)
	}
}

func (p *huntW3Proxy) droppedMethod(m string) bool {
	p.mu.Lock()
	defer p.mu.Unlock()
	for _, d := range p.dropped {
		if d == m {
			return true
		}
	}
	return false
}

// huntW3ProbeState says where the inactivity probe of the client is
func huntW3ProbeState() string {
	buf := make([]byte, 1<<20)
	buf = buf[:runtime.Stack(buf, true)]
	for _, g := range strings.Split(string(buf), "\n\n") {
		if !strings.Contains(g, "(*ovsdbClient).handleInactivityProbes(") {
			continue
		}
		var fns []string
		for _, line := range strings.Split(g, "\n")[1:] {
			if !strings.HasPrefix(line, "\t") && (strings.Contains(line, "rpc2") || strings.Contains(line, "ovsdbClient") || strings.Contains(line, "sync.")) {
				if i := strings.LastIndex(line, "("); i > 0 {
					line = line[:i]
				}
				fns = append(fns, line[strings.LastIndex(line, "/")+1:])
			}
		}
		return strings.TrimSpace(strings.Split(g, "\n")[0]) + " " + strings.Join(fns, " < ")
	}
	return "not running"
}

// huntW3Blocked lists the goroutines of the client that wait for rpcMutex
func huntW3Blocked() string {
	buf := make([]byte, 1<<20)
	buf = buf[:runtime.Stack(buf, true)]
	var out []string
	for _, g := range strings.Split(string(buf), "\n\n") {
		if !strings.Contains(g, "sync.(*RWMutex)") {
			continue
		}
		for _, f := range []string{"watchForLeaderChange", "sendEcho", "dropConnection", "MonitorCancel", "handleDisconnectNotification"} {
			if strings.Contains(g, "(*ovsdbClient)."+f) {
				lines := strings.Split(g, "\n")
				out = append(out, fmt.Sprintf("%s in %s: %s", f, strings.TrimSpace(lines[0]), strings.TrimSpace(lines[1])))
			}
		}
	}
	return strings.Join(out, "; ")
}

type huntW3TransactResult struct {
	res []ovsdb.OperationResult
	err error
}

// A leader-only client with the inactivity check on has a Transact in flight
// when its peer goes silent. The last thing the peer sent was an ordinary
// notification for the client's _Server monitor (the "index" column of the
// Database row, which a clustered server bumps on every commit). The
// inactivity probe is expected to notice the silent peer, drop the connection,
// make the Transact return and let the client reconnect.
func TestHuntSilentPeerLeaderOnlyTransactInFlight(t *testing.T) {
	for _, withServerNotification := range []bool{false, true} {
		name := "control_no_notification"
		if withServerNotification {
			name = "server_db_notification_while_transact_in_flight"
		}
		withServerNotification := withServerNotification
		t.Run(name, func(t *testing.T) {
			var connected, disconnected int32
			cliS, row, endpoint := newClientServerPair(t, &connected, &disconnected, true)
			p := newHuntW3Proxy(t, endpoint)

			l := logr.Discard()
			const probe = 300 * time.Millisecond
			c, err := newOVSDBClient(defDB,
				WithLeaderOnly(true),
				WithLogger(&l),
				WithInactivityCheck(probe, 2*time.Second, backoff.NewConstantBackOff(10*time.Millisecond)),
				WithEndpoint(p.endpoint()))
			require.NoError(t, err)
			require.NoError(t, c.Connect(context.Background()))
			_, err = c.MonitorAll(context.Background())
			require.NoError(t, err)
			require.EqualValues(t, 1, atomic.LoadInt32(&p.accepts))

			// the peer stops answering
			p.silence()
			done := make(chan huntW3TransactResult, 1)
			go func() {
				res, err := c.Transact(context.Background(), ovsdb.Operation{
					Op: ovsdb.OperationInsert, Table: "Bridge", Row: ovsdb.Row{"name": "hunt"}})
				done <- huntW3TransactResult{res, err}
			}()
			require.Eventually(t, func() bool { return p.droppedMethod("transact") },
				2*time.Second, 5*time.Millisecond, "the transact request never reached the proxy")

			if withServerNotification {
				// one more commit on the server side: the index of the
				// database moves, the endpoint is still the leader
				idx := 42
				row.Index = &idx
				ops, err := cliS.Where(row).Update(row, &row.Index)
				require.NoError(t, err)
				ctx, cancel := context.WithTimeout(context.Background(), 2*time.Second)
				_, err = cliS.Transact(ctx, ops...)
				cancel()
				require.NoError(t, err)
			}

			// a silent peer is found out after two probe intervals; allow ten times that
			select {
			case r := <-done:
				require.Error(t, r.err, "the peer never answered the transact, yet results came back: %+v", r.res)
			case <-time.After(20 * probe):
				t.Fatalf("expected: the inactivity probe (every %v) drops the silent connection, the Transact in flight returns an error and the client reconnects; "+
					"got: after %v Transact is still blocked, Connected()=%v, connections opened by the client=%d, echo sent by the probe=%v; waiting for rpcMutex: %s",
					probe, 20*probe, c.connected, atomic.LoadInt32(&p.accepts), p.droppedMethod("echo"), huntW3Blocked())
			}
			require.Eventually(t, func() bool { return c.Connected() && atomic.LoadInt32(&p.accepts) >= 2 },
				5*time.Second, 10*time.Millisecond, "the client did not reconnect")
			c.Close()
		})
	}
}

// The peer goes silent while the application cancels a monitor (no deadline
// on the context, as for the Transact whose hang was repaired). The probe is
// expected to drop the connection, MonitorCancel to return an error and the
// client to reconnect with its monitor.
func TestHuntSilentPeerMonitorCancelInFlight(t *testing.T) {
	var defSchema ovsdb.DatabaseSchema
	require.NoError(t, json.Unmarshal([]byte(schema), &defSchema))
	_, sock := newOVSDBServer(t, defDB, defSchema)
	p := newHuntW3Proxy(t, sock)

	l := logr.Discard()
	const probe = 300 * time.Millisecond
	c, err := newOVSDBClient(defDB,
		WithLogger(&l),
		WithInactivityCheck(probe, 2*time.Second, backoff.NewConstantBackOff(10*time.Millisecond)),
		WithEndpoint(p.endpoint()))
	require.NoError(t, err)
	require.NoError(t, c.Connect(context.Background()))
	cookie, err := c.MonitorAll(context.Background())
	require.NoError(t, err)

	p.silence()
	done := make(chan error, 1)
	go func() {
		done <- c.MonitorCancel(context.Background(), cookie)
	}()
	require.Eventually(t, func() bool { return p.droppedMethod("monitor_cancel") },
		2*time.Second, 5*time.Millisecond)

	select {
	case err := <-done:
		require.Error(t, err, "the peer never answered monitor_cancel")
	case <-time.After(20 * probe):
		t.Fatalf("expected: the inactivity probe (every %v) drops the silent connection, MonitorCancel returns an error and the client reconnects; "+
			"got: after %v MonitorCancel is still blocked, connections opened by the client=%d, echo sent by the probe=%v; waiting for rpcMutex: %s",
			probe, 20*probe, atomic.LoadInt32(&p.accepts), p.droppedMethod("echo"), huntW3Blocked())
	}
	require.Eventually(t, func() bool { return c.Connected() && atomic.LoadInt32(&p.accepts) >= 2 },
		5*time.Second, 10*time.Millisecond, "the client did not reconnect")
	c.Close()
}

// The peer stops reading and answering (a stopped process: the connection
// stays open). A Transact whose request does not fit into the socket buffers
// blocks in its write. The probe is expected to notice the silent peer, drop
// the connection (which makes the write fail) and let the client reconnect.
func TestHuntSilentPeerNotReading(t *testing.T) {
	for _, size := range []int{100, 8 << 20} {
		size := size
		t.Run(fmt.Sprintf("request_of_%d_bytes", size), func(t *testing.T) {
			var defSchema ovsdb.DatabaseSchema
			require.NoError(t, json.Unmarshal([]byte(schema), &defSchema))
			_, sock := newOVSDBServer(t, defDB, defSchema)
			p := newHuntW3Proxy(t, sock)

			l := logr.Discard()
			const probe = 300 * time.Millisecond
			c, err := newOVSDBClient(defDB,
				WithLogger(&l),
				WithInactivityCheck(probe, 2*time.Second, backoff.NewConstantBackOff(10*time.Millisecond)),
				WithEndpoint(p.endpoint()))
			require.NoError(t, err)
			require.NoError(t, c.Connect(context.Background()))
			_, err = c.MonitorAll(context.Background())
			require.NoError(t, err)

			p.stall()
			time.Sleep(50 * time.Millisecond)
			done := make(chan huntW3TransactResult, 1)
			go func() {
				res, err := c.Transact(context.Background(), ovsdb.Operation{
					Op: ovsdb.OperationInsert, Table: "Bridge",
					Row: ovsdb.Row{"name": "hunt", "datapath_type": strings.Repeat("x", size)}})
				done <- huntW3TransactResult{res, err}
			}()

			select {
			case r := <-done:
				require.Error(t, r.err, "the peer never answered the transact, yet results came back")
			case <-time.After(20 * probe):
				t.Fatalf("expected: the inactivity probe (every %v) drops the connection to the peer that stopped reading, the Transact in flight returns an error and the client reconnects; "+
					"got: after %v Transact is still blocked, connections opened by the client=%d; the probe: %s",
					probe, 20*probe, atomic.LoadInt32(&p.accepts), huntW3ProbeState())
			}
			require.Eventually(t, func() bool { return c.Connected() && atomic.LoadInt32(&p.accepts) >= 2 },
				5*time.Second, 10*time.Millisecond, "the client did not reconnect")
			c.Close()
		})
	}
}
