package client

import (
	"context"
	"reflect"
	"testing"
	"time"

	"github.com/cenkalti/backoff/v4"
	"github.com/ovn-org/libovsdb/ovsdb"
	"github.com/stretchr/testify/require"
)

// The server is unreachable for a while; the application, which sees
// Connected() == false (or an error from Transact), calls Connect() until it
// succeeds - while the client's own reconnect loop sleeps between two attempts.
func TestHuntConnectCalledWhileReconnecting(t *testing.T) {
	t.Skip("outside the property's quantifier: a Connect call made by the application while the client is reconnecting on its own")
	_, sock := huntW4Server(t)
	direct := huntW4Direct(t, sock)
	proxy := newHuntW4Proxy(t, sock)

	cli, err := newOVSDBClient(defDB, huntW4Quiet(), WithEndpoint(proxy.endpoint()),
		WithReconnect(500*time.Millisecond, backoff.NewConstantBackOff(400*time.Millisecond)))
	require.NoError(t, err)
	require.NoError(t, cli.Connect(context.Background()))
	defer cli.Close()
	_, err = cli.Monitor(context.Background(), cli.NewMonitor(WithTable(&Bridge{})))
	require.NoError(t, err)
	huntW4Transact(t, direct, []ovsdb.Operation{huntW4InsertBridge("b1", nil)})
	require.Eventually(t, func() bool { return len(huntW4CacheBridges(cli)) == 1 }, time.Second, 5*time.Millisecond)

	proxy.setRefuse(true)
	proxy.cutAll()
	huntW4Transact(t, direct, []ovsdb.Operation{
		{Op: ovsdb.OperationDelete, Table: "Bridge", Where: huntW4WhereName("b1")},
		huntW4InsertBridge("b2", nil),
	})
	// the reconnect loop has failed at least once and sleeps
	require.Eventually(t, func() bool { return !cli.Connected() && cli.CurrentEndpoint() == "" }, time.Second, time.Millisecond)
	time.Sleep(50 * time.Millisecond)
	proxy.setRefuse(false)
	// whatever Connect answers, the client is to end up connected and in sync
	_ = cli.Connect(context.Background())
	require.Eventually(t, cli.Connected, 3*time.Second, 5*time.Millisecond, "the client does not report being connected")

	huntW4Transact(t, direct, []ovsdb.Operation{huntW4InsertBridge("b3", nil)})
	want := huntW4Bridges(t, direct)
	var got map[string]string
	for end := time.Now().Add(3 * time.Second); time.Now().Before(end); time.Sleep(20 * time.Millisecond) {
		got = huntW4CacheBridges(cli)
		if cli.Connected() && reflect.DeepEqual(got, want) {
			return
		}
	}
	cli.primaryDB().cacheMutex.RLock()
	deferring := cli.primaryDB().deferUpdates
	cli.primaryDB().cacheMutex.RUnlock()
	t.Fatalf("expected: 3s after the client reports being connected its cache holds the bridges of the database %v; got: cache %v (Connected()=%v, updates deferred=%v): the monitor was not restarted",
		want, got, cli.Connected(), deferring)
}
