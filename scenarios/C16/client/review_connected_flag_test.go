package client

import (
	"context"
	"encoding/json"
	"errors"
	"fmt"
	"sync"
	"sync/atomic"
	"testing"
	"time"

	"github.com/cenkalti/backoff/v4"
	"github.com/go-logr/logr"
	"github.com/ovn-org/libovsdb/cache"
	"github.com/ovn-org/libovsdb/model"
	"github.com/ovn-org/libovsdb/ovsdb"
)

// Commit 6173ae2 (kept by c545310, and the same in 498260b for the error
// handler) made the inactivity probe close the rpc connection directly instead
// of calling Disconnect(). Disconnect() also cleared o.connected, under the
// lock, BEFORE it closed the connection; the replacement does not. The flag now
// stays true after the probe has given the connection up, until
// handleDisconnectNotification has waited for every handler (including a cache
// event handler of the user that is still running) and for the client lock.
//
// Visible effects while the flag is stale:
//   - Connected() reports true for a connection the client itself closed;
//   - Transact of a client WithReconnect/WithInactivityCheck returns
//     ErrNotConnected at once instead of waiting for the reconnection (the
//     documented behaviour, and what happened before the commit);
//   - the library's own TestClientInactiveCheck now takes the old connection
//     for the new one (it polls Connected() and then reads ovs.rpcClient) and
//     is flagged by `go test -race` about one run in ten (never before 6173ae2).
//
// Input: a peer that stops answering echo while a cache event handler of the
// user is busy. Expected: once the probe has closed the connection Connected()
// is false and Transact waits for the reconnection. Observed: Connected() is
// true and Transact fails at once with ErrNotConnected.
func TestHuntReviewInactivityDropLeavesConnectedFlagSet(t *testing.T) {
	srv := newReviewFakeServer(t)
	var echoOff atomic.Bool
	srv.hook = func(c *reviewFakeConn, method string, id *json.RawMessage, params json.RawMessage) bool {
		return !(method == "echo" && echoOff.Load())
	}
	l := logr.Discard()
	ovs, err := newOVSDBClient(defDB,
		WithEndpoint(srv.endpoint()),
		WithLogger(&l),
		WithInactivityCheck(200*time.Millisecond, 2*time.Second, backoff.NewConstantBackOff(10*time.Millisecond)))
	if err != nil {
		t.Fatal(err)
	}
	ctx, cancel := context.WithTimeout(context.Background(), 10*time.Second)
	defer cancel()
	if err := ovs.Connect(ctx); err != nil {
		t.Fatal(err)
	}
	defer ovs.Close()
	c0 := <-srv.accepted

	// a cache event handler of the user that takes its time
	entered := make(chan struct{})
	release := make(chan struct{})
	var once, releaseOnce sync.Once
	doRelease := func() { releaseOnce.Do(func() { close(release) }) }
	defer doRelease()
	ovs.Cache().AddEventHandler(&cache.EventHandlerFuncs{
		AddFunc: func(table string, m model.Model) {
			once.Do(func() { close(entered) })
			<-release
		},
	})
	if _, err := ovs.MonitorAll(ctx); err != nil {
		t.Fatal(err)
	}
	cookie := <-c0.monitored
	if err := c0.write([]byte(fmt.Sprintf(
		`{"method":"update2","params":[%s,{"Bridge":{"%s":{"insert":{"name":"br0"}}}}],"id":null}`+"\n",
		string(cookie), aUUID0))); err != nil {
		t.Fatal(err)
	}
	select {
	case <-entered:
	case <-time.After(5 * time.Second):
		t.Fatal("the event handler was not called")
	}

	ovs.rpcMutex.RLock()
	rpcGone := ovs.rpcClient.DisconnectNotify()
	ovs.rpcMutex.RUnlock()

	// the peer goes silent: the probe sends an echo, gets no answer and
	// closes the connection
	echoOff.Store(true)
	select {
	case <-rpcGone:
	case <-time.After(5 * time.Second):
		t.Fatal("the inactivity probe did not close the connection")
	}
	// let whatever follows the close settle (the handler is still busy)
	time.Sleep(100 * time.Millisecond)

	if ovs.Connected() {
		t.Errorf("expected Connected() == false after the inactivity probe closed the connection, got true")
	}
	tctx, tcancel := context.WithTimeout(context.Background(), 300*time.Millisecond)
	defer tcancel()
	comment := "review"
	start := time.Now()
	_, err = ovs.Transact(tctx, ovsdb.Operation{Op: ovsdb.OperationComment, Comment: &comment})
	if errors.Is(err, ErrNotConnected) {
		t.Errorf("expected Transact of a reconnecting client to wait for the reconnection (until its context ends), "+
			"got %q after %v", err, time.Since(start))
	}
	doRelease()
}
