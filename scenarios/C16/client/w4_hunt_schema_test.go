package client

import (
	"context"
	"encoding/json"
	"os"
	"testing"
	"time"

	"github.com/cenkalti/backoff/v4"
	"github.com/ovn-org/libovsdb/database/inmemory"
	"github.com/ovn-org/libovsdb/model"
	"github.com/ovn-org/libovsdb/ovsdb"
	"github.com/ovn-org/libovsdb/server"
	"github.com/stretchr/testify/require"
)

// huntW4OldServer serves an Open_vSwitch database whose schema lacks the Bridge
// table (say a member of the cluster that was not upgraded yet)
func huntW4OldServer(t testing.TB) string {
	var s ovsdb.DatabaseSchema
	require.NoError(t, json.Unmarshal([]byte(schema), &s))
	delete(s.Tables, "Bridge")
	cm, err := model.NewClientDBModel("Open_vSwitch", map[string]model.Model{"Open_vSwitch": &OpenvSwitch{}})
	require.NoError(t, err)
	db := inmemory.NewDatabase(map[string]model.ClientDBModel{s.Name: cm})
	dbMod, errs := model.NewDatabaseModel(s, cm)
	require.Empty(t, errs)
	srv, err := server.NewOvsdbServer(db, dbMod)
	require.NoError(t, err)
	sock := huntW4Sock("old")
	t.Cleanup(func() { os.Remove(sock) })
	go func() { _ = srv.Serve("unix", sock) }()
	t.Cleanup(srv.Close)
	require.Eventually(t, srv.Ready, time.Second, 5*time.Millisecond)
	return sock
}

// A client with two endpoints loses its connection to the good one. While it
// is away it tries the other endpoint, whose schema does not hold a table of
// the client's model, and is rightly refused there. The good endpoint comes
// back: the client must reconnect to it and resynchronise.
func TestHuntReconnectAfterEndpointWithOtherSchema(t *testing.T) {
	_, good := huntW4Server(t)
	direct := huntW4Direct(t, good)
	proxy := newHuntW4Proxy(t, good)
	old := huntW4OldServer(t)

	cli, err := newOVSDBClient(defDB, huntW4Quiet(),
		WithEndpoint(proxy.endpoint()), WithEndpoint("unix:"+old),
		WithReconnect(500*time.Millisecond, backoff.NewConstantBackOff(10*time.Millisecond)))
	require.NoError(t, err)
	require.NoError(t, cli.Connect(context.Background()))
	defer cli.Close()
	_, err = cli.Monitor(context.Background(), cli.NewMonitor(WithTable(&Bridge{})))
	require.NoError(t, err)
	huntW4Transact(t, direct, []ovsdb.Operation{huntW4InsertBridge("b1", nil)})
	require.Eventually(t, func() bool { return len(huntW4CacheBridges(cli)) == 1 }, time.Second, 5*time.Millisecond)

	// the good endpoint is away for a moment
	proxy.setRefuse(true)
	proxy.cutAll()
	huntW4Transact(t, direct, []ovsdb.Operation{
		{Op: ovsdb.OperationDelete, Table: "Bridge", Where: huntW4WhereName("b1")},
		huntW4InsertBridge("b2", nil),
	})
	time.Sleep(200 * time.Millisecond) // several attempts on both endpoints
	proxy.setRefuse(false)

	ok := false
	for end := time.Now().Add(3 * time.Second); time.Now().Before(end); time.Sleep(10 * time.Millisecond) {
		if cli.Connected() {
			ok = true
			break
		}
	}
	if !ok {
		ctx, cancel := context.WithTimeout(context.Background(), 600*time.Millisecond)
		defer cancel()
		cli.rpcMutex.Lock()
		_, errTry := cli.tryEndpoint(ctx, mustParse(t, proxy.endpoint()))
		cli.resetRPCClient()
		cli.rpcMutex.Unlock()
		t.Fatalf("expected: the client reconnects to %s (reachable again, schema matches the model) and its cache holds bridge b2 only; "+
			"got: not connected 3s after the endpoint came back, cache %v; connecting to it now fails with: %v",
			proxy.endpoint(), huntW4CacheBridges(cli), errTry)
	}
	require.Eventually(t, func() bool {
		got := huntW4CacheBridges(cli)
		_, has := got["b2"]
		return len(got) == 1 && has
	}, 2*time.Second, 10*time.Millisecond, "cache did not converge")
}
