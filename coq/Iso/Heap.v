(** A heap model of Go models for the isolation property (C13).

    A model is a struct held by value in the model (cloning a model always
    makes a new struct); a field is a scalar stored in the struct, or a
    reference — a pointer to a scalar, a slice (its backing array) or a map —
    to a heap cell, or nil.  Two models alias when a reference field of one
    points to the same cell as a reference field of the other.
    [deref] reads a model's value through the heap.  A caller can overwrite a
    scalar field of a model it holds (a struct of its own: invisible to
    anybody else), or write through a reference: overwrite the pointee,
    overwrite a slice element, insert into a map — [write], a cell update
    visible to every model that shares the cell.  Appending to a slice never
    changes what another slice header sees and is a field overwrite. *)
From LOV Require Export Base.Atoms.

Notation loc := N.
Inductive fval := FScalar (a : atom) | FRef (l : option loc).
Notation gmodel := (list (sym * fval)).
Notation heap := (gmap loc lvalue).

Definition fval_locs (f : fval) : list loc := match f with FRef (Some l) => [l] | _ => [] end.
Definition locs (m : gmodel) : list loc := m ≫= (fun kv => fval_locs kv.2).

(** the value of a field / a model as the reader sees it; [None] for a dangling reference *)
Definition fderef (h : heap) (f : fval) : option (option lvalue) :=
  match f with
  | FScalar a => Some (Some (LAtom a))
  | FRef None => Some None
  | FRef (Some l) => match h !! l with Some v => Some (Some v) | None => None end
  end.
Definition deref (h : heap) (m : gmodel) : option (list (sym * option lvalue)) :=
  mapM (fun kv => v ← fderef h kv.2; Some (kv.1, v)) m.

(** deep copy: every referenced cell is copied to a fresh location *)
Definition fresh_loc (h : heap) : loc := fresh (dom h).
Fixpoint clone (h : heap) (m : gmodel) : heap * gmodel :=
  match m with
  | [] => (h, [])
  | (k, FRef (Some l)) :: m' =>
      let x := fresh_loc h in
      let h1 := <[x := default (LOpt None) (h !! l)]> h in
      let '(h2, m2) := clone h1 m' in (h2, (k, FRef (Some x)) :: m2)
  | kv :: m' => let '(h2, m2) := clone h m' in (h2, kv :: m2)
  end.

(** the defective copy: a new struct sharing every cell *)
Definition shallow (h : heap) (m : gmodel) : heap * gmodel := (h, m).

(** The system: a heap, the cache's private models, and the models the caller holds. *)
Record sys := mkSys { s_heap : heap; s_cache : gmap sym gmodel; s_held : list gmodel }.

Inductive cop :=
| CGet (u : sym)                       (* read API: the caller receives a model of row u *)
| CPut (u : sym) (i : nat)             (* the caller hands its i-th model to the cache (Create/Update) *)
| CWrite (i : nat) (x : loc) (v : lvalue)   (* write through a reference of the caller's i-th model *)
| CSetField (i : nat) (k : sym) (f : fval). (* overwrite a field of the caller's i-th model (scalar, nil, or a fresh slice/map) *)

Fixpoint set_field (m : gmodel) (k : sym) (f : fval) : gmodel :=
  match m with
  | [] => []
  | (k', f') :: m' => if N.eqb k' k then (k', f) :: m' else (k', f') :: set_field m' k f
  end.

Definition step (copy : heap -> gmodel -> heap * gmodel) (s : sys) (o : cop) : sys :=
  match o with
  | CGet u =>
      match s_cache s !! u with
      | Some m => let '(h', m') := copy (s_heap s) m in mkSys h' (s_cache s) (s_held s ++ [m'])
      | None => s
      end
  | CPut u i =>
      match s_held s !! i with
      | Some m => let '(h', m') := copy (s_heap s) m in mkSys h' (<[u := m']> (s_cache s)) (s_held s)
      | None => s
      end
  | CWrite i x v =>
      match s_held s !! i with
      | Some m => if bool_decide (x ∈ locs m) then mkSys (<[x := v]> (s_heap s)) (s_cache s) (s_held s) else s
      | None => s
      end
  | CSetField i k f =>
      match s_held s !! i, f with
      | Some m, (FScalar _ | FRef None) => mkSys (s_heap s) (s_cache s) (<[i := set_field m k f]> (s_held s))
      | Some m, FRef (Some _) =>
          (* a freshly made slice / map / pointee *)
          let x := fresh_loc (s_heap s) in
          mkSys (<[x := LSet []]> (s_heap s)) (s_cache s) (<[i := set_field m k (FRef (Some x))]> (s_held s))
      | None, _ => s
      end
  end.

(** what the cache returns for a row *)
Definition visible (s : sys) (u : sym) : option (list (sym * option lvalue)) :=
  m ← s_cache s !! u; deref (s_heap s) m.

Definition is_put (o : cop) (u : sym) : bool := match o with CPut u' _ => N.eqb u' u | _ => false end.
