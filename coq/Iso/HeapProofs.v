From LOV Require Import Iso.Heap.

Lemma fresh_loc_none (h : heap) : h !! fresh_loc h = None.
Proof. apply not_elem_of_dom. unfold fresh_loc. apply is_fresh. Qed.

Lemma locs_cons k f m : locs ((k, f) :: m) = fval_locs f ++ locs m.
Proof. reflexivity. Qed.

Lemma deref_cons h k f m :
  deref h ((k, f) :: m) = v ← fderef h f; r ← deref h m; Some ((k, v) :: r).
Proof. unfold deref. cbn. destruct (fderef h f); reflexivity. Qed.

(** frame: a model's value depends on the cells it references only *)
Lemma deref_frame (h h' : heap) m :
  (forall x, x ∈ locs m -> h' !! x = h !! x) -> deref h' m = deref h m.
Proof.
  induction m as [|[k f] m IH]; intros H; [reflexivity|].
  rewrite !deref_cons. rewrite IH.
  2:{ intros x Hx. apply H. rewrite locs_cons. apply elem_of_app. right. exact Hx. }
  destruct f as [a|[l|]]; try reflexivity.
  cbn. rewrite (H l); [reflexivity|]. rewrite locs_cons. apply elem_of_app. left. cbn. apply elem_of_list_singleton. reflexivity.
Qed.

Lemma clone_spec m : forall (h h' : heap) m',
  clone h m = (h', m') ->
  (forall x v, h !! x = Some v -> h' !! x = Some v) /\
  (forall x, x ∈ locs m' -> h !! x = None /\ is_Some (h' !! x)) /\
  ((forall x, x ∈ locs m -> is_Some (h !! x)) -> deref h' m' = deref h m).
Proof.
  induction m as [|[k f] m IH]; intros h h' m'; cbn [clone].
  - intros [= <- <-]. split; [auto|]. split; [intros y Hy; inversion Hy|reflexivity].
  - destruct f as [a|[l|]].
    + destruct (clone h m) as [h2 m2] eqn:E. intros [= <- <-].
      destruct (IH _ _ _ E) as (Ha & Hb & Hc). split; [exact Ha|]. split; [exact Hb|].
      intros H. rewrite !deref_cons. rewrite Hc; [reflexivity|].
      intros x Hx. apply H. rewrite locs_cons. apply elem_of_app. right. exact Hx.
    + set (x := fresh_loc h) in *. set (h1 := <[x := default (LOpt None) (h !! l)]> h) in *.
      destruct (clone h1 m) as [h2 m2] eqn:E. intros [= <- <-].
      destruct (IH _ _ _ E) as (Ha & Hb & Hc).
      pose proof (fresh_loc_none h) as Hx. fold x in Hx.
      assert (Hsub : forall y v, h !! y = Some v -> h1 !! y = Some v).
      { intros y v Hy. unfold h1. rewrite lookup_insert_ne; [exact Hy|]. intros ->. rewrite Hx in Hy. discriminate. }
      split; [intros y v Hy; apply Ha, Hsub, Hy|]. split.
      * intros y Hy. rewrite locs_cons in Hy. apply elem_of_app in Hy as [Hy|Hy].
        -- cbn in Hy. apply elem_of_list_singleton in Hy as ->. split; [exact Hx|].
           exists (default (LOpt None) (h !! l)). apply Ha. unfold h1. apply lookup_insert.
        -- destruct (Hb y Hy) as [Hn Hs]. split; [|exact Hs].
           destruct (h !! y) eqn:Ey; [|reflexivity]. rewrite (Hsub _ _ Ey) in Hn. discriminate.
      * intros H. rewrite !deref_cons.
        assert (Hl : is_Some (h !! l)).
        { apply H. rewrite locs_cons. apply elem_of_app. left. cbn. apply elem_of_list_singleton. reflexivity. }
        destruct Hl as [v Hv]. cbn [fderef]. rewrite Hv.
        rewrite (Ha x v); [|unfold h1; rewrite Hv; apply lookup_insert]. cbn.
        rewrite Hc.
        2:{ intros y Hy. destruct (H y) as [w Hw]; [rewrite locs_cons; apply elem_of_app; right; exact Hy|].
            exists w. apply Hsub, Hw. }
        rewrite (deref_frame h h1 m); [reflexivity|].
        intros y Hy. destruct (H y) as [w Hw]; [rewrite locs_cons; apply elem_of_app; right; exact Hy|].
        rewrite Hw. apply Hsub, Hw.
    + destruct (clone h m) as [h2 m2] eqn:E. intros [= <- <-].
      destruct (IH _ _ _ E) as (Ha & Hb & Hc). split; [exact Ha|]. split; [exact Hb|].
      intros H. rewrite !deref_cons. rewrite Hc; [reflexivity|].
      intros x Hx. apply H. rewrite locs_cons. apply elem_of_app. right. exact Hx.
Qed.

(** Clone: same value, no shared cell *)
Theorem clone_equal_and_disjoint h m h' m' :
  clone h m = (h', m') -> (forall x, x ∈ locs m -> is_Some (h !! x)) ->
  deref h' m' = deref h m /\ deref h' m = deref h m /\ (forall x, x ∈ locs m' -> x ∉ locs m).
Proof.
  intros E H. destruct (clone_spec m h h' m' E) as (Ha & Hb & Hc). split; [apply Hc, H|]. split.
  - apply deref_frame. intros x Hx. destruct (H x Hx) as [v Hv]. rewrite Hv. apply Ha, Hv.
  - intros x Hx Hx'. destruct (Hb x Hx) as [Hn _]. destruct (H x Hx') as [v Hv]. rewrite Hv in Hn. discriminate.
Qed.

(** The invariant: referenced cells exist, and no cell is shared between a cached model and a model the caller holds. *)
Definition Inv (s : sys) : Prop :=
  (forall u m x, s_cache s !! u = Some m -> x ∈ locs m -> is_Some (s_heap s !! x)) /\
  (forall m x, m ∈ s_held s -> x ∈ locs m -> is_Some (s_heap s !! x)) /\
  (forall u mc mh x, s_cache s !! u = Some mc -> mh ∈ s_held s -> x ∈ locs mc -> x ∉ locs mh).

Lemma locs_set_field m k f x : x ∈ locs (set_field m k f) -> x ∈ locs m \/ x ∈ fval_locs f.
Proof.
  induction m as [|[k' f'] m IH]; cbn [set_field]; [intros H; inversion H|].
  destruct (N.eqb k' k); rewrite !locs_cons; intros H; apply elem_of_app in H as [H|H].
  - right. exact H.
  - left. apply elem_of_app. right. exact H.
  - left. apply elem_of_app. left. exact H.
  - destruct (IH H) as [H1|H1]; [left; apply elem_of_app; right; exact H1|right; exact H1].
Qed.

Lemma elem_of_insert_list {A} (l : list A) i x y : y ∈ <[i := x]> l -> y = x \/ y ∈ l.
Proof.
  revert i. induction l as [|a l IH]; intros i; cbn.
  - intros H. inversion H.
  - destruct i as [|i]; cbn; intros H; apply elem_of_cons in H as [->|H].
    + left. reflexivity.
    + right. apply elem_of_cons. right. exact H.
    + right. apply elem_of_cons. left. reflexivity.
    + destruct (IH _ H) as [->|H']; [left; reflexivity|right; apply elem_of_cons; right; exact H'].
Qed.

Theorem inv_preserved s o : Inv s -> Inv (step clone s o).
Proof.
  intros (I1 & I2 & I3). destruct o as [u|u i|i x v|i k f]; cbn [step].
  - (* get *)
    destruct (s_cache s !! u) as [m|] eqn:Eu; [|repeat split; assumption].
    destruct (clone (s_heap s) m) as [h' m'] eqn:E. destruct (clone_spec m _ _ _ E) as (Ha & Hb & _).
    repeat split; cbn.
    + intros u' mc x Hc Hx. destruct (I1 _ _ _ Hc Hx) as [w Hw]. exists w. apply Ha, Hw.
    + intros mh x Hm Hx. apply elem_of_app in Hm as [Hm|Hm].
      * destruct (I2 _ _ Hm Hx) as [w Hw]. exists w. apply Ha, Hw.
      * apply elem_of_list_singleton in Hm as ->. apply (Hb x Hx).
    + intros u' mc mh x Hc Hm Hx. apply elem_of_app in Hm as [Hm|Hm]; [apply (I3 _ _ _ _ Hc Hm Hx)|].
      apply elem_of_list_singleton in Hm as ->. intros Hx'.
      destruct (Hb x Hx') as [Hn _]. destruct (I1 _ _ _ Hc Hx) as [w Hw]. rewrite Hw in Hn. discriminate.
  - (* put *)
    destruct (s_held s !! i) as [m|] eqn:Ei; [|repeat split; assumption].
    destruct (clone (s_heap s) m) as [h' m'] eqn:E. destruct (clone_spec m _ _ _ E) as (Ha & Hb & _).
    repeat split; cbn.
    + intros u' mc x Hc Hx. destruct (decide (u' = u)) as [->|Hne].
      * rewrite lookup_insert in Hc. injection Hc as <-. apply (Hb x Hx).
      * rewrite lookup_insert_ne in Hc by congruence. destruct (I1 _ _ _ Hc Hx) as [w Hw]. exists w. apply Ha, Hw.
    + intros mh x Hm Hx. destruct (I2 _ _ Hm Hx) as [w Hw]. exists w. apply Ha, Hw.
    + intros u' mc mh x Hc Hm Hx. destruct (decide (u' = u)) as [->|Hne].
      * rewrite lookup_insert in Hc. injection Hc as <-. intros Hx'.
        destruct (Hb x Hx) as [Hn _]. destruct (I2 _ _ Hm Hx') as [w Hw]. rewrite Hw in Hn. discriminate.
      * rewrite lookup_insert_ne in Hc by congruence. apply (I3 _ _ _ _ Hc Hm Hx).
  - (* write through a reference *)
    destruct (s_held s !! i) as [m|] eqn:Ei; [|repeat split; assumption].
    destruct (bool_decide (x ∈ locs m)); [|repeat split; assumption].
    repeat split; cbn.
    + intros u' mc y Hc Hy. destruct (decide (y = x)) as [->|Hne]; [rewrite lookup_insert; eauto|].
      rewrite lookup_insert_ne by congruence. apply (I1 _ _ _ Hc Hy).
    + intros mh y Hm Hy. destruct (decide (y = x)) as [->|Hne]; [rewrite lookup_insert; eauto|].
      rewrite lookup_insert_ne by congruence. apply (I2 _ _ Hm Hy).
    + exact I3.
  - (* overwrite a field *)
    destruct (s_held s !! i) as [m|] eqn:Ei; [|repeat split; assumption].
    assert (Hmi : m ∈ s_held s) by (eapply elem_of_list_lookup_2; exact Ei).
    destruct f as [a|[l|]].
    + repeat split; cbn; [exact I1| |].
      * intros mh y Hm Hy. apply elem_of_insert_list in Hm as [->|Hm]; [|apply (I2 _ _ Hm Hy)].
        apply locs_set_field in Hy as [Hy|Hy]; [apply (I2 _ _ Hmi Hy)|inversion Hy].
      * intros u' mc mh y Hc Hm Hy. apply elem_of_insert_list in Hm as [->|Hm]; [|apply (I3 _ _ _ _ Hc Hm Hy)].
        intros Hy'. apply locs_set_field in Hy' as [Hy'|Hy']; [apply (I3 _ _ _ _ Hc Hmi Hy Hy')|inversion Hy'].
    + pose proof (fresh_loc_none (s_heap s)) as Hf. set (x := fresh_loc (s_heap s)) in *.
      repeat split; cbn.
      * intros u' mc y Hc Hy. destruct (I1 _ _ _ Hc Hy) as [w Hw]. exists w.
        rewrite lookup_insert_ne; [exact Hw|]. intros <-. rewrite Hf in Hw. discriminate.
      * intros mh y Hm Hy. destruct (decide (y = x)) as [->|Hne]; [rewrite lookup_insert; eauto|].
        rewrite lookup_insert_ne by congruence.
        apply elem_of_insert_list in Hm as [->|Hm]; [|apply (I2 _ _ Hm Hy)].
        apply locs_set_field in Hy as [Hy|Hy]; [apply (I2 _ _ Hmi Hy)|].
        cbn in Hy. apply elem_of_list_singleton in Hy. congruence.
      * intros u' mc mh y Hc Hm Hy. apply elem_of_insert_list in Hm as [->|Hm]; [|apply (I3 _ _ _ _ Hc Hm Hy)].
        intros Hy'. apply locs_set_field in Hy' as [Hy'|Hy']; [apply (I3 _ _ _ _ Hc Hmi Hy Hy')|].
        cbn in Hy'. apply elem_of_list_singleton in Hy' as ->.
        destruct (I1 _ _ _ Hc Hy) as [w Hw]. rewrite Hf in Hw. discriminate.
    + repeat split; cbn; [exact I1| |].
      * intros mh y Hm Hy. apply elem_of_insert_list in Hm as [->|Hm]; [|apply (I2 _ _ Hm Hy)].
        apply locs_set_field in Hy as [Hy|Hy]; [apply (I2 _ _ Hmi Hy)|inversion Hy].
      * intros u' mc mh y Hc Hm Hy. apply elem_of_insert_list in Hm as [->|Hm]; [|apply (I3 _ _ _ _ Hc Hm Hy)].
        intros Hy'. apply locs_set_field in Hy' as [Hy'|Hy']; [apply (I3 _ _ _ _ Hc Hmi Hy Hy')|inversion Hy'].
Qed.

(** Isolation: nothing the caller does to the models it holds, and no read, changes what the cache returns
    for a row — only handing a model to the cache for that row does. *)
Theorem caller_cannot_change_cache s o u :
  Inv s -> is_put o u = false -> visible (step clone s o) u = visible s u.
Proof.
  intros (I1 & I2 & I3) Hp. unfold visible. destruct o as [u'|u' i|i x v|i k f]; cbn [step].
  - destruct (s_cache s !! u') as [m|] eqn:Eu; [|reflexivity].
    destruct (clone (s_heap s) m) as [h' m'] eqn:E. destruct (clone_spec m _ _ _ E) as (Ha & _ & _). cbn.
    destruct (s_cache s !! u) as [mc|] eqn:Ec; [|reflexivity]. cbn.
    apply deref_frame. intros y Hy. destruct (I1 _ _ _ Ec Hy) as [w Hw]. rewrite Hw. apply Ha, Hw.
  - cbn in Hp. apply N.eqb_neq in Hp.
    destruct (s_held s !! i) as [m|] eqn:Ei; [|reflexivity].
    destruct (clone (s_heap s) m) as [h' m'] eqn:E. destruct (clone_spec m _ _ _ E) as (Ha & _ & _). cbn.
    rewrite lookup_insert_ne by congruence.
    destruct (s_cache s !! u) as [mc|] eqn:Ec; [|reflexivity]. cbn.
    apply deref_frame. intros y Hy. destruct (I1 _ _ _ Ec Hy) as [w Hw]. rewrite Hw. apply Ha, Hw.
  - destruct (s_held s !! i) as [m|] eqn:Ei; [|reflexivity].
    destruct (bool_decide (x ∈ locs m)) eqn:D; [|reflexivity]. apply bool_decide_eq_true in D. cbn.
    destruct (s_cache s !! u) as [mc|] eqn:Ec; [|reflexivity]. cbn.
    apply deref_frame. intros y Hy. rewrite lookup_insert_ne; [reflexivity|]. intros <-.
    apply (I3 _ _ _ _ Ec (elem_of_list_lookup_2 _ _ _ Ei) Hy D).
  - destruct (s_held s !! i) as [m|] eqn:Ei; [|reflexivity].
    destruct f as [a|[l|]]; cbn; try reflexivity.
    destruct (s_cache s !! u) as [mc|] eqn:Ec; [|reflexivity]. cbn.
    apply deref_frame. intros y Hy. rewrite lookup_insert_ne; [reflexivity|]. intros <-.
    destruct (I1 _ _ _ Ec Hy) as [w Hw]. rewrite fresh_loc_none in Hw. discriminate.
Qed.

(** ... for whole sequences of caller actions *)
Theorem isolation_over_histories s ops u :
  Inv s -> forallb (fun o => negb (is_put o u)) ops = true ->
  visible (fold_left (step clone) ops s) u = visible s u /\ Inv (fold_left (step clone) ops s).
Proof.
  revert s. induction ops as [|o ops IH]; intros s HI Hn; [split; [reflexivity|exact HI]|].
  cbn in Hn. apply andb_prop in Hn as [Ho Hn]. apply negb_true_iff in Ho. cbn [fold_left].
  destruct (IH (step clone s o) (inv_preserved s o HI) Hn) as [Hv HI']. split; [|exact HI'].
  rewrite Hv. apply caller_cannot_change_cache; assumption.
Qed.

(** a model handed to the cache is stored by value: changing it afterwards does not change the cached row *)
Theorem put_then_mutate s u i o :
  Inv s -> is_put o u = false ->
  visible (step clone (step clone s (CPut u i)) o) u = visible (step clone s (CPut u i)) u.
Proof. intros HI Hp. apply caller_cannot_change_cache; [apply inv_preserved, HI|exact Hp]. Qed.

Lemma inv_init : Inv (mkSys ∅ ∅ []).
Proof.
  repeat split; cbn.
  - intros u m x H. rewrite lookup_empty in H. discriminate.
  - intros m x H. inversion H.
  - intros u mc mh x H. rewrite lookup_empty in H. discriminate.
Qed.

(** with a copy that shares cells, the caller changes the cache by writing to what a read returned *)
Lemma shallow_copy_refuted :
  exists s o, Inv s /\ (forall u, is_put o u = false) /\
    visible (step shallow (step shallow s (CGet 7%N)) o) 7%N <> visible s 7%N.
Proof.
  exists (mkSys {[ 1%N := LSet [AInt 1] ]} {[ 7%N := [(3%N, FRef (Some 1%N))] ]} []),
         (CWrite 0 1%N (LSet [AInt 2])).
  split; [|split; [reflexivity|vm_compute; discriminate]].
  repeat split; cbn.
  - intros u m x Hc Hx. destruct (decide (u = 7%N)) as [->|Hne].
    + rewrite lookup_singleton in Hc. injection Hc as <-. cbn in Hx. apply elem_of_list_singleton in Hx as ->.
      rewrite lookup_singleton. eauto.
    + rewrite lookup_singleton_ne in Hc by congruence. discriminate.
  - intros m x H. inversion H.
  - intros u mc mh x _ H. inversion H.
Qed.
