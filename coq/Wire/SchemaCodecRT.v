From LOV Require Import Wire.SchemaCodec Wire.SchemaCodecProofs.

Lemma dec_pbase_enc b : wf_base b = true -> dec_pbase (Some (enc_base b)) = Ok (Some b).
Proof.
  intros H. unfold dec_pbase.
  destruct (enc_base b) eqn:E; try (unfold enc_base in E; discriminate).
  rewrite <- E, (base_roundtrip b H). reflexivity.
Qed.

Lemma simple_base_eq b : base_is_simple b = true -> b = simple_base (wb_type b) /\ is_atomic_type (wb_type b) = true.
Proof.
  unfold base_is_simple. intros H. apply andb_prop in H as [Ha H].
  destruct b as [ty [?|] [?|] [?|] [?|] [?|] [?|] [?|] [?|] [?|]]; try discriminate. split; [reflexivity|exact Ha].
Qed.

Definition wf_colty (c : wcolty) : bool :=
  wf_base (ct_key c) && match ct_value c with Some v => wf_base v | None => true end.

Theorem colty_roundtrip c : wf_colty c = true -> dec_colty (enc_colty c) = Ok c.
Proof.
  destruct c as [k va mi ma]. unfold wf_colty. cbn [ct_key ct_value]. intros H.
  apply andb_prop in H as [Hk Hv].
  pose proof (dec_pbase_enc k Hk) as Ek.
  unfold enc_colty. cbn [ct_key ct_value ct_min ct_max].
  destruct va as [v|].
  - pose proof (dec_pbase_enc v Hv) as Ev.
    destruct mi as [mi|], ma as [ma|]; cbn [dec_colty app opt_field obj_get N.eqb s_key s_value s_min s_max Pos.eqb];
      rewrite ?Ek, ?Ev; cbn [rbind]; try reflexivity;
      destruct (Z.eqb_spec ma (-1)) as [->|Hne]; cbn; rewrite ?Z.quot_1_r; reflexivity.
  - destruct mi as [mi|], ma as [ma|];
      try (cbn [dec_colty app opt_field obj_get N.eqb s_key s_value s_min s_max Pos.eqb];
           rewrite ?Ek; cbn [rbind]; try reflexivity;
           destruct (Z.eqb_spec ma (-1)) as [->|Hne]; cbn; rewrite ?Z.quot_1_r; reflexivity).
    destruct (base_is_simple k) eqn:Hs.
    + apply simple_base_eq in Hs as [Hs Ha]. cbn [dec_colty]. rewrite Ha, <- Hs. reflexivity.
    + cbn [dec_colty app opt_field obj_get N.eqb s_key s_value s_min s_max Pos.eqb].
      rewrite Ek. reflexivity.
Qed.

Definition wf_column (c : wcolumn) : bool :=
  wf_colty (wc_type c) &&
  match wc_ext c, infer_ext (wc_type c) with
  | XMap, XMap | XSet, XSet | XEnum, XEnum => true
  | XAtomic a, XAtomic b => N.eqb a b
  | _, _ => false
  end.

Lemma wf_column_ext c : wf_column c = true -> wc_ext c = infer_ext (wc_type c).
Proof.
  unfold wf_column. intros H. apply andb_prop in H as [_ H].
  destruct (wc_ext c), (infer_ext (wc_type c)); try discriminate; try reflexivity.
  apply N.eqb_eq in H. subst. reflexivity.
Qed.

Theorem column_roundtrip c : wf_column c = true -> dec_column (enc_column c) = Ok c.
Proof.
  intros H. pose proof (wf_column_ext c H) as Hx.
  unfold wf_column in H. apply andb_prop in H as [Hc _].
  destruct c as [x ty ep mu]. cbn [wc_type wc_ext] in *. subst x.
  pose proof (colty_roundtrip ty Hc) as E.
  unfold enc_column, dec_column. cbn [wc_type wc_ephemeral wc_mutable app obj_get N.eqb s_type Pos.eqb].
  destruct (enc_colty ty) eqn:Ety; try (cbn in E; discriminate); rewrite ?E; cbn [rbind];
    destruct ep, mu; reflexivity.
Qed.

(** the pinned codec loses minLength *)
Lemma pinned_base_refuted :
  exists b, wf_base b = true /\ pinned_len_roundtrip b <> (wb_minLen b, wb_maxLen b).
Proof.
  exists (mkWBase s_string None None None None None (Some 1%Z) (Some 8%Z) None None).
  split; [reflexivity|discriminate].
Qed.

Example wf_column_example :
  wf_column (mkWColumn XMap (mkWColTy (mkWBase s_string (Some [GStr 50%N; GStr 51%N]) None None None None (Some 1%Z) (Some 8%Z) None None)
                                      (Some (mkWBase s_uuid None None None None None None None (Some 60%N) (Some 61%N)))
                                      (Some 0%Z) (Some (-1)%Z)) None (Some false)) = true.
Proof. reflexivity. Qed.
