(** Generic values of the wire layer.

    [gval] is what Go holds after [json.Unmarshal] into [interface{}]
    (null, bool, float64, string, []interface{}, map[string]interface{})
    extended with the three OVSDB notation types the hand-written decoders
    of ovsdb/{uuid,set,map}.go produce.  Strings are interned by the harness;
    the symbols below are reserved in that order (harness/val: WireSyms).
    Reals/numbers are exact fractions of the float64 the decoder produced.

    Byte-level JSON syntax (encoding/json's scanner) is not modelled: the
    model starts from the generic tree.  Objects carry distinct keys (Go maps). *)
From stdpp Require Export list.
From LOV Require Export Base.Atoms Base.Res.

Inductive gval :=
| GNull
| GBool (b : bool)
| GNum (n : Z) (d : positive)
| GStr (s : sym)
| GArr (l : list gval)
| GObj (l : list (sym * gval))
| GUuid (s : sym)
| GSet (l : list gval)
| GMap (l : list (gval * gval)).

Definition s_empty : sym := 0%N.
Definition s__uuid : sym := 1%N.
Definition s_uuid : sym := 2%N.
Definition s_named : sym := 3%N.
Definition s_set : sym := 4%N.
Definition s_map : sym := 5%N.
(* condition functions 6..13, mutators 14..20 *)
Definition is_function (s : sym) : bool := (6 <=? s)%N && (s <=? 13)%N.
Definition is_mutator (s : sym) : bool := (14 <=? s)%N && (s <=? 20)%N.
Definition s_unlimited : sym := 21%N.
(* atomic types 22..26: integer real boolean string uuid(=2, reused) *)
Definition s_integer : sym := 22%N.
Definition s_real : sym := 23%N.
Definition s_boolean : sym := 24%N.
Definition s_string : sym := 25%N.
Definition is_atomic_type (s : sym) : bool :=
  N.eqb s s_integer || N.eqb s s_real || N.eqb s s_boolean || N.eqb s s_string || N.eqb s s_uuid.

(** Go primitives that can panic. *)
Definition idx {A} (l : list A) (i : nat) : res A :=
  match nth_error l i with Some x => Ok x | None => Panic end.
Definition assert_str (v : gval) : res sym :=
  match v with GStr s => Ok s | _ => Panic end.
Definition assert_arr (v : gval) : res (list gval) :=
  match v with GArr l => Ok l | _ => Panic end.

Definition str_is (v : gval) (s : sym) : bool :=
  match v with GStr x => N.eqb x s | _ => false end.

(** depth (for fuel) *)
Fixpoint gdepth (v : gval) : nat :=
  match v with
  | GArr l | GSet l => S (foldr (fun x n => Nat.max (gdepth x) n) 0%nat l)
  | GObj l => S (foldr (fun x n => Nat.max (gdepth x.2) n) 0%nat l)
  | GMap l => S (foldr (fun x n => Nat.max (Nat.max (gdepth x.1) (gdepth x.2)) n) 0%nat l)
  | _ => 1%nat
  end.

(** [is_json v]: a tree as encoding/json produces it (no notation nodes). *)
Fixpoint is_json (v : gval) : bool :=
  match v with
  | GArr l => forallb is_json l
  | GObj l => forallb (fun x => is_json x.2) l
  | GUuid _ | GSet _ | GMap _ => false
  | _ => true
  end.

(** Decidable equality by a boolean comparison with fuel (used by the map
    insertion of the decoder on keys, which are never containers, and by the
    correspondence checker). *)
Definition gkey_eqb (a b : gval) : bool :=
  match a, b with
  | GBool x, GBool y => Bool.eqb x y
  | GNum n d, GNum n' d' => Z.eqb (n * Zpos d') (n' * Zpos d)
  | GStr x, GStr y => N.eqb x y
  | GUuid x, GUuid y => N.eqb x y
  | _, _ => false
  end.

(** what Go accepts as a map key: comparable dynamic types *)
Definition comparable (v : gval) : bool :=
  match v with GBool _ | GNum _ _ | GStr _ | GUuid _ => true | _ => false end.

Fixpoint map_put (m : list (gval * gval)) (k v : gval) : list (gval * gval) :=
  match m with
  | [] => [(k, v)]
  | (k', v') :: m' => if gkey_eqb k' k then (k', v) :: m' else (k', v') :: map_put m' k v
  end.

Fixpoint obj_get (l : list (sym * gval)) (k : sym) : option gval :=
  match l with
  | [] => None
  | (k', v) :: l' => if N.eqb k' k then Some v else obj_get l' k
  end.

(** Equality of generic values up to the order of object members and map
    pairs and the representation of numbers (used by the correspondence
    checker only). *)
Fixpoint list_eqv {A} (e : A -> A -> bool) (l l' : list A) : bool :=
  match l, l' with
  | [], [] => true
  | x :: r, y :: r' => e x y && list_eqv e r r'
  | _, _ => false
  end.
Fixpoint geqv (fuel : nat) (a b : gval) : bool :=
  match fuel with
  | O => false
  | S f =>
      match a, b with
      | GNull, GNull => true
      | GBool x, GBool y => Bool.eqb x y
      | GNum n d, GNum n' d' => Z.eqb (n * Zpos d') (n' * Zpos d)
      | GStr x, GStr y => N.eqb x y
      | GUuid x, GUuid y => N.eqb x y
      | GArr l, GArr l' => list_eqv (geqv f) l l'
      | GSet l, GSet l' => list_eqv (geqv f) l l'
      | GObj l, GObj l' =>
          Nat.eqb (length l) (length l') &&
          forallb (fun kv => match obj_get l' kv.1 with Some v' => geqv f kv.2 v' | None => false end) l
      | GMap l, GMap l' =>
          Nat.eqb (length l) (length l') &&
          forallb (fun kv => existsb (fun kv' => geqv f kv.1 kv'.1 && geqv f kv.2 kv'.2) l') l
      | _, _ => false
      end
  end.
