(** Totality of the wire decoders: no generic tree makes them panic. *)
From LOV Require Import Wire.Decode.

Lemma rbind_np {A B} (x : res A) (f : A -> res B) :
  is_panic x = false -> (forall a, x = Ok a -> is_panic (f a) = false) ->
  is_panic (rbind x f) = false.
Proof. destruct x; cbn; intros Hx Hf; auto. Qed.

Lemma rmapM_np {A B} (f : A -> res B) l :
  (forall a, is_panic (f a) = false) -> is_panic (rmapM f l) = false.
Proof.
  intros Hf. induction l as [|a l IH]; cbn; [reflexivity|].
  apply rbind_np; [apply Hf|]. intros b _.
  apply rbind_np; [apply IH|]. reflexivity.
Qed.

Lemma rfold_np {A B} (f : B -> A -> res B) l b :
  (forall b a, is_panic (f b a) = false) -> is_panic (rfold f l b) = false.
Proof.
  intros Hf. revert b. induction l as [|a l IH]; intros b; cbn; [reflexivity|].
  apply rbind_np; [apply Hf|]. intros b' _. apply IH.
Qed.

Lemma dec_strings_np v : is_panic (dec_strings v) = false.
Proof.
  destruct v; cbn; try reflexivity.
  apply rmapM_np. intros a. destruct a; reflexivity.
Qed.

Lemma dec_uuid_np v : is_panic (dec_uuid v) = false.
Proof.
  unfold dec_uuid. pose proof (dec_strings_np v) as H.
  destruct (dec_strings v) as [l| |]; [|reflexivity|discriminate].
  destruct l as [|a [|b [|c r]]]; cbn; reflexivity.
Qed.

Lemma decoders_np fuel :
  (forall v, is_panic (notation fuel v) = false) /\
  (forall v, is_panic (dec_set fuel v) = false) /\
  (forall v, is_panic (dec_map fuel v) = false).
Proof.
  induction fuel as [|f (IHn & IHs & IHm)]; [repeat split; intros; reflexivity|].
  repeat split; intros v.
  - (* notation *)
    cbn [notation]. destruct v; try reflexivity.
    destruct l as [|h sl]; [reflexivity|]. cbn [length Nat.eqb idx nth_error rbind].
    destruct (str_is h s_uuid || str_is h s_named); [apply dec_uuid_np|].
    destruct (str_is h s_set); [apply IHs|].
    destruct (str_is h s_map); [apply IHm|]. reflexivity.
  - (* set *)
    cbn [dec_set]. destruct v;
      try (apply rbind_np; [apply IHn|intros; reflexivity]).
    destruct l as [|a [|b [|c r]]]; cbn; try reflexivity.
    destruct (str_is a s_uuid || str_is a s_named); cbn.
    + destruct b; reflexivity.
    + destruct (str_is a s_set); cbn; [|reflexivity].
      destruct b; try reflexivity.
      apply rbind_np; [apply rmapM_np, IHn|]. reflexivity.
  - (* map *)
    cbn [dec_map].
    set (oMap := match v with GArr l => l | _ => [] end). clearbody oMap.
    destruct oMap as [|a [|b r]]; try reflexivity.
    cbn [length Nat.ltb Nat.leb negb idx nth_error rbind].
    destruct b; try reflexivity.
    apply rbind_np; [|reflexivity].
    assert (Hside : forall x,
      is_panic (match x with
                | GArr vs => if negb (Nat.eqb (length vs) 2) then Err EOther
                             else h <- idx vs 0 ;; if str_is h s_map then Err EOther else notation f x
                | _ => Ok x end) = false).
    { intros x. destruct x; try reflexivity.
      destruct l0 as [|h [|h2 [|h3 r3]]]; cbn; try reflexivity.
      destruct (str_is h s_map); [reflexivity|apply IHn]. }
    apply rfold_np. intros m p.
    destruct p; try reflexivity.
    destruct l0 as [|k0 [|v0 [|x3 r3]]]; try reflexivity.
    cbn [length Nat.eqb negb idx nth_error rbind].
    apply rbind_np; [apply Hside|]. intros k _.
    destruct (comparable k); cbn [negb]; [|reflexivity].
    apply rbind_np; [apply Hside|]. reflexivity.
Qed.

Theorem notation_never_panics fuel v : is_panic (notation fuel v) = false.
Proof. apply decoders_np. Qed.
Theorem dec_set_never_panics fuel v : is_panic (dec_set fuel v) = false.
Proof. apply decoders_np. Qed.
Theorem dec_map_never_panics fuel v : is_panic (dec_map fuel v) = false.
Proof. apply decoders_np. Qed.

Theorem dec_row_never_panics fuel v : is_panic (dec_row fuel v) = false.
Proof.
  destruct v; try reflexivity. cbn.
  apply rmapM_np. intros kv. apply rbind_np; [apply notation_never_panics|]. reflexivity.
Qed.

Theorem dec_triple_never_panics valid fuel v : is_panic (dec_triple valid fuel v) = false.
Proof.
  destruct v; try reflexivity. cbn.
  destruct l as [|a [|b [|c [|d r]]]]; try reflexivity. cbn.
  destruct a; try reflexivity. destruct b; try reflexivity.
  destruct (valid s0); [|reflexivity].
  apply rbind_np; [apply notation_never_panics|]. reflexivity.
Qed.

(** The pinned decoders panic: the witnesses of the repaired defects. *)
Lemma dec_uuid_pinned_refuted : exists v, is_json v = true /\ dec_uuid_pinned v = Panic.
Proof. exists (GArr [GStr s_uuid]). split; reflexivity. Qed.
Lemma dec_set_pinned_refuted :
  exists v1 v2, is_json v1 = true /\ is_json v2 = true /\
    dec_set_pinned_head v1 = Panic /\ dec_set_pinned_head v2 = Panic.
Proof. exists (GArr []), (GArr [GStr s_set; GNum 1 1]). repeat split; reflexivity. Qed.
Lemma dec_condition_pinned_refuted : exists v, is_json v = true /\ dec_condition_pinned v = Panic.
Proof. exists (GArr [GNum 1 1; GStr 6%N; GNum 1 1]). split; reflexivity. Qed.
