(** decode (encode v) = v for the notation-level wire values. *)
From LOV Require Import Wire.Decode Wire.Encode.

Section RT.
Variable vu : sym -> bool.
Notation enc_atom := (enc_atom vu).
Notation enc_set := (enc_set vu).
Notation enc_mval := (enc_mval vu).
Notation enc_pair := (enc_pair vu).
Notation enc_value := (enc_value vu).

Lemma notation_atom f a : is_atomv a = true -> notation (S f) (enc_atom a) = Ok a.
Proof. destruct a; try discriminate; intros _; try reflexivity. cbn. destruct (vu s); reflexivity. Qed.

Lemma rmapM_notation_atoms f l :
  forallb is_atomv l = true -> rmapM (notation (S f)) (map enc_atom l) = Ok l.
Proof.
  induction l as [|a l IH]; [reflexivity|]. cbn [forallb map rmapM]. intros H.
  apply andb_prop in H as [Ha Hl]. rewrite (notation_atom f a Ha). cbn [rbind].
  rewrite (IH Hl). reflexivity.
Qed.

Lemma dec_set_enc f l : wf_set l = true -> dec_set (S (S f)) (enc_set l) = Ok (GSet l).
Proof.
  intros H. unfold wf_set in H.
  destruct l as [|a [|b r]].
  - reflexivity.
  - cbn in H. rewrite andb_true_r in H. destruct a; try discriminate; try reflexivity.
    cbn. destruct (vu s); reflexivity.
  - unfold enc_set.
    change (dec_set (S (S f)) (GArr [GStr s_set; GArr (map enc_atom (a :: b :: r))]))
      with (els <- rmapM (notation (S f)) (map enc_atom (a :: b :: r)) ;; Ok (GSet els)).
    rewrite (rmapM_notation_atoms f _ H). reflexivity.
Qed.

Lemma notation_set f l :
  wf_set l = true -> negb (Nat.eqb (length l) 1) = true ->
  notation (S (S (S f))) (enc_set l) = Ok (GSet l).
Proof.
  intros H Hn. destruct l as [|a [|b r]]; [reflexivity|discriminate|].
  rewrite <- (dec_set_enc f _ H). reflexivity.
Qed.

Definition side (f : nat) (x : gval) : res gval :=
  match x with
  | GArr vs =>
      if negb (Nat.eqb (length vs) 2) then Err EOther
      else h <- idx vs 0 ;; if str_is h s_map then Err EOther else notation f x
  | _ => Ok x
  end.

Lemma side_atom f a : is_atomv a = true -> side (S f) (enc_atom a) = Ok a.
Proof. destruct a; try discriminate; intros _; try reflexivity. cbn. destruct (vu s); reflexivity. Qed.

Lemma side_mval f v : wf_mval v = true -> side (S (S (S f))) (enc_mval v) = Ok v.
Proof.
  destruct v; try discriminate; intros H;
    try (apply (side_atom (S (S f))); exact H).
  cbn in H. apply andb_prop in H as [Hw Hn].
  destruct l as [|a [|b r]]; [reflexivity|discriminate|].
  unfold enc_mval. rewrite <- (notation_set f _ Hw Hn). reflexivity.
Qed.

Lemma map_put_fresh m k v :
  forallb (fun q => negb (gkey_eqb q.1 k)) m = true -> map_put m k v = m ++ [(k, v)].
Proof.
  induction m as [|[k' v'] m IH]; [reflexivity|]. cbn. intros H.
  apply andb_prop in H as [H1 H2]. destruct (gkey_eqb k' k); [discriminate|].
  rewrite (IH H2). reflexivity.
Qed.

Lemma is_atomv_comparable a : is_atomv a = true -> comparable a = true.
Proof. destruct a; auto. Qed.

Definition map_step (f : nat) (m : list (gval * gval)) (p : gval) : res (list (gval * gval)) :=
  match p with
  | GArr kv =>
      if negb (Nat.eqb (length kv) 2) then Err EOther
      else
        k0 <- idx kv 0 ;;
        k <- side f k0 ;;
        if negb (comparable k) then Err EOther
        else v0 <- idx kv 1 ;; x <- side f v0 ;; Ok (map_put m k x)
  | _ => Err EOther
  end.

Lemma map_fold f l m0 :
  forallb (fun p => is_atomv p.1 && wf_mval p.2) l = true ->
  keys_distinct l = true ->
  forallb (fun p => forallb (fun q => negb (gkey_eqb p.1 q.1)) l) m0 = true ->
  rfold (map_step (S (S (S f)))) (map enc_pair l) m0 = Ok (m0 ++ l).
Proof.
  revert m0. induction l as [|[k v] l IH]; intros m0 Hwf Hd Hm0.
  - cbn. rewrite app_nil_r. reflexivity.
  - cbn [map rfold]. cbn in Hwf. apply andb_prop in Hwf as [Hkv Hl].
    apply andb_prop in Hkv as [Hk Hv].
    cbn in Hd. apply andb_prop in Hd as [Hd1 Hd2].
    unfold map_step at 1. unfold enc_pair at 1.
    cbn [length Nat.eqb negb idx nth_error rbind fst snd].
    rewrite (side_atom (S (S f)) k Hk). cbn [rbind].
    rewrite (is_atomv_comparable k Hk). cbn [negb].
    rewrite (side_mval f v Hv). cbn [rbind].
    rewrite map_put_fresh.
    2:{ rewrite forallb_forall in Hm0 |- *. intros q Hq. specialize (Hm0 q Hq).
        cbn in Hm0. apply andb_prop in Hm0 as [H _]. exact H. }
    rewrite IH; [rewrite <- app_assoc; reflexivity|exact Hl|exact Hd2|].
    rewrite forallb_app. apply andb_true_intro. split.
    + rewrite forallb_forall in Hm0 |- *. intros q Hq. specialize (Hm0 q Hq).
      cbn in Hm0. apply andb_prop in Hm0 as [_ H]. exact H.
    + cbn. rewrite Hd1. reflexivity.
Qed.

Lemma dec_map_unfold f a b r :
  dec_map (S f) (GArr (a :: GArr b :: r)) = (m <- rfold (map_step f) b [] ;; Ok (GMap m)).
Proof. reflexivity. Qed.

Theorem value_roundtrip f v :
  wf_value v = true -> notation (5 + f) (enc_value v) = Ok v.
Proof.
  destruct v; try discriminate; intros H.
  - reflexivity.
  - reflexivity.
  - reflexivity.
  - apply notation_atom. reflexivity.
  - cbn in H. apply andb_prop in H as [Hw Hn]. apply (notation_set (2 + f) _ Hw Hn).
  - cbn in H. apply andb_prop in H as [Hw Hd].
    change (notation (5 + f) (enc_value (GMap l)))
      with (dec_map (S (S (S (S f)))) (GArr [GStr s_map; GArr (map enc_pair l)])).
    rewrite dec_map_unfold. rewrite (map_fold f l [] Hw Hd eq_refl). reflexivity.
Qed.

Theorem set_roundtrip f l : wf_set l = true -> dec_set (2 + f) (enc_set l) = Ok (GSet l).
Proof. apply dec_set_enc. Qed.

Theorem map_roundtrip f l :
  wf_value (GMap l) = true -> dec_map (4 + f) (enc_value (GMap l)) = Ok (GMap l).
Proof.
  intros H. cbn in H. apply andb_prop in H as [Hw Hd].
  change (enc_value (GMap l)) with (GArr [GStr s_map; GArr (map enc_pair l)]).
  change (4 + f)%nat with (S (S (S (S f)))).
  rewrite dec_map_unfold. rewrite (map_fold f l [] Hw Hd eq_refl). reflexivity.
Qed.

Theorem uuid_roundtrip s : dec_uuid (enc_atom (GUuid s)) = Ok (GUuid s).
Proof. cbn. destruct (vu s); reflexivity. Qed.

Theorem row_roundtrip f r :
  forallb (fun kv => wf_value kv.2) r = true ->
  dec_row (5 + f) (enc_row vu r) = Ok r.
Proof.
  unfold enc_row, dec_row. induction r as [|[k v] r IH]; [reflexivity|].
  cbn [forallb map rmapM fst snd]. intros H. apply andb_prop in H as [Hv Hr].
  rewrite (value_roundtrip f v Hv). cbn [rbind]. rewrite (IH Hr). reflexivity.
Qed.

Theorem triple_roundtrip valid f c fn v :
  valid fn = true -> wf_value v = true ->
  dec_triple valid (5 + f) (enc_triple vu (c, fn, v)) = Ok (c, fn, v).
Proof.
  intros Hf Hv. unfold enc_triple, dec_triple. cbn [length Nat.eqb negb idx nth_error rbind fst snd].
  rewrite Hf. rewrite (value_roundtrip f v Hv). reflexivity.
Qed.
End RT.

(** the hypotheses are satisfiable by non-trivial values *)
Example wf_example :
  wf_value (GMap [(GStr 50%N, GSet [GUuid 51%N; GUuid 52%N]); (GNum 3 1, GUuid 53%N)]) = true
  /\ wf_value (GSet []) = true /\ wf_value (GSet [GNum 1 2; GNum 3 1]) = true.
Proof. repeat split. Qed.
