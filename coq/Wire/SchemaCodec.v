(** BaseType / ColumnType / ColumnSchema codecs of ovsdb/schema.go.
    Struct-tag decoding by encoding/json is modelled per field kind:
    absent or null leaves the zero value, a wrong JSON kind is an error. *)
From LOV Require Export Wire.Json.

Definition s_type : sym := 27%N.
Definition s_enum : sym := 28%N.
Definition s_minReal : sym := 29%N.
Definition s_maxReal : sym := 30%N.
Definition s_minInteger : sym := 31%N.
Definition s_maxInteger : sym := 32%N.
Definition s_minLength : sym := 33%N.
Definition s_maxLength : sym := 34%N.
Definition s_refTable : sym := 35%N.
Definition s_refType : sym := 36%N.
Definition s_key : sym := 37%N.
Definition s_value : sym := 38%N.
Definition s_min : sym := 39%N.
Definition s_max : sym := 40%N.
Definition s_ephemeral : sym := 41%N.
Definition s_mutable : sym := 42%N.

Definition f_string (o : option gval) : res sym :=
  match o with None | Some GNull => Ok s_empty | Some (GStr s) => Ok s | _ => Err EOther end.
Definition f_pstring (o : option gval) : res (option sym) :=
  match o with None | Some GNull => Ok None | Some (GStr s) => Ok (Some s) | _ => Err EOther end.
Definition f_pint (o : option gval) : res (option Z) :=
  match o with
  | None | Some GNull => Ok None
  | Some (GNum n 1) => Ok (Some n)
  | _ => Err EOther
  end.
Definition f_pfloat (o : option gval) : res (option (Z * positive)) :=
  match o with None | Some GNull => Ok None | Some (GNum n d) => Ok (Some (n, d)) | _ => Err EOther end.
Definition f_pbool (o : option gval) : res (option bool) :=
  match o with None | Some GNull => Ok None | Some (GBool b) => Ok (Some b) | _ => Err EOther end.

Record wbase := mkWBase {
  wb_type : sym; wb_enum : option (list gval);
  wb_minReal : option (Z * positive); wb_maxReal : option (Z * positive);
  wb_minInt : option Z; wb_maxInt : option Z;
  wb_minLen : option Z; wb_maxLen : option Z;
  wb_refTable : option sym; wb_refType : option sym }.

Definition simple_base (s : sym) : wbase := mkWBase s None None None None None None None None None.

(** a single uuid in its wire form, ["uuid", x] or ["named-uuid", x] *)
Definition is_uuid_atom (v : gval) : bool :=
  match v with
  | GArr [GStr t; GStr _] => N.eqb t s_uuid || N.eqb t s_named
  | _ => false
  end.

Definition dec_enum (o : option gval) : res (option (list gval)) :=
  match o with
  | None | Some GNull => Ok None
  | Some (GArr oSet) =>
      if is_uuid_atom (GArr oSet) then Ok (Some [GArr oSet]) else
      bad <- (if negb (Nat.eqb (length oSet) 2) then Ok true
              else h <- idx oSet 0 ;; Ok (negb (str_is h s_set))) ;;
      if bad : bool then Err EOther
      else inner <- idx oSet 1 ;;
           match inner with GArr l => Ok (Some l) | _ => Err EOther end
  | Some x => Ok (Some [x])
  end.

(** BaseType.UnmarshalJSON *)
Definition dec_base (v : gval) : res wbase :=
  match v with
  | GStr s => if is_atomic_type s then Ok (simple_base s) else Err EOther
  | GObj o =>
      ty <- f_string (obj_get o s_type) ;;
      _ <- (if is_atomic_type ty then Ok tt else Err EOther) ;;   (* repaired: the object form names an atomic type too *)
      en <- dec_enum (obj_get o s_enum) ;;
      minR <- f_pfloat (obj_get o s_minReal) ;;
      maxR <- f_pfloat (obj_get o s_maxReal) ;;
      minI <- f_pint (obj_get o s_minInteger) ;;
      maxI <- f_pint (obj_get o s_maxInteger) ;;
      minL <- f_pint (obj_get o s_minLength) ;;
      maxL <- f_pint (obj_get o s_maxLength) ;;
      rt <- f_pstring (obj_get o s_refTable) ;;
      ry <- f_pstring (obj_get o s_refType) ;;
      Ok (mkWBase ty en minR maxR minI maxI minL maxL rt ry)
  | _ => Err EOther
  end.

Definition opt_field {A} (k : sym) (f : A -> gval) (o : option A) : list (sym * gval) :=
  match o with Some a => [(k, f a)] | None => [] end.
Definition jint (z : Z) : gval := GNum z 1.
Definition jreal (q : Z * positive) : gval := GNum q.1 q.2.

Definition enc_enum (o : option (list gval)) : list (sym * gval) :=
  match o with
  | None | Some [] => []
  | Some [x] => [(s_enum, x)]
  | Some l => [(s_enum, GArr [GStr s_set; GArr l])]
  end.

(** BaseType.MarshalJSON *)
Definition enc_base (b : wbase) : gval :=
  GObj ((if N.eqb (wb_type b) s_empty then [] else [(s_type, GStr (wb_type b))])
        ++ enc_enum (wb_enum b)
        ++ opt_field s_minReal jreal (wb_minReal b) ++ opt_field s_maxReal jreal (wb_maxReal b)
        ++ opt_field s_minInteger jint (wb_minInt b) ++ opt_field s_maxInteger jint (wb_maxInt b)
        ++ opt_field s_minLength jint (wb_minLen b) ++ opt_field s_maxLength jint (wb_maxLen b)
        ++ opt_field s_refTable GStr (wb_refTable b) ++ opt_field s_refType GStr (wb_refType b)).

Definition is_scalar (v : gval) : bool :=
  match v with GBool _ | GNum _ _ | GStr _ => true | _ => false end.
Definition wf_enum (o : option (list gval)) : bool :=
  match o with None => true | Some [] => false | Some l => forallb (fun v => is_scalar v || is_uuid_atom v) l end.
Definition wf_base (b : wbase) : bool := wf_enum (wb_enum b) && is_atomic_type (wb_type b).

Definition base_is_simple (b : wbase) : bool :=
  is_atomic_type (wb_type b) &&
  match b with
  | mkWBase _ None None None None None None None None None => true
  | _ => false
  end.

(** ColumnType *)
Record wcolty := mkWColTy { ct_key : wbase; ct_value : option wbase; ct_min : option Z; ct_max : option Z }.

Definition dec_pbase (o : option gval) : res (option wbase) :=
  match o with
  | None | Some GNull => Ok None
  | Some x => b <- dec_base x ;; Ok (Some b)
  end.

Definition dec_max (o : option gval) : res (option Z) :=
  match o with
  | Some (GStr s) => if N.eqb s s_unlimited then Ok (Some (-1)%Z) else Err EOther
  | Some (GNum n d) => Ok (Some (Z.quot n (Zpos d)))
  | _ => Ok None
  end.

Definition dec_colty (v : gval) : res wcolty :=
  match v with
  | GStr s => if is_atomic_type s then Ok (mkWColTy (simple_base s) None None None) else Err EOther
  | GObj o =>
      k <- dec_pbase (obj_get o s_key) ;;
      va <- dec_pbase (obj_get o s_value) ;;
      mi <- f_pint (obj_get o s_min) ;;
      ma <- dec_max (obj_get o s_max) ;;
      match k with
      | None => Err EOther
      | Some kb => Ok (mkWColTy kb va mi ma)
      end
  | _ => Err EOther
  end.

Definition enc_colty (c : wcolty) : gval :=
  match ct_value c, ct_max c, ct_min c with
  | None, None, None =>
      if base_is_simple (ct_key c) then GStr (wb_type (ct_key c))
      else GObj [(s_key, enc_base (ct_key c))]
  | _, _, _ =>
      GObj ([(s_key, enc_base (ct_key c))]
            ++ opt_field s_value enc_base (ct_value c)
            ++ opt_field s_min jint (ct_min c)
            ++ match ct_max c with
               | Some m => [(s_max, if Z.eqb m (-1) then GStr s_unlimited else jint m)]
               | None => []
               end)
  end.

(** ColumnSchema: the extended type is inferred from the type object *)
Inductive exttype := XMap | XSet | XEnum | XAtomic (s : sym).
Record wcolumn := mkWColumn { wc_ext : exttype; wc_type : wcolty; wc_ephemeral : option bool; wc_mutable : option bool }.

Definition ct_min_eff (c : wcolty) : Z := match ct_min c with Some m => m | None => 1%Z end.
Definition ct_max_eff (c : wcolty) : Z := match ct_max c with Some m => m | None => 1%Z end.

Definition infer_ext (c : wcolty) : exttype :=
  match ct_value c with
  | Some _ => XMap
  | None =>
      if negb (Z.eqb (ct_min_eff c) 1) || negb (Z.eqb (ct_max_eff c) 1) then XSet
      else match wb_enum (ct_key c) with
           | Some (_ :: _) => XEnum
           | _ => XAtomic (wb_type (ct_key c))
           end
  end.

Definition dec_column (v : gval) : res wcolumn :=
  match v with
  | GObj o =>
      ty <- match obj_get o s_type with
            | None | Some GNull => Ok None
            | Some x => c <- dec_colty x ;; Ok (Some c)
            end ;;
      ep <- f_pbool (obj_get o s_ephemeral) ;;
      mu <- f_pbool (obj_get o s_mutable) ;;
      match ty with
      | None => Err EOther
      | Some c => Ok (mkWColumn (infer_ext c) c ep mu)
      end
  | _ => Err EOther
  end.

Definition enc_column (c : wcolumn) : gval :=
  GObj ([(s_type, enc_colty (wc_type c))]
        ++ opt_field s_ephemeral GBool (wc_ephemeral c)
        ++ opt_field s_mutable GBool (wc_mutable c)).

(** The pinned BaseType codec: both directions read maxLength where they
    should read minLength (repaired; see known_findings.txt). *)
Definition pinned_len_roundtrip (b : wbase) : option Z * option Z :=
  (* encode writes (minLength := maxLen, maxLength := maxLen); decode reads
     (minLen := maxLength, maxLen := maxLength) *)
  (wb_maxLen b, wb_maxLen b).
