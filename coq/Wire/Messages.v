(** The remaining protocol messages of ovsdb/{updates,updates2,update3,
    monitor_select,notation}.go: row updates and table updates in both formats
    (update / update2), the reply of monitor_cond_since, operation results and
    monitor requests.  They are structs and maps encoded by encoding/json
    through their field tags over the hand-written row, uuid and condition
    codecs of Wire/Decode.v, with three hand-written rules on top:

    - RowUpdate2.UnmarshalJSON: a "delete" member that is present but null
      stands for the deletion (of a row of which nothing is restated);
    - MonitorRequest.MarshalJSON: a column list that is present but empty is
      written as [] (no column), an absent one is left out (every column);
    - MonitorCondSinceReply is the 3-element array [found, id, updates].

    encoding/json's struct codec is modelled as in Wire/Operation.v.  A pointer
    member ( *Row, *bool, *MonitorSelect, a *RowUpdate in a table) is [option]:
    nil is written as nothing (omitempty) or as null (an element of a map) and
    null decodes to nil.  Maps are association lists with distinct keys. *)
From LOV Require Export Wire.Operation.

Definition s_ins : sym := 19%N.          (* "insert" *)
Definition s_del : sym := 20%N.          (* "delete" *)
Definition s_new : sym := 57%N.
Definition s_old : sym := 58%N.
Definition s_initial : sym := 59%N.
Definition s_modify : sym := 60%N.
Definition s_count : sym := 61%N.
Definition s_error : sym := 62%N.
Definition s_details : sym := 63%N.

Record wru := mkWRu { ru_new : option wrow; ru_old : option wrow }.
Record wru2 := mkWRu2 { r2_initial : option wrow; r2_insert : option wrow; r2_modify : option wrow; r2_delete : option wrow }.
(** table -> uuid -> row update (a nil pointer is [None]) *)
Notation wtable A := (list (sym * option A)).
Notation wtables A := (list (sym * list (sym * option A))).
Record wresult := mkWRes { rs_count : Z; rs_error : sym; rs_details : sym; rs_uuid : sym; rs_rows : list wrow }.
Record wselect := mkWSel { ms_initial : option bool; ms_insert : option bool; ms_delete : option bool; ms_modify : option bool }.
Record wmonreq := mkWMon { mr_columns : option (list sym); mr_where : list wtriple; mr_select : option wselect }.
Record wsince := mkWSince { sn_found : bool; sn_last : sym; sn_updates : wtables wru2 }.

Section Enc.
Variable vu : sym -> bool.

Definition prow_field (o : option wrow) : option gval := option_map (enc_row vu) o.

Definition enc_ru_fields (r : wru) : fields :=
  [ (s_new, prow_field (ru_new r)); (s_old, prow_field (ru_old r)) ].
Definition enc_ru (r : wru) : gval := fields_obj (enc_ru_fields r).

Definition enc_ru2_fields (r : wru2) : fields :=
  [ (s_initial, prow_field (r2_initial r)); (s_ins, prow_field (r2_insert r));
    (s_modify, prow_field (r2_modify r)); (s_del, prow_field (r2_delete r)) ].
Definition enc_ru2 (r : wru2) : gval := fields_obj (enc_ru2_fields r).

Definition enc_elem {A} (enc : A -> gval) (o : option A) : gval :=
  match o with Some a => enc a | None => GNull end.
Definition enc_table {A} (enc : A -> gval) (t : wtable A) : gval :=
  GObj (map (fun ru => (ru.1, enc_elem enc ru.2)) t).
Definition enc_tables {A} (enc : A -> gval) (t : wtables A) : gval :=
  GObj (map (fun tu => (tu.1, enc_table enc tu.2)) t).

Definition int_field (z : Z) : option gval := if Z.eqb z 0 then None else Some (jint z).

(** the uuid member is a struct: omitempty never leaves it out *)
Definition enc_result_fields (r : wresult) : fields :=
  [ (s_count, int_field (rs_count r));
    (s_error, str_field (rs_error r));
    (s_details, str_field (rs_details r));
    (s_uuid, Some (enc_atom vu (GUuid (rs_uuid r))));
    (s_rows, list_field (enc_row vu) (rs_rows r)) ].
Definition enc_result (r : wresult) : gval := fields_obj (enc_result_fields r).

Definition enc_select_fields (s : wselect) : fields :=
  [ (s_initial, option_map GBool (ms_initial s)); (s_ins, option_map GBool (ms_insert s));
    (s_del, option_map GBool (ms_delete s)); (s_modify, option_map GBool (ms_modify s)) ].
Definition enc_select (s : wselect) : gval := fields_obj (enc_select_fields s).

(** MonitorRequest.MarshalJSON: nil columns are left out, an empty list is written *)
Definition columns_field (o : option (list sym)) : option gval := option_map (fun l => GArr (map GStr l)) o.
Definition enc_monreq_fields (m : wmonreq) : fields :=
  [ (s_columns, columns_field (mr_columns m));
    (s_where, list_field (enc_triple vu) (mr_where m));
    (s_select, option_map enc_select (mr_select m)) ].
Definition enc_monreq (m : wmonreq) : gval := fields_obj (enc_monreq_fields m).

Definition enc_since (s : wsince) : gval :=
  GArr [GBool (sn_found s); GStr (sn_last s); enc_tables enc_ru2 (sn_updates s)].
End Enc.

(** ---- decoding ---- *)
Definition f_prow (fuel : nat) (o : option gval) : res (option wrow) :=
  match o with
  | None | Some GNull => Ok None
  | Some v => r <- dec_row fuel v ;; Ok (Some r)
  end.

Definition dec_ru (fuel : nat) (v : gval) : res wru :=
  match v with
  | GObj o =>
      n <- f_prow fuel (obj_get o s_new) ;;
      ol <- f_prow fuel (obj_get o s_old) ;;
      Ok (mkWRu n ol)
  | _ => Err EOther
  end.

(** RowUpdate2.UnmarshalJSON: the plain struct, then "delete": null *)
Definition dec_ru2 (fuel : nat) (v : gval) : res wru2 :=
  match v with
  | GObj o =>
      ini <- f_prow fuel (obj_get o s_initial) ;;
      ins <- f_prow fuel (obj_get o s_ins) ;;
      mo <- f_prow fuel (obj_get o s_modify) ;;
      de <- f_prow fuel (obj_get o s_del) ;;
      let de' := match de, obj_get o s_del with
                 | None, Some _ => Some []
                 | _, _ => de
                 end in
      Ok (mkWRu2 ini ins mo de')
  | _ => Err EOther
  end.

Definition dec_elem {A} (dec : gval -> res A) (v : gval) : res (option A) :=
  match v with GNull => Ok None | _ => a <- dec v ;; Ok (Some a) end.
Definition dec_table {A} (dec : gval -> res A) (v : gval) : res (wtable A) :=
  match v with
  | GNull => Ok []
  | GObj l => rmapM (fun ru => x <- dec_elem dec ru.2 ;; Ok (ru.1, x)) l
  | _ => Err EOther
  end.
Definition dec_tables {A} (dec : gval -> res A) (v : gval) : res (wtables A) :=
  match v with
  | GNull => Ok []
  | GObj l => rmapM (fun tu => t <- dec_table dec tu.2 ;; Ok (tu.1, t)) l
  | _ => Err EOther
  end.

(** an int member: encoding/json refuses a number with a fraction or outside Go's int (64 bits) *)
Definition int64_ok (z : Z) : bool := (-9223372036854775808 <=? z)%Z && (z <? 9223372036854775808)%Z.
Definition f_int (o : option gval) : res Z :=
  match o with
  | None | Some GNull => Ok 0%Z
  | Some (GNum n 1) => if int64_ok n then Ok n else Err EOther
  | _ => Err EOther
  end.
(** a struct member with its own UnmarshalJSON: called for null too *)
Definition f_uuid (o : option gval) : res sym :=
  match o with
  | None => Ok s_empty
  | Some v => u <- dec_uuid v ;; match u with GUuid s => Ok s | _ => Err EOther end
  end.

Definition dec_result (fuel : nat) (v : gval) : res wresult :=
  match v with
  | GObj o =>
      c <- f_int (obj_get o s_count) ;;
      e <- f_string (obj_get o s_error) ;;
      d <- f_string (obj_get o s_details) ;;
      u <- f_uuid (obj_get o s_uuid) ;;
      rows <- f_list (dec_row fuel) (obj_get o s_rows) ;;
      Ok (mkWRes c e d u rows)
  | GNull => Ok (mkWRes 0 s_empty s_empty s_empty [])   (* null leaves a struct as it was: the zero value *)
  | _ => Err EOther
  end.

Definition dec_select (v : gval) : res wselect :=
  match v with
  | GObj o =>
      a <- f_pbool (obj_get o s_initial) ;;
      b <- f_pbool (obj_get o s_ins) ;;
      c <- f_pbool (obj_get o s_del) ;;
      d <- f_pbool (obj_get o s_modify) ;;
      Ok (mkWSel a b c d)
  | _ => Err EOther
  end.

Definition f_columns (o : option gval) : res (option (list sym)) :=
  match o with
  | None | Some GNull => Ok None
  | Some (GArr l) => x <- rmapM f_str_elem l ;; Ok (Some x)
  | _ => Err EOther
  end.
Definition f_pselect (o : option gval) : res (option wselect) :=
  match o with
  | None | Some GNull => Ok None
  | Some v => s <- dec_select v ;; Ok (Some s)
  end.

Definition dec_monreq (fuel : nat) (v : gval) : res wmonreq :=
  match v with
  | GObj o =>
      cols <- f_columns (obj_get o s_columns) ;;
      wh <- f_list (dec_condition fuel) (obj_get o s_where) ;;
      sel <- f_pselect (obj_get o s_select) ;;
      Ok (mkWMon cols wh sel)
  | GNull => Ok (mkWMon None [] None)
  | _ => Err EOther
  end.

(** MonitorCondSinceReply.UnmarshalJSON: a 3-element array, each element
    decoded on its own (null leaves the zero value) *)
Definition dec_since (fuel : nat) (v : gval) : res wsince :=
  match v with
  | GArr [a; b; c] =>
      found <- match a with GNull => Ok false | GBool x => Ok x | _ => Err EOther end ;;
      last <- match b with GNull => Ok s_empty | GStr s => Ok s | _ => Err EOther end ;;
      ups <- dec_tables (dec_ru2 fuel) c ;;
      Ok (mkWSince found last ups)
  | _ => Err EOther
  end.

(** ---- well-formed messages: rows and conditions in notation normal form ---- *)
Definition wf_prow (o : option wrow) : bool := match o with Some r => wf_row r | None => true end.
Definition wf_ru (r : wru) : bool := wf_prow (ru_new r) && wf_prow (ru_old r).
Definition wf_ru2 (r : wru2) : bool :=
  wf_prow (r2_initial r) && wf_prow (r2_insert r) && wf_prow (r2_modify r) && wf_prow (r2_delete r).
Definition wf_elem {A} (wf : A -> bool) (o : option A) : bool := match o with Some a => wf a | None => true end.
Definition wf_tables {A} (wf : A -> bool) (t : wtables A) : bool :=
  forallb (fun tu => forallb (fun ru => wf_elem wf ru.2) tu.2) t.
Definition wf_result (r : wresult) : bool := int64_ok (rs_count r) && forallb wf_row (rs_rows r).
Definition wf_monreq (m : wmonreq) : bool := forallb (wf_triple is_function) (mr_where m).
Definition wf_since (s : wsince) : bool := wf_tables wf_ru2 (sn_updates s).

(** what a row update says (RowUpdate.Insert/Modify/Delete of updates.go) *)
Definition ru_is_insert (r : wru) : bool := match ru_new r, ru_old r with Some _, None => true | _, _ => false end.
Definition ru_is_modify (r : wru) : bool := match ru_new r, ru_old r with Some _, Some _ => true | _, _ => false end.
Definition ru_is_delete (r : wru) : bool := match ru_new r, ru_old r with None, Some _ => true | _, _ => false end.

(** the pinned RowUpdate2 decoder (the plain struct codec): a deletion written
    as "delete": null was lost *)
Definition dec_ru2_pinned (fuel : nat) (v : gval) : res wru2 :=
  match v with
  | GObj o =>
      ini <- f_prow fuel (obj_get o s_initial) ;;
      ins <- f_prow fuel (obj_get o s_ins) ;;
      mo <- f_prow fuel (obj_get o s_modify) ;;
      de <- f_prow fuel (obj_get o s_del) ;;
      Ok (mkWRu2 ini ins mo de)
  | _ => Err EOther
  end.

(** what a monitor request selects (MonitorSelect.Initial/Insert/Delete/Modify of
    ovsdb/monitor_select.go): a member that is absent - or a request without a
    select - stands for "yes" *)
Definition sel_flag (o : option bool) : bool := match o with Some b => b | None => true end.
Definition sel_kinds (s : option wselect) : bool * bool * bool * bool :=
  match s with
  | None => (true, true, true, true)
  | Some s => (sel_flag (ms_initial s), sel_flag (ms_insert s), sel_flag (ms_delete s), sel_flag (ms_modify s))
  end.
