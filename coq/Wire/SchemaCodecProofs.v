From LOV Require Import Wire.SchemaCodec.

Lemma rbind_np' {A B} (x : res A) (f : A -> res B) :
  is_panic x = false -> (forall a, is_panic (f a) = false) -> is_panic (rbind x f) = false.
Proof. destruct x; cbn; auto. Qed.

Lemma f_string_np o : is_panic (f_string o) = false.
Proof. destruct o as [[]|]; reflexivity. Qed.
Lemma f_pstring_np o : is_panic (f_pstring o) = false.
Proof. destruct o as [[]|]; reflexivity. Qed.
Lemma f_pint_np o : is_panic (f_pint o) = false.
Proof. destruct o as [[| |n d| | | | | |]|]; try reflexivity. destruct d; reflexivity. Qed.
Lemma f_pfloat_np o : is_panic (f_pfloat o) = false.
Proof. destruct o as [[]|]; reflexivity. Qed.
Lemma f_pbool_np o : is_panic (f_pbool o) = false.
Proof. destruct o as [[]|]; reflexivity. Qed.

Lemma dec_enum_np o : is_panic (dec_enum o) = false.
Proof.
  destruct o as [[]|]; try reflexivity.
  cbn [dec_enum]. destruct (is_uuid_atom (GArr l)); [reflexivity|].
  destruct l as [|a [|b [|c r]]]; try reflexivity. cbn.
  destruct (str_is a s_set); cbn; [|reflexivity]. destruct b; reflexivity.
Qed.

Theorem dec_base_never_panics v : is_panic (dec_base v) = false.
Proof.
  destruct v; try reflexivity.
  - cbn. destruct (is_atomic_type s); reflexivity.
  - cbn [dec_base].
    apply rbind_np'; [apply f_string_np|intros].
    apply rbind_np'; [destruct (is_atomic_type _); reflexivity|intros].
    apply rbind_np'; [apply dec_enum_np|intros].
    apply rbind_np'; [apply f_pfloat_np|intros].
    apply rbind_np'; [apply f_pfloat_np|intros].
    apply rbind_np'; [apply f_pint_np|intros].
    apply rbind_np'; [apply f_pint_np|intros].
    apply rbind_np'; [apply f_pint_np|intros].
    apply rbind_np'; [apply f_pint_np|intros].
    apply rbind_np'; [apply f_pstring_np|intros].
    apply rbind_np'; [apply f_pstring_np|intros]. reflexivity.
Qed.

Lemma dec_pbase_np o : is_panic (dec_pbase o) = false.
Proof.
  destruct o as [x|]; [|reflexivity].
  destruct x; try reflexivity; cbn [dec_pbase];
    (apply rbind_np'; [apply dec_base_never_panics|reflexivity]).
Qed.

Theorem dec_colty_never_panics v : is_panic (dec_colty v) = false.
Proof.
  destruct v; try reflexivity.
  - cbn. destruct (is_atomic_type s); reflexivity.
  - cbn [dec_colty].
    apply rbind_np'; [apply dec_pbase_np|intros k].
    apply rbind_np'; [apply dec_pbase_np|intros].
    apply rbind_np'; [apply f_pint_np|intros].
    apply rbind_np'; [|intros; destruct k; reflexivity].
    destruct (obj_get l s_max) as [[]|]; try reflexivity.
    cbn. destruct (N.eqb s s_unlimited); reflexivity.
Qed.

Theorem dec_column_never_panics v : is_panic (dec_column v) = false.
Proof.
  destruct v; try reflexivity. cbn [dec_column].
  apply rbind_np'.
  - destruct (obj_get l s_type) as [x|]; [|reflexivity].
    destruct x; try reflexivity;
      (apply rbind_np'; [apply dec_colty_never_panics|reflexivity]).
  - intros ty. apply rbind_np'; [apply f_pbool_np|intros].
    apply rbind_np'; [apply f_pbool_np|intros]. destruct ty; reflexivity.
Qed.

(** Round trips *)
Lemma atomic_type_cases ty : is_atomic_type ty = true ->
  ty = s_integer \/ ty = s_real \/ ty = s_boolean \/ ty = s_string \/ ty = s_uuid.
Proof.
  unfold is_atomic_type. rewrite !orb_true_iff, !N.eqb_eq. tauto.
Qed.

(** the one non-scalar enum element: a uuid in its wire form *)
Ltac uuid_atom_cases H :=
  unfold wf_enum in H; cbn [forallb is_scalar orb andb] in H;
  match type of H with
  | context [is_uuid_atom (GArr ?l)] =>
      destruct l as [|[] [|[] [|]]]; cbn in H; try discriminate;
      rewrite ?andb_true_r in H; apply orb_prop in H as [H|H]; apply N.eqb_eq in H; subst
  end.

Theorem base_roundtrip b : wf_base b = true -> dec_base (enc_base b) = Ok b.
Proof.
  destruct b as [ty en minR maxR minI maxI minL maxL rt ry]. unfold wf_base. cbn [wb_enum wb_type].
  intros Hwf. apply andb_prop in Hwf as [Hen Hat].
  unfold enc_base, dec_base. cbn [wb_type wb_enum wb_minReal wb_maxReal wb_minInt wb_maxInt wb_minLen wb_maxLen wb_refTable wb_refType].
  destruct (atomic_type_cases ty Hat) as [->|[->|[->|[->| ->]]]];
    (destruct en as [[|e1 [|e2 er]]|]; try discriminate;
      [destruct e1; try discriminate; try uuid_atom_cases Hen| |];
      destruct minR as [[? ?]|], maxR as [[? ?]|], minI, maxI, minL, maxL, rt, ry; reflexivity).
Qed.

