(** Round trips and totality of the message codecs of Wire/Messages.v. *)
From LOV Require Import Wire.Messages Wire.RoundTrip Wire.DecodeProofs Wire.SchemaCodecProofs Wire.OperationProofs.

Lemma rmapM_roundtrip {A B} (enc : A -> B) (dec : B -> res A) l :
  Forall (fun a => dec (enc a) = Ok a) l -> rmapM dec (map enc l) = Ok l.
Proof.
  intros H. induction H as [|x xs Hx _ IH]; [reflexivity|]. cbn. rewrite Hx. cbn. rewrite IH. reflexivity.
Qed.

Section RT.
Variable vu : sym -> bool.

Lemma f_prow_rt f o : wf_prow o = true -> f_prow (5 + f) (prow_field vu o) = Ok o.
Proof.
  destruct o as [r|]; [|reflexivity]. cbn [wf_prow prow_field option_map]. intros H.
  unfold f_prow. pose proof (row_roundtrip vu f r H) as E.
  unfold enc_row in *. rewrite E. reflexivity.
Qed.

Lemma ru_keys_nodup r : NoDup (enc_ru_fields vu r).*1.
Proof. cbn. repeat (apply NoDup_cons; split; [set_solver by (intros ?; discriminate)|]). apply NoDup_nil. trivial. Qed.
Lemma ru2_keys_nodup r : NoDup (enc_ru2_fields vu r).*1.
Proof. cbn. repeat (apply NoDup_cons; split; [set_solver by (intros ?; discriminate)|]). apply NoDup_nil. trivial. Qed.
Lemma result_keys_nodup r : NoDup (enc_result_fields vu r).*1.
Proof. cbn. repeat (apply NoDup_cons; split; [set_solver by (intros ?; discriminate)|]). apply NoDup_nil. trivial. Qed.
Lemma select_keys_nodup s : NoDup (enc_select_fields s).*1.
Proof. cbn. repeat (apply NoDup_cons; split; [set_solver by (intros ?; discriminate)|]). apply NoDup_nil. trivial. Qed.
Lemma monreq_keys_nodup m : NoDup (enc_monreq_fields vu m).*1.
Proof. cbn. repeat (apply NoDup_cons; split; [set_solver by (intros ?; discriminate)|]). apply NoDup_nil. trivial. Qed.

Theorem ru_roundtrip f r : wf_ru r = true -> dec_ru (5 + f) (enc_ru vu r) = Ok r.
Proof.
  destruct r as [n o]. unfold wf_ru. cbn [ru_new ru_old]. intros H. apply andb_prop in H as [Hn Ho].
  unfold enc_ru, fields_obj, dec_ru. rewrite !(obj_get_fields _ _ (ru_keys_nodup _)).
  cbn [enc_ru_fields assoc N.eqb Pos.eqb s_new s_old ru_new ru_old].
  rewrite (f_prow_rt f n Hn). cbn [rbind]. rewrite (f_prow_rt f o Ho). reflexivity.
Qed.

Lemma prow_field_none o : prow_field vu o = None -> o = None.
Proof. destruct o; [discriminate|reflexivity]. Qed.

Theorem ru2_roundtrip f r : wf_ru2 r = true -> dec_ru2 (5 + f) (enc_ru2 vu r) = Ok r.
Proof.
  destruct r as [a b c d]. unfold wf_ru2. cbn [r2_initial r2_insert r2_modify r2_delete]. intros H.
  apply andb_prop in H as [H Hd]. apply andb_prop in H as [H Hc]. apply andb_prop in H as [Ha Hb].
  unfold enc_ru2, fields_obj, dec_ru2. rewrite !(obj_get_fields _ _ (ru2_keys_nodup _)).
  cbn [enc_ru2_fields assoc N.eqb Pos.eqb s_initial s_ins s_modify s_del r2_initial r2_insert r2_modify r2_delete].
  rewrite (f_prow_rt f a Ha). cbn [rbind]. rewrite (f_prow_rt f b Hb). cbn [rbind].
  rewrite (f_prow_rt f c Hc). cbn [rbind]. rewrite (f_prow_rt f d Hd). cbn [rbind].
  destruct d as [r|]; reflexivity.
Qed.

(** tables of row updates, generically *)
Lemma elem_roundtrip {A} (enc : A -> gval) (dec : gval -> res A) (wf : A -> bool) o :
  (forall a, wf a = true -> dec (enc a) = Ok a) -> (forall a, enc a <> GNull) ->
  wf_elem wf o = true -> dec_elem dec (enc_elem enc o) = Ok o.
Proof.
  intros Hrt Hnn H. destruct o as [a|]; [|reflexivity]. cbn in *.
  specialize (Hrt a H). specialize (Hnn a). unfold dec_elem. destruct (enc a); try congruence; rewrite Hrt; reflexivity.
Qed.

Theorem tables_roundtrip {A} (enc : A -> gval) (dec : gval -> res A) (wf : A -> bool) t :
  (forall a, wf a = true -> dec (enc a) = Ok a) -> (forall a, enc a <> GNull) ->
  wf_tables wf t = true -> dec_tables dec (enc_tables enc t) = Ok t.
Proof.
  intros Hrt Hnn H. unfold enc_tables, dec_tables.
  rewrite (rmapM_roundtrip (fun tu : sym * wtable A => (tu.1, enc_table enc tu.2))
             (fun tu => t0 <- dec_table dec tu.2 ;; Ok (tu.1, t0)) t); [reflexivity|].
  apply Forall_forall. intros [tn tu] Hin. cbn [fst snd].
  unfold wf_tables in H. rewrite forallb_forall in H. specialize (H _ (proj1 (elem_of_list_In _ _) Hin)). cbn in H.
  unfold enc_table, dec_table.
  rewrite (rmapM_roundtrip (fun ru : sym * option A => (ru.1, enc_elem enc ru.2))
             (fun ru => x <- dec_elem dec ru.2 ;; Ok (ru.1, x)) tu); [reflexivity|].
  apply Forall_forall. intros [u o] Hin2. cbn [fst snd].
  rewrite forallb_forall in H. specialize (H _ (proj1 (elem_of_list_In _ _) Hin2)). cbn in H.
  rewrite (elem_roundtrip enc dec wf o Hrt Hnn H). reflexivity.
Qed.

Lemma fields_obj_not_null fs : fields_obj fs <> GNull.
Proof. discriminate. Qed.

Theorem table_updates_roundtrip f t :
  wf_tables wf_ru t = true -> dec_tables (dec_ru (5 + f)) (enc_tables (enc_ru vu) t) = Ok t.
Proof. apply tables_roundtrip; [apply ru_roundtrip|intros a; apply fields_obj_not_null]. Qed.

Theorem table_updates2_roundtrip f t :
  wf_tables wf_ru2 t = true -> dec_tables (dec_ru2 (5 + f)) (enc_tables (enc_ru2 vu) t) = Ok t.
Proof. apply tables_roundtrip; [apply ru2_roundtrip|intros a; apply fields_obj_not_null]. Qed.

Lemma f_int_rt z : int64_ok z = true -> f_int (int_field z) = Ok z.
Proof. intros H. unfold int_field. destruct (Z.eqb_spec z 0) as [->|_]; [reflexivity|]. cbn. rewrite H. reflexivity. Qed.

Theorem result_roundtrip f r : wf_result r = true -> dec_result (5 + f) (enc_result vu r) = Ok r.
Proof.
  destruct r as [c e d u rows]. unfold wf_result. cbn [rs_rows rs_count]. intros H.
  apply andb_prop in H as [Hc H].
  unfold enc_result, fields_obj, dec_result. rewrite !(obj_get_fields _ _ (result_keys_nodup _)).
  cbn [enc_result_fields assoc N.eqb Pos.eqb s_count s_error s_details s_uuid s_rows rs_count rs_error rs_details rs_uuid rs_rows].
  rewrite (f_int_rt c Hc). cbn [rbind]. rewrite !f_string_str. cbn [rbind].
  unfold f_uuid. rewrite (uuid_roundtrip vu u). cbn [rbind].
  rewrite (f_list_roundtrip (enc_row vu) (dec_row (5 + f)) rows (rows_rt vu f rows H)). reflexivity.
Qed.

Theorem select_roundtrip s : dec_select (enc_select s) = Ok s.
Proof.
  destruct s as [a b c d]. unfold enc_select, fields_obj, dec_select.
  rewrite !(obj_get_fields _ _ (select_keys_nodup _)).
  cbn [enc_select_fields assoc N.eqb Pos.eqb s_initial s_ins s_del s_modify ms_initial ms_insert ms_delete ms_modify].
  destruct a, b, c, d; reflexivity.
Qed.

Theorem monreq_roundtrip f m : wf_monreq m = true -> dec_monreq (5 + f) (enc_monreq vu m) = Ok m.
Proof.
  destruct m as [cols wh sel]. unfold wf_monreq. cbn [mr_where]. intros H.
  unfold enc_monreq, fields_obj, dec_monreq. rewrite !(obj_get_fields _ _ (monreq_keys_nodup _)).
  cbn [enc_monreq_fields assoc N.eqb Pos.eqb s_columns s_where s_select mr_columns mr_where mr_select].
  assert (Ec : f_columns (columns_field cols) = Ok cols).
  { destruct cols as [l|]; [|reflexivity]. cbn. rewrite (rmapM_roundtrip GStr f_str_elem l (strs_rt l)). reflexivity. }
  rewrite Ec. cbn [rbind].
  rewrite (f_list_roundtrip (enc_triple vu) (dec_condition (5 + f)) wh (triples_rt vu is_function f wh H)). cbn [rbind].
  assert (Es : f_pselect (option_map enc_select sel) = Ok sel).
  { destruct sel as [s|]; [|reflexivity]. cbn [option_map f_pselect].
    pose proof (select_roundtrip s) as E. unfold enc_select, fields_obj in *. rewrite E. reflexivity. }
  rewrite Es. reflexivity.
Qed.

Theorem since_roundtrip f s : wf_since s = true -> dec_since (5 + f) (enc_since vu s) = Ok s.
Proof.
  destruct s as [fo la ups]. unfold wf_since. cbn [sn_updates]. intros H.
  unfold enc_since, dec_since. cbn [sn_found sn_last sn_updates rbind].
  rewrite (table_updates2_roundtrip f ups H). reflexivity.
Qed.

(** the three hand-written rules *)
Theorem monreq_keeps_empty_columns m :
  mr_columns m = Some [] -> assoc (enc_monreq_fields vu m) s_columns = Some (GArr []).
Proof. intros H. cbn. rewrite H. reflexivity. Qed.

Theorem monreq_omits_absent_columns m :
  mr_columns m = None -> assoc (enc_monreq_fields vu m) s_columns = None.
Proof. intros H. cbn. rewrite H. reflexivity. Qed.
End RT.

(** "delete": null is a deletion, and an update without that member is none *)
Theorem ru2_null_delete_is_delete fuel o :
  obj_get o s_del = Some GNull ->
  forall r, dec_ru2 fuel (GObj o) = Ok r -> r2_delete r = Some [].
Proof.
  intros H r. cbn [dec_ru2]. rewrite H.
  destruct (f_prow fuel (obj_get o s_initial)); cbn [rbind]; try discriminate.
  destruct (f_prow fuel (obj_get o s_ins)); cbn [rbind]; try discriminate.
  destruct (f_prow fuel (obj_get o s_modify)); cbn [rbind]; try discriminate.
  intros E. injection E as <-. reflexivity.
Qed.

Theorem ru2_no_delete_member fuel o :
  obj_get o s_del = None ->
  forall r, dec_ru2 fuel (GObj o) = Ok r -> r2_delete r = None.
Proof.
  intros H r. cbn [dec_ru2]. rewrite H.
  destruct (f_prow fuel (obj_get o s_initial)); cbn [rbind]; try discriminate.
  destruct (f_prow fuel (obj_get o s_ins)); cbn [rbind]; try discriminate.
  destruct (f_prow fuel (obj_get o s_modify)); cbn [rbind]; try discriminate.
  intros E. injection E as <-. reflexivity.
Qed.

(** the pinned decoder lost the deletion ovsdb-server writes *)
Theorem ru2_pinned_refuted :
  exists v r, dec_ru2_pinned 8 v = Ok r /\ r2_delete r = None /\
              exists r', dec_ru2 8 v = Ok r' /\ r2_delete r' = Some [].
Proof. exists (GObj [(s_del, GNull)]), (mkWRu2 None None None None). vm_compute. eauto 6. Qed.

(** exactly one of insert / modify / delete / nothing is what a v1 row update says *)
Theorem ru_kinds_exclusive r :
  (ru_is_insert r && ru_is_modify r = false) /\ (ru_is_insert r && ru_is_delete r = false) /\
  (ru_is_modify r && ru_is_delete r = false) /\
  (ru_is_insert r || ru_is_modify r || ru_is_delete r = false <-> ru_new r = None /\ ru_old r = None).
Proof. destruct r as [[n|] [o|]]; cbn; repeat split; try congruence; intros []; congruence. Qed.

(** ---- totality (C19): no generic tree makes a message decoder panic ---- *)
Lemma f_prow_np fuel o : is_panic (f_prow fuel o) = false.
Proof.
  destruct o as [v|]; [|reflexivity]. unfold f_prow.
  destruct v; try reflexivity; (apply rbind_np'; [apply dec_row_never_panics|reflexivity]).
Qed.

Theorem dec_ru_never_panics fuel v : is_panic (dec_ru fuel v) = false.
Proof.
  destruct v; try reflexivity. cbn [dec_ru].
  apply rbind_np'; [apply f_prow_np|intros]. apply rbind_np'; [apply f_prow_np|intros]. reflexivity.
Qed.

Theorem dec_ru2_never_panics fuel v : is_panic (dec_ru2 fuel v) = false.
Proof.
  destruct v; try reflexivity. cbn [dec_ru2].
  apply rbind_np'; [apply f_prow_np|intros]. apply rbind_np'; [apply f_prow_np|intros].
  apply rbind_np'; [apply f_prow_np|intros]. apply rbind_np'; [apply f_prow_np|intros]. reflexivity.
Qed.

Theorem dec_tables_never_panics {A} (dec : gval -> res A) v :
  (forall x, is_panic (dec x) = false) -> is_panic (dec_tables dec v) = false.
Proof.
  intros H. destruct v; try reflexivity. cbn [dec_tables]. apply rmapM_np. intros tu.
  apply rbind_np'; [|reflexivity]. destruct (tu.2); try reflexivity. cbn [dec_table]. apply rmapM_np. intros ru.
  apply rbind_np'; [|reflexivity]. unfold dec_elem.
  destruct (ru.2); try reflexivity; (apply rbind_np'; [apply H|reflexivity]).
Qed.

Lemma dec_uuid_np v : is_panic (dec_uuid v) = false.
Proof.
  unfold dec_uuid. destruct (dec_strings v) as [l| |] eqn:E; try reflexivity.
  - destruct l as [|a [|b [|c l]]]; reflexivity.
  - exfalso. unfold dec_strings in E. destruct v; try discriminate.
    assert (Hnp : is_panic (rmapM (fun x => match x with GStr s => Ok s | GNull => Ok s_empty | _ => Err EOther end) l) = false).
    { apply rmapM_np. intros []; reflexivity. }
    rewrite E in Hnp. discriminate.
Qed.

Theorem dec_result_never_panics fuel v : is_panic (dec_result fuel v) = false.
Proof.
  destruct v; try reflexivity. cbn [dec_result].
  apply rbind_np'; [destruct (obj_get l s_count) as [[| |n []| | | | | |]|]; try reflexivity; cbn; destruct (int64_ok n); reflexivity|intros].
  apply rbind_np'; [apply f_string_np|intros]. apply rbind_np'; [apply f_string_np|intros].
  apply rbind_np'; [|intros].
  { unfold f_uuid. destruct (obj_get l s_uuid); [|reflexivity].
    apply rbind_np'; [apply dec_uuid_np|intros []; reflexivity]. }
  apply rbind_np'; [apply f_list_np, dec_row_never_panics|intros]. reflexivity.
Qed.

Theorem dec_monreq_never_panics fuel v : is_panic (dec_monreq fuel v) = false.
Proof.
  destruct v; try reflexivity. cbn [dec_monreq].
  apply rbind_np'; [|intros].
  { unfold f_columns. destruct (obj_get l s_columns) as [[]|]; try reflexivity.
    apply rbind_np'; [apply rmapM_np; intros []; reflexivity|reflexivity]. }
  apply rbind_np'; [apply f_list_np, dec_triple_never_panics|intros].
  apply rbind_np'; [|reflexivity].
  unfold f_pselect. destruct (obj_get l s_select) as [v|]; [|reflexivity].
  destruct v; try reflexivity. apply rbind_np'; [|reflexivity]. cbn [dec_select].
  apply rbind_np'; [apply f_pbool_np|intros]. apply rbind_np'; [apply f_pbool_np|intros].
  apply rbind_np'; [apply f_pbool_np|intros]. apply rbind_np'; [apply f_pbool_np|intros]. reflexivity.
Qed.

Theorem dec_since_never_panics fuel v : is_panic (dec_since fuel v) = false.
Proof.
  destruct v as [| | | |l| | | |]; try reflexivity. destruct l as [|a [|b [|c [|d l]]]]; try reflexivity.
  cbn [dec_since]. apply rbind_np'; [destruct a; reflexivity|intros].
  apply rbind_np'; [destruct b; reflexivity|intros].
  apply rbind_np'; [apply dec_tables_never_panics, dec_ru2_never_panics|reflexivity].
Qed.

(** non-vacuity: a non-trivial update of each format is well-formed *)
Example wf_messages_example :
  wf_tables wf_ru [(70%N, [(71%N, Some (mkWRu (Some [(72%N, GSet [GUuid 73%N; GUuid 74%N])]) (Some [(72%N, GSet [])]))); (75%N, None)])] = true
  /\ wf_tables wf_ru2 [(70%N, [(71%N, Some (mkWRu2 None None (Some [(72%N, GMap [(GStr 76%N, GNum 3 1)])]) None)); (75%N, Some (mkWRu2 None None None (Some [])))])] = true
  /\ wf_result (mkWRes 2 s_empty s_empty s_empty [[(72%N, GNum 1 2)]]) = true
  /\ wf_monreq (mkWMon (Some []) [(72%N, 6%N, GSet [])] (Some (mkWSel (Some false) None None (Some true)))) = true.
Proof. vm_compute. auto. Qed.

(** a request without a select, or a select without members, selects every kind of change;
    a member that is present decides its kind alone *)
Theorem monreq_without_select_selects_all fuel o m :
  obj_get o s_select = None -> dec_monreq fuel (GObj o) = Ok m -> sel_kinds (mr_select m) = (true, true, true, true).
Proof.
  intros H. cbn [dec_monreq]. rewrite H.
  destruct (f_columns (obj_get o s_columns)); cbn [rbind]; try discriminate.
  destruct (f_list (dec_condition fuel) (obj_get o s_where)); cbn [rbind]; try discriminate.
  intros E. injection E as <-. reflexivity.
Qed.

Theorem select_member_decides_its_kind o s :
  dec_select (GObj o) = Ok s ->
  (forall b, obj_get o s_initial = Some (GBool b) -> sel_flag (ms_initial s) = b) /\
  (obj_get o s_initial = None -> sel_flag (ms_initial s) = true) /\
  (forall b, obj_get o s_modify = Some (GBool b) -> sel_flag (ms_modify s) = b) /\
  (obj_get o s_modify = None -> sel_flag (ms_modify s) = true).
Proof.
  cbn [dec_select]. intros H.
  destruct (f_pbool (obj_get o s_initial)) as [a| |] eqn:Ea; cbn [rbind] in H; try discriminate.
  destruct (f_pbool (obj_get o s_ins)) as [b| |]; cbn [rbind] in H; try discriminate.
  destruct (f_pbool (obj_get o s_del)) as [c| |]; cbn [rbind] in H; try discriminate.
  destruct (f_pbool (obj_get o s_modify)) as [d| |] eqn:Ed; cbn [rbind] in H; try discriminate.
  injection H as <-. cbn [ms_initial ms_modify].
  repeat split.
  - intros x Hx. rewrite Hx in Ea. cbn in Ea. injection Ea as <-. reflexivity.
  - intros Hx. rewrite Hx in Ea. cbn in Ea. injection Ea as <-. reflexivity.
  - intros x Hx. rewrite Hx in Ed. cbn in Ed. injection Ed as <-. reflexivity.
  - intros Hx. rewrite Hx in Ed. cbn in Ed. injection Ed as <-. reflexivity.
Qed.

Theorem sel_kinds_roundtrip (vu : sym -> bool) f m :
  wf_monreq m = true ->
  exists m', dec_monreq (5 + f) (enc_monreq vu m) = Ok m' /\ sel_kinds (mr_select m') = sel_kinds (mr_select m).
Proof. intros H. exists m. split; [apply monreq_roundtrip, H|reflexivity]. Qed.
