(** The Operation codec (ovsdb/notation.go): a struct encoded by
    encoding/json through its field tags, with the hand-written row,
    condition and mutation codecs underneath, and Operation.MarshalJSON's
    rule that a select always carries its "where" member.

    encoding/json's struct codec is modelled field by field: a member is left
    out when its tag says omitempty and the value is the zero value (empty
    string, nil pointer, empty slice or map); on decoding an absent or null
    member leaves the zero value, a member of the wrong JSON kind is an
    error.  Unknown members are ignored. *)
From LOV Require Export Wire.Decode Wire.Encode Wire.SchemaCodec.

Definition s_op : sym := 43%N.
Definition s_table : sym := 44%N.
Definition s_row : sym := 45%N.
Definition s_rows : sym := 46%N.
Definition s_columns : sym := 47%N.
Definition s_mutations : sym := 48%N.
Definition s_timeout : sym := 49%N.
Definition s_where : sym := 50%N.
Definition s_until : sym := 51%N.
Definition s_durable : sym := 52%N.
Definition s_comment : sym := 53%N.
Definition s_lock : sym := 54%N.
Definition s_uuid_name : sym := 55%N.
Definition s_select : sym := 56%N.        (* the operation name "select" *)

Notation wrow := (list (sym * gval)).
Notation wtriple := (sym * sym * gval)%type.

Record wop := mkWOp {
  o_op : sym; o_table : sym; o_row : wrow; o_rows : list wrow; o_columns : list sym;
  o_mutations : list wtriple; o_timeout : option Z; o_where : list wtriple; o_until : sym;
  o_durable : option bool; o_comment : option sym; o_lock : option sym; o_uuid : sym; o_uuid_name : sym }.

(** optional members as (key, Some json) / (key, None) *)
Notation fields := (list (sym * option gval)).
Definition fields_obj (fs : fields) : gval := GObj (omap (fun kf => match kf.2 with Some v => Some (kf.1, v) | None => None end) fs).
Fixpoint assoc (fs : fields) (k : sym) : option gval :=
  match fs with
  | [] => None
  | (k', o) :: fs' => if N.eqb k' k then o else assoc fs' k
  end.

Section Op.
Variable vu : sym -> bool.

Definition str_field (s : sym) : option gval := if N.eqb s s_empty then None else Some (GStr s).
Definition list_field {A} (f : A -> gval) (l : list A) : option gval :=
  match l with [] => None | _ => Some (GArr (map f l)) end.

Definition row_field (r : wrow) : option gval := match r with [] => None | _ => Some (enc_row vu r) end.
Definition where_field (op : sym) (wh : list wtriple) : option gval :=
  if N.eqb op s_select then Some (GArr (map (enc_triple vu) wh)) else list_field (enc_triple vu) wh.

Definition enc_op_fields (w : wop) : fields :=
  [ (s_op, Some (GStr (o_op w)));
    (s_table, str_field (o_table w));
    (s_row, row_field (o_row w));
    (s_rows, list_field (enc_row vu) (o_rows w));
    (s_columns, list_field GStr (o_columns w));
    (s_mutations, list_field (enc_triple vu) (o_mutations w));
    (s_timeout, option_map jint (o_timeout w));
    (s_where, where_field (o_op w) (o_where w));
    (s_until, str_field (o_until w));
    (s_durable, option_map GBool (o_durable w));
    (s_comment, option_map GStr (o_comment w));
    (s_lock, option_map GStr (o_lock w));
    (s_uuid, str_field (o_uuid w));
    (s_uuid_name, str_field (o_uuid_name w)) ].

Definition enc_op (w : wop) : gval := fields_obj (enc_op_fields w).
End Op.

(** decoding of the member kinds *)
Definition f_list {A} (f : gval -> res A) (o : option gval) : res (list A) :=
  match o with
  | None | Some GNull => Ok []
  | Some (GArr l) => rmapM f l
  | _ => Err EOther
  end.
Definition f_str_elem (v : gval) : res sym :=
  match v with GStr s => Ok s | GNull => Ok s_empty | _ => Err EOther end.
Definition f_row (fuel : nat) (o : option gval) : res wrow :=
  match o with None => Ok [] | Some v => dec_row fuel v end.

Definition dec_op (fuel : nat) (v : gval) : res wop :=
  match v with
  | GObj o =>
      op <- f_string (obj_get o s_op) ;;
      table <- f_string (obj_get o s_table) ;;
      row <- f_row fuel (obj_get o s_row) ;;
      rows <- f_list (dec_row fuel) (obj_get o s_rows) ;;
      columns <- f_list f_str_elem (obj_get o s_columns) ;;
      muts <- f_list (dec_mutation fuel) (obj_get o s_mutations) ;;
      timeout <- f_pint (obj_get o s_timeout) ;;
      wh <- f_list (dec_condition fuel) (obj_get o s_where) ;;
      until_ <- f_string (obj_get o s_until) ;;
      durable <- f_pbool (obj_get o s_durable) ;;
      comment <- f_pstring (obj_get o s_comment) ;;
      lock <- f_pstring (obj_get o s_lock) ;;
      uuid <- f_string (obj_get o s_uuid) ;;
      uname <- f_string (obj_get o s_uuid_name) ;;
      Ok (mkWOp op table row rows columns muts timeout wh until_ durable comment lock uuid uname)
  | _ => Err EOther
  end.

(** well-formed operations: protocol values in normal form, known functions and mutators *)
Definition wf_row (r : wrow) : bool := forallb (fun kv => wf_value kv.2) r.
Definition wf_triple (valid : sym -> bool) (t : wtriple) : bool := valid t.1.2 && wf_value t.2.
Definition wf_op (w : wop) : bool :=
  wf_row (o_row w) && forallb wf_row (o_rows w) &&
  forallb (wf_triple is_mutator) (o_mutations w) && forallb (wf_triple is_function) (o_where w).
