From LOV Require Import Wire.Operation Wire.RoundTrip Wire.DecodeProofs Wire.SchemaCodecProofs.

Lemma obj_get_fields (fs : fields) k :
  NoDup fs.*1 ->
  obj_get (omap (fun kf => match kf.2 with Some v => Some (kf.1, v) | None => None end) fs) k = assoc fs k.
Proof.
  induction fs as [|[k' o] fs IH]; intros Hnd; [reflexivity|].
  cbn in Hnd. apply NoDup_cons in Hnd as [Hnotin Hnd].
  destruct o as [v|]; cbn.
  - destruct (N.eqb k' k); [reflexivity|apply IH, Hnd].
  - rewrite (IH Hnd). destruct (N.eqb_spec k' k) as [->|_]; [|reflexivity].
    (* the key does not occur again *)
    clear -Hnotin. induction fs as [|[k2 o2] fs IH]; [reflexivity|]. cbn.
    destruct (N.eqb_spec k2 k) as [->|_]; [exfalso; apply Hnotin; set_solver|]. apply IH. set_solver.
Qed.

Section RT.
Variable vu : sym -> bool.

Lemma f_string_str s : f_string (str_field s) = Ok s.
Proof. unfold str_field. destruct (N.eqb_spec s s_empty) as [->|_]; reflexivity. Qed.

Lemma f_list_roundtrip {A} (enc : A -> gval) (dec : gval -> res A) l :
  Forall (fun a => dec (enc a) = Ok a) l -> f_list dec (list_field enc l) = Ok l.
Proof.
  intros H. destruct l as [|a l]; [reflexivity|]. unfold list_field. cbn [f_list].
  induction H as [|x xs Hx _ IH]; [reflexivity|]. cbn. rewrite Hx. cbn. rewrite IH. reflexivity.
Qed.

Lemma f_list_arr {A} (enc : A -> gval) (dec : gval -> res A) l :
  Forall (fun a => dec (enc a) = Ok a) l -> f_list dec (Some (GArr (map enc l))) = Ok l.
Proof.
  intros H. cbn. induction H as [|x xs Hx _ IH]; [reflexivity|]. cbn. rewrite Hx. cbn. rewrite IH. reflexivity.
Qed.

Lemma triples_rt valid f l :
  forallb (wf_triple valid) l = true ->
  Forall (fun t => dec_triple valid (5 + f) (enc_triple vu t) = Ok t) l.
Proof.
  intros H. apply Forall_forall. intros [[c fn] v] Hin.
  rewrite forallb_forall in H. specialize (H _ (proj1 (elem_of_list_In _ _) Hin)).
  unfold wf_triple in H. cbn in H. apply andb_prop in H as [Hf Hv].
  apply (triple_roundtrip vu valid f c fn v Hf Hv).
Qed.

Lemma rows_rt f l :
  forallb wf_row l = true -> Forall (fun r => dec_row (5 + f) (enc_row vu r) = Ok r) l.
Proof.
  intros H. apply Forall_forall. intros r Hin. rewrite forallb_forall in H.
  apply (row_roundtrip vu f r). apply H. apply elem_of_list_In. exact Hin.
Qed.

Lemma strs_rt l : Forall (fun s => f_str_elem (GStr s) = Ok s) l.
Proof. apply Forall_forall. reflexivity. Qed.

Lemma keys_nodup w : NoDup (enc_op_fields vu w).*1.
Proof. cbn. repeat (apply NoDup_cons; split; [set_solver by (intros ?; discriminate)|]). apply NoDup_nil. trivial. Qed.

Theorem operation_roundtrip f w : wf_op w = true -> dec_op (5 + f) (enc_op vu w) = Ok w.
Proof.
  destruct w as [op table row rows columns muts timeout wh until_ durable comment lock uuid uname].
  unfold wf_op. cbn [o_row o_rows o_mutations o_where]. intros H.
  apply andb_prop in H as [H Hwh]. apply andb_prop in H as [H Hmu]. apply andb_prop in H as [Hrow Hrows].
  unfold enc_op, fields_obj, dec_op.
  rewrite !(obj_get_fields _ _ (keys_nodup _)).
  cbn [enc_op_fields assoc N.eqb Pos.eqb s_op s_table s_row s_rows s_columns s_mutations s_timeout s_where s_until
       s_durable s_comment s_lock s_uuid s_uuid_name o_op o_table o_row o_rows o_columns o_mutations o_timeout o_where
       o_until o_durable o_comment o_lock o_uuid o_uuid_name].
  cbn [f_string]. cbn [rbind].
  rewrite f_string_str. cbn [rbind].
  assert (Erow : f_row (5 + f) (row_field vu row) = Ok row).
  { destruct row as [|kv r]; [reflexivity|]. apply (row_roundtrip vu f _ Hrow). }
  rewrite Erow. cbn [rbind].
  rewrite (f_list_roundtrip (enc_row vu) (dec_row (5 + f)) rows (rows_rt f rows Hrows)). cbn [rbind].
  rewrite (f_list_roundtrip GStr f_str_elem columns (strs_rt columns)). cbn [rbind].
  rewrite (f_list_roundtrip (enc_triple vu) (dec_mutation (5 + f)) muts (triples_rt is_mutator f muts Hmu)). cbn [rbind].
  assert (Eto : f_pint (option_map jint timeout) = Ok timeout) by (destruct timeout; reflexivity).
  rewrite Eto. cbn [rbind].
  assert (Ewh : f_list (dec_condition (5 + f)) (where_field vu op wh) = Ok wh).
  { unfold where_field. destruct (N.eqb op s_select).
    - apply f_list_arr, (triples_rt is_function f wh Hwh).
    - apply f_list_roundtrip, (triples_rt is_function f wh Hwh). }
  rewrite Ewh. cbn [rbind].
  rewrite f_string_str. cbn [rbind].
  assert (Ed : f_pbool (option_map GBool durable) = Ok durable) by (destruct durable; reflexivity).
  assert (Ec : f_pstring (option_map GStr comment) = Ok comment) by (destruct comment; reflexivity).
  assert (El : f_pstring (option_map GStr lock) = Ok lock) by (destruct lock; reflexivity).
  rewrite Ed. cbn [rbind]. rewrite Ec. cbn [rbind]. rewrite El. cbn [rbind].
  rewrite !f_string_str. reflexivity.
Qed.

(** a select keeps its (possibly empty) where member *)
Theorem select_keeps_where w :
  o_op w = s_select -> assoc (enc_op_fields vu w) s_where = Some (GArr (map (enc_triple vu) (o_where w))).
Proof. intros H. cbn. unfold where_field. rewrite H. reflexivity. Qed.
End RT.

(** totality: no generic tree makes the operation decoder panic *)
Lemma f_list_np {A} (dec : gval -> res A) o : (forall v, is_panic (dec v) = false) -> is_panic (f_list dec o) = false.
Proof. intros H. destruct o as [[]|]; try reflexivity. cbn. apply rmapM_np, H. Qed.

Theorem dec_op_never_panics fuel v : is_panic (dec_op fuel v) = false.
Proof.
  destruct v; try reflexivity. cbn [dec_op].
  apply rbind_np'; [apply f_string_np|intros].
  apply rbind_np'; [apply f_string_np|intros].
  apply rbind_np'; [destruct (obj_get l s_row); [apply dec_row_never_panics|reflexivity]|intros].
  apply rbind_np'; [apply f_list_np, dec_row_never_panics|intros].
  apply rbind_np'; [apply f_list_np; intros []; reflexivity|intros].
  apply rbind_np'; [apply f_list_np, dec_triple_never_panics|intros].
  apply rbind_np'; [apply f_pint_np|intros].
  apply rbind_np'; [apply f_list_np, dec_triple_never_panics|intros].
  apply rbind_np'; [apply f_string_np|intros].
  apply rbind_np'; [apply f_pbool_np|intros].
  apply rbind_np'; [apply f_pstring_np|intros].
  apply rbind_np'; [apply f_pstring_np|intros].
  apply rbind_np'; [apply f_string_np|intros].
  apply rbind_np'; [apply f_string_np|intros]. reflexivity.
Qed.
