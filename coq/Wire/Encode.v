(** The encoders (MarshalJSON of UUID, OvsSet, OvsMap, Row, Condition,
    Mutation) as functions to generic trees.  [vu] says whether a string is a
    well-formed uuid (the regular expression of ovsdb/uuid.go; a parameter of
    the model: only the tag written depends on it, and no decoder reads the tag
    beyond accepting both). *)
From LOV Require Export Wire.Json.

Section Enc.
Variable vu : sym -> bool.

Definition is_atomv (v : gval) : bool :=
  match v with GBool _ | GNum _ _ | GStr _ | GUuid _ => true | _ => false end.

Definition enc_atom (v : gval) : gval :=
  match v with
  | GUuid s => GArr [GStr (if vu s then s_uuid else s_named); GStr s]
  | _ => v
  end.

Definition enc_set (l : list gval) : gval :=
  match l with
  | [x] => enc_atom x
  | _ => GArr [GStr s_set; GArr (map enc_atom l)]
  end.

(** a map value: an atom or a set of atoms *)
Definition enc_mval (v : gval) : gval :=
  match v with GSet l => enc_set l | _ => enc_atom v end.

Definition enc_pair (p : gval * gval) : gval := GArr [enc_atom p.1; enc_mval p.2].

Definition enc_value (v : gval) : gval :=
  match v with
  | GSet l => enc_set l
  | GMap l => GArr [GStr s_map; GArr (map enc_pair l)]
  | _ => enc_atom v
  end.

Definition enc_row (r : list (sym * gval)) : gval :=
  GObj (map (fun kv => (kv.1, enc_value kv.2)) r).

Definition enc_triple (t : sym * sym * gval) : gval :=
  GArr [GStr t.1.1; GStr t.1.2; enc_value t.2].
End Enc.

(** Well-formed protocol values in notation normal form: an atom, a set of
    atoms that is not a singleton (RFC 7047: a singleton set *is* its element
    on the wire), or a map from atoms to atoms or non-singleton sets, with
    pairwise different keys. *)
Definition wf_set (l : list gval) : bool := forallb is_atomv l.
Definition wf_mval (v : gval) : bool :=
  match v with
  | GSet l => wf_set l && negb (Nat.eqb (length l) 1)
  | _ => is_atomv v
  end.
Fixpoint keys_distinct (l : list (gval * gval)) : bool :=
  match l with
  | [] => true
  | p :: l' => forallb (fun q => negb (gkey_eqb p.1 q.1)) l' && keys_distinct l'
  end.
Definition wf_value (v : gval) : bool :=
  match v with
  | GSet l => wf_set l && negb (Nat.eqb (length l) 1)
  | GMap l => forallb (fun p => is_atomv p.1 && wf_mval p.2) l && keys_distinct l
  | _ => is_atomv v
  end.
