(** The hand-written decoders of ovsdb/{notation,uuid,set,map,row,condition,
    mutation}.go, transcribed statement by statement.  Every Go slice index
    and unchecked type assertion is an [idx]/[assert_*] call that can yield
    [Panic]; checked assertions ([x, ok := v.(T)]) are plain matches.
    Recursion through json.Marshal/json.Unmarshal of sub-slices is recursion
    on explicit fuel (exhaustion is [Err EOther], excluded by the theorems
    that talk about results). *)
From LOV Require Export Wire.Json.

(** json.Unmarshal(b, &[]string): array of strings (null element -> ""), or null *)
Definition dec_strings (v : gval) : res (list sym) :=
  match v with
  | GNull => Ok []
  | GArr l => rmapM (fun x => match x with GStr s => Ok s | GNull => Ok s_empty | _ => Err EOther end) l
  | _ => Err EOther
  end.

(** UUID.UnmarshalJSON.  The error of the inner json.Unmarshal is assigned to a
    shadowing variable and lost: anything that is not an array of strings
    decodes, without error, to the empty UUID. *)
Definition dec_uuid (v : gval) : res gval :=
  match dec_strings v with
  | Ok l =>
      if negb (Nat.eqb (length l) 2) then Err EOther
      else u <- idx l 1 ;; Ok (GUuid u)
  | Err _ => Ok (GUuid s_empty)
  | Panic => Panic
  end.

Fixpoint notation (fuel : nat) (v : gval) {struct fuel} : res gval :=
  match fuel with
  | O => Err EOther
  | S f =>
      match v with
      | GArr sl =>
          if Nat.eqb (length sl) 0 then Ok v
          else
            h <- idx sl 0 ;;
            if str_is h s_uuid || str_is h s_named then dec_uuid v
            else if str_is h s_set then dec_set f v
            else if str_is h s_map then dec_map f v
            else Ok v
      | _ => Ok v
      end
  end
(** OvsSet.UnmarshalJSON *)
with dec_set (fuel : nat) (v : gval) {struct fuel} : res gval :=
  match fuel with
  | O => Err EOther
  | S f =>
      match v with
      | GArr oSet =>
          is_uuid <- (if Nat.eqb (length oSet) 2
                      then h <- idx oSet 0 ;; Ok (str_is h s_uuid || str_is h s_named)
                      else Ok false) ;;
          if is_uuid : bool then
            x <- idx oSet 1 ;;
            match x with
            | GStr u => Ok (GSet [GUuid u])
            | _ => Err EOther
            end
          else
            bad <- (if negb (Nat.eqb (length oSet) 2) then Ok true
                    else h <- idx oSet 0 ;; Ok (negb (str_is h s_set))) ;;
            if bad : bool then Err EOther
            else
              inner <- idx oSet 1 ;;
              match inner with
              | GArr l => els <- rmapM (notation f) l ;; Ok (GSet els)
              | _ => Err EOther
              end
      | _ => x <- notation f v ;; Ok (GSet [x])
      end
  end
(** OvsMap.UnmarshalJSON *)
with dec_map (fuel : nat) (v : gval) {struct fuel} : res gval :=
  match fuel with
  | O => Err EOther
  | S f =>
      let oMap := match v with GArr l => l | _ => [] end in   (* the decode error is dropped *)
      if negb (Nat.ltb 1 (length oMap)) then Ok (GMap [])
      else
        inner <- idx oMap 1 ;;
        match inner with
        | GArr pairs =>
            let side (x : gval) : res gval :=
              match x with
              | GArr vs =>
                  if negb (Nat.eqb (length vs) 2) then Err EOther
                  else h <- idx vs 0 ;;
                       if str_is h s_map then Err EOther else notation f x
              | _ => Ok x
              end in
            m <- rfold (fun m p =>
                   match p with
                   | GArr kv =>
                       if negb (Nat.eqb (length kv) 2) then Err EOther
                       else
                         k0 <- idx kv 0 ;;
                         k <- side k0 ;;
                         if negb (comparable k) then Err EOther
                         else
                           v0 <- idx kv 1 ;;
                           x <- side v0 ;;
                           Ok (map_put m k x)
                   | _ => Err EOther
                   end) pairs [] ;;
            Ok (GMap m)
        | _ => Err EOther
        end
  end.

(** Row.UnmarshalJSON: object (or null) whose values go through the notation *)
Definition dec_row (fuel : nat) (v : gval) : res (list (sym * gval)) :=
  match v with
  | GNull => Ok []
  | GObj l => rmapM (fun kv => x <- notation fuel kv.2 ;; Ok (kv.1, x)) l
  | _ => Err EOther
  end.

(** Condition.UnmarshalJSON / Mutation.UnmarshalJSON *)
Definition dec_triple (valid : sym -> bool) (fuel : nat) (v : gval) : res (sym * sym * gval) :=
  match v with
  | GNull => Err EOther
  | GArr l =>
      if negb (Nat.eqb (length l) 3) then Err EOther
      else
        c <- idx l 0 ;;
        match c with
        | GStr col =>
            f <- idx l 1 ;;
            match f with
            | GStr fn =>
                if valid fn then
                  x <- idx l 2 ;;
                  vv <- notation fuel x ;;
                  Ok (col, fn, vv)
                else Err EOther
            | _ => Err EOther
            end
        | _ => Err EOther
        end
  | _ => Err EOther
  end.
Definition dec_condition := dec_triple is_function.
Definition dec_mutation := dec_triple is_mutator.

(** The pinned decoders (before the repairs recorded in known_findings.txt),
    kept for the refutation witnesses. *)
Definition dec_uuid_pinned (v : gval) : res gval :=
  l <- dec_strings v ;; u <- idx l 1 ;; Ok (GUuid u).

Definition dec_set_pinned_head (v : gval) : res gval :=
  match v with
  | GArr oSet =>
      h <- idx oSet 0 ;;
      if negb (str_is h s_set) then Err EOther
      else inner <- idx oSet 1 ;; l <- assert_arr inner ;; Ok (GSet l)
  | _ => Ok (GSet [v])
  end.

Definition dec_condition_pinned (v : gval) : res (sym * sym) :=
  match v with
  | GArr l =>
      if negb (Nat.eqb (length l) 3) then Err EOther
      else c <- idx l 0 ;; col <- assert_str c ;; f <- idx l 1 ;; fn <- assert_str f ;; Ok (col, fn)
  | _ => Err EOther
  end.
