(** Sessions: any number of batches and purges, from the empty cache.  Each
    batch changes distinct rows, fits the rows cached at that point and leaves
    them unique under every schema index (the server guarantees that of every
    committed state); it may be applied in any order.  After every step the
    invariant of C05 holds and the cached rows are the ones the batches
    describe - for every reachable state, not only after one batch. *)
From LOV Require Export Cache.Index Cache.IndexProofs Cache.IndexBatch.

Inductive sstep := SBatchOf (b p : list change) | SPurgeAll.   (* [p]: the order in which [b] is applied *)

(** the rows a session leaves, and what makes a session well-formed *)
Fixpoint session_rows (rows : tbl) (l : list sstep) : tbl :=
  match l with
  | [] => rows
  | SBatchOf b _ :: l' => session_rows (rows_after rows b) l'
  | SPurgeAll :: l' => session_rows ∅ l'
  end.

Section session.
Context (T : table) (specs : list ispec).

Fixpoint session_ok (rows : tbl) (l : list sstep) : Prop :=
  match l with
  | [] => True
  | SBatchOf b p :: l' =>
      NoDup (ch_uuid <$> b) /\ Forall (ch_ok rows) b /\ p ≡ₚ b /\
      schema_unique T specs (rows_after rows b) /\ session_ok (rows_after rows b) l'
  | SPurgeAll :: l' => session_ok ∅ l'
  end.

(** what the code does *)
Fixpoint run_session (c : rc) (l : list sstep) : cres rc :=
  match l with
  | [] => COk c
  | SBatchOf _ p :: l' =>
      match apply_batch T specs c p with
      | COk c' => run_session c' l'
      | CErr e => CErr e
      end
  | SPurgeAll :: l' => run_session (rc_empty specs) l'
  end.

Lemma schema_unique_empty : schema_unique T specs ∅.
Proof.
  unfold schema_unique. apply Forall_forall. intros s _ _ u u' r r' H. rewrite lookup_empty in H. discriminate.
Qed.

Theorem session_inv : forall l c,
  Inv T specs c -> schema_unique T specs (rc_rows c) -> session_ok (rc_rows c) l ->
  exists c', run_session c l = COk c' /\ Inv T specs c' /\ schema_unique T specs (rc_rows c') /\
             rc_rows c' = session_rows (rc_rows c) l.
Proof.
  induction l as [|[b p|] l IH]; intros c HI Hu Hok; cbn [run_session session_rows].
  - exists c. auto.
  - cbn [session_ok] in Hok. destruct Hok as (Hnd & Hch & Hp & Hu' & Hrest).
    destruct (batch_any_order_inv T specs c b HI Hu Hnd Hch Hu' p Hp) as (c1 & E & HI1 & R1).
    rewrite E. rewrite <- R1 in Hu', Hrest. destruct (IH c1 HI1 Hu' Hrest) as (c2 & E2 & HI2 & Hu2 & R2).
    exists c2. rewrite R1 in R2. auto.
  - cbn [session_ok] in Hok.
    assert (Hr : rc_rows (rc_empty specs) = ∅) by reflexivity.
    destruct (IH (rc_empty specs) (Inv_empty T specs)) as (c2 & E2 & HI2 & Hu2 & R2).
    { rewrite Hr. apply schema_unique_empty. }
    { rewrite Hr. exact Hok. }
    exists c2. rewrite Hr in R2. auto.
Qed.

(** from the empty cache *)
Corollary session_from_empty l :
  session_ok ∅ l ->
  exists c', run_session (rc_empty specs) l = COk c' /\ Inv T specs c' /\ rc_rows c' = session_rows ∅ l.
Proof.
  intros Hok. destruct (session_inv l (rc_empty specs) (Inv_empty T specs)) as (c' & E & HI & _ & R).
  - apply schema_unique_empty.
  - exact Hok.
  - exists c'. auto.
Qed.
End session.
