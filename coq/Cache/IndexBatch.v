(** C05, batches on schema indexes: a schema-indexed value may be handed from
    one row to another inside one batch (one notification), and Go applies the
    rows of a batch in map order.  When the taker is applied before the giver
    two rows hold the value for a moment; the entry of a schema index then
    points at the last writer and is removed only by the row it points at.

    [TInv1] is what holds in the middle of a batch ([done] = the rows of the
    batch already applied); at the end, if the rows are unique under the
    index again, it gives back the exact invariant [Inv1]. *)
From LOV Require Import Cache.IndexProofs.

Lemma i_get_put_s (k : ikey) (u : sym) (m : idx1) (k' : ikey) : i_get (<[k := {[u]}]> m) k' = if decide (k = k') then {[u]} else i_get m k'.
Proof.
  unfold i_get. case_decide as Hk.
  - subst. rewrite lookup_insert. reflexivity.
  - rewrite lookup_insert_ne by exact Hk. reflexivity.
Qed.

Lemma no_empty_put_s (k : ikey) (u : sym) (m : idx1) : no_empty m -> no_empty (<[k := {[u]}]> m).
Proof.
  intros H k'. destruct (decide (k = k')) as [->|Hk].
  - rewrite lookup_insert. intros He. assert (He' : ({[u]} : gset sym) = ∅) by (apply (inj Some); exact He).
    assert (Hin : u ∈ (∅ : gset sym)) by (rewrite <- He'; apply elem_of_singleton; reflexivity).
    apply elem_of_empty in Hin. exact Hin.
  - rewrite lookup_insert_ne by exact Hk. apply H.
Qed.

Section One.
Variable T : table.
Variable s : ispec.
Notation key := (K T s).

Definition unique_rows (rows : tbl) : Prop :=
  forall u u' r r', rows !! u = Some r -> rows !! u' = Some r' -> key r = key r' -> u = u'.

Definition TInv1 (rows : tbl) (done : gset sym) (m : idx1) : Prop :=
  no_empty m /\
  (forall k u, u ∈ i_get m k -> exists r, rows !! u = Some r /\ key r = k) /\
  (forall u r, rows !! u = Some r -> i_get m (key r) <> ∅) /\
  (forall k u, u ∈ i_get m k -> u ∉ done ->
               forall u' r', rows !! u' = Some r' -> key r' = k -> u' ∉ done) /\
  (forall u u' r r', rows !! u = Some r -> rows !! u' = Some r' -> u ∉ done -> u' ∉ done ->
                     key r = key r' -> u = u').

(** start of a batch: the exact invariant on unique rows *)
Lemma TInv1_start rows m : Inv1 T rows s m -> unique_rows rows -> TInv1 rows ∅ m.
Proof.
  intros [Hne Hm] Hu. split; [exact Hne|]. split; [|split; [|split]].
  - intros k u Hin. apply Hm. exact Hin.
  - intros u r Hr He. assert (Hin : u ∈ i_get m (key r)) by (apply Hm; eauto). rewrite He in Hin. set_solver.
  - intros k u _ _ u' r' _ _. set_solver.
  - intros u u' r r' Hr Hr' _ _ HK. eapply Hu; eauto.
Qed.

(** end of a batch: unique rows give the exact invariant back *)
Lemma TInv1_end rows done m : TInv1 rows done m -> unique_rows rows -> Inv1 T rows s m.
Proof.
  intros (Hne & Hb & Hc & _ & _) Hu. split; [exact Hne|]. intros k u. split; [apply Hb|].
  intros (r & Hr & HK). subst k. pose proof (Hc u r Hr) as Hnonempty.
  destruct (set_choose_or_empty (i_get m (key r))) as [[w Hw]|He]; [|exfalso; apply Hnonempty; apply leibniz_equiv; exact He].
  destruct (Hb _ _ Hw) as (rw & Hrw & HKw). assert (w = u) by (eapply Hu; eauto). subst w. exact Hw.
Qed.

(** a row not yet applied leaves its key (it is updated to another key or deleted) *)
Lemma leave_entry rows done m u old :
  TInv1 rows done m -> rows !! u = Some old -> u ∉ done ->
  forall u' r', u' <> u -> rows !! u' = Some r' -> key r' = key old -> i_get m (key old) ∖ {[u]} <> ∅.
Proof.
  intros (Hne & Hb & Hc & Hd & He) Hu Hnd u' r' Hneq Hr' HK Hempty.
  pose proof (Hc u old Hu) as Hnon.
  destruct (set_choose_or_empty (i_get m (key old))) as [[w Hw]|Hemp]; [|apply Hnon; apply leibniz_equiv; exact Hemp].
  assert (w = u) by set_solver. subst w.
  (* the entry points at u, which is untouched: every holder of the key is untouched, hence equal to u *)
  assert (Hu'nd : u' ∉ done) by (eapply (Hd (key old) u Hw Hnd u' r'); eauto).
  apply Hneq. eapply (He u' u r' old); eauto.
Qed.

Lemma TInv1_create rows done m u r :
  TInv1 rows done m -> rows !! u = None ->
  TInv1 (<[u := r]> rows) (done ∪ {[u]}) (<[key r := {[u]}]> m).
Proof.
  intros (Hne & Hb & Hc & Hd & He) Hu. split; [apply no_empty_put_s; exact Hne|]. split; [|split; [|split]].
  - intros k w. rewrite i_get_put_s. case_decide as Hk.
    + intros Hw. apply elem_of_singleton in Hw. subst w k. exists r. rewrite lookup_insert. auto.
    + intros Hw. destruct (Hb _ _ Hw) as (rw & Hrw & HKw). exists rw. split; [|exact HKw].
      rewrite lookup_insert_ne; [exact Hrw|]. intros <-. congruence.
  - intros w rw Hrw. rewrite i_get_put_s. case_decide as Hk; [set_solver|].
    destruct (decide (w = u)) as [->|Hne']; [rewrite lookup_insert in Hrw; congruence|].
    rewrite lookup_insert_ne in Hrw by congruence. apply (Hc w rw Hrw).
  - intros k w. rewrite i_get_put_s. case_decide as Hk; [set_solver|].
    intros Hw Hwd u' r' Hr' HK'. destruct (decide (u' = u)) as [->|Hne'].
    + rewrite lookup_insert in Hr'. congruence.
    + rewrite lookup_insert_ne in Hr' by congruence.
      assert (u' ∉ done) by (eapply Hd; eauto; set_solver). set_solver.
  - intros a b ra rb Ha Hb' Had Hbd HK.
    assert (a <> u) by set_solver. assert (b <> u) by set_solver.
    rewrite lookup_insert_ne in Ha by congruence. rewrite lookup_insert_ne in Hb' by congruence.
    eapply He; eauto; set_solver.
Qed.

Lemma TInv1_update_same rows done m u old r :
  TInv1 rows done m -> rows !! u = Some old -> u ∉ done -> key old = key r ->
  TInv1 (<[u := r]> rows) (done ∪ {[u]}) m.
Proof.
  intros (Hne & Hb & Hc & Hd & He) Hu Hnd HK. split; [exact Hne|]. split; [|split; [|split]].
  - intros k w Hw. destruct (Hb _ _ Hw) as (rw & Hrw & HKw). destruct (decide (w = u)) as [->|Hne'].
    + exists r. rewrite lookup_insert. split; [reflexivity|]. congruence.
    + exists rw. rewrite lookup_insert_ne by congruence. auto.
  - intros w rw Hrw. destruct (decide (w = u)) as [->|Hne'].
    + rewrite lookup_insert in Hrw. inversion Hrw; subst. rewrite <- HK. apply (Hc u old Hu).
    + rewrite lookup_insert_ne in Hrw by congruence. apply (Hc w rw Hrw).
  - intros k w Hw Hwd u' r' Hr' HK'.
    assert (Hwnd : w ∉ done) by set_solver. assert (Hwu : w <> u) by set_solver.
    destruct (decide (u' = u)) as [->|Hne'].
    + (* u (untouched before) holds k like w (untouched): they are the same row - contradiction *)
      rewrite lookup_insert in Hr'. inversion Hr'; subst r'.
      destruct (Hb _ _ Hw) as (rw & Hrw & HKw).
      exfalso. apply Hwu. eapply (He w u rw old); eauto. congruence.
    + rewrite lookup_insert_ne in Hr' by congruence.
      assert (u' ∉ done) by (eapply Hd; eauto). set_solver.
  - intros a b ra rb Ha Hb' Had Hbd HKab.
    assert (a <> u) by set_solver. assert (b <> u) by set_solver.
    rewrite lookup_insert_ne in Ha by congruence. rewrite lookup_insert_ne in Hb' by congruence.
    eapply He; eauto; set_solver.
Qed.

Lemma TInv1_update_move rows done m u old r :
  TInv1 rows done m -> rows !! u = Some old -> u ∉ done -> key old <> key r ->
  TInv1 (<[u := r]> rows) (done ∪ {[u]}) (i_rem (key old) u (<[key r := {[u]}]> m)).
Proof.
  intros HT Hu Hnd HK. pose proof HT as (Hne & Hb & Hc & Hd & He).
  assert (Hget : forall k', i_get (i_rem (key old) u (<[key r := {[u]}]> m)) k' =
                            if decide (key old = k') then i_get m (key old) ∖ {[u]}
                            else if decide (key r = k') then {[u]} else i_get m k').
  { intros k'. rewrite i_get_rem, !i_get_put_s. destruct (decide (key old = k')) as [<-|Hko].
    - rewrite decide_False by congruence. reflexivity.
    - reflexivity. }
  split; [apply no_empty_rem, no_empty_put_s; exact Hne|]. split; [|split; [|split]].
  - intros k w. rewrite Hget. destruct (decide (key old = k)) as [<-|Hko].
    + intros Hw. apply elem_of_difference in Hw as [Hw Hwu]. destruct (Hb _ _ Hw) as (rw & Hrw & HKw).
      exists rw. rewrite lookup_insert_ne by set_solver. auto.
    + destruct (decide (key r = k)) as [<-|Hkn].
      * intros Hw. apply elem_of_singleton in Hw. subst w. exists r. rewrite lookup_insert. auto.
      * intros Hw. destruct (Hb _ _ Hw) as (rw & Hrw & HKw). exists rw. split; [|exact HKw].
        rewrite lookup_insert_ne; [exact Hrw|]. intros <-. rewrite Hu in Hrw. inversion Hrw; subst. congruence.
  - intros w rw Hrw. rewrite Hget. destruct (decide (w = u)) as [->|Hwu].
    + rewrite lookup_insert in Hrw. inversion Hrw; subst rw. rewrite decide_False by congruence.
      rewrite decide_True by reflexivity. set_solver.
    + rewrite lookup_insert_ne in Hrw by congruence.
      destruct (decide (key old = key rw)) as [Hko|Hko].
      * apply (leave_entry rows done m u old HT Hu Hnd w rw Hwu Hrw). congruence.
      * destruct (decide (key r = key rw)); [set_solver|]. apply (Hc w rw Hrw).
  - intros k w. rewrite Hget. intros Hw Hwd u' r' Hr' HK'.
    assert (Hwnd : w ∉ done) by set_solver. assert (Hwu : w <> u) by set_solver.
    assert (Hwin : w ∈ i_get m k).
    { destruct (decide (key old = k)); [set_solver|]. destruct (decide (key r = k)); [set_solver|exact Hw]. }
    destruct (decide (u' = u)) as [->|Hne'].
    + rewrite lookup_insert in Hr'. inversion Hr'; subst r'.
      destruct (decide (key old = k)) as [Hko|Hko]; [congruence|].
      rewrite decide_True in Hw by exact HK'. set_solver.
    + rewrite lookup_insert_ne in Hr' by congruence.
      assert (u' ∉ done) by (eapply Hd; eauto). set_solver.
  - intros a b ra rb Ha Hb' Had Hbd HKab.
    assert (a <> u) by set_solver. assert (b <> u) by set_solver.
    rewrite lookup_insert_ne in Ha by congruence. rewrite lookup_insert_ne in Hb' by congruence.
    eapply He; eauto; set_solver.
Qed.

Lemma TInv1_delete rows done m u old :
  TInv1 rows done m -> rows !! u = Some old -> u ∉ done ->
  TInv1 (delete u rows) (done ∪ {[u]}) (i_rem (key old) u m).
Proof.
  intros HT Hu Hnd. pose proof HT as (Hne & Hb & Hc & Hd & He).
  split; [apply no_empty_rem; exact Hne|]. split; [|split; [|split]].
  - intros k w. rewrite i_get_rem. destruct (decide (key old = k)) as [<-|Hko].
    + intros Hw. apply elem_of_difference in Hw as [Hw Hwu]. destruct (Hb _ _ Hw) as (rw & Hrw & HKw).
      exists rw. rewrite lookup_delete_ne by set_solver. auto.
    + intros Hw. destruct (Hb _ _ Hw) as (rw & Hrw & HKw). exists rw. split; [|exact HKw].
      rewrite lookup_delete_ne; [exact Hrw|]. intros <-. rewrite Hu in Hrw. inversion Hrw; subst. congruence.
  - intros w rw Hrw. destruct (decide (w = u)) as [->|Hwu]; [rewrite lookup_delete in Hrw; discriminate|].
    rewrite lookup_delete_ne in Hrw by congruence. rewrite i_get_rem.
    destruct (decide (key old = key rw)) as [Hko|Hko].
    + apply (leave_entry rows done m u old HT Hu Hnd w rw Hwu Hrw). congruence.
    + apply (Hc w rw Hrw).
  - intros k w. rewrite i_get_rem. intros Hw Hwd u' r' Hr' HK'.
    assert (Hwnd : w ∉ done) by set_solver.
    assert (Hwin : w ∈ i_get m k) by (destruct (decide (key old = k)); [set_solver|exact Hw]).
    destruct (decide (u' = u)) as [->|Hne']; [rewrite lookup_delete in Hr'; discriminate|].
    rewrite lookup_delete_ne in Hr' by congruence.
    assert (u' ∉ done) by (eapply Hd; eauto). set_solver.
  - intros a b ra rb Ha Hb' Had Hbd HKab.
    assert (a <> u) by set_solver. assert (b <> u) by set_solver.
    rewrite lookup_delete_ne in Ha by congruence. rewrite lookup_delete_ne in Hb' by congruence.
    eapply He; eauto; set_solver.
Qed.

End One.

(** * the whole cache *)
Section All.
Variable T : table.
Variable specs : list ispec.

Definition schema_unique (rows : tbl) : Prop :=
  Forall (fun s => i_schema s = true -> unique_rows T s rows) specs.

Definition BInv1 (rows : tbl) (done : gset sym) (s : ispec) (m : idx1) : Prop :=
  if i_schema s then TInv1 T s rows done m else Inv1 T rows s m.

Definition BInv (done : gset sym) (c : rc) : Prop := Forall2 (BInv1 (rc_rows c) done) specs (rc_idx c).

Lemma BInv_start c : Inv T specs c -> schema_unique (rc_rows c) -> BInv ∅ c.
Proof.
  unfold Inv, BInv, schema_unique. intros HI Hu. induction HI as [|s m ss ms H1 H2 IH]; [constructor|].
  inversion Hu as [|? ? Hs Hrest]; subst. constructor; [|apply IH; exact Hrest].
  unfold BInv1. destruct (i_schema s) eqn:Hsch; [|exact H1]. apply TInv1_start; [exact H1|apply Hs; reflexivity].
Qed.

Lemma BInv_end done c : BInv done c -> schema_unique (rc_rows c) -> Inv T specs c.
Proof.
  unfold Inv, BInv, schema_unique. intros HB Hu. induction HB as [|s m ss ms H1 H2 IH]; [constructor|].
  inversion Hu as [|? ? Hs Hrest]; subst. constructor; [|apply IH; exact Hrest].
  unfold BInv1 in H1. destruct (i_schema s) eqn:Hsch; [|exact H1]. eapply TInv1_end; [exact H1|apply Hs; reflexivity].
Qed.

Lemma Forall2_zip_with_same {A B} (P Q : A -> B -> Prop) (f : A -> B -> B) (l1 : list A) (l2 : list B) :
  Forall2 P l1 l2 -> (forall a b, P a b -> Q a (f a b)) -> Forall2 Q l1 (zip_with f l1 l2).
Proof. intros H Hf. induction H; cbn; constructor; auto. Qed.

Lemma apply_change_BInv done c ch c' :
  BInv done c -> ch_ok (rc_rows c) ch -> ch_uuid ch ∉ done ->
  apply_change T specs c ch = COk c' -> BInv (done ∪ {[ch_uuid ch]}) c'.
Proof.
  unfold apply_change, ch_ok, BInv. intros HB Hok Hnd.
  destruct (ch_old ch) as [o|], (ch_new ch) as [n|].
  - (* update *)
    unfold rc_update. destruct Hok as [old Hold]. rewrite Hold. cbn [andb]. intros [= <-]. cbn [rc_rows rc_idx].
    eapply Forall2_zip_with_same; [exact HB|]. intros s m H1. unfold BInv1, upd_idx in *.
    destruct (i_schema s) eqn:Hsch.
    + destruct (decide (K T s old = K T s n)) as [He|Hne].
      * apply TInv1_update_same with (old := old); assumption.
      * unfold i_put. apply TInv1_update_move; assumption.
    + unfold i_put. exact (Inv1_update T (rc_rows c) s m (ch_uuid ch) old n Hold H1).
  - (* delete *)
    unfold rc_delete. destruct Hok as [old Hold]. rewrite Hold. intros [= <-]. cbn [rc_rows rc_idx].
    eapply Forall2_zip_with_same; [exact HB|]. intros s m H1. unfold BInv1 in *.
    destruct (i_schema s); [apply TInv1_delete; assumption|apply Inv1_delete; assumption].
  - (* create *)
    unfold rc_create. rewrite Hok. cbn [andb]. intros [= <-]. cbn [rc_rows rc_idx].
    eapply Forall2_zip_with_same; [exact HB|]. intros s m H1. unfold BInv1, i_put in *.
    destruct (i_schema s); [apply TInv1_create; assumption|apply Inv1_create; assumption].
  - (* delete of a row given without old *)
    unfold rc_delete. destruct Hok as [old Hold]. rewrite Hold. intros [= <-]. cbn [rc_rows rc_idx].
    eapply Forall2_zip_with_same; [exact HB|]. intros s m H1. unfold BInv1 in *.
    destruct (i_schema s); [apply TInv1_delete; assumption|apply Inv1_delete; assumption].
Qed.

Lemma apply_batch_BInv : forall b done c c',
  BInv done c -> Forall (ch_ok (rc_rows c)) b -> NoDup (ch_uuid <$> b) ->
  (forall ch, ch ∈ b -> ch_uuid ch ∉ done) ->
  apply_batch T specs c b = COk c' -> exists done', BInv done' c'.
Proof.
  induction b as [|ch b IH]; intros done c c' HB Hok Hnd Hfresh; cbn [apply_batch].
  - intros [= <-]. eauto.
  - apply Forall_cons in Hok as [Hok1 Hok]. cbn in Hnd. apply NoDup_cons in Hnd as [Hch Hnd].
    destruct (apply_change_rows T specs c ch Hok1) as (c1 & E1 & R1). rewrite E1. intros H.
    eapply (IH (done ∪ {[ch_uuid ch]}) c1 c'); [| |exact Hnd| |exact H].
    + eapply apply_change_BInv; [exact HB|exact Hok1| |exact E1]. apply Hfresh. left.
    + rewrite R1. apply Forall_forall. intros x Hx. pose proof (proj1 (Forall_forall _ _) Hok x Hx) as Hokx.
      unfold ch_ok in *.
      assert (Hne : ch_uuid x <> ch_uuid ch).
      { intros Heq. apply Hch. rewrite <- Heq. apply elem_of_list_fmap. eauto. }
      rewrite ch_rows_lookup_ne by exact Hne. exact Hokx.
    + intros x Hx. assert (Hne : ch_uuid x <> ch_uuid ch).
      { intros Heq. apply Hch. rewrite <- Heq. apply elem_of_list_fmap. eauto. }
      assert (ch_uuid x ∉ done) by (apply Hfresh; right; exact Hx). set_solver.
Qed.

(** C05, batch form, in full: a batch of changes to distinct rows, each
    applicable to the cache, whose rows are unique under every schema index
    before and after, applies in EVERY order (also when a schema-indexed value
    is handed from one row to another and the taker comes first), ends in the
    same rows, and leaves every index - schema and client - exactly the
    grouping of those rows by the index key. *)
Theorem batch_any_order_inv c b :
  Inv T specs c -> schema_unique (rc_rows c) ->
  NoDup (ch_uuid <$> b) -> Forall (ch_ok (rc_rows c)) b ->
  schema_unique (rows_after (rc_rows c) b) ->
  forall p, p ≡ₚ b ->
  exists c', apply_batch T specs c p = COk c' /\ Inv T specs c' /\ rc_rows c' = rows_after (rc_rows c) b.
Proof.
  intros HI Hu Hnd Hok Hu' p Hp.
  destruct (apply_batch_ok T specs p c) as (c' & E & R).
  - rewrite Hp. exact Hnd.
  - rewrite Hp. exact Hok.
  - assert (Hrows : rc_rows c' = rows_after (rc_rows c) b).
    { rewrite R. apply rows_after_perm; assumption. }
    exists c'. split; [exact E|]. split; [|exact Hrows].
    destruct (apply_batch_BInv p ∅ c c') as (done' & HB).
    + apply BInv_start; assumption.
    + rewrite Hp. exact Hok.
    + rewrite Hp. exact Hnd.
    + intros ch _. set_solver.
    + exact E.
    + eapply BInv_end; [exact HB|]. rewrite Hrows. exact Hu'.
Qed.

End All.
