(** The pinned tree's RowCache.Update removed the old schema-index entry
    unconditionally (cache/cache.go:376-381 before the repair).  This file
    keeps that variant and the witness showing it breaks C05, next to the
    same witness on the repaired model. *)
From LOV Require Export Cache.Index.

Definition upd_idx_pinned (T : table) (u : sym) (old new : row) (s : ispec) (m : idx1) : idx1 :=
  if decide (K T s old = K T s new) then m
  else (if i_schema s then delete (K T s old) else i_rem (K T s old) u)
         (i_put (i_schema s) (K T s new) u m).

Definition update_pinned (T : table) (specs : list ispec) (c : rc) (u : sym) (r : row) : rc :=
  match rc_rows c !! u with
  | None => c
  | Some old => mkRC (<[u := r]> (rc_rows c)) (zip_with (upd_idx_pinned T u old r) specs (rc_idx c))
  end.

(** witness: one table with a string column 1 indexed by the schema; rows 10
    and 11 hold "a" (sym 5) and "b" (sym 6) and swap them in one batch. *)
Definition wT : table :=
  mkTable 0%N [mkCol 1%N (mkColTy KAtom (mkBase TStr [] None) None 1 (Some 1)) true] [[1%N]] true.
Definition wspecs : list ispec := [mkISpec [(1%N, None)] true].
Definition wrow (s : sym) : row := {[ 1%N := VAtom (AStr s) ]}.
Definition wstart : rc :=
  match rc_create wT wspecs true (rc_empty wspecs) 10%N (wrow 5%N) with
  | COk c => match rc_create wT wspecs true c 11%N (wrow 6%N) with COk c' => c' | _ => c end
  | _ => rc_empty wspecs
  end.
Definition wbatch : list change :=
  [mkChange 10%N (Some (wrow 5%N)) (Some (wrow 6%N)); mkChange 11%N (Some (wrow 6%N)) (Some (wrow 5%N))].

Definition lookup_b (c : rc) : list sym :=
  match rc_idx c with m :: _ => elements (i_get m [Some (AStr 6%N)]) | [] => [] end.

(** the pinned multi-column key skipped unset optional columns without a mark:
    two rows that differ on both indexed columns had one key *)
Definition kT : table :=
  mkTable 0%N [mkCol 1%N (mkColTy KOpt (mkBase TStr [] None) None 0 (Some 1)) true;
               mkCol 2%N (mkColTy KOpt (mkBase TStr [] None) None 0 (Some 1)) true] [] true.
Definition kspec : ispec := mkISpec [(1%N, None); (2%N, None)] false.
Definition krow (a b : option atom) : row := {[ 1%N := VOpt a; 2%N := VOpt b ]}.

Lemma K_pinned_refuted :
  let r1 := krow None (Some (AStr 5)) in
  let r2 := krow (Some (AStr 5)) None in
  K_pinned kT kspec r1 = K_pinned kT kspec r2 /\ K kT kspec r1 <> K kT kspec r2.
Proof. cbv zeta. split; [vm_compute; reflexivity|vm_compute; discriminate]. Qed.

(** A schema index over a column the client does not monitor (recorded finding
    C05 class 31): every cached row holds the default value; the rows are
    created without the duplicate check, as Populate does; the single-valued
    schema entry holds the last row only, a scan finds both. *)
Definition pspec : ispec := mkISpec [(1%N, None)] true.
Definition two_projected : cres rc :=
  match rc_create kT [pspec] false (rc_empty [pspec]) 10%N (krow None None) with
  | COk c => rc_create kT [pspec] false c 11%N (krow None None)
  | e => e
  end.

Lemma schema_index_projected_refuted :
  exists c, two_projected = COk c /\
    (match rc_idx c with m :: _ => i_get m (K kT pspec (krow None None)) | [] => ∅ end) = {[11%N]} /\
    scan kT pspec (rc_rows c) (K kT pspec (krow None None)) = {[10%N; 11%N]}.
Proof.
  eexists. split; [vm_compute; reflexivity|]. split; apply leibniz_equiv; intros u; vm_compute; tauto.
Qed.
