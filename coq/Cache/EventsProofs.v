From LOV Require Import Cache.Events.

Lemma apply_row_replay c ch c' es : apply_row c ch = Some (c', es) -> replay c es = Some c'.
Proof.
  destruct ch as [[[t u] ins] target]. unfold apply_row.
  destruct (tc_get c t !! u) as [o|] eqn:E, target as [n|]; try discriminate.
  - destruct ins; [discriminate|]. destruct (bool_decide (o = n)) eqn:D; intros [= <- <-]; [reflexivity|].
    cbn. rewrite E. rewrite bool_decide_eq_true_2 by reflexivity. reflexivity.
  - intros [= <- <-]. cbn. rewrite E. rewrite bool_decide_eq_true_2 by reflexivity. reflexivity.
  - intros [= <- <-]. cbn. rewrite E. reflexivity.
Qed.

Lemma replay_app c es es' : replay c (es ++ es') = match replay c es with Some c1 => replay c1 es' | None => None end.
Proof.
  revert c. induction es as [|e es IH]; intros c; [reflexivity|]. cbn.
  destruct (replay1 c e); [apply IH|reflexivity].
Qed.

(** the events of a notification, replayed on the state before it, give the state after it *)
Theorem apply_rows_replay c l c' es ok : apply_rows c l = (c', es, ok) -> replay c es = Some c'.
Proof.
  revert c c' es ok. induction l as [|ch l IH]; intros c c' es ok; cbn.
  - intros [= <- <- <-]. reflexivity.
  - destruct (apply_row c ch) as [[c1 es1]|] eqn:E.
    + destruct (apply_rows c1 l) as [[c2 es2] ok2] eqn:E2. intros [= <- <- <-].
      rewrite replay_app, (apply_row_replay _ _ _ _ E). exact (IH _ _ _ _ E2).
    + intros [= <- <- <-]. reflexivity.
Qed.

(** ... and so does the whole log for any history, from any starting state (in particular from the empty cache) *)
Theorem history_replay c h c' es : apply_history c h = (c', es) -> replay c es = Some c'.
Proof.
  revert c c' es. induction h as [|n h IH]; intros c c' es; cbn.
  - intros [= <- <-]. reflexivity.
  - destruct (apply_rows c n) as [[c1 es1] ok] eqn:E1.
    destruct (apply_history c1 h) as [c2 es2] eqn:E2. intros [= <- <-].
    rewrite replay_app, (apply_rows_replay _ _ _ _ _ E1). exact (IH _ _ _ E2).
Qed.

(** every event is a real change: old and new differ, an add finds no row, a delete removes the row it names *)
Theorem events_are_changes c ch c' es e :
  apply_row c ch = Some (c', es) -> e ∈ es ->
  match e with
  | EvAdd t u n => tc_get c t !! u = None /\ tc_get c' t !! u = Some n
  | EvUpd t u o n => tc_get c t !! u = Some o /\ tc_get c' t !! u = Some n /\ o <> n
  | EvDel t u o => tc_get c t !! u = Some o /\ tc_get c' t !! u = None
  end.
Proof.
  destruct ch as [[[t u] ins] target]. unfold apply_row.
  assert (Hset : forall r, tc_get (tc_set c t u r) t !! u = r).
  { intros r. unfold tc_get, tc_set. rewrite lookup_insert. cbn.
    destruct r; [apply lookup_insert|apply lookup_delete]. }
  destruct (tc_get c t !! u) as [o|] eqn:E, target as [n|]; try discriminate.
  - destruct ins; [discriminate|]. destruct (bool_decide (o = n)) eqn:D; intros [= <- <-] Hin.
    + inversion Hin.
    + apply elem_of_list_singleton in Hin as ->. apply bool_decide_eq_false in D.
      split; [exact E|]. split; [apply Hset|exact D].
  - intros [= <- <-] Hin. apply elem_of_list_singleton in Hin as ->. split; [exact E|apply Hset].
  - intros [= <- <-] Hin. apply elem_of_list_singleton in Hin as ->. split; [exact E|apply Hset].
Qed.

(** a row that is not changed produces no event *)
Theorem no_event_without_change c t u r :
  tc_get c t !! u = Some r -> apply_row c (t, u, false, Some r) = Some (c, []).
Proof. intros E. unfold apply_row. rewrite E. rewrite bool_decide_eq_true_2 by reflexivity. reflexivity. Qed.

(** The buffer is FIFO: while nothing is dropped, what was delivered followed by what is still buffered is exactly
    what was enqueued, in that order, for every interleaving of the two goroutines. *)
Lemma qstep_inv cap s a pre :
  q_dropped s = 0%nat -> q_delivered s ++ q_buf s = pre ->
  q_dropped (qstep cap s a) = 0%nat ->
  q_delivered (qstep cap s a) ++ q_buf (qstep cap s a) = pre ++ match a with Enq e => [e] | Deq => [] end.
Proof.
  intros Hd Hpre. destruct s as [b dl dr]. cbn in Hd, Hpre. subst dr.
  destruct a as [e|]; unfold qstep; cbn [q_buf q_delivered q_dropped].
  - destruct (Nat.ltb (length b) cap); cbn [q_buf q_delivered q_dropped].
    + intros _. rewrite (app_assoc dl b [e]), Hpre. reflexivity.
    + discriminate.
  - destruct b as [|x b]; cbn [q_buf q_delivered q_dropped].
    + intros _. rewrite !app_nil_r in *. exact Hpre.
    + intros _. rewrite <- app_assoc. cbn. rewrite app_nil_r. exact Hpre.
Qed.

Lemma qstep_dropped_mono cap s a : (q_dropped s <= q_dropped (qstep cap s a))%nat.
Proof.
  destruct a as [e|]; unfold qstep.
  - destruct (Nat.ltb _ _); cbn [q_dropped]; lia.
  - destruct (q_buf s); cbn [q_dropped]; lia.
Qed.

Lemma fold_dropped_mono cap acts s : (q_dropped s <= q_dropped (fold_left (qstep cap) acts s))%nat.
Proof.
  revert s. induction acts as [|a acts IH]; intros s; cbn; [lia|].
  pose proof (qstep_dropped_mono cap s a). pose proof (IH (qstep cap s a)). lia.
Qed.

Lemma fifo_gen cap acts s pre :
  q_dropped s = 0%nat -> q_delivered s ++ q_buf s = pre ->
  q_dropped (fold_left (qstep cap) acts s) = 0%nat ->
  let s' := fold_left (qstep cap) acts s in
  q_delivered s' ++ q_buf s' = pre ++ enqueued acts.
Proof.
  revert s pre. induction acts as [|a acts IH]; intros s pre Hd Hpre Hfin; cbn.
  - rewrite app_nil_r. exact Hpre.
  - cbn in Hfin.
    assert (Hd1 : q_dropped (qstep cap s a) = 0%nat).
    { pose proof (fold_dropped_mono cap acts (qstep cap s a)). lia. }
    rewrite (IH (qstep cap s a) _ Hd1 (qstep_inv cap s a pre Hd Hpre Hd1) Hfin).
    rewrite <- app_assoc. destruct a; reflexivity.
Qed.

Theorem fifo_no_overflow cap acts :
  q_dropped (qrun cap acts) = 0%nat ->
  q_delivered (qrun cap acts) ++ q_buf (qrun cap acts) = enqueued acts.
Proof. intros H. exact (fifo_gen cap acts (mkQ [] [] 0) [] eq_refl eq_refl H). Qed.

(** every handler sees the same sequence *)
Theorem handlers_agree n s l1 l2 : l1 ∈ handler_logs n s -> l2 ∈ handler_logs n s -> l1 = l2.
Proof. unfold handler_logs. intros H1 H2. apply elem_of_replicate in H1 as [-> _]. apply elem_of_replicate in H2 as [-> _]. reflexivity. Qed.

(** the property: once the buffer is drained and nothing was dropped, each handler's log replayed on the empty
    table set reproduces the cache *)
Theorem drained_log_reproduces_cache cap h c es acts l n :
  apply_history ∅ h = (c, es) -> enqueued acts = es ->
  q_dropped (qrun cap acts) = 0%nat -> q_buf (qrun cap acts) = [] ->
  l ∈ handler_logs n (qrun cap acts) -> replay ∅ l = Some c.
Proof.
  intros Hh Henq Hd Hb Hl. apply elem_of_replicate in Hl as [-> _].
  pose proof (fifo_no_overflow cap acts Hd) as F. rewrite Hb, app_nil_r, Henq in F. rewrite F.
  exact (history_replay _ _ _ _ Hh).
Qed.

(** nothing is dropped while fewer events are outstanding than the buffer holds *)
Theorem no_drop_below_capacity cap s e :
  (length (q_buf s) < cap)%nat -> q_dropped (qstep cap s (Enq e)) = q_dropped s.
Proof.
  intros H. unfold qstep. destruct (Nat.ltb (length (q_buf s)) cap) eqn:E; [reflexivity|].
  apply Nat.ltb_ge in E. lia.
Qed.
