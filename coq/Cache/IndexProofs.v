From LOV Require Export Cache.Index.

(** * single index map *)
Lemma i_get_add k u m k' : i_get (i_add k u m) k' = if decide (k = k') then {[u]} ∪ i_get m k else i_get m k'.
Proof.
  unfold i_get, i_add. case_decide as Hk.
  - subst. rewrite lookup_insert. reflexivity.
  - rewrite lookup_insert_ne by exact Hk. reflexivity.
Qed.

Lemma i_get_rem k u m k' : i_get (i_rem k u m) k' = if decide (k = k') then i_get m k ∖ {[u]} else i_get m k'.
Proof.
  unfold i_rem. destruct (decide (i_get m k ∖ {[u]} = ∅)) as [He|He]; destruct (decide (k = k')) as [<-|Hk].
  - unfold i_get at 1. rewrite lookup_delete. simpl. symmetry. exact He.
  - unfold i_get at 1. rewrite lookup_delete_ne by exact Hk. reflexivity.
  - unfold i_get at 1. rewrite lookup_insert. reflexivity.
  - unfold i_get at 1. rewrite lookup_insert_ne by exact Hk. reflexivity.
Qed.

Definition no_empty (m : idx1) : Prop := forall k, m !! k <> Some ∅.

Lemma no_empty_add k u m : no_empty m -> no_empty (i_add k u m).
Proof.
  intros H k'. unfold i_add. destruct (decide (k = k')) as [->|Hk].
  - rewrite lookup_insert. intros [= He]. set_solver.
  - rewrite lookup_insert_ne by exact Hk. apply H.
Qed.

Lemma no_empty_rem k u m : no_empty m -> no_empty (i_rem k u m).
Proof.
  intros H k'. unfold i_rem. case_decide as He.
  - destruct (decide (k = k')) as [->|Hk].
    + rewrite lookup_delete. discriminate.
    + rewrite lookup_delete_ne by exact Hk. apply H.
  - destruct (decide (k = k')) as [->|Hk].
    + rewrite lookup_insert. intros [= He']. apply He. exact He'.
    + rewrite lookup_insert_ne by exact Hk. apply H.
Qed.

(** * the invariant: every index map is exactly the grouping of the rows by
    the index key, and holds no empty entry *)
Definition Inv1 (T : table) (rows : gmap sym (gmap sym value)) (s : ispec) (m : idx1) : Prop :=
  no_empty m /\
  forall k u, u ∈ i_get m k <-> exists r, rows !! u = Some r /\ K T s r = k.

Definition Inv (T : table) (specs : list ispec) (c : rc) : Prop :=
  Forall2 (Inv1 T (rc_rows c)) specs (rc_idx c).

Lemma Forall2_zip_with_r {A B} (P Q : A -> B -> Prop) (f : A -> B -> B) l1 l2 :
  Forall2 P l1 l2 -> (forall a b, P a b -> Q a (f a b)) -> Forall2 Q l1 (zip_with f l1 l2).
Proof.
  induction 1 as [|a b l1 l2 Hab _ IH]; intros Hf; simpl; constructor; auto.
Qed.

Lemma Forall2_and_l {A B} (P : A -> Prop) (Q : A -> B -> Prop) l1 l2 :
  Forall P l1 -> Forall2 Q l1 l2 -> Forall2 (fun a b => P a /\ Q a b) l1 l2.
Proof.
  intros HP HQ. revert HP. induction HQ as [|a b l1 l2 Hab _ IH]; intros HP; constructor.
  - split; [apply (Forall_inv HP)|exact Hab].
  - apply IH. exact (Forall_inv_tail HP).
Qed.

Lemma Inv_empty T specs : Inv T specs (rc_empty specs).
Proof.
  unfold Inv, rc_empty. simpl. induction specs as [|s specs IH]; simpl; constructor; [|exact IH].
  split.
  - intros k. rewrite lookup_empty. discriminate.
  - intros k u. unfold i_get. rewrite lookup_empty. simpl. split; [set_solver|].
    intros (r & Hr & _). rewrite lookup_empty in Hr. discriminate.
Qed.

Lemma Inv1_create T rows s m u r :
  rows !! u = None -> Inv1 T rows s m -> Inv1 T (<[u := r]> rows) s (i_add (K T s r) u m).
Proof.
  intros Hu [Hne Hm]. split; [apply no_empty_add; exact Hne|].
  intros k u'. rewrite i_get_add. case_decide as Hk.
  - subst k. rewrite elem_of_union, elem_of_singleton, Hm. split.
    + intros [->|(r' & Hr' & HK)].
      * exists r. rewrite lookup_insert. auto.
      * exists r'. destruct (decide (u = u')) as [->|Hne']; [congruence|].
        rewrite lookup_insert_ne by exact Hne'. auto.
    + intros (r' & Hr' & HK). destruct (decide (u = u')) as [->|Hne']; [left; reflexivity|].
      rewrite lookup_insert_ne in Hr' by exact Hne'. right. eauto.
  - rewrite Hm. split.
    + intros (r' & Hr' & HK). exists r'. destruct (decide (u = u')) as [->|Hne']; [congruence|].
      rewrite lookup_insert_ne by exact Hne'. auto.
    + intros (r' & Hr' & HK). destruct (decide (u = u')) as [->|Hne'].
      * rewrite lookup_insert in Hr'. congruence.
      * rewrite lookup_insert_ne in Hr' by exact Hne'. eauto.
Qed.

Lemma Inv1_delete T rows s m u old :
  rows !! u = Some old -> Inv1 T rows s m -> Inv1 T (delete u rows) s (i_rem (K T s old) u m).
Proof.
  intros Hu [Hne Hm]. split; [apply no_empty_rem; exact Hne|].
  intros k u'. rewrite i_get_rem. case_decide as Hk.
  - subst k. rewrite elem_of_difference, elem_of_singleton, Hm. split.
    + intros [(r' & Hr' & HK) Hneq]. exists r'. rewrite lookup_delete_ne by congruence. auto.
    + intros (r' & Hr' & HK). destruct (decide (u = u')) as [->|Hne'].
      * rewrite lookup_delete in Hr'. discriminate.
      * rewrite lookup_delete_ne in Hr' by exact Hne'. split; [eauto|congruence].
  - rewrite Hm. split.
    + intros (r' & Hr' & HK). exists r'. destruct (decide (u = u')) as [->|Hne']; [congruence|].
      rewrite lookup_delete_ne by exact Hne'. auto.
    + intros (r' & Hr' & HK). destruct (decide (u = u')) as [->|Hne'].
      * rewrite lookup_delete in Hr'. discriminate.
      * rewrite lookup_delete_ne in Hr' by exact Hne'. eauto.
Qed.

Lemma Inv1_update T rows s m u old r :
  rows !! u = Some old -> Inv1 T rows s m ->
  Inv1 T (<[u := r]> rows) s (if decide (K T s old = K T s r) then m else i_rem (K T s old) u (i_add (K T s r) u m)).
Proof.
  intros Hu [Hne Hm]. case_decide as HKeq.
  - split; [exact Hne|]. intros k u'. rewrite Hm. split.
    + intros (r' & Hr' & HK). destruct (decide (u = u')) as [->|Hne'].
      * exists r. rewrite lookup_insert. split; [reflexivity|]. congruence.
      * exists r'. rewrite lookup_insert_ne by exact Hne'. auto.
    + intros (r' & Hr' & HK). destruct (decide (u = u')) as [->|Hne'].
      * rewrite lookup_insert in Hr'. exists old. split; [exact Hu|]. congruence.
      * rewrite lookup_insert_ne in Hr' by exact Hne'. eauto.
  - split; [apply no_empty_rem, no_empty_add; exact Hne|].
    intros k u'. rewrite i_get_rem.
    destruct (decide (K T s old = k)) as [Hko|Hko].
    + (* the old key: u leaves *)
      subst k. rewrite elem_of_difference, elem_of_singleton, i_get_add.
      rewrite decide_False by congruence. rewrite Hm. split.
      * intros [(r' & Hr' & HK) Hneq]. exists r'. rewrite lookup_insert_ne by congruence. auto.
      * intros (r' & Hr' & HK). destruct (decide (u = u')) as [->|Hne'].
        -- rewrite lookup_insert in Hr'. congruence.
        -- rewrite lookup_insert_ne in Hr' by exact Hne'. split; [eauto|congruence].
    + rewrite i_get_add. destruct (decide (K T s r = k)) as [Hkn|Hkn].
      * (* the new key: u joins *)
        subst k. rewrite elem_of_union, elem_of_singleton, Hm. split.
        -- intros [->|(r' & Hr' & HK)].
           ++ exists r. rewrite lookup_insert. auto.
           ++ destruct (decide (u = u')) as [->|Hne'].
              ** exists r. rewrite lookup_insert. auto.
              ** exists r'. rewrite lookup_insert_ne by exact Hne'. auto.
        -- intros (r' & Hr' & HK). destruct (decide (u = u')) as [->|Hne']; [left; reflexivity|].
           rewrite lookup_insert_ne in Hr' by exact Hne'. right. eauto.
      * rewrite Hm. split.
        -- intros (r' & Hr' & HK). destruct (decide (u = u')) as [->|Hne'].
           ++ congruence.
           ++ exists r'. rewrite lookup_insert_ne by exact Hne'. auto.
        -- intros (r' & Hr' & HK). destruct (decide (u = u')) as [->|Hne'].
           ++ rewrite lookup_insert in Hr'. congruence.
           ++ rewrite lookup_insert_ne in Hr' by exact Hne'. eauto.
Qed.

(** no other row currently owns the value [r] has under a schema index *)
Definition fresh (T : table) (rows : gmap sym (gmap sym value)) (u : sym) (r : row) (s : ispec) : Prop :=
  i_schema s = true -> forall u' r', rows !! u' = Some r' -> K T s r' = K T s r -> u' = u.

Lemma i_put_add T rows s m u r :
  Inv1 T rows s m -> fresh T rows u r s -> i_put (i_schema s) (K T s r) u m = i_add (K T s r) u m.
Proof.
  intros [_ Hm] Hf. unfold i_put, i_add. destruct (i_schema s) eqn:Hs; [|reflexivity].
  f_equal. apply leibniz_equiv. intros x. rewrite elem_of_union, elem_of_singleton. split; [auto|].
  intros [Hx|Hx]; [exact Hx|]. apply Hm in Hx as (r' & Hr' & HK). eapply Hf; eauto.
Qed.

Lemma Inv1_create_put T rows s m u r :
  rows !! u = None -> fresh T rows u r s -> Inv1 T rows s m ->
  Inv1 T (<[u := r]> rows) s (i_put (i_schema s) (K T s r) u m).
Proof. intros Hu Hf HI. rewrite (i_put_add T rows) by assumption. apply Inv1_create; assumption. Qed.

Lemma Inv1_update_put T rows s m u old r :
  rows !! u = Some old -> fresh T rows u r s -> Inv1 T rows s m ->
  Inv1 T (<[u := r]> rows) s
       (if decide (K T s old = K T s r) then m else i_rem (K T s old) u (i_put (i_schema s) (K T s r) u m)).
Proof.
  intros Hu Hf HI. rewrite (i_put_add T rows) by assumption.
  exact (Inv1_update T rows s m u old r Hu HI).
Qed.

Lemma create_inv T specs chk c u r c' :
  Inv T specs c -> Forall (fresh T (rc_rows c) u r) specs ->
  rc_create T specs chk c u r = COk c' -> Inv T specs c'.
Proof.
  unfold rc_create, Inv. intros HI Hf. destruct (rc_rows c !! u) eqn:Hu; [discriminate|].
  destruct (chk && _); [discriminate|]. intros [= <-]. simpl.
  eapply Forall2_zip_with_r; [exact (Forall2_and_l _ _ _ _ Hf HI)|].
  intros s m [Hfs HIs]. apply Inv1_create_put; assumption.
Qed.

Lemma update_inv T specs chk c u r c' :
  Inv T specs c -> Forall (fresh T (rc_rows c) u r) specs ->
  rc_update T specs chk c u r = COk c' -> Inv T specs c'.
Proof.
  unfold rc_update, Inv. intros HI Hf. destruct (rc_rows c !! u) as [old|] eqn:Hu; [|discriminate].
  destruct (chk && _); [discriminate|]. intros [= <-]. simpl.
  eapply Forall2_zip_with_r; [exact (Forall2_and_l _ _ _ _ Hf HI)|].
  intros s m [Hfs HIs]. unfold upd_idx. apply Inv1_update_put; assumption.
Qed.

Lemma delete_inv T specs c u c' :
  Inv T specs c -> rc_delete T specs c u = COk c' -> Inv T specs c'.
Proof.
  unfold rc_delete, Inv. intros HI. destruct (rc_rows c !! u) as [old|] eqn:Hu; [|discriminate].
  intros [= <-]. simpl.
  eapply Forall2_zip_with_r; [exact HI|]. intros s m. apply Inv1_delete. exact Hu.
Qed.

(** the change does not create a (transient) duplicate on a schema index *)
Definition ch_fresh (T : table) (specs : list ispec) (rows : gmap sym (gmap sym value)) (ch : change) : Prop :=
  match ch_new ch with
  | Some n => Forall (fresh T rows (ch_uuid ch) n) specs
  | None => True
  end.

Lemma apply_change_inv T specs c ch c' :
  Inv T specs c -> ch_fresh T specs (rc_rows c) ch ->
  apply_change T specs c ch = COk c' -> Inv T specs c'.
Proof.
  unfold apply_change, ch_fresh. intros HI Hf.
  destruct (ch_old ch), (ch_new ch); eauto using create_inv, update_inv, delete_inv.
Qed.

(** * batches in any order *)

(** a change is applicable to the rows: creations hit absent UUIDs, updates
    and deletions present ones *)
Definition ch_ok (rows : gmap sym (gmap sym value)) (ch : change) : Prop :=
  match ch_old ch, ch_new ch with
  | None, Some _ => rows !! ch_uuid ch = None
  | _, _ => is_Some (rows !! ch_uuid ch)
  end.

Definition ch_rows (rows : gmap sym (gmap sym value)) (ch : change) : gmap sym (gmap sym value) :=
  match ch_new ch with
  | Some n => <[ch_uuid ch := n]> rows
  | None => delete (ch_uuid ch) rows
  end.

Lemma apply_change_rows T specs c ch :
  ch_ok (rc_rows c) ch ->
  exists c', apply_change T specs c ch = COk c' /\ rc_rows c' = ch_rows (rc_rows c) ch.
Proof.
  unfold ch_ok, apply_change, ch_rows, rc_create, rc_update, rc_delete.
  destruct (ch_old ch), (ch_new ch); simpl; intros H.
  - destruct H as [o Ho]. rewrite Ho. eexists; split; reflexivity.
  - destruct H as [o Ho]. rewrite Ho. eexists; split; reflexivity.
  - rewrite H. eexists; split; reflexivity.
  - destruct H as [o Ho]. rewrite Ho. eexists; split; reflexivity.
Qed.

(** the rows after a batch, pointwise: independent of the order *)
Definition rows_after (rows : gmap sym (gmap sym value)) (b : list change) : gmap sym (gmap sym value) :=
  foldl ch_rows rows b.

Lemma ch_rows_lookup_ne rows ch u : u <> ch_uuid ch -> ch_rows rows ch !! u = rows !! u.
Proof.
  intros Hne. unfold ch_rows. destruct (ch_new ch).
  - rewrite lookup_insert_ne by congruence. reflexivity.
  - rewrite lookup_delete_ne by congruence. reflexivity.
Qed.

Lemma rows_after_lookup_notin b : forall rows u,
  u ∉ (ch_uuid <$> b) -> rows_after rows b !! u = rows !! u.
Proof.
  induction b as [|ch b IH]; intros rows u Hu; [reflexivity|].
  simpl in *. rewrite not_elem_of_cons in Hu. destruct Hu as [Hne Hu].
  unfold rows_after in *. simpl. rewrite IH by exact Hu. apply ch_rows_lookup_ne. exact Hne.
Qed.

Lemma rows_after_lookup_in b : forall rows ch,
  NoDup (ch_uuid <$> b) -> ch ∈ b -> rows_after rows b !! ch_uuid ch = ch_new ch.
Proof.
  induction b as [|c0 b IH]; intros rows ch Hnd Hin; [inversion Hin|].
  simpl in Hnd. apply NoDup_cons in Hnd as [Hc0 Hnd].
  apply elem_of_cons in Hin as [->|Hin].
  - unfold rows_after. simpl. fold (rows_after (ch_rows rows c0) b).
    rewrite rows_after_lookup_notin by exact Hc0.
    unfold ch_rows. destruct (ch_new c0).
    + apply lookup_insert.
    + apply lookup_delete.
  - unfold rows_after. simpl. apply IH; assumption.
Qed.

Lemma rows_after_perm rows b p :
  NoDup (ch_uuid <$> b) -> p ≡ₚ b -> rows_after rows p = rows_after rows b.
Proof.
  intros Hnd Hp. apply map_eq. intros u.
  assert (Hndp : NoDup (ch_uuid <$> p)) by (rewrite Hp; exact Hnd).
  destruct (decide (u ∈ (ch_uuid <$> b))) as [Hin|Hnin].
  - apply elem_of_list_fmap in Hin as (ch & -> & Hch).
    rewrite (rows_after_lookup_in b) by assumption.
    rewrite (rows_after_lookup_in p); [reflexivity|exact Hndp|rewrite Hp; exact Hch].
  - rewrite (rows_after_lookup_notin b) by exact Hnin.
    rewrite (rows_after_lookup_notin p); [reflexivity|rewrite Hp; exact Hnin].
Qed.

Lemma apply_batch_ok T specs : forall b c,
  NoDup (ch_uuid <$> b) -> Forall (ch_ok (rc_rows c)) b ->
  exists c', apply_batch T specs c b = COk c' /\ rc_rows c' = rows_after (rc_rows c) b.
Proof.
  induction b as [|ch b IH]; intros c Hnd Hok; simpl.
  - eexists; split; reflexivity.
  - apply NoDup_cons in Hnd as [Hch Hnd]. apply Forall_cons in Hok as [Hok1 Hok].
    destruct (apply_change_rows T specs c ch Hok1) as (c1 & E1 & R1). rewrite E1.
    destruct (IH c1 Hnd) as (c' & E & R).
    + rewrite R1. eapply Forall_impl; [apply Forall_forall; intros x Hx; exact (conj Hx (proj1 (Forall_forall _ _) Hok x Hx))|].
      intros x [Hx Hokx]. unfold ch_ok in *.
      assert (Hne : ch_uuid x <> ch_uuid ch).
      { intros Heq. apply Hch. rewrite <- Heq. apply elem_of_list_fmap. eauto. }
      rewrite ch_rows_lookup_ne by exact Hne. exact Hokx.
    + exists c'. split; [exact E|]. rewrite R, R1. reflexivity.
Qed.

(** no step of the batch, in this order, creates a transient duplicate on a
    schema index *)
Fixpoint batch_fresh (T : table) (specs : list ispec) (rows : gmap sym (gmap sym value)) (p : list change) : Prop :=
  match p with
  | [] => True
  | ch :: p' => ch_fresh T specs rows ch /\ batch_fresh T specs (ch_rows rows ch) p'
  end.

Lemma fresh_client T rows u r s : i_schema s = false -> fresh T rows u r s.
Proof. unfold fresh. congruence. Qed.

Lemma batch_fresh_client T specs : Forall (fun s => i_schema s = false) specs ->
  forall p rows, batch_fresh T specs rows p.
Proof.
  intros Hc. induction p as [|ch p IH]; intros rows; simpl; [exact I|]. split; [|apply IH].
  unfold ch_fresh. destruct (ch_new ch); [|exact I].
  eapply Forall_impl; [exact Hc|]. intros s Hs. apply fresh_client. exact Hs.
Qed.

Theorem apply_batch_inv T specs : forall b c c',
  Inv T specs c -> Forall (ch_ok (rc_rows c)) b -> NoDup (ch_uuid <$> b) ->
  batch_fresh T specs (rc_rows c) b ->
  apply_batch T specs c b = COk c' -> Inv T specs c'.
Proof.
  induction b as [|ch b IH]; intros c c' HI Hok Hnd Hf; simpl.
  - intros [= <-]. exact HI.
  - apply Forall_cons in Hok as [Hok1 Hok]. apply NoDup_cons in Hnd as [Hch Hnd]. destruct Hf as [Hf1 Hf].
    destruct (apply_change_rows T specs c ch Hok1) as (c1 & E1 & R1). rewrite E1.
    intros H. eapply (IH c1); [| | exact Hnd | rewrite R1; exact Hf | exact H].
    + eapply apply_change_inv; eassumption.
    + rewrite R1. apply Forall_forall. intros x Hx. pose proof (proj1 (Forall_forall _ _) Hok x Hx) as Hokx.
      unfold ch_ok in *.
      assert (Hne : ch_uuid x <> ch_uuid ch).
      { intros Heq. apply Hch. rewrite <- Heq. apply elem_of_list_fmap. eauto. }
      rewrite ch_rows_lookup_ne by exact Hne. exact Hokx.
Qed.

(** C05, batch form: a batch of changes to distinct rows, each applicable to
    the cache, applies in every order and ends in the same rows; the indexes
    agree with those rows for every order in which no step creates a transient
    duplicate on a schema index — in particular for every order when only
    client indexes are configured ([batch_any_order_client]).  The remaining
    orders (a schema-indexed value handed from one row to another inside the
    batch, taker applied first) are covered by the correspondence check and by
    [index_handover_example]; the general theorem for them is not yet proved. *)
Theorem batch_any_order_inv_partial T specs c b :
  Inv T specs c -> NoDup (ch_uuid <$> b) -> Forall (ch_ok (rc_rows c)) b ->
  forall p, p ≡ₚ b -> batch_fresh T specs (rc_rows c) p ->
  exists c', apply_batch T specs c p = COk c' /\ Inv T specs c' /\ rc_rows c' = rows_after (rc_rows c) b.
Proof.
  intros HI Hnd Hok p Hp Hf.
  destruct (apply_batch_ok T specs p c) as (c' & E & R).
  - rewrite Hp. exact Hnd.
  - rewrite Hp. exact Hok.
  - exists c'. split; [exact E|]. split.
    + eapply apply_batch_inv; [exact HI| | |exact Hf|exact E].
      * rewrite Hp. exact Hok.
      * rewrite Hp. exact Hnd.
    + rewrite R. apply rows_after_perm; assumption.
Qed.

Corollary batch_any_order_client T specs c b :
  Forall (fun s => i_schema s = false) specs ->
  Inv T specs c -> NoDup (ch_uuid <$> b) -> Forall (ch_ok (rc_rows c)) b ->
  forall p, p ≡ₚ b ->
  exists c', apply_batch T specs c p = COk c' /\ Inv T specs c' /\ rc_rows c' = rows_after (rc_rows c) b.
Proof.
  intros Hc HI Hnd Hok p Hp. eapply batch_any_order_inv_partial; eauto.
  apply batch_fresh_client. exact Hc.
Qed.

(** * lookups are scans *)
Lemma elem_of_scan T s rows k u : u ∈ scan T s rows k <-> exists r, rows !! u = Some r /\ K T s r = k.
Proof.
  unfold scan. rewrite elem_of_dom. split.
  - intros [r Hr]. apply map_filter_lookup_Some in Hr as [Hr HK]. eauto.
  - intros (r & Hr & HK). exists r. apply map_filter_lookup_Some. auto.
Qed.

Theorem index_lookup_is_scan T specs c i s m k :
  Inv T specs c -> specs !! i = Some s -> rc_idx c !! i = Some m ->
  i_get m k = scan T s (rc_rows c) k.
Proof.
  intros HI Hs Hm. pose proof (Forall2_lookup_lr _ _ _ _ _ _ HI Hs Hm) as [_ H].
  apply set_eq. intros u. rewrite H, elem_of_scan. reflexivity.
Qed.

(** an index entry exists exactly for the values some cached row has *)
Theorem index_entry_iff T specs c i s m k :
  Inv T specs c -> specs !! i = Some s -> rc_idx c !! i = Some m ->
  (is_Some (m !! k) <-> exists u r, rc_rows c !! u = Some r /\ K T s r = k).
Proof.
  intros HI Hs Hm. pose proof (Forall2_lookup_lr _ _ _ _ _ _ HI Hs Hm) as [Hne H].
  split.
  - intros [us Hus]. destruct (set_choose_or_empty us) as [[u Hu]|He].
    + exists u. apply H. unfold i_get. rewrite Hus. exact Hu.
    + exfalso. apply (Hne k). rewrite Hus. f_equal. apply leibniz_equiv. exact He.
  - intros (u & r & Hr & HK). assert (Hu : u ∈ i_get m k) by (apply H; eauto).
    unfold i_get in Hu. destruct (m !! k); [eauto|]. simpl in Hu. set_solver.
Qed.

(** IndexExists / checkIndexes: with the invariant, "conflicts" says exactly
    that another row has the same value on some schema index *)
Theorem conflicts_iff T specs c u r :
  Inv T specs c ->
  conflicts T specs (rc_idx c) u r = true <->
  exists i s, specs !! i = Some s /\ i_schema s = true /\
              exists u' r', u' <> u /\ rc_rows c !! u' = Some r' /\ K T s r' = K T s r.
Proof.
  intros HI. unfold conflicts. rewrite existsb_exists. split.
  - intros ([s m] & Hin & Hc). apply elem_of_list_In, elem_of_list_lookup in Hin as [i Hi].
    apply lookup_zip_with_Some in Hi as (s' & m' & [= <- <-] & Hs & Hm).
    pose proof (Forall2_lookup_lr _ _ _ _ _ _ HI Hs Hm) as [_ H].
    apply andb_true_iff in Hc as [Hsch Hc]. apply andb_true_iff in Hc as [Hne1 Hne2].
    apply negb_true_iff, bool_decide_eq_false in Hne1, Hne2.
    exists i, s. split; [exact Hs|]. split; [exact Hsch|].
    assert (Hex : exists u', u' ∈ i_get m (K T s r) /\ u' <> u).
    { destruct (set_choose_or_empty (i_get m (K T s r) ∖ {[u]})) as [[u2 Hu2]|He].
      - exists u2. set_solver.
      - exfalso. destruct (set_choose_or_empty (i_get m (K T s r))) as [[u1 Hu1]|He1].
        + apply Hne2. apply leibniz_equiv. intros x. rewrite elem_of_singleton. split.
          * intros Hx. destruct (decide (x = u)) as [|Hxu]; [assumption|]. exfalso.
            assert (Hin : x ∈ i_get m (K T s r) ∖ {[u]}) by set_solver. rewrite He in Hin. set_solver.
          * intros ->. destruct (decide (u1 = u)) as [<-|Hxu]; [exact Hu1|]. exfalso.
            assert (Hin : u1 ∈ i_get m (K T s r) ∖ {[u]}) by set_solver. rewrite He in Hin. set_solver.
        + apply Hne1. apply leibniz_equiv. exact He1. }
    destruct Hex as (u' & Hu' & Hne). apply (proj1 (H _ _)) in Hu'. destruct Hu' as (r' & Hr' & HK). eauto 10.
  - intros (i & s & Hs & Hsch & u' & r' & Hne & Hr' & HK).
    destruct (Forall2_lookup_l _ _ _ _ _ HI Hs) as (m & Hm & [_ H]).
    exists (s, m). split.
    + apply elem_of_list_In, elem_of_list_lookup. exists i.
      apply lookup_zip_with_Some. eauto 10.
    + rewrite Hsch. simpl.
      assert (Hu' : u' ∈ i_get m (K T s r)) by (apply H; eauto).
      apply andb_true_iff. split; apply negb_true_iff, bool_decide_eq_false; intros He; rewrite He in Hu'; set_solver.
Qed.
