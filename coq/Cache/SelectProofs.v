(** C08: RowsByCondition (pre-filter through indexes + explicit evaluation)
    returns exactly the rows satisfying every condition, whatever indexes
    exist. *)
From LOV Require Export Cache.Select Cache.IndexProofs.

(** the rows satisfying all conditions *)
Definition F (c : rc) (cs : list cond) : gset sym := dom (filter_rows (rc_rows c) cs).

Lemma elem_of_F c cs u :
  u ∈ F c cs <-> exists r, rc_rows c !! u = Some r /\ row_matches u r cs = true.
Proof.
  unfold F, filter_rows. rewrite elem_of_dom. split.
  - intros [r Hr]. apply map_filter_lookup_Some in Hr as [Hr Hm]. eauto.
  - intros (r & Hr & Hm). exists r. apply map_filter_lookup_Some. auto.
Qed.

Lemma F_nil c : F c [] = dom (rc_rows c).
Proof.
  apply set_eq. intros u. rewrite elem_of_F, elem_of_dom. split.
  - intros (r & Hr & _). eauto.
  - intros [r Hr]. eauto.
Qed.

Lemma F_cons c cd cs u :
  u ∈ F c (cd :: cs) <-> (exists r, rc_rows c !! u = Some r /\ eval_cond_row u r cd = true) /\ u ∈ F c cs.
Proof.
  rewrite !elem_of_F. simpl. split.
  - intros (r & Hr & Hm). apply andb_true_iff in Hm as [H1 H2]. eauto 10.
  - intros [(r & Hr & H1) (r' & Hr' & H2)]. assert (r' = r) by congruence. subst.
    exists r. split; [exact Hr|]. apply andb_true_iff. auto.
Qed.

(** * the explicit pass *)

Lemma isect_default a b : default ∅ (isect a b) = a ∩ b.
Proof.
  unfold isect. destruct (bool_decide (a = ∅)) eqn:Ha; simpl.
  - apply bool_decide_eq_true in Ha. subst. set_solver.
  - destruct (bool_decide (b = ∅)) eqn:Hb; simpl; [|reflexivity].
    apply bool_decide_eq_true in Hb. subst. set_solver.
Qed.

(** [match_cond] on a pool yields the pool's rows satisfying the condition —
    after intersecting with the pool, for the [_uuid] shortcut *)
Lemma match_cond_spec c cd M u :
  u ∈ M ∩ match_cond c cd (Some M) <->
  u ∈ M /\ exists r, rc_rows c !! u = Some r /\ eval_cond_row u r cd = true.
Proof.
  destruct cd as [[col f] arg]. unfold match_cond.
  destruct (N.eqb col ucol && (bool_decide (f = CEq) || bool_decide (f = CIncludes))) eqn:Hsc.
  - apply andb_true_iff in Hsc as [Hc Hf]. apply N.eqb_eq in Hc. subst col.
    assert (Hev : forall r, eval_cond_row u r (ucol, f, arg) = bool_decide (VAtom (AUuid u) = arg)).
    { intros r. unfold eval_cond_row, row_col. rewrite N.eqb_refl.
      apply orb_true_iff in Hf as [Hf|Hf]; apply bool_decide_eq_true in Hf; subst f; simpl; [reflexivity|].
      destruct arg as [a| | |]; simpl; try reflexivity.
      apply bool_decide_ext. split; congruence. }
    rewrite elem_of_intersection. split.
    + intros [HM Hu]. split; [exact HM|].
      destruct arg as [[| | | |u']| | |]; try set_solver.
      case_decide as Hin; [|set_solver]. apply elem_of_singleton in Hu. subst u'.
      destruct Hin as [r Hr]. exists r. split; [exact Hr|]. rewrite Hev. apply bool_decide_eq_true. reflexivity.
    + intros [HM (r & Hr & He)]. split; [exact HM|]. rewrite Hev in He. apply bool_decide_eq_true in He. subst arg.
      rewrite decide_True by eauto. set_solver.
  - rewrite elem_of_intersection, elem_of_filter. split.
    + intros [HM [He _]]. split; [exact HM|]. destruct (rc_rows c !! u) as [r|]; [eauto|discriminate].
    + intros [HM (r & Hr & He)]. split; [exact HM|]. split; [|exact HM]. rewrite Hr. exact He.
Qed.

Lemma match_cond_spec_none c cd u :
  u ∈ match_cond c cd None <-> exists r, rc_rows c !! u = Some r /\ eval_cond_row u r cd = true.
Proof.
  destruct cd as [[col f] arg]. unfold match_cond.
  destruct (N.eqb col ucol && (bool_decide (f = CEq) || bool_decide (f = CIncludes))) eqn:Hsc.
  - apply andb_true_iff in Hsc as [Hc Hf]. apply N.eqb_eq in Hc. subst col.
    assert (Hev : forall r, eval_cond_row u r (ucol, f, arg) = bool_decide (VAtom (AUuid u) = arg)).
    { intros r. unfold eval_cond_row, row_col. rewrite N.eqb_refl.
      apply orb_true_iff in Hf as [Hf|Hf]; apply bool_decide_eq_true in Hf; subst f; simpl; [reflexivity|].
      destruct arg as [a| | |]; simpl; try reflexivity.
      apply bool_decide_ext. split; congruence. }
    split.
    + intros Hu. destruct arg as [[| | | |u']| | |]; try set_solver.
      case_decide as Hin; [|set_solver]. apply elem_of_singleton in Hu. subst u'.
      destruct Hin as [r Hr]. exists r. split; [exact Hr|]. rewrite Hev. apply bool_decide_eq_true. reflexivity.
    + intros (r & Hr & He). rewrite Hev in He. apply bool_decide_eq_true in He. subst arg.
      rewrite decide_True by eauto. set_solver.
  - rewrite elem_of_filter, elem_of_dom. split.
    + intros [He _]. destruct (rc_rows c !! u) as [r|]; [eauto|discriminate].
    + intros (r & Hr & He). split; [rewrite Hr; exact He|eauto].
Qed.

Lemma explicit_loop_some_sub c : forall cs M, M ⊆ dom (rc_rows c) ->
  default ∅ (explicit_loop c cs (Some M)) = M ∩ F c cs.
Proof.
  induction cs as [|cd cs IH]; intros M HM; simpl.
  - rewrite F_nil. set_solver.
  - set (mc := match_cond c cd (Some M)).
    assert (Hspec : forall u, u ∈ M ∩ mc <-> u ∈ M /\ exists r, rc_rows c !! u = Some r /\ eval_cond_row u r cd = true)
      by (intros u; apply match_cond_spec).
    destruct (isect M mc) as [mt|] eqn:Hi.
    + assert (Hmt : mt = M ∩ mc) by (rewrite <- isect_default, Hi; reflexivity).
      destruct (bool_decide (mt = ∅)) eqn:He.
      * apply bool_decide_eq_true in He. simpl. apply set_eq. intros u. rewrite He.
        rewrite elem_of_intersection, F_cons. split; [set_solver|].
        intros [HuM [Hcd _]]. assert (u ∈ M ∩ mc) by (apply Hspec; auto). rewrite <- Hmt, He in H. exact H.
      * rewrite IH.
        -- apply set_eq. intros u. rewrite Hmt, !elem_of_intersection, F_cons.
           rewrite <- elem_of_intersection, Hspec. tauto.
        -- rewrite Hmt. set_solver.
    + simpl. assert (Hem : M ∩ mc = ∅) by (rewrite <- isect_default, Hi; reflexivity).
      apply set_eq. intros u. rewrite elem_of_intersection, F_cons. split; [set_solver|].
      intros [HuM [Hcd _]]. assert (H : u ∈ M ∩ mc) by (apply Hspec; auto). rewrite Hem in H. exact H.
Qed.

Lemma explicit_loop_some c cd cs M :
  default ∅ (explicit_loop c (cd :: cs) (Some M)) = M ∩ F c (cd :: cs).
Proof.
  simpl. set (mc := match_cond c cd (Some M)).
  assert (Hspec : forall u, u ∈ M ∩ mc <-> u ∈ M /\ exists r, rc_rows c !! u = Some r /\ eval_cond_row u r cd = true)
    by (intros u; apply match_cond_spec).
  destruct (isect M mc) as [mt|] eqn:Hi.
  - assert (Hmt : mt = M ∩ mc) by (rewrite <- isect_default, Hi; reflexivity).
    destruct (bool_decide (mt = ∅)) eqn:He.
    + apply bool_decide_eq_true in He. simpl. apply set_eq. intros u. rewrite He.
      rewrite elem_of_intersection, F_cons. split; [set_solver|].
      intros [HuM [Hcd _]]. assert (u ∈ M ∩ mc) by (apply Hspec; auto). rewrite <- Hmt, He in H. exact H.
    + rewrite explicit_loop_some_sub.
      * apply set_eq. intros u. rewrite Hmt, !elem_of_intersection, F_cons.
        rewrite <- elem_of_intersection, Hspec. tauto.
      * rewrite Hmt. intros u Hu. apply Hspec in Hu as [_ (r & Hr & _)]. apply elem_of_dom. eauto.
  - simpl. assert (Hem : M ∩ mc = ∅) by (rewrite <- isect_default, Hi; reflexivity).
    apply set_eq. intros u. rewrite elem_of_intersection, F_cons. split; [set_solver|].
    intros [HuM [Hcd _]]. assert (H : u ∈ M ∩ mc) by (apply Hspec; auto). rewrite Hem in H. exact H.
Qed.

Lemma explicit_loop_none c cd cs :
  default ∅ (explicit_loop c (cd :: cs) None) = F c (cd :: cs).
Proof.
  simpl. set (mc := match_cond c cd None).
  assert (Hspec : forall u, u ∈ mc <-> exists r, rc_rows c !! u = Some r /\ eval_cond_row u r cd = true)
    by (intros u; apply match_cond_spec_none).
  destruct (bool_decide (mc = ∅)) eqn:He.
  - apply bool_decide_eq_true in He. simpl. rewrite He. apply set_eq. intros u. rewrite F_cons.
    split; [set_solver|]. intros [Hcd _]. apply Hspec in Hcd. rewrite He in Hcd. exact Hcd.
  - rewrite explicit_loop_some_sub.
    + apply set_eq. intros u. rewrite elem_of_intersection, F_cons, Hspec. tauto.
    + intros u Hu. apply Hspec in Hu as (r & Hr & _). apply elem_of_dom. eauto.
Qed.

(** * the pre-filter only ever returns supersets of the answer *)

Definition superset (c : rc) (cs : list cond) (m : option (gset sym)) : Prop :=
  match m with Some M => F c cs ⊆ M | None => True end.


(** what an indexable condition says about a row satisfying it, and about the
    lookup model built from a subset containing it *)
Definition ic_holds (ic : icond) (r : row) : Prop :=
  match ic_val ic with
  | VMap n => exists mm, r !! ic_col ic = Some (VMap mm) /\ forall k, k ∈ ic_keys ic -> mm !! k = n !! k /\ is_Some (n !! k)
  | v => r !! ic_col ic = Some v
  end.

Lemma to_indexable_holds u r cd ic :
  to_indexable cd = Some ic -> eval_cond_row u r cd = true -> ic_holds ic r.
Proof.
  destruct cd as [[col f] arg]. unfold to_indexable, eval_cond_row, row_col.
  destruct (N.eqb col ucol) eqn:Hc; [discriminate|].
  destruct f; try discriminate.
  - (* == *) intros [= <-]. unfold ic_holds. simpl.
    destruct (r !! col) as [v|] eqn:Hv; [|discriminate]. simpl. intros He. apply bool_decide_eq_true in He. subst v.
    destruct arg; try reflexivity. exists m. split; [reflexivity|]. intros k Hk. inversion Hk.
  - (* includes *)
    destruct (r !! col) as [v|] eqn:Hv; [|destruct arg as [| [|] | |]; discriminate].
    destruct arg as [b|[b|]|t|n]; try discriminate; [| |destruct (decide (n = ∅)); [discriminate|]];
      intros [= <-]; unfold ic_holds; simpl; rewrite Hv; intros He.
    + destruct v; try discriminate. simpl in He. apply bool_decide_eq_true in He. congruence.
    + destruct v as [|o| |]; try discriminate. simpl in He. apply bool_decide_eq_true in He.
      destruct o as [a|]; simpl in He; [|set_solver]. f_equal. f_equal. f_equal. set_solver.
    + destruct v as [| | |mr]; try discriminate. simpl in He. apply bool_decide_eq_true in He.
      exists mr. split; [reflexivity|]. intros k Hk.
      apply elem_of_list_fmap in Hk as ([k' x] & -> & Hkx). apply elem_of_map_to_list in Hkx. simpl.
      rewrite Hkx. split; [|eauto]. eapply lookup_weaken; eassumption.
Qed.

(** the lookup model agrees with every condition of the subset *)
Definition ic_in_model (seen : gmap sym value) (ic : icond) : Prop :=
  match ic_val ic with
  | VMap n => exists mm, seen !! ic_col ic = Some (VMap mm) /\ n ⊆ mm
  | v => seen !! ic_col ic = Some v
  end.

Lemma merge_cv_keeps prev new v ic :
  merge_cv prev new = Some v ->
  ic_in_model {[ic_col ic := prev]} ic -> ic_in_model {[ic_col ic := v]} ic.
Proof.
  unfold ic_in_model. intros Hm. destruct (ic_val ic) as [a|o|t|n] eqn:Hv; rewrite ?lookup_singleton.
  1-3: intros [= ->]; unfold merge_cv in Hm; destruct (decide _) as [<-|]; [congruence|discriminate].
  intros (mm & Heq & Hsub). injection Heq as ->. unfold merge_cv in Hm.
  destruct new as [| | |y]; try (destruct (decide _); discriminate).
  destruct (forallb _ _); [|discriminate]. injection Hm as <-.
  exists (mm ∪ y). split; [reflexivity|]. etrans; [exact Hsub|]. apply map_union_subseteq_l.
Qed.

Lemma merge_cv_new prev new v :
  merge_cv prev new = Some v ->
  match new with VMap n => exists mm, v = VMap mm /\ n ⊆ mm | _ => v = new end.
Proof.
  destruct new as [a|o|t|y].
  1-3: unfold merge_cv; destruct prev; (destruct (decide _); [intros [= <-]; reflexivity | discriminate]).
  destruct prev as [| | |x]; unfold merge_cv; try (destruct (decide _); [|discriminate]; discriminate).
  destruct (forallb _ _) eqn:Hall; [|discriminate]. intros [= <-].
  exists (x ∪ y). split; [reflexivity|].
  apply map_subseteq_spec. intros k vy Hk. apply lookup_union_Some_raw.
  destruct (x !! k) as [vx|] eqn:Hx; [left|right; auto].
  rewrite forallb_forall in Hall. specialize (Hall (k, vy)). simpl in Hall.
  rewrite Hx in Hall. f_equal. apply (bool_decide_eq_true_1 _). apply Hall.
  apply elem_of_list_In, elem_of_map_to_list. exact Hk.
Qed.

Lemma cond_model_aux_spec : forall sub seen m m',
  (forall col v, seen !! col = Some v -> m !! col = Some v) ->
  cond_model_aux seen m sub = Some m' ->
  exists seen', (forall col v, seen' !! col = Some v -> m' !! col = Some v) /\
    (forall ic, ic_in_model seen ic -> ic_in_model seen' ic) /\
    (forall ic, ic ∈ sub -> ic_in_model seen' ic).
Proof.
  induction sub as [|ic sub IH]; intros seen m m' Hsm; simpl.
  - intros [= <-]. exists seen. split; [exact Hsm|]. split; [auto|]. intros ic Hic. inversion Hic.
  - destruct (seen !! ic_col ic) as [prev|] eqn:Hprev.
    + destruct (merge_cv prev (ic_val ic)) as [v|] eqn:Hmerge; [|discriminate]. intros Hrec.
      destruct (IH (<[ic_col ic := v]> seen) (<[ic_col ic := v]> m) m') as (seen' & H1 & H2 & H3); [|exact Hrec|].
      { intros col v0. destruct (decide (col = ic_col ic)) as [->|Hne].
        - rewrite !lookup_insert. auto.
        - rewrite !lookup_insert_ne by congruence. auto. }
      assert (Hstep : forall ic0, ic_in_model seen ic0 -> ic_in_model (<[ic_col ic := v]> seen) ic0).
      { intros ic0 H0. destruct (decide (ic_col ic0 = ic_col ic)) as [Heq|Hne].
        - pose proof (merge_cv_keeps prev (ic_val ic) v ic0 Hmerge) as Hk.
          unfold ic_in_model in *. rewrite Heq in *. rewrite Hprev in H0.
          rewrite lookup_insert. rewrite !lookup_singleton in Hk. apply Hk. exact H0.
        - unfold ic_in_model in *. rewrite lookup_insert_ne by congruence. exact H0. }
      exists seen'. split; [exact H1|]. split; [auto|].
      intros ic0 Hin. apply elem_of_cons in Hin as [->|Hin]; [|auto].
      apply H2. unfold ic_in_model. rewrite lookup_insert.
      pose proof (merge_cv_new _ _ _ Hmerge) as Hn. destruct (ic_val ic); try (subst v; reflexivity).
      destruct Hn as (mm & -> & Hsub). eauto.
    + intros Hrec.
      destruct (IH (<[ic_col ic := ic_val ic]> seen) (<[ic_col ic := ic_val ic]> m) m') as (seen' & H1 & H2 & H3); [|exact Hrec|].
      { intros col v0. destruct (decide (col = ic_col ic)) as [->|Hne].
        - rewrite !lookup_insert. auto.
        - rewrite !lookup_insert_ne by congruence. auto. }
      assert (Hstep : forall ic0, ic_in_model seen ic0 -> ic_in_model (<[ic_col ic := ic_val ic]> seen) ic0).
      { intros ic0 H0. destruct (decide (ic_col ic0 = ic_col ic)) as [Heq|Hne].
        - unfold ic_in_model in H0. rewrite Heq, Hprev in H0. destruct (ic_val ic0); try discriminate.
          destruct H0 as (? & ? & _). discriminate.
        - unfold ic_in_model in *. rewrite lookup_insert_ne by congruence. exact H0. }
      exists seen'. split; [exact H1|]. split; [auto|].
      intros ic0 Hin. apply elem_of_cons in Hin as [->|Hin]; [|auto].
      apply H2. unfold ic_in_model. rewrite lookup_insert. destruct (ic_val ic); try reflexivity. eauto.
Qed.

(** non-map indexable conditions address the whole column *)
Definition ic_wf (ic : icond) : Prop :=
  match ic_val ic with VMap _ => True | _ => ic_keys ic = [] end.

Lemma to_indexable_wf cd ic : to_indexable cd = Some ic -> ic_wf ic.
Proof.
  destruct cd as [[col f] arg]. unfold to_indexable. destruct (N.eqb col ucol); [discriminate|].
  destruct f; try discriminate.
  - intros [= <-]. unfold ic_wf. simpl. destruct arg; reflexivity.
  - destruct arg as [b|[b|]|t|n]; try discriminate; [| |destruct (decide (n = ∅)); [discriminate|]];
      intros [= <-]; unfold ic_wf; simpl; auto.
Qed.

Lemma col_key_agree T r mvals ic ck :
  ic_wf ic -> ic_holds ic r -> ic_in_model mvals ic -> ck ∈ icond_colkeys ic ->
  col_key T r ck = col_key T mvals ck.
Proof.
  unfold ic_wf, ic_holds, ic_in_model, icond_colkeys. intros Hwf Hr Hm Hck.
  destruct (ic_val ic) as [a|o|t|n] eqn:Hv.
  1-3: rewrite Hwf in Hck; apply elem_of_list_singleton in Hck; subst ck; unfold col_key; simpl; rewrite Hr, Hm; reflexivity.
  destruct Hr as (mr & Hr & Hkeys). destruct Hm as (mm & Hm & Hsub).
  destruct (ic_keys ic) as [|k0 ks] eqn:Hks.
  - apply elem_of_list_singleton in Hck. subst ck. unfold col_key. simpl. rewrite Hr, Hm. reflexivity.
  - apply elem_of_list_fmap in Hck as (k & -> & Hk). unfold col_key. simpl. rewrite Hr, Hm.
    destruct (Hkeys k Hk) as [Hrk [x Hx]]. rewrite Hrk, Hx.
    rewrite (lookup_weaken _ _ _ _ Hx Hsub). reflexivity.
Qed.

Lemma omap_ext_in {A B} (f g : A -> option B) (l : list A) :
  (forall x, x ∈ l -> f x = g x) -> omap f l = omap g l.
Proof.
  induction l as [|x l IH]; intros H; [reflexivity|].
  cbn. rewrite (H x) by (left). rewrite IH; [reflexivity|]. intros y Hy. apply H. right. exact Hy.
Qed.

Lemma K_agree T s r mvals :
  (forall ck, ck ∈ i_cols s -> col_key T r ck = col_key T mvals ck) -> K T s r = K T s mvals.
Proof.
  intros H. unfold K. apply list_fmap_ext. intros i ck Hck. apply H. eapply elem_of_list_lookup_2. exact Hck.
Qed.

(** every indexable condition of the subset stems from a condition of [cs] *)
Definition good (cs : list cond) (sub : list icond) : Prop :=
  forall ic, ic ∈ sub -> exists cd, cd ∈ cs /\ to_indexable cd = Some ic.

Lemma eval_subset_aux_Some T mvals sub : forall sm M,
  eval_subset_aux T mvals sub sm = Some M ->
  exists s m, (s, m) ∈ sm /\ index_matches s sub = true /\ M = i_get m (K T s mvals).
Proof.
  induction sm as [|[s m] sm IH]; intros M; simpl; [discriminate|].
  destruct (index_matches s sub) eqn:Him.
  - intros [= <-]. exists s, m. split; [left|]. auto.
  - intros H. destruct (IH M H) as (s' & m' & Hin & H1 & H2). exists s', m'. split; [right; exact Hin|auto].
Qed.

Lemma eval_subset_superset T specs c cs sub M :
  Inv T specs c -> good cs sub -> eval_subset T specs c sub = Some M -> F c cs ⊆ M.
Proof.
  intros HI Hgood. unfold eval_subset, cond_model.
  destruct (cond_model_aux ∅ (default_row T) sub) as [mvals|] eqn:Hcm; [|discriminate].
  intros Hev. apply eval_subset_aux_Some in Hev as (s & m & Hin & Him & ->).
  apply elem_of_list_lookup in Hin as [i Hi].
  apply lookup_zip_with_Some in Hi as (s' & m' & [= <- <-] & Hs & Hm).
  pose proof (Forall2_lookup_lr _ _ _ _ _ _ HI Hs Hm) as [_ Hinv].
  destruct (cond_model_aux_spec sub ∅ (default_row T) mvals) as (seen' & Hsm & _ & Hall).
  { intros col v. rewrite lookup_empty. discriminate. }
  { exact Hcm. }
  intros u Hu. apply elem_of_F in Hu as (r & Hr & Hmatch).
  apply Hinv. exists r. split; [exact Hr|]. apply K_agree. intros ck Hck.
  apply bool_decide_eq_true in Him.
  assert (Hck' : ck ∈ (list_to_set (sub ≫= icond_colkeys) : gset (sym * option atom))).
  { rewrite <- Him. apply elem_of_list_to_set. exact Hck. }
  apply elem_of_list_to_set, elem_of_list_bind in Hck' as (ic & Hckic & Hic).
  destruct (Hgood ic Hic) as (cd & Hcd & Hto).
  apply (col_key_agree T r mvals ic ck).
  - eapply to_indexable_wf; eassumption.
  - eapply to_indexable_holds; [exact Hto|].
    unfold row_matches in Hmatch. rewrite forallb_forall in Hmatch. apply Hmatch.
    apply elem_of_list_In. exact Hcd.
  - specialize (Hall ic Hic). unfold ic_in_model in *. destruct (ic_val ic); try (apply Hsm; exact Hall).
    destruct Hall as (mm & Hmm & Hsub). exists mm. split; [apply Hsm; exact Hmm|exact Hsub].
  - exact Hckic.
Qed.

Lemma isect_superset A a b : A ⊆ a -> A ⊆ b -> match isect a b with Some M => A ⊆ M | None => True end.
Proof. unfold isect. destruct (_ || _); [auto|]. set_solver. Qed.

Lemma isect_subset_superset T specs c cs matching sub :
  Inv T specs c -> good cs sub -> superset c cs matching ->
  superset c cs (snd (isect_subset T specs c matching sub)).
Proof.
  intros HI Hg Hs. unfold isect_subset. simpl.
  destruct (eval_subset T specs c sub) as [us|] eqn:Hev.
  - pose proof (eval_subset_superset T specs c cs sub us HI Hg Hev) as Hus.
    destruct matching as [mt|]; simpl; [|exact Hus]. apply isect_superset; assumption.
  - destruct matching; exact Hs.
Qed.

Lemma good_snoc cs sub ic cd : good cs sub -> cd ∈ cs -> to_indexable cd = Some ic -> good cs (sub ++ [ic]).
Proof.
  intros Hg Hcd Hto ic' Hin. apply elem_of_app in Hin as [Hin|Hin]; [auto|].
  apply elem_of_list_singleton in Hin. subst. eauto.
Qed.

Lemma extend_ps_superset T specs c cs ic cd : cd ∈ cs -> to_indexable cd = Some ic ->
  Inv T specs c -> forall ps matching acc,
  Forall (good cs) ps -> Forall (good cs) acc -> superset c cs matching ->
  superset c cs (snd (fst (extend_ps T specs c ic ps matching acc))) /\
  Forall (good cs) (snd (extend_ps T specs c ic ps matching acc)).
Proof.
  intros Hcd Hto HI. induction ps as [|sub ps IH]; intros matching acc Hps Hacc Hs; [simpl; auto|].
  apply Forall_cons in Hps as [Hsub Hps].
  pose proof (good_snoc cs sub ic cd Hsub Hcd Hto) as Hg'.
  pose proof (isect_subset_superset T specs c cs matching (sub ++ [ic]) HI Hg' Hs) as Hs'.
  cbn [extend_ps].
  destruct (isect_subset T specs c matching (sub ++ [ic])) as [stop matching'] eqn:E. simpl in Hs'.
  destruct stop; [simpl; auto|].
  apply IH; [exact Hps| |exact Hs']. apply Forall_app. split; [exact Hacc|]. constructor; [exact Hg'|constructor].
Qed.

Lemma prefilter_loop_superset T specs c cs : Inv T specs c -> forall cs' ps matching,
  (forall cd, cd ∈ cs' -> cd ∈ cs) -> Forall (good cs) ps -> superset c cs matching ->
  superset c cs (prefilter_loop T specs c cs' ps matching).
Proof.
  intros HI. induction cs' as [|cd cs' IH]; intros ps matching Hsub Hps Hs; [exact Hs|].
  cbn [prefilter_loop].
  destruct (to_indexable cd) as [ic|] eqn:Hto.
  - assert (Hcd : cd ∈ cs) by (apply Hsub; left).
    pose proof (extend_ps_superset T specs c cs ic cd Hcd Hto HI ps matching [] Hps (Forall_nil_2 _) Hs) as He.
    destruct (extend_ps T specs c ic ps matching []) as [[stop matching'] ss]. destruct He as [Hs' Hss]. simpl in Hs', Hss.
    destruct stop; [exact Hs'|].
    apply IH; [intros x Hx; apply Hsub; right; exact Hx| |exact Hs'].
    apply Forall_app. split; assumption.
  - apply IH; [intros x Hx; apply Hsub; right; exact Hx|exact Hps|exact Hs].
Qed.

Lemma prefilter_superset T specs c cs : Inv T specs c -> superset c cs (prefilter T specs c cs).
Proof.
  intros HI. unfold prefilter. destruct (Nat.ltb _ _); [exact I|]. apply prefilter_loop_superset; [exact HI|auto| |exact I].
  constructor; [|constructor]. intros ic Hic. inversion Hic.
Qed.

(** C08: whatever schema and client indexes exist, RowsByCondition returns
    exactly the rows for which every condition is true. *)
Theorem rows_by_condition_is_filter T specs c cs :
  Inv T specs c -> rows_by_condition T specs c cs = dom (filter_rows (rc_rows c) cs).
Proof.
  intros HI. fold (F c cs). unfold rows_by_condition. destruct cs as [|cd cs]; [symmetry; apply F_nil|].
  pose proof (prefilter_superset T specs c (cd :: cs) HI) as Hsup.
  destruct (prefilter T specs c (cd :: cs)) as [M|].
  - rewrite explicit_loop_some. simpl in Hsup. set_solver.
  - apply explicit_loop_none.
Qed.

Corollary index_config_irrelevant T specs1 specs2 c1 c2 cs :
  Inv T specs1 c1 -> Inv T specs2 c2 -> rc_rows c1 = rc_rows c2 ->
  rows_by_condition T specs1 c1 cs = rows_by_condition T specs2 c2 cs.
Proof. intros H1 H2 Hr. rewrite !rows_by_condition_is_filter by assumption. rewrite Hr. reflexivity. Qed.
