(** Model of cache.RowCache.RowsByCondition with its index pre-filter
    (cache/cache.go uuidsByConditionsAsIndexes: indexable conditions, the
    incrementally built power set, evaluation of a condition subset as an
    index, intersections and early exits), followed by the explicit
    evaluation of every condition. *)
From LOV Require Export Cache.Index Upd.Cond.

(** an indexable condition: column, the map keys it addresses (for [includes]
    on a map), and its native value *)
Record icond := mkICond { ic_col : sym; ic_keys : list atom; ic_val : value }.

Definition to_indexable (c : cond) : option icond :=
  let '(col, f, arg) := c in
  if N.eqb col ucol then None
  else match f with
       | CEq => Some (mkICond col [] arg)
       | CIncludes =>
           match arg with
           | VSet _ => None
           | VOpt None => None      (* every optional value includes the empty one *)
           | VMap m => if decide (m = ∅) then None      (* every map includes the empty one *)
                       else Some (mkICond col (fst <$> map_to_list m) arg)
           | _ => Some (mkICond col [] arg)
           end
       | _ => None
       end.

Definition icond_colkeys (ic : icond) : list (sym * option atom) :=
  match ic_keys ic with
  | [] => [(ic_col ic, None)]
  | ks => (fun k => (ic_col ic, Some k)) <$> ks
  end.

(** indexMatchesConditions: the index is named after exactly the columns /
    column-keys of the conditions *)
Definition index_matches (s : ispec) (sub : list icond) : bool :=
  bool_decide ((list_to_set (i_cols s) : gset (sym * option atom))
               = list_to_set (sub ≫= icond_colkeys)).

(** evaluateConditionSetAsIndex: a model is built from the condition values
    and looked up through the first index named after the conditions.  Several
    conditions on one column are combined: maps are merged unless they
    disagree on a key, other values must be equal; otherwise the subset is not
    used as an index (repaired behaviour: the pinned tree let the later
    condition overwrite the earlier one, [prefilter_pinned_refuted]). *)
Definition merge_cv (a b : value) : option value :=
  match a, b with
  | VMap x, VMap y =>
      if forallb (fun kv => match x !! fst kv with Some v' => bool_decide (v' = snd kv) | None => true end) (map_to_list y)
      then Some (VMap (x ∪ y)) else None
  | _, _ => if decide (a = b) then Some b else None
  end.

Fixpoint cond_model_aux (seen : gmap sym value) (m : row) (sub : list icond) : option row :=
  match sub with
  | [] => Some m
  | ic :: sub' =>
    match seen !! ic_col ic with
    | None => cond_model_aux (<[ic_col ic := ic_val ic]> seen) (<[ic_col ic := ic_val ic]> m) sub'
    | Some prev =>
      match merge_cv prev (ic_val ic) with
      | Some v => cond_model_aux (<[ic_col ic := v]> seen) (<[ic_col ic := v]> m) sub'
      | None => None
      end
    end
  end.

Definition cond_model (T : table) (sub : list icond) : option row :=
  cond_model_aux ∅ (default_row T) sub.

Fixpoint eval_subset_aux (T : table) (mvals : row) (sub : list icond) (sm : list (ispec * idx1)) : option (gset sym) :=
  match sm with
  | [] => None
  | (s, m) :: sm' =>
    if index_matches s sub then Some (i_get m (K T s mvals))
    else eval_subset_aux T mvals sub sm'
  end.

Definition eval_subset (T : table) (specs : list ispec) (c : rc) (sub : list icond) : option (gset sym) :=
  match cond_model T sub with
  | Some mvals => eval_subset_aux T mvals sub (zip specs (rc_idx c))
  | None => None
  end.

(** intersectUUIDSets: nil when either side is empty *)
Definition isect (a b : gset sym) : option (gset sym) :=
  if bool_decide (a = ∅) || bool_decide (b = ∅) then None else Some (a ∩ b).

(** intersectUUIDsFromConditionSet; returns (stop, matching) *)
Definition isect_subset (T : table) (specs : list ispec) (c : rc) (matching : option (gset sym)) (sub : list icond)
  : bool * option (gset sym) :=
  let uuids := eval_subset T specs c sub in
  let matching' :=
    match matching, uuids with
    | None, _ => uuids
    | Some mt, Some us => isect mt us
    | Some mt, None => Some mt
    end in
  (match matching' with Some mt => Nat.leb (size mt) 1 | None => false end, matching').

(** one new indexable condition: extend every subset of the power set built so
    far, evaluating each new subset on the way *)
Fixpoint extend_ps (T : table) (specs : list ispec) (c : rc) (ic : icond)
    (ps : list (list icond)) (matching : option (gset sym)) (acc : list (list icond))
  : bool * option (gset sym) * list (list icond) :=
  match ps with
  | [] => (false, matching, acc)
  | sub :: ps' =>
    let sub' := sub ++ [ic] in
    let '(stop, matching') := isect_subset T specs c matching sub' in
    if stop then (true, matching', acc)
    else extend_ps T specs c ic ps' matching' (acc ++ [sub'])
  end.

Fixpoint prefilter_loop (T : table) (specs : list ispec) (c : rc) (cs : list cond)
    (ps : list (list icond)) (matching : option (gset sym)) : option (gset sym) :=
  match cs with
  | [] => matching
  | cd :: cs' =>
    match to_indexable cd with
    | None => prefilter_loop T specs c cs' ps matching
    | Some ic =>
      let '(stop, matching', ss) := extend_ps T specs c ic ps matching [] in
      if stop then matching' else prefilter_loop T specs c cs' (ps ++ ss) matching'
    end
  end.

(** beyond [max_indexable] indexable conditions the subsets are not tried at
    all: the rows are scanned *)
Definition max_indexable : nat := 10.
Definition prefilter (T : table) (specs : list ispec) (c : rc) (cs : list cond) : option (gset sym) :=
  if Nat.ltb max_indexable (length (omap to_indexable cs)) then None
  else prefilter_loop T specs c cs [[]] None.

(** the explicit pass over the conditions *)
Definition match_cond (c : rc) (cd : cond) (candidates : option (gset sym)) : gset sym :=
  let '(col, f, arg) := cd in
  if N.eqb col ucol && (bool_decide (f = CEq) || bool_decide (f = CIncludes)) then
    match arg with
    | VAtom (AUuid u) => if decide (is_Some (rc_rows c !! u)) then {[u]} else ∅
    | _ => ∅
    end
  else
    let pool := match candidates with Some mt => mt | None => dom (rc_rows c) end in
    filter (fun u => match rc_rows c !! u with Some r => eval_cond_row u r cd | None => false end = true) pool.

Fixpoint explicit_loop (c : rc) (cs : list cond) (matching : option (gset sym)) : option (gset sym) :=
  match cs with
  | [] => matching
  | cd :: cs' =>
    let mc := match_cond c cd matching in
    let matching' := match matching with None => Some mc | Some mt => isect mt mc end in
    if match matching' with Some mt => bool_decide (mt = ∅) | None => true end then matching'
    else explicit_loop c cs' matching'
  end.

Definition rows_by_condition (T : table) (specs : list ispec) (c : rc) (cs : list cond) : gset sym :=
  match cs with
  | [] => dom (rc_rows c)
  | _ => default ∅ (explicit_loop c cs (prefilter T specs c cs))
  end.
