(** Sessions with reconnections (cache.Purge on a reconnect, then the initial
    contents of the restarted monitors as inserts).  The code purges without
    events: the log of such a session no longer replays to the cache
    ([purge_refuted], recorded finding C14 class 31); without a purge a
    session is a history and its log replays. *)
From LOV Require Export Cache.Events Cache.EventsProofs.

Inductive step := SNotify (l : list rowchange) | SPurge.

(** the code: Purge replaces the cache, no event *)
Fixpoint apply_session (c : tcache) (h : list step) : tcache * list event :=
  match h with
  | [] => (c, [])
  | SNotify n :: h' => let '(c1, es, _) := apply_rows c n in
                       let '(c2, es') := apply_session c1 h' in (c2, es ++ es')
  | SPurge :: h' => apply_session ∅ h'
  end.

(** the log of a session with a purge does not replay to the cache: *)
Theorem purge_refuted :
  exists h, let '(c, es) := apply_session ∅ h in replay ∅ es <> Some c.
Proof.
  exists [SNotify [(1%N, 7%N, true, Some ∅)]; SPurge].
  vm_compute. intros H. inversion H.
Qed.

(** ... and the rows come back as adds the log has already seen: the log is not
    even a legal sequence (a second add of a row that was never deleted) *)
Theorem purge_readd_illegal :
  exists h, let '(c, es) := apply_session ∅ h in replay ∅ es = None.
Proof.
  exists [SNotify [(1%N, 7%N, true, Some ∅)]; SPurge; SNotify [(1%N, 7%N, true, Some ∅)]].
  vm_compute. reflexivity.
Qed.

(** without a purge a session is a history: the log replays (C14) *)
Fixpoint notifications (h : list step) : option (list (list rowchange)) :=
  match h with
  | [] => Some []
  | SNotify n :: h' => option_map (cons n) (notifications h')
  | SPurge :: _ => None
  end.

Theorem session_without_purge_replays : forall h ns c c' es,
  notifications h = Some ns -> apply_session c h = (c', es) -> replay c es = Some c'.
Proof.
  induction h as [|[n|] h IH]; intros ns c c' es Hn Hs; cbn in *.
  - inversion Hs; subst. reflexivity.
  - destruct (notifications h) as [ns'|] eqn:Hns; [|discriminate].
    destruct (apply_rows c n) as [[c1 es1] ok] eqn:Hr. destruct (apply_session c1 h) as [c2 es2] eqn:Hh.
    inversion Hs; subst. rewrite replay_app. rewrite (apply_rows_replay _ _ _ _ _ Hr). eapply IH; eauto.
  - discriminate.
Qed.
