(** Model of cache.RowCache: rows by UUID plus index maps (cache/cache.go
    Create / Update / Delete / IndexExists, valueFromIndex).

    Client-index entries are sets of UUIDs.  A schema-index entry is
    overwritten by the row that takes the value and removed only when it
    still points at the row that gives the value up (the repaired behaviour;
    the pinned tree removed it unconditionally and lost the entry when a value
    moved between two rows inside one batch — [index_pinned_refuted] in
    Cache/IndexProofs.v). *)
From LOV Require Export Base.Res Base.Schema.

(** an index column: a column, optionally a key inside a map column *)
Record ispec := mkISpec { i_cols : list (sym * option atom); i_schema : bool }.

Notation ikey := (list (option atom)).
Notation idx1 := (gmap (list (option atom)) (gset sym)).

(** valueFromColumnKey: optionals are dereferenced ([None] = nil pointer); a
    map column addressed by key yields nothing (nil) for an absent key.
    Whole sets/maps as index values are not hashable in Go (outside the
    model, the harness never declares such indexes): modelled as nil. *)
Definition col_key (T : table) (r : row) (ck : sym * option atom) : option atom :=
  match r !! ck.1, ck.2 with
  | Some (VAtom a), None => Some a
  | Some (VOpt o), None => o
  | Some (VMap m), Some k => m !! k     (* a map without the key has no value for it *)
  | _, _ => None
  end.

(** valueFromIndex: a single column is its own key; several columns are
    gob-encoded in sequence, each preceded by whether it holds a value
    (modelled as the injective tuple of the optional values).  The pinned
    tree skipped nil values without a mark, so that (unset, a) and (a, unset)
    were one key ([K_pinned], refuted in Cache/IndexPinned.v). *)
Definition K (T : table) (s : ispec) (r : row) : ikey := col_key T r <$> i_cols s.

Definition K_pinned (T : table) (s : ispec) (r : row) : ikey :=
  match i_cols s with
  | [ck] => [col_key T r ck]
  | cks => Some <$> omap (col_key T r) cks
  end.

Definition i_get (m : idx1) (k : ikey) : gset sym := default ∅ (m !! k).
Definition i_add (k : ikey) (u : sym) (m : idx1) : idx1 := <[k := {[u]} ∪ i_get m k]> m.
Definition i_rem (k : ikey) (u : sym) (m : idx1) : idx1 :=
  let s := i_get m k ∖ {[u]} in
  if decide (s = ∅) then delete k m else <[k := s]> m.

(** schema indexes: the taker overwrites the entry *)
Definition i_put (sch : bool) (k : ikey) (u : sym) (m : idx1) : idx1 :=
  if sch then <[k := {[u]}]> m else i_add k u m.

Record rc := mkRC { rc_rows : gmap sym (gmap sym value); rc_idx : list idx1 }.

Definition rc_empty (specs : list ispec) : rc := mkRC ∅ (map (fun _ => ∅) specs).

Inductive cerr := CInconsistent | CIndexExists.
Inductive cres (A : Type) := COk (a : A) | CErr (e : cerr).
Arguments COk {A} a.
Arguments CErr {A} e.

(** would storing [r] under [u] collide with another row on a schema index? *)
Definition conflicts (T : table) (specs : list ispec) (idx : list idx1) (u : sym) (r : row) : bool :=
  existsb (fun sm => let '(s, m) := sm in
             i_schema s &&
             let ex := i_get m (K T s r) in
             negb (bool_decide (ex = ∅)) && negb (bool_decide (ex = {[u]})))
          (zip specs idx).

Definition rc_create (T : table) (specs : list ispec) (check : bool) (c : rc) (u : sym) (r : row) : cres rc :=
  match rc_rows c !! u with
  | Some _ => CErr CInconsistent
  | None =>
    if check && conflicts T specs (rc_idx c) u r then CErr CIndexExists
    else COk (mkRC (<[u := r]> (rc_rows c))
                   (zip_with (fun s m => i_put (i_schema s) (K T s r) u m) specs (rc_idx c)))
  end.

Definition upd_idx (T : table) (u : sym) (old new : row) (s : ispec) (m : idx1) : idx1 :=
  if decide (K T s old = K T s new) then m
  else i_rem (K T s old) u (i_put (i_schema s) (K T s new) u m).

(** Update only checks the indexes whose value changes *)
Definition conflicts_upd (T : table) (specs : list ispec) (idx : list idx1) (u : sym) (old new : row) : bool :=
  existsb (fun sm => let '(s, m) := sm in
             negb (bool_decide (K T s old = K T s new)) && i_schema s &&
             let ex := i_get m (K T s new) in
             negb (bool_decide (ex = ∅)) && negb (bool_decide (ex = {[u]})))
          (zip specs idx).

Definition rc_update (T : table) (specs : list ispec) (check : bool) (c : rc) (u : sym) (r : row) : cres rc :=
  match rc_rows c !! u with
  | None => CErr CInconsistent
  | Some old =>
    if check && conflicts_upd T specs (rc_idx c) u old r then CErr CIndexExists
    else COk (mkRC (<[u := r]> (rc_rows c))
                   (zip_with (upd_idx T u old r) specs (rc_idx c)))
  end.

Definition rc_delete (T : table) (specs : list ispec) (c : rc) (u : sym) : cres rc :=
  match rc_rows c !! u with
  | None => CErr CInconsistent
  | Some old =>
    COk (mkRC (delete u (rc_rows c))
              (zip_with (fun s m => i_rem (K T s old) u m) specs (rc_idx c)))
  end.

(** one row change of a batch, as ApplyCacheUpdate sees it *)
Record change := mkChange { ch_uuid : sym; ch_old : option row; ch_new : option row }.

Definition apply_change (T : table) (specs : list ispec) (c : rc) (ch : change) : cres rc :=
  match ch_old ch, ch_new ch with
  | None, Some n => rc_create T specs false c (ch_uuid ch) n
  | Some _, Some n => rc_update T specs false c (ch_uuid ch) n
  | _, None => rc_delete T specs c (ch_uuid ch)
  end.

Fixpoint apply_batch (T : table) (specs : list ispec) (c : rc) (b : list change) : cres rc :=
  match b with
  | [] => COk c
  | ch :: b' =>
    match apply_change T specs c ch with
    | COk c' => apply_batch T specs c' b'
    | CErr e => CErr e
    end
  end.

(** * Lookups *)

(** scan: the UUIDs of the rows whose key under [s] is [k] *)
Definition scan (T : table) (s : ispec) (rows : gmap sym (gmap sym value)) (k : ikey) : gset sym :=
  dom (filter (fun ur => K T s (snd ur) = k) rows).

(** RowCache.Index(cols...): value -> uuids *)
Definition index_dump (c : rc) (i : nat) : list (ikey * list sym) :=
  match rc_idx c !! i with
  | Some m => (fun kv => (fst kv, elements (snd kv))) <$> map_to_list m
  | None => []
  end.

(** IndexExists *)
Definition rc_index_exists (T : table) (specs : list ispec) (c : rc) (u : sym) (r : row) : bool :=
  conflicts T specs (rc_idx c) u r.

(** RowCache.indexUsable (Where(model) only): the model has a value other
    than the default in every column of the index (for a map key: the key is
    present) *)
Definition col_nondefault (T : table) (m : row) (col : sym) : bool :=
  match find_col T col, m !! col with
  | Some C, Some v => negb (bool_decide (v = default_value (c_ty C)))
  | _, _ => false
  end.
Definition ck_usable (T : table) (m : row) (ck : sym * option atom) : bool :=
  match ck.2 with
  | None => col_nondefault T m ck.1
  | Some k => match m !! ck.1 with Some (VMap mp) => bool_decide (is_Some (mp !! k)) | _ => false end
  end.
Definition usable (T : table) (s : ispec) (m : row) : bool := forallb (ck_usable T m) (i_cols s).

(** rowsByModels for one model: by UUID first (when [u] is given), then the
    first index — schema indexes first, client indexes only when allowed —
    that is usable for the model (the others are passed over); that index
    decides, whether it has an entry for the model's value or not. [mvals] are the model's fields. *)
Fixpoint first_index_hit (T : table) (client : bool) (mvals : row) (sm : list (ispec * idx1)) : option (gset sym) :=
  match sm with
  | [] => None
  | (s, m) :: sm' =>
    if negb (i_schema s) && negb client then None
    else if negb (usable T s mvals) then first_index_hit T client mvals sm'
    else m !! K T s mvals     (* the first usable index decides, with or without an entry *)
  end.

Definition rows_by_model (T : table) (specs : list ispec) (client : bool) (c : rc) (u : option sym) (mvals : row) : gset sym :=
  match u with
  | Some u => if decide (is_Some (rc_rows c !! u)) then {[u]} else ∅   (* a uuid stands for that row and no other *)
  | None => default ∅ (first_index_hit T client mvals (zip specs (rc_idx c)))
  end.
