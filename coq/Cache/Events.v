(** Cache events (cache/cache.go: ApplyCacheUpdate, eventProcessor).

    [apply_rows] mirrors Populate/Populate2 + ApplyCacheUpdate: the rows of a
    notification are applied one at a time, each applied change enqueues one
    event carrying the previous and the next state of the row; a row whose
    state does not change produces nothing; the first inconsistent row stops
    the notification (what was applied stays applied and has its events).
    [replay] is the reader's side: applying the events, in delivery order, to
    a table set, checking that each is legal there.
    The event buffer is a bounded FIFO: [qstep]. *)
From LOV Require Export Base.Schema.

Notation tcache := (gmap sym (gmap sym (gmap sym value))).   (* table -> uuid -> row *)

Definition tc_get (c : tcache) (t : sym) : gmap sym (gmap sym value) := default ∅ (c !! t).
Definition tc_set (c : tcache) (t u : sym) (r : option row) : tcache :=
  <[t := match r with Some x => <[u := x]> (tc_get c t) | None => delete u (tc_get c t) end]> c.

Inductive event :=
| EvAdd (t u : sym) (n : row)
| EvUpd (t u : sym) (o n : row)
| EvDel (t u : sym) (o : row).

Global Instance event_eq_dec : EqDecision event.
Proof. solve_decision. Defined.

(** one row of a notification: whether it is announced as an insert (initial /
    insert / a v1 update without old), and the state the row is to take
    ([None] = deleted) *)
Definition rowchange := (sym * sym * bool * option row)%type.

Definition apply_row (c : tcache) (ch : rowchange) : option (tcache * list event) :=
  let '(t, u, ins, target) := ch in
  match tc_get c t !! u, target with
  | None, Some n => Some (tc_set c t u (Some n), [EvAdd t u n])
  | Some o, Some n =>
      if ins then None       (* Create: the row already exists *)
      else if bool_decide (o = n) then Some (c, []) else Some (tc_set c t u (Some n), [EvUpd t u o n])
  | Some o, None => Some (tc_set c t u None, [EvDel t u o])
  | None, None => None      (* ErrCacheInconsistent *)
  end.

(** state, events, and whether every row was applied *)
Fixpoint apply_rows (c : tcache) (l : list rowchange) : tcache * list event * bool :=
  match l with
  | [] => (c, [], true)
  | ch :: l' =>
      match apply_row c ch with
      | None => (c, [], false)
      | Some (c1, es) => let '(c2, es', ok) := apply_rows c1 l' in (c2, es ++ es', ok)
      end
  end.

Definition replay1 (c : tcache) (e : event) : option tcache :=
  match e with
  | EvAdd t u n => match tc_get c t !! u with None => Some (tc_set c t u (Some n)) | Some _ => None end
  | EvUpd t u o n =>
      match tc_get c t !! u with
      | Some x => if bool_decide (x = o) then Some (tc_set c t u (Some n)) else None
      | None => None
      end
  | EvDel t u o =>
      match tc_get c t !! u with
      | Some x => if bool_decide (x = o) then Some (tc_set c t u None) else None
      | None => None
      end
  end.

Fixpoint replay (c : tcache) (es : list event) : option tcache :=
  match es with
  | [] => Some c
  | e :: es' => match replay1 c e with Some c' => replay c' es' | None => None end
  end.

(** a history of notifications *)
Fixpoint apply_history (c : tcache) (h : list (list rowchange)) : tcache * list event :=
  match h with
  | [] => (c, [])
  | n :: h' => let '(c1, es, _) := apply_rows c n in
               let '(c2, es') := apply_history c1 h' in (c2, es ++ es')
  end.

(** The event buffer: a channel of capacity [cap]; AddEvent drops when full;
    Run takes the head and hands it to every handler before taking the next. *)
Inductive act := Enq (e : event) | Deq.
Record qstate := mkQ { q_buf : list event; q_delivered : list event; q_dropped : nat }.

Definition qstep (cap : nat) (s : qstate) (a : act) : qstate :=
  match a with
  | Enq e => if Nat.ltb (length (q_buf s)) cap
             then mkQ (q_buf s ++ [e]) (q_delivered s) (q_dropped s)
             else mkQ (q_buf s) (q_delivered s) (S (q_dropped s))
  | Deq => match q_buf s with
           | [] => s
           | x :: b => mkQ b (q_delivered s ++ [x]) (q_dropped s)
           end
  end.

Definition qrun (cap : nat) (acts : list act) : qstate := fold_left (qstep cap) acts (mkQ [] [] 0).
Definition enqueued (acts : list act) : list event :=
  omap (fun a => match a with Enq e => Some e | Deq => None end) acts.
(** what each of [n] handlers has seen *)
Definition handler_logs (n : nat) (s : qstate) : list (list event) := replicate n (q_delivered s).
