(** Concurrent transactions at the server (server/server.go: Transact).

    Every transact request runs, in its own goroutine, the sequence of
    critical actions [body]: the extractor (harness: extract.go) reads that
    sequence off the source of OvsdbServer.Transact on every run and the
    generated file states that it equals [canonical_body].  A world is the
    committed database, the transaction lock, one program counter and result
    slot per request, and the order in which monitors were notified.  A
    schedule is any sequence of request ids: at each step the named request
    performs its next action if it is enabled (taking the lock blocks while it
    is held).  [w_acq], [w_done] are ghost: the order in which the lock was
    taken and the (request, outcome) pairs in release order. *)
From LOV Require Export Db.Txn.

(* [AWeakLock]: any other use of the transaction lock in the handler - a shared (read) acquisition, a
   conditional or try acquisition, or the matching releases: it excludes nobody *)
Inductive act := ALock | AExec | ANotify | ACommit | AUnlock | AWeakLock.
Global Instance act_eq_dec : EqDecision act.
Proof. solve_decision. Defined.

Definition canonical_body : list act := [ALock; AExec; ANotify; ACommit; AUnlock].
Definition body_serial (b : list act) : bool := bool_decide (b = canonical_body).

Notation outcome := (list result * option dbstate)%type.

Record world := mkWorld {
  w_db : dbstate;
  w_lock : option nat;
  w_pc : nat -> nat;
  w_res : nat -> option outcome;
  w_notified : list nat;
  w_acq : list nat;
  w_done : list (nat * outcome) }.

Definition fupd {A} (f : nat -> A) (i : nat) (v : A) : nat -> A := fun j => if Nat.eqb j i then v else f j.

Definition init_world (d : dbstate) : world := mkWorld d None (fun _ => 0%nat) (fun _ => None) [] [] [].

Definition committed (o : outcome) : bool := match o.2 with Some _ => true | None => false end.

Section Run.
Variable S : schema.
Variable txn : nat -> list op.     (* the operations of request i *)
Variable body : list act.

Definition wstep (w : world) (t : nat) : world :=
  match body !! w_pc w t with
  | None => w
  | Some a =>
      let next := fupd (w_pc w) t (Datatypes.S (w_pc w t)) in
      match a with
      | ALock =>
          match w_lock w with
          | Some _ => w      (* blocked *)
          | None => mkWorld (w_db w) (Some t) next (w_res w) (w_notified w) (w_acq w ++ [t]) (w_done w)
          end
      | AExec =>
          mkWorld (w_db w) (w_lock w) next (fupd (w_res w) t (Some (transact S (w_db w) (txn t)))) (w_notified w) (w_acq w) (w_done w)
      | ANotify =>
          mkWorld (w_db w) (w_lock w) next (w_res w)
                  (match w_res w t with Some o => if committed o then w_notified w ++ [t] else w_notified w | None => w_notified w end)
                  (w_acq w) (w_done w)
      | ACommit =>
          mkWorld (match w_res w t with Some o => commit (w_db w) o | None => w_db w end)
                  (w_lock w) next (w_res w) (w_notified w) (w_acq w) (w_done w)
      | AUnlock =>
          mkWorld (w_db w) (if bool_decide (w_lock w = Some t) then None else w_lock w) next (w_res w) (w_notified w) (w_acq w)
                  (match w_res w t with Some o => w_done w ++ [(t, o)] | None => w_done w end)
      | AWeakLock =>
          mkWorld (w_db w) (w_lock w) next (w_res w) (w_notified w) (w_acq w) (w_done w)
      end
  end.

Definition wrun (w : world) (sch : list nat) : world := fold_left wstep sch w.

(** the serial execution of the requests in a given order *)
Definition serial_step (st : dbstate * list (nat * outcome)) (t : nat) : dbstate * list (nat * outcome) :=
  let o := transact S st.1 (txn t) in (commit st.1 o, st.2 ++ [(t, o)]).
Definition serial (d : dbstate) (order : list nat) : dbstate * list (nat * outcome) :=
  fold_left serial_step order (d, []).

Definition notified_of (done : list (nat * outcome)) : list nat :=
  map fst (filter (fun p => committed p.2) done).

(** nobody is inside Transact *)
Definition quiescent (w : world) : Prop := w_lock w = None.
End Run.
