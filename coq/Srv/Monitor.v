(** Monitor notifications (RFC 7047 4.1.5-4.1.6, ovsdb-server(7) update2;
    server/monitor.go, server/server.go).  A notification is computed from
    the database before and after a committed transaction, restricted to the
    tables, columns and kinds of change the monitor selected. *)
From LOV Require Export Db.Txn Upd.MergeProofs.

Record mreq := mkReq {
  mr_cols : list sym;       (* [] = all columns *)
  mr_initial : bool; mr_insert : bool; mr_delete : bool; mr_modify : bool
}.
Definition default_req : mreq := mkReq [] true true true true.

(** a request: the monitored tables; [] = every table with the default request *)
Notation request := (list (sym * mreq)).

Definition req_for (R : request) (t : sym) : option mreq :=
  match R with
  | [] => Some default_req
  | _ => snd <$> List.find (fun p => N.eqb (fst p) t) R
  end.

(** projection of a row on the monitored columns *)
Definition pc (q : mreq) (r : row) : row :=
  match mr_cols q with
  | [] => r
  | cols => filter (fun kv => fst kv ∈ cols) r
  end.

Inductive entry :=
| EInsert (r : row)             (* update2 insert / initial *)
| EModify (d : gmap sym value)  (* update2 modify: the difference *)
| EDelete                       (* update2 delete *)
| E1 (old new : option row).    (* update: old (changed columns) / new rows *)

Inductive enc := V1 | V2.

(** the entry for one row, from its state before and after *)
Definition nkey (e : enc) (q : mreq) (o n : option row) : option entry :=
  match o, n with
  | None, None => None
  | None, Some n =>
      if mr_insert q then Some (match e with V2 => EInsert (pc q n) | V1 => E1 None (Some (pc q n)) end) else None
  | Some o, None =>
      if mr_delete q then Some (match e with V2 => EDelete | V1 => E1 (Some (pc q o)) None end) else None
  | Some o, Some n =>
      let df := row_diff (pc q o) (pc q n) in
      if decide (df = ∅) then None
      else if mr_modify q
           then Some (match e with
                      | V2 => EModify df
                      | V1 => E1 (Some (filter (fun kv => is_Some (df !! fst kv)) (pc q o))) (Some (pc q n))
                      end)
           else None
  end.

Definition notify_tbl (e : enc) (q : mreq) (tb tb' : gmap sym (gmap sym value)) : gmap sym entry :=
  merge (nkey e q) tb tb'.

(** the notification: per monitored table the entries, tables with no entry
    left out; [None] = no notification is sent *)
Definition notify (S : schema) (R : request) (e : enc) (d d' : dbstate) : option (list (sym * gmap sym entry)) :=
  let l := omap (fun T => match req_for R (t_name T) with
                          | Some q => let es := notify_tbl e q (get_tbl d (t_name T)) (get_tbl d' (t_name T)) in
                                      if decide (es = ∅) then None else Some (t_name T, es)
                          | None => None
                          end) (s_tables S) in
  match l with [] => None | _ => Some l end.

(** the initial contents sent in the reply to the monitor request *)
Definition dump (S : schema) (R : request) (d : dbstate) : list (sym * gmap sym (gmap sym value)) :=
  omap (fun T => match req_for R (t_name T) with
                 | Some q => if mr_initial q
                             then let tb := pc q <$> get_tbl d (t_name T) in
                                  if decide (tb = ∅) then None else Some (t_name T, tb)
                             else None
                 | None => None
                 end) (s_tables S).

(** how a peer applies an entry to its copy of a row *)
Definition akey (r : option row) (en : option entry) : option row :=
  match en with
  | None => r
  | Some (EInsert n) => Some n
  | Some (EModify df) => (fun x => row_apply x df) <$> r
  | Some EDelete => None
  | Some (E1 _ n) => n
  end.

Definition apply_tbl (tb : gmap sym (gmap sym value)) (es : gmap sym entry) : gmap sym (gmap sym value) :=
  merge akey tb es.

(** what a monitor receives over a history: one slot per transaction, in
    commit order; [None] when nothing is sent *)
Fixpoint monitored_run (S : schema) (R : request) (e : enc) (d : dbstate) (h : list (list op))
  : list (option (list (sym * gmap sym entry))) :=
  match h with
  | [] => []
  | ops :: h' =>
    let r := transact S d ops in
    let d' := commit d r in
    (match snd r with Some _ => notify S R e d d' | None => None end) :: monitored_run S R e d' h'
  end.
