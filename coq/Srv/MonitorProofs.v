From LOV Require Export Srv.Monitor Db.TxnProofs.

Definition all_kinds (q : mreq) : Prop := mr_insert q = true /\ mr_delete q = true /\ mr_modify q = true.

Lemma pc_compat q a b : compat a b -> compat (pc q a) (pc q b).
Proof.
  unfold pc. destruct (mr_cols q) as [|c cols]; [auto|].
  unfold compat, row_ty. intros H. apply map_eq. intros k.
  rewrite !lookup_fmap.
  assert (Hk : (kind_of_value <$> a) !! k = (kind_of_value <$> b) !! k) by (rewrite H; reflexivity).
  rewrite !lookup_fmap in Hk.
  destruct (decide (k ∈ c :: cols)) as [Hin|Hnin].
  - destruct (a !! k) as [x|] eqn:Ha, (b !! k) as [y|] eqn:Hb; simpl in Hk; try discriminate.
    + rewrite (map_filter_lookup_Some_2 _ _ _ _ Ha Hin), (map_filter_lookup_Some_2 _ _ _ _ Hb Hin). exact Hk.
    + rewrite (proj2 (map_filter_lookup_None _ _ _)) by (left; exact Ha).
      rewrite (proj2 (map_filter_lookup_None _ _ _)) by (left; exact Hb). reflexivity.
  - rewrite (proj2 (map_filter_lookup_None _ a k)) by (right; intros ? ?; exact Hnin).
    rewrite (proj2 (map_filter_lookup_None _ b k)) by (right; intros ? ?; exact Hnin). reflexivity.
Qed.

(** per row: applying the entry to the projected old row gives the projected
    new row, in both encodings, when every kind of change is selected *)
Lemma akey_nkey e q o n :
  all_kinds q ->
  match o, n with Some a, Some b => compat a b | _, _ => True end ->
  akey (pc q <$> o) (nkey e q o n) = pc q <$> n.
Proof.
  intros (Hi & Hd & Hm) Hc. unfold nkey.
  destruct o as [a|], n as [b|]; simpl.
  - destruct (decide (row_diff (pc q a) (pc q b) = ∅)) as [He|He].
    + simpl. f_equal. apply (proj1 (row_diff_empty_iff _ _ (pc_compat q a b Hc))). exact He.
    + rewrite Hm. destruct e; simpl; [reflexivity|]. f_equal. apply row_apply_diff. apply pc_compat. exact Hc.
  - rewrite Hd. destruct e; reflexivity.
  - rewrite Hi. destruct e; reflexivity.
  - reflexivity.
Qed.

Definition tbl_typed (τ : gmap sym kind) (tb : gmap sym (gmap sym value)) : Prop :=
  forall u r, tb !! u = Some r -> row_ty r = τ.

(** C07, table level: the notification applied to the monitored part of the
    table before the transaction yields the monitored part after it *)
Theorem notify_tbl_exact e q τ tb tb' :
  all_kinds q -> tbl_typed τ tb -> tbl_typed τ tb' ->
  apply_tbl (pc q <$> tb) (notify_tbl e q tb tb') = pc q <$> tb'.
Proof.
  intros Hk Ht Ht'. apply map_eq. intros u. unfold apply_tbl, notify_tbl.
  rewrite lookup_merge, lookup_merge, !lookup_fmap.
  destruct (tb !! u) as [a|] eqn:Ha, (tb' !! u) as [b|] eqn:Hb; cbn [fmap option_fmap option_map diag_None].
  - apply (akey_nkey e q (Some a) (Some b) Hk). unfold compat. rewrite (Ht _ _ Ha), (Ht' _ _ Hb). reflexivity.
  - exact (akey_nkey e q (Some a) None Hk I).
  - pose proof (akey_nkey e q None (Some b) Hk I) as H. cbn [fmap option_fmap option_map] in H.
    destruct (nkey e q None (Some b)); exact H.
  - reflexivity.
Qed.

(** minimality: with every kind selected a row has an entry exactly when its
    monitored part changed, appeared or disappeared *)
Theorem nkey_none_iff e q o n :
  all_kinds q ->
  match o, n with Some a, Some b => compat a b | _, _ => True end ->
  (nkey e q o n = None <-> pc q <$> o = pc q <$> n).
Proof.
  intros (Hi & Hd & Hm) Hc. unfold nkey. destruct o as [a|], n as [b|]; simpl.
  - destruct (decide (row_diff (pc q a) (pc q b) = ∅)) as [He|He].
    + split; [|reflexivity]. intros _. f_equal. apply (proj1 (row_diff_empty_iff _ _ (pc_compat q a b Hc))). exact He.
    + rewrite Hm. split; [destruct e; discriminate|]. intros [= Heq]. exfalso. apply He.
      rewrite Heq. apply row_diff_empty_iff; reflexivity.
  - rewrite Hd. split; [destruct e; discriminate|discriminate].
  - rewrite Hi. split; [destruct e; discriminate|discriminate].
  - tauto.
Qed.

(** a modify entry carries exactly the monitored columns that changed *)
Theorem modify_carries_changed_columns q a b df c :
  compat a b -> nkey V2 q (Some a) (Some b) = Some (EModify df) ->
  (is_Some (df !! c) <-> (pc q a) !! c <> (pc q b) !! c).
Proof.
  intros Hc. unfold nkey. case_decide as He; [discriminate|].
  destruct (mr_modify q); [|discriminate]. intros [= <-].
  rewrite lookup_row_diff. pose proof (compat_lookup _ _ c (pc_compat q a b Hc)) as Hl.
  destruct (pc q a !! c) as [x|], (pc q b !! c) as [y|]; try tauto.
  - destruct (vdiff x y) as [d|] eqn:Hd.
    + split; [|eauto]. intros _ [= Heq]. subst. rewrite (proj2 (vdiff_none_iff y y Hl) eq_refl) in Hd. discriminate.
    + apply (proj1 (vdiff_none_iff x y Hl)) in Hd. subst. split; [intros [? ?]; discriminate|congruence].
  - split; [intros [? ?]; discriminate|congruence].
Qed.

(** nothing is sent for a table, and nothing at all, when nothing monitored changed *)
Theorem notify_tbl_unchanged e q tb : notify_tbl e q tb tb = ∅.
Proof.
  apply map_eq. intros u. unfold notify_tbl. rewrite lookup_merge, lookup_empty.
  destruct (tb !! u) as [a|]; simpl; [|reflexivity].
  rewrite decide_True; [reflexivity|]. apply row_diff_empty_iff; reflexivity.
Qed.

Theorem notify_nothing_when_unchanged S R e d : notify S R e d d = None.
Proof.
  unfold notify. match goal with |- match ?l with _ => _ end = _ => assert (H : l = []) end.
  { induction (s_tables S) as [|T l IH]; [reflexivity|]. cbn [omap list_omap].
    destruct (req_for R (t_name T)); [|exact IH].
    cbv zeta. rewrite notify_tbl_unchanged. rewrite decide_True by reflexivity. exact IH. }
  rewrite H. reflexivity.
Qed.

(** only selected kinds: an insert / delete / modify entry only if selected *)
Theorem only_selected_kinds e q o n en :
  nkey e q o n = Some en ->
  match o, n with
  | None, Some _ => mr_insert q = true
  | Some _, None => mr_delete q = true
  | Some _, Some _ => mr_modify q = true
  | None, None => False
  end.
Proof.
  unfold nkey. destruct o, n; try discriminate.
  - case_decide; [discriminate|]. destruct (mr_modify q); [reflexivity|discriminate].
  - destruct (mr_delete q); [reflexivity|discriminate].
  - destruct (mr_insert q); [reflexivity|discriminate].
Qed.

(** only selected columns *)
Theorem only_selected_columns q r c : mr_cols q <> [] -> is_Some (pc q r !! c) -> c ∈ mr_cols q.
Proof.
  unfold pc. destruct (mr_cols q) as [|c0 cols] eqn:Hc; [congruence|]. intros _ [v Hv].
  apply map_filter_lookup_Some in Hv as [_ Hin]. exact Hin.
Qed.

(** at most one notification per transaction, in commit order: the stream has
    exactly one slot per submitted transaction *)
Theorem one_slot_per_transaction S R e : forall h d, length (monitored_run S R e d h) = length h.
Proof. induction h as [|ops h IH]; intros d; simpl; [reflexivity|]. rewrite IH. reflexivity. Qed.

(** a transaction with an error result sends nothing *)
Theorem failed_transaction_sends_nothing S R e d ops h :
  has_error (fst (transact S d ops)) = true ->
  monitored_run S R e d (ops :: h) = None :: monitored_run S R e d h.
Proof.
  intros Herr. simpl. rewrite (failed_txn_no_effect S d ops Herr).
  destruct (snd (transact S d ops)) as [w|] eqn:Hs; [|reflexivity].
  exfalso. assert (Hc : is_Some (snd (transact S d ops))) by (rewrite Hs; eauto).
  apply commits_iff_no_error in Hc. congruence.
Qed.
