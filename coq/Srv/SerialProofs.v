From LOV Require Import Srv.Serial.

Section Proofs.
Variable S : schema.
Variable txn : nat -> list op.
Notation wstep := (wstep S txn canonical_body).
Notation wrun := (wrun S txn canonical_body).
Notation serial := (serial S txn).

Lemma serial_snoc d order t :
  serial d (order ++ [t]) = serial_step S txn (serial d order) t.
Proof. unfold serial. rewrite fold_left_app. reflexivity. Qed.

Lemma notified_of_snoc done t o :
  notified_of (done ++ [(t, o)]) = notified_of done ++ (if committed o then [t] else []).
Proof. unfold notified_of. rewrite filter_app, map_app. cbn. destruct (committed o); reflexivity. Qed.

(** The invariant: the requests that took the lock so far are the serial order; all but possibly the last have
    finished; the database and the logs are those of the serial execution of the finished ones, plus whatever
    the request inside the critical section has done so far. *)
Definition Inv (d0 : dbstate) (w : world) : Prop :=
  NoDup (w_acq w) /\
  (forall t, t ∉ w_acq w -> w_pc w t = 0%nat /\ w_res w t = None) /\
  match w_lock w with
  | None =>
      (forall t, t ∈ w_acq w -> w_pc w t = 5%nat) /\
      serial d0 (w_acq w) = (w_db w, w_done w) /\ w_notified w = notified_of (w_done w)
  | Some h =>
      exists acq' dpre,
        w_acq w = acq' ++ [h] /\ (forall t, t ∈ acq' -> w_pc w t = 5%nat) /\
        serial d0 acq' = (dpre, w_done w) /\
        let o := transact S dpre (txn h) in
        (w_pc w h = 1%nat /\ w_db w = dpre /\ w_notified w = notified_of (w_done w)) \/
        (w_pc w h = 2%nat /\ w_db w = dpre /\ w_res w h = Some o /\ w_notified w = notified_of (w_done w)) \/
        (w_pc w h = 3%nat /\ w_db w = dpre /\ w_res w h = Some o /\ w_notified w = notified_of (w_done w ++ [(h, o)])) \/
        (w_pc w h = 4%nat /\ w_db w = commit dpre o /\ w_res w h = Some o /\ w_notified w = notified_of (w_done w ++ [(h, o)]))
  end.

Lemma inv_init d0 : Inv d0 (init_world d0).
Proof.
  unfold Inv, init_world; cbn. split; [constructor|]. split; [auto|].
  split; [intros t H; inversion H|]. split; reflexivity.
Qed.

Lemma fupd_same {A} (f : nat -> A) i v : fupd f i v i = v.
Proof. unfold fupd. rewrite Nat.eqb_refl. reflexivity. Qed.
Lemma fupd_other {A} (f : nat -> A) i j v : j <> i -> fupd f i v j = f j.
Proof. unfold fupd. intros H. apply Nat.eqb_neq in H. rewrite H. reflexivity. Qed.

Lemma body_at n : canonical_body !! n =
  match n with 0 => Some ALock | 1 => Some AExec | 2 => Some ANotify | 3 => Some ACommit | 4 => Some AUnlock | _ => None end%nat.
Proof. do 5 (destruct n as [|n]; [reflexivity|]). reflexivity. Qed.

Lemma inv_step d0 w t : Inv d0 w -> Inv d0 (wstep w t).
Proof.
  intros (Hnd & Hout & Hin). unfold Serial.wstep. rewrite body_at.
  destruct (decide (t ∈ w_acq w)) as [Hacq|Hnacq].
  - (* t has taken the lock before *)
    destruct (w_lock w) as [h|] eqn:El.
    + destruct Hin as (acq' & dpre & Eacq & Hfin & Hser & Hcase).
      destruct (decide (t = h)) as [->|Hne].
      * (* the holder moves *)
        destruct Hcase as [(Hpc & Hdb & Hn)|[(Hpc & Hdb & Hr & Hn)|[(Hpc & Hdb & Hr & Hn)|(Hpc & Hdb & Hr & Hn)]]]; rewrite Hpc.
        -- (* exec *)
           unfold Inv; cbn [w_db w_lock w_pc w_res w_notified w_acq w_done]. try rewrite El. split; [exact Hnd|]. split.
           { intros t' Ht'. assert (t' <> h) by (intros ->; apply Ht'; rewrite Eacq; set_solver).
             rewrite !fupd_other by assumption. apply Hout, Ht'. }
           exists acq', dpre. split; [exact Eacq|]. split.
           { intros t' Ht'. rewrite fupd_other; [apply Hfin, Ht'|].
             intros ->. rewrite Eacq in Hnd. apply NoDup_app in Hnd as (_ & Hd & _). apply (Hd h Ht'). set_solver. }
           split; [exact Hser|]. right. left. rewrite !fupd_same, Hdb. auto.
        -- (* notify *)
           unfold Inv; cbn [w_db w_lock w_pc w_res w_notified w_acq w_done]. try rewrite El. split; [exact Hnd|]. split.
           { intros t' Ht'. assert (t' <> h) by (intros ->; apply Ht'; rewrite Eacq; set_solver).
             rewrite !fupd_other by assumption. apply Hout, Ht'. }
           exists acq', dpre. split; [exact Eacq|]. split.
           { intros t' Ht'. rewrite fupd_other; [apply Hfin, Ht'|].
             intros ->. rewrite Eacq in Hnd. apply NoDup_app in Hnd as (_ & Hd & _). apply (Hd h Ht'). set_solver. }
           split; [exact Hser|]. right. right. left. rewrite fupd_same, Hr.
           split; [reflexivity|]. split; [exact Hdb|]. split; [reflexivity|].
           rewrite notified_of_snoc, Hn.
           destruct (committed _); [reflexivity|rewrite app_nil_r; reflexivity].
        -- (* commit *)
           unfold Inv; cbn [w_db w_lock w_pc w_res w_notified w_acq w_done]. try rewrite El. split; [exact Hnd|]. split.
           { intros t' Ht'. assert (t' <> h) by (intros ->; apply Ht'; rewrite Eacq; set_solver).
             rewrite !fupd_other by assumption. apply Hout, Ht'. }
           exists acq', dpre. split; [exact Eacq|]. split.
           { intros t' Ht'. rewrite fupd_other; [apply Hfin, Ht'|].
             intros ->. rewrite Eacq in Hnd. apply NoDup_app in Hnd as (_ & Hd & _). apply (Hd h Ht'). set_solver. }
           split; [exact Hser|]. right. right. right. rewrite fupd_same, Hr, Hdb. auto.
        -- (* unlock *)
           unfold Inv; cbn [w_db w_lock w_pc w_res w_notified w_acq w_done]. try rewrite El. rewrite bool_decide_eq_true_2 by reflexivity. rewrite Hr. split; [exact Hnd|]. split.
           { intros t' Ht'. assert (t' <> h) by (intros ->; apply Ht'; rewrite Eacq; set_solver).
             rewrite !fupd_other by assumption. apply Hout, Ht'. }
           split.
           { intros t' Ht'. rewrite Eacq in Ht'. apply elem_of_app in Ht' as [Ht'|Ht'].
             - rewrite fupd_other; [apply Hfin, Ht'|].
               intros ->. rewrite Eacq in Hnd. apply NoDup_app in Hnd as (_ & Hd & _). apply (Hd h Ht'). set_solver.
             - apply elem_of_list_singleton in Ht' as ->. apply fupd_same. }
           split; [|exact Hn].
           rewrite Eacq, serial_snoc, Hser. unfold serial_step. cbn. rewrite Hdb. reflexivity.
      * (* a finished request: nothing to do *)
        assert (Ht : t ∈ acq') by (rewrite Eacq in Hacq; set_solver).
        rewrite (Hfin t Ht). unfold Inv. try rewrite El. split; [exact Hnd|]. split; [exact Hout|].
        exists acq', dpre. auto.
    + destruct Hin as (Hfin & Hser & Hn). rewrite (Hfin t Hacq). unfold Inv. try rewrite El. auto.
  - (* t has not started: it tries to take the lock *)
    destruct (Hout t Hnacq) as [Hpc Hres]. rewrite Hpc.
    destruct (w_lock w) as [h|] eqn:El.
    + unfold Inv. try rewrite El. auto.
    + destruct Hin as (Hfin & Hser & Hn). unfold Inv; cbn. split.
      { apply NoDup_app. split; [exact Hnd|]. split; [|apply NoDup_singleton].
        intros x Hx Hx'. apply elem_of_list_singleton in Hx' as ->. exact (Hnacq Hx). }
      split.
      { intros t' Ht'. assert (t' <> t) by (intros ->; apply Ht'; set_solver).
        rewrite fupd_other by assumption. apply Hout. set_solver. }
      exists (w_acq w), (w_db w). split; [reflexivity|]. split.
      { intros t' Ht'. rewrite fupd_other; [apply Hfin, Ht'|]. intros ->. exact (Hnacq Ht'). }
      split; [exact Hser|]. left. rewrite fupd_same. auto.
Qed.

Lemma inv_run d0 w sch : Inv d0 w -> Inv d0 (wrun w sch).
Proof.
  revert w. induction sch as [|t sch IH]; intros w H; [exact H|]. cbn. apply IH, inv_step, H.
Qed.

(** Serialisability: under every schedule, whenever nobody is inside Transact, the database, the outcome each
    finished request received and the order in which monitors were notified are those of executing the requests
    one after another in the order in which they took the lock. *)
Theorem serialisable d0 sch :
  let w := wrun (init_world d0) sch in
  quiescent w ->
  serial d0 (w_acq w) = (w_db w, w_done w) /\
  w_notified w = notified_of (w_done w) /\
  (forall t, t ∈ w_acq w -> w_pc w t = 5%nat) /\
  (forall t, t ∉ w_acq w -> w_pc w t = 0%nat).
Proof.
  intros w Hq. pose proof (inv_run d0 _ sch (inv_init d0)) as (Hnd & Hout & Hin). fold w in Hnd, Hout, Hin.
  unfold quiescent in Hq. rewrite Hq in Hin. destruct Hin as (Hfin & Hser & Hn).
  split; [exact Hser|]. split; [exact Hn|]. split; [exact Hfin|]. intros t Ht. apply (Hout t Ht).
Qed.

(** mutual exclusion: at most one request is inside the critical section *)
Theorem mutual_exclusion d0 sch t1 t2 :
  let w := wrun (init_world d0) sch in
  (0 < w_pc w t1 < 5)%nat -> (0 < w_pc w t2 < 5)%nat -> t1 = t2.
Proof.
  intros w H1 H2. pose proof (inv_run d0 _ sch (inv_init d0)) as (Hnd & Hout & Hin). fold w in Hnd, Hout, Hin.
  assert (Hacq : forall t, (0 < w_pc w t)%nat -> t ∈ w_acq w).
  { intros t Ht. destruct (decide (t ∈ w_acq w)) as [|Hn]; [assumption|]. destruct (Hout t Hn). lia. }
  destruct (w_lock w) as [h|].
  - destruct Hin as (acq' & dpre & Eacq & Hfin & _).
    assert (forall t, (0 < w_pc w t < 5)%nat -> t = h).
    { intros t Ht. assert (Hin : t ∈ w_acq w) by (apply Hacq; lia). rewrite Eacq in Hin.
      apply elem_of_app in Hin as [Hin|Hin]; [rewrite (Hfin t Hin) in Ht; lia|].
      apply elem_of_list_singleton in Hin. exact Hin. }
    rewrite (H t1 H1), (H t2 H2). reflexivity.
  - destruct Hin as (Hfin & _). rewrite (Hfin t1) in H1; [lia|]. apply Hacq. lia.
Qed.
End Proofs.

(** for the body read off the source: the generated fact [body_serial extracted_body = true] makes this apply *)
Theorem extracted_body_serialisable S txn body d0 sch :
  body_serial body = true ->
  let w := wrun S txn body (init_world d0) sch in
  quiescent w ->
  serial S txn d0 (w_acq w) = (w_db w, w_done w) /\ w_notified w = notified_of (w_done w).
Proof.
  intros Hb. apply bool_decide_eq_true in Hb. subst body. intros w Hq.
  destruct (serialisable S txn d0 sch Hq) as (H1 & H2 & _). auto.
Qed.

(** Without the lock the property fails: two increments of a counter interleaved as exec, exec, commit, commit
    lose one.  (The body below drops ALock/AUnlock.) *)
Definition unlocked_body : list act := [AExec; ANotify; ACommit].

Definition ctr_schema : schema :=
  mkSchema [mkTable 10%N [mkCol 11%N (mkColTy KAtom (mkBase TInt [] None) None 1 (Some 1%nat)) true] [] true].
Definition ctr_db : dbstate := {[ 10%N := {[ 20%N := {[ 11%N := VAtom (AInt 0) ]} ]} ]}.
Definition ctr_incr (_ : nat) : list op := [OMutate 10%N [] [(11%N, MAdd, VAtom (AInt 1))]].

Lemma unlocked_body_refuted :
  let w := wrun ctr_schema ctr_incr unlocked_body (init_world ctr_db) [0; 1; 0; 0; 1; 1]%nat in
  w_pc w 0%nat = 3%nat /\ w_pc w 1%nat = 3%nat /\ w_notified w = [0; 1]%nat /\
  bool_decide (w_db w = (serial ctr_schema ctr_incr ctr_db [0; 1]%nat).1) = false /\
  bool_decide (w_db w = (serial ctr_schema ctr_incr ctr_db [1; 0]%nat).1) = false.
Proof. vm_compute. repeat split. Qed.
