(** Correspondence for C13: sequences of reads, caller-side mutations and
    writes on a real cache against the heap model with deep-copying
    reads and writes. *)
From LOV Require Export Iso.Heap Corr.Common.
From Coq Require Import List.
Import ListNotations.

Inductive nfield := NScalar (a : atom) | NRef (v : option lvalue).
Inductive oop :=
| ONew (l : list (sym * nfield))            (* the caller builds a model *)
| OGet (u : sym)                            (* any read path returning a model of row u *)
| OPut (u : sym) (i : nat)                  (* Create / Update with the caller's i-th model *)
| OSet (i : nat) (k : sym) (f : nfield)     (* overwrite a scalar field, or set a reference to nil *)
| OWrite (i : nat) (k : sym) (v : lvalue)   (* write through the reference in field k *)
| ONewRef (i : nat) (k : sym) (v : lvalue). (* field k takes a freshly made pointer / slice / map *)

Definition obs := list (sym * list (sym * option lvalue)).
Definition case := list (oop * obs).

Fixpoint alloc (h : heap) (l : list (sym * nfield)) : heap * gmodel :=
  match l with
  | [] => (h, [])
  | (k, NScalar a) :: l' => let '(h', m) := alloc h l' in (h', (k, FScalar a) :: m)
  | (k, NRef None) :: l' => let '(h', m) := alloc h l' in (h', (k, FRef None) :: m)
  | (k, NRef (Some v)) :: l' =>
      let x := fresh_loc h in
      let '(h', m) := alloc (<[x := v]> h) l' in (h', (k, FRef (Some x)) :: m)
  end.

Fixpoint field_loc (m : gmodel) (k : sym) : option loc :=
  match m with
  | [] => None
  | (k', f) :: m' => if N.eqb k' k then match f with FRef (Some x) => Some x | _ => None end else field_loc m' k
  end.

Definition write_field (s : sys) (i : nat) (k : sym) (v : lvalue) : option sys :=
  m ← s_held s !! i; x ← field_loc m k; Some (step clone s (CWrite i x v)).

Definition run_op (s : sys) (o : oop) : option sys :=
  match o with
  | ONew l => let '(h, m) := alloc (s_heap s) l in Some (mkSys h (s_cache s) (s_held s ++ [m]))
  | OGet u => Some (step clone s (CGet u))
  | OPut u i => Some (step clone s (CPut u i))
  | OSet i k (NScalar a) => Some (step clone s (CSetField i k (FScalar a)))
  | OSet i k (NRef _) => Some (step clone s (CSetField i k (FRef None)))
  | OWrite i k v => write_field s i k v
  | ONewRef i k v => write_field (step clone s (CSetField i k (FRef (Some 0%N)))) i k v
  end.

Definition is_empty_obs (v : option lvalue) : bool :=
  match v with None | Some (LSet []) | Some (LMap []) | Some (LOpt None) => true | _ => false end.
Definition obs_eq (a b : option lvalue) : bool :=
  (is_empty_obs a && is_empty_obs b) ||
  match a, b with
  | Some (LMap x), Some (LMap y) => bool_decide (canon (LMap x) = canon (LMap y))
  | Some x, Some y => bool_decide (x = y)
  | _, _ => false
  end.

Fixpoint row_eq (a b : list (sym * option lvalue)) : bool :=
  match a, b with
  | [], [] => true
  | (k, v) :: a', (k', v') :: b' => N.eqb k k' && obs_eq v v' && row_eq a' b'
  | _, _ => false
  end.

Definition obs_ok (s : sys) (o : obs) : bool :=
  Nat.eqb (size (s_cache s)) (length o) &&
  forallb (fun ur => match visible s ur.1 with Some r => row_eq r ur.2 | None => false end) o.

Fixpoint check_ops (s : sys) (l : case) : nat :=
  match l with
  | [] => 0
  | (o, ob) :: l' =>
      match run_op s o with
      | None => 9
      | Some s' => if obs_ok s' ob then check_ops s' l' else 1
      end
  end%nat.

Definition check (c : case) : nat := check_ops (mkSys ∅ ∅ []) c.
Definition run := run_cases check.
