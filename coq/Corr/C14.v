(** Correspondence for C14: the events delivered by a real TableCache for a
    history of notifications against the model's. *)
From LOV Require Export Cache.Events Corr.Rows Corr.Common.
From Coq Require Import List.
Import ListNotations.

Inductive oev := OAdd (t u : sym) (n : lrow) | OUpd (t u : sym) (o n : lrow) | ODel (t u : sym) (o : lrow).
Definition mk_ev (e : oev) : event :=
  match e with
  | OAdd t u n => EvAdd t u (mkrow n)
  | OUpd t u o n => EvUpd t u (mkrow o) (mkrow n)
  | ODel t u o => EvDel t u (mkrow o)
  end.

Record step := mkStep {
  st_changes : list (sym * sym * bool * option lrow);     (* rows of the notification with the state they take *)
  st_ok : bool;                                    (* the cache accepted the notification *)
  st_events : list (list oev);                     (* what each handler saw for it, in delivery order *)
  st_cache : list (sym * list (sym * lrow)) }.     (* cache contents afterwards *)

Definition case := list step.

Definition mk_change (ch : sym * sym * bool * option lrow) : rowchange := (ch.1.1.1, ch.1.1.2, ch.1.2, mkrow <$> ch.2).

Definition perm_eqb (a b : list event) : bool :=
  Nat.eqb (length a) (length b) && forallb (fun e => bool_decide (e ∈ b)) a && forallb (fun e => bool_decide (e ∈ a)) b.

Definition cache_matches (c : tcache) (obs : list (sym * list (sym * lrow))) : bool :=
  forallb (fun tl => bool_decide (tc_get c tl.1 = list_to_map (map (fun ur => (ur.1, mkrow ur.2)) tl.2))) obs.

Fixpoint check_steps (c : tcache) (l : list step) : nat :=
  match l with
  | [] => 0
  | s :: l' =>
      let '(c', es, ok) := apply_rows c (map mk_change (st_changes s)) in
      let t := first_fail
        [ (1, Bool.eqb ok (st_ok s));
          (2, forallb (fun log => perm_eqb (map mk_ev log) es) (st_events s));
          (3, forallb (fun log => bool_decide (replay c (map mk_ev log) = Some c')) (st_events s));
          (4, cache_matches c' (st_cache s)) ] in
      if Nat.eqb t 0 then check_steps c' l' else t
  end%nat.

Definition check (c : case) : nat := check_steps ∅ c.
Definition run := run_cases check.
