(** Correspondence for C18: the lock discipline theorem predicts that every
    call of a scenario completes; the harness reports, per scenario, which API
    calls returned within their (generous) deadline and whether a reader saw
    a row mixing two versions. *)
From LOV Require Export Cli.Locks Corr.Common.
From Coq Require Import List.
Import ListNotations.

Record case := mkCase { c_calls : list (N * bool);     (* (call kind, returned in time) *)
                        c_mixed_rows : nat }.          (* rows read with fields of two versions *)

Definition check (c : case) : nat :=
  first_fail [ (1, forallb snd (c_calls c)); (2, Nat.eqb (c_mixed_rows c) 0) ]%nat.
Definition run := run_cases check.
