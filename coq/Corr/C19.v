(** Correspondence for C19: every decoder of the wire model against the
    implementation's UnmarshalJSON on the same generic tree: outcome class
    (0 value, 1 error, 2 panic) and, for values, the decoded value. *)
From LOV Require Export Wire.Decode Wire.SchemaCodec Wire.Messages Corr.Common.
From Coq Require Import List.
Import ListNotations.

Inductive target := TSet | TMap | TUuid | TRow | TCond | TMut | TBase | TColTy | TColumn
  (* messages (Wire/Messages.v): the outcome class only, the value is C12's business *)
  | TRu | TRu2 | TSince | TRes | TMon.
Record case := mkCase { c_t : target; c_in : gval; c_class : nat; c_out : gval }.

Definition FUEL := 64%nat.

Definition triple_out (r : res (sym * sym * gval)) : res gval :=
  t <- r ;; Ok (GArr [GStr t.1.1; GStr t.1.2; t.2]).

Definition model_out (t : target) (j : gval) : res gval :=
  match t with
  | TSet => dec_set FUEL j
  | TMap => dec_map FUEL j
  | TUuid => dec_uuid j
  | TRow => r <- dec_row FUEL j ;; Ok (GObj r)
  | TCond => triple_out (dec_condition FUEL j)
  | TMut => triple_out (dec_mutation FUEL j)
  | TBase => b <- dec_base j ;; Ok (enc_base b)
  | TColTy => c <- dec_colty j ;; Ok (enc_colty c)
  | TColumn => c <- dec_column j ;; Ok (enc_column c)
  | TRu => _ <- dec_tables (dec_ru FUEL) j ;; Ok GNull
  | TRu2 => _ <- dec_tables (dec_ru2 FUEL) j ;; Ok GNull
  | TSince => _ <- dec_since FUEL j ;; Ok GNull
  | TRes => _ <- dec_result FUEL j ;; Ok GNull
  | TMon => _ <- dec_monreq FUEL j ;; Ok GNull
  end.

Definition check (c : case) : nat :=
  match model_out (c_t c) (c_in c) with
  | Ok v => if Nat.eqb (c_class c) 0 then (if geqv FUEL v (c_out c) then 0 else 2) else 1
  | Err _ => if Nat.eqb (c_class c) 1 then 0 else 1
  | Panic => if Nat.eqb (c_class c) 2 then 0 else 1
  end%nat.

Definition run := run_cases check.
