(** Correspondence for C09: NativeToOvs / OvsToNative of the model against
    ovsdb/bindings.go on the same column types and values. *)
From LOV Require Export Map.NativeOvs Corr.Common.
From Coq Require Import List.
Import ListNotations.

Inductive case :=
| CFwd (ct : colty) (v : lvalue) (class : nat) (g : gval)       (* NativeToOvs *)
| CBack (ct : colty) (g : gval) (class : nat) (v : lvalue)      (* OvsToNative *)
| CRow (cols : list column) (m : nmodel) (class : nat) (r : list (sym * gval))                 (* Mapper.NewRow *)
| CRowF (cols : list column) (m : nmodel) (fs : list sym) (class : nat) (r : list (sym * gval)) (* Mapper.NewRow with explicit fields *)
| CGet (cols : list column) (r : list (sym * gval)) (m0 : nmodel) (class : nat) (m' : nmodel). (* Mapper.GetRowData *)

Definition FUEL := 64%nat.

Definition lv_same (a b : lvalue) : bool :=
  match a, b with
  | LMap _, LMap _ => bool_decide (canon a = canon b)
  | _, _ => bool_decide (a = b)
  end.

Definition big (z : Z) : bool := (9007199254740992 <? Z.abs z)%Z.
Definition atom_big (a : atom) : bool := match a with AInt z => big z | _ => false end.
Definition lv_big (v : lvalue) : bool :=
  match v with
  | LAtom a => atom_big a
  | LOpt (Some a) => atom_big a
  | LOpt None => false
  | LSet l => existsb atom_big l
  | LMap l => existsb (fun kv => atom_big kv.1 || atom_big kv.2) l
  end.

(** integers that a 64-bit float rounds to 2^63: decoded through float64 they are outside the 64-bit range *)
Definition edge (z : Z) : bool := (9223372036854775296 <=? z)%Z.
Definition atom_edge (a : atom) : bool := match a with AInt z => edge z | _ => false end.
Definition lv_edge (v : lvalue) : bool :=
  match v with
  | LAtom a => atom_edge a
  | LOpt (Some a) => atom_edge a
  | LOpt None => false
  | LSet l => existsb atom_edge l
  | LMap l => existsb (fun kv => atom_edge kv.1 || atom_edge kv.2) l
  end.

Fixpoint nm_same (a b : nmodel) : nat :=
  match a, b with
  | [], [] => 0
  | (c, v) :: a', (c', v') :: b' =>
      if negb (N.eqb c c') then 7
      else if lv_same v v' then nm_same a' b'
      else if lv_big v then 113 else 7
  | _, _ => 7
  end%nat.

Definition check (c : case) : nat :=
  match c with
  | CFwd ct v class g =>
      match native_to_ovs ct v with
      | Ok g' => if Nat.eqb class 0 then (if geqv FUEL g' g then 0 else 2) else 1
      | Err _ => if Nat.eqb class 1 then 0 else 1
      | Panic => 1
      end
  | CBack ct g class v =>
      match ovs_to_native ct g with
      | Ok v' => if Nat.eqb class 0 then (if lv_same v' v then 0 else if lv_big v' then 113 else 4)
                 else if lv_edge v' then 113 else 3
      | Err _ => if Nat.eqb class 1 then 0 else 3
      | Panic => 3
      end
  | CRow cols m class r =>
      match new_row (mkTable 0%N cols [] true) m with
      | Ok r' => if Nat.eqb class 0 then (if geqv FUEL (GObj r') (GObj r) then 0 else 6) else 5
      | Err _ => if Nat.eqb class 1 then 0 else 5
      | Panic => 5
      end
  | CRowF cols m fs class r =>
      match new_row_fields (mkTable 0%N cols [] true) m fs with
      | Ok r' => if Nat.eqb class 0 then (if geqv FUEL (GObj r') (GObj r) then 0 else 6) else 5
      | Err _ => if Nat.eqb class 1 then 0 else 5
      | Panic => 5
      end
  | CGet cols r m0 class m' =>
      match get_row_data (mkTable 0%N cols [] true) r m0 with
      | Ok m1 => if Nat.eqb class 0 then nm_same m1 m' else if existsb (fun cv => lv_edge cv.2) m1 then 113 else 8
      | Err _ => if Nat.eqb class 1 then 0 else 8
      | Panic => 8
      end
  end%nat.

Definition run := run_cases check.
