(** Correspondence runner for C05: sequences of batches / direct calls on a
    real cache.TableCache against the RowCache model; after every step the
    rows, every index (as a partition of UUIDs), and lookups by model are
    compared. *)
From LOV Require Export Corr.Common Corr.Rows Cache.Index.

Inductive lchange := LCh (u : sym) (old new : option lrow).
Inductive step :=
| SBatch (chs : list lchange)                 (* ApplyCacheUpdate, in this order *)
| SCreate (u : sym) (r : lrow) (chk : bool)
| SUpdate (u : sym) (r : lrow) (chk : bool)
| SDelete (u : sym)
| SPurge.                                     (* TableCache.Purge: an empty cache with empty indexes *)

Record probe := mkProbe { p_uuid : option sym; p_vals : lrow; p_client : bool; o_hits : list sym }.
Record snap := mkSnap {
  s_err : nat;                          (* 0 ok, 1 cache inconsistent, 2 index exists, 3 other *)
  s_rows : list (sym * lrow);
  s_groups : list (list (list sym));    (* per index spec: the uuid groups of Index() *)
  s_probes : list probe
}.
Record case := mk { c_specs : list ispec; c_steps : list (step * snap) }.

Definition mk_change (c : lchange) : change :=
  match c with LCh u o n => mkChange u (option_map mkrow o) (option_map mkrow n) end.

Definition cerr_code (e : cerr) : nat := match e with CInconsistent => 1 | CIndexExists => 2 end.

(** a failing batch keeps what was applied before the failure *)
Fixpoint batch_partial (T : table) (specs : list ispec) (c : rc) (b : list change) : nat * rc :=
  match b with
  | [] => (0, c)
  | ch :: b' =>
    match apply_change T specs c ch with
    | COk c' => batch_partial T specs c' b'
    | CErr e => (cerr_code e, c)
    end
  end.

Definition lift (c : rc) (r : cres rc) : nat * rc :=
  match r with COk c' => (0, c') | CErr e => (cerr_code e, c) end.

Definition do_step (T : table) (specs : list ispec) (c : rc) (s : step) : nat * rc :=
  match s with
  | SBatch chs => batch_partial T specs c (map mk_change chs)
  | SCreate u r chk => lift c (rc_create T specs chk c u (mkrow r))
  | SUpdate u r chk => lift c (rc_update T specs chk c u (mkrow r))
  | SDelete u => lift c (rc_delete T specs c u)
  | SPurge => (0, rc_empty specs)
  end.

Definition groups_of (m : idx1) : gset (gset sym) := list_to_set (snd <$> map_to_list m).
Definition obs_groups (g : list (list sym)) : gset (gset sym) := list_to_set (list_to_set <$> g).

Fixpoint groups_ok (idx : list idx1) (obs : list (list (list sym))) : bool :=
  match idx, obs with
  | [], [] => true
  | m :: idx', g :: obs' => bool_decide (groups_of m = obs_groups g) && groups_ok idx' obs'
  | _, _ => false
  end.

Definition probe_ok (T : table) (specs : list ispec) (c : rc) (p : probe) : bool :=
  bool_decide (rows_by_model T specs (p_client p) c (p_uuid p) (mkrow (p_vals p)) = list_to_set (o_hits p)).

Definition check_snap (T : table) (specs : list ispec) (code : nat) (c : rc) (s : snap) : nat :=
  first_fail [
    (1, Nat.eqb code (s_err s));
    (2, bool_decide (rc_rows c = list_to_map ((fun ur => (fst ur, mkrow (snd ur))) <$> s_rows s)));
    (3, groups_ok (rc_idx c) (s_groups s));
    (4, forallb (probe_ok T specs c) (s_probes s))
  ].

Fixpoint check_steps (T : table) (specs : list ispec) (c : rc) (i : nat) (l : list (step * snap)) : nat :=
  match l with
  | [] => 0
  | (s, sn) :: l' =>
    let '(code, c') := do_step T specs c s in
    match check_snap T specs code c' sn with
    | 0 => check_steps T specs c' (S i) l'
    | t => 10 * (S i) + t      (* step number and observable *)
    end
  end.

Definition check (T : table) (c : case) : nat :=
  let t := check_steps T (c_specs c) (rc_empty (c_specs c)) 0 (c_steps c) in
  if Nat.ltb 99 t then 90 + Nat.modulo t 10 else t.

Definition run (T : table) := run_cases (check T).
