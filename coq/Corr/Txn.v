(** Shared correspondence runner for the transaction engine (C02, C03, C04,
    C06, C15): a history of transactions is executed by the real in-memory
    database (Transaction.Transact, then Commit when no result carries an
    error) and by [transact]; after every transaction the results, the whole
    database contents and the reference index are compared. *)
From LOV Require Export Corr.Common Corr.Rows Db.Txn Db.NamedUUID.

Inductive lop :=
| LOInsert (t u : sym) (w : lrow)
| LOSelect (t : sym) (wh : list lcond) (cols : list sym)
| LOUpdate (t : sym) (wh : list lcond) (w : lrow)
| LOMutate (t : sym) (wh : list lcond) (ms : list lmut)
| LODelete (t : sym) (wh : list lcond)
| LOWait (t : sym) (wh : list lcond) (cols : list sym) (until_eq : bool) (rows : list lrow)
| LOOther.

Definition mk_op (o : lop) : op :=
  match o with
  | LOInsert t u w => OInsert t u (mkrow w)
  | LOSelect t wh cols => OSelect t (map mk_cond wh) cols
  | LOUpdate t wh w => OUpdate t (map mk_cond wh) (mkrow w)
  | LOMutate t wh ms => OMutate t (map mk_cond wh) (map mk_mut ms)
  | LODelete t wh => ODelete t (map mk_cond wh)
  | LOWait t wh cols u rows => OWait t (map mk_cond wh) cols u (map mkrow rows)
  | LOOther => OOther
  end.

Inductive oresult :=
| OUuid (u : sym) | ORows (rs : list (sym * lrow)) | OCount (n : nat) | OEmpty | OErr (e : errcls) | ONull.

(** a reference as reported by Database.GetReferences:
    (from table, from uuid, column, is map value, to table, to uuid) *)
Notation oref := (sym * sym * sym * bool * sym * sym)%type.

Record tobs := mkTObs {
  t_results : list oresult;
  t_state : list (sym * list (sym * lrow));   (* every table: uuid -> row, after the transaction *)
  t_refs : list oref
}.

(** an operation with the uuid-name of an insert, if any *)
Notation nlop := (lop * option sym)%type.
Definition mk_nop (o : nlop) : nop := mkNop (mk_op (fst o)) (snd o).

(** the client API's Create (client/api.go): per model its _uuid field, whether that string is a well-formed uuid and
    whether it is a well-formed name; observed: the (uuid, uuid-name) members of the insert generated for it *)
Notation cmodel := (sym * bool * bool)%type.
Inductive case :=
| mk (c_schema : schema) (c_txns : list (list nlop * tobs))
| mkCreate (c_models : list cmodel) (c_ids : list (sym * sym))
(** a "transact" request as the server receives it, after the transactions [c_txns]: [None] is an operation that
    cannot be decoded; observed: the reply *)
| mkReq (c_schema : schema) (c_txns : list (list nlop * tobs)) (c_args : list (option nlop)) (c_reply : list oresult).

Definition find_T (S : schema) (t : sym) : table :=
  default (mkTable t [] [] true) (find_table S t).

Definition result_ok (S : schema) (t : sym) (r : result) (o : oresult) : bool :=
  match r, o with
  | RUuid u, OUuid u' => N.eqb u u'
  | RRows rs, ORows rs' =>
      (* row by row: the observed row names no column the result should not have, and - columns it leaves out being
         at their default - agrees with the expected row on the expected columns *)
      let m : gmap sym (gmap sym value) := list_to_map rs in
      forallb (fun ur => match m !! fst ur with
                         | Some r =>
                             let o := mkrow (snd ur) in
                             bool_decide (dom o ⊆ dom r) &&
                             bool_decide (filter (fun kv => fst kv ∈ dom r) (fill_row (find_T S t) o) = r)
                         | None => false
                         end) rs'
      && Nat.eqb (length rs) (length rs')
  | RCount n, OCount n' => Nat.eqb n n'
  | REmpty, OEmpty => true
  | RErr e, OErr e' => errcls_eqb e e'
  | RNull, ONull => true
  | _, _ => false
  end.

Definition op_table (o : op) : sym :=
  match o with
  | OInsert t _ _ | OSelect t _ _ | OUpdate t _ _ | OMutate t _ _ | ODelete t _ | OWait t _ _ _ _ => t
  | OOther => 0%N
  end.

Fixpoint results_ok (S : schema) (ops : list op) (rs : list result) (os : list oresult) : bool :=
  match rs, os with
  | [], [] => true
  | r :: rs', o :: os' =>
      let t := match ops with op :: _ => op_table op | [] => 0%N end in
      result_ok S t r o && results_ok S (tl ops) rs' os'
  | _, _ => false
  end.

Definition state_ok (d : dbstate) (obs : list (sym * list (sym * lrow))) : bool :=
  forallb (fun tr => bool_decide (get_tbl d (fst tr)
                                  = list_to_map ((fun ur => (fst ur, mkrow (snd ur))) <$> snd tr))) obs.

Definition model_refs (S : schema) (d : dbstate) : list oref :=
  (fun x => let '(ft, fu, c, (isv, tot, _, tu)) := x in (ft, fu, c, isv, tot, tu)) <$> db_refs S d.

Definition refs_ok (S : schema) (d : dbstate) (obs : list oref) : bool :=
  let m := model_refs S d in
  forallb (fun x => bool_decide (x ∈ obs)) m && forallb (fun x => bool_decide (x ∈ m)) obs.

Fixpoint check_txns (S : schema) (d : dbstate) (l : list (list nlop * tobs)) : nat :=
  match l with
  | [] => 0
  | (lops, ob) :: l' =>
    let nops := map mk_nop lops in
    let ops := match expand nops with Ok o => o | _ => map n_op nops end in
    let r := transact_named S d nops in
    let d' := commit d r in
    let t := first_fail [ (1, results_ok S ops (fst r) (t_results ob));
                          (2, state_ok d' (t_state ob));
                          (3, refs_ok S d' (t_refs ob)) ] in
    match t with
    | 0 => check_txns S d' l'
    | _ => t
    end
  end.

Fixpoint run_txns (S : schema) (d : dbstate) (l : list (list nlop * tobs)) : dbstate :=
  match l with
  | [] => d
  | (lops, _) :: l' => run_txns S (commit d (transact_named S d (map mk_nop lops))) l'
  end.

Definition check (c : case) : nat :=
  match c with
  | mk sch txns => check_txns sch ∅ txns
  | mkCreate ms ids => if bool_decide (map create_ids ms = ids) then 0 else 7
  | mkReq sch txns args reply =>
      match check_txns sch ∅ txns with
      | 0 =>
          let nargs := map (option_map mk_nop) args in
          let r := server_transact sch (run_txns sch ∅ txns) nargs in
          (* the table of an operation, for the comparison of selected rows *)
          let ops := map (fun a => match a with Some o => n_op o | None => OOther end) nargs in
          if results_ok sch ops (fst r) reply then 0 else 8
      | t => t
      end
  end.

Definition run := run_cases check.
