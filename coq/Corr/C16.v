(** Correspondence for C16: the client's cache after it reports being
    connected again and the stream is quiescent, against [reconnect_fixed]
    applied to the database contents at that time. *)
From LOV Require Export Cli.Reconnect Cli.Leader Corr.Rows Corr.Common.
From Coq Require Import List.
Import ListNotations.

Notation otables := (list (sym * list (sym * lrow))).

Record step := mkStep {
  st_monitors : list (list sym);     (* the tables of each monitor the client holds *)
  st_db : otables;                   (* database contents when the client is connected again and quiescent *)
  st_cache : otables }.              (* the client's cache then, every table of the schema *)


Definition tables_fun (o : otables) : tcachef :=
  fun t => match List.find (fun tl => N.eqb tl.1 t) o with
           | Some tl => list_to_map (map (fun ur => (ur.1, mkrow ur.2)) tl.2)
           | None => ∅
           end.

Definition step_ok (s : step) : bool :=
  let d := tables_fun (st_db s) in
  let c := tables_fun (st_cache s) in
  let want := reconnect_fixed d c (st_monitors s) in
  forallb (fun tl => bool_decide (c tl.1 = want tl.1)) (st_cache s).

Fixpoint check_steps (c : list step) : nat :=
  match c with
  | [] => 0
  | s :: c' => if step_ok s then check_steps c' else 1
  end%nat.

(** a leader-only client deciding where to attach: what every endpoint of its
    list, in the list's order, reports in _Server.Database, and the endpoint
    it ended up on ([None]: it refused them all) *)
Record ldecision := mkLeader { l_db : sym; l_eps : list (list srow); l_obs : option nat }.

Definition onat_eqb (a b : option nat) : bool :=
  match a, b with Some x, Some y => Nat.eqb x y | None, None => true | _, _ => false end.

Inductive case := CSteps (l : list step) | CLeader (d : ldecision).

Definition check (c : case) : nat :=
  match c with
  | CSteps l => check_steps l
  | CLeader d => if onat_eqb (choose_endpoint (l_db d) (l_eps d)) (l_obs d) then 0 else 2
  end%nat.

Definition run := run_cases check.
