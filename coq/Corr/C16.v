(** Correspondence for C16: the client's cache after it reports being
    connected again and the stream is quiescent, against [reconnect_fixed]
    applied to the database contents at that time. *)
From LOV Require Export Cli.Reconnect Corr.Rows Corr.Common.
From Coq Require Import List.
Import ListNotations.

Notation otables := (list (sym * list (sym * lrow))).

Record step := mkStep {
  st_monitors : list (list sym);     (* the tables of each monitor the client holds *)
  st_db : otables;                   (* database contents when the client is connected again and quiescent *)
  st_cache : otables }.              (* the client's cache then, every table of the schema *)
Definition case := list step.

Definition tables_fun (o : otables) : tcachef :=
  fun t => match List.find (fun tl => N.eqb tl.1 t) o with
           | Some tl => list_to_map (map (fun ur => (ur.1, mkrow ur.2)) tl.2)
           | None => ∅
           end.

Definition step_ok (s : step) : bool :=
  let d := tables_fun (st_db s) in
  let c := tables_fun (st_cache s) in
  let want := reconnect_fixed d c (st_monitors s) in
  forallb (fun tl => bool_decide (c tl.1 = want tl.1)) (st_cache s).

Fixpoint check (c : case) : nat :=
  match c with
  | [] => 0
  | s :: c' => if step_ok s then check c' else 1
  end%nat.

Definition run := run_cases check.
