(** List-layer rows and row operations as emitted by the harness, and their
    translation to the canonical model types. *)
From LOV Require Export Upd.Merge Upd.Cond.

Notation lrow := (list (sym * lvalue)).

Definition mkrow (l : lrow) : row := list_to_map (map (fun kv => (fst kv, canon (snd kv))) l).

Inductive lmut := LMut (c : sym) (m : mutator) (arg : lvalue).
Inductive lrop :=
| LInsert (w : lrow)
| LUpdate (w : lrow)
| LMutate (ms : list lmut)
| LDelete.

Definition mk_mut (m : lmut) : mutation := match m with LMut c mu a => (c, mu, canon a) end.
Definition mk_rop (o : lrop) : rop :=
  match o with
  | LInsert w => ROInsert (mkrow w)
  | LUpdate w => ROUpdate (mkrow w)
  | LMutate ms => ROMutate (map mk_mut ms)
  | LDelete => RODelete
  end.

Definition row_eqb (a b : row) : bool := bool_decide (a = b).
Definition orow_eqb (a b : option row) : bool := bool_decide (a = b).

Notation lcond := (sym * cfun * lvalue)%type.
Definition mk_cond (c : lcond) : cond := let '(col, f, v) := c in (col, f, canon v).
