(** Correspondence runner for C11: a sequence of operations on one row is
    accumulated by the real ModelUpdates (AddOperation on one accumulator, or
    Merge of separately built updates) and by [add_step]. *)
From LOV Require Export Corr.Common Corr.Rows.

Record obs := mkObs {
  ob_old : option lrow; ob_new : option lrow;   (* ForEachModelUpdate *)
  ob_kind : nat;                                 (* 0 insert, 1 modify, 2 delete *)
  ob_mod : lrow;                                 (* RowUpdate2.Modify *)
  ob_ruold : option lrow; ob_runew : option lrow; ob_ruins : option lrow;
  ob_getmodel : option lrow; ob_getrow : option lrow
}.

Record case := mk {
  c_s0 : option lrow; c_ops : list lrop;
  o_err : option nat;       (* index of the operation that returned an error *)
  o_upd : option obs        (* the accumulated update, None = no update *)
}.

Fixpoint run_ops (T : table) (acc : option mupd) (s : option row) (i : nat) (ops : list rop)
  : option nat * option mupd * option row :=
  match ops with
  | [] => (None, acc, s)
  | op :: ops' =>
    match rop_apply T s op with
    | Ok s' =>
      match add_step acc s s' with
      | Ok acc' => run_ops T acc' s' (S i) ops'
      | _ => (Some i, acc, s)
      end
    | _ => (Some i, acc, s)
    end
  end.

Definition onat_eqb (a b : option nat) : bool :=
  match a, b with Some x, Some y => Nat.eqb x y | None, None => true | _, _ => false end.

Definition filled (T : table) (r : option lrow) : option row := option_map (fun w => fill_row T (mkrow w)) r.

Definition check_upd (T : table) (u : option mupd) (o : option obs) : list (nat * bool) :=
  match u, o with
  | None, None => []
  | Some u, Some o =>
    [ (3, orow_eqb (mu_old u) (option_map mkrow (ob_old o)));
      (4, orow_eqb (mu_new u) (option_map mkrow (ob_new o)));
      (5, match mu_ru u, ob_kind o with
          | KIns, 0 => orow_eqb (mu_new u) (filled T (ob_ruins o))
          | KMod d, 1 => row_eqb d (mkrow (ob_mod o))
          | KDel, 2 => true
          | _, _ => false
          end);
      (6, orow_eqb (mu_old u) (filled T (ob_ruold o)));
      (7, orow_eqb (mu_new u) (filled T (ob_runew o)));
      (8, orow_eqb (mu_new u) (option_map mkrow (ob_getmodel o)));
      (9, orow_eqb (mu_new u) (filled T (ob_getrow o))) ]
  | _, _ => [(2, false)]
  end.

Definition check (T : table) (c : case) : nat :=
  let '(err, acc, _) := run_ops T None (option_map mkrow (c_s0 c)) 0 (map mk_rop (c_ops c)) in
  first_fail ((1, onat_eqb err (o_err c)) ::
              match err with Some _ => [] | None => check_upd T acc (o_upd c) end).

Definition run (T : table) := run_cases (check T).
