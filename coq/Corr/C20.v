(** Correspondence for C20: modelgen.FieldType / FieldTypeWithEnums and
    ovsdb.NativeType of decoded columns against the model. *)
From LOV Require Export Mgen.FieldType Wire.Decode Corr.Common.
From Coq Require Import List.
Import ListNotations.

(** the column's JSON, and the three Go types as the implementation prints them *)
Record case := mkCase { c_column : gval; c_plain : gotype; c_enums : gotype; c_native : gotype }.

Definition gotype_eqb (a b : gotype) : bool :=
  (fix eq (a b : gotype) : bool :=
     match a, b with
     | TyInt, TyInt | TyFloat, TyFloat | TyBool, TyBool | TyString, TyString | TyInvalid, TyInvalid => true
     | TyPtr x, TyPtr y | TySlice x, TySlice y | TyAlias x, TyAlias y => eq x y
     | TyMap k v, TyMap k' v' => eq k k' && eq v v'
     | _, _ => false
     end) a b.

Definition check (c : case) : nat :=
  match dec_column (c_column c) with
  | Ok w =>
      let m := mcol_of w in
      first_fail [ (1, gotype_eqb (field_type false m) (c_plain c));
                   (2, gotype_eqb (field_type true m) (c_enums c));
                   (3, gotype_eqb (native_type m) (c_native c)) ]
  | _ => 9
  end%nat.

Definition run := run_cases check.
