(** Correspondence runner for C10 (DESIGN.md 7/C10).
    A case carries the column values [a], [b], a peer-sent difference [d],
    and what the implementation produced through
    ModelUpdates.AddOperation(update) and ModelUpdates.AddRowUpdate2(Modify). *)
From LOV Require Import Upd.Diff Upd.DiffList Corr.Common.
From Coq Require Import List.
Import ListNotations.

Record case := mk {
  c_a : lvalue; c_b : lvalue; c_d : lvalue;
  o_diff : option lvalue;   (* Modify[col] after update a -> b, None when absent *)
  o_new1 : lvalue;          (* the new model's column after the update *)
  o_mut1 : bool;            (* input model observed changed *)
  o_upd2 : bool;            (* AddRowUpdate2(Modify d) produced an update *)
  o_new2 : lvalue;          (* resulting column (a itself when no update) *)
  o_mut2 : bool
}.

Definition opt_value_eqb (x y : option value) : bool := bool_decide (x = y).

Definition check (c : case) : nat :=
  let a := canon (c_a c) in let b := canon (c_b c) in let d := canon (c_d c) in
  first_fail [
    (1, opt_value_eqb (vdiff a b) (option_map canon (o_diff c)));
    (2, value_eqb b (canon (o_new1 c)));
    (3, negb (o_mut1 c));
    (4, value_eqb (vapply a (Some d)) (canon (o_new2 c)));
    (5, Bool.eqb (vapply_changed a (Some d)) (o_upd2 c));
    (6, negb (o_mut2 c));
    (* the list-layer algorithm (difference.go transcribed) agrees as well *)
    (7, opt_value_eqb (option_map canon (lv_diff (c_a c) (c_b c))) (option_map canon (o_diff c)))
  ].

Definition run := run_cases check.
