(** Correspondence runner for C07 (and the server side of C01): transactions
    are sent to a real OvsdbServer over a socket; raw JSON-RPC peers hold
    monitors (both encodings, arbitrary requests) established at some point of
    the history.  Every message each peer receives, and each initial dump, is
    compared with [notify] / [dump]; results and database contents as in
    Corr/Txn.v. *)
From LOV Require Export Corr.Txn Srv.Monitor.

Inductive oentry := OIns (r : lrow) | OMod (d : lrow) | ODel | O1 (old new : option lrow).
Notation omsg := (list (sym * list (sym * oentry))).

Record monspec := mkMon {
  m_enc : enc; m_req : list (sym * mreq);
  m_after : nat;                               (* established after this many transactions *)
  m_dump : list (sym * list (sym * lrow))      (* the initial contents it was sent *)
}.

Record case := mk {
  c_schema : schema; c_mons : list monspec;
  c_txns : list (list nlop * tobs * list (option omsg))   (* per transaction: one slot per monitor *)
}.

Definition entry_ok (T : table) (q : mreq) (m : entry) (o : oentry) : bool :=
  match m, o with
  | EInsert r, OIns w => bool_decide (r = pc q (fill_row T (mkrow w)))
  | EModify d, OMod w => bool_decide (d = mkrow w)
  | EDelete, ODel => true
  | E1 mo mn, O1 oo on => bool_decide (mo = option_map mkrow oo) && bool_decide (mn = option_map mkrow on)
  | _, _ => false
  end.

Definition tbl_msg_ok (T : table) (q : mreq) (es : gmap sym entry) (obs : list (sym * oentry)) : bool :=
  Nat.eqb (size es) (length obs) &&
  forallb (fun uo => match es !! fst uo with Some m => entry_ok T q m (snd uo) | None => false end) obs.

Definition msg_ok (S : schema) (R : request) (m : option (list (sym * gmap sym entry))) (o : option omsg) : bool :=
  match m, o with
  | None, None => true
  | Some ml, Some ol =>
      Nat.eqb (length ml) (length ol) &&
      forallb (fun to => match List.find (fun p => N.eqb (fst p) (fst to)) ml, req_for R (fst to) with
                         | Some (_, es), Some q => tbl_msg_ok (find_T S (fst to)) q es (snd to)
                         | _, _ => false
                         end) ol
  | _, _ => false
  end.

Definition dump_ok (S : schema) (R : request) (d : dbstate) (obs : list (sym * list (sym * lrow))) : bool :=
  let m := dump S R d in
  Nat.eqb (length m) (length obs) &&
  forallb (fun to => match List.find (fun p => N.eqb (fst p) (fst to)) m, req_for R (fst to) with
                     | Some (_, tb), Some q =>
                         bool_decide (tb = list_to_map ((fun ur => (fst ur, pc q (fill_row (find_T S (fst to)) (mkrow (snd ur))))) <$> snd to))
                     | _, _ => false
                     end) obs.

Fixpoint mons_ok (S : schema) (i : nat) (d d' : dbstate) (committed : bool) (mons : list monspec) (obs : list (option omsg)) : bool :=
  match mons, obs with
  | [], [] => true
  | mn :: mons', o :: obs' =>
      (if Nat.leb (m_after mn) i
       then msg_ok S (m_req mn) (if committed then notify S (m_req mn) (m_enc mn) d d' else None) o
       else match o with None => true | Some _ => false end)
      && mons_ok S i d d' committed mons' obs'
  | _, _ => false
  end.

Fixpoint check_txns (S : schema) (mons : list monspec) (d : dbstate) (i : nat)
    (l : list (list nlop * tobs * list (option omsg))) : nat :=
  (* dumps of the monitors established at this point *)
  if negb (forallb (fun mn => negb (Nat.eqb (m_after mn) i) || dump_ok S (m_req mn) d (m_dump mn)) mons) then 5
  else
  match l with
  | [] => 0
  | (lops, ob, msgs) :: l' =>
    let nops := map mk_nop lops in
    let ops := match expand nops with Ok o => o | _ => map n_op nops end in
    let r := transact_named S d nops in
    let d' := commit d r in
    let t := first_fail [ (1, results_ok S ops (fst r) (t_results ob));
                          (2, state_ok d' (t_state ob));
                          (4, mons_ok S i d d' (match snd r with Some _ => true | None => false end) mons msgs) ] in
    match t with
    | 0 => check_txns S mons d' (Datatypes.S i) l'
    | _ => t
    end
  end.

Definition check (c : case) : nat := check_txns (c_schema c) (c_mons c) ∅ 0 (c_txns c).
Definition run := run_cases check.
