(** Correspondence runner for C08: the same table contents and condition
    lists are evaluated by RowCache.RowsByCondition under several index
    configurations; every answer must equal the model's (with its faithful
    pre-filter) and the declarative filter. *)
From LOV Require Export Corr.Common Corr.Rows Cache.Select.


Record cfgobs := mkCfg { g_specs : list ispec; g_res : list (option (list sym)) }.
Record case := mk { c_rows : list (sym * lrow); c_conds : list (list lcond); c_cfgs : list cfgobs }.

Fixpoint build (T : table) (specs : list ispec) (c : rc) (rows : list (sym * lrow)) : rc :=
  match rows with
  | [] => c
  | (u, r) :: rows' =>
    match rc_create T specs false c u (fill_row T (mkrow r)) with
    | COk c' => build T specs c' rows'
    | CErr _ => c
    end
  end.

Definition res_ok (T : table) (specs : list ispec) (c : rc) (cs : list cond) (o : option (list sym)) : nat :=
  match o with
  | None => 3
  | Some us =>
    let obs : gset sym := list_to_set us in
    if negb (bool_decide (rows_by_condition T specs c cs = obs)) then 1
    else if negb (bool_decide (dom (filter_rows (rc_rows c) cs) = obs)) then 2
    else 0
  end.

Fixpoint first_nonzero (l : list nat) : nat :=
  match l with [] => 0 | 0 :: l' => first_nonzero l' | t :: _ => t end.

Definition check_cfg (T : table) (rows : list (sym * lrow)) (conds : list (list cond)) (g : cfgobs) : nat :=
  let c := build T (g_specs g) (rc_empty (g_specs g)) rows in
  if negb (Nat.eqb (length conds) (length (g_res g))) then 4
  else first_nonzero (zip_with (res_ok T (g_specs g) c) conds (g_res g)).

Definition check (T : table) (c : case) : nat :=
  let conds := map (map mk_cond) (c_conds c) in
  if negb (forallb (conds_valid T) conds) then 5
  else first_nonzero (map (check_cfg T (c_rows c) conds) (c_cfgs c)).

Definition run (T : table) := run_cases (check T).
