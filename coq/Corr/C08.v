(** Correspondence runner for C08: the same table contents and condition
    lists are evaluated by RowCache.RowsByCondition under several index
    configurations; every answer must equal the model's (with its faithful
    pre-filter) and the declarative filter. *)
From LOV Require Export Corr.Common Corr.Rows Cache.Select Cli.CondApi.


Record cfgobs := mkCfg { g_specs : list ispec; g_res : list (option (list sym)) }.
Record qcase := mk { c_rows : list (sym * lrow); c_conds : list (list lcond); c_cfgs : list cfgobs }.

Fixpoint build (T : table) (specs : list ispec) (c : rc) (rows : list (sym * lrow)) : rc :=
  match rows with
  | [] => c
  | (u, r) :: rows' =>
    match rc_create T specs false c u (fill_row T (mkrow r)) with
    | COk c' => build T specs c' rows'
    | CErr _ => c
    end
  end.

Definition res_ok (T : table) (specs : list ispec) (c : rc) (cs : list cond) (o : option (list sym)) : nat :=
  match o with
  | None => 3
  | Some us =>
    let obs : gset sym := list_to_set us in
    if negb (bool_decide (rows_by_condition T specs c cs = obs)) then 1
    else if negb (bool_decide (dom (filter_rows (rc_rows c) cs) = obs)) then 2
    else 0
  end.

Fixpoint first_nonzero (l : list nat) : nat :=
  match l with [] => 0 | 0 :: l' => first_nonzero l' | t :: _ => t end.

Definition check_cfg (T : table) (rows : list (sym * lrow)) (conds : list (list cond)) (g : cfgobs) : nat :=
  let c := build T (g_specs g) (rc_empty (g_specs g)) rows in
  if negb (Nat.eqb (length conds) (length (g_res g))) then 4
  else first_nonzero (zip_with (res_ok T (g_specs g) c) conds (g_res g)).

Definition check_query (T : table) (c : qcase) : nat :=
  let conds := map (map mk_cond) (c_conds c) in
  if negb (forallb (conds_valid T) conds) then 5
  else first_nonzero (map (check_cfg T (c_rows c) conds) (c_cfgs c)).

(** * the conditional API: one client (real server, synchronised cache), one
    conditional, its List(), the operations one API call generates, and the
    table after they were executed *)
Inductive lconditional :=
| LModels (ms : list (option sym * lrow))
| LExplicit (any : list (list lcond))
| LPredicate (cs : list lcond).

Inductive lkind := LDelete | LUpdate (explicit : bool) (w : lrow) | LMutate (ms : list lmut).

Record acase := mkApi {
  a_specs : list ispec;
  a_indexes : list (list sym);                 (* the schema indexes of the table *)
  a_rows : list (sym * lrow);
  a_cond : lconditional;
  a_kind : lkind;
  a_list : option (list sym);                  (* List(): None = error *)
  a_wheres : option (list (list lcond));       (* the where of each generated operation, in the order generated *)
  a_after : option (list (sym * lrow)) }.      (* the table after Transact(ops): None = not committed *)

Definition mk_conditional (T : table) (l : lconditional) : conditional :=
  match l with
  | LModels ms => CModels (map (fun m => (fst m, fill_row T (mkrow (snd m)))) ms)
  | LExplicit any => CExplicit (map (map mk_cond) any)
  | LPredicate cs => CPredicate (map mk_cond cs)
  end.
Definition mk_kind (k : lkind) : akind :=
  match k with LDelete => ADelete | LUpdate e w => AUpdate e (mkrow w) | LMutate ms => AMutate (map mk_mut ms) end.

Definition conds_eqb (a b : list cond) : bool := bool_decide (a = b).
Fixpoint remove_first (x : list cond) (l : list (list cond)) : option (list (list cond)) :=
  match l with
  | [] => None
  | y :: l' => if conds_eqb x y then Some l' else option_map (cons y) (remove_first x l')
  end.
Fixpoint is_perm (a b : list (list cond)) : bool :=
  match a with
  | [] => match b with [] => true | _ => false end
  | x :: a' => match remove_first x b with Some b' => is_perm a' b' | None => false end
  end.

Definition op_where (o : op) : list cond :=
  match o with OUpdate _ wh _ | OMutate _ wh _ | ODelete _ wh => wh | _ => [] end.
Definition set_where (o : op) (wh : list cond) : op :=
  match o with
  | OUpdate t _ w => OUpdate t wh w | OMutate t _ ms => OMutate t wh ms | ODelete t _ => ODelete t wh
  | _ => o
  end.

Definition check_api (T0 : table) (a : acase) : nat :=
  let T := mkTable (t_name T0) (t_cols T0) (a_indexes a) (t_root T0) in
  let S := mkSchema [T] in
  let specs := a_specs a in
  let c := build T specs (rc_empty specs) (a_rows a) in
  let cd := mk_conditional T (a_cond a) in
  let ms := matches T specs c cd in
  match a_list a with
  | None => 10
  | Some l =>
    if negb (bool_decide (ms = list_to_set l)) then 11
    else
      match api_ops T specs c cd (mk_kind (a_kind a)), a_wheres a with
      | None, None => 0
      | None, Some _ => 12
      | Some _, None => 13
      | Some ops, Some whs =>
        let whs' := map (map mk_cond) whs in
        if negb (is_perm (map op_where ops) whs') then 14
        else
          (* execute in the order the implementation generated *)
          let ops' := match ops with o :: _ => map (set_where o) whs' | [] => [] end in
          let d : dbstate := {[ t_name T := rc_rows c ]} in
          match transact S d ops', a_after a with
          | (_, None), None => 0
          | (_, Some d'), Some rows =>
              if bool_decide (get_tbl d' (t_name T) = list_to_map (map (fun ur => (fst ur, mkrow (snd ur))) rows)) then 0 else 15
          | (_, None), Some _ => 16
          | (_, Some _), None => 17
          end
      end
  end.

Inductive case := CQuery (q : qcase) | CApi (a : acase).

Definition check (T : table) (c : case) : nat :=
  match c with CQuery q => check_query T q | CApi a => check_api T a end.

Definition run (T : table) := run_cases (check T).
