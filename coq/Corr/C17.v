(** Correspondence for C17: transactions submitted concurrently by several
    clients to a real server.  The harness reports the committed
    transactions in the order in which a monitor was notified of them, each
    with the results its client received, the failed ones separately, and the
    final database.  The model executes the committed ones serially in that
    order; every failed one must have its observed results at some point of
    that serial execution. *)
From LOV Require Export Corr.Txn Srv.Serial.
From Coq Require Import List.
Import ListNotations.

Record case := mk {
  c_schema : schema;
  c_setup : list (list nlop);                       (* sequential prefix populating the database *)
  c_committed : list (list nlop * list oresult);    (* in notification order *)
  c_failed : list (list nlop * list oresult);
  c_final : list (sym * list (sym * lrow));
  c_orders_agree : bool }.                          (* all monitors saw the same order (harness observation) *)

Definition ops_of (l : list nlop) : list op := map mk_op (map fst l).

Fixpoint run_setup (S : schema) (d : dbstate) (l : list (list nlop)) : dbstate :=
  match l with [] => d | t :: l' => run_setup S (commit d (transact S d (ops_of t))) l' end.

(** serial execution, checking results; returns the states before each transaction and the final one *)
Fixpoint serial_check (S : schema) (d : dbstate) (l : list (list nlop * list oresult)) (acc : list dbstate) : option (list dbstate) :=
  match l with
  | [] => Some (acc ++ [d])
  | (t, os) :: l' =>
      let r := transact S d (ops_of t) in
      if results_ok S (ops_of t) r.1 os && committed r then serial_check S (commit d r) l' (acc ++ [d]) else None
  end.

Definition failed_somewhere (S : schema) (states : list dbstate) (f : list nlop * list oresult) : bool :=
  existsb (fun d => let r := transact S d (ops_of f.1) in results_ok S (ops_of f.1) r.1 f.2 && negb (committed r)) states.

Definition check (c : case) : nat :=
  let S := c_schema c in
  let d0 := run_setup S ∅ (c_setup c) in
  if negb (c_orders_agree c) then 5 else
  match serial_check S d0 (c_committed c) [] with
  | None => 1
  | Some states =>
      first_fail [ (2, state_ok (List.last states ∅) (c_final c));
                   (4, forallb (failed_somewhere S states) (c_failed c)) ]
  end%nat.

Definition run := run_cases check.
