(** Correspondence runner for C01: a real client (client.OVSDBClient) holds
    one or two monitors on disjoint tables of a real server; a writer peer and
    the client itself commit a history.  After every transaction the client's
    cache (Cache().Table(t).Rows()) is compared with the monitored part of the
    model's database ([proj_db]); results and database contents as in
    Corr/Txn.v. *)
From LOV Require Export Corr.Txn Cli.Replica.

Record cmon := mkCMon { cm_req : request; cm_after : nat }.

Record case := mk {
  c_schema : schema; c_mons : list cmon;
  c_txns : list (list nlop * tobs * list (sym * list (sym * lrow)))   (* cache tables after the transaction *)
}.

(** the request covering table [t] among the monitors established so far *)
Fixpoint covering (mons : list cmon) (i : nat) (t : sym) : option mreq :=
  match mons with
  | [] => None
  | m :: mons' =>
    if Nat.leb (cm_after m) i
    then match cm_req m with
         | [] => Some default_req
         | R => match req_for R t with Some q => Some q | None => covering mons' i t end
         end
    else covering mons' i t
  end.

Definition cache_tbl_ok (S : schema) (mons : list cmon) (i : nat) (d : dbstate) (t : sym) (obs : list (sym * lrow)) : bool :=
  match covering mons i t with
  | Some q => bool_decide (pc q <$> get_tbl d t
                           = list_to_map ((fun ur => (fst ur, pc q (fill_row (find_T S t) (mkrow (snd ur))))) <$> obs))
  | None => match obs with [] => true | _ => false end
  end.

Fixpoint check_txns (S : schema) (mons : list cmon) (d : dbstate) (i : nat)
    (l : list (list nlop * tobs * list (sym * list (sym * lrow)))) : nat :=
  match l with
  | [] => 0
  | (lops, ob, cache) :: l' =>
    let nops := map mk_nop lops in
    let ops := match expand nops with Ok o => o | _ => map n_op nops end in
    let r := transact_named S d nops in
    let d' := commit d r in
    let t := first_fail [ (1, results_ok S ops (fst r) (t_results ob));
                          (2, state_ok d' (t_state ob));
                          (6, forallb (fun to => cache_tbl_ok S mons i d' (fst to) (snd to)) cache) ] in
    match t with
    | 0 => check_txns S mons d' (Datatypes.S i) l'
    | _ => t
    end
  end.

Definition check (c : case) : nat := check_txns (c_schema c) (c_mons c) ∅ 0 (c_txns c).
Definition run := run_cases check.
