(** Shared runner for the correspondence checks: a per-case checker returns a
    tag (0 = model and implementation agree; 1..99 = a mismatch, the number
    says which observable; >= 100 = the input lies in known-finding class
    [tag - 100] and the implementation deviates there).  [run_cases] returns
    (index, tag) for at most the first 20 non-agreeing cases, known-class
    hits and mismatches separately, plus the total counts. *)
From Coq Require Import List Arith NArith.
Import ListNotations.

Fixpoint tags_from {C} (chk : C -> nat) (i : nat) (cs : list C) : list (nat * nat) :=
  match cs with
  | [] => []
  | c :: cs' =>
      let t := chk c in
      if Nat.eqb t 0 then tags_from chk (S i) cs' else (i, t) :: tags_from chk (S i) cs'
  end.

Record verdict := { v_total : nat; v_mismatch : nat; v_known : nat;
                    v_first_mismatch : list (nat * nat); v_first_known : list (nat * nat) }.

Definition run_cases {C} (chk : C -> nat) (cs : list C) : verdict :=
  let ts := tags_from chk 0 cs in
  let mm := filter (fun p => Nat.ltb (snd p) 100) ts in
  let kn := filter (fun p => negb (Nat.ltb (snd p) 100)) ts in
  {| v_total := length cs; v_mismatch := length mm; v_known := length kn;
     v_first_mismatch := firstn 20 mm; v_first_known := firstn 20 kn |}.

(** first failing check of a list of (tag, ok) pairs *)
Fixpoint first_fail (l : list (nat * bool)) : nat :=
  match l with
  | [] => 0
  | (t, ok) :: l' => if ok then first_fail l' else t
  end.
