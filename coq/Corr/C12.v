(** Correspondence for C12: the encoders and decoders of the wire model against
    MarshalJSON / UnmarshalJSON on structurally generated protocol values. *)
From LOV Require Export Wire.Decode Wire.Encode Wire.SchemaCodec Wire.Operation Corr.Common.
From Coq Require Import List.
Import ListNotations.

Inductive target := RValue | RSet | RMap | RUuid | RRow | RCond | RMut | RBase | RColTy | RColumn.
(** [c_v] the value (for the schema targets: the generated JSON), [c_enc] the
    implementation's encoding (schema targets: the re-encoding of the decoded
    value), [c_dec] what the implementation decodes from its own encoding,
    [c_uuids] the strings that are well-formed uuids. *)
Record vcase := mkVCase { c_t : target; c_v : gval; c_enc : gval; c_dec : gval; c_uuids : list sym }.
(** an operation: the value, the implementation's encoding, what the implementation decodes from it *)
Inductive case := CVal (c : vcase) | COp (w : wop) (enc : gval) (dec : wop) (uuids : list sym).
Definition mkCase t v e d u := CVal (mkVCase t v e d u).

Definition FUEL := 64%nat.
Definition eqv := geqv FUEL.

Definition triple_out (r : res (sym * sym * gval)) : res gval :=
  t <- r ;; Ok (GArr [GStr t.1.1; GStr t.1.2; t.2]).

Definition model_enc (vu : sym -> bool) (t : target) (v : gval) : option gval :=
  match t, v with
  | RValue, _ | RMap, _ => Some (enc_value vu v)
  | RSet, GSet l => Some (enc_set vu l)
  | RUuid, _ => Some (enc_atom vu v)
  | RRow, GObj r => Some (enc_row vu r)
  | (RCond | RMut), GArr [GStr c; GStr f; x] => Some (enc_triple vu (c, f, x))
  | RBase, _ => match dec_base v with Ok b => Some (enc_base b) | _ => None end
  | RColTy, _ => match dec_colty v with Ok b => Some (enc_colty b) | _ => None end
  | RColumn, _ => match dec_column v with Ok b => Some (enc_column b) | _ => None end
  | _, _ => None
  end.

Definition model_dec (t : target) (j : gval) : res gval :=
  match t with
  | RValue => notation FUEL j
  | RSet => dec_set FUEL j
  | RMap => dec_map FUEL j
  | RUuid => dec_uuid j
  | RRow => r <- dec_row FUEL j ;; Ok (GObj r)
  | RCond => triple_out (dec_condition FUEL j)
  | RMut => triple_out (dec_mutation FUEL j)
  | RBase => b <- dec_base j ;; Ok (enc_base b)
  | RColTy => c <- dec_colty j ;; Ok (enc_colty c)
  | RColumn => c <- dec_column j ;; Ok (enc_column c)
  end.

Definition is_schema (t : target) : bool :=
  match t with RBase | RColTy | RColumn => true | _ => false end.

Definition row_eqv (a b : wrow) : bool := eqv (GObj a) (GObj b).
Definition triple_eqv (a b : wtriple) : bool := N.eqb a.1.1 b.1.1 && N.eqb a.1.2 b.1.2 && eqv a.2 b.2.
Definition oeqb {A} (e : A -> A -> bool) (a b : option A) : bool :=
  match a, b with Some x, Some y => e x y | None, None => true | _, _ => false end.
Definition wop_eqv (a b : wop) : bool :=
  N.eqb (o_op a) (o_op b) && N.eqb (o_table a) (o_table b) && row_eqv (o_row a) (o_row b) &&
  list_eqv row_eqv (o_rows a) (o_rows b) && list_eqv N.eqb (o_columns a) (o_columns b) &&
  list_eqv triple_eqv (o_mutations a) (o_mutations b) && oeqb Z.eqb (o_timeout a) (o_timeout b) &&
  list_eqv triple_eqv (o_where a) (o_where b) && N.eqb (o_until a) (o_until b) &&
  oeqb Bool.eqb (o_durable a) (o_durable b) && oeqb N.eqb (o_comment a) (o_comment b) &&
  oeqb N.eqb (o_lock a) (o_lock b) && N.eqb (o_uuid a) (o_uuid b) && N.eqb (o_uuid_name a) (o_uuid_name b).

Definition check_op (w : wop) (enc : gval) (dec : wop) (uuids : list sym) : nat :=
  let vu s := existsb (N.eqb s) uuids in
  first_fail
    [ (11, eqv (enc_op vu w) enc);
      (12, match dec_op FUEL enc with Ok d => wop_eqv d dec | _ => false end);
      (13, wop_eqv dec w) ]%nat.

Definition check_val (c : vcase) : nat :=
  let vu s := existsb (N.eqb s) (c_uuids c) in
  first_fail
    [ (1, match model_enc vu (c_t c) (c_v c) with Some e => eqv e (c_enc c) | None => false end);
      (2, match model_dec (c_t c) (c_enc c) with
          | Ok d => eqv d (if is_schema (c_t c) then c_enc c else c_dec c)
          | _ => false end);
      (3, is_schema (c_t c) || eqv (c_dec c) (c_v c)) ]%nat.

Definition check (c : case) : nat :=
  match c with CVal v => check_val v | COp w e d u => check_op w e d u end.
Definition run := run_cases check.
